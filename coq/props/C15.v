(* C15 — Bulk ingest acknowledges exactly what it stored.
   Statements only; proofs are in SigP.BulkProofs.  The model (SigM.Bulk) follows
   HandleBulkBody; [b] ranges over ALL bodies (lists of classified segments),
   [actions (body_lines b)] is the bulk grammar's reading of the body, [handle] the
   code's response and the documents that reach the store, [store_ok] which indexes
   accept their batch. *)
From SigM Require Import Base Bulk.
From SigP Require Import BaseProofs BulkProofs.
Open Scope N_scope.

(* ---- one item per action, in request order ----
   Full statement (FALSE for the code, see _refuted):
     forall b, length (r_items (handle so b)) = length (actions (body_lines b)).
   The code breaks out of its ReadLine loop when nothing follows the action line,
   before it counts the action: the guard is exact (iff). *)
Theorem C15_one_item_per_action_guarded : forall so b,
  ends_with_doc (actions (body_lines b)) = true ->
  length (r_items (handle so b)) = length (actions (body_lines b)).
Proof. exact one_item_per_action_guarded. Qed.
Print Assumptions C15_one_item_per_action_guarded.

Theorem C15_one_item_per_action_exact : forall so b,
  length (r_items (handle so b)) = length (actions (body_lines b))
  <-> ends_with_doc (actions (body_lines b)) = true.
Proof. exact one_item_per_action_exact. Qed.
Print Assumptions C15_one_item_per_action_exact.

(* outside the guard exactly one item is missing: the last action's *)
Theorem C15_trailing_action_dropped : forall so b,
  ends_with_doc (actions (body_lines b)) = false ->
  S (length (r_items (handle so b))) = length (actions (body_lines b)).
Proof. exact trailing_action_dropped. Qed.
Print Assumptions C15_trailing_action_dropped.

Theorem C15_one_item_per_action_refuted : exists b,
  length (r_items (handle all_ok b)) <> length (actions (body_lines b)).
Proof. exact one_item_per_action_refuted. Qed.
Print Assumptions C15_one_item_per_action_refuted.

Example C15_guard_ends_with_doc_satisfiable :
  ends_with_doc (actions (body_lines w_good)) = true /\ length (actions (body_lines w_good)) = 4%nat.
Proof. vm_compute. split; reflexivity. Qed.

(* ---- created iff stored exactly once; failed items are not stored ----
   Full statement (FALSE when a store call fails, see _refuted): the same without
   the [stores_ok] hypothesis.  [NoDup] says the request's documents are distinct,
   which is what gives "exactly once" a meaning. *)
Theorem C15_created_iff_stored_guarded : forall so b,
  stores_ok so (actions (body_lines b)) = true ->
  NoDup (flat_map act_doc (actions (body_lines b))) ->
  forall i a st,
    nth_error (actions (body_lines b)) i = Some a ->
    nth_error (r_items (handle so b)) i = Some st ->
    (st = 201 -> exists k, act_doc a = [k] /\ count_occ key_dec (r_stored (handle so b)) k = 1%nat) /\
    (st <> 201 -> forall k, In k (act_doc a) -> count_occ key_dec (r_stored (handle so b)) k = 0%nat).
Proof. exact created_iff_stored_guarded. Qed.
Print Assumptions C15_created_iff_stored_guarded.

(* nothing else reaches the store: it holds exactly the documents of the well-formed
   write actions, in request order *)
Theorem C15_stored_are_created_docs : forall so b,
  stores_ok so (actions (body_lines b)) = true ->
  r_stored (handle so b) = flat_map act_doc (filter act_ok (actions (body_lines b))).
Proof. exact stored_are_created_docs. Qed.
Print Assumptions C15_stored_are_created_docs.

Theorem C15_created_iff_stored_refuted : exists so b i a k,
  nth_error (actions (body_lines b)) i = Some a /\
  nth_error (r_items (handle so b)) i = Some 201 /\
  In k (act_doc a) /\ count_occ key_dec (r_stored (handle so b)) k = 0%nat.
Proof. exact created_iff_stored_refuted. Qed.
Print Assumptions C15_created_iff_stored_refuted.

Example C15_guard_stores_ok_satisfiable :
  stores_ok all_ok (actions (body_lines w_good)) = true /\
  r_stored (handle all_ok w_good) = [(1, 1); (2, 2)].
Proof. vm_compute. split; reflexivity. Qed.

(* ---- the errors flag ----
   Full statement (FALSE, see _refuted):
     forall b, r_errors (handle so b) = true <-> exists st, In st items /\ st <> 201.
   What the flag means for every body: some item has status 400. *)
Theorem C15_errors_flag_iff_some_failed_guarded : forall so b,
  no_oversize (actions (body_lines b)) = true ->
  (r_errors (handle so b) = true <->
   exists st, In st (r_items (handle so b)) /\ st <> 201).
Proof. exact errors_flag_iff_some_failed_guarded. Qed.
Print Assumptions C15_errors_flag_iff_some_failed_guarded.

Theorem C15_errors_flag_iff_some_400 : forall so b,
  r_errors (handle so b) = true <-> In 400 (r_items (handle so b)).
Proof. exact errors_flag_iff_some_400. Qed.
Print Assumptions C15_errors_flag_iff_some_400.

Theorem C15_errors_flag_iff_some_failed_refuted : exists b,
  r_errors (handle all_ok b) = false /\
  exists st, In st (r_items (handle all_ok b)) /\ st <> 201.
Proof. exact errors_flag_iff_some_failed_refuted. Qed.
Print Assumptions C15_errors_flag_iff_some_failed_refuted.

(* the whole-request error ("all bulk requests failed") iff no item is created *)
Theorem C15_all_failed_iff_no_created : forall so b,
  r_allfailed (handle so b) = true <-> ~ In 201 (r_items (handle so b)).
Proof. exact all_failed_iff_no_created. Qed.
Print Assumptions C15_all_failed_iff_no_created.

(* ---- a malformed, oversized or unknown action affects only its own item ----
   Stated as: the i-th item is a function of the i-th action alone.
   Whether the item says "created" is local for EVERY body; the exact status code
   (Full statement, FALSE, see _refuted: the same without [no_oversize]) is local
   when no document is oversize: maxRecordSizeExceeded is never reset, so every
   later failing item reports 413. *)
Theorem C15_success_is_local : forall so b i a st,
  nth_error (actions (body_lines b)) i = Some a ->
  nth_error (r_items (handle so b)) i = Some st ->
  created st = act_ok a.
Proof. exact success_is_local. Qed.
Print Assumptions C15_success_is_local.

Theorem C15_failure_is_local_guarded : forall so b,
  no_oversize (actions (body_lines b)) = true ->
  forall i a st,
    nth_error (actions (body_lines b)) i = Some a ->
    nth_error (r_items (handle so b)) i = Some st ->
    st = expected_status a.
Proof. exact failure_is_local_guarded. Qed.
Print Assumptions C15_failure_is_local_guarded.

Theorem C15_failure_is_local_refuted : exists b i a st,
  nth_error (actions (body_lines b)) i = Some a /\
  nth_error (r_items (handle all_ok b)) i = Some st /\ st <> expected_status a.
Proof. exact failure_is_local_refuted. Qed.
Print Assumptions C15_failure_is_local_refuted.

Example C15_guard_no_oversize_satisfiable :
  no_oversize (actions (body_lines w_good)) = true /\
  r_items (handle all_ok w_good) = [201; 400; 400; 201] /\ r_errors (handle all_ok w_good) = true.
Proof. vm_compute. repeat split; reflexivity. Qed.

(* C16 — Ingest protocols preserve content and time.
   "The same logical event delivered through any supported protocol (Elasticsearch
   bulk/doc, Splunk HEC, Loki push, OTLP logs and traces, OpenTSDB put, Prometheus remote
   write, OTLP metrics) is stored with all of its fields, attributes and identifiers intact
   and with the event time it carried; the time of arrival is used only when the event
   has no time of its own."
   Statements only; proofs are in SigP.ProtoProofs.  Strings are byte lists (s2b "...").
   [final_ts x e index dec now0 tsNow clock] is the stored time of flattened event e:
   GetNewPLE, then the decoder's own time [dec], then ProcessIndexRequestPle. *)
From SigM Require Import Base Proto.
From SigP Require Import BaseProofs ProtoProofs.
From Coq Require Import String.
Open Scope N_scope.

(* ---------- timestamp units (pkg/utils/dateutils.go), for ALL values ---------- *)

(* a value below 99999999999 is seconds: the same instant in ms (string and number form) *)
Theorem C16_ts_seconds : forall s, s < MILLI_T ->
  str_ts_ms s = s * 1000 /\ num_ts_ms (Z.of_N s) = s * 1000.
Proof. exact ts_seconds_all. Qed.
Print Assumptions C16_ts_seconds.

(* from 99999999999 up to 1e18 (strings) / 2^63 (numbers) a value is milliseconds *)
Theorem C16_ts_millis : forall m, MILLI_T <= m ->
  (m < NANO_T -> str_ts_ms m = m) /\ (m < 9223372036854775808 -> num_ts_ms (Z.of_N m) = m).
Proof. exact ts_millis_all. Qed.
Print Assumptions C16_ts_millis.

(* a digit string from 1e18 on is nanoseconds *)
Theorem C16_ts_nanos : forall n, NANO_T <= n -> str_ts_ms n = n / 1000000.
Proof. exact ts_nanos_all. Qed.
Print Assumptions C16_ts_nanos.

(* every non-negative integer is in exactly one unit class; the readers normalise by class;
   the boundaries are 99999999999 and 1e18; a JSON number is never read as nanoseconds *)
Theorem C16_ts_unit_ranges_partition :
  (forall v, (v < MILLI_T /\ str_unit_class v = USec) \/
             (MILLI_T <= v < NANO_T /\ str_unit_class v = UMilli) \/
             (NANO_T <= v /\ str_unit_class v = UNano)) /\
  (forall v, str_ts_ms v = instant_ms (str_unit_class v) v) /\
  (forall v, v < 9223372036854775808 -> num_ts_ms (Z.of_N v) = instant_ms (num_unit_class v) v) /\
  MILLI_T = 99999999999 /\ NANO_T = 1000000000000000000 /\
  str_unit_class 99999999998 = USec /\ str_unit_class 99999999999 = UMilli /\
  str_unit_class 999999999999999999 = UMilli /\ str_unit_class 1000000000000000000 = UNano /\
  num_unit_class 99999999998 = USec /\ num_unit_class 1000000000000000000 = UMilli.
Proof. exact unit_partition_all. Qed.
Print Assumptions C16_ts_unit_ranges_partition.

(* values of a unit outside its class denote another instant: a ms instant of 1973, a
   microsecond value, a numeric nanosecond value, a ns instant before 2001-09-09; time 0
   counts as "no time" *)
Theorem C16_ts_unit_misread_refuted :
  str_ts_ms 99999999998 <> instant_ms UMilli 99999999998 /\
  str_ts_ms 1600000000123456 <> 1600000000123456 / 1000 /\
  num_ts_ms 1600000000123456789 <> instant_ms UNano 1600000000123456789 /\
  str_ts_ms 999999999999999999 <> instant_ms UNano 999999999999999999 /\
  str_ts_ms 0 = 0.
Proof. exact unit_misread. Qed.
Print Assumptions C16_ts_unit_misread_refuted.

(* metric readers (uint32 seconds): OpenTSDB put, Prometheus remote write, OTLP metrics *)
Theorem C16_metric_ts_units :
  (forall s, s < 4294967296 -> otsdb_ts (Z.of_N s) = s /\ prom_ts (Z.of_N s) = s) /\
  (forall m, MILLI_T <= m -> m / 1000 < 4294967296 ->
             otsdb_ts (Z.of_N m) = m / 1000 /\ (m < NANO_T -> prom_ts (Z.of_N m) = m / 1000)) /\
  (forall n, NANO_T <= n -> n < 9223372036854775808 -> n / 1000000000 < 4294967296 ->
             prom_ts (Z.of_N n) = n / 1000000000 /\ otlp_metric_ts (Z.of_N n) = n / 1000000000).
Proof. exact metric_ts_all. Qed.
Print Assumptions C16_metric_ts_units.

(* ---------- the pipeline ---------- *)

(* whatever GetNewPLE or a protocol decoder stored as the event's time is overwritten *)
Theorem C16_final_ts_ignores_decoder : forall x e index dec dec' now0 now0' tsNow clock,
  final_ts x e index dec now0 tsNow clock = final_ts x e index dec' now0' tsNow clock.
Proof. exact final_ts_ignores_decoder. Qed.
Print Assumptions C16_final_ts_ignores_decoder.

(* ---------- Elasticsearch bulk / doc ---------- *)

(* the time carried in "timestamp" (number s/ms, digit string s/ms/ns, in range) is the
   stored time; arrival time only when the document has no timestamp *)
Theorem C16_event_time_preserved_es : forall x attrs index dec now0 tsNow clock, plain_index index ->
  (forall u v, in_range_num u v = true ->
     final_ts x (es_build (WNum (Z.of_N v)) attrs) index dec now0 tsNow clock = instant_ms u v) /\
  (forall u s v, parse_uint s = Some v -> in_range_str u v = true ->
     final_ts x (es_build (WStr s) attrs) index dec now0 tsNow clock = instant_ms u v) /\
  (lookup k_timestamp attrs = None ->
     final_ts x (es_build WNone attrs) index dec now0 tsNow clock = tsNow).
Proof. exact es_time_all. Qed.
Print Assumptions C16_event_time_preserved_es.

(* A numeric timestamp of ANY JSON spelling -- decimal fraction (1714352490.251), exponent form
   (1.714352490251e12), integer literal beyond int64 -- is read through the float fall-back of
   ExtractTimeStamp: with t = uint64(nearest float64), the stored time is the instant of t's unit
   class (seconds below 99999999999, else milliseconds); it is never the arrival time. *)
Theorem C16_event_time_numeric_any_spelling : forall x m ex attrs index dec now0 tsNow clock,
  plain_index index -> 0 < dec_u64 m ex -> dec_u64 m ex < 18446744073709551616 ->
  final_ts x (es_build (WDec m ex) attrs) index dec now0 tsNow clock =
  instant_ms (num_unit_class (dec_u64 m ex)) (dec_u64 m ex).
Proof. exact es_time_dec. Qed.
Print Assumptions C16_event_time_numeric_any_spelling.

Theorem C16_event_time_integer_beyond_int64 : forall x z attrs index dec now0 tsNow clock,
  plain_index index -> in_int64 z = false -> 0 < dec_u64 z 0 -> dec_u64 z 0 < 18446744073709551616 ->
  final_ts x (es_build (WNum z) attrs) index dec now0 tsNow clock =
  instant_ms (num_unit_class (dec_u64 z 0)) (dec_u64 z 0).
Proof. exact es_time_bigint. Qed.
Print Assumptions C16_event_time_integer_beyond_int64.

(* what the float reader returns for several spellings (seconds with a fraction lose it) *)
Theorem C16_float_reader_values :
  dec_u64 1714352490251 (-3) = 1714352490 /\
  dec_u64 1714352490251 0 = 1714352490251 /\
  dec_u64 17143524902515 (-1) = 1714352490251 /\
  dec_u64 1714352490 0 = 1714352490 /\
  dec_u64 17143524909999999999 (-10) = 1714352491 /\
  dec_u64 9223372036854775808 0 = 9223372036854775808 /\
  dec_u64 9223372036854775809 0 = 9223372036854775808 /\
  dec_u64 9007199254740993 0 = 9007199254740992.
Proof. exact dec_u64_values. Qed.
Print Assumptions C16_float_reader_values.

(* Full statement (FALSE for the code): the stored time is [dec_true_ms m ex], the instant the
   number denotes (seconds WITH their fraction, or milliseconds).  Guarded: the reader returns
   the exact integer part and the number is milliseconds or has no sub-second part. *)
Theorem C16_event_time_fraction_guarded : forall m ex,
  dec_u64 m ex = dec_floor m ex ->
  (is_time_in_milli (dec_floor m ex) = true \/ dec_floor m (ex + 3) = dec_floor m ex * 1000) ->
  instant_ms (num_unit_class (dec_u64 m ex)) (dec_u64 m ex) = dec_true_ms m ex.
Proof. exact es_time_dec_exact_guarded. Qed.
Print Assumptions C16_event_time_fraction_guarded.

(* 1714352490.251 denotes ...490251 ms and is stored as ...490000 ms *)
Theorem C16_event_time_fraction_refuted : exists m ex,
  dec_true_ms m ex = 1714352490251 /\
  instant_ms (num_unit_class (dec_u64 m ex)) (dec_u64 m ex) = 1714352490000.
Proof. exact es_fractional_seconds_refuted. Qed.
Print Assumptions C16_event_time_fraction_refuted.

Theorem C16_fields_preserved_es : forall t attrs k v,
  In (k, v) attrs -> k <> k_timestamp -> In (k, v) (stored_fields (es_build t attrs)).
Proof. exact es_field_kept. Qed.
Print Assumptions C16_fields_preserved_es.

Theorem C16_no_invented_fields_es : forall t attrs k v,
  In (k, v) (stored_fields (es_build t attrs)) -> In (k, v) attrs.
Proof. exact es_field_only. Qed.
Print Assumptions C16_no_invented_fields_es.

(* ---------- Splunk HEC ----------
   Full statement (FALSE for the code):
     final_ts x (hec_build h) index dec now0 tsNow clock
       = match hec_carried_ms h with Some t => t | None => tsNow end
   and  lookup (p_event ++ k) (hec_build h) = Some v  for every field (k, v) of the event. *)
Theorem C16_event_time_preserved_hec_guarded : forall x h index dec now0 tsNow clock,
  plain_index index -> hec_plain_keys h = true -> h_time h = None ->
  final_ts x (hec_build h) index dec now0 tsNow clock =
  match hec_carried_ms h with Some t => t | None => tsNow end.
Proof. exact hec_time_guarded. Qed.
Print Assumptions C16_event_time_preserved_hec_guarded.

(* the defect for all envelopes: "time" is never consulted *)
Theorem C16_hec_time_always_arrival : forall x h index dec now0 tsNow clock,
  plain_index index -> hec_plain_keys h = true ->
  final_ts x (hec_build h) index dec now0 tsNow clock = tsNow.
Proof. exact hec_time_always_arrival. Qed.
Print Assumptions C16_hec_time_always_arrival.

Theorem C16_event_time_preserved_hec_refuted : exists h tsNow,
  hec_plain_keys h = true /\
  final_ts no_ext (hec_build h) (h_index h) None tsNow tsNow tsNow <>
  match hec_carried_ms h with Some t => t | None => tsNow end.
Proof. exact hec_time_refuted. Qed.
Print Assumptions C16_event_time_preserved_hec_refuted.

(* event field k -> column "event."++k (injective: C16_column_names_injective); the value
   passes through float64: exact below 2^53 *)
Theorem C16_fields_preserved_hec_guarded : forall h fs k v,
  h_event h = HObj fs -> hec_plain_keys h = true -> lookup k fs = Some v -> exact53 v = true ->
  lookup (p_event ++ k) (hec_build h) = Some v.
Proof. exact hec_fields_guarded. Qed.
Print Assumptions C16_fields_preserved_hec_guarded.

Theorem C16_fields_preserved_hec_refuted : exists h fs k v,
  h_event h = HObj fs /\ hec_plain_keys h = true /\ lookup k fs = Some v /\
  lookup (p_event ++ k) (hec_build h) <> Some v.
Proof. exact hec_fields_refuted. Qed.
Print Assumptions C16_fields_preserved_hec_refuted.

(* integers pass through float64 and its shortest decimal text *)
Theorem C16_f64_round_witness : f64_text 9007199254740993 = 9007199254740992%Z /\
                                f64_text 9007199254740992 = 9007199254740992%Z /\
                                f64_text 9007199254740995 = 9007199254740996%Z /\
                                f64_text (-9007199254740993) = (-9007199254740992)%Z /\
                                f64_round 4611686018427387905 = 4611686018427387904%Z /\
                                f64_text 4611686018427387905 = 4611686018427388000%Z.
Proof. exact f64_round_witness. Qed.
Print Assumptions C16_f64_round_witness.

(* ---------- Loki push ---------- *)
(* every line of every stream is stored as [loki_line_spec labels l]: the labels + its own
   time, text and structured metadata, nothing of the lines before it *)
Theorem C16_fields_preserved_loki : forall labels pre l post,
  nth_error (loki_build labels (pre ++ l :: post)) (List.length pre) = Some (loki_line_spec labels l).
Proof. exact loki_fields. Qed.
Print Assumptions C16_fields_preserved_loki.

(* regression witness of the repaired defect: values [[t1,"one",{"trace":"T1"}],[t2,"two"]]:
   line two is stored without trace *)
Example C16_fixed_loki_metadata_not_carried :
  exists e, nth_error (loki_build [(s2b "job", SStr (s2b "j"))] [loki_w1; loki_w2]) 1 = Some e /\
            lookup (s2b "trace") e = None /\ lookup (s2b "job") e = Some (SStr (s2b "j")).
Proof. exact loki_fixed_no_carry. Qed.

Theorem C16_event_time_preserved_loki_guarded : forall x labels pre l post index dec now0 tsNow clock u v,
  plain_index index ->
  lookup k_timestamp (map_set_all (ll_meta l) []) = None ->
  parse_uint (ll_ts l) = Some v -> in_range_str u v = true ->
  exists e, nth_error (loki_build labels (pre ++ l :: post)) (List.length pre) = Some e /\
            final_ts x e index dec now0 tsNow clock = instant_ms u v.
Proof. exact loki_time_guarded. Qed.
Print Assumptions C16_event_time_preserved_loki_guarded.

(* ---- PRE-FIX documentation (about [loki_build_prefix], ONE map per stream reused for every
   line; no longer the code).  Before the fix the statement above held only under the guard
   "no earlier line of the stream has structured metadata" and was refuted without it
   (confirmed on the pre-fix code; the harness keeps the generator stream, a regression is
   class loki_metadata_leak). *)
Theorem C16_prefix_fields_preserved_loki_guarded : forall labels pre l post,
  Forall (fun l0 => ll_meta l0 = []) pre ->
  exists e, nth_error (loki_build_prefix labels (pre ++ l :: post)) (List.length pre) = Some e /\
            ev_equiv e (loki_line_spec labels l).
Proof. exact prefix_loki_fields_guarded. Qed.
Print Assumptions C16_prefix_fields_preserved_loki_guarded.

Theorem C16_prefix_loki_metadata_carried : forall labels pre l1 l2 post k v,
  lookup k (map_set_all (ll_meta l1) []) = Some v ->
  lookup k (map_set_all (ll_meta l2) []) = None ->
  bytes_eqb k_line k = false -> bytes_eqb k_timestamp k = false ->
  exists e, nth_error (loki_build_prefix labels (pre ++ l1 :: l2 :: post)) (S (List.length pre)) = Some e /\
            lookup k e = Some v.
Proof. exact prefix_loki_metadata_carried. Qed.
Print Assumptions C16_prefix_loki_metadata_carried.

Theorem C16_prefix_fields_preserved_loki_refuted : exists labels l1 l2 e k,
  nth_error (loki_build_prefix labels [l1; l2]) 1 = Some e /\
  lookup k e <> lookup k (loki_line_spec labels l2).
Proof. exact prefix_loki_fields_refuted. Qed.
Print Assumptions C16_prefix_fields_preserved_loki_refuted.

(* ---------- OTLP logs ----------
   Full statement (FALSE for the code):
     final_ts x (otlp_log_build res sc r) index (otlp_log_dec r) now0 tsNow clock
       = if 0 <? otlp_carried_ms r then otlp_carried_ms r else tsNow *)
Theorem C16_event_time_preserved_otlp_log_guarded : forall x res sc r index now0 tsNow clock,
  plain_index index -> otlp_carried_ms r = 0 ->
  final_ts x (otlp_log_build res sc r) index (otlp_log_dec r) now0 tsNow clock =
  if 0 <? otlp_carried_ms r then otlp_carried_ms r else tsNow.
Proof. exact otlp_log_time_guarded. Qed.
Print Assumptions C16_event_time_preserved_otlp_log_guarded.

(* the defect for all records: the stored JSON has time_unix_nano, not the timestamp key *)
Theorem C16_otlp_log_time_always_arrival : forall x res sc r index now0 tsNow clock,
  plain_index index ->
  final_ts x (otlp_log_build res sc r) index (otlp_log_dec r) now0 tsNow clock = tsNow.
Proof. exact otlp_log_time_always_arrival. Qed.
Print Assumptions C16_otlp_log_time_always_arrival.

(* the decoder did set the record's time; ProcessIndexRequestPle loses it *)
Theorem C16_otlp_log_decoder_stage : forall x res sc r now0 clock,
  0 < otlp_carried_ms r ->
  decoder_set (otlp_log_dec r) (ple_new x (otlp_log_build res sc r) k_timestamp now0 clock) = otlp_carried_ms r.
Proof. exact otlp_log_decoder_stage. Qed.
Print Assumptions C16_otlp_log_decoder_stage.

Theorem C16_event_time_preserved_otlp_log_refuted : exists res sc r tsNow,
  final_ts no_ext (otlp_log_build res sc r) (s2b "otel-logs") (otlp_log_dec r) tsNow tsNow tsNow <>
  (if 0 <? otlp_carried_ms r then otlp_carried_ms r else tsNow).
Proof. exact otlp_log_time_refuted. Qed.
Print Assumptions C16_event_time_preserved_otlp_log_refuted.

(* record, resource and scope attributes: total (every key has its column, the value is
   unchanged), three disjoint name spaces, each injective *)
Theorem C16_fields_preserved_otlp_log : forall res sc r,
  (forall k, lookup (s2b "attributes." ++ k) (otlp_log_build res sc r) = lookup k (map_set_all (o_attrs r) [])) /\
  (forall k, lookup (s2b "resource.attributes." ++ k) (otlp_log_build res sc r) = lookup k (map_set_all (r_attrs res) [])) /\
  (forall k, lookup (s2b "scope.attributes." ++ k) (otlp_log_build res sc r) = lookup k (map_set_all (sc_attrs sc) [])) /\
  (forall (p k1 k2 : list N), p ++ k1 = p ++ k2 -> k1 = k2).
Proof. exact otlp_log_fields_all. Qed.
Print Assumptions C16_fields_preserved_otlp_log.

Theorem C16_identifiers_preserved_otlp_log : forall res sc r,
  o_trace r <> [] -> o_span r <> [] ->
  lookup (s2b "trace_id") (otlp_log_build res sc r) = Some (SStr (o_trace r)) /\
  lookup (s2b "span_id") (otlp_log_build res sc r) = Some (SStr (o_span r)) /\
  lookup (s2b "time_unix_nano") (otlp_log_build res sc r) = Some (SInt (Z.of_N (o_time r))) /\
  lookup (s2b "body") (otlp_log_build res sc r) = Some (o_body r).
Proof. exact otlp_log_ids. Qed.
Print Assumptions C16_identifiers_preserved_otlp_log.

(* The two trace-context identifiers of a log record, EACH ON ITS OWN ("identifiers intact" at full strength:
   what a record carries for an identifier -- its own field when set, else the attribute of the same name,
   else nothing -- is what is stored, however the OTHER identifier is carried). *)
Theorem C16_identifiers_preserved_otlp_log_any : forall res sc r,
  lookup (s2b "trace_id") (otlp_log_build res sc r) =
    Some (SStr (otlp_id_spec (o_trace r) (otlp_rec_attr (s2b "trace_id") r))) /\
  lookup (s2b "span_id") (otlp_log_build res sc r) =
    Some (SStr (otlp_id_spec (o_span r) (otlp_rec_attr (s2b "span_id") r))).
Proof. exact otlp_log_ids_any. Qed.
Print Assumptions C16_identifiers_preserved_otlp_log_any.

Theorem C16_otlp_log_id_own_field_kept : forall res sc r,
  (o_trace r <> [] -> lookup (s2b "trace_id") (otlp_log_build res sc r) = Some (SStr (o_trace r))) /\
  (o_span r <> [] -> lookup (s2b "span_id") (otlp_log_build res sc r) = Some (SStr (o_span r))).
Proof. exact otlp_log_id_own_field. Qed.
Print Assumptions C16_otlp_log_id_own_field_kept.

Theorem C16_otlp_log_id_taken_from_attribute : forall res sc r v,
  (o_trace r = [] -> otlp_rec_attr (s2b "trace_id") r = Some v ->
   lookup (s2b "trace_id") (otlp_log_build res sc r) = Some (SStr (fmt_v v))) /\
  (o_span r = [] -> otlp_rec_attr (s2b "span_id") r = Some v ->
   lookup (s2b "span_id") (otlp_log_build res sc r) = Some (SStr (fmt_v v))).
Proof. exact otlp_log_id_from_attribute. Qed.
Print Assumptions C16_otlp_log_id_taken_from_attribute.

Theorem C16_otlp_log_id_absent_stays_empty : forall res sc r,
  (o_trace r = [] -> otlp_rec_attr (s2b "trace_id") r = None ->
   lookup (s2b "trace_id") (otlp_log_build res sc r) = Some (SStr [])) /\
  (o_span r = [] -> otlp_rec_attr (s2b "span_id") r = None ->
   lookup (s2b "span_id") (otlp_log_build res sc r) = Some (SStr [])).
Proof. exact otlp_log_id_absent. Qed.
Print Assumptions C16_otlp_log_id_absent_stays_empty.

Theorem C16_otlp_log_ids_independent : forall res sc r res' sc' r',
  (o_trace r = o_trace r' -> otlp_rec_attr (s2b "trace_id") r = otlp_rec_attr (s2b "trace_id") r' ->
   lookup (s2b "trace_id") (otlp_log_build res sc r) = lookup (s2b "trace_id") (otlp_log_build res' sc' r')) /\
  (o_span r = o_span r' -> otlp_rec_attr (s2b "span_id") r = otlp_rec_attr (s2b "span_id") r' ->
   lookup (s2b "span_id") (otlp_log_build res sc r) = lookup (s2b "span_id") (otlp_log_build res' sc' r')).
Proof. exact otlp_log_ids_independent. Qed.
Print Assumptions C16_otlp_log_ids_independent.

Theorem C16_otlp_log_id_attribute_kept : forall res sc r,
  lookup (s2b "attributes.trace_id") (otlp_log_build res sc r) = otlp_rec_attr (s2b "trace_id") r /\
  lookup (s2b "attributes.span_id") (otlp_log_build res sc r) = otlp_rec_attr (s2b "span_id") r.
Proof. exact otlp_log_id_attr_kept. Qed.
Print Assumptions C16_otlp_log_id_attribute_kept.

(* ways of carrying an identifier: 0 own field, 1 attribute only, 2 both (different values), 3 neither *)
Theorem C16_otlp_log_ids_sixteen_ways : forall res sc tm sm tf ta sf sa,
  tm < 4 -> sm < 4 ->
  lookup (s2b "trace_id") (otlp_log_build res sc (otlp_id_rec tm sm tf ta sf sa)) =
    Some (SStr (otlp_id_carried tm tf ta)) /\
  lookup (s2b "span_id") (otlp_log_build res sc (otlp_id_rec tm sm tf ta sf sa)) =
    Some (SStr (otlp_id_carried sm sf sa)).
Proof. exact otlp_log_ids_sixteen. Qed.
Print Assumptions C16_otlp_log_ids_sixteen_ways.

(* both fall-backs under the guard of the first identifier (NOT the code): the same function on records that carry
   both identifiers the same way, a different one otherwise -- why the check needs records of the mixed kinds *)
Theorem C16_otlp_ids_one_guard_same_on_uniform : forall r,
  (o_trace r <> [] /\ o_span r <> []) \/ (o_trace r = [] /\ o_span r = []) ->
  otlp_ids_one_guard r =
  (otlp_id_spec (o_trace r) (otlp_rec_attr (s2b "trace_id") r), otlp_id_spec (o_span r) (otlp_rec_attr (s2b "span_id") r)).
Proof. exact otlp_ids_one_guard_same_on_uniform. Qed.
Print Assumptions C16_otlp_ids_one_guard_same_on_uniform.

Theorem C16_otlp_ids_one_guard_differs : exists r1 r2,
  o_span r1 <> [] /\ snd (otlp_ids_one_guard r1) <> o_span r1 /\
  o_span r2 = [] /\ otlp_rec_attr (s2b "span_id") r2 = Some (SStr (s2b "b7ad6b7169203331")) /\
  snd (otlp_ids_one_guard r2) = [].
Proof. exact otlp_ids_one_guard_differs. Qed.
Print Assumptions C16_otlp_ids_one_guard_differs.

(* ---------- OTLP traces ---------- *)
Theorem C16_span_time_always_arrival : forall x s index dec now0 tsNow clock,
  plain_index index -> lookup k_timestamp (map_set_all (sp_attrs s) []) = None ->
  final_ts x (span_build s) index dec now0 tsNow clock = tsNow.
Proof. exact span_time_always_arrival. Qed.
Print Assumptions C16_span_time_always_arrival.

Theorem C16_event_time_preserved_span_refuted : exists s tsNow,
  final_ts no_ext (span_build s) (s2b "traces") None tsNow tsNow tsNow <>
  (if 0 <? span_carried_ms s then span_carried_ms s else tsNow).
Proof. exact span_time_refuted. Qed.
Print Assumptions C16_event_time_preserved_span_refuted.

Theorem C16_fields_preserved_span : forall s k v,
  lookup k (map_set_all (sp_attrs s) []) = Some v -> lookup k (span_build s) = Some v.
Proof. exact span_attr_column. Qed.
Print Assumptions C16_fields_preserved_span.

Theorem C16_identifiers_preserved_span_guarded : forall s,
  lookup (s2b "trace_id") (map_set_all (sp_attrs s) []) = None ->
  lookup (s2b "span_id") (map_set_all (sp_attrs s) []) = None ->
  lookup (s2b "start_time") (map_set_all (sp_attrs s) []) = None ->
  lookup (s2b "trace_id") (span_build s) = Some (SStr (sp_trace s)) /\
  lookup (s2b "span_id") (span_build s) = Some (SStr (sp_span s)) /\
  lookup (s2b "start_time") (span_build s) = Some (SInt (Z.of_N (sp_start s))).
Proof. exact span_ids_guarded. Qed.
Print Assumptions C16_identifiers_preserved_span_guarded.

(* ---------- whole OTLP export requests: nothing is carried between loop iterations ---------- *)
Theorem C16_trace_request_own_service : forall pre r post,
  trace_request (pre ++ r :: post) =
  trace_request pre ++
  map (fun s => span_build (set_service (service_scan [] (rs_attrs r)) s)) (rs_spans r) ++
  trace_request post.
Proof. exact trace_request_own_service. Qed.
Print Assumptions C16_trace_request_own_service.

(* a resource without service.name (or without Resource) stores its spans with the empty
   service name, whatever resources precede it *)
Theorem C16_trace_service_not_inherited : forall pre r post s,
  forallb (fun f => negb (bytes_eqb (fst f) k_service_name)) (rs_attrs r) = true ->
  In s (rs_spans r) -> lookup (s2b "service") (map_set_all (sp_attrs s) []) = None ->
  exists e, In e (trace_request (pre ++ r :: post)) /\ e = span_build (set_service [] s) /\
            lookup (s2b "service") e = Some (SStr []).
Proof. exact trace_service_not_inherited. Qed.
Print Assumptions C16_trace_service_not_inherited.

(* the loop with the variable declared outside is a different function *)
Theorem C16_trace_request_carried_differs : exists rs, trace_request_carried [] rs <> trace_request rs.
Proof. exact trace_request_carried_differs. Qed.
Print Assumptions C16_trace_request_carried_differs.

Theorem C16_logs_request_independent : forall pre res scs post,
  logs_request (pre ++ (res, scs) :: post) =
  logs_request pre ++
  flat_map (fun sl => map (fun r => otlp_log_build res (fst sl) r) (snd sl)) scs ++
  logs_request post.
Proof. exact logs_request_independent. Qed.
Print Assumptions C16_logs_request_independent.

(* ---------- metric protocols: the stored point has the name, the tags, the value and the
   instant (seconds resolution) of the logical point ---------- *)
Theorem C16_point_preserved_otsdb : forall (name : list N) tags v, name <> [] ->
  (forall s, 0 < s < 4294967296 ->
     otsdb_build name tags (Z.of_N s) v = Some {| d_name := name; d_tags := tags; d_ts := s; d_val := v |}) /\
  (forall m, MILLI_T <= m -> m / 1000 < 4294967296 ->
     otsdb_build name tags (Z.of_N m) v = Some {| d_name := name; d_tags := tags; d_ts := m / 1000; d_val := v |}).
Proof. exact otsdb_point_all. Qed.
Print Assumptions C16_point_preserved_otsdb.

Theorem C16_point_preserved_prom_guarded : forall (nm : list N) tags m v,
  nm <> [] -> forallb (fun kv => negb (bytes_eqb (fst kv) k_name)) tags = true ->
  MILLI_T <= m -> m / 1000 < 4294967296 ->
  prom_build ((k_name, nm) :: tags) (Z.of_N m) v =
  Some {| d_name := nm; d_tags := tags; d_ts := m / 1000; d_val := v |}.
Proof. exact prom_point. Qed.
Print Assumptions C16_point_preserved_prom_guarded.

(* remote write times are milliseconds; below the threshold they are taken as seconds *)
Theorem C16_event_time_preserved_prom_refuted : exists m, m < MILLI_T /\ prom_ts (Z.of_N m) <> m / 1000.
Proof. exact prom_time_refuted. Qed.
Print Assumptions C16_event_time_preserved_prom_refuted.

(* OTLP gauge/sum points: the stored value is the value the data point carries, as_double
   (any double) or as_int (exact below 2^53); names of word characters, ns time in range *)
Theorem C16_point_preserved_otlp_metric : forall (name : list N) (tags : list tag) n v,
  name <> [] -> forallb is_word name = true ->
  NANO_T <= n -> n < 9223372036854775808 -> n / 1000000000 < 4294967296 ->
  mnum_exact v = true ->
  exists tg, otlp_metric_build name (map (fun kv => (fst kv, SStr (snd kv))) tags) n v =
    Some {| d_name := name; d_tags := tg; d_ts := n / 1000000000; d_val := mnum_dyad v |}.
Proof. exact otlp_metric_point. Qed.
Print Assumptions C16_point_preserved_otlp_metric.

(* regression witnesses of the repaired defects: 7.5 stays 7.5, as_int 42 is 42 *)
Example C16_fixed_otlp_metric_values :
  otlp_metric_val (MDouble {| dy_num := 15; dy_den := 1 |}) = {| dy_num := 15; dy_den := 1 |} /\
  otlp_metric_val (MInt 42) = dy_int 42 /\ otlp_metric_val (MInt (-7)) = dy_int (-7).
Proof. exact otlp_metric_fixed_values. Qed.

(* ---- PRE-FIX documentation (about [otlp_metric_val_prefix]: uint64(GetAsDouble()), then
   float64; no longer the code).  Before the fix the value was kept only for whole
   non-negative doubles below 2^53; 7.5 was stored as 7 and an as_int point as 0 (confirmed
   on the pre-fix code; regressions are classes otlp_metric_value_truncated and
   otlp_metric_int_value_zero). *)
Theorem C16_prefix_otlp_metric_value_guarded : forall d,
  dy_exact_uint d = true -> otlp_metric_val_prefix (MDouble d) = d.
Proof. exact prefix_otlp_metric_val_guarded. Qed.
Print Assumptions C16_prefix_otlp_metric_value_guarded.

Theorem C16_prefix_otlp_metric_value_refuted :
  otlp_metric_val_prefix (MDouble {| dy_num := 15; dy_den := 1 |}) <> {| dy_num := 15; dy_den := 1 |} /\
  otlp_metric_val_prefix (MInt 42) <> dy_int 42.
Proof. exact prefix_otlp_metric_value_refuted. Qed.
Print Assumptions C16_prefix_otlp_metric_value_refuted.

(* attribute key -> tag key is not injective for OTLP metrics ("a.b" and "a_b") *)
Theorem C16_fields_preserved_otlp_metric_refuted : exists k1 k2, k1 <> k2 /\ sanitize k1 = sanitize k2.
Proof. exact otlp_metric_key_collision. Qed.
Print Assumptions C16_fields_preserved_otlp_metric_refuted.

(* ---------- the guards are satisfiable ---------- *)
Example C16_guards_satisfiable :
  in_range_num USec 1600000000 = true /\ in_range_num UMilli 1600000000123 = true /\
  in_range_str UNano 1600000000123456789 = true /\
  parse_uint (s2b "1600000000123456789") = Some 1600000000123456789 /\
  plain_index (s2b "c16es") /\
  hec_plain_keys {| h_time := None; h_index := s2b "main"; h_meta := [(s2b "host", SStr (s2b "h"))]; h_root := [];
                    h_event := HObj [(s2b "n", SInt 42)] |} = true /\
  exact53 (SInt 42) = true /\
  otlp_carried_ms {| o_time := 0; o_observed := 0; o_sevnum := 0; o_sevtext := []; o_body := SStr [];
                     o_attrs := []; o_dropped := 0; o_flags := 0; o_trace := []; o_span := [] |} = 0 /\
  mnum_exact (MInt 42) = true /\ dy_exact_uint (dy_int 7) = true.
Proof. exact guards_satisfiable. Qed.

(* ---- tie by translation: the Gallina definitions regenerated from dateutils.go by gotrans on
   every run are the model's unit predicates ---- *)
(* ==== field names that collide with names the ingest path treats specially (seed C16h) ====
   The flattener behind GetNewPLE (ParseRawJsonObject, shared by ES bulk / single-document, Splunk HEC, Loki push,
   OTLP logs and OTLP traces), modelled on TREES (ProtoTree.v): objects, arrays, scalars; a column is named by the
   PATH of its leaf.  Full statement (what the property demands):
     forall doc ks s, Leaf (JO doc) ks s -> In (path_of [] ks, s) (flatten k_timestamp doc)
   FALSE by design for the root member called like the timestamp key (it is the event time, C16_timestamp_key_never_a_column)
   and for nothing else but the empty-root-name corner (C16_empty_root_key_corner); the guard below is exact. *)
From SigM Require Import ProtoTree.
From SigP Require Import ProtoTreeProofs.

Theorem C16_every_leaf_stored_under_its_path : forall ts cur v ks s,
  Leaf v ks s -> path_of cur ks <> ts -> In (path_of cur ks, s) (flat ts cur v).
Proof. exact leaf_stored. Qed.
Print Assumptions C16_every_leaf_stored_under_its_path.

(* no premise on the leaf's own name, on the names above it, on the value kind, on the depth, on arrays in between *)
Theorem C16_nested_leaf_stored_whatever_its_name : forall doc k1 k2 ks s,
  k1 <> [] -> Leaf (JO doc) (k1 :: k2 :: ks) s ->
  In (path_of [] (k1 :: k2 :: ks), s) (flatten k_timestamp doc).
Proof. exact nested_leaf_stored_default. Qed.
Print Assumptions C16_nested_leaf_stored_whatever_its_name.

(* the same for any configured timestamp key without a '.' *)
Theorem C16_nested_leaf_stored_any_timestamp_key : forall ts doc k1 k2 ks s,
  ~ In 46 ts -> k1 <> [] -> Leaf (JO doc) (k1 :: k2 :: ks) s ->
  In (path_of [] (k1 :: k2 :: ks), s) (flatten ts doc).
Proof. exact nested_leaf_stored. Qed.
Print Assumptions C16_nested_leaf_stored_any_timestamp_key.

Theorem C16_root_leaf_stored : forall ts doc k s,
  Leaf (JO doc) [k] s -> k <> ts -> In (k, s) (flatten ts doc).
Proof. exact root_leaf_stored. Qed.
Print Assumptions C16_root_leaf_stored.

Theorem C16_nothing_but_leaves_stored : forall ts cur v p s,
  In (p, s) (flat ts cur v) -> exists ks, Leaf v ks s /\ p = path_of cur ks /\ p <> ts.
Proof. exact stored_is_leaf. Qed.
Print Assumptions C16_nothing_but_leaves_stored.

Theorem C16_timestamp_key_never_a_column : forall ts doc s, ~ In (ts, s) (flatten ts doc).
Proof. exact ts_key_never_a_column. Qed.
Print Assumptions C16_timestamp_key_never_a_column.

(* the code's flattener (skip test inside the four parseSingle* functions, on the whole path) = all leaves, minus the
   columns whose PATH is the timestamp key; hence the flattened events of the other theorems are its output *)
Theorem C16_flattener_is_path_filter : forall ts cur v,
  flat ts cur v = filter (fun f => negb (bytes_eqb (fst f) ts)) (dotted cur v).
Proof. exact flat_filter. Qed.
Print Assumptions C16_flattener_is_path_filter.

Theorem C16_flattened_model_is_flattener : forall doc, flatten k_timestamp doc = stored_fields (dot doc).
Proof. exact flatten_stored_fields. Qed.
Print Assumptions C16_flattened_model_is_flattener.

Theorem C16_flattener_on_flat_event : forall e, flatten k_timestamp (leaves e) = stored_fields e.
Proof. exact flatten_flat_doc. Qed.
Print Assumptions C16_flattener_on_flat_event.

(* the event time is read from the scalar members of the root: nothing below the root has any influence on it *)
Theorem C16_event_time_ignores_nested_fields : forall x e tree index dec now0 tsNow clock,
  containers_only tree = true ->
  final_ts x (jroot (leaves e ++ tree)) index dec now0 tsNow clock = final_ts x e index dec now0 tsNow clock.
Proof. exact tree_time_root_only. Qed.
Print Assumptions C16_event_time_ignores_nested_fields.

(* comparing the timestamp key with the member's OWN name (at the top of the per-member handler) is another function:
   {"event":{"timestamp":1}} loses event.timestamp *)
Theorem C16_leaf_name_comparison_refuted :
  exists doc ks s, Leaf (JO doc) ks s /\ path_of [] ks <> k_timestamp /\
    In (path_of [] ks, s) (flatten k_timestamp doc) /\
    ~ In (path_of [] ks, s) (flat_leafname k_timestamp [] (JO doc)).
Proof. exact leafname_refuted. Qed.
Print Assumptions C16_leaf_name_comparison_refuted.

(* ... and the same function on events without nesting, which is why flat events never tell them apart *)
Theorem C16_leaf_name_comparison_same_on_flat_events : forall ts e,
  flat_leafname ts [] (JO (leaves e)) = flatten ts (leaves e).
Proof. exact leafname_same_on_flat_events. Qed.
Print Assumptions C16_leaf_name_comparison_same_on_flat_events.

Theorem C16_flattener_values :
  flatten k_timestamp leafname_doc = [(s2b "event.timestamp", SInt 1)] /\
  flat_leafname k_timestamp [] (JO leafname_doc) = [] /\
  flatten k_timestamp [(s2b "items", JA [JO [(s2b "timestamp", JL (SStr (s2b "t"))); (s2b "sku", JL (SInt 7))]])]
    = [(s2b "items.0.timestamp", SStr (s2b "t")); (s2b "items.0.sku", SInt 7)] /\
  flatten k_timestamp [(k_timestamp, JL (SInt 1600000000)); (s2b "a", JO [(k_timestamp, JL (SInt 5))])]
    = [(s2b "a.timestamp", SInt 5)] /\
  flatten k_timestamp [(k_timestamp, JO [(s2b "a", JL (SInt 1))])] = [(s2b "timestamp.a", SInt 1)].
Proof. exact leafname_values. Qed.
Print Assumptions C16_flattener_values.

Example C16_empty_root_key_corner :
  flatten k_timestamp [([], JO [(k_timestamp, JL (SInt 5)); (s2b "y", JL (SInt 2))])] = [(s2b "y", SInt 2)] /\
  path_of [] [[]; k_timestamp] = k_timestamp.
Proof. exact empty_root_key_corner. Qed.

(* OTLP logs with a structured (kvlist) body: every leaf of the body is the column body.<path> *)
Theorem C16_otlp_kvlist_body_leaf_stored : forall res sc r body ks s,
  Leaf (JO body) ks s -> In (path_of k_body ks, s) (otlp_log_build_kvbody res sc r body).
Proof. exact kvbody_leaf_stored. Qed.
Print Assumptions C16_otlp_kvlist_body_leaf_stored.

(* ---- names that collide with the record's OWN root fields: known findings (streams R of the harness).
   Full statements (FALSE for the code): C16_identifiers_preserved_span_guarded / C16_span_time_always_arrival /
   C16_event_time_preserved_loki_guarded WITHOUT their "no attribute / metadata of that name" guards. ---- *)
Theorem C16_span_attribute_replaces_record_field_refuted :
  exists attrs, lookup (s2b "name") (span_build (collide_span attrs)) <> Some (SStr (sp_name (collide_span attrs))) /\
                lookup (s2b "name") (span_build (collide_span attrs)) = Some (SStr (s2b "alice")).
Proof. exact span_attribute_replaces_field. Qed.
Print Assumptions C16_span_attribute_replaces_record_field_refuted.

Theorem C16_span_attribute_named_timestamp_becomes_time_refuted :
  exists attrs, forall tsNow,
    final_ts no_ext (span_build (collide_span attrs)) (s2b "traces") None tsNow tsNow tsNow = 1400000001000 /\
    lookup k_timestamp (stored_fields (span_build (collide_span attrs))) = None.
Proof. exact span_attribute_timestamp_becomes_time. Qed.
Print Assumptions C16_span_attribute_named_timestamp_becomes_time_refuted.

Theorem C16_loki_label_named_line_refuted :
  exists labels e, loki_build labels [collide_line []] = [e] /\
    lookup k_line labels = Some (SStr (s2b "L7")) /\ lookup k_line e = Some (SStr (s2b "text")) /\
    forall k, lookup k e = Some (SStr (s2b "L7")) -> False.
Proof. exact loki_label_named_line_lost. Qed.
Print Assumptions C16_loki_label_named_line_refuted.

Theorem C16_loki_metadata_replaces_record_field_refuted :
  (exists e, loki_build [] [collide_line [(k_timestamp, SStr (s2b "1400000000"))]] = [e] /\
             forall tsNow, final_ts no_ext e (s2b "loki-index") None tsNow tsNow tsNow = 1400000000000) /\
  (exists e, loki_build [] [collide_line [(k_line, SStr (s2b "other"))]] = [e] /\
             lookup k_line e = Some (SStr (s2b "other"))).
Proof. exact loki_metadata_replaces_record_field. Qed.
Print Assumptions C16_loki_metadata_replaces_record_field_refuted.

From SigG Require Import Gen.
From SigP Require Import GenC16.
Theorem C16_code_IsTimeInMilli_is_model : forall t : N,
  gen_IsTimeInMilli (Z.of_N t) = Proto.is_time_in_milli t.
Proof. exact gen_IsTimeInMilli_is_model. Qed.
Print Assumptions C16_code_IsTimeInMilli_is_model.
Theorem C16_code_IsTimeInNano_is_model : forall t : N,
  gen_IsTimeInNano (Z.of_N t) = Proto.is_time_in_nano t.
Proof. exact gen_IsTimeInNano_is_model. Qed.
Print Assumptions C16_code_IsTimeInNano_is_model.
Theorem C16_code_normalizeIntToSeconds_is_model : forall z, (-9223372036854775808 <= z < 9223372036854775808)%Z ->
  Proto.norm_int_to_seconds z = (if (0 <? z)%Z then Some (Z.to_N (gen_normalizeIntToSeconds z)) else None).
Proof. exact gen_normalizeIntToSeconds_is_model. Qed.
Print Assumptions C16_code_normalizeIntToSeconds_is_model.

(* ==== ES bulk through aliases and jaeger-* indices: the time key follows the REAL index ==== *)
Theorem C16_es_route_plain_time : forall x al name u v attrs dec now0 tsNow clock,
  plain_index (real_index al name) -> in_range_num u v = true ->
  final_ts x (es_build (WNum (Z.of_N v)) attrs) (real_index al name) dec now0 tsNow clock = instant_ms u v.
Proof. exact es_route_plain_time_num. Qed.
Print Assumptions C16_es_route_plain_time.

Theorem C16_es_route_jaeger_time : forall x al name u v t attrs dec now0 tsNow clock,
  jaeger_index (real_index al name) -> lookup k_jaeger_ts attrs = Some (SInt (Z.of_N v)) ->
  in_range_num u v = true ->
  final_ts x (es_build t attrs) (real_index al name) dec now0 tsNow clock = instant_ms u v.
Proof. exact es_route_jaeger_time_num. Qed.
Print Assumptions C16_es_route_jaeger_time.

Theorem C16_es_route_jaeger_arrival_only_without_time : forall x al name t attrs dec now0 tsNow clock,
  jaeger_index (real_index al name) -> lookup k_jaeger_ts attrs = None ->
  final_ts x (es_build t attrs) (real_index al name) dec now0 tsNow clock = tsNow.
Proof. exact es_route_jaeger_no_time. Qed.
Print Assumptions C16_es_route_jaeger_arrival_only_without_time.

Theorem C16_es_route_name_irrelevant : forall x al n1 n2 e dec now0 tsNow clock,
  real_index al n1 = real_index al n2 ->
  final_ts x e (real_index al n1) dec now0 tsNow clock = final_ts x e (real_index al n2) dec now0 tsNow clock.
Proof. exact es_route_name_irrelevant. Qed.
Print Assumptions C16_es_route_name_irrelevant.

(* ==== Elasticsearch single-document requests (ProcessPutPostSingleDocRequest): PUT/POST /{index}/_doc[/{id}],
   /{index}/_create/{id}, /{index}/_update/{id}, the pre-7.x routes with a document type ====
   [doc_build gen q t attrs]: the record handed to the store for the document [es_build t attrs] sent with the
   request q (route, id of the URL, document type, refresh) when uuid.New() gives gen; the decoder keeps every
   number literal.  [doc_build_f64] is the same handler with a decoder that goes through float64 (not the code). *)

(* the same document through _bulk and through a single-document request: the same fields with the same values
   (number literals verbatim, whatever their size), for every key the handler does not assign itself *)
Theorem C16_es_doc_fields_equal_bulk : forall gen q t attrs k,
  NoDup (map fst (es_build t attrs)) -> k <> k_id -> k <> k_type ->
  lookup k (doc_build gen q t attrs) = lookup k (es_build t attrs).
Proof. exact doc_fields_equal_bulk. Qed.
Print Assumptions C16_es_doc_fields_equal_bulk.

(* ... and the same time, for every index (plain, jaeger-*, behind an alias), time representation and clock *)
Theorem C16_es_doc_time_equal_bulk : forall x gen q t attrs index dec now0 tsNow clock,
  NoDup (map fst (es_build t attrs)) ->
  final_ts x (doc_build gen q t attrs) index dec now0 tsNow clock =
  final_ts x (es_build t attrs) index dec now0 tsNow clock.
Proof. exact doc_time_equal_bulk. Qed.
Print Assumptions C16_es_doc_time_equal_bulk.

(* what a search returns for it is what it returns for the bulk copy, column by column (after the number reader of
   the segment writer); "_id" and "_type" are ES metadata that the record reader does not show *)
Theorem C16_es_doc_stored_equal_bulk : forall gen q t attrs k,
  NoDup (map fst (es_build t attrs)) -> k <> k_id -> k <> k_type ->
  lookup k (store_cols (stored_fields_doc (doc_build gen q t attrs))) =
  lookup k (store_cols (stored_fields (es_build t attrs))).
Proof. exact doc_stored_equal_bulk. Qed.
Print Assumptions C16_es_doc_stored_equal_bulk.

Theorem C16_es_doc_meta_hidden : forall e,
  lookup k_id (stored_fields_doc e) = None /\ lookup k_type (stored_fields_doc e) = None.
Proof. exact doc_meta_hidden. Qed.
Print Assumptions C16_es_doc_meta_hidden.

(* the identifier: the one of the URL, a generated one when the URL has none (or an empty one); the document type
   of the pre-7.x routes; both for ANY decoder, document and route *)
Theorem C16_es_doc_id_stored : forall num gen q t attrs,
  lookup k_id (doc_build_with num gen q t attrs) = Some (SStr (doc_id gen q)).
Proof. exact doc_id_stored. Qed.
Print Assumptions C16_es_doc_id_stored.

Theorem C16_es_doc_id_of_url : forall gen q b i, dq_id q = Some (b :: i) -> doc_id gen q = b :: i.
Proof. exact doc_id_of_url. Qed.
Print Assumptions C16_es_doc_id_of_url.

Theorem C16_es_doc_id_generated : forall gen q, dq_id q = None \/ dq_id q = Some [] -> doc_id gen q = gen.
Proof. exact doc_id_generated. Qed.
Print Assumptions C16_es_doc_id_generated.

Theorem C16_es_doc_type_stored : forall num gen q t attrs,
  dq_type q <> [] -> lookup k_type (doc_build_with num gen q t attrs) = Some (SStr (dq_type q)).
Proof. exact doc_type_stored. Qed.
Print Assumptions C16_es_doc_type_stored.

(* no id / id / _create / _update / document type / refresh: the stored content differs in "_id" and "_type" only *)
Theorem C16_es_doc_variants_agree : forall num gen gen' q q' t attrs k, k <> k_id -> k <> k_type ->
  lookup k (doc_build_with num gen q t attrs) = lookup k (doc_build_with num gen' q' t attrs).
Proof. exact doc_variants_agree. Qed.
Print Assumptions C16_es_doc_variants_agree.

(* Carrying the literal is what the agreement rests on.  With a decoder through float64 (json.Unmarshal into
   interface{} without UseNumber) the statement
     forall gen q t attrs k, NoDup .. -> k <> k_id -> k <> k_type ->
       lookup k (doc_build_f64 gen q t attrs) = lookup k (es_build t attrs)
   is FALSE: it holds for documents whose integers are below 2^53 ... *)
Theorem C16_es_doc_float_decoder_same_below_2_53 : forall gen q t attrs,
  (forall k v, In (k, v) (es_build t attrs) -> exact53 v = true) ->
  doc_build_f64 gen q t attrs = doc_build gen q t attrs.
Proof. exact doc_f64_same_when_exact. Qed.
Print Assumptions C16_es_doc_float_decoder_same_below_2_53.

(* ... and fails above: a 64-bit id and a nanosecond epoch *)
Theorem C16_es_doc_float_decoder_refuted : exists gen q t attrs k,
  NoDup (map fst (es_build t attrs)) /\ k <> k_id /\ k <> k_type /\
  lookup k (doc_build_f64 gen q t attrs) <> lookup k (es_build t attrs).
Proof. exact doc_f64_refuted. Qed.
Print Assumptions C16_es_doc_float_decoder_refuted.

Theorem C16_es_doc_float_decoder_witness :
  lookup (s2b "order_id") (doc_build_f64 [] doc_witness_q WNone doc_witness_attrs) = Some (SInt 9007199254740992) /\
  lookup (s2b "span_start_ns") (doc_build_f64 [] doc_witness_q WNone doc_witness_attrs) = Some (SInt 1714352490251123500) /\
  lookup (s2b "small") (doc_build_f64 [] doc_witness_q WNone doc_witness_attrs) = Some (SInt 42) /\
  lookup (s2b "order_id") (doc_build [] doc_witness_q WNone doc_witness_attrs) = Some (SInt 9007199254740993) /\
  lookup (s2b "span_start_ns") (doc_build [] doc_witness_q WNone doc_witness_attrs) = Some (SInt 1714352490251123457).
Proof. exact doc_f64_witness_values. Qed.
Print Assumptions C16_es_doc_float_decoder_witness.

(* the event time as well (a millisecond value of 18 digits) *)
Theorem C16_es_doc_float_decoder_time_refuted : exists gen q t attrs index,
  NoDup (map fst (es_build t attrs)) /\
  final_ts no_ext (doc_build_f64 gen q t attrs) index None 5 5 5 <> final_ts no_ext (es_build t attrs) index None 5 5 5.
Proof. exact doc_f64_time_refuted. Qed.
Print Assumptions C16_es_doc_float_decoder_time_refuted.

(* ==== the number a column holds (parseRawJsonObject / parseJsonInt of the segment writer, every JSON protocol) ====
   Full statement (FALSE for the code):  forall z, (-2^63 <= z < 2^64)%Z -> store_val (SInt z) = SInt z
   "an integer of 64 bits, signed or unsigned, is stored as it is". *)
Theorem C16_int_field_exact_guarded : forall z, in_int64 z = true -> store_val (SInt z) = SInt z.
Proof. exact store_val_int64. Qed.
Print Assumptions C16_int_field_exact_guarded.

Theorem C16_uint64_field_refuted : exists z, (9223372036854775808 <= z < 18446744073709551616)%Z /\
  store_val (SInt z) <> SInt z.
Proof. exact store_val_uint64_refuted. Qed.
Print Assumptions C16_uint64_field_refuted.

Theorem C16_number_reader_values :
  store_val (SInt 9223372036854775809) = SInt 9223372036854775808 /\
  store_val (SInt 18446744073709551615) = SInt 18446744073709551616 /\
  store_val (SInt 9223372036854775807) = SInt 9223372036854775807 /\
  store_val (SInt (-9223372036854775808)) = SInt (-9223372036854775808) /\
  store_val (SInt 100000000000000000000001) = SInt 100000000000000008388608.
Proof. exact store_val_values. Qed.
Print Assumptions C16_number_reader_values.

Example C16_es_doc_guards_satisfiable :
  NoDup (map fst (es_build (WNum 1600000000123) doc_witness_attrs)) /\
  (forall k v, In (k, v) (es_build WNone [(s2b "small", SInt 42); (s2b "note", SStr (s2b "x"))]) -> exact53 v = true) /\
  in_int64 9007199254740993 = true.
Proof. exact doc_guards_satisfiable. Qed.

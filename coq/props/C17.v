(* C17 — Every query is answered or rejected, terminates, frees resources.   PARTIAL CLAIM.
   Statements only; proofs are in SigP.QueryLifeProofs.

   What these theorems are about: the query life-cycle state machine of
   pkg/segment/query/querystatus.go (model SigM.QueryLife: allRunningQueries, waitingQueries,
   StateChan with buffer 10, the timeout-watcher goroutines; ops Start(forceRun) / Pull / Cancel /
   Fire (timeout) / Complete / Fail / Delete / Recv), for ALL op sequences [ops] and every limit [mx].
   [run mx init ops] is the state after the ops; [insts s] = every query instance ever started
   (running ++ waiting ++ those no table refers to any more); [e_ser] identifies an instance.

   What they are NOT about (supported by robustness runs only, not by proof): that every byte
   string in the five query languages is parsed or rejected in bounded time, that the same text
   yields the same plan, that the evaluator terminates, that the process keeps running, and that
   executor goroutines end.  See notes/C17.md.

   The statements below are at full strength for the code AFTER the repairs
   fixes/C17-cancel-waiting-query (CancelQuery / DeleteQuery also handle a query that is still
   waiting, the move from the queue to the running table is atomic, CANCELLED is sent with no lock
   held) and fixes/C17-release-timeout-watcher (DeleteQuery always releases the timeout watcher).
   Hypothesis [live_fresh mx init ops = true]: no Start re-uses a qid that is still in a table
   (the server's qid counter; StartQuery's own duplicate check looks at the running table only).
   The pre-fix behaviour is documented at the end by C17_prefix_*_refuted (model [step_prefix]). *)
From Coq Require Import List Sorted.
From SigM Require Import Base QueryLife QueryAdmit EvalIdx MetricsLife.
From SigP Require Import BaseProofs QueryLifeProofs QueryAdmitProofs EvalIdxProofs MetricsLifeProofs.
From Coq Require String.
From SigM Require LockTrace LockOrder.
From SigG Require GenLocks.
From SigP Require LockTraceProofs LockOrderProofs GenLocksCheck GenLocksProofs.
Import ListNotations.
Open Scope nat_scope.

(* ---------- admission limits ---------- *)
(* the number of running queries that were started without forceRun never exceeds MAX_RUNNING_QUERIES *)
Theorem C17_admission_bound : forall mx ops, nonforced (running (run mx init ops)) <= mx.
Proof. exact admission_bound. Qed.
Print Assumptions C17_admission_bound.

(* ... and without forced starts the whole running table obeys the limit *)
Theorem C17_running_bound_without_forced : forall mx ops,
  forallb (fun o => negb (is_forced_start o)) ops = true -> length (running (run mx init ops)) <= mx.
Proof. exact running_bound_without_forced. Qed.
Print Assumptions C17_running_bound_without_forced.

Theorem C17_waiting_bound : forall mx ops, length (waiting (run mx init ops)) <= MAX_WAITING.
Proof. exact waiting_bound. Qed.
Print Assumptions C17_waiting_bound.

(* the running table is a map: one entry per qid *)
Theorem C17_running_qids_unique : forall mx ops, NoDup (map e_qid (running (run mx init ops))).
Proof. exact running_qids_unique. Qed.
Print Assumptions C17_running_qids_unique.

(* ---------- FIFO admission ---------- *)
(* the serials admitted from the queue, in order of admission, followed by the serials still waiting,
   in queue order, are strictly increasing: queries leave the queue in arrival order and nothing
   still waiting arrived before an admitted one *)
Theorem C17_fifo_admission : forall mx ops, let s := run mx init ops in
  StronglySorted lt (rev (admitted s) ++ map e_ser (waiting s)).
Proof. exact fifo_admission. Qed.
Print Assumptions C17_fifo_admission.

(* ---------- what the admission check counts (model SigM.QueryAdmit) ----------
   canRunQuery compares GetActiveQueryCount() with MAX_RUNNING_QUERIES.  [step_cnt cnt] is the
   life-cycle step whose puller compares [cnt (running s)] with the limit, for ANY function [cnt]
   of the running table; the code is the instance [count_entries] = the table size: an entry
   counts from its admission until DeleteQuery removes it, whether it is forced, cancelled, timed
   out or finished.  The harness reads the getter after every step and compares it with
   [active_count] of the model. *)
Theorem C17_code_counts_every_table_entry : forall mx s o, step_cnt count_entries mx s o = step mx s o.
Proof. exact step_cnt_entries. Qed.
Print Assumptions C17_code_counts_every_table_entry.

(* every admission count that misses no entry of the table keeps, for all op sequences and every
   limit: the admission limit, the queue limit, one entry per qid and admission in arrival order *)
Theorem C17_admission_count_over_whole_table_keeps_limits : forall cnt mx ops,
  (forall l, length l <= cnt l) ->
  let s := run_cnt cnt mx init ops in
  nonforced (running s) <= mx /\
  length (waiting s) <= MAX_WAITING /\
  NoDup (map e_qid (running s)) /\
  StronglySorted lt (rev (admitted s) ++ map e_ser (waiting s)).
Proof. exact safe_count_keeps_limits. Qed.
Print Assumptions C17_admission_count_over_whole_table_keeps_limits.

(* in every reachable state the getter is the table size, so the cancelled-but-undeleted entries
   are in it *)
Theorem C17_active_count_is_table_size : forall mx ops, let s := run mx init ops in
  active_count s = length (running s) /\ count_uncancelled (running s) <= active_count s.
Proof. exact active_count_is_table_size. Qed.
Print Assumptions C17_active_count_is_table_size.

(* a table at the limit admits nobody, whatever the flags of its entries (any state) *)
Theorem C17_full_table_admits_nothing : forall mx s, mx <= length (running s) ->
  step mx s Pull = (s, ONone) \/ step mx s Pull = (s, OBlocked).
Proof. exact full_table_admits_nothing. Qed.
Print Assumptions C17_full_table_admits_nothing.

(* waiting queries are admitted in order as slots free up: after any op sequence, a free slot and
   a non-empty queue make the next puller iteration move the OLDEST waiting query into the table
   (READY, RUNNING in its channel), the rest of the queue is unchanged, the table grows by <= 1 *)
Theorem C17_free_slot_admits_oldest_waiting : forall mx ops e wq, let s := run mx init ops in
  length (running s) < mx -> waiting s = e :: wq ->
  let s' := fst (step mx s Pull) in
  waiting s' = wq /\ admitted s' = e_ser e :: admitted s /\
  length (running s') <= S (length (running s)) /\
  exists e', In e' (running s') /\ e_ser e' = e_ser e /\ e_qid e' = e_qid e /\
             e_cancelled e' = false /\ e_chan e' = [READY; RUNNING].
Proof. exact free_slot_admits_head. Qed.
Print Assumptions C17_free_slot_admits_oldest_waiting.

(* REFUTED for the count that leaves out entries whose isCancelled flag is set: limit 2, three
   queued starts, two puller iterations (table full, one waiting), CancelQuery of a running query
   whose handler has not reached DeleteQuery, one more iteration: 3 entries in the table.  The same
   ops under the code's count: 2 entries, one query still waiting. *)
Theorem C17_admission_count_without_cancelled_refuted :
  exists ops, nonforced (running (run_cnt count_uncancelled 2 init ops)) = 3 /\
              nonforced (running (run 2 init ops)) = 2 /\
              length (waiting (run 2 init ops)) = 1.
Proof. exact uncancelled_count_refuted. Qed.
Print Assumptions C17_admission_count_without_cancelled_refuted.

(* the same with the timeout instead of a cancel (limit 1) *)
Theorem C17_admission_count_without_timed_out_refuted :
  exists ops, nonforced (running (run_cnt count_uncancelled 1 init ops)) = 2 /\
              nonforced (running (run 1 init ops)) = 1.
Proof. exact uncancelled_count_timeout_refuted. Qed.
Print Assumptions C17_admission_count_without_timed_out_refuted.

(* every limit 1..6 and every k <= limit: with k cancelled-but-undeleted queries the table holds
   limit + k entries under that count, exactly limit under the code's count (k keep waiting);
   and that count is not one that misses no entry (hypothesis of the theorem above) *)
Theorem C17_admission_count_without_cancelled_overshoots_by_k :
  overshoot_grid = true /\ ~ (forall l, length l <= count_uncancelled l).
Proof. exact (conj uncancelled_count_overshoots_by_every_cancelled_query uncancelled_count_misses_entries). Qed.
Print Assumptions C17_admission_count_without_cancelled_overshoots_by_k.

(* ---------- exactly one terminal state ---------- *)
Theorem C17_serials_unique : forall mx ops, NoDup (map e_ser (insts (run mx init ops))).
Proof. exact serials_unique. Qed.
Print Assumptions C17_serials_unique.

(* once a terminal message (COMPLETE / CANCELLED / TIMEOUT / ERROR) has been sent for an instance,
   that is its terminal state in every later state, whatever ops follow *)
Theorem C17_one_terminal_state : forall mx ops1 ops2 e t,
  In e (insts (run mx init ops1)) -> term_of e = Some t ->
  forall e', In e' (insts (run mx init (ops1 ++ ops2))) -> e_ser e' = e_ser e -> term_of e' = Some t.
Proof. exact one_terminal_state. Qed.
Print Assumptions C17_one_terminal_state.

(* the instance keeps existing and its message log only grows (so the theorem above is not empty) *)
Theorem C17_instance_persists : forall mx ops1 ops2 e,
  In e (insts (run mx init ops1)) ->
  exists e', In e' (insts (run mx init (ops1 ++ ops2))) /\ later e e'.
Proof. exact instance_persists. Qed.
Print Assumptions C17_instance_persists.

(* a query is started at most once: READY, RUNNING occur at most once and only at the very beginning
   of its message log (no way back from a terminal state to running; a query cancelled while
   waiting has just CANCELLED) *)
Theorem C17_started_once : forall mx ops, Forall log_ok (insts (run mx init ops)).
Proof. exact started_once. Qed.
Print Assumptions C17_started_once.

(* nothing is ever sent to, and no flag set on, a query that is still waiting *)
Theorem C17_waiting_untouched : forall mx ops,
  Forall (fun e => e_chan e = [] /\ e_log e = [] /\ e_cancelled e = false) (waiting (run mx init ops)).
Proof. exact waiting_untouched. Qed.
Print Assumptions C17_waiting_untouched.

(* ---------- no entry after a terminal state ---------- *)
Theorem C17_live_qids_unique : forall mx ops, live_fresh mx init ops = true ->
  NoDup (map e_qid (running (run mx init ops) ++ waiting (run mx init ops))).
Proof. exact live_qids_unique. Qed.
Print Assumptions C17_live_qids_unique.

(* after DeleteQuery(q) the qid is in neither table, wherever the query was *)
Theorem C17_no_entry_after_terminal : forall mx ops q, live_fresh mx init ops = true ->
  let s' := fst (step mx (run mx init ops) (Delete q)) in
  in_table q (running s') = false /\ in_table q (waiting s') = false.
Proof. exact no_entry_after_terminal. Qed.
Print Assumptions C17_no_entry_after_terminal.

(* an instance that left the tables stays out of them for ever *)
Theorem C17_removed_instance_never_returns : forall mx ops1 ops2 e,
  In e (dead (run mx init ops1)) ->
  let s' := run mx init (ops1 ++ ops2) in
  In e (dead s') /\ forall x, In x (running s' ++ waiting s') -> e_ser x <> e_ser e.
Proof. exact removed_instance_never_returns. Qed.
Print Assumptions C17_removed_instance_never_returns.

(* a query cancelled while waiting leaves the queue, is told CANCELLED (its terminal state) and,
   by the theorem above and C17_started_once, is never started *)
Theorem C17_cancel_waiting_never_started : forall mx ops q, live_fresh mx init ops = true ->
  in_table q (waiting (run mx init ops)) = true ->
  let s' := fst (step mx (run mx init ops) (Cancel q)) in
  in_table q (running s') = false /\ in_table q (waiting s') = false /\
  exists e', In e' (dead s') /\ e_qid e' = q /\ e_cancelled e' = true /\ e_log e' = [CANCELLED] /\
             term_of e' = Some CANCELLED.
Proof. exact cancel_waiting_never_started. Qed.
Print Assumptions C17_cancel_waiting_never_started.

(* cancelling a running query always sets the flag; CANCELLED is delivered (terminal state) when
   the channel has room, otherwise only the canceller waits *)
Theorem C17_cancel_running_terminal : forall mx ops q e,
  let s := run mx init ops in
  lookup q (running s) = Some e ->
  let s' := fst (step mx s (Cancel q)) in
  exists e', lookup q (running s') = Some e' /\ e_ser e' = e_ser e /\ e_cancelled e' = true /\
             (has_room e = true -> e_log e' = CANCELLED :: e_log e /\ term_of e' <> None).
Proof. exact cancel_running_terminal. Qed.
Print Assumptions C17_cancel_running_terminal.

(* ---------- goroutines of the life cycle: the timeout watcher ---------- *)
(* every live watcher belongs to an entry of the running table: when a query has left the tables
   (complete, error, cancelled or timed out, then DeleteQuery) no goroutine of its life cycle remains *)
Theorem C17_watcher_released : forall mx ops, live_fresh mx init ops = true ->
  let s := run mx init ops in
  forall w, In w (watchers s) -> exists e, In e (running s) /\ e_ser e = fst w /\ e_qid e = snd w.
Proof. exact watcher_released. Qed.
Print Assumptions C17_watcher_released.

Theorem C17_no_goroutine_when_tables_empty : forall mx ops, live_fresh mx init ops = true ->
  running (run mx init ops) = [] -> watchers (run mx init ops) = [].
Proof. exact no_goroutine_when_tables_empty. Qed.
Print Assumptions C17_no_goroutine_when_tables_empty.

(* ---------- cancellation / timeout never blocks other queries ---------- *)
(* for every op sequence no sender is ever blocked in a channel send while holding arqMapLock or
   waitingQueriesLock *)
Theorem C17_no_send_on_full_channel_under_lock : forall mx ops, wedged (run mx init ops) = false.
Proof. exact no_send_on_full_channel_under_lock. Qed.
Print Assumptions C17_no_send_on_full_channel_under_lock.

Theorem C17_admission_never_blocks : forall mx ops o,
  (o = Pull \/ exists q a f, o = Start q a f) ->
  wedged (fst (step mx (run mx init ops) o)) = false.
Proof. exact admission_never_blocks. Qed.
Print Assumptions C17_admission_never_blocks.

(* ---------- the locks held while a sender waits for a slow receiver ----------
   Lock-level model (SigM.QueryLife, second half): arqMapLock (RWMutex; a waiting writer stops new
   readers), waitingQueriesLock, the per-query rqsLock, StateChan sends that park while the channel
   is full ([full], may change from call to call).  Every function of querystatus.go is a script
   ([script]: acquisitions, releases, sends in program order); a goroutine runs until the first
   action that cannot proceed and parks there with the locks it holds ([exec], [lrun]).
   The harness observes on the real code, call by call, returned/parked and TryLock probes of the
   three locks, and compares them with [exec] / [probe] in Coq. *)

(* CancelQuery - called directly or by the timeout watcher - holds no lock at its CANCELLED send,
   nor does the watcher at its TIMEOUT send *)
Theorem C17_cancel_send_holds_no_lock : forall q w,
  Forall (fun x => snd x = []) (held_at_sends [] (script (LCancel q w))) /\
  Forall (fun x => snd x = []) (held_at_sends [] (script (LTimeoutCancel q))) /\
  Forall (fun x => snd x = []) (held_at_sends [] (script (LTimeoutSend q))).
Proof. exact cancel_send_holds_no_lock. Qed.
Print Assumptions C17_cancel_send_holds_no_lock.

(* for ANY scripts (whatever code they stand for) that never send on a full channel while holding
   a lock, in any order and with any channels full at any time: every parked goroutine holds no
   lock and waits for a receiver *)
Theorem C17_parked_senders_hold_no_lock : forall steps,
  Forall (fun fs => sends_unlocked (fst fs) [] (snd fs) = true) steps ->
  Forall (fun p => p_holds p = [] /\ exists q, p_wait p = WSend q) (lrun [] steps).
Proof. exact parked_senders_hold_no_lock. Qed.
Print Assumptions C17_parked_senders_hold_no_lock.

(* FULL STATEMENT (fails for the code as it is, see the refutation below):
     forall steps full' o', forallb (fun q => negb (full' q)) (lop_qids o') = true ->
       exec full' (lrun [] (code_steps steps)) [] (script o') = None
   "whatever was called before and whichever channels were full, a call that concerns only queries
   whose channel is not full returns".
   GUARDED ([lop_ok]: queries are started on a channel that is not full - C17_admission_never_blocks,
   C17_waiting_untouched - and IncProgressForRRCCmd / SetPipeResp are not among the calls): a full
   channel of one query never blocks an operation on another query - nor an accessor of the blocked
   query itself - however many cancels, timeouts and executor sends wait for the receiver *)
Theorem C17_full_channel_blocks_no_other_query_guarded : forall steps full' o',
  forallb (fun fo => lop_ok (fst fo) (snd fo)) steps = true ->
  forallb (fun q => negb (full' q)) (lop_qids o') = true ->
  exec full' (lrun [] (code_steps steps)) [] (script o') = None.
Proof. exact full_channel_blocks_no_operation_on_other_queries. Qed.
Print Assumptions C17_full_channel_blocks_no_other_query_guarded.

(* the same with the weakest premise on the call: none of ITS sends goes to a full channel *)
Theorem C17_full_channel_blocks_only_its_senders_guarded : forall steps full' o',
  forallb (fun fo => lop_ok (fst fo) (snd fo)) steps = true ->
  targets_not_full full' (script o') = true ->
  exec full' (lrun [] (code_steps steps)) [] (script o') = None.
Proof. exact full_channel_blocks_no_other_query. Qed.
Print Assumptions C17_full_channel_blocks_only_its_senders_guarded.

(* the guard is met by a history with a canceller, a timeout watcher (at either of its sends) and an executor parked on the
   full channel of query 1 while query 2 is started, admitted, cancelled and deleted *)
Theorem C17_lock_guard_satisfiable :
  let steps := [(nonefull, LStart 1 true false); (only 1, LCancel 1 InRun); (only 1, LTimeoutCancel 1);
                (only 1, LTimeoutSend 1); (only 1, LExecSend 1); (only 1, LNestedAccessor 1); (only 1, LAccessor 1);
                (only 1, LStart 2 false true); (only 1, LPull (Some 2)); (only 1, LCancel 2 InRun);
                (only 1, LDelete 2 InRun); (only 1, LCount)]%N in
  forallb (fun fo => lop_ok (fst fo) (snd fo)) steps = true /\
  lrun [] (code_steps steps) = [mkP [] (WSend 1); mkP [] (WSend 1); mkP [] (WSend 1); mkP [] (WSend 1)]%N.
Proof. exact lock_guard_satisfiable. Qed.
Print Assumptions C17_lock_guard_satisfiable.

(* REFUTED without the guard (known finding progress_update_waiting_for_receiver_blocks_other_queries,
   confirmed on the real code): IncProgressForRRCCmd / SetPipeResp send QUERY_UPDATE while they hold
   rqsLock of the query; when its channel is full and a worker of the same query calls
   Get/SetAllColsInAggsForQid (rqsLock taken under arqMapLock.RLock), StartQuery of ANOTHER query
   parks on arqMapLock and after it even GetActiveQueryCount; without the nested accessor only the
   callers that need the rqsLock of that query (its own CancelQuery included) wait *)
Theorem C17_full_channel_blocks_other_queries_refuted :
  exists full q q', q <> q' /\ full q' = false /\
    lop_ok full (LProgressSend q) = false /\
    held_at_sends [] (script (LProgressSend q)) = [(q, [(LRqs q, Wr)])] /\
    let ps := lrun [] (code_steps [(full, LProgressSend q); (full, LNestedAccessor q)]) in
    exec full ps [] (script (LStart q' false false)) = Some (mkP [] (WAcq LArq Wr)) /\
    exec full (lstep ps (full, script (LStart q' false false))) [] (script LCount) <> None /\
    exec full (lrun [] (code_steps [(full, LProgressSend q)])) [] (script (LStart q' false false)) = None /\
    exec full (lrun [] (code_steps [(full, LProgressSend q)])) [] (script (LCancel q InRun)) = Some (mkP [] (WAcq (LRqs q) Wr)).
Proof. exact progress_send_under_query_lock_refuted. Qed.
Print Assumptions C17_full_channel_blocks_other_queries_refuted.

(* REFUTED for a CancelQuery that sends under the query's lock ([cancel_script true]:
   "rqsLock.Lock(); defer rqsLock.Unlock()" - NOT the code, [script (LCancel q w)] = [cancel_script false q w]):
   the discipline is broken, the canceller parks holding rqsLock, the worker parks holding
   arqMapLock.RLock, StartQuery of another query, GetActiveQueryCount, DeleteQuery and the puller park *)
Theorem C17_send_under_query_lock_refuted :
  exists full q q', q <> q' /\ full q' = false /\
    sends_unlocked full [] (cancel_script true q InRun) = false /\
    held_at_sends [] (cancel_script true q InRun) = [(q, [(LRqs q, Wr)])] /\
    let ps := lrun [] [(full, cancel_script true q InRun); (full, script (LNestedAccessor q))] in
    ps = [mkP [(LRqs q, Wr)] (WSend q); mkP [(LArq, Rd)] (WAcq (LRqs q) Wr)] /\
    exec full ps [] (script (LStart q' false false)) = Some (mkP [] (WAcq LArq Wr)) /\
    let ps' := lstep ps (full, script (LStart q' false false)) in
    exec full ps' [] (script LCount) = Some (mkP [] (WAcq LArq Rd)) /\
    exec full ps' [] (script (LDelete q' InWait)) <> None /\
    exec full ps' [] (script (LPull None)) <> None.
Proof. exact send_under_query_lock_refuted. Qed.
Print Assumptions C17_send_under_query_lock_refuted.

(* ---------- metrics requests (PromQL): executor + state-manager goroutines over the query tables ----------
   Model SigM.MetricsLife (pkg/segment/segexecution.go: ExecuteMetricsQuery = KSingle,
   ExecuteMultipleMetricsQuery = KMulti, manageStateForMetricsQuery): a request runs the selectors
   with the qids [R] one after the other (StartQuery queued, wait for READY, start the state manager,
   search, early return "query is cancelled" when the query was flagged - KMulti only -, else COMPLETE);
   the state manager of a qid is the only reader of its channel and the only caller of DeleteQuery
   (CANCELLED | TIMEOUT: flag, delete, leave; ERROR | COMPLETE: delete, leave).  A schedule [ops] says
   which goroutine moves next: XStep (executor to its next blocking point), MStep q (the manager of q
   takes one message), EPull, ECancel q, EFire q (timeout), EOther o (any table operation of other
   queries).  [rule] = true is the code; false is the variant "only flag on CANCELLED / TIMEOUT and
   keep listening" (seed C17e), used by the refuted statement.  Every table effect goes through
   QueryLife.step, so the theorems above hold for the tables of every metrics run. *)
Theorem C17_metrics_tables_are_query_tables : forall rule k R mx ops,
  m_q (mrun rule k R mx (minit R) ops) = run mx init (mtrace rule k R mx (minit R) ops).
Proof. exact metrics_tables_are_query_tables. Qed.
Print Assumptions C17_metrics_tables_are_query_tables.

Theorem C17_metrics_admission_bound : forall rule k R mx ops,
  nonforced (running (m_q (mrun rule k R mx (minit R) ops))) <= mx /\
  length (waiting (m_q (mrun rule k R mx (minit R) ops))) <= MAX_WAITING.
Proof. exact metrics_admission_bound. Qed.
Print Assumptions C17_metrics_admission_bound.

(* FULL statement: for every request (one or many selectors, distinct qids), every limit and EVERY
   schedule - cancel or timeout at any moment, any number of times, any other traffic -: once the
   request has been answered and every live state manager waits on an empty channel, no entry of any
   of its qids is in allRunningQueries or waitingQueries, no state manager and no timeout watcher of
   it is alive ([clean]) *)
Theorem C17_metrics_nothing_left_after_answer : forall R k mx ops, NoDup R ->
  let s := mrun true k R mx (minit R) ops in
  answered s = true -> quiescent s = true -> clean R s = true.
Proof. exact metrics_no_leak. Qed.
Print Assumptions C17_metrics_nothing_left_after_answer.

(* ... and the managers do get there: after the answer, letting every live manager take exactly the
   messages that are already in its channel ([drain_ops], no other step) leaves nothing *)
Theorem C17_metrics_state_managers_finish : forall R k mx ops, NoDup R ->
  let s := mrun true k R mx (minit R) ops in
  answered s = true -> clean R (mrun true k R mx s (drain_ops s)) = true.
Proof. exact metrics_managers_finish. Qed.
Print Assumptions C17_metrics_state_managers_finish.

(* the first message an admitted metrics query reads is READY (the early return "Did not receive
   ready state", which starts no state manager, only happens to a query cancelled while waiting,
   whose entry CancelQuery has removed) *)
Theorem C17_metrics_first_message_is_ready : forall R k mx ops q e, NoDup R ->
  let s := mrun true k R mx (minit R) ops in
  m_pc s = PWaitReady q -> lookup q (running (m_q s)) = Some e -> exists c', e_chan e = READY :: c'.
Proof. exact metrics_first_message_is_ready. Qed.
Print Assumptions C17_metrics_first_message_is_ready.

(* non-vacuity: `a + b` cancelled / timed out during the search of its first selector is answered as
   cancelled, is quiescent and clean, and the next query of anybody is admitted *)
Theorem C17_metrics_nothing_left_witnesses :
  forall w, w = leak_cancel \/ w = leak_timeout ->
  let s := mrun true KMulti [7; 8]%N 1 (minit [7; 8]%N) w in
  m_pc s = PDone RCancelled /\ quiescent s = true /\ clean [7; 8]%N s = true /\
  let s2 := mrun true KMulti [7; 8]%N 1 s [EOther (Start 9 false false); EPull] in
  in_table 9 (running (m_q s2)) = true.
Proof. exact metrics_no_leak_witnesses. Qed.
Print Assumptions C17_metrics_nothing_left_witnesses.

(* REFUTED for the variant rule = false (the state manager only flags the query on CANCELLED /
   TIMEOUT and relies on the executor's COMPLETE): the same two schedules end answered and quiescent
   with the entry of qid 7, its manager (and for the cancel its watcher) left behind, and with
   MAX_RUNNING_QUERIES = 1 a later query of anybody is never admitted *)
Theorem C17_metrics_flag_only_manager_refuted :
  forall w, w = leak_cancel \/ w = leak_timeout ->
  let s := mrun false KMulti [7; 8]%N 1 (minit [7; 8]%N) w in
  m_pc s = PDone RCancelled /\ quiescent s = true /\ clean [7; 8]%N s = false /\
  in_table 7 (running (m_q s)) = true /\ m_mgrs s = [7%N] /\
  let s2 := mrun false KMulti [7; 8]%N 1 s (drain_ops s ++ [EOther (Start 9 false false); EPull; EPull]) in
  in_table 9 (waiting (m_q s2)) = true /\ in_table 9 (running (m_q s2)) = false.
Proof. exact flag_only_manager_leaks_refuted. Qed.
Print Assumptions C17_metrics_flag_only_manager_refuted.

(* ... and it stays so WHATEVER happens later (any schedule [ops]: further cancels, timeouts, pulls,
   manager steps, traffic of other queries): the entry of qid 7 never leaves allRunningQueries, so
   with MAX_RUNNING_QUERIES = 1 the admission test of the puller is false for good *)
Theorem C17_metrics_flag_only_manager_entry_stays_forever : forall w ops,
  w = leak_cancel \/ w = leak_timeout ->
  let s := mrun false KMulti [7; 8]%N 1 (minit [7; 8]%N) (w ++ ops) in
  in_table 7 (running (m_q s)) = true /\ answered s = true /\
  Nat.ltb (length (running (m_q s))) 1 = false.
Proof. exact flag_only_manager_entry_stays_forever. Qed.
Print Assumptions C17_metrics_flag_only_manager_entry_stays_forever.

(* the variant is harmless for ExecuteMetricsQuery on the same schedule (COMPLETE is always sent):
   the defect lives in the pair "manager relies on COMPLETE" + "early return before COMPLETE" *)
Theorem C17_metrics_flag_only_single_selector_witness :
  let s := mrun false KSingle [7%N] 1 (minit [7%N]) leak_cancel in
  let s' := mrun false KSingle [7%N] 1 s (drain_ops s) in
  m_pc s = PDone RCancelled /\ clean [7%N] s' = true.
Proof. exact flag_only_manager_single_selector_witness. Qed.
Print Assumptions C17_metrics_flag_only_single_selector_witness.

(* ---------- regression witnesses of the repaired defects, and non-vacuity ---------- *)
Theorem C17_fixed_witnesses :
  (let s := run 2 init [Start 7 false false; Cancel 7; Pull] in
   running s = [] /\ waiting s = [] /\ map e_log (dead s) = [[CANCELLED]]) /\
  (let s := run 2 init [Start 7 false false; Delete 7; Pull] in
   running s = [] /\ waiting s = [] /\ map e_log (dead s) = [[]]) /\
  (let s := run 2 init [Start 7 false true; Cancel 7; Delete 7] in
   running s = [] /\ waiting s = [] /\ watchers s = []) /\
  (let s := run 2 init (Start 1 false true :: repeat (Cancel 1) 9 ++ [Start 2 false false; Pull]) in
   wedged s = false /\ in_table 2 (running s) = true).
Proof.
  exact (conj fixed_cancel_waiting (conj fixed_delete_waiting
        (conj fixed_watcher_released fixed_cancel_full_channel_blocks_nobody))).
Qed.
Print Assumptions C17_fixed_witnesses.

Theorem C17_live_fresh_satisfiable :
  live_fresh 1 init [Start 1 false false; Start 2 false false; Pull; Cancel 2; Complete 1; Recv 1; Delete 1;
                     Start 1 false true; Cancel 1; Delete 1] = true.
Proof. exact live_fresh_satisfiable. Qed.
Print Assumptions C17_live_fresh_satisfiable.

(* ---------- evaluator: index arithmetic of substr(str, start [, length]) ----------
   (one piece of the "answers with results or an error and keeps running" clause that IS modelled:
   model SigM.EvalIdx follows TextExpr.EvaluateText case "substr"; an invalid slice bound panics in
   the query goroutine and ends the process.  The other eval functions are covered by the
   robustness stream only.) *)
Open Scope Z_scope.
(* whatever the start and length arguments are, the range check lets only valid Go slices through *)
Theorem C17_substr_slice_valid : forall n start len lo hi,
  0 <= n -> substr_idx n start len = SOk lo hi -> 0 <= lo <= hi /\ hi <= n.
Proof. exact substr_slice_valid. Qed.
Print Assumptions C17_substr_slice_valid.

(* ... and the answer is "from the start position exactly [length] bytes, or the rest" *)
Theorem C17_substr_extent : forall n start len lo hi,
  substr_idx n start len = SOk lo hi ->
  lo = substr_start n start /\
  match len with Some l => 0 <= l /\ hi = lo + l | None => hi = n end.
Proof. exact substr_extent. Qed.
Print Assumptions C17_substr_extent.

(* a check of the END index (end < 0 || end > len) instead of the length is the same function
   unless the length is negative with a non-negative end index ... *)
Theorem C17_substr_endcheck_agrees_guarded : forall n start len,
  match len with Some l => 0 <= l \/ substr_start n start + l < 0 | None => True end ->
  substr_idx_endcheck n start len = substr_idx n start len.
Proof. exact endcheck_agrees. Qed.
Print Assumptions C17_substr_endcheck_agrees_guarded.

(* ... where it admits an invalid slice: substr of an 8-byte string, start 6, length -2 -> [5:3] *)
Theorem C17_substr_endcheck_refuted :
  exists n start l lo hi, 0 <= n /\ substr_idx_endcheck n start (Some l) = SOk lo hi /\
    slice_valid n lo hi = false /\ hi < lo /\ substr_idx n start (Some l) = SErrLen.
Proof. exact endcheck_refuted. Qed.
Print Assumptions C17_substr_endcheck_refuted.
Open Scope nat_scope.

(* ---------- PRE-FIX documentation (about [step_prefix] / [run_prefix], querystatus.go before the
   two repairs; no longer the code).  Before the fixes the statements above held only under guards
   ("q is not in the waiting queue", "the query was not cancelled", "at most 8 messages besides
   READY/RUNNING per qid") and were refuted without them; each witness was confirmed on the pre-fix
   code.  The harness keeps the generator streams: a regression is a VIOLATION of the classes
   cancel_waiting_query_noop, cancelled_query_watcher_lingers, cancel_blocks_on_full_state_channel. ---------- *)
Theorem C17_prefix_no_entry_after_terminal_refuted :
  exists mx ops q, in_table q (waiting (run_prefix mx init (ops ++ [Delete q]))) = true.
Proof. exact prefix_no_entry_after_terminal_refuted. Qed.
Print Assumptions C17_prefix_no_entry_after_terminal_refuted.

Theorem C17_prefix_cancel_waiting_refuted :
  exists mx ops q, in_table q (waiting (run_prefix mx init ops)) = true /\
    let s' := run_prefix mx init (ops ++ [Cancel q; Pull]) in
    exists e, lookup q (running s') = Some e /\ e_cancelled e = false /\ e_log e = [RUNNING; READY] /\ term_of e = None.
Proof. exact prefix_cancel_waiting_refuted. Qed.
Print Assumptions C17_prefix_cancel_waiting_refuted.

Theorem C17_prefix_watcher_released_refuted :
  exists mx ops q, let s := run_prefix mx init ops in
    running s = [] /\ waiting s = [] /\ wedged s = false /\ has_watcher q s = true.
Proof. exact prefix_watcher_released_refuted. Qed.
Print Assumptions C17_prefix_watcher_released_refuted.

Theorem C17_prefix_no_send_on_full_channel_refuted :
  exists mx ops, wedged (run_prefix mx init ops) = true /\ wedged (run_prefix mx init (removelast ops)) = false.
Proof. exact prefix_no_send_on_full_channel_refuted. Qed.
Print Assumptions C17_prefix_no_send_on_full_channel_refuted.

(* ==== the SET-UP of a query: every error exit releases what the set-up acquired ====
   Model SigM.QuerySetup: segment.ExecuteQueryInternalNewPipeline = SetupPipeResQuery (PrepareToRunQuery /
   InitQueryInfoAndSummary, NewQueryProcessor, SetCleanupCallback) followed by GetFullResult, as the program
   [setup_code] / [run_code] of acquisitions (resource 0 = the query summary: a ticker and the goroutine
   QuerySummary.tickWatcher), validations of the request [inp k], lookups of the qid in allRunningQueries, and
   points at which the rest of the server acts: [env p] is ANY list of CancelQuery / timeout watcher /
   DeleteQuery / failing hook at point p (before the executor starts, InitDistributedQueryServiceHook,
   GetDistributedStreamsHook, the last statement of NewQueryProcessor, FilterQsrsHook during the run).
   [s_live] = what is alive of the query; [s_entry] = its entry in allRunningQueries. *)
From SigM Require QuerySetup.
From SigP Require QuerySetupProofs.

(* the discipline "each error exit releases everything acquired before it" ([exits_release], a check of the program
   text) is sufficient, for every program, every behaviour of the environment and every input *)
Theorem C17_setup_discipline_sufficient : forall prog env inp s ex s',
  QuerySetup.exits_release [] prog = true -> QuerySetup.s_live s = [] ->
  QuerySetup.run_steps env inp prog s = (ex, s') -> ex <> QuerySetup.x_ok -> QuerySetup.s_live s' = [].
Proof. exact QuerySetupProofs.disciplined_setup_error_exit_releases_all. Qed.
Print Assumptions C17_setup_discipline_sufficient.

(* the code: whichever error exit SetupPipeResQuery takes (failed to prepare / to create the query processor / to set
   the cleanup callback), under any cancels, timeouts, deletes and hook failures at any point, nothing is alive afterwards *)
Theorem C17_setup_error_exit_releases_all : forall env inp present ex s',
  QuerySetup.run_steps env inp QuerySetup.setup_code
    (QuerySetup.at_point env QuerySetup.p_before (QuerySetup.init present)) = (ex, s') ->
  ex <> QuerySetup.x_ok -> QuerySetup.s_live s' = [].
Proof. exact QuerySetupProofs.setup_error_exit_releases_all. Qed.
Print Assumptions C17_setup_error_exit_releases_all.

(* a set-up that succeeded has handed the summary over: the entry exists and its cleanup callback releases it *)
Theorem C17_setup_success_hands_over : forall env inp s s',
  QuerySetup.run_steps env inp QuerySetup.setup_code s = (QuerySetup.x_ok, s') ->
  exists e, QuerySetup.s_entry s' = Some e /\ QuerySetup.e_cb e = Some [QuerySetup.r_summary].
Proof. exact QuerySetupProofs.setup_success_hands_over. Qed.
Print Assumptions C17_setup_success_hands_over.

(* when ExecuteQueryInternalNewPipeline has returned - on any exit - no goroutine or ticker of the query is alive,
   and after the handler's DeleteQuery no table entry either *)
Theorem C17_setup_executor_leaves_nothing : forall env inp present,
  QuerySetup.s_live (snd (QuerySetup.exec_code env inp (QuerySetup.init present))) = [].
Proof. exact QuerySetupProofs.exec_code_leaves_nothing. Qed.
Print Assumptions C17_setup_executor_leaves_nothing.

Theorem C17_setup_nothing_left_after_handler_delete : forall env inp present,
  let s := QuerySetup.after_delete (snd (QuerySetup.exec_code env inp (QuerySetup.init present))) in
  QuerySetup.s_entry s = None /\ QuerySetup.s_live s = [].
Proof. exact QuerySetupProofs.nothing_left_after_handler_delete. Qed.
Print Assumptions C17_setup_nothing_left_after_handler_delete.

(* the executor sends exactly one final message (COMPLETE = 4 on the ok exit, ERROR = 7 otherwise), whatever the
   environment sends in between (CANCELLED, TIMEOUT) *)
Theorem C17_setup_executor_sends_one_final_message : forall setup run deferred env inp s,
  QuerySetup.s_msgs s = [] ->
  let '(ex, s') := QuerySetup.exec env inp setup run deferred s in
  QuerySetupProofs.finals (QuerySetup.s_msgs s') = [if Nat.eqb ex QuerySetup.x_ok then 4%N else 7%N].
Proof. exact QuerySetupProofs.exec_sends_exactly_one_final_message. Qed.
Print Assumptions C17_setup_executor_sends_one_final_message.

(* not vacuous: every exit of the code is taken by some environment / input *)
Theorem C17_setup_every_exit_reachable :
  fst (QuerySetup.exec_code (fun _ => []) QuerySetupProofs.no_fail (QuerySetup.init true)) = QuerySetup.x_ok /\
  fst (QuerySetup.exec_code (QuerySetupProofs.env1 QuerySetup.p_dqs [QuerySetup.ADelete]) QuerySetupProofs.no_fail (QuerySetup.init true)) = QuerySetup.x_prepare /\
  fst (QuerySetup.exec_code (QuerySetupProofs.env1 QuerySetup.p_streams [QuerySetup.AFail]) QuerySetupProofs.no_fail (QuerySetup.init true)) = QuerySetup.x_processor /\
  fst (QuerySetup.exec_code (fun _ => []) (fun k => Nat.eqb k 2) (QuerySetup.init true)) = QuerySetup.x_processor /\
  fst (QuerySetup.exec_code (QuerySetupProofs.env1 QuerySetup.p_created [QuerySetup.ATimeout; QuerySetup.ADelete]) QuerySetupProofs.no_fail (QuerySetup.init true)) = QuerySetup.x_callback /\
  fst (QuerySetup.exec_code (QuerySetupProofs.env1 QuerySetup.p_qsrs [QuerySetup.ADelete]) QuerySetupProofs.no_fail (QuerySetup.init true)) = QuerySetup.x_run.
Proof. exact QuerySetupProofs.every_exit_reachable. Qed.
Print Assumptions C17_setup_every_exit_reachable.

(* the variant with ONE deferred `if err != nil { querySummary.Cleanup() }` and `if err := query.SetCleanupCallback(...)`
   (the inner err shadows the one the closure reads) is refuted: it does not pass the check, a query cancelled and
   deleted while GetDistributedStreamsHook runs keeps its ticker goroutine, and nothing that follows removes it;
   on every other exit the variant behaves like the code (which is why only a removal in that window shows it) *)
Theorem C17_setup_shadowed_err_not_disciplined :
  QuerySetup.exits_release [] QuerySetup.setup_shadowed = false /\ QuerySetup.exits_release [] QuerySetup.setup_code = true.
Proof. split; [exact QuerySetupProofs.setup_shadowed_not_disciplined|exact QuerySetupProofs.setup_code_disciplined]. Qed.
Print Assumptions C17_setup_shadowed_err_not_disciplined.

Theorem C17_setup_shadowed_err_refuted :
  let '(ex, s) := QuerySetup.exec_shadowed (QuerySetupProofs.env1 QuerySetup.p_streams [QuerySetup.ACancel; QuerySetup.ADelete])
                    QuerySetupProofs.no_fail (QuerySetup.init true) in
  ex = QuerySetup.x_callback /\ QuerySetup.s_entry s = None /\ QuerySetup.s_live s = [QuerySetup.r_summary] /\
  QuerySetup.s_live (QuerySetup.after_delete s) = [QuerySetup.r_summary].
Proof. exact QuerySetupProofs.shadowed_setup_leaks_summary. Qed.
Print Assumptions C17_setup_shadowed_err_refuted.

Theorem C17_setup_shadowed_err_leak_is_permanent : forall later : list QuerySetup.action,
  let s := snd (QuerySetup.exec_shadowed (QuerySetupProofs.env1 QuerySetup.p_streams [QuerySetup.ACancel; QuerySetup.ADelete])
                  QuerySetupProofs.no_fail (QuerySetup.init true)) in
  QuerySetup.s_live (fold_left QuerySetup.act later s) = [QuerySetup.r_summary].
Proof. exact QuerySetupProofs.shadowed_leak_is_permanent. Qed.
Print Assumptions C17_setup_shadowed_err_leak_is_permanent.

Theorem C17_setup_code_same_schedule_releases :
  let '(ex, s) := QuerySetup.exec_code (QuerySetupProofs.env1 QuerySetup.p_streams [QuerySetup.ACancel; QuerySetup.ADelete])
                    QuerySetupProofs.no_fail (QuerySetup.init true) in
  ex = QuerySetup.x_callback /\ QuerySetup.s_entry s = None /\ QuerySetup.s_live s = [] /\ QuerySetup.s_msgs s = [5%N; 7%N].
Proof. exact QuerySetupProofs.code_same_schedule_releases. Qed.
Print Assumptions C17_setup_code_same_schedule_releases.

Theorem C17_setup_shadowed_err_other_exits_release : forall env inp present,
  fst (QuerySetup.exec_shadowed env inp (QuerySetup.init present)) <> QuerySetup.x_callback ->
  QuerySetup.s_live (snd (QuerySetup.exec_shadowed env inp (QuerySetup.init present))) = [].
Proof. exact QuerySetupProofs.shadowed_other_exits_release. Qed.
Print Assumptions C17_setup_shadowed_err_other_exits_release.

(* ==== lock discipline of the code as it is NOW ====
   coq/gen/GenLocks.v holds the lock / channel skeleton of every function of 19 packages (query admission and execution,
   metadata, writer, searcher, metrics results ...), regenerated from /repo's type-checked source on every run (gotrans
   locktrace); LockTrace.analyse computes every lock set a skeleton can reach. *)

(* the analysis is sound: a clean report covers EVERY trace of the skeleton — all branch choices, any number of loop iterations *)
Theorem C17_lock_analysis_sound : forall (fuel : nat) (s : LockTrace.stm),
  LockTrace.analyse fuel s = [] -> forall t o, LockTrace.exec s t o -> LockTrace.trace_ok t.
Proof. exact LockTraceProofs.analyse_sound. Qed.
Print Assumptions C17_lock_analysis_sound.

(* what an objection means: somewhere on the trace a blocking channel operation happens while a lock is held /
   a mutex is acquired that the goroutine already holds *)
Theorem C17_lock_objection_block_means : forall t h0 c l, LockTrace.mrun h0 t = inr (LockTrace.VBlockUnderLock c l) ->
  exists t1 k t2 h, t = t1 ++ (k, c) :: t2 /\ (k = LockTrace.KSend \/ k = LockTrace.KRecv)
    /\ LockTrace.mrun h0 t1 = inl h /\ LockTrace.holds h l = true.
Proof. exact LockTraceProofs.mrun_block_means. Qed.
Theorem C17_lock_objection_reacquire_means : forall t h0 o, LockTrace.mrun h0 t = inr (LockTrace.VReacquire o) ->
  exists t1 k t2 h, t = t1 ++ (k, o) :: t2 /\ (k = LockTrace.KLock \/ k = LockTrace.KRLock)
    /\ LockTrace.mrun h0 t1 = inl h /\ LockTrace.holds h o = true.
Proof. exact LockTraceProofs.mrun_reacquire_means. Qed.

(* every function of those packages that is not one of the listed hazards of the unchanged tree (GenLocksCheck.lk_exceptions:
   READY/RUNNING and QUERY_RESTART sent under arqMapLock, progress updates of async queries sent under rqsLock, ...):
   on no trace of its skeleton does the goroutine block on a channel while holding a lock or re-acquire a mutex it holds *)
Theorem C17_lock_discipline : forall (name : String.string) (s : LockTrace.stm),
  In (name, s) GenLocks.lk_all -> GenLocksCheck.allowed name GenLocksCheck.lk_exceptions = [] ->
  forall t o, LockTrace.exec s t o -> LockTrace.trace_ok t.
Proof. exact GenLocksProofs.lk_discipline. Qed.
Print Assumptions C17_lock_discipline.

(* non-vacuity: CancelQuery, DeleteQuery, the accessors and the timeout watcher are present and not among the exceptions *)
Theorem C17_lock_discipline_covers_cancel_and_delete :
  forallb GenLocksProofs.lk_covered GenLocksProofs.lk_c17_functions = true.
Proof. exact GenLocksProofs.lk_c17_functions_covered. Qed.

(* ---- lock ORDER: at every acquisition on every trace of an unlisted function, each mutex already held precedes the
   acquired one in GenLocksCheck.lk_order_graph (all nestings of all unlisted functions); that graph carries a ranking that
   increases along every edge (checked on the regenerated skeletons on every run), so goroutines running those functions
   cannot wait for each other in a ring.  (The only cycle of the unchanged tree, rqsLock <-> arqMapLock, is closed by
   RestartQuery, a listed exception.) *)
Theorem C17_lock_acquisitions_follow_one_order : forall (name : String.string) (s : LockTrace.stm),
  In (name, s) GenLocks.lk_all -> GenLocksCheck.allowed name GenLocksCheck.lk_exceptions = [] ->
  forall t1 k l t2 o h, LockTrace.exec s (t1 ++ (k, l) :: t2) o -> LockOrder.is_acquire k = true ->
  LockTrace.mrun [] t1 = inl h -> LockOrder.justified GenLocksCheck.lk_order_graph (h, l).
Proof. exact GenLocksProofs.lk_acquisitions_follow_the_order. Qed.
Print Assumptions C17_lock_acquisitions_follow_one_order.

Theorem C17_no_ring_of_waiting_goroutines : forall ws : list LockOrder.waiter,
  Forall (LockOrder.justified GenLocksCheck.lk_order_graph) ws -> Forall (fun w => fst w <> []) ws -> ~ LockOrder.ring ws.
Proof. exact GenLocksProofs.lk_no_ring. Qed.
Print Assumptions C17_no_ring_of_waiting_goroutines.

(* ---- the running-query table is read and written only under arqMapLock (guarded-by skeletons regenerated from
   /repo on every run; rule C17.* of GenGuardCheck.gb_rules; the withLock* helpers are entered with the lock held
   and are checked where they are inlined into their callers). ---- *)
From SigP Require GenGuardCheck GenGuardC17.
Theorem C17_code_running_query_table_touched_only_under_its_lock : forall r : GenGuardCheck.grule,
  In r GenGuardCheck.c17_grules -> GenGuardCheck.grule_holds r.
Proof. exact GenGuardC17.gb_C17_rules_hold. Qed.
Print Assumptions C17_code_running_query_table_touched_only_under_its_lock.

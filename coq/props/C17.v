(* C17 — Every query is answered or rejected, terminates, frees resources.   PARTIAL CLAIM.
   Statements only; proofs are in SigP.QueryLifeProofs.

   What these theorems are about: the query life-cycle state machine of
   pkg/segment/query/querystatus.go (model SigM.QueryLife: allRunningQueries, waitingQueries,
   StateChan with buffer 10, the timeout-watcher goroutines; ops Start(forceRun) / Pull / Cancel /
   Fire (timeout) / Complete / Fail / Delete / Recv), for ALL op sequences [ops] and every limit [mx].
   [run mx init ops] is the state after the ops; [insts s] = every query instance ever started
   (running ++ waiting ++ those no table refers to any more); [e_ser] identifies an instance.

   What they are NOT about (supported by robustness runs only, not by proof): that every byte
   string in the five query languages is parsed or rejected in bounded time, that the same text
   yields the same plan, that the evaluator terminates, that the process keeps running, and that
   executor goroutines end.  See notes/C17.md.

   The statements below are at full strength for the code AFTER the repairs
   fixes/C17-cancel-waiting-query (CancelQuery / DeleteQuery also handle a query that is still
   waiting, the move from the queue to the running table is atomic, CANCELLED is sent with no lock
   held) and fixes/C17-release-timeout-watcher (DeleteQuery always releases the timeout watcher).
   Hypothesis [live_fresh mx init ops = true]: no Start re-uses a qid that is still in a table
   (the server's qid counter; StartQuery's own duplicate check looks at the running table only).
   The pre-fix behaviour is documented at the end by C17_prefix_*_refuted (model [step_prefix]). *)
From Coq Require Import List Sorted.
From SigM Require Import Base QueryLife EvalIdx.
From SigP Require Import BaseProofs QueryLifeProofs EvalIdxProofs.
Import ListNotations.
Open Scope nat_scope.

(* ---------- admission limits ---------- *)
(* the number of running queries that were started without forceRun never exceeds MAX_RUNNING_QUERIES *)
Theorem C17_admission_bound : forall mx ops, nonforced (running (run mx init ops)) <= mx.
Proof. exact admission_bound. Qed.
Print Assumptions C17_admission_bound.

(* ... and without forced starts the whole running table obeys the limit *)
Theorem C17_running_bound_without_forced : forall mx ops,
  forallb (fun o => negb (is_forced_start o)) ops = true -> length (running (run mx init ops)) <= mx.
Proof. exact running_bound_without_forced. Qed.
Print Assumptions C17_running_bound_without_forced.

Theorem C17_waiting_bound : forall mx ops, length (waiting (run mx init ops)) <= MAX_WAITING.
Proof. exact waiting_bound. Qed.
Print Assumptions C17_waiting_bound.

(* the running table is a map: one entry per qid *)
Theorem C17_running_qids_unique : forall mx ops, NoDup (map e_qid (running (run mx init ops))).
Proof. exact running_qids_unique. Qed.
Print Assumptions C17_running_qids_unique.

(* ---------- FIFO admission ---------- *)
(* the serials admitted from the queue, in order of admission, followed by the serials still waiting,
   in queue order, are strictly increasing: queries leave the queue in arrival order and nothing
   still waiting arrived before an admitted one *)
Theorem C17_fifo_admission : forall mx ops, let s := run mx init ops in
  StronglySorted lt (rev (admitted s) ++ map e_ser (waiting s)).
Proof. exact fifo_admission. Qed.
Print Assumptions C17_fifo_admission.

(* ---------- exactly one terminal state ---------- *)
Theorem C17_serials_unique : forall mx ops, NoDup (map e_ser (insts (run mx init ops))).
Proof. exact serials_unique. Qed.
Print Assumptions C17_serials_unique.

(* once a terminal message (COMPLETE / CANCELLED / TIMEOUT / ERROR) has been sent for an instance,
   that is its terminal state in every later state, whatever ops follow *)
Theorem C17_one_terminal_state : forall mx ops1 ops2 e t,
  In e (insts (run mx init ops1)) -> term_of e = Some t ->
  forall e', In e' (insts (run mx init (ops1 ++ ops2))) -> e_ser e' = e_ser e -> term_of e' = Some t.
Proof. exact one_terminal_state. Qed.
Print Assumptions C17_one_terminal_state.

(* the instance keeps existing and its message log only grows (so the theorem above is not empty) *)
Theorem C17_instance_persists : forall mx ops1 ops2 e,
  In e (insts (run mx init ops1)) ->
  exists e', In e' (insts (run mx init (ops1 ++ ops2))) /\ later e e'.
Proof. exact instance_persists. Qed.
Print Assumptions C17_instance_persists.

(* a query is started at most once: READY, RUNNING occur at most once and only at the very beginning
   of its message log (no way back from a terminal state to running; a query cancelled while
   waiting has just CANCELLED) *)
Theorem C17_started_once : forall mx ops, Forall log_ok (insts (run mx init ops)).
Proof. exact started_once. Qed.
Print Assumptions C17_started_once.

(* nothing is ever sent to, and no flag set on, a query that is still waiting *)
Theorem C17_waiting_untouched : forall mx ops,
  Forall (fun e => e_chan e = [] /\ e_log e = [] /\ e_cancelled e = false) (waiting (run mx init ops)).
Proof. exact waiting_untouched. Qed.
Print Assumptions C17_waiting_untouched.

(* ---------- no entry after a terminal state ---------- *)
Theorem C17_live_qids_unique : forall mx ops, live_fresh mx init ops = true ->
  NoDup (map e_qid (running (run mx init ops) ++ waiting (run mx init ops))).
Proof. exact live_qids_unique. Qed.
Print Assumptions C17_live_qids_unique.

(* after DeleteQuery(q) the qid is in neither table, wherever the query was *)
Theorem C17_no_entry_after_terminal : forall mx ops q, live_fresh mx init ops = true ->
  let s' := fst (step mx (run mx init ops) (Delete q)) in
  in_table q (running s') = false /\ in_table q (waiting s') = false.
Proof. exact no_entry_after_terminal. Qed.
Print Assumptions C17_no_entry_after_terminal.

(* an instance that left the tables stays out of them for ever *)
Theorem C17_removed_instance_never_returns : forall mx ops1 ops2 e,
  In e (dead (run mx init ops1)) ->
  let s' := run mx init (ops1 ++ ops2) in
  In e (dead s') /\ forall x, In x (running s' ++ waiting s') -> e_ser x <> e_ser e.
Proof. exact removed_instance_never_returns. Qed.
Print Assumptions C17_removed_instance_never_returns.

(* a query cancelled while waiting leaves the queue, is told CANCELLED (its terminal state) and,
   by the theorem above and C17_started_once, is never started *)
Theorem C17_cancel_waiting_never_started : forall mx ops q, live_fresh mx init ops = true ->
  in_table q (waiting (run mx init ops)) = true ->
  let s' := fst (step mx (run mx init ops) (Cancel q)) in
  in_table q (running s') = false /\ in_table q (waiting s') = false /\
  exists e', In e' (dead s') /\ e_qid e' = q /\ e_cancelled e' = true /\ e_log e' = [CANCELLED] /\
             term_of e' = Some CANCELLED.
Proof. exact cancel_waiting_never_started. Qed.
Print Assumptions C17_cancel_waiting_never_started.

(* cancelling a running query always sets the flag; CANCELLED is delivered (terminal state) when
   the channel has room, otherwise only the canceller waits *)
Theorem C17_cancel_running_terminal : forall mx ops q e,
  let s := run mx init ops in
  lookup q (running s) = Some e ->
  let s' := fst (step mx s (Cancel q)) in
  exists e', lookup q (running s') = Some e' /\ e_ser e' = e_ser e /\ e_cancelled e' = true /\
             (has_room e = true -> e_log e' = CANCELLED :: e_log e /\ term_of e' <> None).
Proof. exact cancel_running_terminal. Qed.
Print Assumptions C17_cancel_running_terminal.

(* ---------- goroutines of the life cycle: the timeout watcher ---------- *)
(* every live watcher belongs to an entry of the running table: when a query has left the tables
   (complete, error, cancelled or timed out, then DeleteQuery) no goroutine of its life cycle remains *)
Theorem C17_watcher_released : forall mx ops, live_fresh mx init ops = true ->
  let s := run mx init ops in
  forall w, In w (watchers s) -> exists e, In e (running s) /\ e_ser e = fst w /\ e_qid e = snd w.
Proof. exact watcher_released. Qed.
Print Assumptions C17_watcher_released.

Theorem C17_no_goroutine_when_tables_empty : forall mx ops, live_fresh mx init ops = true ->
  running (run mx init ops) = [] -> watchers (run mx init ops) = [].
Proof. exact no_goroutine_when_tables_empty. Qed.
Print Assumptions C17_no_goroutine_when_tables_empty.

(* ---------- cancellation / timeout never blocks other queries ---------- *)
(* for every op sequence no sender is ever blocked in a channel send while holding arqMapLock or
   waitingQueriesLock *)
Theorem C17_no_send_on_full_channel_under_lock : forall mx ops, wedged (run mx init ops) = false.
Proof. exact no_send_on_full_channel_under_lock. Qed.
Print Assumptions C17_no_send_on_full_channel_under_lock.

Theorem C17_admission_never_blocks : forall mx ops o,
  (o = Pull \/ exists q a f, o = Start q a f) ->
  wedged (fst (step mx (run mx init ops) o)) = false.
Proof. exact admission_never_blocks. Qed.
Print Assumptions C17_admission_never_blocks.

(* ---------- regression witnesses of the repaired defects, and non-vacuity ---------- *)
Theorem C17_fixed_witnesses :
  (let s := run 2 init [Start 7 false false; Cancel 7; Pull] in
   running s = [] /\ waiting s = [] /\ map e_log (dead s) = [[CANCELLED]]) /\
  (let s := run 2 init [Start 7 false false; Delete 7; Pull] in
   running s = [] /\ waiting s = [] /\ map e_log (dead s) = [[]]) /\
  (let s := run 2 init [Start 7 false true; Cancel 7; Delete 7] in
   running s = [] /\ waiting s = [] /\ watchers s = []) /\
  (let s := run 2 init (Start 1 false true :: repeat (Cancel 1) 9 ++ [Start 2 false false; Pull]) in
   wedged s = false /\ in_table 2 (running s) = true).
Proof.
  exact (conj fixed_cancel_waiting (conj fixed_delete_waiting
        (conj fixed_watcher_released fixed_cancel_full_channel_blocks_nobody))).
Qed.
Print Assumptions C17_fixed_witnesses.

Theorem C17_live_fresh_satisfiable :
  live_fresh 1 init [Start 1 false false; Start 2 false false; Pull; Cancel 2; Complete 1; Recv 1; Delete 1;
                     Start 1 false true; Cancel 1; Delete 1] = true.
Proof. exact live_fresh_satisfiable. Qed.
Print Assumptions C17_live_fresh_satisfiable.

(* ---------- evaluator: index arithmetic of substr(str, start [, length]) ----------
   (one piece of the "answers with results or an error and keeps running" clause that IS modelled:
   model SigM.EvalIdx follows TextExpr.EvaluateText case "substr"; an invalid slice bound panics in
   the query goroutine and ends the process.  The other eval functions are covered by the
   robustness stream only.) *)
Open Scope Z_scope.
(* whatever the start and length arguments are, the range check lets only valid Go slices through *)
Theorem C17_substr_slice_valid : forall n start len lo hi,
  0 <= n -> substr_idx n start len = SOk lo hi -> 0 <= lo <= hi /\ hi <= n.
Proof. exact substr_slice_valid. Qed.
Print Assumptions C17_substr_slice_valid.

(* ... and the answer is "from the start position exactly [length] bytes, or the rest" *)
Theorem C17_substr_extent : forall n start len lo hi,
  substr_idx n start len = SOk lo hi ->
  lo = substr_start n start /\
  match len with Some l => 0 <= l /\ hi = lo + l | None => hi = n end.
Proof. exact substr_extent. Qed.
Print Assumptions C17_substr_extent.

(* a check of the END index (end < 0 || end > len) instead of the length is the same function
   unless the length is negative with a non-negative end index ... *)
Theorem C17_substr_endcheck_agrees_guarded : forall n start len,
  match len with Some l => 0 <= l \/ substr_start n start + l < 0 | None => True end ->
  substr_idx_endcheck n start len = substr_idx n start len.
Proof. exact endcheck_agrees. Qed.
Print Assumptions C17_substr_endcheck_agrees_guarded.

(* ... where it admits an invalid slice: substr of an 8-byte string, start 6, length -2 -> [5:3] *)
Theorem C17_substr_endcheck_refuted :
  exists n start l lo hi, 0 <= n /\ substr_idx_endcheck n start (Some l) = SOk lo hi /\
    slice_valid n lo hi = false /\ hi < lo /\ substr_idx n start (Some l) = SErrLen.
Proof. exact endcheck_refuted. Qed.
Print Assumptions C17_substr_endcheck_refuted.
Open Scope nat_scope.

(* ---------- PRE-FIX documentation (about [step_prefix] / [run_prefix], querystatus.go before the
   two repairs; no longer the code).  Before the fixes the statements above held only under guards
   ("q is not in the waiting queue", "the query was not cancelled", "at most 8 messages besides
   READY/RUNNING per qid") and were refuted without them; each witness was confirmed on the pre-fix
   code.  The harness keeps the generator streams: a regression is a VIOLATION of the classes
   cancel_waiting_query_noop, cancelled_query_watcher_lingers, cancel_blocks_on_full_state_channel. ---------- *)
Theorem C17_prefix_no_entry_after_terminal_refuted :
  exists mx ops q, in_table q (waiting (run_prefix mx init (ops ++ [Delete q]))) = true.
Proof. exact prefix_no_entry_after_terminal_refuted. Qed.
Print Assumptions C17_prefix_no_entry_after_terminal_refuted.

Theorem C17_prefix_cancel_waiting_refuted :
  exists mx ops q, in_table q (waiting (run_prefix mx init ops)) = true /\
    let s' := run_prefix mx init (ops ++ [Cancel q; Pull]) in
    exists e, lookup q (running s') = Some e /\ e_cancelled e = false /\ e_log e = [RUNNING; READY] /\ term_of e = None.
Proof. exact prefix_cancel_waiting_refuted. Qed.
Print Assumptions C17_prefix_cancel_waiting_refuted.

Theorem C17_prefix_watcher_released_refuted :
  exists mx ops q, let s := run_prefix mx init ops in
    running s = [] /\ waiting s = [] /\ wedged s = false /\ has_watcher q s = true.
Proof. exact prefix_watcher_released_refuted. Qed.
Print Assumptions C17_prefix_watcher_released_refuted.

Theorem C17_prefix_no_send_on_full_channel_refuted :
  exists mx ops, wedged (run_prefix mx init ops) = true /\ wedged (run_prefix mx init (removelast ops)) = false.
Proof. exact prefix_no_send_on_full_channel_refuted. Qed.
Print Assumptions C17_prefix_no_send_on_full_channel_refuted.

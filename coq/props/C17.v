(* C17 — Every query is answered or rejected, terminates, frees resources.   PARTIAL CLAIM.
   Statements only; proofs are in SigP.QueryLifeProofs.

   What these theorems are about: the query life-cycle state machine of
   pkg/segment/query/querystatus.go (model SigM.QueryLife: allRunningQueries, waitingQueries,
   StateChan with buffer 10, the timeout-watcher goroutines; ops Start(forceRun) / Pull / Cancel /
   Fire (timeout) / Complete / Fail / Delete / Recv), for ALL op sequences [ops] and every limit [mx].
   [run mx init ops] is the state after the ops; [insts s] = every query instance ever started
   (running ++ waiting ++ those no table refers to any more); [e_ser] identifies an instance.

   What they are NOT about (supported by robustness runs only, not by proof): that every byte
   string in the five query languages is parsed or rejected in bounded time, that the same text
   yields the same plan, that the evaluator terminates, that the process keeps running, and that
   executor goroutines end.  See notes/C17.md.

   FULL statements that are FALSE for this code, each with a proved guarded variant and a
   vm_compute witness below:
     (F1) after DeleteQuery(q) / CancelQuery(q) of any known query, q is in neither table and is
          never started            -- false when q is still in the waiting queue (both calls are no-ops);
     (F2) after a terminal state + DeleteQuery no goroutine of the query remains
                                   -- false after CancelQuery (the timeout watcher is not released);
     (F3) no sender ever blocks on a full StateChan while holding a table lock
                                   -- false: CancelQuery on a query whose channel holds 10 unread messages. *)
From Coq Require Import List Sorted.
From SigM Require Import Base QueryLife.
From SigP Require Import BaseProofs QueryLifeProofs.
Import ListNotations.
Open Scope nat_scope.

(* ---------- admission limits ---------- *)
(* the number of running queries that were started without forceRun never exceeds MAX_RUNNING_QUERIES *)
Theorem C17_admission_bound : forall mx ops, nonforced (running (run mx init ops)) <= mx.
Proof. exact admission_bound. Qed.
Print Assumptions C17_admission_bound.

(* ... and without forced starts the whole running table obeys the limit *)
Theorem C17_running_bound_without_forced : forall mx ops,
  forallb (fun o => negb (is_forced_start o)) ops = true -> length (running (run mx init ops)) <= mx.
Proof. exact running_bound_without_forced. Qed.
Print Assumptions C17_running_bound_without_forced.

Theorem C17_waiting_bound : forall mx ops, length (waiting (run mx init ops)) <= MAX_WAITING.
Proof. exact waiting_bound. Qed.
Print Assumptions C17_waiting_bound.

(* the running table is a map: one entry per qid *)
Theorem C17_running_qids_unique : forall mx ops, NoDup (map e_qid (running (run mx init ops))).
Proof. exact running_qids_unique. Qed.
Print Assumptions C17_running_qids_unique.

(* ---------- FIFO admission ---------- *)
(* the serials admitted from the queue, in order of admission, followed by the serials still waiting,
   in queue order, are strictly increasing: queries leave the queue in arrival order and nothing
   still waiting arrived before an admitted one *)
Theorem C17_fifo_admission : forall mx ops, let s := run mx init ops in
  StronglySorted lt (rev (admitted s) ++ map e_ser (waiting s)).
Proof. exact fifo_admission. Qed.
Print Assumptions C17_fifo_admission.

(* ---------- exactly one terminal state ---------- *)
Theorem C17_serials_unique : forall mx ops, NoDup (map e_ser (insts (run mx init ops))).
Proof. exact serials_unique. Qed.
Print Assumptions C17_serials_unique.

(* once a terminal message (COMPLETE / CANCELLED / TIMEOUT / ERROR) has been sent for an instance,
   that is its terminal state in every later state, whatever ops follow *)
Theorem C17_one_terminal_state : forall mx ops1 ops2 e t,
  In e (insts (run mx init ops1)) -> term_of e = Some t ->
  forall e', In e' (insts (run mx init (ops1 ++ ops2))) -> e_ser e' = e_ser e -> term_of e' = Some t.
Proof. exact one_terminal_state. Qed.
Print Assumptions C17_one_terminal_state.

(* the instance keeps existing and its message log only grows (so the theorem above is not empty) *)
Theorem C17_instance_persists : forall mx ops1 ops2 e,
  In e (insts (run mx init ops1)) ->
  exists e', In e' (insts (run mx init (ops1 ++ ops2))) /\ later e e'.
Proof. exact instance_persists. Qed.
Print Assumptions C17_instance_persists.

(* a query is started at most once: its log is empty, or READY, RUNNING followed by messages that
   are never READY / RUNNING again (no way back from a terminal state to running) *)
Theorem C17_started_once : forall mx ops, Forall log_ok (insts (run mx init ops)).
Proof. exact started_once. Qed.
Print Assumptions C17_started_once.

(* nothing is ever sent to, and no flag set on, a query that is still waiting *)
Theorem C17_waiting_untouched : forall mx ops,
  Forall (fun e => e_chan e = [] /\ e_log e = [] /\ e_cancelled e = false) (waiting (run mx init ops)).
Proof. exact waiting_untouched. Qed.
Print Assumptions C17_waiting_untouched.

(* ---------- no entry after a terminal state (F1) ---------- *)
Theorem C17_no_entry_after_terminal_guarded : forall mx ops q,
  let s := run mx init ops in
  wedged s = false -> in_table q (waiting s) = false ->
  let s' := fst (step mx s (Delete q)) in
  in_table q (running s') = false /\ in_table q (waiting s') = false.
Proof. exact no_entry_after_terminal_guarded. Qed.
Print Assumptions C17_no_entry_after_terminal_guarded.

Theorem C17_no_entry_after_terminal_refuted :
  exists mx ops q, wedged (run mx init ops) = false /\
    in_table q (waiting (run mx init (ops ++ [Delete q]))) = true.
Proof. exact no_entry_after_terminal_refuted. Qed.
Print Assumptions C17_no_entry_after_terminal_refuted.

(* an instance that left the tables stays out of them for ever *)
Theorem C17_removed_instance_never_returns : forall mx ops1 ops2 e,
  In e (dead (run mx init ops1)) ->
  let s' := run mx init (ops1 ++ ops2) in
  In e (dead s') /\ forall x, In x (running s' ++ waiting s') -> e_ser x <> e_ser e.
Proof. exact removed_instance_never_returns. Qed.
Print Assumptions C17_removed_instance_never_returns.

(* cancelling a query of the running table (channel not full) is a terminal transition ... *)
Theorem C17_cancel_running_guarded : forall mx ops q e,
  let s := run mx init ops in
  wedged s = false -> lookup q (running s) = Some e -> has_room e = true ->
  let s' := fst (step mx s (Cancel q)) in
  exists e', lookup q (running s') = Some e' /\ e_ser e' = e_ser e /\ e_cancelled e' = true /\
             e_log e' = CANCELLED :: e_log e /\ term_of e' <> None /\ wedged s' = false.
Proof. exact cancel_running_guarded. Qed.
Print Assumptions C17_cancel_running_guarded.

(* ... but cancelling a waiting query does nothing: it is started later, not cancelled, and never told *)
Theorem C17_cancel_waiting_refuted :
  exists mx ops q, in_table q (waiting (run mx init ops)) = true /\
    let s' := run mx init (ops ++ [Cancel q; Pull]) in
    exists e, lookup q (running s') = Some e /\ e_cancelled e = false /\ e_log e = [RUNNING; READY] /\ term_of e = None.
Proof. exact cancel_waiting_refuted. Qed.
Print Assumptions C17_cancel_waiting_refuted.

(* ---------- goroutines of the life cycle: the timeout watcher (F2) ---------- *)
Theorem C17_watcher_released_guarded : forall mx ops q e,
  let s := run mx init ops in
  wedged s = false -> lookup q (running s) = Some e -> e_cancelled e = false ->
  forall w, In w (watchers (fst (step mx s (Delete q)))) -> fst w <> e_ser e.
Proof. exact watcher_released_guarded. Qed.
Print Assumptions C17_watcher_released_guarded.

Theorem C17_watcher_released_refuted :
  exists mx ops q, let s := run mx init ops in
    running s = [] /\ waiting s = [] /\ wedged s = false /\ has_watcher q s = true.
Proof. exact watcher_released_refuted. Qed.
Print Assumptions C17_watcher_released_refuted.

(* ---------- cancellation / timeout never blocks other queries (F3) ---------- *)
(* guard: no qid is sent more than 8 messages besides READY and RUNNING *)
Theorem C17_no_send_on_full_channel_under_lock_guarded : forall mx ops,
  send_budget_ok ops = true -> wedged (run mx init ops) = false.
Proof. exact no_send_on_full_channel_under_lock_guarded. Qed.
Print Assumptions C17_no_send_on_full_channel_under_lock_guarded.

(* starting and admitting a query never blocks, whatever happened before *)
Theorem C17_admission_never_blocks : forall mx ops o,
  wedged (run mx init ops) = false -> (o = Pull \/ exists q a f, o = Start q a f) ->
  wedged (fst (step mx (run mx init ops) o)) = false.
Proof. exact admission_never_blocks. Qed.
Print Assumptions C17_admission_never_blocks.

Theorem C17_no_send_on_full_channel_refuted :
  exists mx ops, wedged (run mx init ops) = true /\ wedged (run mx init (removelast ops)) = false.
Proof. exact no_send_on_full_channel_refuted. Qed.
Print Assumptions C17_no_send_on_full_channel_refuted.

(* ---------- the guards can be met ---------- *)
Theorem C17_guards_satisfiable :
  send_budget_ok [Start 1 false false; Pull; Recv 1; Recv 1; Complete 1; Recv 1; Delete 1] = true /\
  (let s := run 2 init [Start 1 false true; Complete 1] in
   wedged s = false /\ in_table 1 (waiting s) = false /\ in_table 1 (running s) = true) /\
  (let s := run 2 init [Start 1 false true] in
   exists e, lookup 1 (running s) = Some e /\ has_room e = true /\ e_cancelled e = false).
Proof. exact guards_satisfiable. Qed.
Print Assumptions C17_guards_satisfiable.

(* C18 — Damaged segment files: the checksummed-chunk layer (column blocks, .csg).
   Statements only; proofs are in SigP.ChecksumFileProofs / SigP.Crc32Proofs.
   Model: SigM.ChecksumFile (pkg/utils/checksumfile.go).  W = write_chunks.
   A file is a sequence of chunks  magic | crc32(data) | len(data) | data ;
   read_at off len f  follows ChecksumFile.ReadAt(buf[len], off): off is the file offset
   of a chunk, len the total data length of one or more consecutive chunks; results are
   Ok data | ErrShort (end of file) | ErrBad w (w = checksum mismatch, buffer length
   mismatch, not the start of a chunk); is_bad r = true iff r = ErrBad _.
   PARTIAL claim: these theorems cover files read through ChecksumFile.  "Never crash,
   never hang, no effect on other segments" for files WITHOUT checksums (.bsu, .cmi,
   .sst, .sfm, segmeta.json, pqmr, metrics blocks) is established by fault enumeration
   on the real code (harness c18), not by proof. *)
From SigM Require Import Base Crc32 ChecksumFile MetaDecoders BufPool MetaCache.
From SigP Require Import BaseProofs Crc32Proofs ChecksumFileProofs MetaDecodersProofs BufPoolProofs MetaCacheProofs.
Open Scope N_scope.

(* What the writer wrote is read back: every chunking a ++ m ++ b of the data (chunks
   of any sizes below 4 GiB, any number), every chunk-aligned (offset, length). *)
Theorem C18_readat_roundtrip : forall a m b : list (list N),
  Forall chunk_ok (a ++ m ++ b) -> m <> [] ->
  read_at (length (write_chunks a)) (length (concat m)) (write_chunks (a ++ m ++ b))
  = Ok (slice (length (concat a)) (length (concat m)) (concat (a ++ m ++ b))).
Proof. exact readat_roundtrip. Qed.
Print Assumptions C18_readat_roundtrip.

(* Isolation inside a file: a run m of intact chunks is read back unchanged WHATEVER
   bytes A precede and B follow it (damaged, truncated or foreign neighbours). *)
Theorem C18_intact_chunks_unaffected_by_neighbours : forall (A : list N) (m : list (list N)) (B : list N),
  Forall chunk_ok m -> m <> [] ->
  read_at (length A) (length (concat m)) (A ++ write_chunks m ++ B) = Ok (concat m).
Proof. exact readat_intact_run. Qed.
Print Assumptions C18_intact_chunks_unaffected_by_neighbours.

(* A buffer that ends inside a chunk is refused; part of a chunk is never returned. *)
Theorem C18_partial_chunk_read_rejected : forall (A d B : list N) (r : nat),
  chunk_ok d -> (r < length d)%nat ->
  read_at (length A) r (A ++ chunk d ++ B) = ErrBad WLen.
Proof. exact readat_partial_chunk_rejected. Qed.
Print Assumptions C18_partial_chunk_read_rejected.

(* The read loop of ReadAt ends for every file content: more fuel than the file has
   bytes never changes the result (so the fuel-exhausted branch of the model is dead). *)
Theorem C18_readat_terminates : forall m0 k1 k2 (x : list N) rem,
  (length x < k1)%nat -> (length x < k2)%nat ->
  read_loop k1 m0 x rem = read_loop k2 m0 x rem.
Proof. exact read_loop_fuel. Qed.
Print Assumptions C18_readat_terminates.

(* Truncation at ANY byte k: a read whose chunks reach beyond the cut reports an error
   (ErrShort or ErrBad), never data ... *)
Theorem C18_truncation_detected : forall (A : list N) (m : list (list N)) (B : list N) (k : nat),
  Forall chunk_ok m -> m <> [] -> (k < length (A ++ write_chunks m))%nat ->
  is_err (read_at (length A) (length (concat m)) (firstn k (A ++ write_chunks m ++ B))) = true.
Proof. exact truncation_detected. Qed.
Print Assumptions C18_truncation_detected.

(* ... and a read whose chunks lie before the cut still returns the original data. *)
Theorem C18_truncation_before_cut_harmless : forall (A : list N) (m : list (list N)) (B : list N) (k : nat),
  Forall chunk_ok m -> m <> [] -> (length (A ++ write_chunks m) <= k)%nat ->
  read_at (length A) (length (concat m)) (firstn k (A ++ write_chunks m ++ B)) = Ok (concat m).
Proof. exact truncation_before_cut_harmless. Qed.
Print Assumptions C18_truncation_before_cut_harmless.

(* One altered byte in the data or in the checksum field of a chunk d (dmg d fld c'):
   every read that touches the chunk (run m1 ++ d :: m2) fails with a checksum error,
   for data of any length (CRC-32 detects every single-byte change: crc32_single_byte). *)
Theorem C18_data_or_crc_byte_damage_detected :
  forall (A : list N) (m1 : list (list N)) (d : list N) (m2 : list (list N)) (B : list N) fld c',
  Forall chunk_ok m1 -> chunk_ok d -> dmg d fld c' -> fld = FCrc \/ fld = FData ->
  is_bad (read_at (length A) (length (concat (m1 ++ d :: m2)))
          (A ++ write_chunks m1 ++ c' ++ write_chunks m2 ++ B)) = true.
Proof. exact data_or_crc_byte_damage_detected. Qed.
Print Assumptions C18_data_or_crc_byte_damage_detected.

(* One altered byte in the magic number of a chunk that is not the first of the file. *)
Theorem C18_magic_damage_later_chunk_detected :
  forall (a m1 : list (list N)) (d : list N) (m2 : list (list N)) (B : list N) c',
  Forall chunk_ok m1 -> chunk_ok d -> dmg d FMagic c' -> a ++ m1 <> [] ->
  is_bad (read_at (length (write_chunks a)) (length (concat (m1 ++ d :: m2)))
          (write_chunks a ++ write_chunks m1 ++ c' ++ write_chunks m2 ++ B)) = true.
Proof. exact magic_damage_later_chunk_detected. Qed.
Print Assumptions C18_magic_damage_later_chunk_detected.

(* One altered byte in the length field.  Guaranteed: the read fails (buffer length
   mismatch or checksum mismatch) UNLESS the announced length len' <> len fits the
   buffer and the CRC-32 of the first len' bytes after the header collides with the
   stored CRC-32 of the data (byte strings of different lengths; not excluded by CRC-32). *)
Theorem C18_length_damage_detected_or_mismatch :
  forall (A : list N) (m1 : list (list N)) (d : list N) (m2 : list (list N)) (B : list N) c',
  Forall chunk_ok m1 -> chunk_ok d -> dmg d FLen c' ->
  is_bad (read_at (length A) (length (concat (m1 ++ d :: m2)))
          (A ++ write_chunks m1 ++ c' ++ write_chunks m2 ++ B)) = true \/
  (len_of c' <> N.of_nat (length d) /\
   len_of c' <= N.of_nat (length (concat (d :: m2))) /\
   crc32 (firstn (N.to_nat (len_of c')) (d ++ write_chunks m2 ++ B)) = crc32 d).
Proof. exact length_damage_detected_or_mismatch. Qed.
Print Assumptions C18_length_damage_detected_or_mismatch.

(* siglens reads one block = one chunk with a buffer of the block length: a length
   field damaged to a larger value is then always refused. *)
Theorem C18_length_damage_single_chunk_larger : forall (A d B : list N) c',
  chunk_ok d -> dmg d FLen c' -> N.of_nat (length d) < len_of c' ->
  is_bad (read_at (length A) (length d) (A ++ c' ++ B)) = true.
Proof. exact length_damage_single_chunk_larger. Qed.
Print Assumptions C18_length_damage_single_chunk_larger.

(* INTEGRITY.  Full statement (does NOT hold for the code as written):
     forall ds i y a m b out, Forall chunk_ok ds -> ds = a ++ m ++ b -> m <> [] -> y < 256 ->
       read_at (length (W a)) (length (concat m)) (set_nth i y (W ds)) = Ok out -> out = concat m
   i.e. with ANY single byte of the file altered, a read returns the original data or an
   error.  Proved with the exact boolean guard damage_guard ds i y:
     - i is not in the magic number of the FIRST chunk (refuted below);
     - if i is in a length field: no CRC-32 collision on the mis-sized span. *)
Theorem C18_never_altered_data_guarded :
  forall (ds : list (list N)) (i : nat) (y : N) (a m b : list (list N)) (out : list N),
  Forall chunk_ok ds -> ds = a ++ m ++ b -> m <> [] -> y < 256 ->
  damage_guard ds i y = true ->
  read_at (length (write_chunks a)) (length (concat m)) (set_nth i y (write_chunks ds)) = Ok out ->
  out = concat m.
Proof. exact never_altered_data_guarded. Qed.
Print Assumptions C18_never_altered_data_guarded.

(* non-vacuity: the guard holds for a data byte, a checksum byte, a length byte and the
   magic number / data of a second chunk of a concrete two-chunk file *)
Theorem C18_guard_satisfiable :
  Forall chunk_ok [[1;2;3];[4;5]] /\
  map (fun i => damage_guard [[1;2;3];[4;5]] i 255) [12%nat; 5%nat; 8%nat; 15%nat; 27%nat]
  = [true; true; true; true; true].
Proof. exact (conj chunk_ok_sat damage_guard_sat). Qed.
Print Assumptions C18_guard_satisfiable.

(* CONFIRMED DEFECT (class first_chunk_magic_damage_unverified_read): one bit of the
   first chunk's magic number flipped -> ReadAt falls back to the unverified legacy
   read and returns header bytes as data with a nil error (witness by vm_compute). *)
Theorem C18_magic_damage_first_chunk_refuted :
  exists (ds : list (list N)) (i : nat) (y : N) (a m b : list (list N)) (out : list N),
    Forall chunk_ok ds /\ ds = a ++ m ++ b /\ m <> [] /\ y < 256 /\
    read_at (length (write_chunks a)) (length (concat m)) (set_nth i y (write_chunks ds)) = Ok out /\
    out <> concat m.
Proof. exact magic_damage_first_chunk_refuted. Qed.
Print Assumptions C18_magic_damage_first_chunk_refuted.

(* The segment writer's block write (writeWip: AppendPartialChunk(encType),
   AppendPartialChunk(compressed), Flush) appends exactly one chunk over the
   concatenated parts: placeholder header, running CRC and the three WriteAt calls. *)
Theorem C18_write_block_is_chunk : forall (f p : list N) (rest : list (list N)), p <> [] ->
  write_block f (p :: rest) = f ++ chunk (p ++ concat rest).
Proof. exact write_block_is_chunk. Qed.
Print Assumptions C18_write_block_is_chunk.

(* ================= decoders of files WITHOUT checksums (repaired for C18) =================
   Model: SigM.MetaDecoders.  Go slice expressions / binary readers are partial ([None] =
   Go panics: slice or index out of range), every decoder has the switch [chk]:
   true = the code with the bounds checks of fixes C18-blocksummary-bounds,
   C18-cmi-record-validation, C18-metricnames-bounds (the current code), false = the code
   before them.  "Never crash" for THESE decoders is now a theorem for every file content;
   the pre-fix behaviour is kept as C18_prefix_*_refuted.  (Zstd, dictionary/TLV blocks,
   pqmr, .sst, series and tags-tree readers remain covered by fault enumeration only.) *)

(* ReadMetricNames (.mnm) *)
Theorem C18_metric_names_decoder_never_panics : forall b : list N,
  is_panic (read_metric_names true b) = false.
Proof. exact read_metric_names_no_panic. Qed.
Print Assumptions C18_metric_names_decoder_never_panics.

Theorem C18_metric_names_roundtrip : forall names : list (list N),
  Forall (fun nm => N.of_nat (length nm) < 65536) names ->
  read_metric_names true (enc_metric_names names) = DOk names.
Proof. exact mnm_roundtrip. Qed.
Print Assumptions C18_metric_names_roundtrip.

(* the repair changes the result only where the old code panicked *)
Theorem C18_metric_names_fix_conservative : forall (b : list N) x,
  read_metric_names false b = DOk x -> read_metric_names true b = DOk x.
Proof. intros b x. apply mnm_fix_conservative. Qed.
Print Assumptions C18_metric_names_fix_conservative.

(* PRE-FIX (class metrics_mnm_length_panic): 5-byte file, first length byte 0x03 -> 0xFC *)
Theorem C18_prefix_metric_names_refuted :
  exists b : list N, read_metric_names false b = DPanic /\ read_metric_names true b = DErr.
Proof. exact mnm_prefix_refuted. Qed.
Print Assumptions C18_prefix_metric_names_refuted.

(* ReadMetricsBlockSummaries (.mbsu) *)
Theorem C18_mbsu_decoder_never_panics : forall b : list N, is_panic (read_mbsu true b) = false.
Proof. exact read_mbsu_no_panic. Qed.
Print Assumptions C18_mbsu_decoder_never_panics.

(* PRE-FIX (class metrics_mbsu_truncated_panic): file cut inside the first record *)
Theorem C18_prefix_mbsu_refuted :
  exists b : list N, read_mbsu false b = DPanic /\ read_mbsu true b = DErr.
Proof. exact mbsu_prefix_refuted. Qed.
Print Assumptions C18_prefix_mbsu_refuted.

(* ReadBlockSummaries (.bsu) *)
Theorem C18_bsu_decoder_never_panics : forall b : list N, is_panic (read_bsu true b) = false.
Proof. exact read_bsu_no_panic. Qed.
Print Assumptions C18_bsu_decoder_never_panics.

(* PRE-FIX (class bsu_truncated_block_summary_panic): a 2-byte .bsu *)
Theorem C18_prefix_bsu_refuted :
  exists b : list N, read_bsu false b = DPanic /\ read_bsu true b = DErr.
Proof. exact bsu_prefix_refuted. Qed.
Print Assumptions C18_prefix_bsu_refuted.

(* readRangeIndexFromByteArray (range-index record of a .cmi) *)
Theorem C18_range_index_decoder_never_panics : forall b : list N,
  is_panic (read_range_index true b) = false.
Proof. exact read_range_index_no_panic. Qed.
Print Assumptions C18_range_index_decoder_never_panics.

(* PRE-FIX (class cmi_range_index_length_panic): key length 0x00FF in a 4-byte record *)
Theorem C18_prefix_range_index_refuted :
  exists b : list N, read_range_index false b = DPanic /\ read_range_index true b = DErr.
Proof. exact ri_prefix_refuted. Qed.
Print Assumptions C18_prefix_range_index_refuted.

(* bloom record of a .cmi: what bitset.New is asked to allocate never exceeds the record *)
Theorem C18_bloom_alloc_bounded : forall b : list N, snd (read_bloom true b) <= N.of_nat (length b).
Proof. exact bloom_fixed_alloc_bounded. Qed.
Print Assumptions C18_bloom_alloc_bounded.

(* ... and an accepted bloom has m > 0 (BloomFilter.Test computes  h mod m) *)
Theorem C18_bloom_accepted_m_nonzero : forall (b : list N) h,
  fst (read_bloom true b) = DOk h -> bl_m h <> 0.
Proof. exact bloom_fixed_m_nonzero. Qed.
Print Assumptions C18_bloom_accepted_m_nonzero.

(* PRE-FIX (class bloom_cmi_length_oom): a 32-byte bloom asks for more than 1 TiB *)
Theorem C18_prefix_bloom_alloc_refuted :
  exists b : list N, length b = 32%nat /\ 1099511627776 <= snd (read_bloom false b) /\
                     fst (read_bloom true b) = DErr.
Proof. exact bloom_prefix_alloc_refuted. Qed.
Print Assumptions C18_prefix_bloom_alloc_refuted.

(* PRE-FIX (class cmi_bloom_zero_size_divide_panic): a bloom with m = 0 was accepted *)
Theorem C18_prefix_bloom_zero_m_refuted :
  exists (b : list N) h, fst (read_bloom false b) = DOk h /\ bl_m h = 0 /\ fst (read_bloom true b) = DErr.
Proof. exact bloom_prefix_zero_m_refuted. Qed.
Print Assumptions C18_prefix_bloom_zero_m_refuted.

(* ================= ownership of the pooled read buffers (SigM.BufPool) =================
   The readers of all segments take their block buffers from process-wide pools
   (segreader.GetBufFromPool / PutBufToPool over pkg/memorypool).  "Damage in one segment does
   not affect results from others" needs, beyond the chunk layer, that a buffer is never in
   the fields of two readers.  Operations of a reader: Need (field nil: Get), Swap (too small:
   Put + Get), Fail (a read failed: NOTHING is released), Close (Put, reader gone). *)

(* for EVERY sequence of operations of any number of readers *)
Theorem C18_pooled_buffer_never_shared : forall (ops : list pop) (r1 r2 b : nat),
  In (r1, b) (holds (prun false ops)) -> In (r2, b) (holds (prun false ops)) -> r1 = r2.
Proof. exact buffer_never_shared. Qed.
Print Assumptions C18_pooled_buffer_never_shared.

(* ... and a buffer a reader still holds is marked in use: Get cannot hand it out *)
Theorem C18_held_buffer_marked_in_use : forall (ops : list pop) (r b : nat),
  In (r, b) (holds (prun false ops)) -> nth b (pool (prun false ops)) false = true.
Proof. exact held_buffer_in_use. Qed.
Print Assumptions C18_held_buffer_marked_in_use.

(* REFUTED VARIANT "release without forget" (a failure path that does Put(field) and keeps the
   field): reader 0 takes a buffer, its read fails, reader 1 asks for a buffer -> both hold buffer 0 *)
Theorem C18_release_without_forget_refuted :
  exists (ops : list pop) (r1 r2 b : nat), r1 <> r2 /\
    In (r1, b) (holds (prun true ops)) /\ In (r2, b) (holds (prun true ops)).
Proof. exact release_without_forget_refuted. Qed.
Print Assumptions C18_release_without_forget_refuted.

(* ================= the lazily loaded search metadata of a segment (SigM.MetaCache) =================
   "queries touching it either still return the original values or report an error for that segment":
   the block summaries / block search info of a segment are parsed from its .bsu file on first use and
   kept in the process-wide SegmentMicroIndex.  microreader.ReadBlockSummaries returns the blocks it
   parsed BEFORE the damage together with its error (read_bsu_p: (partial list, status); read_bsu is
   the same reader with the partial list dropped).  Accesses: ALoad (GetLoadSsm, memory rebalance),
   AInfo (GetSearchInfoAndSummary: persistent-query path, bulk timestamp reader, ReadAllRecords,
   multi-column / record reader), AEvict (memory rebalance), AWrite b (the file on disk becomes b).
   mrun false = the code; mrun true = the variant that stores the reader's result before looking at
   its error. *)

(* the reader with its partial result IS the reader of the decoder theorems above *)
Theorem C18_bsu_reader_partial_result_same_reader : forall (chk : bool) (b : list N),
  read_bsu chk b = collapse (read_bsu_p chk b).
Proof. exact read_bsu_p_collapse. Qed.
Print Assumptions C18_bsu_reader_partial_result_same_reader.

(* for EVERY sequence of accesses (incl. evictions and changes of the file while the process runs),
   every answer is the COMPLETE, error-free read of a version of the file that was on disk during
   the run: no access is answered from a partial parse *)
Theorem C18_no_answer_from_partial_parse : forall (ops : list access) (f : list N) (l : list bsum),
  In (Ans l) (fst (mrun false f Unloaded ops)) ->
  exists v, In v (versions f ops) /\ read_bsu true v = DOk l.
Proof. exact answers_are_complete_reads. Qed.
Print Assumptions C18_no_answer_from_partial_parse.

(* ... and the cache never holds one *)
Theorem C18_cache_never_holds_partial_parse : forall (ops : list access) (f : list N) (l : list bsum),
  snd (snd (mrun false f Unloaded ops)) = Loaded l ->
  exists v, In v (versions f ops) /\ read_bsu true v = DOk l.
Proof. exact cache_holds_complete_read. Qed.
Print Assumptions C18_cache_never_holds_partial_parse.

(* a file its reader refuses is reported on EVERY access, not only the first: whatever the kinds and
   the order of the accesses, each one answers with the error and nothing is left in the cache *)
Theorem C18_damaged_file_reported_on_every_access : forall (ops : list access) (f : list N),
  forallb (fun a => negb (is_write a)) ops = true -> read_bsu true f = DErr ->
  (forall a, In a (fst (mrun false f Unloaded ops)) -> a = AnsErr \/ a = NoAns) /\
  snd (mrun false f Unloaded ops) = (f, Unloaded).
Proof. exact refused_file_reported_on_every_access. Qed.
Print Assumptions C18_damaged_file_reported_on_every_access.

(* on an unchanged file every access answers exactly what it answers as the first access of a fresh
   process (the oracle of the harness's access-sequence stream) *)
Theorem C18_answers_independent_of_access_history : forall (ops : list access) (f : list N),
  forallb (fun a => negb (is_write a)) ops = true ->
  fst (mrun false f Unloaded ops) = map (fresh_answer f) ops.
Proof. exact history_independent. Qed.
Print Assumptions C18_answers_independent_of_access_history.

(* non-vacuity of the refusal premise: a refused file whose reader hands back complete blocks *)
Theorem C18_refused_file_with_complete_blocks_exists :
  exists (f : list N) (l : list bsum), l <> [] /\ read_bsu_p true f = (l, DErr) /\ read_bsu true f = DErr.
Proof. exact refused_file_with_complete_blocks_exists. Qed.
Print Assumptions C18_refused_file_with_complete_blocks_exists.

(* REFUTED VARIANT "cache before check": the first access (GetSearchInfoAndSummary) reports the error,
   the next one (an ordinary search) is answered from the blocks in front of the damage *)
Theorem C18_cache_before_check_refuted :
  exists (f : list N) (ops : list access) (l : list bsum),
    forallb (fun a => negb (is_write a)) ops = true /\ full_parse f = None /\
    In (Ans l) (fst (mrun true f Unloaded ops)) /\
    fst (mrun true f Unloaded ops) <> map (fresh_answer f) ops /\
    fst (mrun false f Unloaded ops) = map (fresh_answer f) ops.
Proof. exact cache_before_check_refuted. Qed.
Print Assumptions C18_cache_before_check_refuted.

(* ---- the persistent-query match-result files (<segkey>/pqmr/<pqid>.pqmr; pkg/segment/pqmr/pqmatchresults.go) ----
   A file WITHOUT checksum: records blkNum u16 LE | size u16 LE | bitset length u64 BE | words u64 BE, one per block.
   The reader and the searcher's rule are the definitions of SigM.PqmrProto (ReadPqmr with its reused buffer,
   bitset.UnmarshalBinary; blocks the file reports are answered from the stored bits, the others are raw-searched, a
   refused file sends the whole segment to the raw search), shared with C07; pq_answer file nblocks truth b = the
   records of block b the persistent query returns when the file holds [file] (truth b = the records that match).
   Tie to the code: harness stream pq (every truncation length / replaced bytes of the real files of four persistent
   queries, the query asked twice, every answer predicted by pq_answer inside Coq; the undamaged files satisfy
   wf_blocks and "stored bits = truth").
   FULL STATEMENT for truncation: cut at ANY byte, the answer of EVERY block is the original one. *)
From SigM Require Import PqmrProto PqmrDamage.
From SigP Require Import PqmrDamageProofs.
Theorem C18_pqmr_truncation_answer_original : forall (bl : list (N * bitset)) (truth : N -> list N) (k : nat) (nblocks : N),
  wf_blocks bl = true -> (forall b bs, In (b, bs) bl -> set_bits bs = truth b) ->
  forall b, (b < nblocks)%N -> pq_answer (firstn k (file_of bl)) nblocks truth b = truth b.
Proof. exact pqd_truncation_answer_original. Qed.
Print Assumptions C18_pqmr_truncation_answer_original.

(* what carries it is the break on a short ReadAt of the bitset: a reader that keeps the bytes it got and goes on
   (a cut ONE byte inside the bitset of the last record) decodes the reused buffer and serves the block with the
   previous block's bits *)
Theorem C18_pqmr_short_read_tolerant_reader_refuted :
  let bl := [(0, (1, [1])); (1, (2, [2]))]%N in
  let truth := fun b : N => if N.eqb b 0 then [0%N] else [1%N] in
  wf_blocks bl = true /\ (forall b bs, In (b, bs) bl -> set_bits bs = truth b) /\
  pq_answer (firstn 25 (file_of bl)) 2%N truth 1%N = truth 1%N /\
  pq_answer_tolerant (firstn 25 (file_of bl)) 2%N truth 1%N = [0%N] /\ truth 1%N = [1%N].
Proof. exact pqd_tolerant_reader_refuted. Qed.
Print Assumptions C18_pqmr_short_read_tolerant_reader_refuted.

(* One replaced byte.  FULL STATEMENT "the answer is the original one or an error" is REFUTED for this file (no
   checksum): see the two _refuted theorems below (known/C18.json: pqmr_*_damage_served_as_match_bits).  What IS
   guaranteed, for a byte in the WORDS of the bitset of one record (any value, any record, any file the writer wrote):
   the file still parses into the same records, only that word of that record differs ... *)
Theorem C18_pqmr_word_damage_parse : forall pre b len ws post (i : nat) (v : N),
  wf_blocks (pre ++ (b, (len, ws)) :: post) = true -> (i < 8 * length ws)%nat -> (v < 256)%N ->
  read_pqmr (set_nth (rec_off pre + 12 + i) v (file_of (pre ++ (b, (len, ws)) :: post)))
  = Some (pre ++ (b, (len, words_set i v ws)) :: post).
Proof. exact pqd_word_damage_parse. Qed.
Print Assumptions C18_pqmr_word_damage_parse.

(* ... so every OTHER block of the segment is answered as before the damage ... *)
Theorem C18_pqmr_word_damage_other_blocks_original : forall pre b len ws post (i : nat) (v : N) truth nblocks,
  wf_blocks (pre ++ (b, (len, ws)) :: post) = true -> (i < 8 * length ws)%nat -> (v < 256)%N ->
  (forall b' bs, In (b', bs) (pre ++ (b, (len, ws)) :: post) -> set_bits bs = truth b') ->
  forall b', (b' < nblocks)%N -> b' <> b ->
  pq_answer (set_nth (rec_off pre + 12 + i) v (file_of (pre ++ (b, (len, ws)) :: post))) nblocks truth b' = truth b'.
Proof. exact pqd_word_damage_other_blocks_original. Qed.
Print Assumptions C18_pqmr_word_damage_other_blocks_original.

(* ... and the damaged block is answered from the damaged word, without any error *)
Theorem C18_pqmr_word_damage_block_served : forall pre b len ws post (i : nat) (v : N) truth nblocks,
  wf_blocks (pre ++ (b, (len, ws)) :: post) = true -> (i < 8 * length ws)%nat -> (v < 256)%N ->
  ~ In b (map fst post) ->
  pq_answer (set_nth (rec_off pre + 12 + i) v (file_of (pre ++ (b, (len, ws)) :: post))) nblocks truth b
  = set_bits (len, words_set i v ws).
Proof. exact pqd_word_damage_block_served. Qed.
Print Assumptions C18_pqmr_word_damage_block_served.

Theorem C18_pqmr_bitset_byte_damage_served_refuted :
  let bl := [(0, (6, [36])); (1, (6, [63]))]%N in
  let truth := fun b : N => if N.eqb b 0 then [2; 5]%N else [0; 1; 2; 3; 4; 5]%N in
  wf_blocks bl = true /\ (forall b bs, In (b, bs) bl -> set_bits bs = truth b) /\
  pq_answer (set_nth 19 32%N (file_of bl)) 2%N truth 0%N = [5%N] /\ truth 0%N = [2; 5]%N.
Proof. exact pqd_bitset_byte_damage_served_refuted. Qed.
Print Assumptions C18_pqmr_bitset_byte_damage_served_refuted.

(* a byte of a record's BLOCK NUMBER: the records keep their bits, one record changes its number (any value) ... *)
Theorem C18_pqmr_block_number_damage_parse : forall pre b bs post (i : nat) (v : N),
  wf_blocks (pre ++ (b, bs) :: post) = true -> (i < 2)%nat -> (v < 256)%N ->
  read_pqmr (set_nth (rec_off pre + i) v (file_of (pre ++ (b, bs) :: post))) = Some (pre ++ (blk_set i v b, bs) :: post).
Proof. exact pqd_blknum_damage_parse. Qed.
Print Assumptions C18_pqmr_block_number_damage_parse.

(* ... and the block it now names is answered with the bits of another block (the last record of a number wins);
   the block that lost its record is raw-searched *)
Theorem C18_pqmr_block_number_damage_served_refuted :
  let bl := [(0, (6, [36])); (1, (6, [63]))]%N in
  let truth := fun b : N => if N.eqb b 0 then [2; 5]%N else [0; 1; 2; 3; 4; 5]%N in
  wf_blocks bl = true /\ (forall b bs, In (b, bs) bl -> set_bits bs = truth b) /\
  pq_answer (set_nth 20 0%N (file_of bl)) 2%N truth 0%N = [0; 1; 2; 3; 4; 5]%N /\ truth 0%N = [2; 5]%N /\
  pq_answer (set_nth 20 0%N (file_of bl)) 2%N truth 1%N = truth 1%N.
Proof. exact pqd_blknum_damage_served_refuted. Qed.
Print Assumptions C18_pqmr_block_number_damage_served_refuted.

(* "never crash": bitset.ReadFrom allocates New(length) BEFORE it reads a word.  REFUTED for the code before fix
   3b911d3 (known/C18.json: pqmr_bitset_length_oom, fixed): one replaced byte in the 8-byte length field of a 16-byte
   record asked for 2^34 words (128 GiB; fatal "out of memory", the process died) ... *)
Theorem C18_pqmr_length_alloc_unbounded_refuted :
  let payload := be64 6 ++ be64 36 in
  rec_alloc_words payload = 1%N /\ (17179869184 <= rec_alloc_words (set_nth 2 1%N payload))%N /\
  length (set_nth 2 1%N payload) = 16%nat.
Proof. exact pqd_length_alloc_unbounded_refuted. Qed.
Print Assumptions C18_pqmr_length_alloc_unbounded_refuted.

(* ... THE CODE NOW (fix 3b911d3: the check "the announced bits fit into the words of the record" in front of
   UnmarshalBinary): for ANY record content the allocation is bounded by the record's size, and the guard never
   refuses a record the writer wrote *)
Theorem C18_pqmr_length_guard_bounds_alloc : forall payload : list N,
  (rec_alloc_words_guarded payload <= N.of_nat (length payload) / 8)%N.
Proof. exact pqd_len_guard_bounds_alloc. Qed.
Print Assumptions C18_pqmr_length_guard_bounds_alloc.

Theorem C18_pqmr_length_guard_accepts_written : forall bs : bitset,
  wf_bitset bs = true -> len_fits (be64 (fst bs) ++ enc_words (snd bs)) = true.
Proof. exact pqd_len_guard_accepts_written. Qed.
Print Assumptions C18_pqmr_length_guard_accepts_written.

(* C19 — Path confinement: no client-controlled name makes the server create, overwrite,
   read or delete a file outside its data directory.
   Statements only; proofs are in SigP.PathsProofs.

   Reading guide.  [clean] / [gojoin] are Go's filepath.Clean / filepath.Join on byte strings;
   [abs_segs p] is the list of directory entries where the absolute path p lands when ".." is
   resolved lexically (no symlinks); [confined D p] says p is D or below D.  D is the data
   path (absolute, ends in "/"), H the host id (one normal path element, server-chosen).
   Every [site_*] function is the literal derivation of one place in the siglens code.

   FULL STATEMENT wanted by the property, for every site s and EVERY name n that the code's
   validator of that site accepts:
       is_dir D -> good_host H -> validator_s n = true -> confined D (site_s D H n) = true.
   Since fix C19-validate-names (utils.IsSafePathComponent = [safe_component], called at lookup
   upload, inputlookup, bulk / ingest index names, delete-index, AddAliases / RemoveAliases and
   the tags-tree flush) this holds at every site: the [*_confined] theorems below have the
   code's validator as their only hypothesis on the name.  The [*_guarded] theorems are the more
   general sufficient conditions; the [*_refuted] theorems are kept as documentation of the
   code BEFORE the fix (validators [upload_ok_v0], [inputlookup_ok_v0], none at the other
   sites) and, for route-parameter sites, of what the handler does without the router. *)
From SigM Require Import Base Paths.
From SigP Require Import BaseProofs PathsProofs.
From SigG Require Import Gen.
From SigP Require Import GenC19.
Open Scope N_scope.

(* ---------- filepath.Clean ---------- *)
(* The cleaned element list is a run of ".." (empty for absolute paths) followed by elements
   none of which is "", "." or "..". *)
Theorem C19_clean_spec : forall s, exists k bd,
  segs_of s = repeat DD k ++ bd /\ Forall (fun x => is_normal x = true) bd /\ (rooted s = true -> k = 0%nat).
Proof. exact clean_segs_spec. Qed.
Print Assumptions C19_clean_spec.

Theorem C19_clean_idempotent : forall s, clean (clean s) = clean s.
Proof. exact clean_idempotent. Qed.
Print Assumptions C19_clean_idempotent.

(* ---------- filepath.Join(base, name) ---------- *)
(* Where base/name lands: the name's leading ".." run (ups) pops that many elements of the base,
   stopping at the root, then the rest of the name (body) is appended. *)
Theorem C19_join_resolve : forall b name,
  abs_segs (b ++ SL :: name) = firstn (length (abs_segs b) - ups name) (abs_segs b) ++ body name.
Proof. exact join_resolve. Qed.
Print Assumptions C19_join_resolve.

(* join_confined_iff: Join(base, name) is base or below it exactly when the elements of the base
   popped by the name are spelled out again by what follows.  An absolute name is harmless
   (Join does not restart at "/"); only depth matters. *)
Theorem C19_join_confined_iff : forall b name, rooted b = true ->
  confined b (gojoin [b; name]) =
  seg_prefix (skipn (length (abs_segs b) - ups name) (abs_segs b)) (body name).
Proof. exact gojoin_confined_iff. Qed.
Print Assumptions C19_join_confined_iff.

(* ups name = 0 is the same as "walking the name element by element never goes above the start" *)
Theorem C19_never_negative_iff : forall name, never_negative name = true <-> ups name = 0%nat.
Proof. exact never_negative_iff. Qed.
Print Assumptions C19_never_negative_iff.

Theorem C19_join_confined_never_negative : forall b name, rooted b = true ->
  never_negative name = true -> confined b (b ++ SL :: name) = true.
Proof. exact join_confined_never_negative. Qed.
Print Assumptions C19_join_confined_never_negative.

(* ---------- string concatenation D ++ r ---------- *)
Theorem C19_concat_confined : forall D r, is_dir D -> min_ok 0 (split r) = true -> confined D (D ++ r) = true.
Proof. exact concat_confined. Qed.
Print Assumptions C19_concat_confined.

(* ---------- sites ---------- *)
(* lookup upload (form field "name").  Validator: IsSafePathComponent (before the fix: name <> ""). *)
Theorem C19_lookup_upload_confined : forall D name gz, is_dir D -> upload_ok name = true ->
  confined D (site_lookup_upload D name gz) = true.
Proof. exact site_lookup_upload_confined. Qed.
Print Assumptions C19_lookup_upload_confined.
Theorem C19_lookup_upload_guarded : forall D name gz, is_dir D ->
  stays_within 1 (upload_name name gz) = true -> confined D (site_lookup_upload D name gz) = true.
Proof. exact site_lookup_upload_guarded. Qed.
Print Assumptions C19_lookup_upload_guarded.
Theorem C19_lookup_upload_escape_refuted : exists D name gz,
  is_dir D /\ upload_ok_v0 name = true /\ confined D (site_lookup_upload D name gz) = false.
Proof. exact site_lookup_upload_refuted. Qed.
Print Assumptions C19_lookup_upload_escape_refuted.

(* lookup get / delete (route parameter): the handler has no validator; confined because the
   router delivers one raw path element.  Without that guarantee: escapes. *)
Theorem C19_lookup_file_route_confined : forall D name, is_dir D -> no_slash name = true ->
  confined D (site_lookup_file D name) = true.
Proof. exact site_lookup_file_confined. Qed.
Print Assumptions C19_lookup_file_route_confined.
Theorem C19_lookup_file_unguarded_refuted : exists D name,
  is_dir D /\ confined D (site_lookup_file D name) = false.
Proof. exact site_lookup_file_unguarded_refuted. Qed.
Print Assumptions C19_lookup_file_unguarded_refuted.

(* inputlookup (query text).  Validators: IsSafePathComponent and isCSVFormat (before the fix: only the latter). *)
Theorem C19_inputlookup_confined : forall D f, is_dir D -> inputlookup_ok f = true ->
  confined D (site_inputlookup D f) = true.
Proof. exact site_inputlookup_confined. Qed.
Print Assumptions C19_inputlookup_confined.
(* ... and with ALL client-controlled options of the command (start, max, append, strict, where
   clause, first command or not) and at EVERY cursor position of the processor (first batch:
   cursor = start= option; later batches: rows read so far): a file is opened iff the validator
   accepts the NAME, it is the joined lookup path, and it is confined.  The decision does not
   depend on the options or the cursor. *)
Theorem C19_inputlookup_all_options_iff : forall D o cursor f p,
  inputlookup_open D o cursor f = Some p <-> inputlookup_ok f = true /\ p = site_inputlookup D f.
Proof. exact inputlookup_open_iff. Qed.
Print Assumptions C19_inputlookup_all_options_iff.
Theorem C19_inputlookup_all_options_confined : forall D o cursor f p, is_dir D ->
  inputlookup_open D o cursor f = Some p -> confined D p = true.
Proof. exact inputlookup_open_confined. Qed.
Print Assumptions C19_inputlookup_all_options_confined.
Theorem C19_inputlookup_options_irrelevant : forall D o c o' c' f,
  inputlookup_open D o c f = inputlookup_open D o' c' f.
Proof. exact inputlookup_open_options_irrelevant. Qed.
Print Assumptions C19_inputlookup_options_irrelevant.
(* why it must not: validating "only before the first row" (cursor = 0) lets start=1 through *)
Theorem C19_inputlookup_validate_at_cursor0_only_refuted : exists D o f p,
  is_dir D /\ il_start o <> 0 /\ inputlookup_open D o (il_start o) f = None /\
  inputlookup_open_cursor0 D o (il_start o) f = Some p /\ confined D p = false.
Proof. exact inputlookup_cursor0_refuted. Qed.
Print Assumptions C19_inputlookup_validate_at_cursor0_only_refuted.
(* lookup upload with all its variants (extension of the uploaded file, overwrite, destination
   already present): whatever is written is confined *)
Theorem C19_lookup_upload_all_variants_confined : forall D name gz ow ex p, is_dir D ->
  lookup_upload_open D name gz ow ex = Some p -> confined D p = true.
Proof. exact lookup_upload_open_confined. Qed.
Print Assumptions C19_lookup_upload_all_variants_confined.
Theorem C19_inputlookup_guarded : forall D f, is_dir D -> stays_within 1 f = true ->
  confined D (site_inputlookup D f) = true.
Proof. exact site_inputlookup_guarded. Qed.
Print Assumptions C19_inputlookup_guarded.
Theorem C19_inputlookup_escape_refuted : exists D f,
  is_dir D /\ inputlookup_ok_v0 f = true /\ confined D (site_inputlookup D f) = false.
Proof. exact site_inputlookup_refuted. Qed.
Print Assumptions C19_inputlookup_escape_refuted.

(* dashboards (route parameter / id checked against the folder structure whose keys are uuids) *)
Theorem C19_dashboard_confined : forall D H id, is_dir D -> good_host H -> no_slash id = true ->
  confined D (site_dashboard D H id) = true.
Proof. exact site_dashboard_confined. Qed.
Print Assumptions C19_dashboard_confined.
Theorem C19_dashboard_unguarded_refuted : exists D H id,
  is_dir D /\ good_host H /\ confined D (site_dashboard D H id) = false.
Proof. exact site_dashboard_unguarded_refuted. Qed.
Print Assumptions C19_dashboard_unguarded_refuted.

(* scroll ids: only ids found in the server's table (uuids) reach a path *)
Theorem C19_scroll_confined : forall D H table id, is_dir D -> good_host H ->
  forallb uuid_like table = true -> scroll_ok table id = true ->
  confined D (site_scroll D H id) = true.
Proof. exact site_scroll_confined. Qed.
Print Assumptions C19_scroll_confined.

(* index name of a bulk action line (and of every other ingest path through
   ProcessIndexRequestPle): suffix file, segment directory, directory removed by delete-index.
   Validator: IsSafePathComponent (before the fix: none). *)
Theorem C19_bulk_index_confined : forall D H idx sid suf, is_dir D -> good_host H -> index_ok idx = true ->
  numeral sid = true -> numeral suf = true ->
  confined D (site_suffix_file D H idx sid) = true /\
  confined D (site_segdir D H idx sid suf) = true /\
  confined D (site_active_dir D H idx) = true.
Proof. exact site_bulk_index_confined. Qed.
Print Assumptions C19_bulk_index_confined.
Theorem C19_suffix_file_guarded : forall D H idx sid, is_dir D -> good_host H ->
  no_slash idx = true -> no_slash sid = true -> confined D (site_suffix_file D H idx sid) = true.
Proof. exact site_suffix_file_guarded. Qed.
Print Assumptions C19_suffix_file_guarded.
Theorem C19_segdir_guarded : forall D H idx sid suf, is_dir D -> good_host H -> no_slash idx = true ->
  numeral sid = true -> numeral suf = true -> confined D (site_segdir D H idx sid suf) = true.
Proof. exact site_segdir_guarded. Qed.
Print Assumptions C19_segdir_guarded.
Theorem C19_active_dir_guarded : forall D H idx, is_dir D -> good_host H -> no_slash idx = true ->
  confined D (site_active_dir D H idx) = true.
Proof. exact site_active_dir_guarded. Qed.
Print Assumptions C19_active_dir_guarded.
Theorem C19_bulk_index_escape_refuted : exists D H idx sid suf,
  is_dir D /\ good_host H /\ numeral sid = true /\ numeral suf = true /\
  confined D (site_suffix_file D H idx sid) = false /\
  confined D (site_segdir D H idx sid suf) = false /\
  confined D (site_active_dir D H idx) = false.
Proof. exact site_bulk_index_refuted. Qed.
Print Assumptions C19_bulk_index_escape_refuted.

(* delete-index: for EVERY virtual-table list L (including names that are not safe components:
   written before the validator existed, synced from another node, planted) and EVERY result
   of expanding the requested name or pattern, every directory handed to os.RemoveAll is inside
   the data directory.  This needs the per-expanded-name check. *)
Theorem C19_delete_index_confined : forall D H L expanded p, is_dir D -> good_host H ->
  In p (delete_index_removed D H L expanded) -> confined D p = true.
Proof. exact delete_index_confined. Qed.
Print Assumptions C19_delete_index_confined.
(* validating only the REQUESTED name is not enough: "*v" is a safe element, expands to the
   listed "../../../v", and the removed directory is outside *)
Theorem C19_delete_index_request_only_validation_refuted : exists D H req L p,
  is_dir D /\ good_host H /\ index_ok req = true /\
  delete_index_removed D H L (expand_simple req L) = [] /\
  In p (delete_index_removed_reqonly D H req L (expand_simple req L)) /\ confined D p = false.
Proof. exact delete_index_reqonly_refuted. Qed.
Print Assumptions C19_delete_index_request_only_validation_refuted.
(* registration: whatever names the entry points are given, in any order, a list of safe
   components stays a list of safe components *)
Theorem C19_registration_keeps_list_safe : forall names L, Forall (fun n => index_ok n = true) L ->
  Forall (fun n => index_ok n = true) (fold_left register_index names L).
Proof. exact register_all_safe. Qed.
Print Assumptions C19_registration_keeps_list_safe.

(* mapping and alias files.  Route parameters are single elements; names from the _aliases
   request body (index and alias) pass IsSafePathComponent in AddAliases / RemoveAliases
   (before the fix: no validator). *)
Theorem C19_alias_body_confined : forall D H org idx, is_dir D -> good_host H ->
  (org = [] \/ numeral org = true) -> alias_ok idx = true -> confined D (site_alias D H org idx) = true.
Proof. exact site_alias_confined. Qed.
Print Assumptions C19_alias_body_confined.
Theorem C19_mapping_guarded : forall D H org idx, is_dir D -> good_host H ->
  (org = [] \/ numeral org = true) -> no_slash idx = true -> confined D (site_mapping D H org idx) = true.
Proof. exact site_mapping_guarded. Qed.
Print Assumptions C19_mapping_guarded.
Theorem C19_alias_guarded : forall D H org idx, is_dir D -> good_host H ->
  (org = [] \/ numeral org = true) -> no_slash idx = true -> confined D (site_alias D H org idx) = true.
Proof. exact site_alias_guarded. Qed.
Print Assumptions C19_alias_guarded.
Theorem C19_alias_body_escape_refuted : exists D H idx,
  is_dir D /\ good_host H /\ confined D (site_alias D H [] idx) = false /\ confined D (site_mapping D H [] idx) = false.
Proof. exact site_alias_refuted. Qed.
Print Assumptions C19_alias_body_escape_refuted.

(* metric names and tenant ids never reach a path; what does is a decimal number *)
Theorem C19_metrics_confined : forall D H mid suf, is_dir D -> good_host H ->
  numeral mid = true -> numeral suf = true -> confined D (site_metrics D H mid suf) = true.
Proof. exact site_metrics_confined. Qed.
Print Assumptions C19_metrics_confined.
(* ... but the TAG KEYS of a datapoint name the tags-tree files.  Validator at the flush:
   IsSafePathComponent (before the fix: none). *)
Theorem C19_tagstree_confined : forall D H mid suf key, is_dir D -> good_host H ->
  numeral mid = true -> numeral suf = true -> tagkey_ok key = true ->
  confined D (site_tagstree D H mid suf key) = true.
Proof. exact site_tagstree_confined. Qed.
Print Assumptions C19_tagstree_confined.
Theorem C19_tagstree_guarded : forall D H mid suf key, is_dir D -> good_host H ->
  numeral mid = true -> numeral suf = true -> no_slash key = true ->
  confined D (site_tagstree D H mid suf key) = true.
Proof. exact site_tagstree_guarded. Qed.
Print Assumptions C19_tagstree_guarded.
Theorem C19_metrics_tagkey_escape_refuted : exists D H mid suf key,
  is_dir D /\ good_host H /\ numeral mid = true /\ numeral suf = true /\
  confined D (site_tagstree D H mid suf key) = false.
Proof. exact site_tagstree_refuted. Qed.
Print Assumptions C19_metrics_tagkey_escape_refuted.
Theorem C19_saved_queries_confined : forall D H org, is_dir D -> good_host H ->
  (org = [] \/ numeral org = true) -> confined D (site_usq D H org) = true.
Proof. exact site_usq_confined. Qed.
Print Assumptions C19_saved_queries_confined.

(* non-vacuity of the guards, and tightness of the upload guard *)
Theorem C19_guards_satisfiable :
  (stays_within 1 (upload_name [97;98] false) = true /\ upload_ok [97;98] = true /\ upload_ok_v0 [97;98] = true) /\
  (stays_within 1 [97;46;99;115;118] = true /\ inputlookup_ok [97;46;99;115;118] = true) /\
  (no_slash [46;46] = true /\ no_slash [97;45;49] = true) /\
  (forallb uuid_like [[97;49;45;98]] = true /\ scroll_ok [[97;49;45;98]] [97;49;45;98] = true) /\
  (numeral [49;50] = true /\ numeral [45;53] = true) /\ is_dir wD /\ good_host wH.
Proof.
  exact (conj guard_upload_sat (conj guard_inputlookup_sat (conj guard_no_slash_sat
        (conj guard_scroll_sat (conj guard_numeral_sat (conj wD_is_dir wH_good)))))).
Qed.
Print Assumptions C19_guards_satisfiable.

(* the validator accepts ordinary names (file names with dots, index names with '-' and '.',
   tag keys) and rejects every witness of the pre-fix refutations, "", ".", "..", '\' and NUL *)
Theorem C19_validator_satisfiable_and_rejects_witnesses :
  (upload_ok [97;46;99;115;118] = true /\ inputlookup_ok [97;46;99;115;118] = true /\
   index_ok [105;45;49;46;120] = true /\ tagkey_ok [46;46;46] = true) /\
  (safe_component w_up3 = false /\ safe_component w_up2csv = false /\ safe_component w_up6 = false /\
   safe_component DD = false /\ safe_component [DOT] = false /\ safe_component [] = false /\
   safe_component [97;92;98] = false /\ safe_component [97;0] = false).
Proof. exact (conj validator_sat validator_rejects_witnesses). Qed.
Print Assumptions C19_validator_satisfiable_and_rejects_witnesses.

(* ==== the guard itself, REGENERATED from pkg/utils/fileutils.go on every run by gotrans (coq/gen/Gen.v) ====
   utils.IsSafePathComponent, the check in front of every name-to-path site repaired in this work, is the model's
   safe_component for every byte string (a Go string is its byte sequence; strings.ContainsAny over the ASCII set /, \, NUL). *)
Theorem C19_code_IsSafePathComponent_is_model : forall name : list N,
  gen_IsSafePathComponent (zbytes name) = safe_component name.
Proof. exact gen_IsSafePathComponent_is_model. Qed.
Print Assumptions C19_code_IsSafePathComponent_is_model.

(* ---- the check dominates the file operation, from the source: on EVERY path through the functions that turn a
   client-supplied name into a path (ingest of every protocol, delete-index, lookup upload, both inputlookup paths,
   the tags-tree flush, index mappings, the virtual-table file) the call that creates, opens or removes the file is
   preceded by utils.IsSafePathComponent (call-order skeletons regenerated from /repo on every run, callees inlined:
   rules C19.* of GenOrderCheck.co_rules; in delete-index: in the same iteration of the loop over the names).
   Together with C19_code_IsSafePathComponent_is_the_model (what the check accepts) and the theorems above (an
   accepted name stays inside the directory).  The skeleton drops data: that a refused name is not used is what
   the harness observes. ---- *)
From SigP Require GenOrderCheck GenOrderC19.
Theorem C19_code_checks_names_before_file_operations : forall r : GenOrderCheck.rule,
  In r GenOrderCheck.c19_rules -> GenOrderCheck.rule_holds r.
Proof. exact GenOrderC19.co_C19_rules_hold. Qed.
Print Assumptions C19_code_checks_names_before_file_operations.

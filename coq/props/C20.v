(* C20 — Alert state and notifications; dashboards, folders, saved queries, index aliases,
   lookup files, alerts and contact points as keyed stores.
   Statements only; proofs are in SigP.AlertProofs / SigP.KvStoreProofs. *)
From SigM Require Import Base Alert KvStore.
From SigP Require Import BaseProofs AlertProofs KvStoreProofs KvStoreScopedProofs.
From SigG Require Import Gen.
From SigP Require Import GenC20.

(* ================= alert state ================= *)

(* For EVERY sequence of evaluations (any number, any outcomes, any times; delivery working or
   not; any cool-down) of an alert with window w and interval i, the state after the last
   evaluation is spec_state (w/i) of the outcomes, newest first: a function of the last N. *)
Theorem C20_alert_state_is_function_of_last_N : forall d w i cd evs,
  forallb is_eval evs = true ->
  a_state (fst (Alert.run d evs (new_alert w i cd))) = spec_state (w / i) (rev (outcomes evs)).
Proof. exact alert_state_is_function_of_last_N. Qed.
Print Assumptions C20_alert_state_is_function_of_last_N.

(* ... where spec_state is the property's three clauses ([os]: outcomes, newest first, N = n):
   Firing iff the condition held in all of the last N evaluations (and there were N), *)
Theorem C20_spec_state_firing_iff : forall (n : nat) os,
  spec_state (N.of_nat n) os = Firing <->
  (1 <= n)%nat /\ (n <= length os)%nat /\ Forall (eq true) (firstn n os).
Proof. exact spec_state_firing_iff. Qed.
Print Assumptions C20_spec_state_firing_iff.

(* Pending iff it held in the latest but not in all N, *)
Theorem C20_spec_state_pending_iff : forall (n : nat) os,
  spec_state (N.of_nat n) os = Pending <->
  (exists r, os = true :: r) /\
  ~ ((1 <= n)%nat /\ (n <= length os)%nat /\ Forall (eq true) (firstn n os)).
Proof. exact spec_state_pending_iff. Qed.
Print Assumptions C20_spec_state_pending_iff.

(* Normal otherwise (the latest evaluation did not hold). *)
Theorem C20_spec_state_normal_iff : forall n os,
  spec_state n os = Normal <-> exists r, os = false :: r.
Proof. exact spec_state_normal_iff. Qed.
Print Assumptions C20_spec_state_normal_iff.

(* FULL, all events: with configuration updates (which may change N) and silencing between the
   evaluations, the state after an evaluation is still the specified function of the evaluation
   outcomes alone, N taken from the configuration in force.  (Holds since the window check reads
   evaluation rows only; before that repair only a guarded variant held, see the PRE-FIX theorem.) *)
Theorem C20_alert_state_is_function_of_last_N_all_events : forall d evs t m w i cd,
  let a := fst (Alert.run d (evs ++ [Eval t m]) (new_alert w i cd)) in
  a_state a = spec_state (a_window a / a_interval a) (rev (outcomes (evs ++ [Eval t m]))).
Proof. exact alert_state_is_function_of_last_N_all_events. Qed.
Print Assumptions C20_alert_state_is_function_of_last_N_all_events.

(* ---- PRE-FIX documentation (about [run_prefix], the window check that read the newest N-1 rows
   of any kind): an alert update writes a history row with state Inactive which that check counted
   as an evaluation that did not hold: T T update T with N = 2 was Pending, not Firing *)
Theorem C20_prefix_alert_state_update_refuted :
  exists w i cd evs,
    let a := run_prefix evs (new_alert w i cd) in
    (a_window a / a_interval a = w / i)%N /\
    a_state a <> spec_state (w / i) (rev (outcomes evs)).
Proof. exact prefix_alert_state_update_refuted. Qed.
Print Assumptions C20_prefix_alert_state_update_refuted.

(* ================= notifications ================= *)

(* FULL: whatever happens (evaluations, updates, silencing, failed deliveries), two consecutive
   notifications of an alert are at least the cool-down apart ([snd (run ..)] is newest first). *)
Theorem C20_repeat_only_after_cooldown : forall d w i cd evs pre t2 k2 t1 k1 post,
  snd (Alert.run d evs (new_alert w i cd)) = pre ++ (t2, k2) :: (t1, k1) :: post ->
  (cd * 60 <= t2 - t1)%Z.
Proof. exact repeat_only_after_cooldown. Qed.
Print Assumptions C20_repeat_only_after_cooldown.

(* FULL: the Normal notification goes out at most once per firing episode and never without one:
   every Normal notification directly follows a Firing notification. *)
Theorem C20_normal_notified_at_most_once : forall d w i cd evs pre t post,
  snd (Alert.run d evs (new_alert w i cd)) = pre ++ (t, Normal) :: post ->
  exists t' post', post = (t', Firing) :: post'.
Proof. exact normal_notified_at_most_once. Qed.
Print Assumptions C20_normal_notified_at_most_once.

(* FULL STATEMENT "a notification is sent on entering Firing" / "once on return to Normal":
     a_state (step a (Eval t true)) = Firing -> a_state a <> Firing -> sent (t, Firing)
     last notification Firing -> step a (Eval t false) sends (t, Normal)
   They hold for the cool-down siglens configures (CreateAlert writes 0 and nothing changes it)
   without silencing, for all time-ordered event sequences: *)
Theorem C20_notify_on_enter_firing : forall w i evs t t0,
  forallb no_silence evs = true ->
  times_from t0 (evs ++ [Eval t true]) = true ->
  let a := fst (Alert.run true evs (new_alert w i 0)) in
  a_state (fst (Alert.step true a (Eval t true))) = Firing ->
  snd (Alert.step true a (Eval t true)) = Some (t, Firing).
Proof. exact notify_on_enter_firing. Qed.
Print Assumptions C20_notify_on_enter_firing.

Theorem C20_notify_once_on_normal : forall w i evs t t0,
  forallb no_silence evs = true ->
  times_from t0 (evs ++ [Eval t false]) = true ->
  let a := fst (Alert.run true evs (new_alert w i 0)) in
  n_last_state (a_notif a) = Firing ->
  snd (Alert.step true a (Eval t false)) = Some (t, Normal).
Proof. exact notify_once_on_normal. Qed.
Print Assumptions C20_notify_once_on_normal.

(* GUARDED for any cool-down / silence: exact guard = both time gates of shouldSendNotification
   are open at the evaluation *)
Theorem C20_notify_on_enter_firing_guarded : forall w i cd evs t,
  let a := fst (Alert.run true evs (new_alert w i cd)) in
  gates_open a t = true ->
  a_state (fst (Alert.step true a (Eval t true))) = Firing ->
  snd (Alert.step true a (Eval t true)) = Some (t, Firing).
Proof. exact notify_on_enter_firing_guarded. Qed.
Print Assumptions C20_notify_on_enter_firing_guarded.

Theorem C20_notify_once_on_normal_guarded : forall w i cd evs t,
  let a := fst (Alert.run true evs (new_alert w i cd)) in
  gates_open a t = true ->
  n_last_state (a_notif a) = Firing ->
  snd (Alert.step true a (Eval t false)) = Some (t, Normal).
Proof. exact notify_once_on_normal_guarded. Qed.
Print Assumptions C20_notify_once_on_normal_guarded.

(* REFUTED for a cool-down > 0: the cool-down also gates the notification on ENTERING Firing and
   the Normal notification; if the alert fires again before the cool-down is over the Normal
   notification of the episode is never sent. *)
Theorem C20_notify_on_enter_firing_refuted :
  exists w i cd evs t,
    let a := fst (Alert.run true evs (new_alert w i cd)) in
    a_state a <> Firing /\
    a_state (fst (Alert.step true a (Eval t true))) = Firing /\
    snd (Alert.step true a (Eval t true)) = None.
Proof. exact notify_on_enter_firing_refuted. Qed.
Print Assumptions C20_notify_on_enter_firing_refuted.

Theorem C20_notify_once_on_normal_refuted :
  exists w i cd evs t,
    let a := fst (Alert.run true evs (new_alert w i cd)) in
    n_last_state (a_notif a) = Firing /\ a_state a = Firing /\
    a_state (fst (Alert.step true a (Eval t false))) = Normal /\
    snd (Alert.step true a (Eval t false)) = None.
Proof. exact notify_once_on_normal_refuted. Qed.
Print Assumptions C20_notify_once_on_normal_refuted.

Theorem C20_normal_notification_lost_refuted :
  snd (Alert.run true [Eval 0 true; Eval 60 false; Eval 120 true; Eval 700 true] (new_alert 1 1 10))
  = [(700%Z, Firing); (0%Z, Firing)].
Proof. exact normal_notification_lost_refuted. Qed.
Print Assumptions C20_normal_notification_lost_refuted.

(* ================= keyed stores ================= *)

(* Cached store (memory map mirrored to one file per tenant, reloaded after a start: saved
   queries).  For EVERY sequence of writes, deletes, delete-all, reads and RESTARTS at any
   positions, a read of (tenant, key) returns what the plain map returns. *)
Theorem C20_kv_refines_map : forall ops s, inv s ->
  forall t k, abs (KvStore.run ops s) t k = spec_run ops (abs s) t k.
Proof. exact kv_refines_map. Qed.
Print Assumptions C20_kv_refines_map.

Theorem C20_kv_get_returns_abs : forall s t k, inv s ->
  snd (KvStore.step s (Get t k)) = OVal (abs s t k).
Proof. exact get_returns_abs. Qed.
Print Assumptions C20_kv_get_returns_abs.

Theorem C20_kv_list_returns_abs : forall s t, inv s ->
  exists l, snd (KvStore.step s (ListAll t)) = OList l /\ forall k, kv_get k l = abs s t k.
Proof. exact list_returns_abs. Qed.
Print Assumptions C20_kv_list_returns_abs.

Theorem C20_restart_preserves_abs : forall s, inv s ->
  forall t k, abs (fst (KvStore.step s Restart)) t k = abs s t k.
Proof. exact restart_preserves_abs. Qed.
Print Assumptions C20_restart_preserves_abs.

(* one tenant's operations never disturb another's; one object's never another's *)
Theorem C20_tenants_independent : forall ops s t, inv s ->
  (forall o, In o ops -> op_tenant o <> Some t) ->
  forall k, abs (KvStore.run ops s) t k = abs s t k.
Proof. exact tenants_independent. Qed.
Print Assumptions C20_tenants_independent.

Theorem C20_keys_independent : forall ops s t k, inv s ->
  forallb (fun o => negb (op_writes t k o)) ops = true ->
  abs (KvStore.run ops s) t k = abs s t k.
Proof. exact keys_independent. Qed.
Print Assumptions C20_keys_independent.

(* the invariant holds initially and is kept by every operation *)
Theorem C20_kv_invariant : inv empty_store /\ forall ops s, inv s -> inv (KvStore.run ops s).
Proof. exact (conj inv_empty (fun ops s => run_inv ops s)). Qed.
Print Assumptions C20_kv_invariant.

(* Direct store (the file is the state: dashboards/folders, lookup files) *)
Theorem C20_dkv_refines_map : forall ops s t k,
  dabs (drun ops s) t k = spec_run ops (dabs s) t k.
Proof. exact dkv_refines_map. Qed.
Print Assumptions C20_dkv_refines_map.

(* Index aliases (model of pkg/virtualtable as of a69a617).  Every theorem quantifies over D, the
   set of tenants (besides tenant 0) whose alias directory aliases/<org>/ exists - so over
   deployments with any number of tenants that own aliases.  FULL: for every sequence of adds,
   removes, reads, process crashes and CLEAN SHUTDOWNS followed by a start, for every tenant,
   GetAliases(index) holds exactly the aliases written last (sets are compared by membership:
   the shutdown flush may rewrite a file in another order) ... *)
Theorem C20_alias_refines_map : forall (D : Dirs) ops t i al,
  ns_mem al (aabs (arun ops empty_astore) t i) = ns_mem al (aspec_run ops (aabs empty_astore) t i).
Proof. exact @alias_refines_map. Qed.
Print Assumptions C20_alias_refines_map.

(* ... and the reverse lookup (IsAlias / ExpandAndReturnIndexNames) finds index i for an alias iff
   the file of index i lists the alias, restarts included. *)
Theorem C20_alias_reverse_consistent : forall (D : Dirs) ops, rev_consistent (arun ops empty_astore).
Proof. exact @alias_reverse_consistent. Qed.
Print Assumptions C20_alias_reverse_consistent.

(* Aliases survive a restart, graceful or not, for every tenant. *)
Theorem C20_alias_restart_preserves : forall (D : Dirs) ops o t i al, is_restart o = true ->
  ns_mem al (aabs (arun (ops ++ [o]) empty_astore) t i) = ns_mem al (aabs (arun ops empty_astore) t i).
Proof. exact @alias_restart_preserves. Qed.
Print Assumptions C20_alias_restart_preserves.

(* ... and so does every reverse lookup. *)
Theorem C20_alias_restart_preserves_reverse : forall (D : Dirs) ops o t idx al, is_restart o = true ->
  ns_mem idx (nm_get al (t_nm t (arev (arun (ops ++ [o]) empty_astore)))) =
  ns_mem idx (nm_get al (t_nm t (arev (arun ops empty_astore)))).
Proof. exact @alias_restart_preserves_reverse. Qed.
Print Assumptions C20_alias_restart_preserves_reverse.

(* Without a clean shutdown the files are even literally the written lists. *)
Theorem C20_alias_forward_refines_map : forall (D : Dirs) ops s, ainv s ->
  forallb (fun o => negb (is_shutdown o)) ops = true ->
  forall t i, aabs (arun ops s) t i = aspec_run ops (aabs s) t i.
Proof. exact @alias_forward_refines_map. Qed.
Print Assumptions C20_alias_forward_refines_map.

(* SEVERAL TENANTS (round h).  One tenant's operations never disturb another's, restarts and
   shutdown flushes included: after ANY history of ANY number of tenants, tenant t reads what it
   reads after the history with every other tenant's operations deleted (the restarts stay) ... *)
Theorem C20_alias_tenants_independent : forall (D : Dirs) ops t i al,
  ns_mem al (aabs (arun ops empty_astore) t i) =
  ns_mem al (aabs (arun (filter (aop_for t) ops) empty_astore) t i).
Proof. exact @alias_tenants_independent. Qed.
Print Assumptions C20_alias_tenants_independent.

(* ... through the reverse lookups (IsAlias, GetAllAliasesAsMapArray, alias expansion) as well. *)
Theorem C20_alias_tenants_independent_reverse : forall (D : Dirs) ops t idx al,
  ns_mem idx (nm_get al (t_nm t (arev (arun ops empty_astore)))) =
  ns_mem idx (nm_get al (t_nm t (arev (arun (filter (aop_for t) ops) empty_astore)))).
Proof. exact @alias_tenants_independent_reverse. Qed.
Print Assumptions C20_alias_tenants_independent_reverse.

(* Write-back at shutdown, then load: from ANY state in which memory and files agree (reachable
   or not), FlushAliasMapToFile followed by a start gives every tenant back exactly its own
   forward and reverse maps. *)
Theorem C20_alias_flush_load_roundtrip : forall (D : Dirs) s, ainv s -> rev_consistent s ->
  (forall t i al, ns_mem al (aabs (fst (astep s AShutdownRestart)) t i) = ns_mem al (aabs s t i)) /\
  (forall t idx al, ns_mem idx (nm_get al (t_nm t (arev (fst (astep s AShutdownRestart))))) =
                    ns_mem idx (nm_get al (t_nm t (arev s)))).
Proof. exact @alias_flush_load_roundtrip. Qed.
Print Assumptions C20_alias_flush_load_roundtrip.

(* The variant with the flush's scratch map index -> aliases allocated once for all tenants
   ([arun_shared]) is refuted by two tenants with one alias each: after shutdown + start tenant 5
   is told that its index i1 has the alias only tenant 0 wrote; the variant also breaks tenant
   independence.  With a single tenant in memory the variant cannot be told from the code. *)
Theorem C20_alias_shared_scratch_flush_refuted :
  exists (D : Dirs) ops t i al,
    ns_mem al (aabs (arun_shared ops empty_astore) t i) <> ns_mem al (aspec_run ops (aabs empty_astore) t i).
Proof. exact shared_scratch_flush_refuted. Qed.
Print Assumptions C20_alias_shared_scratch_flush_refuted.

Theorem C20_alias_shared_scratch_flush_not_independent :
  exists (D : Dirs) ops t i al,
    ns_mem al (aabs (arun_shared ops empty_astore) t i) <>
    ns_mem al (aabs (arun_shared (filter (aop_for t) ops) empty_astore) t i).
Proof. exact shared_scratch_flush_not_independent. Qed.
Print Assumptions C20_alias_shared_scratch_flush_not_independent.

(* The loop of FlushAliasMapToFile in the SHAPE of the code - a scratch map index -> aliases built
   per tenant by inverting the in-memory map, then one file write per entry ([arun_scoped]) - is
   correct for every history and every number of tenants, and equal to the model used above; the
   refuted variant differs from it only in where the scratch map is allocated. *)
Theorem C20_alias_scoped_refines_map : forall (D : Dirs) ops t i al,
  ns_mem al (aabs (arun_scoped ops empty_astore) t i) = ns_mem al (aspec_run ops (aabs empty_astore) t i).
Proof. exact @alias_scoped_refines_map. Qed.
Print Assumptions C20_alias_scoped_refines_map.

Theorem C20_alias_scoped_reverse_consistent : forall (D : Dirs) ops,
  rev_consistent (arun_scoped ops empty_astore).
Proof. exact @alias_scoped_reverse_consistent. Qed.
Print Assumptions C20_alias_scoped_reverse_consistent.

Theorem C20_alias_shared_scratch_one_tenant : forall (D : Dirs) s tr,
  arev s = [tr] -> flush_rev_shared s = flush_rev_scoped s.
Proof. exact @shared_scratch_one_tenant. Qed.
Print Assumptions C20_alias_shared_scratch_one_tenant.

(* ---- PRE-FIX documentation (about [arun_prefix]: only sub-directories of aliases/ were scanned
   at start; the shutdown flush wrote <alias>.json holding index names) *)
Theorem C20_prefix_alias_reverse_lost_refuted : forall D : Dirs,
  exists ops, ~ rev_consistent (arun_prefix ops empty_astore).
Proof. exact prefix_alias_reverse_lost_refuted. Qed.
Print Assumptions C20_prefix_alias_reverse_lost_refuted.

Theorem C20_prefix_alias_shutdown_flush_refuted : forall D : Dirs,
  exists ops t i al,
    ns_mem al (aabs (arun_prefix ops empty_astore) t i) <> ns_mem al (aspec_run ops (aabs empty_astore) t i).
Proof. exact prefix_alias_shutdown_flush_refuted. Qed.
Print Assumptions C20_prefix_alias_shutdown_flush_refuted.

(* ==== the decision code itself, REGENERATED from the Go source on every run by gotrans (coq/gen/Gen.v) ==== *)
Theorem C20_code_IsAlertStatePendingOrFiring_is_model : forall s : astate,
  gen_IsAlertStatePendingOrFiring (zcode s) = pending_or_firing s.
Proof. exact gen_IsAlertStatePendingOrFiring_is_model. Qed.
Print Assumptions C20_code_IsAlertStatePendingOrFiring_is_model.

(* shouldUpdateAlertStateToFiring, given what the history read returns (the newest N-1 evaluation rows), is
   the model's should_fire for every window, interval, history and current outcome *)
Theorem C20_code_shouldUpdateAlertStateToFiring_is_model : forall (window interval : N) (h : history) (cur : astate),
  (0 < interval)%N -> (window < 2 ^ 63)%N -> (interval < 2 ^ 64)%N ->
  gen_shouldUpdateAlertStateToFiring (Z.of_N interval) (Z.of_N window)
      (hist_read (window / interval - 1) h) (zcode cur)
  = should_fire window interval h cur.
Proof. exact gen_shouldUpdateAlertStateToFiring_is_model. Qed.
Print Assumptions C20_code_shouldUpdateAlertStateToFiring_is_model.

Theorem C20_code_shouldSendNotification_is_model : forall (cur : astate) (nf : notif) (silence now : Z) (alertID : list Z),
  gen_shouldSendNotification (zcode (n_last_state nf))
      (gate_over (n_cooldown nf) (n_last_sent nf) now) (gate_over silence (n_last_sent nf) now) alertID (zcode cur)
  = should_send cur nf silence now.
Proof. exact gen_shouldSendNotification_is_model. Qed.
Print Assumptions C20_code_shouldSendNotification_is_model.

(* ==== dashboards and folders as a keyed store WITH A TREE (model SigM.DashTree: folder_structure.json =
   tree id -> (name, kind, parent); details/<id>.json = the folder info {id, name, path, breadcrumbs}
   stored with each dashboard; getDashboard + refreshFolderMetadata, listItems, getFolderContents).
   What a read reports about the place of a dashboard depends on the dashboard's folder AND on every
   ancestor of it.  [tree_of_writes ops] is the tree the accepted writes determine (reads, refreshes of
   details files and restarts at any position never touch it); [info_of tr i] is the folder info of
   dashboard i that tree [tr] determines. ==== *)
From SigM Require Import DashTree.
From SigP Require Import DashTreeProofs.

Theorem C20_dash_tree_is_function_of_writes : forall same ops s,
  d_tree (d_run_with same ops s) = fold_left tree_apply ops (d_tree s).
Proof. exact dt_tree_of_writes. Qed.
Print Assumptions C20_dash_tree_is_function_of_writes.

(* FULL STRENGTH, every history (create / rename / move / delete of folders and dashboards at any
   depth, reads, listings and restarts anywhere): a read of a dashboard returns exactly the folder
   info — folder id, folder name, path, breadcrumb ids and names — that the last writes determine.
   True since the fix "refreshFolderMetadata compares the whole stored folder info with the tree";
   the earlier behaviour is kept as the C20_prefix_dash_tree_* theorems below. *)
Theorem C20_dash_tree_read_current : forall ops i fi cur,
  fst (get_dash (d_tree (d_run ops d_init)) (d_det (d_run ops d_init)) i) = Some fi ->
  info_of (tree_of_writes ops) i = Some cur ->
  fi = cur.
Proof. exact dt_read_current. Qed.
Print Assumptions C20_dash_tree_read_current.

(* non-vacuity: on the two histories that defeated the old test the stored info is NOT the current one
   and the read returns the current one *)
Theorem C20_dash_tree_read_current_on_witnesses :
  fst (get_dash (d_tree (d_run wit_crumbs d_init)) (d_det (d_run wit_crumbs d_init)) 3) = info_of (tree_of_writes wit_crumbs) 3 /\
  info_of (tree_of_writes wit_crumbs) 3 <> None /\
  n_get 3 (d_det (d_run wit_crumbs d_init)) <> info_of (tree_of_writes wit_crumbs) 3 /\
  fst (get_dash (d_tree (d_run wit_name d_init)) (d_det (d_run wit_name d_init)) 3) = info_of (tree_of_writes wit_name) 3 /\
  n_get 3 (d_det (d_run wit_name d_init)) <> info_of (tree_of_writes wit_name) 3.
Proof. exact dt_read_current_on_witnesses. Qed.
Print Assumptions C20_dash_tree_read_current_on_witnesses.

(* what a read returned is what the details file holds afterwards *)
Theorem C20_dash_tree_read_stores_what_it_returns : forall tr det i fi,
  fst (get_dash tr det i) = Some fi -> n_get i (snd (get_dash tr det i)) = Some fi.
Proof. exact dt_read_stores_what_it_returns. Qed.
Print Assumptions C20_dash_tree_read_stores_what_it_returns.

Theorem C20_dash_tree_list_current : forall ops,
  snd (d_step (d_run ops d_init) ListAll) = DList (list_of (tree_of_writes ops)).
Proof. exact dt_list_current. Qed.
Print Assumptions C20_dash_tree_list_current.

Theorem C20_dash_tree_contents_current : forall ops f,
  snd (d_step (d_run ops d_init) (Contents f)) = contents_of (tree_of_writes ops) f.
Proof. exact dt_contents_current. Qed.
Print Assumptions C20_dash_tree_contents_current.

(* ---- PRE-FIX documentation (about [get_dash_prefix] / [d_run_prefix]: refreshFolderMetadata compared
   the stored PATH STRING only): the path was current for every history, the rest was not *)
Theorem C20_prefix_dash_tree_read_path_current : forall ops i fi cur,
  fst (get_dash_prefix (d_tree (d_run_prefix ops d_init)) (d_det (d_run_prefix ops d_init)) i) = Some fi ->
  info_of (tree_of_writes ops) i = Some cur ->
  fi_path fi = fi_path cur.
Proof. exact dt_prefix_read_path_current. Qed.
Print Assumptions C20_prefix_dash_tree_read_path_current.

(* folder x > folder p > dashboard D; x renamed y; a NEW folder x; p moved into it: same path string
   "x/p", the read returned the breadcrumb of the OLD folder (names without '/') *)
Theorem C20_prefix_dash_tree_read_breadcrumbs_refuted :
  exists ops i fi cur,
    forallb (fun o => forallb slash_free (names_of_op o)) ops = true /\
    fst (get_dash_prefix (d_tree (d_run_prefix ops d_init)) (d_det (d_run_prefix ops d_init)) i) = Some fi /\
    info_of (tree_of_writes ops) i = Some cur /\
    fi_path fi = fi_path cur /\ fi_crumbs fi <> fi_crumbs cur.
Proof. exact dt_prefix_read_breadcrumbs_refuted. Qed.
Print Assumptions C20_prefix_dash_tree_read_breadcrumbs_refuted.

(* X > "a/b" > D; X renamed "X/a", "a/b" renamed "b": the read still said folder name "a/b" *)
Theorem C20_prefix_dash_tree_read_folder_name_refuted :
  exists ops i fi cur,
    fst (get_dash_prefix (d_tree (d_run_prefix ops d_init)) (d_det (d_run_prefix ops d_init)) i) = Some fi /\
    info_of (tree_of_writes ops) i = Some cur /\
    fi_path fi = fi_path cur /\ fi_name fi <> fi_name cur.
Proof. exact dt_prefix_read_folder_name_refuted. Qed.
Print Assumptions C20_prefix_dash_tree_read_folder_name_refuted.

(* ---- the decision function dominates every send, from the source: on EVERY path through NotifyAlertHandlerRequest
   (call-order skeleton regenerated from /repo on every run, callees inlined) each of sendAlertEmail, sendSlack and
   sendWebhooks is preceded by shouldSendNotification (whose regenerated body is proved equal to the model's
   should_send above), and in updateAlertStateAndCreateAlertHistory the history row is written only after the state
   has been stored (rules C20.* of GenOrderCheck.co_rules). ---- *)
From SigP Require GenOrderCheck GenOrderC20.
Theorem C20_code_notification_gate_dominates_every_send : forall r : GenOrderCheck.rule,
  In r GenOrderCheck.c20_rules -> GenOrderCheck.rule_holds r.
Proof. exact GenOrderC20.co_C20_rules_hold. Qed.
Print Assumptions C20_code_notification_gate_dominates_every_send.

module gotrans

go 1.23

// gotrans, third translator ("locktrace"): the lock / channel skeleton of Go functions.
//
// For every function of the listed packages it produces a term of the Coq type LockTrace.stm that keeps only
//   - sync.Mutex / sync.RWMutex operations (x.Lock(), x.RLock(), x.Unlock(), x.RUnlock(); `defer x.Unlock()` is
//     replayed before every return and at the end of the function body),
//   - blocking channel operations (ch <- v, <-ch, select without default),
//   - the control structure (if/switch -> choice, for/range -> iteration, return/break/continue),
//   - calls of functions of the listed packages (inlined, so that a lock taken by a callee is seen in the caller;
//     recursion and calls deeper than the depth limit are cut and counted).
// All data is dropped: every condition may go either way.  The analysis that runs over these terms and its soundness
// theorem are in coq/model/LockTrace.v / coq/proofs/LockTraceProofs.v.
//
// Lock identity is textual: a package-level variable keeps its name ("arqMapLock"), a field reached through any local
// expression is named by its field path ("*.rqsLock") — two objects of one type share a name (possible false alarm,
// never a missed re-acquisition of the same object through the same field).
package main

import (
	"fmt"
	"go/ast"
	"go/token"
	"go/types"
	"os"
	"path/filepath"
	"regexp"
	"sort"
	"strings"

	"golang.org/x/tools/go/packages"
	"golang.org/x/tools/go/types/typeutil"
)

type lockSpec struct {
	Packages []string `json:"packages"` // directories relative to the repo root
	Depth    int      `json:"depth"`    // inlining depth
	// calltrace mode (coq/gen/GenOrder.v): the tracked calls become events (KCall, label); lock and channel
	// operations are dropped.  A call matches when the text of its function part (as written at the call site,
	// e.g. "meta.AddMetricsMetaEntry", "ms.mBlock.dpWalState.dpWal.DeleteWAL") or "callee:" + the full name of
	// its static callee equals one of the label's patterns.  A tracked call is a leaf: it is not inlined.
	Track []trackSpec `json:"track"`
	// guardtrace mode (coq/gen/GenGuard.v): every read or write of the listed package-level variables / struct
	// fields (named like the lock objects: "pkg.name", "pkg.Type.field") becomes an event (KCall, label); the lock
	// operations are KEPT, so that an obligation can say "accessed only while the goroutine holds lock L".
	Access []string `json:"access"`
}

type trackSpec struct {
	Label string   `json:"label"`
	Match []string `json:"match"`
}

type lfunc struct {
	pkg  string // directory relative to the repo root
	name string // Recv.Name or Name
	decl *ast.FuncDecl
	info *types.Info
	obj  *types.Func
	base string // unique Gallina base name
}

type lctx struct {
	byObj   map[*types.Func]*lfunc
	list    []*lfunc
	objs    map[string]int // lock / channel name -> id
	objList []string
	cut     int
	maxDepth int
	goBodies []goBody // bodies of `go func(){...}()` statements: roots of their own (a new goroutine holds no lock)
	goCount  map[string]int
	prefix   string         // "lk_" (locktrace) or "co_" (calltrace)
	track    map[string]int // pattern -> label id (calltrace mode)
	hits     map[int]int    // label id -> number of call sites matched
	seenSite map[token.Pos]bool
	access   map[string]int // variable / field name -> label id (guardtrace mode)
}

type goBody struct {
	name, body string
}

func (c *lctx) obj(name string) int {
	if id, ok := c.objs[name]; ok {
		return id
	}
	id := len(c.objList)
	c.objs[name] = id
	c.objList = append(c.objList, name)
	return id
}

func exprText(e ast.Expr) string {
	switch x := e.(type) {
	case *ast.Ident:
		return x.Name
	case *ast.SelectorExpr:
		return exprText(x.X) + "." + x.Sel.Name
	case *ast.StarExpr:
		return exprText(x.X)
	case *ast.ParenExpr:
		return exprText(x.X)
	case *ast.UnaryExpr:
		return exprText(x.X)
	case *ast.IndexExpr:
		return exprText(x.X) + "[]"
	case *ast.CallExpr:
		return exprText(x.Fun) + "()"
	}
	return "?"
}

func shortType(t types.Type) string {
	for {
		p, ok := t.(*types.Pointer)
		if !ok {
			break
		}
		t = p.Elem()
	}
	if n, ok := t.(*types.Named); ok {
		if n.Obj().Pkg() != nil {
			return n.Obj().Pkg().Name() + "." + n.Obj().Name()
		}
		return n.Obj().Name()
	}
	return types.TypeString(t, func(p *types.Package) string { return p.Name() })
}

// name of the lock / channel object denoted by e inside function f: a package-level variable is "pkg.name", a struct
// field is "pkg.Type.field" (whichever instance it belongs to), a local variable or parameter is "<function>:name"
func (c *lctx) objName(f *lfunc, e ast.Expr) string {
	for {
		switch x := e.(type) {
		case *ast.ParenExpr:
			e = x.X
			continue
		case *ast.StarExpr:
			e = x.X
			continue
		case *ast.UnaryExpr:
			if x.Op == token.AND {
				e = x.X
				continue
			}
		}
		break
	}
	switch x := e.(type) {
	case *ast.Ident:
		if o, ok := f.info.Uses[x].(*types.Var); ok {
			if o.Pkg() != nil && o.Parent() == o.Pkg().Scope() {
				return o.Pkg().Name() + "." + o.Name()
			}
			return f.name + ":" + o.Name()
		}
		return f.name + ":" + x.Name
	case *ast.SelectorExpr:
		if sel, ok := f.info.Selections[x]; ok && sel.Kind() == types.FieldVal {
			return shortType(sel.Recv()) + "." + x.Sel.Name
		}
		if o, ok := f.info.Uses[x.Sel].(*types.Var); ok && o.Pkg() != nil { // pkg.Global
			return o.Pkg().Name() + "." + o.Name()
		}
		return "?." + x.Sel.Name
	case *ast.IndexExpr:
		return c.objName(f, x.X) + "[]"
	case *ast.CallExpr:
		return exprText(x.Fun) + "()"
	}
	return "?"
}

// the sync.Mutex / sync.RWMutex operation a call performs, with the expression denoting the mutex
func (c *lctx) lockOp(f *lfunc, call *ast.CallExpr) (kind string, mu ast.Expr, embeddedIn string, ok bool) {
	sel, isSel := call.Fun.(*ast.SelectorExpr)
	if !isSel || len(call.Args) != 0 {
		return "", nil, "", false
	}
	s, has := f.info.Selections[sel]
	if !has || s.Kind() != types.MethodVal {
		return "", nil, "", false
	}
	fn, isFn := s.Obj().(*types.Func)
	if !isFn || fn.Pkg() == nil || fn.Pkg().Path() != "sync" {
		return "", nil, "", false
	}
	k, known := lockMethods[fn.Name()]
	if !known {
		return "", nil, "", false
	}
	recv := fn.Type().(*types.Signature).Recv().Type()
	rt := shortType(recv)
	if rt != "sync.Mutex" && rt != "sync.RWMutex" {
		return "", nil, "", false
	}
	if len(s.Index()) > 1 { // promoted through an embedded mutex: x.Lock() with x embedding sync.Mutex
		return k, sel.X, rt, true
	}
	return k, sel.X, "", true
}

var lockMethods = map[string]string{"Lock": "KLock", "RLock": "KRLock", "Unlock": "KUnlock", "RUnlock": "KRUnlock"}

func seq(a, b string) string {
	if a == "SSkip" {
		return b
	}
	if b == "SSkip" {
		return a
	}
	return "(SSeq " + a + " " + b + ")"
}

func alt(xs []string) string {
	if len(xs) == 0 {
		return "SSkip"
	}
	out := xs[len(xs)-1]
	for i := len(xs) - 2; i >= 0; i-- {
		if xs[i] == out {
			continue
		}
		out = "(SAlt " + xs[i] + " " + out + ")"
	}
	return out
}

type fstate struct {
	f      *lfunc
	root   bool // the top-level translation of f at full depth
	depth  int
	defers []string // events deferred so far (replayed in reverse before a return)
}

func (c *lctx) deferred(st *fstate) string {
	out := "SSkip"
	for i := len(st.defers) - 1; i >= 0; i-- {
		out = seq(out, st.defers[i])
	}
	return out
}

// events of evaluating an expression: calls of known functions, receives
func (c *lctx) exprEv(st *fstate, e ast.Expr) string {
	out := "SSkip"
	if e == nil {
		return out
	}
	ast.Inspect(e, func(n ast.Node) bool {
		switch x := n.(type) {
		case *ast.FuncLit:
			return false // runs later, elsewhere
		case *ast.CallExpr:
			// arguments first
			for _, a := range x.Args {
				out = seq(out, c.exprEv(st, a))
			}
			out = seq(out, c.callEv(st, x))
			if _, ok := x.Fun.(*ast.FuncLit); ok {
				return false
			}
			// the function expression itself (method receivers that are calls)
			if sel, ok := x.Fun.(*ast.SelectorExpr); ok {
				out = seq(out, c.exprEv(st, sel.X))
			}
			return false
		case *ast.SelectorExpr:
			if c.access != nil {
				if sel, ok := st.f.info.Selections[x]; ok && sel.Kind() == types.FieldVal {
					if id, ok := c.access[shortType(sel.Recv())+"."+x.Sel.Name]; ok {
						c.hits[id]++
						out = seq(out, fmt.Sprintf("(SEv KCall %d)", id))
					}
				}
			}
		case *ast.Ident:
			if c.access != nil {
				if o, ok := st.f.info.Uses[x].(*types.Var); ok && !o.IsField() && o.Pkg() != nil && o.Parent() == o.Pkg().Scope() {
					if id, ok := c.access[o.Pkg().Name()+"."+o.Name()]; ok {
						c.hits[id]++
						out = seq(out, fmt.Sprintf("(SEv KCall %d)", id))
					}
				}
			}
		case *ast.UnaryExpr:
			if x.Op == token.ARROW {
				out = seq(out, c.exprEv(st, x.X))
				out = seq(out, fmt.Sprintf("(SEv KRecv %d)", c.obj(c.objName(st.f, x.X))))
				return false
			}
		}
		return true
	})
	return out
}

// the function of the listed packages that a call statically denotes (function, concrete method); calls through
// interfaces and function values are not followed
func (c *lctx) resolve(st *fstate, call *ast.CallExpr) *lfunc {
	fn := typeutil.StaticCallee(st.f.info, call)
	if fn == nil {
		return nil
	}
	if o := fn.Origin(); o != nil {
		fn = o
	}
	return c.byObj[fn]
}

func (c *lctx) callEv(st *fstate, call *ast.CallExpr) string {
	if c.track != nil {
		id, ok := c.track[exprText(call.Fun)]
		if !ok {
			if fn := typeutil.StaticCallee(st.f.info, call); fn != nil {
				id, ok = c.track["callee:"+fn.FullName()]
			}
		}
		if ok {
			if !c.seenSite[call.Pos()] {
				c.seenSite[call.Pos()] = true
				c.hits[id]++
			}
			return fmt.Sprintf("(SEv KCall %d)", id)
		}
	}
	if k, mu, emb, ok := c.lockOp(st.f, call); ok {
		n := c.objName(st.f, mu)
		if emb != "" {
			if tv, ok := st.f.info.Types[mu]; ok {
				n = shortType(tv.Type) + ".(" + emb + ")"
			}
		}
		return fmt.Sprintf("(SEv %s %d)", k, c.obj(n))
	}
	if lit, ok := call.Fun.(*ast.FuncLit); ok { // func(){...}() runs here
		sub := &fstate{f: st.f, depth: st.depth}
		body := c.block(sub, lit.Body.List)
		return "(SCall " + seq(body, c.deferred(sub)) + ")"
	}
	callee := c.resolve(st, call)
	if callee == nil || callee.decl.Body == nil {
		return "SSkip"
	}
	if st.depth <= 0 {
		c.cut++
		return "SSkip"
	}
	// the callee's skeleton one level shallower (a separate definition: lk_<callee>_<depth-1>)
	return "(SCall " + c.defName(callee, st.depth-1) + ")"
}

func (c *lctx) defName(f *lfunc, depth int) string {
	return fmt.Sprintf("%s_%d", c.baseName(f), depth)
}

func (c *lctx) baseName(f *lfunc) string {
	if f.base != "" {
		return f.base
	}
	n := strings.NewReplacer("/", "_", ".", "_", "::", "__", "-", "_").Replace(strings.TrimPrefix(f.pkg, "pkg/") + "::" + f.name)
	var sb strings.Builder
	for _, r := range n {
		if r == '_' || (r >= '0' && r <= '9') || (r >= 'a' && r <= 'z') || (r >= 'A' && r <= 'Z') {
			sb.WriteRune(r)
		} else {
			sb.WriteString("X")
		}
	}
	return c.prefix + sb.String()
}

func (c *lctx) funcBody(f *lfunc, depth int) string {
	st := &fstate{f: f, depth: depth, root: depth == c.maxDepth}
	body := c.block(st, f.decl.Body.List)
	return seq(body, c.deferred(st))
}

func (c *lctx) block(st *fstate, l []ast.Stmt) string {
	out := "SSkip"
	for _, s := range l {
		out = seq(out, c.stmt(st, s))
	}
	return out
}

func (c *lctx) stmt(st *fstate, s ast.Stmt) string {
	switch x := s.(type) {
	case nil:
		return "SSkip"
	case *ast.ExprStmt:
		return c.exprEv(st, x.X)
	case *ast.SendStmt:
		return seq(seq(c.exprEv(st, x.Chan), c.exprEv(st, x.Value)), fmt.Sprintf("(SEv KSend %d)", c.obj(c.objName(st.f, x.Chan))))
	case *ast.AssignStmt:
		out := "SSkip"
		for _, r := range x.Rhs {
			out = seq(out, c.exprEv(st, r))
		}
		if c.access != nil { // writes count as accesses
			for _, l := range x.Lhs {
				out = seq(out, c.exprEv(st, l))
			}
		}
		return out
	case *ast.DeclStmt:
		out := "SSkip"
		if g, ok := x.Decl.(*ast.GenDecl); ok {
			for _, sp := range g.Specs {
				if vs, ok := sp.(*ast.ValueSpec); ok {
					for _, v := range vs.Values {
						out = seq(out, c.exprEv(st, v))
					}
				}
			}
		}
		return out
	case *ast.IncDecStmt:
		if c.access != nil {
			return c.exprEv(st, x.X)
		}
		return "SSkip"
	case *ast.EmptyStmt:
		return "SSkip"
	case *ast.GoStmt:
		// a new goroutine holds none of the caller's locks; its arguments are evaluated here
		out := "SSkip"
		for _, a := range x.Call.Args {
			out = seq(out, c.exprEv(st, a))
		}
		if lit, ok := x.Call.Fun.(*ast.FuncLit); ok && st.root {
			// the goroutine's body is analysed as a root of its own
			sub := &fstate{f: st.f, depth: st.depth}
			body := c.block(sub, lit.Body.List)
			body = seq(body, c.deferred(sub))
			b := c.baseName(st.f)
			c.goCount[b]++
			c.goBodies = append(c.goBodies, goBody{fmt.Sprintf("%s__go%d", b, c.goCount[b]), body})
		}
		return out
	case *ast.DeferStmt:
		out := "SSkip"
		for _, a := range x.Call.Args {
			out = seq(out, c.exprEv(st, a))
		}
		var d string
		if lit, ok := x.Call.Fun.(*ast.FuncLit); ok {
			sub := &fstate{f: st.f, depth: st.depth}
			body := c.block(sub, lit.Body.List)
			d = "(SCall " + seq(body, c.deferred(sub)) + ")"
		} else {
			d = c.callEv(st, x.Call)
		}
		if d != "SSkip" {
			st.defers = append(st.defers, d)
		}
		return out
	case *ast.ReturnStmt:
		out := "SSkip"
		for _, r := range x.Results {
			out = seq(out, c.exprEv(st, r))
		}
		return seq(seq(out, c.deferred(st)), "SRet")
	case *ast.BranchStmt:
		switch x.Tok {
		case token.BREAK:
			return "SBreak"
		case token.CONTINUE:
			return "SContinue"
		}
		return "SSkip" // goto / fallthrough: not followed
	case *ast.BlockStmt:
		n := len(st.defers)
		out := c.block(st, x.List)
		_ = n
		return out
	case *ast.LabeledStmt:
		return c.stmt(st, x.Stmt)
	case *ast.IfStmt:
		pre := seq(c.stmt(st, x.Init), c.exprEv(st, x.Cond))
		n := len(st.defers)
		a := c.block(st, x.Body.List)
		da := st.defers[n:]
		st.defers = st.defers[:n:n]
		b := "SSkip"
		if x.Else != nil {
			b = c.stmt(st, x.Else)
		}
		db := st.defers[n:]
		st.defers = st.defers[:n:n]
		// a defer registered in one arm only runs when that arm ran: keep it conservative by replaying it in both
		// (an unlock of a lock that is not held is ignored by the monitor)
		st.defers = append(append(st.defers, da...), db...)
		return seq(pre, alt([]string{a, b}))
	case *ast.SwitchStmt, *ast.TypeSwitchStmt:
		var init ast.Stmt
		var tag ast.Expr
		var body *ast.BlockStmt
		if sw, ok := x.(*ast.SwitchStmt); ok {
			init, tag, body = sw.Init, sw.Tag, sw.Body
		} else {
			ts := x.(*ast.TypeSwitchStmt)
			init, body = ts.Init, ts.Body
		}
		pre := seq(c.stmt(st, init), c.exprEv(st, tag))
		var arms []string
		hasDef := false
		for _, cl := range body.List {
			cc := cl.(*ast.CaseClause)
			if cc.List == nil {
				hasDef = true
			}
			arm := "SSkip"
			for _, e := range cc.List {
				arm = seq(arm, c.exprEv(st, e))
			}
			arms = append(arms, "(SBrk "+seq(arm, c.block(st, cc.Body))+")")
		}
		if !hasDef {
			arms = append(arms, "SSkip")
		}
		return seq(pre, alt(arms))
	case *ast.SelectStmt:
		var arms []string
		hasDef := false
		for _, cl := range x.Body.List {
			cc := cl.(*ast.CommClause)
			if cc.Comm == nil {
				hasDef = true
			}
		}
		for _, cl := range x.Body.List {
			cc := cl.(*ast.CommClause)
			arm := "SSkip"
			if cc.Comm != nil && !hasDef {
				arm = c.stmt(st, cc.Comm) // a blocking send / receive
			}
			arms = append(arms, "(SBrk "+seq(arm, c.block(st, cc.Body))+")")
		}
		return alt(arms)
	case *ast.ForStmt:
		pre := c.stmt(st, x.Init)
		cond := c.exprEv(st, x.Cond)
		body := seq(c.iterEv(st), seq(c.block(st, x.Body.List), "SSkip"))
		post := c.stmt(st, x.Post)
		return seq(pre, seq("(SLoop "+seq(cond, "(SCont "+body+")")+" "+seq(post, "SSkip")+")", cond))
	case *ast.RangeStmt:
		pre := c.exprEv(st, x.X)
		recv := "SSkip"
		// ranging over a channel blocks
		body := seq(c.iterEv(st), c.block(st, x.Body.List))
		return seq(pre, "(SLoop "+seq(recv, "(SCont "+body+")")+" SSkip)")
	}
	return "SSkip"
}

// calltrace mode: the start of an iteration of a loop of the ROOT function is an event of its own (label "@iter"),
// so that an obligation can ask for a check in the same iteration as the action it guards
func (c *lctx) iterEv(st *fstate) string {
	if c.track == nil || !st.root {
		return "SSkip"
	}
	if id, ok := c.track["@iter"]; ok {
		return fmt.Sprintf("(SEv KCall %d)", id)
	}
	return "SSkip"
}

func runLockTrace(repo string, spec lockSpec, out string) {
	c := &lctx{byObj: map[*types.Func]*lfunc{}, objs: map[string]int{}, goCount: map[string]int{}, prefix: "lk_"}
	if len(spec.Track) > 0 {
		c.prefix, c.track, c.hits, c.seenSite = "co_", map[string]int{}, map[int]int{}, map[token.Pos]bool{}
		for i, t := range spec.Track {
			for _, m := range t.Match {
				c.track[m] = i
			}
		}
	}
	if len(spec.Access) > 0 {
		c.prefix, c.access, c.hits = "gb_", map[string]int{}, map[int]int{}
		for i, a := range spec.Access {
			c.access[a] = i
		}
	}
	if spec.Depth == 0 {
		spec.Depth = 4
	}
	c.maxDepth = spec.Depth
	var pats []string
	for _, d := range spec.Packages {
		pats = append(pats, "./"+d)
	}
	cfg := &packages.Config{
		Mode: packages.NeedName | packages.NeedFiles | packages.NeedSyntax | packages.NeedTypes | packages.NeedTypesInfo | packages.NeedImports | packages.NeedDeps,
		Dir:  repo,
		Env:  append(os.Environ(), "GOFLAGS=-mod=mod", "GOPROXY=off", "GOSUMDB=off", "GOTOOLCHAIN=local"),
	}
	pkgs, err := packages.Load(cfg, pats...)
	if err != nil {
		fail("loading packages: %v", err)
	}
	sort.Slice(pkgs, func(i, j int) bool { return pkgs[i].PkgPath < pkgs[j].PkgPath })
	for _, p := range pkgs {
		if len(p.Errors) > 0 {
			fail("package %s does not type-check: %v", p.PkgPath, p.Errors[0])
		}
		dir := p.PkgPath
		if i := strings.Index(dir, "/pkg/"); i >= 0 {
			dir = dir[i+1:]
		}
		for _, f := range p.Syntax {
			for _, d := range f.Decls {
				g, ok := d.(*ast.FuncDecl)
				if !ok || g.Body == nil {
					continue
				}
				obj, _ := p.TypesInfo.Defs[g.Name].(*types.Func)
				if obj == nil {
					continue
				}
				name := g.Name.Name
				if g.Recv != nil && len(g.Recv.List) == 1 {
					name = typeName(g.Recv.List[0].Type) + "." + name
				}
				lf := &lfunc{pkg: dir, name: name, decl: g, info: p.TypesInfo, obj: obj}
				c.byObj[obj] = lf
				c.list = append(c.list, lf)
			}
		}
	}
	sort.Slice(c.list, func(i, j int) bool {
		if c.list[i].pkg != c.list[j].pkg {
			return c.list[i].pkg < c.list[j].pkg
		}
		return c.list[i].name < c.list[j].name
	})
	var sb strings.Builder
	mode := "locktrace"
	if c.track != nil {
		mode = "calltrace"
	}
	if c.access != nil {
		mode = "guardtrace"
	}
	sb.WriteString("(* GENERATED by gotrans (" + mode + ") from " + repo + " on every run. Do not edit, do not commit. *)\n")
	sb.WriteString("From Coq Require Import NArith List String.\nFrom SigM Require Import LockTrace.\nImport ListNotations.\nOpen Scope N_scope.\nOpen Scope string_scope.\n\n")
	type ent struct{ name, def string }
	// one definition per function and depth; depth 0 cuts every call
	funcsList := c.list
	used := map[string]int{}
	for _, f := range funcsList {
		b := c.baseName(f)
		used[b]++
		if used[b] > 1 {
			b = fmt.Sprintf("%s_v%d", b, used[b])
		}
		f.base = b
	}
	defs := map[string]string{}
	var order []string
	for d := 0; d <= spec.Depth; d++ {
		for _, f := range funcsList {
			n := c.defName(f, d)
			defs[n] = c.funcBody(f, d)
			order = append(order, n)
		}
	}
	for _, g := range c.goBodies {
		n := g.name + fmt.Sprintf("_%d", spec.Depth)
		defs[n] = g.body
		order = append(order, n)
	}
	// prune: a definition without events whose callees are all pruned is SSkip
	empty := map[string]bool{}
	refRe := regexp.MustCompile(c.prefix + `[A-Za-z0-9_]+_[0-9]+`)
	lockEvRe := regexp.MustCompile(`\(SEv K(Lock|RLock|Unlock|RUnlock|Send|Recv) [0-9]+\)`)
	if c.track != nil { // calltrace: only the tracked calls are events
		for n, d := range defs {
			defs[n] = lockEvRe.ReplaceAllString(d, "SSkip")
		}
	}
	for changed := true; changed; {
		changed = false
		for _, n := range order {
			if empty[n] {
				continue
			}
			body := refRe.ReplaceAllStringFunc(defs[n], func(r string) string {
				if empty[r] {
					return "SSkip"
				}
				return r
			})
			defs[n] = body
			if !strings.Contains(body, "SEv") && !refRe.MatchString(body) {
				empty[n] = true
				changed = true
			}
		}
	}
	var ents []ent
	for _, n := range order {
		if empty[n] {
			continue
		}
		sb.WriteString("Definition " + n + " : stm :=\n  " + defs[n] + ".\n\n")
	}
	for _, f := range funcsList {
		n := c.defName(f, spec.Depth)
		if !empty[n] {
			ents = append(ents, ent{c.baseName(f), n})
		}
	}
	for _, g := range c.goBodies {
		n := g.name + fmt.Sprintf("_%d", spec.Depth)
		if !empty[n] {
			ents = append(ents, ent{g.name, n})
		}
	}
	if c.track != nil {
		sb.WriteString("(* labels of the tracked calls, with the number of call sites matched *)\nDefinition co_labels : list (N * string * N) :=\n  [")
		for i, t := range spec.Track {
			if i > 0 {
				sb.WriteString(";\n   ")
			}
			sb.WriteString(fmt.Sprintf("(%d, \"%s\", %d)", i, t.Label, c.hits[i]))
		}
		sb.WriteString("].\n\n")
	} else {
		if c.access != nil {
			sb.WriteString("(* labels of the watched variables / fields, with the number of accesses seen (all depths) *)\nDefinition gb_labels : list (N * string * N) :=\n  [")
			for i, a := range spec.Access {
				if i > 0 {
					sb.WriteString(";\n   ")
				}
				sb.WriteString(fmt.Sprintf("(%d, \"%s\", %d)", i, a, c.hits[i]))
			}
			sb.WriteString("].\n\n")
		}
		sb.WriteString("(* object names *)\nDefinition " + c.prefix + "objects : list (N * string) :=\n  [")
		for i, n := range c.objList {
			if i > 0 {
				sb.WriteString(";\n   ")
			}
			sb.WriteString(fmt.Sprintf("(%d, \"%s\")", i, n))
		}
		sb.WriteString("].\n\n")
	}
	sb.WriteString("Definition " + c.prefix + "all : list (string * stm) :=\n  [")
	for i, e := range ents {
		if i > 0 {
			sb.WriteString(";\n   ")
		}
		sb.WriteString("(\"" + e.name + "\", " + e.def + ")")
	}
	sb.WriteString("].\n\n")
	sb.WriteString(fmt.Sprintf("(* calls cut by the depth limit %d or by recursion: %d *)\nDefinition %scut_calls : N := %d.\n", spec.Depth, c.cut, c.prefix, c.cut))
	_ = os.MkdirAll(filepath.Dir(out), 0o755)
	if err := os.WriteFile(out, []byte(sb.String()), 0o644); err != nil {
		fail("%v", err)
	}
}

// gotrans, third translator ("locktrace"): the lock / channel skeleton of Go functions.
//
// For every function of the listed packages it produces a term of the Coq type LockTrace.stm that keeps only
//   - sync.Mutex / sync.RWMutex operations (x.Lock(), x.RLock(), x.Unlock(), x.RUnlock(); `defer x.Unlock()` is
//     replayed before every return and at the end of the function body),
//   - blocking channel operations (ch <- v, <-ch, select without default),
//   - the control structure (if/switch -> choice, for/range -> iteration, return/break/continue),
//   - calls of functions of the listed packages (inlined, so that a lock taken by a callee is seen in the caller;
//     recursion and calls deeper than the depth limit are cut and counted).
// All data is dropped: every condition may go either way.  The analysis that runs over these terms and its soundness
// theorem are in coq/model/LockTrace.v / coq/proofs/LockTraceProofs.v.
//
// Lock identity is textual: a package-level variable keeps its name ("arqMapLock"), a field reached through any local
// expression is named by its field path ("*.rqsLock") — two objects of one type share a name (possible false alarm,
// never a missed re-acquisition of the same object through the same field).
package main

import (
	"fmt"
	"go/ast"
	"go/parser"
	"go/token"
	"os"
	"path/filepath"
	"regexp"
	"sort"
	"strings"
)

type lockSpec struct {
	Packages []string `json:"packages"` // directories relative to the repo root
	Depth    int      `json:"depth"`    // inlining depth
}

type lfunc struct {
	pkg  string
	name string // Recv.Name or Name
	decl *ast.FuncDecl
	file *ast.File
}

type lctx struct {
	funcs   map[string]*lfunc // key: pkgdir + "::" + name
	byName  map[string][]*lfunc
	globals map[string]map[string]bool // pkgdir -> package-level var names
	imports map[*ast.File]map[string]string
	pkgPath map[string]string // import path suffix -> pkgdir
	objs    map[string]int    // lock / channel name -> id
	objList []string
	cut     int
}

func (c *lctx) obj(name string) int {
	if id, ok := c.objs[name]; ok {
		return id
	}
	id := len(c.objList)
	c.objs[name] = id
	c.objList = append(c.objList, name)
	return id
}

func exprText(e ast.Expr) string {
	switch x := e.(type) {
	case *ast.Ident:
		return x.Name
	case *ast.SelectorExpr:
		return exprText(x.X) + "." + x.Sel.Name
	case *ast.StarExpr:
		return exprText(x.X)
	case *ast.ParenExpr:
		return exprText(x.X)
	case *ast.UnaryExpr:
		return exprText(x.X)
	case *ast.IndexExpr:
		return exprText(x.X) + "[]"
	case *ast.CallExpr:
		return exprText(x.Fun) + "()"
	}
	return "?"
}

// name of the lock / channel object denoted by e inside function f
func (c *lctx) objName(f *lfunc, e ast.Expr) string {
	t := exprText(e)
	parts := strings.Split(t, ".")
	root := parts[0]
	if len(parts) == 1 {
		if c.globals[f.pkg][root] {
			return f.pkg[strings.LastIndex(f.pkg, "/")+1:] + "." + root
		}
		return "*" // a local mutex / channel
	}
	if imp, ok := c.imports[f.file][root]; ok && len(parts) == 2 {
		// pkg.Global
		for suf, dir := range c.pkgPath {
			if strings.HasSuffix(imp, suf) {
				return dir[strings.LastIndex(dir, "/")+1:] + "." + parts[1]
			}
		}
		return imp[strings.LastIndex(imp, "/")+1:] + "." + parts[1]
	}
	// a field, however it is reached (receiver, local, package-level object): named by the field alone
	return "*." + parts[len(parts)-1]
}

var lockMethods = map[string]string{"Lock": "KLock", "RLock": "KRLock", "Unlock": "KUnlock", "RUnlock": "KRUnlock"}

func seq(a, b string) string {
	if a == "SSkip" {
		return b
	}
	if b == "SSkip" {
		return a
	}
	return "(SSeq " + a + " " + b + ")"
}

func alt(xs []string) string {
	if len(xs) == 0 {
		return "SSkip"
	}
	out := xs[len(xs)-1]
	for i := len(xs) - 2; i >= 0; i-- {
		if xs[i] == out {
			continue
		}
		out = "(SAlt " + xs[i] + " " + out + ")"
	}
	return out
}

type fstate struct {
	f      *lfunc
	depth  int
	defers []string // events deferred so far (replayed in reverse before a return)
}

func (c *lctx) deferred(st *fstate) string {
	out := "SSkip"
	for i := len(st.defers) - 1; i >= 0; i-- {
		out = seq(out, st.defers[i])
	}
	return out
}

// events of evaluating an expression: calls of known functions, receives
func (c *lctx) exprEv(st *fstate, e ast.Expr) string {
	out := "SSkip"
	if e == nil {
		return out
	}
	ast.Inspect(e, func(n ast.Node) bool {
		switch x := n.(type) {
		case *ast.FuncLit:
			return false // runs later, elsewhere
		case *ast.CallExpr:
			// arguments first
			for _, a := range x.Args {
				out = seq(out, c.exprEv(st, a))
			}
			out = seq(out, c.callEv(st, x))
			if _, ok := x.Fun.(*ast.FuncLit); ok {
				return false
			}
			// the function expression itself (method receivers that are calls)
			if sel, ok := x.Fun.(*ast.SelectorExpr); ok {
				out = seq(out, c.exprEv(st, sel.X))
			}
			return false
		case *ast.UnaryExpr:
			if x.Op == token.ARROW {
				out = seq(out, c.exprEv(st, x.X))
				out = seq(out, fmt.Sprintf("(SEv KRecv %d)", c.obj(c.objName(st.f, x.X))))
				return false
			}
		}
		return true
	})
	return out
}

func (c *lctx) resolve(st *fstate, call *ast.CallExpr) *lfunc {
	switch fn := call.Fun.(type) {
	case *ast.Ident:
		if f, ok := c.funcs[st.f.pkg+"::"+fn.Name]; ok {
			return f
		}
	case *ast.SelectorExpr:
		if id, ok := fn.X.(*ast.Ident); ok {
			if imp, ok := c.imports[st.f.file][id.Name]; ok {
				for suf, dir := range c.pkgPath {
					if strings.HasSuffix(imp, suf) {
						if f, ok := c.funcs[dir+"::"+fn.Sel.Name]; ok {
							return f
						}
					}
				}
				return nil
			}
		}
		// a method: resolved by name when exactly one method of the listed packages has it
		var cands []*lfunc
		for _, f := range c.byName[fn.Sel.Name] {
			if f.decl.Recv != nil {
				cands = append(cands, f)
			}
		}
		if len(cands) == 1 {
			return cands[0]
		}
	}
	return nil
}

func (c *lctx) callEv(st *fstate, call *ast.CallExpr) string {
	if sel, ok := call.Fun.(*ast.SelectorExpr); ok {
		if k, ok := lockMethods[sel.Sel.Name]; ok && len(call.Args) == 0 {
			return fmt.Sprintf("(SEv %s %d)", k, c.obj(c.objName(st.f, sel.X)))
		}
	}
	if lit, ok := call.Fun.(*ast.FuncLit); ok { // func(){...}() runs here
		sub := &fstate{f: st.f, depth: st.depth}
		body := c.block(sub, lit.Body.List)
		return "(SCall " + seq(body, c.deferred(sub)) + ")"
	}
	callee := c.resolve(st, call)
	if callee == nil || callee.decl.Body == nil {
		return "SSkip"
	}
	if st.depth <= 0 {
		c.cut++
		return "SSkip"
	}
	// the callee's skeleton one level shallower (a separate definition: lk_<callee>_<depth-1>)
	return "(SCall " + c.defName(callee, st.depth-1) + ")"
}

func (c *lctx) defName(f *lfunc, depth int) string {
	return fmt.Sprintf("%s_%d", c.baseName(f), depth)
}

func (c *lctx) baseName(f *lfunc) string {
	n := strings.NewReplacer("/", "_", ".", "_", "::", "__", "-", "_").Replace(strings.TrimPrefix(f.pkg, "pkg/") + "::" + f.name)
	var sb strings.Builder
	for _, r := range n {
		if r == '_' || (r >= '0' && r <= '9') || (r >= 'a' && r <= 'z') || (r >= 'A' && r <= 'Z') {
			sb.WriteRune(r)
		} else {
			sb.WriteString("X")
		}
	}
	return "lk_" + sb.String()
}

func (c *lctx) funcBody(f *lfunc, depth int) string {
	st := &fstate{f: f, depth: depth}
	body := c.block(st, f.decl.Body.List)
	return seq(body, c.deferred(st))
}

func (c *lctx) block(st *fstate, l []ast.Stmt) string {
	out := "SSkip"
	for _, s := range l {
		out = seq(out, c.stmt(st, s))
	}
	return out
}

func (c *lctx) stmt(st *fstate, s ast.Stmt) string {
	switch x := s.(type) {
	case nil:
		return "SSkip"
	case *ast.ExprStmt:
		return c.exprEv(st, x.X)
	case *ast.SendStmt:
		return seq(seq(c.exprEv(st, x.Chan), c.exprEv(st, x.Value)), fmt.Sprintf("(SEv KSend %d)", c.obj(c.objName(st.f, x.Chan))))
	case *ast.AssignStmt:
		out := "SSkip"
		for _, r := range x.Rhs {
			out = seq(out, c.exprEv(st, r))
		}
		return out
	case *ast.DeclStmt:
		out := "SSkip"
		if g, ok := x.Decl.(*ast.GenDecl); ok {
			for _, sp := range g.Specs {
				if vs, ok := sp.(*ast.ValueSpec); ok {
					for _, v := range vs.Values {
						out = seq(out, c.exprEv(st, v))
					}
				}
			}
		}
		return out
	case *ast.IncDecStmt, *ast.EmptyStmt:
		return "SSkip"
	case *ast.GoStmt:
		// a new goroutine holds none of the caller's locks; its arguments are evaluated here
		out := "SSkip"
		for _, a := range x.Call.Args {
			out = seq(out, c.exprEv(st, a))
		}
		return out
	case *ast.DeferStmt:
		out := "SSkip"
		for _, a := range x.Call.Args {
			out = seq(out, c.exprEv(st, a))
		}
		var d string
		if lit, ok := x.Call.Fun.(*ast.FuncLit); ok {
			sub := &fstate{f: st.f, depth: st.depth}
			body := c.block(sub, lit.Body.List)
			d = "(SCall " + seq(body, c.deferred(sub)) + ")"
		} else {
			d = c.callEv(st, x.Call)
		}
		if d != "SSkip" {
			st.defers = append(st.defers, d)
		}
		return out
	case *ast.ReturnStmt:
		out := "SSkip"
		for _, r := range x.Results {
			out = seq(out, c.exprEv(st, r))
		}
		return seq(seq(out, c.deferred(st)), "SRet")
	case *ast.BranchStmt:
		switch x.Tok {
		case token.BREAK:
			return "SBreak"
		case token.CONTINUE:
			return "SContinue"
		}
		return "SSkip" // goto / fallthrough: not followed
	case *ast.BlockStmt:
		n := len(st.defers)
		out := c.block(st, x.List)
		_ = n
		return out
	case *ast.LabeledStmt:
		return c.stmt(st, x.Stmt)
	case *ast.IfStmt:
		pre := seq(c.stmt(st, x.Init), c.exprEv(st, x.Cond))
		n := len(st.defers)
		a := c.block(st, x.Body.List)
		da := st.defers[n:]
		st.defers = st.defers[:n:n]
		b := "SSkip"
		if x.Else != nil {
			b = c.stmt(st, x.Else)
		}
		db := st.defers[n:]
		st.defers = st.defers[:n:n]
		// a defer registered in one arm only runs when that arm ran: keep it conservative by replaying it in both
		// (an unlock of a lock that is not held is ignored by the monitor)
		st.defers = append(append(st.defers, da...), db...)
		return seq(pre, alt([]string{a, b}))
	case *ast.SwitchStmt, *ast.TypeSwitchStmt:
		var init ast.Stmt
		var tag ast.Expr
		var body *ast.BlockStmt
		if sw, ok := x.(*ast.SwitchStmt); ok {
			init, tag, body = sw.Init, sw.Tag, sw.Body
		} else {
			ts := x.(*ast.TypeSwitchStmt)
			init, body = ts.Init, ts.Body
		}
		pre := seq(c.stmt(st, init), c.exprEv(st, tag))
		var arms []string
		hasDef := false
		for _, cl := range body.List {
			cc := cl.(*ast.CaseClause)
			if cc.List == nil {
				hasDef = true
			}
			arm := "SSkip"
			for _, e := range cc.List {
				arm = seq(arm, c.exprEv(st, e))
			}
			arms = append(arms, "(SBrk "+seq(arm, c.block(st, cc.Body))+")")
		}
		if !hasDef {
			arms = append(arms, "SSkip")
		}
		return seq(pre, alt(arms))
	case *ast.SelectStmt:
		var arms []string
		hasDef := false
		for _, cl := range x.Body.List {
			cc := cl.(*ast.CommClause)
			if cc.Comm == nil {
				hasDef = true
			}
		}
		for _, cl := range x.Body.List {
			cc := cl.(*ast.CommClause)
			arm := "SSkip"
			if cc.Comm != nil && !hasDef {
				arm = c.stmt(st, cc.Comm) // a blocking send / receive
			}
			arms = append(arms, "(SBrk "+seq(arm, c.block(st, cc.Body))+")")
		}
		return alt(arms)
	case *ast.ForStmt:
		pre := c.stmt(st, x.Init)
		cond := c.exprEv(st, x.Cond)
		body := seq(c.block(st, x.Body.List), "SSkip")
		post := c.stmt(st, x.Post)
		return seq(pre, seq("(SLoop "+seq(cond, "(SCont "+body+")")+" "+seq(post, "SSkip")+")", cond))
	case *ast.RangeStmt:
		pre := c.exprEv(st, x.X)
		recv := "SSkip"
		// ranging over a channel blocks
		body := c.block(st, x.Body.List)
		return seq(pre, "(SLoop "+seq(recv, "(SCont "+body+")")+" SSkip)")
	}
	return "SSkip"
}

func runLockTrace(repo string, spec lockSpec, out string) {
	c := &lctx{funcs: map[string]*lfunc{}, byName: map[string][]*lfunc{}, globals: map[string]map[string]bool{},
		imports: map[*ast.File]map[string]string{}, pkgPath: map[string]string{}, objs: map[string]int{}}
	if spec.Depth == 0 {
		spec.Depth = 4
	}
	fset := token.NewFileSet()
	for _, dir := range spec.Packages {
		c.pkgPath["/"+dir] = dir
		c.globals[dir] = map[string]bool{}
		pkgs, err := parser.ParseDir(fset, filepath.Join(repo, dir), func(fi os.FileInfo) bool {
			return !strings.HasSuffix(fi.Name(), "_test.go")
		}, 0)
		if err != nil {
			fail("%v", err)
		}
		for _, p := range pkgs {
			var names []string
			for n := range p.Files {
				names = append(names, n)
			}
			sort.Strings(names)
			for _, n := range names {
				f := p.Files[n]
				im := map[string]string{}
				for _, is := range f.Imports {
					path := strings.Trim(is.Path.Value, `"`)
					name := path[strings.LastIndex(path, "/")+1:]
					if is.Name != nil {
						name = is.Name.Name
					}
					im[name] = path
				}
				c.imports[f] = im
				for _, d := range f.Decls {
					switch g := d.(type) {
					case *ast.GenDecl:
						if g.Tok == token.VAR {
							for _, sp := range g.Specs {
								for _, nm := range sp.(*ast.ValueSpec).Names {
									c.globals[dir][nm.Name] = true
								}
							}
						}
					case *ast.FuncDecl:
						name := g.Name.Name
						if g.Recv != nil && len(g.Recv.List) == 1 {
							name = typeName(g.Recv.List[0].Type) + "." + name
						}
						lf := &lfunc{pkg: dir, name: name, decl: g, file: f}
						c.funcs[dir+"::"+name] = lf
						if g.Recv == nil {
							c.funcs[dir+"::"+g.Name.Name] = lf
						}
						c.byName[g.Name.Name] = append(c.byName[g.Name.Name], lf)
					}
				}
			}
		}
	}
	var keys []string
	seen := map[*lfunc]bool{}
	for k, f := range c.funcs {
		if !seen[f] && f.decl.Body != nil {
			seen[f] = true
			keys = append(keys, k)
		}
	}
	sort.Strings(keys)
	var sb strings.Builder
	sb.WriteString("(* GENERATED by gotrans (locktrace) from " + repo + " on every run. Do not edit, do not commit. *)\n")
	sb.WriteString("From Coq Require Import NArith List String.\nFrom SigM Require Import LockTrace.\nImport ListNotations.\nOpen Scope N_scope.\nOpen Scope string_scope.\n\n")
	type ent struct{ name, def string }
	// one definition per function and depth; depth 0 cuts every call
	var funcsList []*lfunc
	for _, k := range keys {
		f := c.funcs[k]
		if f.decl.Recv == nil && k != f.pkg+"::"+f.name {
			continue
		}
		funcsList = append(funcsList, f)
	}
	defs := map[string]string{}
	var order []string
	for d := 0; d <= spec.Depth; d++ {
		for _, f := range funcsList {
			n := c.defName(f, d)
			defs[n] = c.funcBody(f, d)
			order = append(order, n)
		}
	}
	// prune: a definition without events whose callees are all pruned is SSkip
	empty := map[string]bool{}
	refRe := regexp.MustCompile(`lk_[A-Za-z0-9_]+_[0-9]+`)
	for changed := true; changed; {
		changed = false
		for _, n := range order {
			if empty[n] {
				continue
			}
			body := refRe.ReplaceAllStringFunc(defs[n], func(r string) string {
				if empty[r] {
					return "SSkip"
				}
				return r
			})
			defs[n] = body
			if !strings.Contains(body, "SEv") && !refRe.MatchString(body) {
				empty[n] = true
				changed = true
			}
		}
	}
	var ents []ent
	for _, n := range order {
		if empty[n] {
			continue
		}
		sb.WriteString("Definition " + n + " : stm :=\n  " + defs[n] + ".\n\n")
	}
	for _, f := range funcsList {
		n := c.defName(f, spec.Depth)
		if !empty[n] {
			ents = append(ents, ent{c.baseName(f), n})
		}
	}
	sb.WriteString("(* object names *)\nDefinition lk_objects : list (N * string) :=\n  [")
	for i, n := range c.objList {
		if i > 0 {
			sb.WriteString(";\n   ")
		}
		sb.WriteString(fmt.Sprintf("(%d, \"%s\")", i, n))
	}
	sb.WriteString("].\n\n")
	sb.WriteString("Definition lk_all : list (string * stm) :=\n  [")
	for i, e := range ents {
		if i > 0 {
			sb.WriteString(";\n   ")
		}
		sb.WriteString("(\"" + e.name + "\", " + e.def + ")")
	}
	sb.WriteString("].\n\n")
	sb.WriteString(fmt.Sprintf("(* calls cut by the depth limit %d or by recursion: %d *)\nDefinition lk_cut_calls : N := %d.\n", spec.Depth, c.cut, c.cut))
	_ = os.MkdirAll(filepath.Dir(out), 0o755)
	if err := os.WriteFile(out, []byte(sb.String()), 0o644); err != nil {
		fail("%v", err)
	}
}

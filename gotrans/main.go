// gotrans: translates a whitelist of loop-free integer/boolean Go functions of /repo into
// Gallina definitions over Z (explicit wrap-around on every arithmetic node), on every run.
// The generated file coq/gen/Gen.v is never committed; theorems in coq/proofs/GenProofs.v
// relate each generated definition to the hand-written model that the property theorems use.
//
// Supported subset: parameters/results of integer or bool type (struct receivers/pointers are
// flattened: r.start -> r_start), statements `if`/`else`, `return`, `:=`/`=` of locals,
// expressions + - * / %, comparisons, && || !, integer literals (incl. 1e18 style), conversions
// uint64(x)/int64(x)/uint32(x)/..., parentheses.  Anything else: the translation FAILS (exit 1),
// which the check reports as a broken tie between code and model.
package main

import (
	"encoding/json"
	"fmt"
	"go/ast"
	"go/parser"
	"go/token"
	"math/big"
	"os"
	"path/filepath"
	"strconv"
	"strings"
)

type target struct {
	File   string            `json:"file"`   // relative to the repo root
	Func   string            `json:"func"`   // function or method name
	Recv   string            `json:"recv"`   // receiver type name ("" for plain functions)
	Name   string            `json:"name"`   // Gallina name
	Fields map[string]string `json:"fields"` // "r.start" -> "uint64": struct fields used through a parameter/receiver
	Result string            `json:"result"` // Go type of the (first) result
	Consts []constSrc        `json:"consts"` // files whose iota const blocks may be referenced (as pkg.Name)
	IntParams map[string]string `json:"int_params"` // parameters of named integer types: name -> underlying go type
	// second translator (stateful.go)
	Mode       string         `json:"mode"`        // "" = loop-free pure function (first translator); "stateful"; "pure2" = pure function with loops/locals
	State      []fieldSpec    `json:"state"`       // receiver fields that are read and assigned, in tuple order
	Effects    map[string]int `json:"effects"`     // "c.bw.writeBits" -> event id
	DropResult bool           `json:"drop_result"` // do not translate the returned values (state and events only)
	IgnoreVars []string       `json:"ignore_vars"` // locals that only feed dropped results
	Fuel       int            `json:"fuel"`        // loop fuel (default 70)
	NamedTypes map[string]string `json:"named_types"` // named integer types -> underlying, e.g. "bit" -> "bool"
	Opaque     map[string]opaqueSpec `json:"opaque_calls"` // calls whose result is an extra parameter of the translation (a database read, ...)
	Slices     map[string]sliceSpec  `json:"slices"`       // slice-typed parameters: element fields that are read
	Results    []string       `json:"-"`
}

// a call such as databaseObj.GetAlertHistoryByAlertID(...) whose arguments are NOT translated: its first result becomes
// the parameter Bind of the generated function (for every value it may return), its error result is nil
type opaqueSpec struct {
	Bind   string      `json:"bind"`   // name of the Go variable the result is bound to = name of the parameter(s)
	Kind   string      `json:"kind"`   // "slice" (default; declared under slices), "struct" (fields below), "bool", or an integer type
	Fields []fieldSpec `json:"fields"` // kind struct: the integer/bool fields that are read
}

// a slice of structs of which only the listed integer fields are read: list Z (one field) or a list of tuples
type sliceSpec struct {
	Fields []fieldSpec `json:"fields"` // name = field name, type = go integer type
}

type constSrc struct {
	File string `json:"file"`
	Pkg  string `json:"pkg"` // qualifier used in the translated file, e.g. "sutils"
}

type env struct {
	types  map[string]string // variable -> go type
	fields map[string]string
	consts map[string]string // "pkg.Name" -> decimal value
	named  map[string]string // named types -> underlying
}

func (v *env) normType(t string) string {
	if u, ok := v.named[t]; ok {
		return u
	}
	if t == "byte" {
		return "uint8"
	}
	if t == "float64" {
		return "uint64" // a float64 is carried as its bit pattern (math.Float64bits is the identity)
	}
	return t
}

// values of simple iota const blocks: `Name T = iota` followed by bare names, or integer literals
func loadConsts(repo string, srcs []constSrc) map[string]string {
	out := map[string]string{}
	for _, c := range srcs {
		fset := token.NewFileSet()
		f, err := parser.ParseFile(fset, filepath.Join(repo, c.File), nil, 0)
		if err != nil {
			fail("%v", err)
		}
		for _, d := range f.Decls {
			g, ok := d.(*ast.GenDecl)
			if !ok || g.Tok != token.CONST {
				continue
			}
			usesIota := false
			for i, sp := range g.Specs {
				vs := sp.(*ast.ValueSpec)
				if len(vs.Values) == 1 {
					switch v := vs.Values[0].(type) {
					case *ast.Ident:
						usesIota = v.Name == "iota"
						if v.Name == "true" || v.Name == "false" {
							for _, n := range vs.Names {
								out[c.Pkg+"."+n.Name] = v.Name
							}
							continue
						}
					case *ast.BasicLit:
						usesIota = false
						if v.Kind == token.INT {
							for _, n := range vs.Names {
								out[c.Pkg+"."+n.Name] = v.Value
							}
						}
						continue
					default:
						usesIota = false
						continue
					}
				} else if len(vs.Values) > 1 {
					usesIota = false
					continue
				}
				if usesIota {
					for _, n := range vs.Names {
						out[c.Pkg+"."+n.Name] = fmt.Sprint(i)
					}
				}
			}
		}
	}
	return out
}

// inTarget: a failure while one target is being translated skips that target only (its definition is missing from the
// generated file, so exactly the proofs about it break); other failures end the run.
var inTarget bool

type targetFailure string

func fail(f string, a ...interface{}) {
	if inTarget {
		panic(targetFailure(fmt.Sprintf(f, a...)))
	}
	fmt.Fprintf(os.Stderr, "gotrans: "+f+"\n", a...)
	os.Exit(1)
}

var widths = map[string]string{
	"uint64": "wrap_u64", "uint32": "wrap_u32", "uint16": "wrap_u16", "uint8": "wrap_u8", "uint": "wrap_u64", "byte": "wrap_u8",
	"int64": "wrap_i64", "int32": "wrap_i32", "int16": "wrap_i16", "int8": "wrap_i8", "int": "wrap_i64",
}

func isInt(t string) bool { _, ok := widths[t]; return ok }
func signed(t string) bool { return strings.HasPrefix(t, "int") }

func typeName(e ast.Expr) string {
	switch t := e.(type) {
	case *ast.Ident:
		return t.Name
	case *ast.StarExpr:
		return typeName(t.X)
	case *ast.SelectorExpr:
		return t.Sel.Name
	}
	return "?"
}

// expression -> (gallina, go type); untyped constants have type ""
func (v *env) expr(e ast.Expr, want string) (string, string) {
	switch x := e.(type) {
	case *ast.ParenExpr:
		return v.expr(x.X, want)
	case *ast.Ident:
		if x.Name == "true" || x.Name == "false" {
			return x.Name, "bool"
		}
		t, ok := v.types[x.Name]
		if !ok {
			if cv, ok := v.consts["."+x.Name]; ok {
				if cv == "true" || cv == "false" {
					return cv, "bool"
				}
				return cv, ""
			}
			fail("unknown identifier %s", x.Name)
		}
		return x.Name, t
	case *ast.BasicLit:
		if x.Kind == token.INT || x.Kind == token.FLOAT {
			f, _, err := big.ParseFloat(x.Value, 0, 200, big.ToNearestEven)
			if err != nil {
				fail("literal %s", x.Value)
			}
			i, acc := f.Int(nil)
			if acc != big.Exact {
				fail("non-integral literal %s", x.Value)
			}
			s := i.String()
			if i.Sign() < 0 {
				s = "(" + s + ")"
			}
			return s, ""
		}
		if x.Kind == token.STRING {
			u, err := strconv.Unquote(x.Value)
			if err != nil {
				fail("string literal %s", x.Value)
			}
			var bs []string
			for i := 0; i < len(u); i++ {
				bs = append(bs, fmt.Sprint(u[i]))
			}
			return "[" + strings.Join(bs, "; ") + "]", "string"
		}
		fail("unsupported literal %s", x.Value)
	case *ast.SelectorExpr:
		key := typeNameOfSel(x)
		if cv, ok := v.consts[key]; ok {
			return cv, ""
		}
		t, ok := v.fields[key]
		if !ok {
			fail("field %s is not declared in the target spec", key)
		}
		return strings.ReplaceAll(key, ".", "_"), t
	case *ast.UnaryExpr:
		if x.Op == token.NOT {
			a, _ := v.expr(x.X, "bool")
			return "(negb " + a + ")", "bool"
		}
		if x.Op == token.SUB {
			a, t := v.expr(x.X, want)
			if t == "" {
				return "(- " + a + ")", ""
			}
			return "(" + widths[t] + " (- " + a + "))", t
		}
		fail("unsupported unary operator %s", x.Op)
	case *ast.CallExpr:
		if id, ok := x.Fun.(*ast.Ident); ok && isInt(v.normType(id.Name)) && len(x.Args) == 1 {
			tn := v.normType(id.Name)
			a, _ := v.expr(x.Args[0], "")
			return "(" + widths[tn] + " " + a + ")", tn
		}
		if selKey(x.Fun) == "math.Float64bits" && len(x.Args) == 1 {
			a, t := v.expr(x.Args[0], "uint64")
			if t != "uint64" {
				fail("math.Float64bits of a non-float")
			}
			return a, "uint64"
		}
		if k := selKey(x.Fun); (k == "strings.ContainsAny" || k == "strings.HasPrefix") && len(x.Args) == 2 {
			a, ta := v.expr(x.Args[0], "string")
			b, tb := v.expr(x.Args[1], "string")
			if ta != "string" || tb != "string" {
				fail("%s of non-strings", k)
			}
			if k == "strings.ContainsAny" {
				if _, lit := x.Args[1].(*ast.BasicLit); !lit {
					fail("strings.ContainsAny with a non-literal character set")
				}
				for _, c := range strings.Trim(b, "[]") {
					_ = c
				}
				return "(gostr_contains_any " + a + " " + b + ")", "bool"
			}
			return "(gostr_has_prefix " + a + " " + b + ")", "bool"
		}
		if id, ok := x.Fun.(*ast.Ident); ok && id.Name == "len" && len(x.Args) == 1 {
			if a, ok := x.Args[0].(*ast.Ident); ok && v.types[a.Name] == "string" {
				return "(Z.of_nat (length " + a.Name + "))", "int"
			}
			if a, ok := x.Args[0].(*ast.Ident); ok && strings.HasPrefix(v.types[a.Name], "slice:") {
				return "(Z.of_nat (length " + a.Name + "))", "int"
			}
			fail("len of something that is not a declared slice")
		}
		fname := selKey(x.Fun)
		if i := strings.LastIndex(fname, "."); i >= 0 {
			fname = fname[i+1:]
		}
		if fname != "" {
			if sg, ok := sigs[fname]; ok && !sg.stateful && !sg.effects {
				var args []string
				k := 0
				for i, a := range x.Args {
					if !sg.keep[i] {
						continue
					}
					ev, _ := v.expr(a, sg.ptypes[k])
					args = append(args, ev)
					k++
				}
				return "(" + sg.name + " " + strings.Join(args, " ") + ")", sg.results[0]
			}
		}
		fail("unsupported call %s", selKey(x.Fun))
	case *ast.BinaryExpr:
		switch x.Op {
		case token.LAND, token.LOR:
			a, _ := v.expr(x.X, "bool")
			b, _ := v.expr(x.Y, "bool")
			op := "&&"
			if x.Op == token.LOR {
				op = "||"
			}
			return "(" + a + " " + op + " " + b + ")", "bool"
		case token.LSS, token.LEQ, token.GTR, token.GEQ, token.EQL, token.NEQ:
			if id, ok := x.X.(*ast.Ident); ok && v.types[id.Name] == "error" && isNilIdent(x.Y) {
				// errors of effect calls are nil by assumption (see stateful.go)
				if x.Op == token.NEQ {
					return "false", "bool"
				}
				if x.Op == token.EQL {
					return "true", "bool"
				}
			}
			a, ta := v.expr(x.X, "")
			b, tb := v.expr(x.Y, "")
			if ta != "" && tb != "" && ta != tb {
				fail("comparison of %s with %s", ta, tb)
			}
			if ta == "string" || tb == "string" {
				if ta != tb {
					fail("comparison of %s with %s", ta, tb)
				}
				if x.Op == token.EQL {
					return "(gostr_eqb " + a + " " + b + ")", "bool"
				}
				if x.Op == token.NEQ {
					return "(negb (gostr_eqb " + a + " " + b + "))", "bool"
				}
				fail("ordering on strings")
			}
			if ta == "bool" || tb == "bool" {
				if x.Op == token.EQL {
					return "(Bool.eqb " + a + " " + b + ")", "bool"
				}
				if x.Op == token.NEQ {
					return "(negb (Bool.eqb " + a + " " + b + "))", "bool"
				}
				fail("ordering on bool")
			}
			switch x.Op {
			case token.LSS:
				return "(" + a + " <? " + b + ")", "bool"
			case token.LEQ:
				return "(" + a + " <=? " + b + ")", "bool"
			case token.GTR:
				return "(" + b + " <? " + a + ")", "bool"
			case token.GEQ:
				return "(" + b + " <=? " + a + ")", "bool"
			case token.EQL:
				return "(" + a + " =? " + b + ")", "bool"
			default:
				return "(negb (" + a + " =? " + b + "))", "bool"
			}
		case token.SHL, token.SHR:
			a, ta := v.expr(x.X, want)
			b, tb := v.expr(x.Y, "")
			if tb != "" && signed(tb) {
				fail("signed shift count")
			}
			if ta == "" && tb != "" { // untyped constant shifted by a variable: takes the type of the context
				ta = want
				if ta == "" || !isInt(ta) {
					fail("shift of an untyped constant by a variable without a context type")
				}
			}
			op := "Z.shiftl"
			if x.Op == token.SHR {
				op = "Z.shiftr"
			}
			if ta == "" {
				return "(" + op + " " + a + " " + b + ")", ""
			}
			return "(" + widths[ta] + " (" + op + " " + a + " " + b + "))", ta
		case token.AND, token.OR, token.XOR, token.AND_NOT:
			a, ta := v.expr(x.X, want)
			b, tb := v.expr(x.Y, want)
			if ta == "bool" || tb == "bool" {
				fail("bit operation on bool")
			}
			t := ta
			if t == "" {
				t = tb
			}
			if ta != "" && tb != "" && ta != tb {
				fail("bit operation on %s and %s", ta, tb)
			}
			var op string
			switch x.Op {
			case token.AND:
				op = "Z.land " + a + " " + b
			case token.OR:
				op = "Z.lor " + a + " " + b
			case token.XOR:
				op = "Z.lxor " + a + " " + b
			default:
				op = "Z.ldiff " + a + " " + b
			}
			if t == "" {
				return "(" + op + ")", ""
			}
			return "(" + widths[t] + " (" + op + "))", t
		case token.ADD, token.SUB, token.MUL, token.QUO, token.REM:
			var a, ta, b, tb string
			switch { // e.g. 1<<n + i : the constant shift takes the type of i
			case isUntypedShift(x.X) && !isUntypedShift(x.Y):
				b, tb = v.expr(x.Y, want)
				a, ta = v.expr(x.X, tb)
			case isUntypedShift(x.Y):
				a, ta = v.expr(x.X, want)
				b, tb = v.expr(x.Y, ta)
			default:
				a, ta = v.expr(x.X, want)
				b, tb = v.expr(x.Y, want)
			}
			t := ta
			if t == "" {
				t = tb
			}
			if ta != "" && tb != "" && ta != tb {
				fail("arithmetic on %s and %s", ta, tb)
			}
			var op string
			switch x.Op {
			case token.ADD:
				op = a + " + " + b
			case token.SUB:
				op = a + " - " + b
			case token.MUL:
				op = a + " * " + b
			case token.QUO:
				if t != "" && signed(t) {
					op = "Z.quot " + a + " " + b
				} else {
					op = a + " / " + b
				}
			case token.REM:
				if t != "" && signed(t) {
					op = "Z.rem " + a + " " + b
				} else {
					op = a + " mod " + b
				}
			}
			if t == "" {
				return "(" + op + ")", ""
			}
			return "(" + widths[t] + " (" + op + "))", t
		}
		fail("unsupported binary operator %s", x.Op)
	}
	fail("unsupported expression %T", e)
	return "", ""
}

func isUntypedShift(e ast.Expr) bool {
	for {
		p, ok := e.(*ast.ParenExpr)
		if !ok {
			break
		}
		e = p.X
	}
	b, ok := e.(*ast.BinaryExpr)
	if !ok || (b.Op != token.SHL && b.Op != token.SHR) {
		return false
	}
	_, lit := b.X.(*ast.BasicLit)
	_, litY := b.Y.(*ast.BasicLit)
	return lit && !litY
}

func typeNameOfSel(x *ast.SelectorExpr) string {
	switch b := x.X.(type) {
	case *ast.Ident:
		return b.Name + "." + x.Sel.Name
	case *ast.SelectorExpr:
		return typeNameOfSel(b) + "." + x.Sel.Name
	}
	fail("unsupported selector")
	return ""
}

// statement list -> expression
func (v *env) stmts(l []ast.Stmt, result string) string {
	if len(l) == 0 {
		fail("control reaches the end of the function without return")
	}
	switch s := l[0].(type) {
	case *ast.ReturnStmt:
		if len(s.Results) == 0 {
			fail("bare return")
		}
		e, t := v.expr(s.Results[0], result)
		_ = t
		return e
	case *ast.IfStmt:
		if s.Init != nil {
			fail("if with init statement")
		}
		c, _ := v.expr(s.Cond, "bool")
		thenB := v.stmts(append(append([]ast.Stmt{}, s.Body.List...), l[1:]...), result)
		var elseB string
		switch e := s.Else.(type) {
		case nil:
			elseB = v.stmts(l[1:], result)
		case *ast.BlockStmt:
			elseB = v.stmts(append(append([]ast.Stmt{}, e.List...), l[1:]...), result)
		case *ast.IfStmt:
			elseB = v.stmts(append([]ast.Stmt{e}, l[1:]...), result)
		}
		return "(if " + c + "\n   then " + thenB + "\n   else " + elseB + ")"
	case *ast.AssignStmt:
		if len(s.Lhs) != 1 || len(s.Rhs) != 1 {
			fail("multi-assignment")
		}
		id, ok := s.Lhs[0].(*ast.Ident)
		if !ok {
			fail("assignment to a non-local")
		}
		e, t := v.expr(s.Rhs[0], v.types[id.Name])
		if t == "" {
			t = "int"
		}
		v.types[id.Name] = t
		return "(let " + id.Name + " := " + e + " in\n   " + v.stmts(l[1:], result) + ")"
	case *ast.BlockStmt:
		return v.stmts(append(append([]ast.Stmt{}, s.List...), l[1:]...), result)
	case *ast.SwitchStmt:
		if s.Init != nil || s.Tag == nil {
			fail("unsupported switch form")
		}
		tag, _ := v.expr(s.Tag, "")
		var def []ast.Stmt
		hasDef := false
		type arm struct {
			cond string
			body []ast.Stmt
		}
		var arms []arm
		for _, c := range s.Body.List {
			cc := c.(*ast.CaseClause)
			for _, st := range cc.Body {
				if b, ok := st.(*ast.BranchStmt); ok && b.Tok == token.FALLTHROUGH {
					fail("fallthrough")
				}
			}
			if cc.List == nil {
				def, hasDef = cc.Body, true
				continue
			}
			var cs []string
			for _, e := range cc.List {
				ev, _ := v.expr(e, "")
				cs = append(cs, "("+tag+" =? "+ev+")")
			}
			arms = append(arms, arm{strings.Join(cs, " || "), cc.Body})
		}
		var tail string
		if hasDef {
			tail = v.stmts(append(append([]ast.Stmt{}, def...), l[1:]...), result)
		} else {
			tail = v.stmts(l[1:], result)
		}
		for i := len(arms) - 1; i >= 0; i-- {
			body := v.stmts(append(append([]ast.Stmt{}, arms[i].body...), l[1:]...), result)
			tail = "(if " + arms[i].cond + "\n   then " + body + "\n   else " + tail + ")"
		}
		return tail
	}
	fail("unsupported statement %T", l[0])
	return ""
}

func main() {
	if len(os.Args) == 5 && os.Args[1] == "locktrace" {
		var spec lockSpec
		b, err := os.ReadFile(os.Args[3])
		if err != nil {
			fail("%v", err)
		}
		if err := json.Unmarshal(b, &spec); err != nil {
			fail("%v", err)
		}
		runLockTrace(os.Args[2], spec, os.Args[4])
		return
	}
	if len(os.Args) < 4 {
		fail("usage: gotrans <repo> <targets.json> <out.v>")
	}
	repo, tf, out := os.Args[1], os.Args[2], os.Args[3]
	var ts []target
	b, err := os.ReadFile(tf)
	if err != nil {
		fail("%v", err)
	}
	if err := json.Unmarshal(b, &ts); err != nil {
		fail("%v", err)
	}
	var sb strings.Builder
	sb.WriteString("(* GENERATED by gotrans from " + repo + " on every run. Do not edit, do not commit. *)\n")
	sb.WriteString("From Coq Require Import ZArith Bool List.\nImport ListNotations.\nOpen Scope Z_scope.\n\n")
	sb.WriteString("Definition wrap_u (k : Z) (z : Z) : Z := z mod 2 ^ k.\n")
	sb.WriteString("Definition wrap_s (k : Z) (z : Z) : Z := (z + 2 ^ (k - 1)) mod 2 ^ k - 2 ^ (k - 1).\n")
	for _, w := range []string{"8", "16", "32", "64"} {
		sb.WriteString("Definition wrap_u" + w + " := wrap_u " + w + ".\nDefinition wrap_i" + w + " := wrap_s " + w + ".\n")
	}
	sb.WriteString("\n(* Go strings are byte sequences: list Z of byte values *)\n")
	sb.WriteString("Fixpoint gostr_eqb (a b : list Z) : bool :=\n  match a, b with\n  | nil, nil => true\n  | x :: a', y :: b' => (x =? y) && gostr_eqb a' b'\n  | _, _ => false\n  end.\n")
	sb.WriteString("(* strings.ContainsAny for a set of ASCII characters (a multi-byte rune never contains an ASCII byte) *)\n")
	sb.WriteString("Definition gostr_contains_any (s chars : list Z) : bool := existsb (fun c => existsb (Z.eqb c) chars) s.\n")
	sb.WriteString("Fixpoint gostr_has_prefix (s p : list Z) : bool :=\n  match p, s with\n  | nil, _ => true\n  | y :: p', x :: s' => (x =? y) && gostr_has_prefix s' p'\n  | _, nil => false\n  end.\n")
	sb.WriteString("\n")
	for _, t := range ts {
		sb.WriteString(translateTarget(repo, t))
	}
	_ = os.MkdirAll(filepath.Dir(out), 0o755)
	if err := os.WriteFile(out, []byte(sb.String()), 0o644); err != nil {
		fail("%v", err)
	}
}

// one target; a failure is reported on stderr and leaves a comment instead of the definition
func translateTarget(repo string, t target) (res string) {
	inTarget = true
	defer func() {
		inTarget = false
		if r := recover(); r != nil {
			tf, ok := r.(targetFailure)
			if !ok {
				panic(r)
			}
			fmt.Fprintf(os.Stderr, "gotrans: target %s not translated: %s\n", t.Name, string(tf))
			res = fmt.Sprintf("(* gotrans: target %s (%s: %s) NOT TRANSLATED from the current source: %s *)\n\n", t.Name, t.File, t.Func, strings.ReplaceAll(string(tf), "*)", "* )"))
		}
	}()
	var sb strings.Builder
	{
		fset := token.NewFileSet()
		f, err := parser.ParseFile(fset, filepath.Join(repo, t.File), nil, 0)
		if err != nil {
			fail("%v", err)
		}
		var fd *ast.FuncDecl
		for _, d := range f.Decls {
			if g, ok := d.(*ast.FuncDecl); ok && g.Name.Name == t.Func {
				recv := ""
				if g.Recv != nil && len(g.Recv.List) == 1 {
					recv = typeName(g.Recv.List[0].Type)
				}
				if recv == t.Recv {
					fd = g
				}
			}
		}
		if fd == nil {
			fail("function %s (receiver %q) not found in %s", t.Func, t.Recv, t.File)
		}
		v := &env{types: map[string]string{}, fields: t.Fields, consts: loadConsts(repo, t.Consts), named: t.NamedTypes}
		if v.fields == nil {
			v.fields = map[string]string{}
		}
		if t.Mode == "stateful" || t.Mode == "pure2" {
			tt := t
			sb.WriteString(translateStateful(&tt, fd, v))
			return sb.String()
		}
		var params []string
		seen := map[string]bool{}
		addParam := func(name, typ string) {
			if u, ok := t.IntParams[name]; ok {
				typ = u
			}
			if isInt(typ) || typ == "bool" {
				v.types[name] = typ
				params = append(params, name)
				return
			}
			// struct-typed parameter/receiver: its declared fields become parameters (sorted by spec order below)
			for k := range t.Fields {
				if strings.HasPrefix(k, name+".") && !seen[k] {
					seen[k] = true
				}
			}
		}
		if fd.Recv != nil {
			for _, r := range fd.Recv.List {
				for _, n := range r.Names {
					addParam(n.Name, typeName(r.Type))
				}
			}
		}
		for _, p := range fd.Type.Params.List {
			for _, n := range p.Names {
				addParam(n.Name, typeName(p.Type))
			}
		}
		// field parameters in a stable (sorted) order, before the scalar parameters
		var fieldParams []string
		for k := range t.Fields {
			fieldParams = append(fieldParams, k)
		}
		sortStrings(fieldParams)
		var all []string
		for _, k := range fieldParams {
			all = append(all, strings.ReplaceAll(k, ".", "_"))
		}
		all = append(all, params...)
		body := v.stmts(fd.Body.List, t.Result)
		rt := "Z"
		if t.Result == "bool" {
			rt = "bool"
		}
		var ps []string
		for _, a := range all {
			ty := "Z"
			if v.types[a] == "bool" {
				ty = "bool"
			}
			ps = append(ps, "("+a+" : "+ty+")")
		}
		sb.WriteString(fmt.Sprintf("(* %s: %s%s *)\nDefinition %s %s : %s :=\n  %s.\n\n", t.File, map[bool]string{true: "(" + t.Recv + ") ", false: ""}[t.Recv != ""], t.Func, t.Name, strings.Join(ps, " "), rt, body))
	}
	return sb.String()
}

func sortStrings(a []string) {
	for i := 1; i < len(a); i++ {
		for j := i; j > 0 && a[j] < a[j-1]; j-- {
			a[j], a[j-1] = a[j-1], a[j]
		}
	}
}

// gotrans, second translator ("stateful" mode): imperative Go methods that update integer fields of
// their receiver and talk to the outside only through a declared set of effect calls.
//
// A target in this mode becomes
//
//	Definition gen_f (st : S) (params : Z ...) : R * S * list (Z * list Z)
//
// where S is the tuple of the declared receiver fields (in declared order), R the tuple of the
// non-error results (unit when none / dropped) and the list holds the effect calls made, in order,
// as (effect id, arguments).  Assignments become `let` bindings that shadow the previous value,
// control flow is translated in continuation-passing style (an `if` without `return` duplicates the
// rest of the block into both arms), `for` loops become a local `fix` over explicit fuel carrying the
// variables assigned in the loop.  Effect calls are assumed not to fail: `if err := EFFECT; err != nil
// { ... }` emits the effect and drops the error branch (this assumption is part of the trusted base
// and is listed in the registration of every property that uses such a target).
//
// Everything outside the subset makes the translation FAIL, which the check reports as a broken tie.
package main

import (
	"fmt"
	"go/ast"
	"go/token"
	"strings"
)

type fieldSpec struct {
	Name string `json:"name"` // "c.t"
	Type string `json:"type"` // go integer type or "bool"
}

type sig struct {
	name     string   // Gallina name
	stateful bool     // takes and returns the state tuple
	effects  bool     // returns an event list
	keep     []bool   // which Go parameters are passed (integer/bool ones)
	ptypes   []string // go types of kept parameters
	results  []string // go types of the results ("error" included)
	dropRes  bool
	recv     string // receiver type name
	nstate   int
	fieldParams []string // struct fields passed as leading parameters (callers must pass the same selectors)
}

var sigs = map[string]*sig{} // Go function/method name -> signature of its translation

type sctx struct {
	v      *env
	t      *target
	state  []fieldSpec
	ignore map[string]bool
	fuel   int
	nfix   int
	rtype  string            // Gallina type of the value the translated function returns
	extra  []string          // parameters introduced by opaque calls
	loops  []loopK           // enclosing loops translated in continuation form (innermost last)
}

type loopK struct {
	brk, cont func() string
}

func gname(s string) string { return strings.ReplaceAll(s, ".", "_") }

func (c *sctx) stateTuple() string {
	if len(c.state) == 0 {
		return "tt"
	}
	var n []string
	for _, f := range c.state {
		n = append(n, gname(f.Name))
	}
	return "(" + strings.Join(n, ", ") + ")"
}

func stateType(n int) string {
	if n == 0 {
		return "unit"
	}
	return "(" + strings.TrimSuffix(strings.Repeat("Z * ", n), " * ") + ")"
}

func (c *sctx) isState(key string) (string, bool) {
	for _, f := range c.state {
		if f.Name == key {
			return f.Type, true
		}
	}
	return "", false
}

func selKey(e ast.Expr) string {
	switch x := e.(type) {
	case *ast.Ident:
		return x.Name
	case *ast.SelectorExpr:
		k := selKey(x.X)
		if k == "" {
			return ""
		}
		return k + "." + x.Sel.Name
	}
	return ""
}

// effect call?  returns (event expression, true)
func (c *sctx) effectCall(e ast.Expr) (string, bool) {
	call, ok := e.(*ast.CallExpr)
	if !ok {
		return "", false
	}
	key := selKey(call.Fun)
	id, ok := c.t.Effects[key]
	if !ok {
		return "", false
	}
	var args []string
	for _, a := range call.Args {
		if cl, ok := a.(*ast.CompositeLit); ok && len(cl.Elts) == 1 { // []byte{x}: the one byte
			a = cl.Elts[0]
		}
		s, t := c.v.expr(a, "")
		if t == "bool" {
			s = "(if " + s + " then 1 else 0)"
		}
		args = append(args, s)
	}
	return fmt.Sprintf("(%d, [%s])", id, strings.Join(args, "; ")), true
}

// is e a call of another translated function that has state and/or effects?  (arguments are not looked at)
func (c *sctx) transSig(e ast.Expr) (*sig, bool) {
	call, ok := e.(*ast.CallExpr)
	if !ok {
		return nil, false
	}
	key := selKey(call.Fun)
	name := key
	if i := strings.LastIndex(key, "."); i >= 0 {
		name = key[i+1:]
	}
	s, ok := sigs[name]
	if !ok || (!s.stateful && !s.effects) {
		return nil, false
	}
	return s, true
}

// call of another translated function that has state and/or effects
func (c *sctx) transCall(e ast.Expr) (*sig, []string, bool) {
	call, ok := e.(*ast.CallExpr)
	if !ok {
		return nil, nil, false
	}
	key := selKey(call.Fun)
	name := key
	if i := strings.LastIndex(key, "."); i >= 0 {
		name = key[i+1:]
	}
	s, ok := sigs[name]
	if !ok || (!s.stateful && !s.effects) {
		return nil, nil, false
	}
	if len(call.Args) != len(s.keep) {
		fail("call of %s: argument count", name)
	}
	var args []string
	k := 0
	for i, a := range call.Args {
		if !s.keep[i] {
			continue
		}
		ev, _ := c.v.expr(a, s.ptypes[k])
		args = append(args, ev)
		k++
	}
	return s, args, true
}

// binds the outcome of a translated call: `let '(r, st, ev2) := call in` + state rebinding + event append
func (c *sctx) bindCall(s *sig, args []string, resNames []string) string {
	callee := s.name
	if s.stateful {
		if s.nstate != len(c.state) {
			fail("call of %s: different state layout", s.name)
		}
		callee += " " + c.stateTuple()
	}
	if len(args) > 0 {
		callee += " " + strings.Join(args, " ")
	}
	var rpat string
	nres := 0
	for _, r := range s.results {
		if r != "error" {
			nres++
		}
	}
	switch {
	case s.dropRes || nres == 0:
		rpat = "_"
	case nres == 1:
		rpat = resNames[0]
	default:
		rpat = "(" + strings.Join(resNames, ", ") + ")"
	}
	st := "_"
	if s.stateful && len(c.state) > 0 {
		st = c.stateTuple()
	}
	return "let '(" + rpat + ", " + st + ", ev2_) := " + callee + " in\n   let ev_ := ev_ ++ ev2_ in\n   "
}

func (c *sctx) retExpr(vals []string) string {
	if c.t.Mode == "pure2" {
		if len(vals) != 1 {
			fail("pure function %s must return one value", c.t.Func)
		}
		return vals[0]
	}
	r := "tt"
	if !c.t.DropResult {
		switch len(vals) {
		case 0:
		case 1:
			r = vals[0]
		default:
			r = "(" + strings.Join(vals, ", ") + ")"
		}
	}
	return "(" + r + ", " + c.stateTuple() + ", ev_)"
}

func isNilIdent(e ast.Expr) bool {
	id, ok := e.(*ast.Ident)
	return ok && id.Name == "nil"
}

// variables assigned anywhere in the statements (locals and state fields), in first-seen order
func assigned(l []ast.Stmt, seen map[string]bool, out *[]string) {
	add := func(e ast.Expr) {
		k := selKey(e)
		if k != "" && !seen[k] {
			seen[k] = true
			*out = append(*out, k)
		}
	}
	for _, s := range l {
		switch x := s.(type) {
		case *ast.AssignStmt:
			for _, e := range x.Lhs {
				add(e)
			}
		case *ast.IncDecStmt:
			add(x.X)
		case *ast.IfStmt:
			assigned(x.Body.List, seen, out)
			if x.Else != nil {
				assigned([]ast.Stmt{x.Else}, seen, out)
			}
		case *ast.BlockStmt:
			assigned(x.List, seen, out)
		case *ast.ForStmt:
			if x.Init != nil {
				assigned([]ast.Stmt{x.Init}, seen, out)
			}
			if x.Post != nil {
				assigned([]ast.Stmt{x.Post}, seen, out)
			}
			assigned(x.Body.List, seen, out)
		}
	}
}

func (c *sctx) setVar(lhs ast.Expr, val string, typ string, define bool) string {
	key := selKey(lhs)
	if key == "" {
		fail("unsupported assignment target")
	}
	if st, ok := c.isState(key); ok {
		_ = st
		return "let " + gname(key) + " := " + val + " in\n   "
	}
	if strings.Contains(key, ".") {
		fail("assignment to %s, which is not a declared state field", key)
	}
	if key == "_" {
		return ""
	}
	if define || c.v.types[key] == "" {
		if typ == "" {
			typ = "int"
		}
		c.v.types[key] = typ
	}
	return "let " + key + " := " + val + " in\n   "
}

func (c *sctx) lhsType(lhs ast.Expr) string {
	key := selKey(lhs)
	if st, ok := c.isState(key); ok {
		return st
	}
	return c.v.types[key]
}

var assignOps = map[token.Token]token.Token{
	token.ADD_ASSIGN: token.ADD, token.SUB_ASSIGN: token.SUB, token.MUL_ASSIGN: token.MUL, token.QUO_ASSIGN: token.QUO,
	token.REM_ASSIGN: token.REM, token.AND_ASSIGN: token.AND, token.OR_ASSIGN: token.OR, token.XOR_ASSIGN: token.XOR,
	token.SHL_ASSIGN: token.SHL, token.SHR_ASSIGN: token.SHR, token.AND_NOT_ASSIGN: token.AND_NOT,
}

func cloneTypes(m map[string]string) map[string]string {
	o := map[string]string{}
	for k, v := range m {
		o[k] = v
	}
	return o
}

// statements l, then continuation k (called when control reaches the end of l)
func (c *sctx) block(l []ast.Stmt, k func() string) string {
	if len(l) == 0 {
		return k()
	}
	rest := func() string { return c.block(l[1:], k) }
	branch := func(body []ast.Stmt) string { // translate body followed by the rest, with a private copy of the typing
		saved := c.v.types
		c.v.types = cloneTypes(saved)
		out := c.block(body, rest)
		c.v.types = saved
		return out
	}
	switch s := l[0].(type) {
	case *ast.ReturnStmt:
		var vals []string
		pre := ""
		ri := 0
		for _, r := range s.Results {
			if isNilIdent(r) {
				continue
			}
			if id, ok := r.(*ast.Ident); ok && c.v.types[id.Name] == "error" {
				continue // an error that is nil by assumption
			}
			if ev, ok := c.effectCall(r); ok {
				pre += "let ev_ := ev_ ++ [" + ev + "] in\n   "
				continue
			}
			if sg, args, ok := c.transCall(r); ok {
				if len(s.Results) != 1 {
					fail("return of a translated call together with other values")
				}
				var names []string
				for i, rt := range sg.results {
					if rt != "error" {
						names = append(names, fmt.Sprintf("r%d_", i))
					}
				}
				pre += c.bindCall(sg, args, names)
				if !sg.dropRes {
					vals = append(vals, names...)
				}
				continue
			}
			if c.t.DropResult {
				ri++
				continue
			}
			want := ""
			if ri < len(c.t.Results) {
				want = c.t.Results[ri]
			}
			ev, _ := c.v.expr(r, want)
			vals = append(vals, ev)
			ri++
		}
		return "(" + pre + c.retExpr(vals) + ")"
	case *ast.BranchStmt:
		if len(c.loops) == 0 || s.Label != nil {
			fail("%s outside a translated loop", s.Tok)
		}
		lk := c.loops[len(c.loops)-1]
		if s.Tok == token.BREAK {
			return lk.brk()
		}
		if s.Tok == token.CONTINUE {
			return lk.cont()
		}
		fail("unsupported branch statement %s", s.Tok)
	case *ast.DeclStmt:
		g, ok := s.Decl.(*ast.GenDecl)
		if !ok || g.Tok != token.VAR {
			fail("unsupported declaration")
		}
		out := ""
		for _, sp := range g.Specs {
			vs := sp.(*ast.ValueSpec)
			for i, n := range vs.Names {
				if c.ignore[n.Name] {
					continue
				}
				typ := ""
				if vs.Type != nil {
					typ = c.v.normType(typeName(vs.Type))
				}
				val := "0"
				if typ == "bool" {
					val = "false"
				}
				if i < len(vs.Values) {
					var t2 string
					val, t2 = c.v.expr(vs.Values[i], typ)
					if typ == "" {
						typ = t2
					}
				}
				if typ == "error" {
					c.v.types[n.Name] = "error"
					continue
				}
				if !isInt(typ) && typ != "bool" {
					fail("variable %s of unsupported type %q", n.Name, typ)
				}
				out += c.setVar(n, val, typ, true)
			}
		}
		return "(" + out + rest() + ")"
	case *ast.IncDecStmt:
		t := c.lhsType(s.X)
		cur, _ := c.v.expr(s.X, t)
		op := " + 1"
		if s.Tok == token.DEC {
			op = " - 1"
		}
		return "(" + c.setVar(s.X, "("+widths[t]+" ("+cur+op+"))", t, false) + rest() + ")"
	case *ast.ExprStmt:
		if ev, ok := c.effectCall(s.X); ok {
			return "(let ev_ := ev_ ++ [" + ev + "] in\n   " + rest() + ")"
		}
		if sg, args, ok := c.transCall(s.X); ok {
			var names []string
			for range sg.results {
				names = append(names, "_")
			}
			return "(" + c.bindCall(sg, args, names) + rest() + ")"
		}
		if call, ok := s.X.(*ast.CallExpr); ok && strings.HasPrefix(selKey(call.Fun), "log.") {
			return rest() // logging has no effect on the translated state
		}
		fail("unsupported expression statement")
	case *ast.AssignStmt:
		if op, ok := assignOps[s.Tok]; ok {
			if len(s.Lhs) != 1 {
				fail("compound assignment with several targets")
			}
			if id, ok := s.Lhs[0].(*ast.Ident); ok && c.ignore[id.Name] {
				return rest()
			}
			t := c.lhsType(s.Lhs[0])
			val, _ := c.v.expr(&ast.BinaryExpr{X: s.Lhs[0], Op: op, Y: s.Rhs[0]}, t)
			return "(" + c.setVar(s.Lhs[0], val, t, false) + rest() + ")"
		}
		define := s.Tok == token.DEFINE
		if len(s.Rhs) == 1 {
			if call, ok := s.Rhs[0].(*ast.CallExpr); ok {
				if op, ok := c.t.Opaque[selKey(call.Fun)]; ok {
					// the value read from outside is a parameter of the translation; a second result is a nil error
					id0, ok0 := s.Lhs[0].(*ast.Ident)
					if !ok0 {
						fail("opaque call bound to a non-identifier")
					}
					switch {
					case op.Kind == "" || op.Kind == "slice":
						if _, ok := c.t.Slices[op.Bind]; !ok {
							fail("opaque call %s: parameter %s is not declared under slices", selKey(call.Fun), op.Bind)
						}
						c.v.types[id0.Name] = "slice:" + op.Bind
					case op.Kind == "struct":
						if id0.Name != op.Bind {
							fail("opaque call %s must be bound to %s", selKey(call.Fun), op.Bind)
						}
						for _, f := range op.Fields {
							c.v.fields[op.Bind+"."+f.Name] = c.v.normType(f.Type)
						}
					default:
						if id0.Name != op.Bind {
							fail("opaque call %s must be bound to %s", selKey(call.Fun), op.Bind)
						}
						c.v.types[id0.Name] = c.v.normType(op.Kind)
					}
					for _, lh := range s.Lhs[1:] {
						if id, ok := lh.(*ast.Ident); ok && id.Name != "_" {
							c.v.types[id.Name] = "error"
						}
					}
					pre := ""
					if id0.Name != op.Bind {
						pre = "let " + id0.Name + " := " + op.Bind + " in\n   "
					}
					if !define && (op.Kind != "" && op.Kind != "slice") {
						fail("opaque call %s must be bound with :=", selKey(call.Fun))
					}
					return "(" + pre + rest() + ")"
				}
			}
		}
		// x, err := translatedCall(...)   /   err := effect(...)
		if len(s.Rhs) == 1 {
			if ev, ok := c.effectCall(s.Rhs[0]); ok {
				for _, lh := range s.Lhs {
					if id, ok := lh.(*ast.Ident); ok && id.Name != "_" {
						c.v.types[id.Name] = "error"
					}
				}
				return "(let ev_ := ev_ ++ [" + ev + "] in\n   " + rest() + ")"
			}
			if sg, args, ok := c.transCall(s.Rhs[0]); ok {
				if len(s.Lhs) != len(sg.results) {
					fail("call result count")
				}
				var names []string
				post := ""
				for i, rt := range sg.results {
					id, isId := s.Lhs[i].(*ast.Ident)
					if rt == "error" {
						if isId && id.Name != "_" {
							c.v.types[id.Name] = "error"
						}
						continue
					}
					if sg.dropRes {
						if isId && id.Name != "_" && !c.ignore[id.Name] {
							fail("result of %s is not translated but is bound to %s", sg.name, id.Name)
						}
						continue
					}
					tmp := fmt.Sprintf("r%d_", i)
					names = append(names, tmp)
					if !(isId && (id.Name == "_" || c.ignore[id.Name])) {
						post += c.setVar(s.Lhs[i], tmp, rt, define)
					}
				}
				return "(" + c.bindCall(sg, args, names) + post + rest() + ")"
			}
		}
		if len(s.Lhs) != len(s.Rhs) {
			fail("unsupported multi-assignment")
		}
		// all right-hand sides are evaluated before any assignment
		var vals, typs []string
		for i := range s.Lhs {
			if id, ok := s.Lhs[i].(*ast.Ident); ok && c.ignore[id.Name] {
				vals, typs = append(vals, ""), append(typs, "")
				continue
			}
			want := ""
			if !define {
				want = c.lhsType(s.Lhs[i])
			}
			ev, t := c.v.expr(s.Rhs[i], want)
			if !define && want != "" {
				if t != "" && t != want {
					fail("assignment of %s to %s", t, want)
				}
				t = want
			}
			vals, typs = append(vals, ev), append(typs, t)
		}
		out := ""
		if len(s.Lhs) == 1 {
			if vals[0] != "" {
				out = c.setVar(s.Lhs[0], vals[0], typs[0], define)
			}
		} else {
			for i := range vals {
				if vals[i] != "" {
					out += fmt.Sprintf("let tmp%d_ := %s in\n   ", i, vals[i])
				}
			}
			for i := range vals {
				if vals[i] != "" {
					out += c.setVar(s.Lhs[i], fmt.Sprintf("tmp%d_", i), typs[i], define)
				}
			}
		}
		return "(" + out + rest() + ")"
	case *ast.BlockStmt:
		return c.block(append(append([]ast.Stmt{}, s.List...), l[1:]...), k)
	case *ast.IfStmt:
		pre := ""
		if s.Init != nil {
			as, ok := s.Init.(*ast.AssignStmt)
			if !ok || len(as.Rhs) != 1 || as.Tok != token.DEFINE {
				fail("unsupported if-initialiser")
			}
			if ev, ok := c.effectCall(as.Rhs[0]); ok {
				pre = "let ev_ := ev_ ++ [" + ev + "] in\n   "
				for _, lh := range as.Lhs {
					c.v.types[lh.(*ast.Ident).Name] = "error"
				}
			} else if sg, args, ok := c.transCall(as.Rhs[0]); ok && len(sg.results) == 1 && sg.results[0] == "error" {
				pre = c.bindCall(sg, args, nil)
				c.v.types[as.Lhs[0].(*ast.Ident).Name] = "error"
			} else {
				fail("if-initialiser that is neither an effect nor a translated call returning only an error")
			}
		}
		cond, _ := c.v.expr(s.Cond, "bool")
		var elseB func() string
		switch e := s.Else.(type) {
		case nil:
			elseB = rest
		case *ast.BlockStmt:
			elseB = func() string { return branch(e.List) }
		case *ast.IfStmt:
			elseB = func() string { return branch([]ast.Stmt{e}) }
		}
		if cond == "false" { // statically dead branch (error of an effect that cannot fail)
			return "(" + pre + elseB() + ")"
		}
		if cond == "true" {
			return "(" + pre + branch(s.Body.List) + ")"
		}
		return "(" + pre + "if " + cond + "\n   then " + branch(s.Body.List) + "\n   else " + elseB() + ")"
	case *ast.SwitchStmt:
		if s.Init != nil {
			fail("switch with initialiser")
		}
		tag := ""
		if s.Tag != nil {
			tag, _ = c.v.expr(s.Tag, "")
		}
		type arm struct {
			cond string
			body []ast.Stmt
		}
		var arms []arm
		var def []ast.Stmt
		for _, cl := range s.Body.List {
			cc := cl.(*ast.CaseClause)
			for _, st := range cc.Body {
				if b, ok := st.(*ast.BranchStmt); ok {
					fail("%s inside switch", b.Tok)
				}
			}
			if cc.List == nil {
				def = cc.Body
				continue
			}
			var cs []string
			for _, e := range cc.List {
				if tag == "" {
					ev, _ := c.v.expr(e, "bool")
					cs = append(cs, ev)
				} else {
					ev, _ := c.v.expr(e, "")
					cs = append(cs, "("+tag+" =? "+ev+")")
				}
			}
			arms = append(arms, arm{strings.Join(cs, " || "), cc.Body})
		}
		out := branch(def)
		for i := len(arms) - 1; i >= 0; i-- {
			out = "(if " + arms[i].cond + "\n   then " + branch(arms[i].body) + "\n   else " + out + ")"
		}
		return out
	case *ast.RangeStmt:
		xs, ok := s.X.(*ast.Ident)
		if !ok || !strings.HasPrefix(c.v.types[xs.Name], "slice:") {
			fail("range over something that is not a declared slice")
		}
		sl := c.t.Slices[strings.TrimPrefix(c.v.types[xs.Name], "slice:")]
		if s.Key != nil {
			if id, ok := s.Key.(*ast.Ident); !ok || id.Name != "_" {
				fail("range with an index variable")
			}
		}
		ev, ok := s.Value.(*ast.Ident)
		if !ok {
			fail("range without an element variable")
		}
		ast.Inspect(s.Body, func(n ast.Node) bool {
			switch b := n.(type) {
			case *ast.BranchStmt:
				fail("%s inside a loop", b.Tok)
			case *ast.CallExpr:
				if _, ok := c.t.Effects[selKey(b.Fun)]; ok {
					fail("effect inside a range loop")
				}
			}
			return true
		})
		var carried []string
		assigned(s.Body.List, map[string]bool{}, &carried)
		var names []string
		for _, v := range carried {
			if _, ok := c.isState(v); !ok && c.v.types[v] == "" {
				continue // declared inside the body
			}
			names = append(names, gname(v))
		}
		c.nfix++
		loop, kn := fmt.Sprintf("loop%d_", c.nfix), fmt.Sprintf("k%d_", c.nfix)
		var enames []string
		for _, f := range sl.Fields {
			c.v.fields[ev.Name+"."+f.Name] = f.Type
			enames = append(enames, gname(ev.Name+"."+f.Name))
		}
		epat := "let '(" + strings.Join(enames, ", ") + ") := e_ in "
		if len(enames) == 1 {
			epat = "let " + enames[0] + " := e_ in "
		}
		kargs, largs, lpars := "tt", "", ""
		if len(names) > 0 {
			kargs = strings.Join(names, " ")
			largs = " " + kargs
			lpars = " (" + kargs + " : Z)"
		}
		kdef := "fun (_ : unit) => "
		if len(names) > 0 {
			kdef = "fun (" + kargs + " : Z) => "
		}
		// control reaches the end of the list: the rest of the function; a `return` in the body leaves at once
		restE := rest()
		saved := c.v.types
		c.v.types = cloneTypes(saved)
		bodyE := c.block(s.Body.List, func() string { return loop + " l_'" + largs })
		c.v.types = saved
		return "(let " + kn + " := " + kdef + restE + " in\n   (fix " + loop + " (l_ : list " + sliceElemType(sl) + ")" + lpars + " {struct l_} : " + c.rtype + " :=\n     match l_ with\n     | nil => " + kn + " " + kargs +
			"\n     | e_ :: l_' => " + epat + bodyE + "\n     end) " + xs.Name + largs + ")"
	case *ast.ForStmt:
		pre := ""
		if s.Init != nil {
			// the initialiser runs once, before the loop
			return c.block(append([]ast.Stmt{s.Init, &ast.ForStmt{Cond: s.Cond, Post: s.Post, Body: s.Body}}, l[1:]...), k)
		}
		if s.Cond == nil {
			fail("for without condition")
		}
		var carried []string
		body := append([]ast.Stmt{}, s.Body.List...)
		if s.Post != nil {
			body = append(body, s.Post)
		}
		assigned(body, map[string]bool{}, &carried)
		general, callsStateful := false, false
		ast.Inspect(s.Body, func(n ast.Node) bool {
			switch b := n.(type) {
			case *ast.BranchStmt, *ast.ReturnStmt:
				general = true
			case *ast.CallExpr:
				if _, ok := c.t.Effects[selKey(b.Fun)]; ok {
					general = true
				}
				if sg, ok := c.transSig(b); ok {
					general = true
					if sg.stateful {
						callsStateful = true
					}
				}
			}
			return true
		})
		if general {
			return c.generalLoop(s, carried, callsStateful, rest)
		}
		var names []string
		for _, v := range carried {
			if _, ok := c.isState(v); !ok && c.v.types[v] == "" {
				fail("loop assigns %s, which is declared inside the loop", v)
			}
			names = append(names, gname(v))
		}
		if len(names) == 0 {
			fail("loop without carried variables")
		}
		tup := "(" + strings.Join(names, ", ") + ")"
		if len(names) == 1 {
			tup = names[0]
		}
		c.nfix++
		loop := fmt.Sprintf("loop%d_", c.nfix)
		cond, _ := c.v.expr(s.Cond, "bool")
		saved := c.v.types
		c.v.types = cloneTypes(saved)
		bodyE := c.block(body, func() string { return loop + " fuel_ " + strings.Join(names, " ") })
		c.v.types = saved
		pat := "let '" + tup + " := "
		if len(names) == 1 {
			pat = "let " + tup + " := "
		}
		return "(" + pre + pat + "(fix " + loop + " (fuel__ : nat) (" + strings.Join(names, " ") + " : Z) {struct fuel__} :=\n     match fuel__ with\n     | O => " + tup +
			"\n     | S fuel_ => if " + cond + " then " + bodyE + " else " + tup + "\n     end) " + fmt.Sprintf("%d%%nat ", c.fuel) + strings.Join(names, " ") + " in\n   " + rest() + ")"
	}
	fail("unsupported statement %T", l[0])
	return ""
}

// A loop whose body leaves early (return, break, continue), performs effects or calls translated code: continuation form.
//
//	let kN_ := fun carried => REST in
//	(fix loopN_ fuel carried := match fuel with O => kN_ carried | S f => if cond then BODY else kN_ carried end) FUEL carried
//
// where the end of BODY and `continue` run the post statement and call loopN_ f carried', `break` calls kN_ carried,
// `return` leaves with the function's result.  The event list and (when translated stateful code is called) all state
// fields are carried too.
func (c *sctx) generalLoop(s *ast.ForStmt, carried []string, allState bool, rest func() string) string {
	var names []string
	seen := map[string]bool{}
	add := func(n string) {
		if !seen[n] {
			seen[n] = true
			names = append(names, n)
		}
	}
	for _, v := range carried {
		if _, ok := c.isState(v); ok {
			add(gname(v))
			continue
		}
		if c.v.types[v] == "" {
			continue // declared inside the body
		}
		if c.v.types[v] == "bool" || c.v.types[v] == "error" || strings.HasPrefix(c.v.types[v], "slice:") {
			fail("loop carries %s of type %s", v, c.v.types[v])
		}
		add(v)
	}
	if allState {
		for _, f := range c.state {
			add(gname(f.Name))
		}
	}
	withEv := c.t.Mode != "pure2"
	c.nfix++
	loop, kn := fmt.Sprintf("loop%d_", c.nfix), fmt.Sprintf("k%d_", c.nfix)
	args := strings.Join(names, " ")
	pars := ""
	if len(names) > 0 {
		pars = " (" + args + " : Z)"
	}
	if withEv {
		args = strings.TrimSpace(args + " ev_")
		pars += " (ev_ : list (Z * list Z))"
	}
	if args == "" {
		args, pars = "tt", " (_ : unit)"
	}
	restE := rest()
	cond, _ := c.v.expr(s.Cond, "bool")
	saved := c.v.types
	c.v.types = cloneTypes(saved)
	next := func() string {
		if s.Post != nil {
			return c.block([]ast.Stmt{s.Post}, func() string { return loop + " fuel_ " + args })
		}
		return loop + " fuel_ " + args
	}
	c.loops = append(c.loops, loopK{brk: func() string { return kn + " " + args }, cont: next})
	bodyE := c.block(s.Body.List, next)
	c.loops = c.loops[:len(c.loops)-1]
	c.v.types = saved
	return "(let " + kn + " := fun" + pars + " => " + restE + " in\n   (fix " + loop + " (fuel__ : nat)" + pars + " {struct fuel__} : " + c.rtype + " :=\n     match fuel__ with\n     | O => " + kn + " " + args +
		"\n     | S fuel_ => if " + cond + " then " + bodyE + " else " + kn + " " + args + "\n     end) " + fmt.Sprintf("%d%%nat ", c.fuel) + args + ")"
}

func sliceElemType(sl sliceSpec) string {
	if len(sl.Fields) == 1 {
		return "Z"
	}
	return "(" + strings.TrimSuffix(strings.Repeat("Z * ", len(sl.Fields)), " * ") + ")"
}

func translateStateful(t *target, fd *ast.FuncDecl, v *env) string {
	c := &sctx{v: v, t: t, state: t.State, ignore: map[string]bool{}, fuel: t.Fuel}
	if c.fuel == 0 {
		c.fuel = 70
	}
	for _, n := range t.IgnoreVars {
		c.ignore[n] = true
	}
	for _, f := range t.State {
		if !isInt(f.Type) && f.Type != "bool" {
			fail("state field %s of unsupported type %s", f.Name, f.Type)
		}
		v.fields[f.Name] = f.Type
	}
	sg := &sig{name: t.Name, stateful: len(t.State) > 0, effects: true, dropRes: t.DropResult, nstate: len(t.State), recv: t.Recv}
	var params []string
	for _, p := range fd.Type.Params.List {
		typ := v.normType(typeName(p.Type))
		for _, n := range p.Names {
			if u, ok := t.IntParams[n.Name]; ok {
				typ = u
			}
			if typ == "string" && t.Mode == "pure2" {
				v.types[n.Name] = "string"
				params = append(params, "("+n.Name+" : list Z)")
				sg.keep = append(sg.keep, true)
				sg.ptypes = append(sg.ptypes, "string")
			} else if isInt(typ) || typ == "bool" {
				v.types[n.Name] = typ
				params = append(params, "("+n.Name+" : "+map[bool]string{true: "bool", false: "Z"}[typ == "bool"]+")")
				sg.keep = append(sg.keep, true)
				sg.ptypes = append(sg.ptypes, typ)
			} else {
				sg.keep = append(sg.keep, false) // effect sink / opaque object
			}
		}
	}
	if fd.Type.Results != nil {
		for _, r := range fd.Type.Results.List {
			n := len(r.Names)
			if n == 0 {
				n = 1
			}
			for i := 0; i < n; i++ {
				sg.results = append(sg.results, v.normType(typeName(r.Type)))
			}
		}
	}
	t.Results = nil
	nres := 0
	for _, r := range sg.results {
		if r != "error" {
			t.Results = append(t.Results, r)
			nres++
		}
	}
	// fields read through struct-typed parameters, then the values read from outside (opaque calls)
	var fps []string
	for k := range t.Fields {
		if _, isState := c.isState(k); !isState {
			fps = append(fps, k)
		}
	}
	sortStrings(fps)
	var lead []string
	for _, k := range fps {
		lead = append(lead, "("+gname(k)+" : "+map[bool]string{true: "bool", false: "Z"}[t.Fields[k] == "bool"]+")")
		sg.fieldParams = append(sg.fieldParams, k)
	}
	var binds []string
	byBind := map[string]opaqueSpec{}
	for _, op := range t.Opaque {
		binds = append(binds, op.Bind)
		byBind[op.Bind] = op
	}
	sortStrings(binds)
	for _, b := range binds {
		op := byBind[b]
		switch {
		case op.Kind == "" || op.Kind == "slice":
			lead = append(lead, "("+b+" : list "+sliceElemType(t.Slices[b])+")")
		case op.Kind == "struct":
			for _, f := range op.Fields {
				lead = append(lead, "("+gname(b+"."+f.Name)+" : "+map[bool]string{true: "bool", false: "Z"}[v.normType(f.Type) == "bool"]+")")
			}
		default:
			lead = append(lead, "("+b+" : "+map[bool]string{true: "bool", false: "Z"}[v.normType(op.Kind) == "bool"]+")")
		}
	}
	params = append(lead, params...)
	{
		rt := "unit"
		if !t.DropResult && nres > 0 {
			var rs []string
			for _, r := range t.Results {
				rs = append(rs, map[bool]string{true: "bool", false: "Z"}[r == "bool"])
			}
			rt = strings.Join(rs, " * ")
			if nres > 1 {
				rt = "(" + rt + ")"
			}
		}
		if t.Mode == "pure2" {
			c.rtype = rt
		} else {
			c.rtype = rt + " * " + stateType(len(t.State)) + " * list (Z * list Z)"
		}
	}
	// recursion is not supported: the signature becomes visible to later targets only
	body := c.block(fd.Body.List, func() string {
		if nres > 0 && !t.DropResult {
			fail("control reaches the end of %s without return", t.Func)
		}
		return c.retExpr(nil)
	})
	if t.Mode == "pure2" {
		if len(t.State) > 0 || len(t.Effects) > 0 || nres != 1 {
			fail("pure2 target %s with state, effects or several results", t.Func)
		}
		sg.stateful, sg.effects = false, false
		sigs[t.Func] = sg
		rt := map[bool]string{true: "bool", false: "Z"}[t.Results[0] == "bool"]
		return fmt.Sprintf("(* %s: %s  [pure translation with locals/loops] *)\nDefinition %s %s : %s :=\n  %s.\n\n", t.File, t.Func, t.Name, strings.Join(params, " "), rt, body)
	}
	sigs[t.Func] = sg
	hdr := "let ev_ : list (Z * list Z) := nil in\n   "
	if len(t.State) > 0 {
		if len(t.State) == 1 {
			hdr = "let " + gname(t.State[0].Name) + " := st_ in\n   " + hdr
		} else {
			hdr = "let '" + c.stateTuple() + " := st_ in\n   " + hdr
		}
	}
	rt := "unit"
	if !t.DropResult && nres > 0 {
		var rs []string
		for _, r := range t.Results {
			rs = append(rs, map[bool]string{true: "bool", false: "Z"}[r == "bool"])
		}
		rt = strings.Join(rs, " * ")
		if nres > 1 {
			rt = "(" + rt + ")"
		}
	}
	stp := ""
	if len(t.State) > 0 {
		stp = "(st_ : " + stateType(len(t.State)) + ") "
	}
	return fmt.Sprintf("(* %s: %s%s  [stateful translation; state = %s] *)\nDefinition %s %s%s : %s * %s * list (Z * list Z) :=\n  (%s%s).\n\n",
		t.File, map[bool]string{true: "(" + t.Recv + ") ", false: ""}[t.Recv != ""], t.Func, c.stateTuple(), t.Name, stp, strings.Join(params, " "),
		rt, stateType(len(t.State)), hdr, body)
}

// c01 generator: JSON documents (AST, rendering with escapes, specification-side flattening),
// column kinds, scenarios.
package main

import (
	"fmt"
	"math"
	"sort"
	"strconv"
	"strings"
	"unicode/utf8"

	"verifharness/vhlib"
)

// ---------- values ----------
// K: "s" string, "i" int64, "f" float64 (bits), "b" bool, "n" null
type Val struct {
	K string `json:"k"`
	S string `json:"s,omitempty"`
	I int64  `json:"i,omitempty"`
	F uint64 `json:"f,omitempty"`
	B bool   `json:"b,omitempty"`
}

func (v Val) canon() string {
	switch v.K {
	case "s":
		return "s:" + v.S
	case "i":
		return fmt.Sprintf("i:%d", v.I)
	case "f":
		return fmt.Sprintf("f:%016x", v.F)
	case "b":
		if v.B {
			return "b:1"
		}
		return "b:0"
	}
	return "n"
}
func (v Val) isNum() bool { return v.K == "i" || v.K == "f" }

type Field struct {
	Key string `json:"key"`
	V   Val    `json:"v"`
}

type Event struct {
	Ts     uint64  `json:"ts"`
	Fields []Field `json:"-"` // specification-side flattening, document order
	Doc    string  `json:"doc"`
}

// ---------- JSON AST ----------
type jv struct {
	kind int // 0 string, 1 number literal, 2 bool, 3 null, 4 object, 5 array
	s    string
	b    bool
	obj  []jkv
	arr  []*jv
}
type jkv struct {
	k string
	v *jv
}

func jstr(s string) *jv { return &jv{kind: 0, s: s} }
func jnum(l string) *jv { return &jv{kind: 1, s: l} }
func jbool(b bool) *jv  { return &jv{kind: 2, b: b} }
func jnull() *jv        { return &jv{kind: 3} }

// numeric literal -> value under JSON semantics with siglens' integer preference:
// an integer literal in the int64 range is an int64, anything else the nearest float64.
func numVal(lit string) Val {
	if n, err := strconv.ParseInt(lit, 10, 64); err == nil {
		return Val{K: "i", I: n}
	}
	f, _ := strconv.ParseFloat(lit, 64)
	return Val{K: "f", F: math.Float64bits(f)}
}

func (v *jv) val() Val {
	switch v.kind {
	case 0:
		return Val{K: "s", S: v.s}
	case 1:
		return numVal(v.s)
	case 2:
		return Val{K: "b", B: v.b}
	}
	return Val{K: "n"}
}

// escape a string for JSON; mode 0: minimal, 1: random mix of escape forms
func escStr(r *vhlib.Rng, s string, fancy bool) string {
	var sb strings.Builder
	sb.WriteByte('"')
	for _, c := range s {
		switch {
		case c == '"':
			sb.WriteString(`\"`)
		case c == '\\':
			sb.WriteString(`\\`)
		case c == '\n':
			sb.WriteString(`\n`)
		case c == '\t':
			sb.WriteString(`\t`)
		case c == '\r':
			sb.WriteString(`\r`)
		case c < 0x20:
			fmt.Fprintf(&sb, `\u%04x`, c)
		case c == '/' && fancy && r.Chance(50):
			sb.WriteString(`\/`)
		case c >= 0x80 && fancy && r.Chance(40):
			if c >= 0x10000 {
				c2 := c - 0x10000
				fmt.Fprintf(&sb, `\u%04x\u%04x`, 0xd800+(c2>>10), 0xdc00+(c2&0x3ff))
			} else {
				fmt.Fprintf(&sb, `\u%04X`, c)
			}
		case c < 0x80 && fancy && r.Chance(3) && c != utf8.RuneError:
			fmt.Fprintf(&sb, `\u%04x`, c)
		default:
			sb.WriteRune(c)
		}
	}
	sb.WriteByte('"')
	return sb.String()
}

func render(r *vhlib.Rng, v *jv, fancy bool, sb *strings.Builder) {
	sp := func() {
		if fancy && r.Chance(15) {
			sb.WriteByte(' ')
		}
	}
	switch v.kind {
	case 0:
		sb.WriteString(escStr(r, v.s, fancy))
	case 1:
		sb.WriteString(v.s)
	case 2:
		if v.b {
			sb.WriteString("true")
		} else {
			sb.WriteString("false")
		}
	case 3:
		sb.WriteString("null")
	case 4:
		sb.WriteByte('{')
		for i, kv := range v.obj {
			if i > 0 {
				sb.WriteByte(',')
				sp()
			}
			sb.WriteString(escStr(r, kv.k, fancy))
			sp()
			sb.WriteByte(':')
			sp()
			render(r, kv.v, fancy, sb)
		}
		sb.WriteByte('}')
	case 5:
		sb.WriteByte('[')
		for i, e := range v.arr {
			if i > 0 {
				sb.WriteByte(',')
				sp()
			}
			render(r, e, fancy, sb)
		}
		sb.WriteByte(']')
	}
}

// specification of "flattened field names": a.b for members, a.0 for array elements;
// the top-level timestamp key is the event time, not a field.
func flatten(prefix string, v *jv, top bool, out *[]Field) {
	switch v.kind {
	case 4:
		for _, kv := range v.obj {
			k := kv.k
			if prefix != "" {
				k = prefix + "." + kv.k
			}
			if k == "timestamp" {
				continue
			}
			flatten(k, kv.v, false, out)
		}
	case 5:
		for i, e := range v.arr {
			k := strconv.Itoa(i)
			if prefix != "" {
				k = prefix + "." + k
			}
			flatten(k, e, false, out)
		}
	default:
		*out = append(*out, Field{prefix, v.val()})
	}
}

// ---------- value pools ----------
var intPool = []string{"0", "1", "-1", "7", "42", "-42", "255", "256", "65535", "65536", "2147483647", "2147483648",
	"-2147483648", "4294967295", "4294967296", "9007199254740992", "9007199254740993", "9223372036854775807",
	"-9223372036854775808", "-9223372036854775807", "1000000", "123456789", "-0"}
var floatPool = []string{"0.5", "-0.0", "1.5", "1e3", "1E2", "2.5e-3", "0.1", "3.14159", "1.7976931348623157e308",
	"5e-324", "2.2250738585072014e-308", "1e21", "123456.789", "-1.25", "1.0", "100.0", "9223372036854775808",
	"-9223372036854775809", "18446744073709551615", "18446744073709551616", "0.30000000000000004", "1e-7", "12345678901234567890.5",
	"4.9e-324", "-1e-400"}
var strPool = []string{"", "x", "hello world", "héllo wörld", "日本語", "a\"b", "back\\slash", "line\nbreak", "tab\there", "😀 smile",
	"ctl\x01\x1f", "sp ace", "a/b", "{\"not\":\"json\"}", "[1,2]", "null", "true", "False", "ünï", "abcdef", "ghijkl", "qwerty",
	"Mixed CASE", "trailing ", " leading", "é", "☃"}
var numStrPool = []string{"007", "1e3", "42", "-5", "+5", "3.14", "nan", "NaN", "inf", "-Inf", "Infinity", "0x1p4", "1_000",
	"1e400", "9223372036854775807", "9223372036854775808", ".5", "5.", "0", "-0", "1E2", "0x10", "123456"}
var notNumStrPool = []string{" 5", "5 ", "1,5", "12a", "--1", "e3", "0x", "1e", "+", "-", "١٢٣", "1 2"}

func longStr(r *vhlib.Rng, n int) string {
	pats := []string{"abcdefghij", "lorem ipsum ", "ж", "x-", "0123456789abcdef"}
	p := vhlib.Pick(r, pats)
	var sb strings.Builder
	for sb.Len() < n {
		sb.WriteString(p)
	}
	return sb.String()[:n-(n%len(p))]
}

// ---------- column kinds ----------
type colSpec struct {
	Path string // flattened name
	Kind string
	Pres int   // presence percent
	From int   // first event (index within the scenario) at which the column may appear
	Null int   // percent of explicit nulls among present values
	Pool []*jv // low-cardinality pool (nil: fresh values)
}

func genScalar(r *vhlib.Rng, kind string, i int) *jv {
	switch kind {
	case "int":
		if r.Chance(60) {
			return jnum(vhlib.Pick(r, intPool))
		}
		return jnum(strconv.FormatInt(int64(r.U64()>>uint(r.Intn(64)))-int64(r.Intn(1000)), 10))
	case "float":
		if r.Chance(70) {
			return jnum(vhlib.Pick(r, floatPool))
		}
		return jnum(strconv.FormatFloat(float64(int64(r.U64()>>11))/float64(int64(1)<<uint(r.Intn(60))), 'g', -1, 64))
	case "num":
		if r.Bool() {
			return genScalar(r, "int", i)
		}
		return genScalar(r, "float", i)
	case "str":
		if r.Chance(8) {
			return jstr(vhlib.Pick(r, notNumStrPool))
		}
		if r.Chance(6) {
			return jstr(longStr(r, 200+r.Intn(2500)))
		}
		return jstr(vhlib.Pick(r, strPool))
	case "strnum": // a string-only column: number-looking strings must stay strings
		if r.Chance(60) {
			return jstr(vhlib.Pick(r, numStrPool))
		}
		return jstr(vhlib.Pick(r, strPool))
	case "bool":
		return jbool(r.Bool())
	case "boolstr":
		if r.Bool() {
			return jbool(r.Bool())
		}
		return jstr(vhlib.Pick(r, strPool))
	case "mix": // numbers together with strings that are not numbers: the allowed relaxation
		switch r.Intn(3) {
		case 0:
			return genScalar(r, "num", i)
		case 1:
			return jstr(vhlib.Pick(r, []string{"abcdef", "ghijkl", "x", "n/a", "12a", "hello world", " 5", "none!"}))
		}
		return genScalar(r, "int", i)
	case "eqint": // constant encoded length 9
		return jnum(strconv.Itoa(1000 + i))
	case "eqstr": // constant encoded length 3+6
		return jstr(fmt.Sprintf("v%05d", i%100000))
	case "hicard":
		return jstr(fmt.Sprintf("val-%d-%d", i, r.Intn(10)))
	case "hicardint":
		return jnum(strconv.Itoa(i*7 + 3))
	}
	return jnull()
}

var keyPool = []string{"a", "b", "msg", "lvl", "n1", "usr.name", "k\"q", "ключ", "k é", "CamelCase", "with space", "x-y", "z_9",
	"a.b.c", "日本", "tab\tkey", "q/r", "e\\f", "m1", "m2", "m3", "host", "latency", "ok"}
var kinds = []string{"int", "float", "num", "str", "strnum", "bool", "boolstr", "mix", "eqint", "eqstr", "hicard", "hicardint", "str", "int", "mix"}

// a nested group with a fixed shape; its leaves are columns of their own
type group struct {
	Key    string
	Leaves []colSpec // Path relative to the group's shape
	shape  int
}

// ---------- scenarios ----------
type Scenario struct {
	Name   string  `json:"name"`
	Stream string  `json:"stream"` // main | known:<class> ...
	Card   int     `json:"card"`   // 0 = default
	Ops    []Op    `json:"ops"`
	Events []Event `json:"events"` // all events in ingest order
	Probe  bool    `json:"probe"`
	ToCoq  bool    `json:"-"`
	Timeout int    `json:"-"` // worker timeout in seconds (0 = default)
	NoE2E  bool    `json:"-"` // no end-to-end comparison with the model (known loss outside the model)
	// per op: index range of Events ingested by this op (ingest ops)
	Range [][2]int `json:"-"`
	// columns with a duplicate flattened key in some event
	DupCols map[string]bool `json:"-"`
	// optional filter query expectations: op index -> expected timestamps
	Expect map[int][]uint64 `json:"-"`
	// events are identified by this (unique, integer) field instead of by their timestamp: scenarios in
	// which several events carry the same timestamp
	IdKey string `json:"id_key,omitempty"`
	// reader-reuse scenario: the plan of its blocks (the documents are regenerated from it)
	Plan []blockPlan `json:"plan,omitempty"`
	// wide-event scenario (wide.go): GOMAXPROCS, number of columns, per block the absent columns
	Wide *widePlan `json:"wide,omitempty"`
}

// ---------- reader-reuse scenarios ----------
// A block worker of a segment search keeps one TimeRangeReader and one SegmentFileReader per column for
// all blocks it is handed (read buffers, dictionary tables are reused).  These scenarios put blocks of
// very different sizes into one segment - timestamp payloads on both sides of 64 KiB (the decoder counts
// records through a uint16), of the buffer pool classes (1/4/32/64/128 KiB), dictionary and raw blocks -
// let all of them end at the same millisecond (one search round), and run the search with one or two
// block workers so that one reader meets many blocks, in the order Go's map iteration chooses.
type blockPlan struct {
	N     int    `json:"n"`      // events
	Width int    `json:"width"`  // bytes per timestamp delta (1,2,4,8) = class of HighTs-LowTs
	Diff  uint64 `json:"diff"`   // HighTs - LowTs
	High  uint64 `json:"high"`   // HighTs
}

var widthDiffs = map[int][]uint64{1: {0, 1, 200, 255}, 2: {256, 40000, 65535}, 4: {65536, 1 << 24, 4294967295}, 8: {4294967296, 5000000000, 1 << 34}}

// record counts whose timestamp payload (10 + n*width bytes) lies just around 64 KiB
func near64K(r *vhlib.Rng, width int) int {
	return 65536/width + vhlib.Pick(r, []int{-2, -1, 0, 1, 2, 3, 5, 8, 13})
}

func genReuse(r *vhlib.Rng, name string, big int, procs int) *Scenario {
	sc := &Scenario{Name: name, Stream: "main", Probe: true, ToCoq: true, NoE2E: true, DupCols: map[string]bool{}, Expect: map[int][]uint64{}, IdKey: "id"}
	push := func(op Op) {
		sc.Ops = append(sc.Ops, op)
		sc.Range = append(sc.Range, [2]int{})
	}
	push(Op{Kind: "procs", N: procs})
	nBlocks := 3 + r.Intn(4)
	sameHigh := procs == 1 || r.Chance(60)
	high := tsBase + tsGap
	smallSizes := []int{1, 2, 20, 70, 120, 300, 480, 520, 600}
	if big > 0 {
		nBlocks = 6 + r.Intn(2) // the small blocks next to the very large one cover every delta width
	}
	widths := []int{1, 2, 4, 8, 1, 2, 8}
	for i := len(widths) - 1; i > 0; i-- {
		j := r.Intn(i + 1)
		widths[i], widths[j] = widths[j], widths[i]
	}
	for b := 0; b < nBlocks; b++ {
		w := vhlib.Pick(r, []int{1, 1, 2, 2, 4, 8})
		n := vhlib.Pick(r, smallSizes) + r.Intn(30)
		if big > 0 {
			w, n = widths[b], vhlib.Pick(r, smallSizes[3:])+r.Intn(30)
		}
		sc.Plan = append(sc.Plan, blockPlan{N: n, Width: w})
	}
	if big > 0 {
		// one block with more than 64 KiB of timestamps, not the last one ingested
		at := r.Intn(nBlocks - 1)
		sc.Plan[at] = blockPlan{N: near64K(r, big), Width: big}
		if sc.Plan[at].N*big < 65536 {
			sc.Plan[at].N = 65536/big + 1 + r.Intn(9)
		}
	}
	id := 0
	for b := range sc.Plan {
		bp := &sc.Plan[b]
		bp.Diff = vhlib.Pick(r, widthDiffs[bp.Width])
		if bp.N == 1 {
			bp.Diff, bp.Width = 0, 1
		}
		bp.High = high
		if !sameHigh {
			bp.High = high - uint64(b)*7
		}
		var docs []string
		lo := len(sc.Events)
		for j := 0; j < bp.N; j++ {
			ts := bp.High
			switch {
			case j == 0:
			case j == 1:
				ts = bp.High - bp.Diff
			default:
				ts = bp.High - r.U64()%(bp.Diff+1)
			}
			g := fmt.Sprintf("w%d", r.Intn(5))
			if bp.N > 2000 {
				// all-distinct in a very large block: a raw block (a dictionary block of thousands of records costs the
				// Coq evaluation of the model's ReadDictEnc seconds per read; the column is a dictionary block in the
				// small blocks of the same segment)
				g = fmt.Sprintf("w%d", id)
			}
			fs := []Field{{"id", Val{K: "i", I: int64(id)}}, {"g", Val{K: "s", S: g}}}
			d := fmt.Sprintf(`{"timestamp":%d,"id":%d,"g":%q`, ts, id, g)
			if r.Chance(70) {
				p := vhlib.Pick(r, strPool[1:]) + strconv.Itoa(r.Intn(1000))
				fs = append(fs, Field{"p", Val{K: "s", S: p}})
				d += `,"p":` + escStr(r, p, false)
			}
			d += "}"
			sc.Events = append(sc.Events, Event{Ts: ts, Doc: d, Fields: fs})
			docs = append(docs, d)
			id++
		}
		sc.Ops = append(sc.Ops, Op{Kind: "ingest", Docs: docs})
		sc.Range = append(sc.Range, [2]int{lo, len(sc.Events)})
		push(Op{Kind: "flush", Probe: true})
	}
	// orders for the byte-level reread: by decreasing size, by increasing size, two random ones
	idx := make([]int, nBlocks)
	for i := range idx {
		idx[i] = i
	}
	desc := append([]int{}, idx...)
	sort.SliceStable(desc, func(a, b int) bool {
		return sc.Plan[desc[a]].N*sc.Plan[desc[a]].Width > sc.Plan[desc[b]].N*sc.Plan[desc[b]].Width
	})
	asc := make([]int, nBlocks)
	for i := range desc {
		asc[nBlocks-1-i] = desc[i]
	}
	orders := [][]int{desc, asc}
	for k := 0; k < 2; k++ {
		o := append([]int{}, idx...)
		for i := len(o) - 1; i > 0; i-- {
			j := r.Intn(i + 1)
			o[i], o[j] = o[j], o[i]
		}
		orders = append(orders, o)
	}
	push(Op{Kind: "reread", Orders: orders})
	// match-all, several times (every search hands the blocks to its workers in a new order).  One page per
	// search: events of different blocks share a timestamp here, and from/size paging over separate searches
	// has no stable order among equal timestamps (pages overlap / leave gaps) - that is not what C01 is about
	total := len(sc.Events)
	for k := 0; k < 4; k++ {
		push(Op{Kind: "query", Page: total + 100, Nulls: true})
	}
	push(Op{Kind: "rotate"})
	for k := 0; k < 2; k++ {
		push(Op{Kind: "query", Page: total + 100, Nulls: true})
	}
	return sc
}

const tsGap = uint64(1) << 34

var tsDiffs = []uint64{0, 1, 254, 255, 256, 257, 65534, 65535, 65536, 65537, 1 << 24, 4294967294, 4294967295, 4294967296, 4294967297, 1 << 33}

// timestamps of one block: n distinct values in [base, base+D] including both ends (n>=2), shuffled
func blockTs(r *vhlib.Rng, base uint64, n int) []uint64 {
	D := vhlib.Pick(r, tsDiffs)
	if uint64(n) > D+1 {
		D = uint64(n) + uint64(r.Intn(50))
	}
	seen := map[uint64]bool{}
	var ts []uint64
	add := func(t uint64) {
		if !seen[t] {
			seen[t] = true
			ts = append(ts, t)
		}
	}
	if n >= 2 {
		add(base)
		add(base + D)
	}
	for len(ts) < n {
		add(base + r.U64()%(D+1))
	}
	for i := len(ts) - 1; i > 0; i-- {
		j := r.Intn(i + 1)
		ts[i], ts[j] = ts[j], ts[i]
	}
	return ts
}

type docGen struct {
	r      *vhlib.Rng
	cols   []colSpec
	groups []group
	fancy  bool
}

func (g *docGen) leaf(c *colSpec, i int) *jv {
	if c.Null > 0 && g.r.Chance(c.Null) {
		return jnull()
	}
	if c.Pool != nil {
		return vhlib.Pick(g.r, c.Pool)
	}
	return genScalar(g.r, c.Kind, i)
}

// one document for event number i of the scenario
func (g *docGen) doc(i int, ts uint64) Event {
	r := g.r
	var top []jkv
	for ci := range g.cols {
		c := &g.cols[ci]
		if i < c.From || !r.Chance(c.Pres) {
			continue
		}
		top = append(top, jkv{c.Path, g.leaf(c, i)})
	}
	for gi := range g.groups {
		gr := &g.groups[gi]
		if !r.Chance(75) {
			continue
		}
		L := func(k int) *jv { return g.leaf(&gr.Leaves[k], i) }
		var v *jv
		switch gr.shape {
		case 0: // {"x":L0,"y":{"z":L1}}
			v = &jv{kind: 4, obj: []jkv{{"x", L(0)}, {"y", &jv{kind: 4, obj: []jkv{{"z", L(1)}}}}}}
		case 1: // [L0, L1, {"q":L2}]
			v = &jv{kind: 5, arr: []*jv{L(0), L(1), &jv{kind: 4, obj: []jkv{{"q", L(2)}}}}}
		case 2: // {"list":[L0,[L1]],"e":{},"ea":[]}
			v = &jv{kind: 4, obj: []jkv{{"list", &jv{kind: 5, arr: []*jv{L(0), &jv{kind: 5, arr: []*jv{L(1)}}}}},
				{"e", &jv{kind: 4}}, {"ea", &jv{kind: 5}}}}
		}
		top = append(top, jkv{gr.Key, v})
	}
	// shuffle member order, insert the timestamp at a random position
	for k := len(top) - 1; k > 0; k-- {
		j := r.Intn(k + 1)
		top[k], top[j] = top[j], top[k]
	}
	pos := r.Intn(len(top) + 1)
	top = append(top[:pos], append([]jkv{{"timestamp", jnum(strconv.FormatUint(ts, 10))}}, top[pos:]...)...)
	root := &jv{kind: 4, obj: top}
	var sb strings.Builder
	render(r, root, g.fancy, &sb)
	ev := Event{Ts: ts, Doc: sb.String()}
	flatten("", root, true, &ev.Fields)
	return ev
}

func hasValue(ev Event) bool {
	for _, f := range ev.Fields {
		if f.V.K != "n" {
			return true
		}
	}
	return false
}

func groupLeafPaths(gr *group) []string {
	switch gr.shape {
	case 0:
		return []string{gr.Key + ".x", gr.Key + ".y.z"}
	case 1:
		return []string{gr.Key + ".0", gr.Key + ".1", gr.Key + ".2.q"}
	}
	return []string{gr.Key + ".list.0", gr.Key + ".list.1.0"}
}

func newCol(r *vhlib.Rng, path, kind string, nEvents, card int) colSpec {
	c := colSpec{Path: path, Kind: kind, Pres: vhlib.Pick(r, []int{100, 100, 90, 60, 30}), Null: vhlib.Pick(r, []int{0, 0, 0, 10, 30})}
	if kind == "eqint" || kind == "eqstr" {
		c.Pres, c.Null = 100, 0
	}
	if r.Chance(25) && nEvents > 2 && kind != "eqint" && kind != "eqstr" {
		c.From = 1 + r.Intn(nEvents-1) // late column
	}
	// cardinality straddling the dictionary limit: pools of card-2 .. card+2 distinct values
	if card > 0 && card < 50 && r.Chance(55) && kind != "eqint" && kind != "eqstr" && kind != "hicard" && kind != "hicardint" {
		n := card - 2 + r.Intn(5)
		if n < 1 {
			n = 1
		}
		seen := map[string]bool{}
		for tries := 0; len(c.Pool) < n && tries < 200; tries++ {
			v := genScalar(r, kind, tries)
			if k := v.val().canon(); !seen[k] {
				seen[k] = true
				c.Pool = append(c.Pool, v)
			}
		}
	}
	return c
}

// main-stream scenario: columns of fixed kinds (no trigger of a known class by construction)
func genMain(r *vhlib.Rng, name string, probe bool, big bool) *Scenario {
	sc := &Scenario{Name: name, Stream: "main", Probe: probe, ToCoq: true, DupCols: map[string]bool{}, Expect: map[int][]uint64{}}
	// limits below 4 are left to the known stream: with them a bloom-indexed column that holds only
	// nulls/bools is stored raw, writeNonDeBloom builds bloom.NewWithEstimates(0) (k = 2^63 hash
	// functions) and a later convertColumnToStrings on that column never returns
	sc.Card = vhlib.Pick(r, []int{0, 4, 5, 6, 8, 4, 5, 7})
	nBlocks := 1 + r.Intn(4)
	maxPer := 10
	if !probe {
		maxPer = 30
	}
	if big {
		nBlocks, maxPer = 2+r.Intn(3), 60
	}
	sizes := make([]int, nBlocks)
	total := 0
	for b := range sizes {
		sizes[b] = 1 + r.Intn(maxPer)
		if r.Chance(10) {
			sizes[b] = 1
		}
		total += sizes[b]
	}
	g := &docGen{r: r.Fork(), fancy: r.Chance(70)}
	keys := append([]string{}, keyPool...)
	for k := len(keys) - 1; k > 0; k-- {
		j := r.Intn(k + 1)
		keys[k], keys[j] = keys[j], keys[k]
	}
	nc := 1 + r.Intn(6)
	for i := 0; i < nc; i++ {
		g.cols = append(g.cols, newCol(r, keys[i], vhlib.Pick(r, kinds), total, sc.Card))
	}
	if r.Chance(45) {
		gr := group{Key: vhlib.Pick(r, []string{"obj", "arr", "n.s", "глуб"}), shape: r.Intn(3)}
		for range groupLeafPaths(&gr) {
			gr.Leaves = append(gr.Leaves, newCol(r, "", vhlib.Pick(r, kinds[:8]), total, sc.Card))
		}
		g.groups = append(g.groups, gr)
	}
	card := func() {
		if sc.Card > 0 {
			sc.Ops = append(sc.Ops, Op{Kind: "card", N: sc.Card})
			sc.Range = append(sc.Range, [2]int{})
		}
	}
	push := func(op Op) {
		sc.Ops = append(sc.Ops, op)
		sc.Range = append(sc.Range, [2]int{})
	}
	card()
	ei := 0
	for b := 0; b < nBlocks; b++ {
		ts := blockTs(r, tsBase+1+uint64(b)*tsGap, sizes[b])
		// the block's events in 1..3 bulk requests
		left := sizes[b]
		k := 0
		for left > 0 {
			n := 1 + r.Intn(left)
			if r.Chance(50) {
				n = left
			}
			var docs []string
			lo := ei
			for j := 0; j < n; j++ {
				ev := g.doc(ei, ts[k])
				// a block made only of field-less events at the start of a segment is a known class
				// (FlushSegStats error); the first event of every block carries at least one value
				for tries := 0; k == 0 && !hasValue(ev) && tries < 30; tries++ {
					ev = g.doc(ei, ts[k])
				}
				if k == 0 && !hasValue(ev) {
					ev.Doc = fmt.Sprintf(`{"id":%d,%s`, ei, ev.Doc[1:])
					ev.Fields = append([]Field{{"id", Val{K: "i", I: int64(ei)}}}, ev.Fields...)
				}
				k++
				ei++
				sc.Events = append(sc.Events, ev)
				docs = append(docs, ev.Doc)
			}
			sc.Ops = append(sc.Ops, Op{Kind: "ingest", Docs: docs})
			sc.Range = append(sc.Range, [2]int{lo, ei})
			left -= n
		}
		// block boundary
		last := b == nBlocks-1
		switch {
		case probe:
			push(Op{Kind: "flush", Probe: true})
			if r.Chance(30) {
				push(Op{Kind: "rotate"})
			}
		case r.Chance(60):
			push(Op{Kind: "flush"})
			if r.Chance(25) {
				push(Op{Kind: "rotate"})
			}
		default:
			push(Op{Kind: "rotate"}) // rotation with a non-empty open block
		}
		if r.Chance(35) || last {
			push(Op{Kind: "query", Page: vhlib.Pick(r, []int{1, 2, 3, 5, 7, 100, 10000}), Nulls: true})
		}
		if !last && r.Chance(20) {
			push(Op{Kind: "restart"})
			card()
			if r.Chance(50) {
				push(Op{Kind: "query", Page: vhlib.Pick(r, []int{1, 3, 10000}), Nulls: true})
			}
		}
	}
	if r.Chance(40) {
		push(Op{Kind: "restart"})
		push(Op{Kind: "query", Page: vhlib.Pick(r, []int{2, 4, 10000}), Nulls: true})
	}
	return sc
}

// helper for hand-built scenarios of the known-class stream
func handScenario(name, stream string, card int, blocks [][]string, tail []Op) *Scenario {
	sc := &Scenario{Name: name, Stream: stream, Card: card, Probe: true, ToCoq: true, DupCols: map[string]bool{}, Expect: map[int][]uint64{}}
	push := func(op Op) {
		sc.Ops = append(sc.Ops, op)
		sc.Range = append(sc.Range, [2]int{})
	}
	if card > 0 {
		push(Op{Kind: "card", N: card})
	}
	ei := 0
	for b, docs := range blocks {
		var full []string
		lo := ei
		for j, d := range docs {
			ts := tsBase + 1 + uint64(b)*tsGap + uint64(j)
			ev := Event{Ts: ts, Doc: fmt.Sprintf(`{"timestamp":%d,%s`, ts, d[1:])}
			if d == "{}" {
				ev.Doc = fmt.Sprintf(`{"timestamp":%d}`, ts)
			}
			ev.Fields = specFlattenText(d, sc.DupCols)
			sc.Events = append(sc.Events, ev)
			full = append(full, ev.Doc)
			ei++
		}
		sc.Ops = append(sc.Ops, Op{Kind: "ingest", Docs: full})
		sc.Range = append(sc.Range, [2]int{lo, ei})
		push(Op{Kind: "flush", Probe: true})
	}
	for _, op := range tail {
		push(op)
	}
	return sc
}

// tiny JSON reader for the hand-written documents of the known stream (keeps duplicate keys,
// which encoding/json would merge)
type miniParser struct {
	s string
	i int
}

func (p *miniParser) ws() {
	for p.i < len(p.s) && (p.s[p.i] == ' ' || p.s[p.i] == '\n') {
		p.i++
	}
}
func (p *miniParser) str() string {
	// p.s[p.i] == '"'
	j := p.i + 1
	for j < len(p.s) && p.s[j] != '"' {
		if p.s[j] == '\\' {
			j++
		}
		j++
	}
	raw := p.s[p.i : j+1]
	p.i = j + 1
	u, err := strconv.Unquote(raw)
	if err != nil {
		return raw[1 : len(raw)-1]
	}
	return u
}
func (p *miniParser) value() *jv {
	p.ws()
	switch c := p.s[p.i]; {
	case c == '{':
		p.i++
		o := &jv{kind: 4}
		for {
			p.ws()
			if p.s[p.i] == '}' {
				p.i++
				return o
			}
			if p.s[p.i] == ',' {
				p.i++
				continue
			}
			k := p.str()
			p.ws()
			p.i++ // ':'
			o.obj = append(o.obj, jkv{k, p.value()})
		}
	case c == '[':
		p.i++
		a := &jv{kind: 5}
		for {
			p.ws()
			if p.s[p.i] == ']' {
				p.i++
				return a
			}
			if p.s[p.i] == ',' {
				p.i++
				continue
			}
			a.arr = append(a.arr, p.value())
		}
	case c == '"':
		return jstr(p.str())
	case c == 't':
		p.i += 4
		return jbool(true)
	case c == 'f':
		p.i += 5
		return jbool(false)
	case c == 'n':
		p.i += 4
		return jnull()
	default:
		j := p.i
		for j < len(p.s) && strings.IndexByte(",}] \n", p.s[j]) < 0 {
			j++
		}
		l := p.s[p.i:j]
		p.i = j
		return jnum(l)
	}
}

func specFlattenText(doc string, dup map[string]bool) []Field {
	p := &miniParser{s: doc}
	var out []Field
	flatten("", p.value(), true, &out)
	seen := map[string]bool{}
	for _, f := range out {
		if seen[f.Key] {
			dup[f.Key] = true
		}
		seen[f.Key] = true
	}
	return out
}

func sortedKeys(m map[string]bool) []string {
	var ks []string
	for k := range m {
		ks = append(ks, k)
	}
	sort.Strings(ks)
	return ks
}

// c01: log ingest-to-query round trip.
package main

import (
	"context"
	"encoding/json"
	"fmt"
	"os"
	"os/exec"
	"path/filepath"
	"time"
)

// runScenario runs ops in worker processes on a fresh directory; a "restart" op ends a
// worker (after the data-related part of a server shutdown) and starts a new one on the same directory.
func runScenario(dir string, ops []Op) ([]Obs, error) {
	_ = os.RemoveAll(dir)
	if err := os.MkdirAll(dir, 0o755); err != nil {
		return nil, err
	}
	data := filepath.Join(dir, "data")
	_ = os.MkdirAll(data, 0o755)
	all := make([]Obs, len(ops))
	start, phase := 0, 0
	for start <= len(ops) {
		end := start
		for end < len(ops) && ops[end].Kind != "restart" {
			end++
		}
		if end > start {
			sp := filepath.Join(dir, fmt.Sprintf("script%d.json", phase))
			op := filepath.Join(dir, fmt.Sprintf("obs%d.json", phase))
			phaseOps := append([]Op{}, ops[start:end]...)
			if end < len(ops) {
				phaseOps = append(phaseOps, Op{Kind: "shutdown"})
			}
			b, _ := json.Marshal(phaseOps)
			_ = os.WriteFile(sp, b, 0o644)
			ctx, cancel := context.WithTimeout(context.Background(), 180*time.Second)
			cmd := exec.CommandContext(ctx, os.Args[0], "worker", data, sp, op)
			out, err := cmd.CombinedOutput()
			cancel()
			if err != nil {
				tail := string(out)
				if len(tail) > 800 {
					tail = tail[len(tail)-800:]
				}
				return nil, fmt.Errorf("worker phase %d: %v: %s", phase, err, tail)
			}
			ob, err := os.ReadFile(op)
			if err != nil {
				return nil, err
			}
			var o []Obs
			if err := json.Unmarshal(ob, &o); err != nil || len(o) != len(phaseOps) {
				return nil, fmt.Errorf("worker phase %d: bad observation file", phase)
			}
			copy(all[start:end], o[:end-start])
		}
		phase++
		start = end + 1
	}
	return all, nil
}

func main() {
	if len(os.Args) >= 5 && os.Args[1] == "worker" {
		workerMain(os.Args[2], os.Args[3], os.Args[4])
		return
	}
	if len(os.Args) >= 3 && os.Args[1] == "probe" {
		// probe <script.json> : run a hand-written scenario, print the observations (development aid)
		b, err := os.ReadFile(os.Args[2])
		if err != nil {
			fmt.Println(err)
			os.Exit(2)
		}
		var ops []Op
		if err := json.Unmarshal(b, &ops); err != nil {
			fmt.Println(err)
			os.Exit(2)
		}
		dir, _ := os.MkdirTemp("", "C01_probe")
		defer os.RemoveAll(dir)
		obs, err := runScenario(dir, ops)
		if err != nil {
			fmt.Println("ERR", err)
			os.Exit(1)
		}
		for i, o := range obs {
			ob, _ := json.Marshal(o)
			fmt.Printf("%d %s: %s\n", i, ops[i].Kind, ob)
		}
		return
	}
	fmt.Println("generator not yet built")
}

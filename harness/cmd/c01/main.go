// c01: log ingest-to-query round trip.
//
// The real siglens code runs in worker processes (one fresh data directory per scenario; a
// second worker on the same directory = restart).  A scenario is a list of ops: bulk ingest
// of generated JSON documents, flushes (block boundaries), segment rotations, restarts and
// paged match-all queries over a covering time range.
//
//	(a) byte level (probe scenarios): before every flush a verif-tag hook in package writer
//	    snapshots the open block's column buffers and dictionary state; after the flush
//	    (AllSeenColumnSizes is read again then) the
//	    block is read back from the .csg files (raw bytes, and through the real
//	    SegmentFileReader / TimeRangeReader).  The Coq model (ColStore.v, TsEnc.v, Tlv.v) must
//	    produce the same buffers before and after consolidateColumnTypes, the same encoding
//	    choice and payload (dictionary entries up to Go's map order), the same timestamp block,
//	    the same AllSeenColumnSizes, and its readers the same records on the same bytes.
//	(b) end to end: the multiset of (timestamp, fields) a paged `*` query returns is compared
//	    with what was sent (property oracle, independent of the model) and with the model's
//	    read_all.
//	(c) codec streams without server state: dictionary pack/unpack and TLV decoding of the
//	    real functions against the model on random inputs.
package main

import (
	"bytes"
	"context"
	"encoding/hex"
	"encoding/json"
	"fmt"
	"hash/fnv"
	"math"
	"os"
	"os/exec"
	"path/filepath"
	"sort"
	"strconv"
	"strings"
	"sync"
	"time"

	"github.com/siglens/siglens/pkg/segment/reader/segread/segreader"
	"github.com/siglens/siglens/pkg/segment/structs"
	sutils "github.com/siglens/siglens/pkg/segment/utils"
	"github.com/siglens/siglens/pkg/segment/writer"

	"verifharness/vhlib"
)

// runScenario runs ops in worker processes on a fresh directory; a "restart" op ends a
// worker (after the data-related part of a server shutdown) and starts a new one on the same directory.
func runScenario(dir string, ops []Op, timeoutSec int) ([]Obs, error) {
	if timeoutSec <= 0 {
		timeoutSec = 180
	}
	_ = os.RemoveAll(dir)
	if err := os.MkdirAll(dir, 0o755); err != nil {
		return nil, err
	}
	data := filepath.Join(dir, "data")
	_ = os.MkdirAll(data, 0o755)
	all := make([]Obs, len(ops))
	start, phase := 0, 0
	for start <= len(ops) {
		end := start
		for end < len(ops) && ops[end].Kind != "restart" {
			end++
		}
		if end > start {
			sp := filepath.Join(dir, fmt.Sprintf("script%d.json", phase))
			op := filepath.Join(dir, fmt.Sprintf("obs%d.json", phase))
			phaseOps := append([]Op{}, ops[start:end]...)
			if end < len(ops) {
				phaseOps = append(phaseOps, Op{Kind: "shutdown"})
			}
			b, _ := json.Marshal(phaseOps)
			_ = os.WriteFile(sp, b, 0o644)
			ctx, cancel := context.WithTimeout(context.Background(), time.Duration(timeoutSec)*time.Second)
			cmd := exec.CommandContext(ctx, os.Args[0], "worker", data, sp, op)
			out, err := cmd.CombinedOutput()
			cancel()
			if os.Getenv("C01_LOG") != "" {
				fmt.Fprintln(os.Stderr, string(out))
			}
			if err != nil {
				tail := string(out)
				if len(tail) > 800 {
					tail = tail[len(tail)-800:]
				}
				return nil, fmt.Errorf("worker phase %d: %v: %s", phase, err, tail)
			}
			ob, err := os.ReadFile(op)
			if err != nil {
				return nil, err
			}
			var o []Obs
			if err := json.Unmarshal(ob, &o); err != nil || len(o) != len(phaseOps) {
				return nil, fmt.Errorf("worker phase %d: bad observation file", phase)
			}
			copy(all[start:end], o[:end-start])
		}
		phase++
		start = end + 1
	}
	return all, nil
}

// ---------- Coq printers ----------
// byte string for the Coq side: 7 bytes per primitive integer (see ColStoreCheck.bx)
func coqBx(b []byte) string {
	if len(b) == 0 {
		return "[]"
	}
	var sb strings.Builder
	fmt.Fprintf(&sb, "(bx %d [", len(b))
	for i := 0; i < len(b); i += 7 {
		var w uint64
		for j := 0; j < 7 && i+j < len(b); j++ {
			w |= uint64(b[i+j]) << (8 * uint(j))
		}
		if i > 0 {
			sb.WriteByte(';')
		}
		sb.WriteString(strconv.FormatUint(w, 10))
	}
	sb.WriteString("]%uint63)")
	return sb.String()
}
func coqBxS(s string) string { return coqBx([]byte(s)) }

func coqVal(v Val) string {
	switch v.K {
	case "s":
		return "VStr " + coqBxS(v.S)
	case "i":
		return "VInt " + vhlib.CoqZ(v.I) + "%Z"
	case "f":
		return "VFloat " + vhlib.CoqN(v.F)
	case "b":
		return "VBool " + vhlib.CoqBool(v.B)
	}
	return "VNull"
}

// column names are defined once per scenario (kS_i) and referred to by name
type keyNamer struct {
	si    int
	names map[string]string
	defs  []string
}

var curKeys *keyNamer

// long Coq terms that occur several times in a scenario are defined once (content-addressed)
type defTable struct {
	si    int
	names map[string]string
	defs  []string
}

var curDefs *defTable

func defOnce(typ, body string) string {
	if curDefs == nil || len(body) < 200 {
		return body
	}
	if n, ok := curDefs.names[typ+"|"+body]; ok {
		return n
	}
	n := fmt.Sprintf("d%d_%d", curDefs.si, len(curDefs.names))
	curDefs.names[typ+"|"+body] = n
	curDefs.defs = append(curDefs.defs, fmt.Sprintf("Definition %s : %s := %s.\n", n, typ, body))
	return n
}

func coqKey(k string) string {
	if curKeys == nil {
		return coqBxS(k)
	}
	if n, ok := curKeys.names[k]; ok {
		return n
	}
	n := fmt.Sprintf("k%d_%d", curKeys.si, len(curKeys.names))
	curKeys.names[k] = n
	curKeys.defs = append(curKeys.defs, fmt.Sprintf("Definition %s : bytes := %s.\n", n, coqBxS(k)))
	return n
}

func coqFields(fs []Field) string {
	items := make([]string, len(fs))
	for i, f := range fs {
		items[i] = "(" + coqKey(f.Key) + "," + coqVal(f.V) + ")"
	}
	return "[" + strings.Join(items, ";") + "]"
}

func coqEvent(e Event) string {
	return "mkev " + vhlib.CoqN(e.Ts) + " " + coqFields(e.Fields)
}

func hexBytes(h string) string {
	b, _ := hex.DecodeString(h)
	return coqBx(b)
}

// records as (offset, length) of an occurrence of their bytes in the payload; None if a record is an
// error or its bytes do not occur in the payload (strict: that is reported as a harness error by the caller)
func coqRecs(recs []string, payload []byte) (string, bool) {
	if recs == nil {
		return "None", true
	}
	items := make([]string, len(recs))
	off := 0
	for i, r := range recs {
		if strings.HasPrefix(r, "!") {
			return "None", true
		}
		b, _ := hex.DecodeString(r)
		at := -1
		if off+len(b) <= len(payload) && bytes.Equal(payload[off:off+len(b)], b) {
			at = off
		} else {
			at = bytes.Index(payload, b)
		}
		if at < 0 {
			return "None", false
		}
		items[i] = fmt.Sprintf("(%d,%d)", at, len(b))
		off = at + len(b)
	}
	return "(Some " + vhlib.CoqList(items) + ")", true
}

func coqColObs(c ColObs) (string, bool) {
	dict := make([]string, len(c.PreDict))
	for i, row := range c.PreDict {
		dict[i] = "(" + hexBytes(row[0]) + ", [" + strings.Join(row[1:], ";") + "])"
	}
	enc := c.Enc
	if enc < 0 {
		enc = 255
	}
	seen := uint32(0)
	if c.HasSeen {
		seen = c.Seen
	}
	post := "None"
	if c.Post != c.Pre {
		post = "(Some " + hexBytes(c.Post) + ")"
	}
	payload := "None"
	if c.Payload != c.Post {
		payload = "(Some " + hexBytes(c.Payload) + ")"
	}
	pl, _ := hex.DecodeString(c.Payload)
	recs, inside := coqRecs(c.Recs, pl)
	recsSC, _ := coqRecs(c.RecsSC, pl)
	return fmt.Sprintf("mkco %s %s %s %d %s %d %s %d %s %s", coqKey(c.Name), hexBytes(c.Pre), vhlib.CoqList(dict), c.PreCnt,
		post, enc, payload, seen, recs, recsSC), inside
}

func coqBlockObs(f FlushObs) string {
	cols := make([]string, len(f.Cols))
	for i, c := range f.Cols {
		t, inside := coqColObs(c)
		if !inside {
			t = "(* reader returned bytes that are not in the block *) " + t
		}
		cols[i] = "(" + t + ")"
	}
	tsread := "None"
	if f.TsErr == "" {
		items := make([]string, len(f.TsRead))
		for i, t := range f.TsRead {
			items[i] = vhlib.CoqN(t)
		}
		tsread = "(Some " + vhlib.CoqList(items) + ")"
	}
	return fmt.Sprintf("mkbo %d %s %s %s", f.RecCount, hexBytes(f.TsBlock), tsread, vhlib.CoqListNL(cols))
}

// canonical typed value of a query hit -> Val
func parseCanon(s string) (Val, bool) {
	switch {
	case s == "n":
		return Val{K: "n"}, true
	case strings.HasPrefix(s, "s:"):
		return Val{K: "s", S: s[2:]}, true
	case strings.HasPrefix(s, "i:"):
		n, err := strconv.ParseInt(s[2:], 10, 64)
		return Val{K: "i", I: n}, err == nil
	case strings.HasPrefix(s, "f:"):
		n, err := strconv.ParseUint(s[2:], 16, 64)
		return Val{K: "f", F: n}, err == nil
	case s == "b:1":
		return Val{K: "b", B: true}, true
	case s == "b:0":
		return Val{K: "b", B: false}, true
	}
	return Val{}, false
}

// ---------- number <-> text tables for the model ----------
type fcTables struct {
	pf map[string]string // string -> "None" | "(Some bits)"
	ff map[uint64]string
}

func newTables() *fcTables { return &fcTables{pf: map[string]string{}, ff: map[uint64]string{}} }
func (t *fcTables) addFloat(bits uint64) {
	t.ff[bits] = strconv.FormatFloat(math.Float64frombits(bits), 'f', -1, 64)
}
func (t *fcTables) addStr(s string) {
	if len(s) > 400 {
		return // the generator's long strings are never numbers
	}
	if _, err := strconv.ParseInt(s, 10, 64); err == nil {
		return
	}
	f, err := strconv.ParseFloat(s, 64)
	if err != nil {
		return
	}
	t.pf[s] = "(Some " + vhlib.CoqN(math.Float64bits(f)) + ")"
	t.addFloat(math.Float64bits(f))
}
func (t *fcTables) coq() string {
	var ps, fs []string
	for _, k := range sortedStr(t.pf) {
		ps = append(ps, "("+coqBxS(k)+", "+t.pf[k]+")")
	}
	var bits []uint64
	for b := range t.ff {
		bits = append(bits, b)
	}
	sort.Slice(bits, func(i, j int) bool { return bits[i] < bits[j] })
	for _, b := range bits {
		fs = append(fs, "("+vhlib.CoqN(b)+", "+coqBxS(t.ff[b])+")")
	}
	return "(fc_of " + vhlib.CoqList(ps) + " " + vhlib.CoqList(fs) + ")"
}
func sortedStr(m map[string]string) []string {
	var ks []string
	for k := range m {
		ks = append(ks, k)
	}
	sort.Strings(ks)
	return ks
}

// ---------- oracle ----------
func numericParse(s string) (Val, bool) {
	if n, err := strconv.ParseInt(s, 10, 64); err == nil {
		return Val{K: "i", I: n}, true
	}
	if f, err := strconv.ParseFloat(s, 64); err == nil {
		return Val{K: "f", F: math.Float64bits(f)}, true
	}
	return Val{}, false
}

func decimalText(v Val) string {
	if v.K == "i" {
		return strconv.FormatInt(v.I, 10)
	}
	return strconv.FormatFloat(math.Float64frombits(v.F), 'f', -1, 64)
}

type caseRef struct {
	Scenario string   `json:"scenario"`
	Stream   string   `json:"stream"`
	Card     int      `json:"card"`
	Ops      []Op     `json:"ops"`
	Query    int      `json:"query_op"`
	Ts       uint64   `json:"ts,omitempty"`
	Key      string   `json:"key,omitempty"`
	Sent     string   `json:"sent,omitempty"`
	Got      string   `json:"got,omitempty"`
	Doc      string   `json:"doc,omitempty"`
	Note     []string `json:"note,omitempty"`
	Plan     []blockPlan `json:"block_plan,omitempty"` // reader-reuse scenarios: events / timestamp width / HighTs-LowTs / HighTs per block
	Wide     *widePlan   `json:"wide_plan,omitempty"`  // wide-event scenarios: GOMAXPROCS, columns, absent columns per block
}

// the ops of a scenario as recorded in a replay: bulk requests of more than 40 documents keep the first
// and the last three (the scenario is regenerated from tier+seed; reader-reuse scenarios also carry their block plan)
func replayOps(sc *Scenario) []Op {
	if len(sc.Events) <= 2000 {
		return sc.Ops
	}
	out := make([]Op, len(sc.Ops))
	for i, op := range sc.Ops {
		out[i] = op
		if len(op.Docs) > 40 {
			d := append([]string{}, op.Docs[:3]...)
			d = append(d, fmt.Sprintf("... %d more documents of the same shape ...", len(op.Docs)-6))
			out[i].Docs = append(d, op.Docs[len(op.Docs)-3:]...)
		}
	}
	return out
}

func keyText(sc *Scenario, k string) string {
	if sc.IdKey != "" {
		return sc.IdKey + "=" + k
	}
	return "timestamp " + strings.TrimPrefix(k, "u:")
}

// reader-reuse scenarios: which block the event is in and what the other blocks of the segment look like
func planText(sc *Scenario, e Event) string {
	if len(sc.Plan) == 0 {
		return ""
	}
	var id int64 = -1
	for _, f := range e.Fields {
		if f.Key == sc.IdKey {
			id = f.V.I
		}
	}
	var parts []string
	at, lo := -1, int64(0)
	for b, bp := range sc.Plan {
		if id >= lo && id < lo+int64(bp.N) {
			at = b
		}
		lo += int64(bp.N)
		parts = append(parts, fmt.Sprintf("block %d: %d events, %d-byte timestamp deltas (%d bytes)", b, bp.N, bp.Width, 10+bp.N*bp.Width))
	}
	return fmt.Sprintf(" [event of block %d; one segment, blocks of very different sizes searched by the same block worker(s): %s]", at, strings.Join(parts, "; "))
}

// evaluates one query result against the events that were sent and flushed
func oracle(sum *vhlib.Summary, sc *Scenario, qi int, op Op, recs []map[string]string, expected []Event, nonNumStrCol map[string]bool) int {
	fails := 0
	fail := func(class, detail string, c caseRef) {
		if sc.Stream == "known:startup_scan_adopts_open_segment" {
			// whatever the symptom (late column missing after rotation, events of the adopted blocks twice)
			detail = "the start-up scan of the segment directories ran behind the first flush (regression of b77ca50: it must skip the OPEN segment and its running .sfm): " + class + ": " + detail
			class = "startup_scan_adopts_open_segment"
		}
		c.Scenario, c.Stream, c.Card, c.Ops, c.Query = sc.Name, sc.Stream, sc.Card, replayOps(sc), qi
		c.Plan = sc.Plan
		c.Wide = sc.Wide
		sum.Fail(class, detail+widePlanText(sc), c)
		fails++
	}
	// identity of an event: its (scenario-unique) timestamp, or the scenario's id field
	recKey := func(r map[string]string) (string, bool) {
		if sc.IdKey != "" {
			v, ok := r[sc.IdKey]
			return v, ok && strings.HasPrefix(v, "i:")
		}
		t, ok := r["timestamp"]
		return t, ok && strings.HasPrefix(t, "u:")
	}
	evKey := func(e Event) string {
		if sc.IdKey != "" {
			for _, f := range e.Fields {
				if f.Key == sc.IdKey {
					return f.V.canon()
				}
			}
		}
		return fmt.Sprintf("u:%d", e.Ts)
	}
	byTs := map[string][]map[string]string{}
	for _, r := range recs {
		k, ok := recKey(r)
		if !ok {
			fail("event_invented", fmt.Sprintf("record without a timestamp%s: %v", map[bool]string{true: " or id", false: ""}[sc.IdKey != ""], r), caseRef{Got: fmt.Sprint(r)})
			continue
		}
		byTs[k] = append(byTs[k], r)
	}
	sentTs := map[string]bool{}
	// values sent per column (for the migrated/changed distinction)
	colVals := map[string]map[string]bool{}
	for _, e := range expected {
		sentTs[evKey(e)] = true
		for _, f := range e.Fields {
			if colVals[f.Key] == nil {
				colVals[f.Key] = map[string]bool{}
			}
			colVals[f.Key][f.V.canon()] = true
		}
	}
	for t, rs := range byTs {
		if !sentTs[t] {
			fail("event_invented", fmt.Sprintf("a record with %s was returned but never sent: %v", keyText(sc, t), rs[0]), caseRef{Got: fmt.Sprint(rs[0])})
		}
	}
	for _, e := range expected {
		rs := byTs[evKey(e)]
		if len(rs) == 0 && sc.Stream == "known:fieldless_first_block_breaks_flush" {
			fail("fieldless_first_block_breaks_flush", fmt.Sprintf("event ts=%d %s was accepted and flushed but not returned (the segment's first block held only field-less events)", e.Ts, clip(e.Doc)), caseRef{Ts: e.Ts, Doc: clip(e.Doc)})
			continue
		}
		if len(rs) == 0 {
			fail("event_lost", fmt.Sprintf("event ts=%d %s was accepted and flushed but not returned%s", e.Ts, clip(e.Doc), planText(sc, e)), caseRef{Ts: e.Ts, Doc: clip(e.Doc)})
			continue
		}
		if len(rs) > 1 {
			fail("event_duplicated", fmt.Sprintf("event ts=%d %s returned %d times", e.Ts, clip(e.Doc), len(rs)), caseRef{Ts: e.Ts, Doc: clip(e.Doc)})
		}
		if sc.IdKey != "" && rs[0]["timestamp"] != fmt.Sprintf("u:%d", e.Ts) {
			fail("timestamp_changed", fmt.Sprintf("event %s was sent with timestamp %d and returned with %s%s", clip(e.Doc), e.Ts, rs[0]["timestamp"], planText(sc, e)),
				caseRef{Ts: e.Ts, Key: "timestamp", Sent: fmt.Sprintf("u:%d", e.Ts), Got: rs[0]["timestamp"], Doc: clip(e.Doc)})
		}
		got := map[string]string{}
		for k, v := range rs[0] {
			if k != "timestamp" && v != "n" {
				got[k] = v
			}
		}
		sent := map[string][]Val{} // several values only for a duplicated key
		for _, f := range e.Fields {
			if f.V.K != "n" {
				sent[f.Key] = append(sent[f.Key], f.V)
			}
		}
		keys := map[string]bool{}
		for k := range got {
			keys[k] = true
		}
		for k := range sent {
			keys[k] = true
		}
		for _, k := range sortedKeys(keys) {
			g, hasG := got[k]
			ss := sent[k]
			okv := false
			for _, s := range ss {
				if hasG && s.canon() == g {
					okv = true
				}
			}
			if !hasG && len(ss) == 0 {
				okv = true
			}
			if okv {
				continue
			}
			c := caseRef{Ts: e.Ts, Key: k, Got: clip(g), Doc: clip(e.Doc)}
			if len(ss) > 0 {
				c.Sent = clip(ss[0].canon())
			}
			// the relaxation the property allows
			if len(ss) == 1 && ss[0].isNum() && hasG && g == "s:"+decimalText(ss[0]) {
				if nonNumStrCol[k] {
					sum.Count("relaxed/number_as_decimal_text")
					continue
				}
				fail("number_becomes_text_without_string", fmt.Sprintf("column %q never held a non-numeric string, yet %s came back as text %s (event ts=%d)", k, ss[0].canon(), g, e.Ts), c)
				continue
			}
			switch {
			case sc.Stream == "known:fieldless_first_block_breaks_flush":
				fail("fieldless_first_block_breaks_flush", fmt.Sprintf("after a first block of field-less events: column %q of event ts=%d: sent %s, returned %s", k, e.Ts, c.Sent, clip(g)), c)
			case sc.DupCols[k]:
				fail("duplicate_key_shifts_column", fmt.Sprintf("column %q received two values from one event (duplicate flattened key); event ts=%d sent %s, returned %s", k, e.Ts, c.Sent, clip(g)), c)
			case len(ss) == 1 && ss[0].K == "b" && hasG && g == "s:"+strconv.FormatBool(ss[0].B):
				fail("bool_becomes_text", fmt.Sprintf("column %q: bool %v came back as the string %s (event ts=%d)", k, ss[0].B, g, e.Ts), c)
			case len(ss) == 1 && ss[0].K == "s" && hasG && func() bool { p, ok := numericParse(ss[0].S); return ok && p.canon() == g }():
				fail("numeric_string_becomes_number", fmt.Sprintf("column %q: the string %q came back as the number %s (event ts=%d)", k, ss[0].S, g, e.Ts), c)
			case len(ss) == 1 && ss[0].K == "s" && ss[0].S == "" && !hasG && !op.Nulls:
				fail("empty_string_dropped_by_default", fmt.Sprintf("column %q: the empty string sent with event ts=%d is not returned by a default query (includeNulls unset)", k, e.Ts), c)
			case k == "" && !hasG:
				fail("empty_field_name_value_lost", fmt.Sprintf("the value %s sent under the empty field name \"\" is not returned (event ts=%d)", c.Sent, e.Ts), c)
			case len(ss) == 1 && ss[0].K == "f" && hasG && strings.HasPrefix(g, "i:") && math.Abs(math.Float64frombits(ss[0].F)) >= 9.2e18:
				fail("big_integer_literal_wraps", fmt.Sprintf("column %q: an integer literal beyond int64 (%s) came back as the unrelated int64 %s (event ts=%d, doc %s)", k, decimalText(ss[0]), g, e.Ts, clip(e.Doc)), c)
			case hasG && colVals[k][g] || func() bool {
				for _, f := range e.Fields {
					if f.Key != k && f.V.canon() == g {
						return true
					}
				}
				return false
			}():
				fail("value_migrated", fmt.Sprintf("column %q of event ts=%d: sent %s, returned %s, which is a value of another event or column", k, e.Ts, c.Sent, clip(g)), c)
			default:
				fail("value_changed", fmt.Sprintf("column %q of event ts=%d: sent %s, returned %s", k, e.Ts, c.Sent, clip(g)), c)
			}
		}
	}
	return fails
}

func clip(s string) string {
	if len(s) > 300 {
		return s[:300] + "…"
	}
	return s
}

// ---------- evaluation of one scenario ----------
type scenResult struct {
	coq   string // Coq definition text: "Definition cN := ...": list nat of failed checks
	ncoq  int
	fails int
}

func evalScenario(sum *vhlib.Summary, mu *sync.Mutex, si int, sc *Scenario, obs []Obs) scenResult {
	mu.Lock()
	defer mu.Unlock()
	var res scenResult
	curKeys = &keyNamer{si: si, names: map[string]string{}}
	curDefs = &defTable{si: si, names: map[string]string{}}
	defer func() { curKeys, curDefs = nil, nil }()
	tabs := newTables()
	nonNumStrCol := map[string]bool{}
	for _, e := range sc.Events {
		for _, f := range e.Fields {
			switch f.V.K {
			case "s":
				tabs.addStr(f.V.S)
				if _, ok := numericParse(f.V.S); !ok {
					nonNumStrCol[f.Key] = true
				}
			case "f":
				tabs.addFloat(f.V.F)
			}
		}
	}
	// which events were accepted
	accepted := make([]bool, len(sc.Events))
	for i, op := range sc.Ops {
		if op.Kind != "ingest" {
			continue
		}
		lo, hi := sc.Range[i][0], sc.Range[i][1]
		for j := lo; j < hi; j++ {
			st := 0
			if j-lo < len(obs[i].Status) {
				st = obs[i].Status[j-lo]
			}
			accepted[j] = st == 201
			if !accepted[j] {
				sum.Count("ingest/rejected_document")
				if sc.Stream == "main" {
					sum.HarnessError(fmt.Sprintf("scenario %s: document rejected with status %d: %s", sc.Name, st, clip(sc.Events[j].Doc)))
				}
			}
		}
	}
	// walk the ops: blocks, model ops, oracle per query
	var sops []string
	var blockObs []string
	var pending []Event
	var flushed []Event
	var lastQuery []map[string]string
	lastQueryOK := false
	var segBlocks [][]Event  // events of the flushed blocks of the open segment, by block number
	var segFlush []*FlushObs // their probe observations (nil: not a probe flush)
	segKnown := true         // false after a restart: block numbering of the open segment not tracked
	var reuseDefs []string
	var wideFlush []string // wide scenarios: one item per probe flush for FlushSlots.check_flush_list
	closeBlock := func() {
		if len(pending) > 0 {
			segBlocks = append(segBlocks, append([]Event{}, pending...))
			segFlush = append(segFlush, nil)
			if sc.ToCoq {
				evs := make([]string, len(pending))
				for i, e := range pending {
					evs[i] = coqEvent(e)
				}
				sops = append(sops, "SBlock "+vhlib.CoqListNL(evs))
			}
			flushed = append(flushed, pending...)
			pending = nil
		}
	}
	probeOK := sc.Probe
	for i, op := range sc.Ops {
		o := obs[i]
		switch op.Kind {
		case "ingest":
			for j := sc.Range[i][0]; j < sc.Range[i][1]; j++ {
				if accepted[j] {
					pending = append(pending, sc.Events[j])
				}
			}
		case "flush":
			hadPending := len(pending) > 0
			closeBlock()
			if op.Probe {
				if o.Err != "" {
					sum.HarnessError(fmt.Sprintf("scenario %s: probe flush failed: %s", sc.Name, o.Err))
					probeOK = false
				}
				if hadPending && len(o.Flushes) != 1 {
					sum.HarnessError(fmt.Sprintf("scenario %s: probe flush returned %d blocks", sc.Name, len(o.Flushes)))
					probeOK = false
				}
				if hadPending && len(o.Flushes) == 1 && len(segFlush) > 0 {
					segFlush[len(segFlush)-1] = &o.Flushes[0]
				}
				// every column block the flush stored must read back (and, in the light probe of a large block, be
				// the column of the open block): independent of the model and of the search path
				for _, f := range o.Flushes {
					nbad := 0
					for _, c := range f.Cols {
						cr := caseRef{Scenario: sc.Name, Stream: sc.Stream, Card: sc.Card, Ops: replayOps(sc), Query: i, Key: c.Name, Wide: sc.Wide, Plan: sc.Plan}
						switch {
						case c.ReadErr != "":
							nbad++
							if nbad <= 3 {
								sum.Fail("stored_column_block_unreadable", fmt.Sprintf("block %d of the segment (%d events): %s - the values of this column of these events are lost%s", f.BlockNum, f.RecCount, c.ReadErr, widePlanText(sc)), cr)
							}
							res.fails++
						case op.Light && c.Enc >= 0 && !c.SameAsOpen:
							nbad++
							if nbad <= 3 {
								sum.Fail("stored_column_block_holds_other_bytes", fmt.Sprintf("block %d of the segment (%d events): the stored block of column %q read back by SegmentFileReader (%d records) is not the column of the open block that was flushed: first difference at record %d%s", f.BlockNum, f.RecCount, c.Name, c.NRecs, c.FirstDiff, widePlanText(sc)), cr)
							}
							res.fails++
						}
					}
					if sc.Wide != nil && f.TsBlock != "" {
						// the flush walk: (column has data in the open block, a block of it was stored), timestamp column first
						items := []string{"(true, true)"}
						for _, c := range f.Cols {
							items = append(items, fmt.Sprintf("(%v, %v)", c.HasData, c.Enc >= 0 || c.ReadErr != ""))
						}
						wideFlush = append(wideFlush, fmt.Sprintf("(%d%%nat, [%s])", 2*sc.Wide.Procs, strings.Join(items, "; ")))
					}
					if op.Light {
						sum.Count("block/wide_light_probe")
						for _, c := range f.Cols {
							switch c.Enc {
							case 0:
								sum.Count("column/raw_block")
							case 1:
								sum.Count("column/dictionary_block")
							default:
								sum.Count("column/absent_in_block")
							}
						}
						continue
					}
					if sc.Plan != nil && len(sc.Events) > 700 {
						break // reader-reuse scenarios with large blocks: only the reread comparison goes to Coq
					}
					blockObs = append(blockObs, "("+coqBlockObs(f)+")")
					sum.Count(fmt.Sprintf("block/ts_type_%s", f.TsBlock[2:4]))
					for _, c := range f.Cols {
						switch {
						case c.Pre != c.Post:
							sum.Count("column/rewritten_by_consolidateColumnTypes")
						case c.Enc == 0:
							sum.Count("column/raw_block")
						case c.Enc == 1:
							sum.Count("column/dictionary_block")
						default:
							sum.Count("column/absent_in_block")
						}
						if c.RecsSC != nil {
							sum.Count("column/constant_length_in_segment")
							// the constant-length reader must see what the length-walking reader sees
							same := len(c.RecsSC) == len(c.Recs)
							for k := 0; same && k < len(c.Recs); k++ {
								same = c.Recs[k] == c.RecsSC[k]
							}
							if !same {
								sum.Fail("constant_length_shortcut_after_text_conversion",
									fmt.Sprintf("column %q block %d: AllSeenColumnSizes says every record is %d bytes, but consolidateColumnTypes rewrote the block; SegmentFileReader with that length returns %v instead of %v", c.Name, f.BlockNum, c.Seen, c.RecsSC, c.Recs),
									caseRef{Scenario: sc.Name, Stream: sc.Stream, Card: sc.Card, Ops: sc.Ops, Query: i, Key: c.Name})
								res.fails++
							}
						}
						if strings.Contains(strings.Join(c.Recs, ""), "!") {
							sum.Count("column/reader_error")
						}
					}
				}
			}
		case "reread":
			if o.Err != "" {
				sum.HarnessError(fmt.Sprintf("scenario %s: reread failed: %s", sc.Name, o.Err))
				continue
			}
			if !segKnown {
				continue
			}
			for ri, rr := range o.Rereads {
				res.fails += rereadOracle(sum, sc, i, rr, segBlocks, segFlush)
				if d, n := coqReread(si, len(reuseDefs), rr, segFlush); d != "" {
					reuseDefs = append(reuseDefs, d)
					res.ncoq += n
				}
				sum.Eval(fmt.Sprintf("%s/reread%d/%v", sc.Name, ri, rr.Order), len(rr.Order) > 1)
				sum.Count("reread/one_reader_set_over_all_blocks")
			}
		case "rotate":
			closeBlock()
			segBlocks, segFlush, segKnown = nil, nil, true
			sops = append(sops, "SRotate")
			sum.Count("op/rotate")
		case "restart":
			closeBlock()
			segBlocks, segFlush, segKnown = nil, nil, false
			sops = append(sops, "SRestart")
			sum.Count("op/restart")
		case "query":
			sum.Count(fmt.Sprintf("query/page_%d", op.Page))
			if o.Err != "" {
				sum.Fail("query_error", fmt.Sprintf("match-all query failed: %s", o.Err), caseRef{Scenario: sc.Name, Stream: sc.Stream, Ops: sc.Ops, Query: i})
				res.fails++
				lastQueryOK = false
				continue
			}
			if exp, ok := sc.Expect[i]; ok {
				// filter query of the known stream: expected timestamps
				gotTs := map[uint64]bool{}
				for _, r := range o.Recs {
					n, _ := strconv.ParseUint(strings.TrimPrefix(r["timestamp"], "u:"), 10, 64)
					gotTs[n] = true
				}
				for _, t := range exp {
					if !gotTs[t] {
						sum.Fail(strings.TrimPrefix(sc.Stream, "known:"), fmt.Sprintf("query %q does not return the event ts=%d that holds this value", op.Text, t),
							caseRef{Scenario: sc.Name, Stream: sc.Stream, Ops: sc.Ops, Query: i, Ts: t})
						res.fails++
					}
				}
				continue
			}
			res.fails += oracle(sum, sc, i, op, o.Recs, flushed, nonNumStrCol)
			sum.Eval(fmt.Sprintf("%s/q%d/%x", sc.Name, i, hashDocs(flushed)), len(flushed) > 0)
			if op.Nulls {
				lastQuery, lastQueryOK = o.Recs, true
				if len(o.Recs) != len(flushed) {
					lastQueryOK = true // still compared; the count check is part of check_e2e
				}
			}
		}
	}
	if !sc.ToCoq {
		// large wide scenarios: only the flush walk goes to Coq
		if len(wideFlush) > 0 {
			res.coq = fmt.Sprintf("Definition fl%d : list (nat * list (bool * bool)) := %s.\nDefinition c%d : list N := map (fun c => %d * 10000 + 9000 + N.of_nat c) (check_flush_list fl%d).\n",
				si, vhlib.CoqListNL(wideFlush), si, si, si)
			res.ncoq += len(wideFlush)
		}
		return res
	}
	// Coq case
	var sb strings.Builder
	fc := tabs.coq()
	card := sc.Card
	if card == 0 {
		card = 501
	}
	var parts []string
	if !(sc.Plan != nil && len(sc.Events) > 700) {
		fmt.Fprintf(&sb, "Definition ops%d : list sop := %s.\n", si, vhlib.CoqListNL(sops))
	}
	for _, d := range curDefs.defs {
		sb.WriteString(d)
	}
	for k, d := range reuseDefs {
		sb.WriteString(d)
		parts = append(parts, fmt.Sprintf("map (fun c => 6000 + 300 * %d + N.of_nat c) reuse%d_%d", k, si, k))
	}
	if sc.Probe && probeOK && len(blockObs) > 0 {
		fmt.Fprintf(&sb, "Definition obs%d : list blockobs := %s.\n", si, vhlib.CoqListNL(blockObs))
		parts = append(parts, fmt.Sprintf("map N.of_nat (check_scenario %s %d ops%d obs%d)", fc, card, si, si))
		res.ncoq += len(blockObs)
	}
	if lastQueryOK && lastQueryAtEnd(sc) && !sc.NoE2E {
		var items []string
		for _, r := range lastQuery {
			t, _ := strconv.ParseUint(strings.TrimPrefix(r["timestamp"], "u:"), 10, 64)
			var fs []Field
			ks := map[string]bool{}
			for k := range r {
				ks[k] = true
			}
			for _, k := range sortedKeys(ks) {
				if k == "timestamp" || r[k] == "n" {
					continue
				}
				v, ok := parseCanon(r[k])
				if !ok {
					v = Val{K: "s", S: "?unparsed:" + r[k]}
				}
				fs = append(fs, Field{k, v})
			}
			items = append(items, "("+vhlib.CoqN(t)+", "+coqFields(fs)+")")
		}
		fmt.Fprintf(&sb, "Definition q%d : list (N * fields) := %s.\n", si, vhlib.CoqListNL(items))
		parts = append(parts, fmt.Sprintf("map (fun c => 5000 + N.of_nat c) (check_e2e %s %d ops%d q%d)", fc, card, si, si))
		res.ncoq++
	}
	if len(wideFlush) > 0 {
		fmt.Fprintf(&sb, "Definition fl%d : list (nat * list (bool * bool)) := %s.\n", si, vhlib.CoqListNL(wideFlush))
		parts = append(parts, fmt.Sprintf("map (fun c => 9000 + N.of_nat c) (check_flush_list fl%d)", si))
		res.ncoq += len(wideFlush)
	}
	if len(parts) == 0 {
		return res
	}
	fmt.Fprintf(&sb, "Definition c%d : list N := map (fun c => %d * 10000 + c) (%s).\n", si, si, strings.Join(parts, " ++ "))
	res.coq = strings.Join(curKeys.defs, "") + sb.String()
	return res
}

// ---------- reread: one reader set over all blocks of the open segment ----------
func blkText(rr RereadObs, k int) string {
	b := rr.Blocks[k]
	t := fmt.Sprintf("block %d (%d records, %d bytes of timestamps)", b.Blk, b.N, b.TsLen)
	if k > 0 {
		var prev []string
		for _, p := range rr.Blocks[:k] {
			prev = append(prev, fmt.Sprintf("block %d (%d records, %d bytes of timestamps)", p.Blk, p.N, p.TsLen))
		}
		t += " read by a reader that had read " + strings.Join(prev, ", then ") + " before"
	} else {
		t += " read first"
	}
	return t
}

// property oracle at the reader level: what one TimeRangeReader / SegmentFileReader returns for a block does
// not depend on the blocks it read before: the timestamps are the ones sent with the block's events, in
// order; the column records are the ones a fresh reader returns
func rereadOracle(sum *vhlib.Summary, sc *Scenario, qi int, rr RereadObs, segBlocks [][]Event, segFlush []*FlushObs) int {
	fails := 0
	fail := func(class, detail string, c caseRef) {
		c.Scenario, c.Stream, c.Card, c.Ops, c.Query, c.Plan = sc.Name, sc.Stream, sc.Card, replayOps(sc), qi, sc.Plan
		c.Note = append(c.Note, fmt.Sprintf("reread order (block numbers of the open segment): %v", rr.Order))
		sum.Fail(class, detail, c)
		fails++
	}
	for k, b := range rr.Blocks {
		if b.Blk >= len(segBlocks) {
			continue
		}
		evs := segBlocks[b.Blk]
		okTs := b.TsErr == "" && len(b.TsRead) == len(evs)
		for j := 0; okTs && j < len(evs); j++ {
			okTs = b.TsRead[j] == evs[j].Ts
		}
		if !okTs {
			got := b.TsErr
			if got == "" {
				got = fmt.Sprintf("%d timestamps, first differing at record %d", len(b.TsRead), firstDiff(b.TsRead, evs))
			}
			fail("reused_time_reader_loses_block", fmt.Sprintf("TimeRangeReader.GetAllTimeStampsForBlock: %s: %s (sent: %d events, first %s)", blkText(rr, k), got, len(evs), clip(evs[0].Doc)),
				caseRef{Ts: evs[0].Ts, Key: "timestamp", Got: got, Doc: clip(evs[0].Doc)})
		}
		if b.Blk < len(segFlush) && segFlush[b.Blk] != nil {
			for _, c := range segFlush[b.Blk].Cols {
				got, present := b.Cols[c.Name]
				if c.Enc < 0 || !present {
					continue
				}
				same := len(got) == len(c.Recs)
				at := -1
				for j := 0; same && j < len(got); j++ {
					if got[j] != c.Recs[j] {
						same, at = false, j
					}
				}
				if !same {
					g, w := fmt.Sprintf("%d records", len(got)), fmt.Sprintf("%d records", len(c.Recs))
					if at >= 0 {
						g, w = got[at], c.Recs[at]
					}
					fail("reused_column_reader_changes_records", fmt.Sprintf("SegmentFileReader of column %q: %s: record %d is %s, a fresh reader returns %s", c.Name, blkText(rr, k), at, clip(g), clip(w)),
						caseRef{Key: c.Name, Got: clip(g), Sent: clip(w)})
				}
			}
		}
	}
	return fails
}

func firstDiff(got []uint64, evs []Event) int {
	for j := range evs {
		if j >= len(got) || got[j] != evs[j].Ts {
			return j
		}
	}
	return len(evs)
}

// coqc parses a list literal recursively: more than ~10 000 elements overflow its stack; long lists are
// written as a concatenation of literals of 4000 elements
func coqLongList(items []string) string {
	if len(items) <= 4000 {
		return vhlib.CoqList(items)
	}
	var parts []string
	for i := 0; i < len(items); i += 4000 {
		j := i + 4000
		if j > len(items) {
			j = len(items)
		}
		parts = append(parts, vhlib.CoqList(items[i:j]))
	}
	return "(" + strings.Join(parts, " ++ ") + ")"
}

// Coq case of one reread: the model's stateful readers (ReaderReuse.v) on the real block bytes, in the same order
func coqReread(si, k int, rr RereadObs, segFlush []*FlushObs) (string, int) {
	var ts []string
	cols := map[string][]string{}
	var names []string
	for _, b := range rr.Blocks {
		if b.Blk >= len(segFlush) || segFlush[b.Blk] == nil {
			return "", 0
		}
		f := segFlush[b.Blk]
		obs := "None"
		if b.TsErr == "" {
			items := make([]string, len(b.TsRead))
			for i, t := range b.TsRead {
				items[i] = vhlib.CoqN(t)
			}
			obs = "(Some " + coqLongList(items) + ")"
		}
		ts = append(ts, fmt.Sprintf("(%d%%nat, %s, %s)", b.N, defOnce("bytes", hexBytes(f.TsBlock)), defOnce("option (list N)", obs)))
		for _, c := range f.Cols {
			got, present := b.Cols[c.Name]
			if c.Enc < 0 || !present {
				continue
			}
			// very large blocks: the walk of the model's raw reader is quadratic in Coq (it measures the rest of
			// the buffer at every record).  A raw block does not touch the reader state of the model and is left
			// out; a dictionary block stays in the sequence (it rewrites the table) without record comparison
			large := b.N > 2000
			if large && c.Enc == 0 {
				continue
			}
			pl, _ := hex.DecodeString(c.Payload)
			recs, cmp := "None", "false"
			if !large {
				recs, _ = coqRecs(got, pl)
				cmp = "true"
			}
			if _, ok := cols[c.Name]; !ok {
				names = append(names, c.Name)
			}
			cols[c.Name] = append(cols[c.Name], fmt.Sprintf("(%d%%nat, %d, %s, %s, %s)", b.N, c.Enc, defOnce("bytes", hexBytes(c.Payload)), defOnce("option (list (N * N))", recs), cmp))
		}
	}
	var cl []string
	for _, n := range names {
		cl = append(cl, vhlib.CoqListNL(cols[n]))
	}
	return fmt.Sprintf("Definition reuse%d_%d : list nat := check_reuse %s %s.\n", si, k, vhlib.CoqListNL(ts), vhlib.CoqListNL(cl)), len(rr.Blocks)
}

// the last query of a scenario sees every event (all blocks are flushed before it)
func lastQueryAtEnd(sc *Scenario) bool {
	for i := len(sc.Ops) - 1; i >= 0; i-- {
		switch sc.Ops[i].Kind {
		case "query":
			return sc.Ops[i].Nulls && sc.Expect[i] == nil
		case "ingest":
			return false
		}
	}
	return false
}

func hashDocs(evs []Event) uint64 {
	h := fnv.New64a()
	for _, e := range evs {
		h.Write([]byte(e.Doc))
	}
	return h.Sum64()
}

// ---------- known-class stream ----------
func q(page int) Op { return Op{Kind: "query", Page: page, Nulls: true} }

// the start-up scan (a goroutine of InitQueryNode) scheduled after the first flush of the process: before the
// repair b77ca50 it found the open segment's directory with its running .sfm, which lists the columns seen SO
// FAR, and registered it as a rotated segment; the real rotation did not replace that entry, so a column that
// first appeared in a later block was missing from every search of the rotated segment.  Regression stream: the
// scan now skips segments this process is still writing; the scenario expects the exact round trip (oracle and
// the model's read_all), a failure is reported under the class startup_scan_adopts_open_segment
func genLateScan() *Scenario {
	sc := handScenario("latescan", "known:startup_scan_adopts_open_segment", 0,
		[][]string{{`{"a":1}`, `{"a":2}`}, {`{"a":3,"b":"late"}`}}, []Op{q(100), {Kind: "rotate"}, q(100)})
	// ops: ingest, flush, ingest, flush, query, rotate, query -> latescan after the first flush
	sc.Ops = append(sc.Ops[:2], append([]Op{{Kind: "latescan"}}, sc.Ops[2:]...)...)
	sc.Range = append(sc.Range[:2], append([][2]int{{}}, sc.Range[2:]...)...)
	return sc
}

func genKnown(r *vhlib.Rng) []*Scenario {
	var out []*Scenario
	out = append(out, genLateScan())
	var sc *Scenario
	add := func(sc *Scenario) { out = append(out, sc) }
	// duplicate (flattened) key: raw block (cardinality limit reached) -> later records shift; dictionary block -> one value wins
	add(handScenario("dupkey_raw", "known:duplicate_key_shifts_column", 2,
		[][]string{{`{"a":7,"a":8,"z":"p"}`, `{"a":9,"z":"q"}`, `{"a":10,"z":"r"}`}}, []Op{q(2)}))
	sc = handScenario("dupkey_dict", "known:duplicate_key_shifts_column", 0,
		[][]string{{`{"a":7,"a":8}`, `{"a":9}`}}, []Op{q(10000)})
	add(sc)
	add(handScenario("dupkey_flatten_collision", "known:duplicate_key_shifts_column", 1,
		[][]string{{`{"a.b":1,"a":{"b":2},"c":"x"}`, `{"a.b":3,"c":"y"}`, `{"a":{"b":4},"c":"z"}`}}, []Op{{Kind: "rotate"}, q(1)}))
	for k := 0; k < 3; k++ {
		n := 2 + r.Intn(4)
		var docs []string
		dupAt := r.Intn(n - 1)
		for i := 0; i < n; i++ {
			if i == dupAt {
				docs = append(docs, fmt.Sprintf(`{"k":"v%d","k":"w%d","m":%d}`, i, i, i))
			} else {
				docs = append(docs, fmt.Sprintf(`{"k":"v%d","m":%d}`, i, i))
			}
		}
		add(handScenario(fmt.Sprintf("dupkey_rand%d", k), "known:duplicate_key_shifts_column", 1+r.Intn(2), [][]string{docs}, []Op{q(1 + r.Intn(4))}))
	}
	// number-looking strings in a column that also holds numbers
	add(handScenario("numstr_min", "known:numeric_string_becomes_number", 0,
		[][]string{{`{"a":5}`, `{"a":"007"}`, `{"a":"1e3"}`}}, []Op{q(2)}))
	add(handScenario("numstr_nan_inf", "known:numeric_string_becomes_number", 3,
		[][]string{{`{"a":1.5,"b":"x"}`, `{"a":"NaN","b":"y"}`, `{"a":"-Inf","b":"z"}`, `{"a":"0x1p4"}`, `{"a":"+5"}`}}, []Op{{Kind: "rotate"}, {Kind: "restart"}, q(3)}))
	for k := 0; k < 3; k++ {
		n := 3 + r.Intn(5)
		var docs []string
		for i := 0; i < n; i++ {
			if i%2 == 0 {
				docs = append(docs, fmt.Sprintf(`{"v":%s}`, vhlib.Pick(r, intPool)))
			} else {
				docs = append(docs, fmt.Sprintf(`{"v":%q}`, vhlib.Pick(r, []string{"007", "1e3", "42", "-5", "+5", "3.14", "1E2", "123456", ".5", "5."})))
			}
		}
		add(handScenario(fmt.Sprintf("numstr_rand%d", k), "known:numeric_string_becomes_number", vhlib.Pick(r, []int{0, 2, 4}), [][]string{docs}, []Op{q(1 + r.Intn(5))}))
	}
	// bool / number columns turned into text without any non-numeric string
	add(handScenario("bool_text_late", "known:bool_becomes_text", 0,
		[][]string{{`{"b":1}`, `{"a":true,"b":1}`, `{"a":5,"b":1}`}}, []Op{q(10000)}))
	add(handScenario("bool_text_mixed", "known:bool_becomes_text", 0,
		[][]string{{`{"a":true}`, `{"a":1}`, `{"a":"x"}`}}, []Op{q(2)}))
	add(handScenario("num_text_bloom_from_earlier_block", "known:number_becomes_text_without_string", 0,
		[][]string{{`{"b":1}`, `{"a":false,"b":2}`}, {`{"a":2.5,"b":1}`, `{"a":true,"b":1}`}}, []Op{q(3)}))
	// empty string values and the empty field name
	sc = handScenario("empty_string_default_query", "known:empty_string_dropped_by_default", 0,
		[][]string{{`{"em":"","x":1}`, `{"em":"full","x":2}`}}, []Op{{Kind: "query", Page: 10000}})
	add(sc)
	sc = handScenario("empty_field_name", "known:empty_field_name_value_lost", 0,
		[][]string{{`{"":"v","x":1}`, `{"x":2}`}}, []Op{q(10000)})
	add(sc)
	// a search over all columns of a segment that has the column "" (before the repair: nil reader set, crash)
	sc = handScenario("empty_field_name_search", "known:empty_field_name_value_lost", 0,
		[][]string{{`{"":"needle","x":1}`, `{"x":2}`}}, []Op{{Kind: "rotate"}, {Kind: "query", Text: `needle`, Nulls: true}})
	sc.Expect[len(sc.Ops)-1] = []uint64{sc.Events[0].Ts}
	sc.NoE2E = true
	add(sc)
	// integer literals beyond int64 whose overflow jsonparser.ParseInt does not notice
	sc = handScenario("bigint_wrap_min", "known:big_integer_literal_wraps", 0,
		[][]string{{`{"a":82500000000000000000}`, `{"a":1}`}}, []Op{q(10000)})
	add(sc)
	for k := 0; k < 2; k++ {
		lit := fmt.Sprintf("82%018d", r.U64()%1000000000000000000)
		sc = handScenario(fmt.Sprintf("bigint_wrap_rand%d", k), "known:big_integer_literal_wraps", 0,
			[][]string{{fmt.Sprintf(`{"a":%s,"b":"x"}`, lit), `{"a":2.5}`}}, []Op{q(10000)})
		add(sc)
	}
	// a first block of field-less events: FlushSegStats fails, the flush is abandoned half way
	sc = handScenario("fieldless_first_block", "known:fieldless_first_block_breaks_flush", 0,
		[][]string{{`{}`}, {`{"a":"x"}`}}, []Op{q(10000)})
	add(sc)
	// latent: only with a cardinality limit below 4 (test knob SetCardinalityLimit; the default is 501).
	// block 1: column m2 has a bloom, holds only a null, is stored raw -> bloom.NewWithEstimates(0);
	// block 2: m2 holds a string and a number -> convertColumnToStrings adds to that filter: never returns
	sc = handScenario("degenerate_bloom_hang", "known:degenerate_bloom_hangs_flush_with_tiny_cardinality_limit", 1,
		[][]string{{`{"m2":"n/a","x":1}`}, {`{"m2":null,"x":2}`}, {`{"m2":"n/a","x":3}`, `{"m2":1.5,"x":4}`}}, []Op{q(10000)})
	sc.Timeout = 12
	add(sc)
	// constant record length recorded for the segment, then the block is rewritten as text
	sc = handScenario("shortcut_after_text_conversion", "known:constant_length_shortcut_after_text_conversion", 0,
		[][]string{{`{"a":5}`, `{"a":"abcdef"}`, `{"a":1.5}`, `{"a":"ghijkl"}`}},
		[]Op{q(10000), {Kind: "rotate"}, {Kind: "query", Text: `a=ghijkl`, Nulls: true}})
	sc.Expect[len(sc.Ops)-1] = []uint64{sc.Events[3].Ts}
	add(sc)
	return out
}

// ---------- codec streams (no server state) ----------
func randTlvWord(r *vhlib.Rng) []byte {
	switch r.Intn(5) {
	case 0:
		s := vhlib.Pick(r, strPool)
		if r.Chance(20) {
			s = longStr(r, 300+r.Intn(300))
		}
		return append([]byte{2, byte(len(s)), byte(len(s) >> 8)}, s...)
	case 1:
		return []byte{1, byte(r.Intn(2))}
	case 2:
		b := []byte{0x10, 0, 0, 0, 0, 0, 0, 0, 0}
		x := r.U64() >> uint(r.Intn(64))
		for i := 0; i < 8; i++ {
			b[1+i] = byte(x >> (8 * uint(i)))
		}
		return b
	case 3:
		b := []byte{0x11, 0, 0, 0, 0, 0, 0, 0, 0}
		x := r.U64()
		for i := 0; i < 8; i++ {
			b[1+i] = byte(x >> (8 * uint(i)))
		}
		return b
	}
	return []byte{0x13}
}

// dictionary pack/unpack: real PackDictEnc bytes parse to the model's entries (map order free) and
// the real ReadDictEnc tables equal the model's read_dict on the same bytes
func codecDict(sum *vhlib.Summary, r *vhlib.Rng, n int, dir string) {
	var cases []string
	for c := 0; c < n; c++ {
		nrec := 1 + r.Intn(40)
		nw := 1 + r.Intn(6)
		if nw > nrec {
			nw = nrec
		}
		words := [][]byte{}
		seen := map[string]bool{}
		for len(words) < nw {
			w := randTlvWord(r)
			if !seen[string(w)] {
				seen[string(w)] = true
				words = append(words, w)
			}
		}
		recs := make([][]uint16, nw)
		for i := 0; i < nrec; i++ {
			k := r.Intn(nw)
			recs[k] = append(recs[k], uint16(i))
		}
		packed := writer.VerifC01PackDict(words, recs, uint16(nrec))
		sums := []*structs.BlockSummary{{RecCount: uint16(nrec)}}
		sfr, _ := segreader.InitNewSegFileReader(nil, "c", map[uint16]struct{}{0: {}}, 0, sums, sutils.INCONSISTENT_CVAL_SIZE, nil)
		err := sfr.ReadDictEnc(packed, 0)
		var obs string
		if err != nil {
			obs = "None"
		} else {
			var tl, tb []string
			for _, w := range sfr.GetDeTlv() {
				tl = append(tl, coqBx(w))
			}
			for _, x := range sfr.GetDeRecToTlv() {
				tb = append(tb, strconv.Itoa(int(x)))
			}
			obs = "(Some (" + vhlib.CoqList(tl) + ", [" + strings.Join(tb, ";") + "]))"
		}
		var d []string
		for i, w := range words {
			var rs []string
			for _, x := range recs[i] {
				rs = append(rs, strconv.Itoa(int(x)))
			}
			d = append(d, "("+coqBx(w)+", ["+strings.Join(rs, ";")+"])")
		}
		cases = append(cases, fmt.Sprintf("(%d%%nat, %s, %s, %s)", nrec, vhlib.CoqList(d), coqBx(packed), obs))
		sum.Eval(fmt.Sprintf("dict/%x", fnvBytes(packed)), true)
		sum.Count("codec/dictionary_pack_unpack")
	}
	defs := "Definition cases : list (nat * list (bytes * list N) * bytes * option (list bytes * list N)) := " + vhlib.CoqListNL(cases) + ".\n" +
		`Definition tbl_eqb (a b : option (list bytes * list N)) : bool :=
  match a, b with
  | Some (t1, r1), Some (t2, r2) => list_eqb bytes_eqb t1 t2 && list_eqb N.eqb r1 r2
  | None, None => true
  | _, _ => false
  end.
Definition ok1 (c : nat * list (bytes * list N) * bytes * option (list bytes * list N)) : bool :=
  let '(n, d, packed, obs) := c in
  (match parse_dict packed with Some (cnt, es) => (cnt =? N.of_nat (length d)) && dict_same d es | None => false end)
  && tbl_eqb (read_dict n packed) obs.
Fixpoint bad (i : nat) (l : list (nat * list (bytes * list N) * bytes * option (list bytes * list N))) : list nat :=
  match l with [] => [] | c :: r => (if ok1 c then [] else [i]) ++ bad (S i) r end.
`
	sum.WriteCaseFile(dir, "dictcodec", "From Coq Require Import Uint63.\nFrom SigM Require Import Base Tlv TsEnc ColStore ColStoreCheck.", defs, "bad 0 cases", n)
}

// TLV decoding: real GetCvalFromRec vs dec_val on every scalar type incl. the small integer types
func codecTlv(sum *vhlib.Summary, r *vhlib.Rng, n int, dir string) {
	var cases []string
	for c := 0; c < n; c++ {
		var rec []byte
		t := vhlib.Pick(r, []byte{1, 2, 3, 4, 5, 6, 7, 8, 9, 0x10, 0x11, 0x13})
		width := map[byte]int{1: 1, 3: 1, 4: 2, 5: 4, 6: 8, 7: 1, 8: 2, 9: 4, 0x10: 8, 0x11: 8, 0x13: 0}
		if t == 2 {
			rec = randTlvWord(r)
			for rec[0] != 2 {
				rec = randTlvWord(r)
			}
		} else {
			rec = []byte{t}
			for i := 0; i < width[t]; i++ {
				b := byte(r.U64())
				if r.Chance(30) {
					b = vhlib.Pick(r, []byte{0, 0xff, 0x80, 0x7f})
				}
				rec = append(rec, b)
			}
		}
		tail := r.Intn(3)
		for i := 0; i < tail; i++ {
			rec = append(rec, byte(r.U64()))
		}
		var cv sutils.CValueEnclosure
		end, err := writer.GetCvalFromRec(rec, 0, &cv)
		exp := "None"
		if err == nil {
			v := ""
			switch x := cv.CVal.(type) {
			case string:
				v = "VStr " + vhlib.CoqStr(x)
			case bool:
				v = "VBool " + vhlib.CoqBool(x)
			case int64:
				v = "VInt " + vhlib.CoqZ(x) + "%Z"
			case uint64:
				v = "VUint " + vhlib.CoqN(x)
			case float64:
				v = "VFloat " + vhlib.CoqN(math.Float64bits(x))
			case nil:
				v = "VNull"
			}
			exp = fmt.Sprintf("(Some (%s, %d))", v, int(end))
		}
		cases = append(cases, "("+coqBx(rec)+", "+exp+")")
		sum.Eval(fmt.Sprintf("tlv/%x", fnvBytes(rec)), true)
		sum.Count(fmt.Sprintf("codec/tlv_type_%02x", t))
	}
	defs := "Definition cases : list (bytes * option (cval * N)) := " + vhlib.CoqListNL(cases) + ".\n" +
		`Definition ok1 (c : bytes * option (cval * N)) : bool :=
  let '(rec, exp) := c in
  match dec_val rec, exp with
  | Some (v, rest), Some (v', e) => cval_eqb v v' && (N.of_nat (length rec - length rest) =? e)
       && (match reclen rec with Some l => l =? e | None => false end)
  | None, None => true
  | _, _ => false
  end.
Fixpoint bad (i : nat) (l : list (bytes * option (cval * N))) : list nat :=
  match l with [] => [] | c :: r => (if ok1 c then [] else [i]) ++ bad (S i) r end.
`
	sum.WriteCaseFile(dir, "tlvcodec", "From Coq Require Import Uint63.\nFrom SigM Require Import Base Tlv TsEnc ColStore ColStoreCheck.", defs, "bad 0 cases", n)
}

func fnvBytes(b []byte) uint64 {
	h := fnv.New64a()
	h.Write(b)
	return h.Sum64()
}

// ---------- main ----------
func main() {
	if len(os.Args) >= 5 && os.Args[1] == "worker" {
		workerMain(os.Args[2], os.Args[3], os.Args[4])
		return
	}
	if len(os.Args) >= 3 && os.Args[1] == "probe" {
		// probe <script.json> : run a hand-written scenario, print the observations (development aid)
		b, err := os.ReadFile(os.Args[2])
		if err != nil {
			fmt.Println(err)
			os.Exit(2)
		}
		var ops []Op
		if err := json.Unmarshal(b, &ops); err != nil {
			fmt.Println(err)
			os.Exit(2)
		}
		dir, _ := os.MkdirTemp("", "C01_probe")
		defer os.RemoveAll(dir)
		obs, err := runScenario(dir, ops, 0)
		if err != nil {
			fmt.Println("ERR", err)
			os.Exit(1)
		}
		for i, o := range obs {
			ob, _ := json.Marshal(o)
			fmt.Printf("%d %s: %s\n", i, ops[i].Kind, ob)
		}
		return
	}
	cfg := vhlib.ParseFlags()
	sum := vhlib.NewSummary("distinct = (scenario, query op, hash of the documents flushed before the query) for end-to-end evaluations with at least one flushed event; (hash of the packed bytes / record bytes) for the codec streams")
	r := vhlib.NewRng(cfg.Seed)
	nProbe, nPlain, nBig := 70, 70, 4
	nCodec := 150
	if cfg.Thorough() {
		nProbe, nPlain, nBig, nCodec = 700, 1200, 60, 3000
	}
	var scs []*Scenario
	for i := 0; i < nProbe; i++ {
		scs = append(scs, genMain(r.Fork(), fmt.Sprintf("probe%d", i), true, false))
	}
	for i := 0; i < nPlain; i++ {
		scs = append(scs, genMain(r.Fork(), fmt.Sprintf("plain%d", i), false, false))
	}
	for i := 0; i < nBig; i++ {
		scs = append(scs, genMain(r.Fork(), fmt.Sprintf("big%d", i), false, true))
	}
	scs = append(scs, genSpecial(r.Fork(), cfg.Thorough())...)
	// reader-reuse scenarios: blocks of very different sizes in one segment, one or two block workers
	nReuse, bigs := 4, []int{8, 8}
	if cfg.Thorough() {
		nReuse, bigs = 60, []int{8, 8, 8, 4, 4, 2, 8, 4}
	}
	rr := vhlib.NewRng(cfg.Seed ^ 0xC01EC01EC01E5EED) // its own stream: the older streams keep their seeds
	for i := 0; i < nReuse; i++ {
		scs = append(scs, genReuse(rr.Fork(), fmt.Sprintf("reuse%d", i), 0, 1+i%2))
	}
	for i, w := range bigs {
		scs = append(scs, genReuse(rr.Fork(), fmt.Sprintf("reuse_big%d", i), w, 1+(i%4)/3))
	}
	// wide events: more columns than the flush parallelism 2*GOMAXPROCS (GOMAXPROCS 1, 2, 16), sparse blocks
	wr := vhlib.NewRng(cfg.Seed ^ 0x00C01A11DEC01A11) // its own stream
	nWideSmall, wideBig := 6, [][4]int{{2, 20, 5, 650}, {16, 104, 4, 560}, {1, 14, 4, 600}}
	if cfg.Thorough() {
		nWideSmall = 80
		wideBig = [][4]int{{2, 20, 6, 700}, {16, 104, 6, 1500}, {1, 14, 5, 600}, {2, 20, 8, 900}, {16, 104, 5, 600}, {16, 70, 6, 800},
			{4, 32, 6, 700}, {8, 56, 6, 700}, {2, 13, 8, 1200}, {1, 8, 6, 700}, {16, 104, 6, 900}, {3, 26, 6, 800}}
	}
	for i := 0; i < nWideSmall; i++ {
		scs = append(scs, genWideSmall(wr.Fork(), fmt.Sprintf("wide_small%d", i), 1+i%2))
	}
	for i, w := range wideBig {
		scs = append(scs, genWide(wr.Fork(), fmt.Sprintf("wide%d", i), w[0], w[1], w[2], w[3]))
	}
	kr := r.Fork()
	scs = append(scs, genKnown(kr)...)

	// development aid: C01_ONLY=<prefix> keeps the scenarios whose name starts with the prefix
	if only := os.Getenv("C01_ONLY"); only != "" {
		var keep []*Scenario
		for _, sc := range scs {
			if strings.HasPrefix(sc.Name, only) {
				keep = append(keep, sc)
			}
		}
		scs = keep
	}
	// run
	results := make([][]Obs, len(scs))
	errs := make([]error, len(scs))
	var wg sync.WaitGroup
	sem := make(chan struct{}, 8)
	base := filepath.Join(cfg.Out, "run")
	for i := range scs {
		wg.Add(1)
		sem <- struct{}{}
		go func(i int) {
			defer wg.Done()
			defer func() { <-sem }()
			dir := filepath.Join(base, fmt.Sprintf("s%d", i))
			results[i], errs[i] = runScenario(dir, scs[i].Ops, scs[i].Timeout)
			_ = os.RemoveAll(dir)
		}(i)
	}
	wg.Wait()
	var mu sync.Mutex
	var coqDefs []string
	var coqIdx []int
	for i, sc := range scs {
		sum.Count("stream/" + sc.Stream)
		if errs[i] != nil {
			// a crash/hang of the server code under a generated scenario
			if strings.HasPrefix(sc.Stream, "known:") {
				sum.Fail(strings.TrimPrefix(sc.Stream, "known:"), "worker failed: "+errs[i].Error(), caseRef{Scenario: sc.Name, Stream: sc.Stream, Ops: sc.Ops})
			} else {
				sum.Fail("worker_crash", "worker failed: "+errs[i].Error(), caseRef{Scenario: sc.Name, Stream: sc.Stream, Card: sc.Card, Ops: sc.Ops})
			}
			continue
		}
		res := evalScenario(sum, &mu, i, sc, results[i])
		if res.coq != "" {
			coqDefs = append(coqDefs, res.coq)
			coqIdx = append(coqIdx, i)
		}
		if len(sum.Samples) < 3 && sc.Stream == "main" && len(sc.Events) > 0 {
			sum.Sample(map[string]interface{}{"scenario": sc.Name, "card": sc.Card, "n_events": len(sc.Events), "first_doc": clip(sc.Events[0].Doc), "ops": opKinds(sc.Ops)})
		}
		_ = res
	}
	// shard the Coq case files by size
	imports := "From Coq Require Import Uint63.\nFrom SigM Require Import Base Tlv TsEnc ColStore ColStoreCheck FlushSlots."
	var cur strings.Builder
	var curIdx []int
	shard := 0
	flush := func() {
		if len(curIdx) == 0 {
			return
		}
		var parts []string
		for _, i := range curIdx {
			parts = append(parts, fmt.Sprintf("c%d", i))
		}
		sum.WriteCaseFile(cfg.Out, fmt.Sprintf("cases%d", shard), imports, cur.String(), "concat ["+strings.Join(parts, "; ")+"]", len(curIdx))
		shard++
		cur.Reset()
		curIdx = nil
	}
	for k, d := range coqDefs {
		if cur.Len()+len(d) > 350000 && len(curIdx) > 0 {
			flush()
		}
		cur.WriteString(d)
		curIdx = append(curIdx, coqIdx[k])
	}
	flush()
	codecDict(sum, r.Fork(), nCodec, cfg.Out)
	codecTlv(sum, r.Fork(), nCodec*2, cfg.Out)
	sum.Notes = append(sum.Notes,
		"every event carries an explicit, scenario-unique 13-digit millisecond timestamp; match-all queries pass explicit epochs, includeNulls=true and are paged",
		"floats are compared by bit pattern; expected value of a JSON number literal = int64 if it is an integer literal in range, else strconv.ParseFloat",
		"dictionary blocks are compared entry-wise (Go map order is free); raw blocks after zstd decompression byte for byte")
	sum.Write(cfg.Out)
}

func opKinds(ops []Op) string {
	var ks []string
	for _, o := range ops {
		ks = append(ks, o.Kind)
	}
	return strings.Join(ks, ",")
}

// special main-stream scenarios: cardinality across the default limit 501, long values, one-event blocks
func genSpecial(r *vhlib.Rng, thorough bool) []*Scenario {
	var out []*Scenario
	// default dictionary limit: columns with 499..503 distinct values in one block
	for _, distinct := range []int{499, 500, 501, 502} {
		sc := &Scenario{Name: fmt.Sprintf("card501_%d", distinct), Stream: "main", Probe: true, ToCoq: false, DupCols: map[string]bool{}, Expect: map[int][]uint64{}}
		var docs []string
		n := distinct + 20
		for i := 0; i < n; i++ {
			ts := tsBase + 1 + uint64(i)*3
			v := i % distinct
			d := fmt.Sprintf(`{"timestamp":%d,"hc":"v%d","lc":%d,"u":%d}`, ts, v, i%7, i)
			ev := Event{Ts: ts, Doc: d, Fields: []Field{{"hc", Val{K: "s", S: fmt.Sprintf("v%d", v)}}, {"lc", Val{K: "i", I: int64(i % 7)}}, {"u", Val{K: "i", I: int64(i)}}}}
			sc.Events = append(sc.Events, ev)
			docs = append(docs, d)
		}
		sc.Ops = []Op{{Kind: "ingest", Docs: docs}, {Kind: "flush", Probe: true}, {Kind: "query", Page: 97, Nulls: true}, {Kind: "rotate"}, {Kind: "restart"}, {Kind: "query", Page: 10000, Nulls: true}}
		sc.Range = [][2]int{{0, n}, {}, {}, {}, {}, {}}
		sc.ToCoq = distinct == 500 || distinct == 501
		out = append(out, sc)
	}
	// long values: documents close to the 63,000-byte record limit
	{
		sc := &Scenario{Name: "long_values", Stream: "main", Probe: false, ToCoq: false, DupCols: map[string]bool{}, Expect: map[int][]uint64{}}
		var docs []string
		for i, n := range []int{30000, 62000, 100, 45000} {
			ts := tsBase + 1 + uint64(i)
			s := longStr(r, n)
			s2 := longStr(r, 10+r.Intn(500))
			d := fmt.Sprintf(`{"timestamp":%d,"big":%q,"small":%q,"i":%d}`, ts, s, s2, i)
			ev := Event{Ts: ts, Doc: d, Fields: []Field{{"big", Val{K: "s", S: s}}, {"small", Val{K: "s", S: s2}}, {"i", Val{K: "i", I: int64(i)}}}}
			sc.Events = append(sc.Events, ev)
			docs = append(docs, d)
		}
		sc.Ops = []Op{{Kind: "ingest", Docs: docs}, {Kind: "flush"}, {Kind: "query", Page: 2, Nulls: true}, {Kind: "rotate"}, {Kind: "query", Page: 3, Nulls: true}}
		sc.Range = [][2]int{{0, 4}, {}, {}, {}, {}}
		out = append(out, sc)
	}
	return out
}

// c01 wide events: more columns than every parallelism constant of the block flush.
//
// AppendWipToSegfile flushes the columns of the open block in waves of flushParallelism = 2*GOMAXPROCS
// goroutines (1 in low-memory mode); every goroutine of a wave owns one scratch buffer (bloom
// lower-casing scratch, then the destination of the zstd compression).  colWips holds every column the
// SEGMENT has seen; a column without a value in this block is skipped inside the walk.  The scenarios
// here have more columns than one wave holds (2*GOMAXPROCS for GOMAXPROCS = 1, 2 and 16: 3, 5 .. 104
// columns), blocks that lack columns of earlier blocks (and columns that first appear in a later block),
// and high-cardinality columns (zstd blocks) next to dictionary columns.  The oracle is the round trip of
// the property: every column of every event comes back exactly (paged match-all, open and rotated
// segment), and every column block a probe flush wrote can be read back.
package main

import (
	"fmt"
	"strconv"
	"strings"

	"verifharness/vhlib"
)

// widePlan: what a replay needs to know beyond the documents
type widePlan struct {
	Procs  int      `json:"gomaxprocs"`
	NCols  int      `json:"columns"`
	Blocks []string `json:"blocks"` // per block: events, number of columns present, first absent columns
}

func widePlanText(sc *Scenario) string {
	if sc.Wide == nil {
		return ""
	}
	return fmt.Sprintf(" [wide events: %d columns, GOMAXPROCS %d = flush waves of %d column goroutines; %s]",
		sc.Wide.NCols, sc.Wide.Procs, 2*sc.Wide.Procs, strings.Join(sc.Wide.Blocks, "; "))
}

var wideWords = []string{"alpha", "Bravo", "charlie", "DELTA", "echo", "Foxtrot", "golf", "hotel", "India", "juliet", "kilo", "Lima"}

// genWide: large blocks, the default dictionary limit; end-to-end oracle + readability of every flushed
// column block (no Coq comparison: the blocks are large).
//   procs  GOMAXPROCS of the worker (flush waves of 2*procs goroutines)
//   ncols  number of columns besides the timestamp
//   nBlocks, perBlock  blocks of the one segment and events per block
func genWide(r *vhlib.Rng, name string, procs, ncols, nBlocks, perBlock int) *Scenario {
	sc := &Scenario{Name: name, Stream: "main", Probe: true, ToCoq: false, DupCols: map[string]bool{}, Expect: map[int][]uint64{}}
	sc.Wide = &widePlan{Procs: procs, NCols: ncols}
	push := func(op Op) {
		sc.Ops = append(sc.Ops, op)
		sc.Range = append(sc.Range, [2]int{})
	}
	push(Op{Kind: "procs", N: procs})
	// column kinds: 0 distinct strings of several words (zstd block, bloom of words in both cases),
	// 1 distinct integers (zstd block, range index), 2 three values (dictionary block)
	kind := make([]int, ncols)
	pres := make([]int, ncols)
	for c := range kind {
		kind[c] = vhlib.Pick(r, []int{0, 0, 0, 0, 0, 1, 1, 2})
		pres[c] = vhlib.Pick(r, []int{100, 100, 100, 85})
	}
	kind[0], pres[0] = 1, 100 // every event has a value
	ei := 0
	for b := 0; b < nBlocks; b++ {
		// columns absent from this block: a third of them (a sixth in the first block: the others are new
		// columns of later blocks); never column 0
		absent := make([]bool, ncols)
		nAbs := 0
		var firstAbs []string
		for c := 1; c < ncols; c++ {
			p := 33
			if b == 0 {
				p = 16
			}
			if r.Chance(p) {
				absent[c] = true
				nAbs++
				if len(firstAbs) < 4 {
					firstAbs = append(firstAbs, fmt.Sprintf("w%03d", c))
				}
			}
		}
		n := perBlock + r.Intn(perBlock/8+1)
		ts := blockTs(r, tsBase+1+uint64(b)*tsGap, n)
		var docs []string
		lo := ei
		for j := 0; j < n; j++ {
			var sb strings.Builder
			var fs []Field
			fmt.Fprintf(&sb, `{"timestamp":%d`, ts[j])
			for c := 0; c < ncols; c++ {
				if absent[c] || (pres[c] < 100 && !r.Chance(pres[c])) {
					continue
				}
				key := fmt.Sprintf("w%03d", c)
				switch kind[c] {
				case 0:
					s := fmt.Sprintf("c%d e%d %s %s-%d", c, ei, vhlib.Pick(r, wideWords), vhlib.Pick(r, wideWords), r.Intn(1000000))
					fs = append(fs, Field{key, Val{K: "s", S: s}})
					fmt.Fprintf(&sb, `,%q:%q`, key, s)
				case 1:
					v := int64(ei)*1009 + int64(c)*7 + int64(r.Intn(5))
					fs = append(fs, Field{key, Val{K: "i", I: v}})
					fmt.Fprintf(&sb, `,%q:%d`, key, v)
				default:
					s := fmt.Sprintf("k%d-%s", c, vhlib.Pick(r, wideWords[:3]))
					fs = append(fs, Field{key, Val{K: "s", S: s}})
					fmt.Fprintf(&sb, `,%q:%q`, key, s)
				}
			}
			sb.WriteString("}")
			sc.Events = append(sc.Events, Event{Ts: ts[j], Doc: sb.String(), Fields: fs})
			docs = append(docs, sb.String())
			ei++
		}
		sc.Wide.Blocks = append(sc.Wide.Blocks, fmt.Sprintf("block %d: %d events, %d of %d columns absent (%s ...)", b, n, nAbs, ncols, strings.Join(firstAbs, ",")))
		sc.Ops = append(sc.Ops, Op{Kind: "ingest", Docs: docs})
		sc.Range = append(sc.Range, [2]int{lo, ei})
		push(Op{Kind: "flush", Probe: true, Light: true})
	}
	total := len(sc.Events)
	push(Op{Kind: "query", Page: total + 100, Nulls: true})
	push(Op{Kind: "rotate"})
	push(Op{Kind: "query", Page: vhlib.Pick(r, []int{997, total + 100}), Nulls: true})
	return sc
}

// genWideSmall: the same shape with small blocks, a small dictionary limit and GOMAXPROCS 1 or 2 (waves of
// 2 or 4 goroutines), column kinds of the main stream; everything goes to Coq (byte-level correspondence
// of every column block with the model, end-to-end comparison with the model's read_all).
func genWideSmall(r *vhlib.Rng, name string, procs int) *Scenario {
	sc := &Scenario{Name: name, Stream: "main", Probe: true, ToCoq: true, DupCols: map[string]bool{}, Expect: map[int][]uint64{}}
	sc.Card = vhlib.Pick(r, []int{4, 5, 6, 8})
	P := 2 * procs
	nc := P + 1 + r.Intn(2*P+1) // P+1 .. 3P+1 columns besides the timestamp
	sc.Wide = &widePlan{Procs: procs, NCols: nc}
	push := func(op Op) {
		sc.Ops = append(sc.Ops, op)
		sc.Range = append(sc.Range, [2]int{})
	}
	push(Op{Kind: "card", N: sc.Card})
	push(Op{Kind: "procs", N: procs})
	nBlocks := 3 + r.Intn(3)
	sizes := make([]int, nBlocks)
	total := 0
	for b := range sizes {
		sizes[b] = 2 + r.Intn(14)
		total += sizes[b]
	}
	g := &docGen{r: r.Fork(), fancy: r.Chance(50)}
	keys := append([]string{}, keyPool...)
	for k := len(keys) - 1; k > 0; k-- {
		j := r.Intn(k + 1)
		keys[k], keys[j] = keys[j], keys[k]
	}
	wkinds := []string{"hicard", "hicard", "hicardint", "str", "int", "float", "eqstr", "eqint", "mix", "bool", "hicard", "num"}
	for i := 0; i < nc; i++ {
		c := newCol(r, keys[i], vhlib.Pick(r, wkinds), total, sc.Card)
		c.From = 0
		g.cols = append(g.cols, c)
	}
	basePres := make([]int, nc)
	for i := range g.cols {
		basePres[i] = g.cols[i].Pres
	}
	ei := 0
	for b := 0; b < nBlocks; b++ {
		nAbs := 0
		var firstAbs []string
		for i := range g.cols {
			g.cols[i].Pres = basePres[i]
			p := 35
			if b == 0 {
				p = 20
			}
			if r.Chance(p) {
				g.cols[i].Pres = 0
				nAbs++
				if len(firstAbs) < 4 {
					firstAbs = append(firstAbs, strconv.Quote(g.cols[i].Path))
				}
			}
		}
		ts := blockTs(r, tsBase+1+uint64(b)*tsGap, sizes[b])
		var docs []string
		lo := ei
		for j := 0; j < sizes[b]; j++ {
			ev := g.doc(ei, ts[j])
			// a block made only of field-less events at the start of a segment is a known class: the first
			// event of every block carries a value
			if j == 0 && !hasValue(ev) {
				ev.Doc = fmt.Sprintf(`{"id":%d,%s`, ei, ev.Doc[1:])
				ev.Fields = append([]Field{{"id", Val{K: "i", I: int64(ei)}}}, ev.Fields...)
			}
			sc.Events = append(sc.Events, ev)
			docs = append(docs, ev.Doc)
			ei++
		}
		sc.Wide.Blocks = append(sc.Wide.Blocks, fmt.Sprintf("block %d: %d events, %d of %d columns absent (%s ...)", b, sizes[b], nAbs, nc, strings.Join(firstAbs, ",")))
		sc.Ops = append(sc.Ops, Op{Kind: "ingest", Docs: docs})
		sc.Range = append(sc.Range, [2]int{lo, ei})
		push(Op{Kind: "flush", Probe: true})
	}
	push(Op{Kind: "query", Page: vhlib.Pick(r, []int{3, 7, 10000}), Nulls: true})
	push(Op{Kind: "rotate"})
	push(Op{Kind: "query", Page: vhlib.Pick(r, []int{5, 10000}), Nulls: true})
	return sc
}

// c01 worker: runs the real siglens code in a fresh process on a data directory.
package main

import (
	"context"
	"encoding/hex"
	"encoding/json"
	"fmt"
	"io"
	"math"
	"os"
	"runtime"
	"sort"
	"strings"
	"time"

	"github.com/cespare/xxhash"
	"github.com/klauspost/compress/zstd"
	"github.com/siglens/siglens/pkg/ast/pipesearch"
	"github.com/siglens/siglens/pkg/config"
	eswriter "github.com/siglens/siglens/pkg/es/writer"
	"github.com/siglens/siglens/pkg/segment/memory/limit"
	"github.com/siglens/siglens/pkg/segment/query"
	"github.com/siglens/siglens/pkg/segment/reader/segread"
	"github.com/siglens/siglens/pkg/segment/reader/segread/segreader"
	sutils "github.com/siglens/siglens/pkg/segment/utils"
	"github.com/siglens/siglens/pkg/segment/writer"
	serverutils "github.com/siglens/siglens/pkg/server/utils"
	putils "github.com/siglens/siglens/pkg/utils"
	vtable "github.com/siglens/siglens/pkg/virtualtable"
	log "github.com/sirupsen/logrus"
)

const tsBase = uint64(1700000000000)
const indexName = "c01idx"

// ---------- ops and observations ----------
// kinds: card (N) ; procs (N) ; ingest (Docs) ; flush (Probe, Light) ; reread (Orders) ; rotate ; query (Page) ; latescan ; restart (runner only)
type Op struct {
	Kind  string   `json:"k"`
	N     int      `json:"n,omitempty"`
	Docs  []string `json:"docs,omitempty"`
	Probe bool     `json:"probe,omitempty"`
	Page  int      `json:"page,omitempty"`
	Text  string   `json:"text,omitempty"` // query text (default *)
	Nulls bool     `json:"nulls,omitempty"` // query with includeNulls=true
	Orders [][]int `json:"orders,omitempty"` // reread: block-number sequences, each read by ONE reader set
	Light bool     `json:"light,omitempty"`  // probe flush of a large block: per column only whether the block reads back as the open block's column
}

// one column of one flushed block
type ColObs struct {
	Name    string   `json:"name"`
	Pre     string   `json:"pre"`     // hex: WIP buffer before consolidation
	PreDict [][]string `json:"predict"` // [word hex, rec, rec, ...] sorted by word; before consolidation
	PreCnt  int      `json:"precnt"`
	InBlock bool     `json:"inblock"`
	Bloom   bool     `json:"bloom"`
	RI      bool     `json:"ri"`
	Post    string   `json:"post"`    // hex: WIP buffer after consolidateColumnTypes
	PostCnt int      `json:"postcnt"`
	Enc     int      `json:"enc"`     // block encoding byte on disk (-1: column has no block)
	Payload string   `json:"payload"` // hex: block payload on disk (zstd blocks: decompressed)
	Seen    uint32   `json:"seen"`    // AllSeenColumnSizes after the flush
	HasSeen bool     `json:"hasseen"`
	Recs    []string `json:"recs"`    // hex: real SegmentFileReader per record, no constant length passed ("!"+err on error)
	RecsSC  []string `json:"recssc"`  // the same with the segment's constant record length (only when there is one)
	// every probe flush: the column block as stored cannot be read back (zstd / reader error); light probe
	// flushes: whether the records the real reader returns, concatenated, are the open block's column buffer
	HasData bool   `json:"hasdata,omitempty"` // cbufidx > 0 in the open block: the flush starts a goroutine for the column
	ReadErr string `json:"readerr,omitempty"`
	NRecs   int    `json:"nrecs,omitempty"`
	SameAsOpen bool `json:"same_as_open,omitempty"`
	FirstDiff  int  `json:"first_diff,omitempty"` // first record that differs from the open block's column (light)
}

type FlushObs struct {
	SegKey   string   `json:"segkey"`
	BlockNum int      `json:"blk"`
	RecCount int      `json:"n"`
	Card     int      `json:"card"`
	Ts       []uint64 `json:"ts"`
	LowTs    uint64   `json:"low"`
	HighTs   uint64   `json:"high"`
	TsBlock  string   `json:"tsblock"` // hex: timestamp block on disk including the encoding byte
	TsRead   []uint64 `json:"tsread"`  // what the real TimeRangeReader returns
	TsErr    string   `json:"tserr,omitempty"`
	Cols     []ColObs `json:"cols"`
}

// reread: one TimeRangeReader and one SegmentFileReader per column read the blocks of the open
// segment in a given order, the way one block worker of a segment search does
type RereadBlk struct {
	Blk    int                 `json:"blk"`
	N      int                 `json:"n"`
	TsLen  int                 `json:"tslen"` // bytes of the timestamp block on disk
	TsRead []uint64            `json:"tsread"`
	TsErr  string              `json:"tserr,omitempty"`
	Cols   map[string][]string `json:"cols"` // column -> records (hex, "!"+error); columns absent in the block are missing
}
type RereadObs struct {
	SegKey string      `json:"segkey"`
	Order  []int       `json:"order"`
	Blocks []RereadBlk `json:"blocks"`
}

type Obs struct {
	Rereads []RereadObs         `json:"rereads,omitempty"`
	Err     string              `json:"err,omitempty"`
	Count   int                 `json:"count,omitempty"`
	Status  []int               `json:"status,omitempty"` // ingest: per-document status of the bulk response
	Flushes []FlushObs          `json:"flushes,omitempty"`
	Recs    []map[string]string `json:"recs,omitempty"` // query: field -> typed canonical value
	Pages   int                 `json:"pages,omitempty"`
}

// startGate: InitQueryNode starts the start-up scan of the segment directories (initSyncSegMetaForAllIds ->
// syncSegMetaWithSegFullMeta) in a goroutine of its own.  A server has finished it long before the first
// flush; in a worker that ingests microseconds after initNode (GOMAXPROCS 1, loaded machine) the scan can
// run AFTER the first flush; before the repair b77ca50 it then registered the open segment's running .sfm as a
// rotated segment (class startup_scan_adopts_open_segment, exercised on purpose by the latescan stream, now a
// regression).  The worker still waits for the scan's log line (one per org id) before it executes the first
// op, so that every other stream is independent of the scheduling of that goroutine.
type scanGate struct{ ch chan struct{} }

func (g *scanGate) Levels() []log.Level { return []log.Level{log.InfoLevel, log.ErrorLevel} }
func (g *scanGate) Fire(e *log.Entry) error {
	if strings.HasPrefix(e.Message, "syncSegMetaWithSegFullMeta: myid=") || strings.HasPrefix(e.Message, "syncSegMetaWithSegFullMeta: Error in getting vtable names") {
		select {
		case g.ch <- struct{}{}:
		default:
		}
	}
	return nil
}

func initNode(dir string) error {
	gate := &scanGate{ch: make(chan struct{}, 16)}
	lvl, out := log.GetLevel(), log.StandardLogger().Out
	log.SetOutput(io.Discard)
	log.SetLevel(log.InfoLevel)
	log.AddHook(gate)
	defer func() {
		// wait for the start-up scan (at most 20 s), then restore the logger
		deadline := time.After(20 * time.Second)
		for n := len(serverutils.GetMyIds()); n > 0; n-- {
			select {
			case <-gate.ch:
			case <-deadline:
				n = 0
			}
		}
		log.SetLevel(lvl)
		log.SetOutput(out)
	}()
	config.InitializeTestingConfig(dir + "/")
	config.SetNewQueryPipelineEnabled(true)
	limit.InitMemoryLimiter()
	writer.InitWriterNode()
	if err := vtable.InitVTable(serverutils.GetMyIds); err != nil {
		return err
	}
	if err := query.InitQueryNode(serverutils.GetMyIds, serverutils.ExtractKibanaRequests); err != nil {
		return err
	}
	query.InitMaxRunningQueries()
	go query.PullQueriesToRun(context.Background())
	return nil
}

// canonical typed rendering of a value in a query hit
func canonVal(v interface{}) string {
	switch x := v.(type) {
	case nil:
		return "n"
	case string:
		return "s:" + x
	case bool:
		if x {
			return "b:1"
		}
		return "b:0"
	case int64:
		return fmt.Sprintf("i:%d", x)
	case int:
		return fmt.Sprintf("i:%d", x)
	case uint64:
		return fmt.Sprintf("u:%d", x)
	case float64:
		return fmt.Sprintf("f:%016x", math.Float64bits(x))
	case json.Number:
		return "j:" + string(x)
	default:
		return fmt.Sprintf("?%T:%v", v, v)
	}
}

var qid uint64 = 100

func runPagedQuery(page int, text string, nulls bool) (recs []map[string]string, pages int, errs string) {
	if page <= 0 {
		page = 10000
	}
	if text == "" {
		text = "*"
	}
	from := 0
	for {
		qid++
		req := map[string]interface{}{
			"searchText": text, "indexName": indexName, "startEpoch": tsBase - 1000, "endEpoch": tsBase + uint64(1)<<40,
			"size": uint64(page), "from": uint64(from), "queryLanguage": "Splunk QL", "state": "query",
		}
		if nulls {
			req["includeNulls"] = true
		}
		type res struct {
			hits []map[string]interface{}
			err  string
		}
		ch := make(chan res, 1)
		go func() {
			defer func() {
				if r := recover(); r != nil {
					ch <- res{err: fmt.Sprintf("panic: %v", r)}
				}
			}()
			resp, _, _, err := pipesearch.ParseAndExecutePipeRequest(req, qid, 0, time.Now(), "", nil)
			if err != nil {
				ch <- res{err: "error: " + err.Error()}
				return
			}
			if resp == nil {
				ch <- res{err: "nil response"}
				return
			}
			e := ""
			if len(resp.Errors) > 0 {
				e = "resp.Errors: " + strings.Join(resp.Errors, "; ")
			}
			ch <- res{hits: resp.Hits.Hits, err: e}
		}()
		var r res
		select {
		case r = <-ch:
		case <-time.After(30 * time.Second):
			return recs, pages, "timeout"
		}
		if r.err != "" {
			return recs, pages, r.err
		}
		pages++
		for _, h := range r.hits {
			m := map[string]string{}
			for k, v := range h {
				m[k] = canonVal(v)
			}
			recs = append(recs, m)
		}
		if len(r.hits) < page || pages > 2000 {
			return recs, pages, ""
		}
		from += page
	}
}

var zdec, _ = zstd.NewReader(nil)

func csgName(segkey, cname string) string {
	return fmt.Sprintf("%s_%v.csg", segkey, xxhash.Sum64String(cname))
}

func dictObs(d map[string][]uint16) [][]string {
	words := make([]string, 0, len(d))
	for w := range d {
		words = append(words, w)
	}
	sort.Strings(words)
	out := make([][]string, 0, len(words))
	for _, w := range words {
		row := []string{hex.EncodeToString([]byte(w))}
		for _, r := range d[w] {
			row = append(row, fmt.Sprint(r))
		}
		out = append(out, row)
	}
	return out
}

// probeFlush: snapshot the open WIP blocks, flush, then read
// the blocks just written back from disk (raw bytes and through the real readers).
func probeFlush(light bool) ([]FlushObs, error) {
	pre := writer.VerifC01Snapshot()
	zero := time.Duration(0)
	writer.FlushWipBufferToFile(&zero, &zero)
	// AllSeenColumnSizes as the flush left it: what a search of this segment is given
	seenAfter := map[string]map[string]uint32{}
	for _, q := range writer.VerifC01Snapshot() {
		seenAfter[q.StreamId] = q.Seen
	}
	var out []FlushObs
	for _, p := range pre {
		if p.RecCount == 0 {
			continue
		}
		fo := FlushObs{SegKey: p.SegKey, BlockNum: int(p.NumBlocks), RecCount: int(p.RecCount), Card: int(p.CardLimit),
			Ts: p.Ts, LowTs: p.LowTs, HighTs: p.HighTs}
		allBmi, err := writer.GetBlockSearchInfoForKey(p.SegKey)
		if err != nil {
			return nil, fmt.Errorf("GetBlockSearchInfoForKey: %v", err)
		}
		sums, err := writer.GetBlockSummaryForKey(p.SegKey)
		if err != nil {
			return nil, err
		}
		bmh, ok := allBmi.AllBmh[p.NumBlocks]
		if !ok || bmh == nil {
			return nil, fmt.Errorf("block %d missing in unrotated info", p.NumBlocks)
		}
		blocks := map[uint16]struct{}{p.NumBlocks: {}}
		readBlock := func(cname string) ([]byte, bool, error) {
			idx, ok := allBmi.CnameDict[cname]
			if !ok || idx >= len(bmh.ColBlockOffAndLen) || bmh.ColBlockOffAndLen[idx].Length == 0 {
				return nil, false, nil
			}
			ol := bmh.ColBlockOffAndLen[idx]
			fd, err := os.Open(csgName(p.SegKey, cname))
			if err != nil {
				return nil, false, err
			}
			defer fd.Close()
			buf := make([]byte, ol.Length)
			cf := putils.ChecksumFile{Fd: fd}
			if _, err := cf.ReadAt(buf, ol.Offset); err != nil {
				return nil, false, err
			}
			return buf, true, nil
		}
		tsKey := config.GetTimeStampKey()
		for _, c := range p.Cols {
			if c.Name == tsKey {
				b, ok, err := readBlock(c.Name)
				if err != nil || !ok {
					fo.TsErr = fmt.Sprintf("ts block unreadable: %v", err)
					continue
				}
				fo.TsBlock = hex.EncodeToString(b)
				fd, err := os.Open(csgName(p.SegKey, c.Name))
				if err == nil {
					cnt := map[uint16]uint16{}
					for i, s := range sums {
						cnt[uint16(i)] = s.RecCount
					}
					tr, err := segread.InitNewTimeReaderWithFD(fd, tsKey, blocks, cnt, 0, allBmi)
					if err == nil {
						ts, err := tr.GetAllTimeStampsForBlock(p.NumBlocks)
						if err != nil {
							fo.TsErr = err.Error()
						}
						fo.TsRead = append([]uint64{}, ts...)
						_ = tr.Close()
					} else {
						fd.Close()
					}
				}
				continue
			}
			co := ColObs{Name: c.Name, PreCnt: int(c.DeCount), InBlock: c.InBlock, Bloom: c.Bloom, RI: c.RI, Enc: -1, HasData: len(c.Buf) > 0}
			if !light {
				co.Pre, co.PreDict = hex.EncodeToString(c.Buf), dictObs(c.Dict)
			}
			co.Seen, co.HasSeen = seenAfter[p.StreamId][c.Name]
			co.Post = co.Pre
			b, ok, err := readBlock(c.Name)
			if err != nil {
				// the stored block cannot be read from its file (checksum of the chunk, short file): reported
				// as an oracle failure by the runner
				co.ReadErr = fmt.Sprintf("the block of column %q in block %d (%d records) cannot be read from its .csg file: %v", c.Name, p.NumBlocks, p.RecCount, err)
				fo.Cols = append(fo.Cols, co)
				continue
			}
			if ok {
				co.Enc = int(b[0])
				pl := b[1:]
				if b[0] == sutils.ZSTD_COMLUNAR_BLOCK[0] {
					pl, err = zdec.DecodeAll(b[1:], nil)
					if err != nil {
						// the stored block is not a zstd frame: reported as an oracle failure by the runner
						co.ReadErr = fmt.Sprintf("the %d-byte zstd block of column %q in block %d (%d records) does not decompress: %v", len(b)-1, c.Name, p.NumBlocks, p.RecCount, err)
						fo.Cols = append(fo.Cols, co)
						continue
					}
				}
				if !light {
					co.Payload = hex.EncodeToString(pl)
				}
				if b[0] == sutils.ZSTD_COMLUNAR_BLOCK[0] && !light {
					// a raw block is the column buffer as consolidateColumnTypes left it
					co.Post = co.Payload
				}
				readAll := func(sz uint32) []string {
					var recs []string
					fd, err := os.Open(csgName(p.SegKey, c.Name))
					if err != nil {
						return []string{"!open: " + err.Error()}
					}
					rd, err := segreader.InitNewSegFileReader(fd, c.Name, blocks, 0, sums, sz, allBmi)
					if err != nil {
						fd.Close()
						return []string{"!init: " + err.Error()}
					}
					func() {
						defer func() {
							if r := recover(); r != nil {
								recs = append(recs, fmt.Sprintf("!panic: %v", r))
							}
						}()
						if err := rd.ValidateAndReadBlock(p.NumBlocks); err != nil {
							recs = append(recs, "!load: "+err.Error())
							return
						}
						for i := 0; i < int(p.RecCount); i++ {
							rec, err := rd.ReadRecord(uint16(i))
							if err != nil {
								recs = append(recs, "!"+err.Error())
							} else if rec == nil {
								recs = append(recs, "!nil")
							} else {
								recs = append(recs, hex.EncodeToString(rec))
							}
						}
					}()
					_ = rd.Close()
					return recs
				}
				// the match-all record fetch passes INCONSISTENT_CVAL_SIZE (recordreader.go)
				co.Recs = readAll(sutils.INCONSISTENT_CVAL_SIZE)
				if light {
					// large block: compare here instead of shipping the bytes.  The column buffer of the open block is
					// the concatenation of its records (these scenarios have one value kind per column: no rewriting
					// by consolidateColumnTypes)
					co.NRecs, co.SameAsOpen, co.FirstDiff = len(co.Recs), true, -1
					off := 0
					for k, rh := range co.Recs {
						if strings.HasPrefix(rh, "!") {
							co.ReadErr = fmt.Sprintf("record %d of column %q in block %d: %s", k, c.Name, p.NumBlocks, rh[1:])
							co.SameAsOpen = false
							break
						}
						rb, _ := hex.DecodeString(rh)
						if off+len(rb) > len(c.Buf) || string(c.Buf[off:off+len(rb)]) != string(rb) {
							co.SameAsOpen, co.FirstDiff = false, k
							break
						}
						off += len(rb)
					}
					if co.SameAsOpen && off != len(c.Buf) {
						co.SameAsOpen, co.FirstDiff = false, len(co.Recs)
					}
					co.Recs = nil
					fo.Cols = append(fo.Cols, co)
					continue
				}
				// the search path passes the segment's AllSeenColumnSizes value
				if co.HasSeen && co.Seen != sutils.INCONSISTENT_CVAL_SIZE && co.Seen > 0 {
					co.RecsSC = readAll(co.Seen)
				}
			}
			fo.Cols = append(fo.Cols, co)
		}
		out = append(out, fo)
	}
	return out, nil
}

// rereadAll: for every open segment and every order, ONE TimeRangeReader and ONE SegmentFileReader per
// column (no constant record length: the match-all record fetch) read the blocks in that order.
func rereadAll(orders [][]int) ([]RereadObs, error) {
	var out []RereadObs
	tsKey := config.GetTimeStampKey()
	for _, p := range writer.VerifC01Snapshot() {
		if p.NumBlocks == 0 {
			continue
		}
		allBmi, err := writer.GetBlockSearchInfoForKey(p.SegKey)
		if err != nil {
			return nil, fmt.Errorf("GetBlockSearchInfoForKey: %v", err)
		}
		sums, err := writer.GetBlockSummaryForKey(p.SegKey)
		if err != nil {
			return nil, err
		}
		blocks := map[uint16]struct{}{}
		cnt := map[uint16]uint16{}
		for i, s := range sums {
			blocks[uint16(i)] = struct{}{}
			cnt[uint16(i)] = s.RecCount
		}
		var cnames []string
		for c := range allBmi.CnameDict {
			if c != tsKey {
				cnames = append(cnames, c)
			}
		}
		sort.Strings(cnames)
		for _, order := range orders {
			ro := RereadObs{SegKey: p.SegKey}
			for _, b := range order {
				if b >= 0 && b < len(sums) {
					ro.Order = append(ro.Order, b)
				}
			}
			for _, b := range ro.Order {
				ro.Blocks = append(ro.Blocks, RereadBlk{Blk: b, N: int(sums[b].RecCount), Cols: map[string][]string{}})
			}
			present := func(cname string, b int) (uint32, bool) {
				idx, ok := allBmi.CnameDict[cname]
				bmh := allBmi.AllBmh[uint16(b)]
				if !ok || bmh == nil || idx >= len(bmh.ColBlockOffAndLen) || bmh.ColBlockOffAndLen[idx].Length == 0 {
					return 0, false
				}
				return bmh.ColBlockOffAndLen[idx].Length, true
			}
			// timestamps
			if fd, err := os.Open(csgName(p.SegKey, tsKey)); err == nil {
				tr, err := segread.InitNewTimeReaderWithFD(fd, tsKey, blocks, cnt, 0, allBmi)
				if err != nil {
					fd.Close()
					return nil, err
				}
				for i, b := range ro.Order {
					l, _ := present(tsKey, b)
					ro.Blocks[i].TsLen = int(l)
					func() {
						defer func() {
							if r := recover(); r != nil {
								ro.Blocks[i].TsErr = fmt.Sprintf("panic: %v", r)
							}
						}()
						ts, err := tr.GetAllTimeStampsForBlock(uint16(b))
						if err != nil {
							ro.Blocks[i].TsErr = err.Error()
						} else {
							ro.Blocks[i].TsRead = append([]uint64{}, ts...)
						}
					}()
				}
				_ = tr.Close()
			} else {
				return nil, err
			}
			// columns
			for _, cname := range cnames {
				fd, err := os.Open(csgName(p.SegKey, cname))
				if err != nil {
					return nil, err
				}
				rd, err := segreader.InitNewSegFileReader(fd, cname, blocks, 0, sums, sutils.INCONSISTENT_CVAL_SIZE, allBmi)
				if err != nil {
					fd.Close()
					return nil, err
				}
				for i, b := range ro.Order {
					_, ok := present(cname, b)
					var recs []string
					func() {
						defer func() {
							if r := recover(); r != nil {
								recs = append(recs, fmt.Sprintf("!panic: %v", r))
							}
						}()
						if err := rd.ValidateAndReadBlock(uint16(b)); err != nil {
							recs = append(recs, "!load: "+err.Error())
							return
						}
						if !ok {
							return
						}
						for k := 0; k < int(sums[b].RecCount); k++ {
							rec, err := rd.ReadRecord(uint16(k))
							if err != nil {
								recs = append(recs, "!"+err.Error())
							} else if rec == nil {
								recs = append(recs, "!nil")
							} else {
								recs = append(recs, hex.EncodeToString(rec))
							}
						}
					}()
					if ok {
						ro.Blocks[i].Cols[cname] = recs
					}
				}
				_ = rd.Close()
			}
			out = append(out, ro)
		}
	}
	return out, nil
}

func workerMain(dir, scriptPath, outPath string) {
	if os.Getenv("C01_LOG") == "" {
		log.SetLevel(log.PanicLevel)
	} else {
		log.SetLevel(log.ErrorLevel)
	}
	b, err := os.ReadFile(scriptPath)
	if err != nil {
		fmt.Fprintln(os.Stderr, err)
		os.Exit(3)
	}
	var ops []Op
	if err := json.Unmarshal(b, &ops); err != nil {
		fmt.Fprintln(os.Stderr, err)
		os.Exit(3)
	}
	if err := initNode(dir); err != nil {
		fmt.Fprintln(os.Stderr, "init:", err)
		os.Exit(4)
	}
	obs := make([]Obs, len(ops))
	zero := time.Duration(0)
	for i, op := range ops {
		if os.Getenv("C01_LOG") != "" {
			fmt.Fprintf(os.Stderr, "op %d %s\n", i, op.Kind)
		}
		switch op.Kind {
		case "card":
			writer.SetCardinalityLimit(uint16(op.N))
		case "procs":
			// number of CPUs of the deployment: a segment search starts GOMAXPROCS block workers and hands
			// them at most GOMAXPROCS blocks (or all blocks ending at the same millisecond) per round
			runtime.GOMAXPROCS(op.N)
		case "reread":
			rr, err := rereadAll(op.Orders)
			if err != nil {
				obs[i].Err = err.Error()
			}
			obs[i].Rereads = rr
		case "ingest":
			var sb strings.Builder
			for _, d := range op.Docs {
				fmt.Fprintf(&sb, "{\"index\":{\"_index\":%q}}\n", indexName)
				sb.WriteString(d)
				sb.WriteString("\n")
			}
			n, resp, err := eswriter.HandleBulkBody([]byte(sb.String()), nil, uint64(i+1), 0, false)
			if err != nil {
				obs[i].Err = err.Error()
			}
			obs[i].Count = n
			if items, ok := resp["items"].([]interface{}); ok {
				for _, it := range items {
					st := 0
					if m, ok := it.(map[string]interface{}); ok {
						if v, ok := m["status"].(int); ok {
							st = v
						} else if im, ok := m["index"].(map[string]interface{}); ok {
							if v, ok := im["status"].(int); ok {
								st = v
							}
						}
					}
					obs[i].Status = append(obs[i].Status, st)
				}
			}
		case "flush":
			if op.Probe {
				fl, err := probeFlush(op.Light)
				if err != nil {
					obs[i].Err = err.Error()
				}
				obs[i].Flushes = fl
			} else {
				writer.FlushWipBufferToFile(&zero, &zero)
			}
		case "latescan":
			// the start-up scan of InitQueryNode scheduled only now (known stream)
			for _, id := range serverutils.GetMyIds() {
				obs[i].Count += query.VerifC01LateStartupScan(id)
			}
		case "rotate":
			writer.ForceRotateSegmentsForTest()
		case "shutdown":
			writer.ForcedFlushToSegfile()
			writer.WaitForSortedIndexToComplete()
		case "query":
			recs, pages, e := runPagedQuery(op.Page, op.Text, op.Nulls)
			obs[i].Recs, obs[i].Pages, obs[i].Err = recs, pages, e
		default:
			obs[i].Err = "unknown op " + op.Kind
		}
	}
	ob, _ := json.Marshal(obs)
	if err := os.WriteFile(outPath, ob, 0o644); err != nil {
		fmt.Fprintln(os.Stderr, err)
		os.Exit(5)
	}
	os.Exit(0)
}

// c02, part (D): segments with MORE blocks than every batching constant of the search path.
//
// The raw search never walks the candidate blocks of a segment in one piece:
//
//   - processor.Searcher.fetchRRCs hands the blocks to the search in groups (getNextBlocks: at most
//     GOMAXPROCS blocks per group, but ALL blocks that share the first block's newest timestamp go together);
//   - search.RawSearchSegmentFileWrapper sorts the blocks of one request (descending block number) and
//     searches them in chunks of BLOCK_BATCH_SIZE = 100 (queries without group-by / time histogram);
//   - every chunk is distributed over fileParallelism block workers.
//
// The layouts of parts (B) and (C) have at most 4 blocks per segment, so every one of those walks ran over a
// single, partly filled chunk.  The layouts here have ~240..270 one- or two-event blocks in ONE segment:
//
//	blocks 0 .. S-1  (S >= 203): two events, the first with its own timestamp, the second at the SHARED
//	                 instant THI -> equal HighTs, the searcher passes all of them (that survive the time
//	                 filter and the micro-index check of the query) to one RawSearchSegmentFileWrapper call:
//	                 two full chunks of 100 and a remainder;
//	blocks S .. N-1: one event each, distinct timestamps above THI -> groups of GOMAXPROCS blocks (two full
//	                 groups and a remainder).
//
// Column pa holds the block number b (first event) and 1000+b (second event), so `pa<K` keeps exactly the
// blocks 0..K-1 and `pa>=1000+K` exactly the blocks K..S-1 as candidates (range index): the number of
// candidate blocks is steered to 99, 100, 101, 102, 199 .. 203, ... on both sides of every multiple of the
// chunk size.  pt is a word column (bloom pruning: a word that lives in ~2/3 of the blocks, in ~1/4, in
// none), pc a small pool of integers.  No column is ever absent, so NOT / != stay in the main stream.
//
// Oracle: the specification of part (B) on the returned ids; a whole block missing from the result of a
// query that still finds events elsewhere is reported under its own class
// (whole_block_missing_in_many_block_segment).  Coq: the ids must equal the search executed chunk by chunk
// (FilterChunk.batched_select over go_chunks 100 of the sorted block list of the merged plan).
package main

import (
	"fmt"
	"sort"
	"strconv"

	"github.com/siglens/siglens/pkg/segment/search"

	"verifharness/vhlib"
)

// the chunk size of RawSearchSegmentFileWrapper, read from the code
var bigChunk = search.BLOCK_BATCH_SIZE

var bigWords = []string{"alpha", "alpha", "alpha", "alpha two", "beta", "gamma", "alpha", "delta omega", "alpha", "beta"}
var bigPc = []int{404, 500, 7, 100, 404, 207, 7, 7, 300, 404, 1000}

// THI: the shared newest timestamp of the blocks 0..S-1
const bigTHI = T0 + 600000

func mkBigDataset(r *vhlib.Rng, rotate bool, nBlocks, shared int) *Dataset {
	ds := &Dataset{Rotate: rotate, Plan: true, Big: true, Shared: shared}
	id := 0
	add := func(ts uint64, f map[string]Val) int {
		ev := &Event{ID: id, TS: ts, F: f, St: f}
		id++
		ds.Events = append(ds.Events, ev)
		return len(ds.Events) - 1
	}
	for b := 0; b < nBlocks; b++ {
		w := bigWords[(b*7+r.Intn(3))%len(bigWords)]
		var idx []int
		if b < shared {
			idx = append(idx, add(T0+uint64(b)*1000, map[string]Val{
				"pa": vInt(strconv.Itoa(b)), "pc": vInt(strconv.Itoa(bigPc[(b+r.Intn(2))%len(bigPc)])), "pt": vStr(w)}))
			idx = append(idx, add(bigTHI, map[string]Val{
				"pa": vInt(strconv.Itoa(1000 + b)), "pc": vInt(strconv.Itoa(bigPc[(3*b+1)%len(bigPc)])), "pt": vStr(bigWords[(b*3+5)%len(bigWords)])}))
		} else {
			idx = append(idx, add(bigTHI+uint64(b-shared+1)*1000, map[string]Val{
				"pa": vInt(strconv.Itoa(b)), "pc": vInt(strconv.Itoa(bigPc[(b+r.Intn(2))%len(bigPc)])), "pt": vStr(w)}))
		}
		ds.Blocks = append(ds.Blocks, idx)
	}
	return ds
}

func genBigQueries(r *vhlib.Rng, ds *Dataset, thorough bool) []*QCase {
	var qs []*QCase
	n, s := len(ds.Blocks), ds.Shared
	lo, hi := T0-1000, bigTHI+uint64(n)*1000+5000
	nPlanObs := 0
	add := func(q *QCase) {
		if q.Stream == "skip" {
			return
		}
		if q.Start == 0 {
			q.Start, q.End = lo, hi
		}
		if q.E != nil && !exprModelable(ds, q.E, false) {
			q.Model = false
		}
		// the observed plan of a ~250-block segment is a long case: the first 30 numeric queries (the candidate-count
		// thresholds) and a sample of the rest
		q.PlanObs = q.Model && q.E != nil && q.W == nil && onlyNumericLeaves(q.E) && (thorough || nPlanObs < 30 || r.Chance(12))
		if q.PlanObs {
			nPlanObs++
		}
		q.Text = q.render()
		qs = append(qs, q)
	}
	one := func(e *Expr, tag string) {
		add(&QCase{Stream: exprClass(ds, e, false), E: e, Model: true, Tag: tag})
	}
	it := strconv.Itoa
	// 1. everything
	add(&QCase{Stream: "main", Model: true, Tag: "big/all"})
	// 2. the number of candidate blocks on both sides of every multiple of the chunk size: `pa<K` keeps the blocks
	//    0..K-1, `pa>=1000+K` the blocks K..S-1 (both through the range index; the second also skips the tail blocks)
	var ks []int
	for m := bigChunk; m <= n+1; m += bigChunk {
		for d := -1; d <= 2; d++ {
			ks = append(ks, m+d)
		}
	}
	ks = append(ks, 1, 2, 17, 50, s-1, s, s+1, n-1, n, n+5)
	sort.Ints(ks)
	seenK := map[int]bool{}
	for _, k := range ks {
		if k < 0 || seenK[k] {
			continue
		}
		seenK[k] = true
		one(cmpE("pa", "<", numL(it(k))), "big/lt")
		if k <= s {
			one(cmpE("pa", ">=", numL(it(1000+s-k))), "big/ge") // k candidate blocks counted from the top
		}
		if thorough || r.Chance(25) {
			one(cmpE("pa", "<=", numL(it(k))), "big/le")
		}
	}
	// 3. single blocks: the positions a chunked walk can lose (chunk boundaries counted from either end), their
	//    neighbours, first / last block
	var singles []int
	for m := bigChunk; m < n; m += bigChunk {
		for d := -1; d <= 1; d++ {
			singles = append(singles, m+d, s-1-m+d, n-1-m+d)
		}
		singles = append(singles, m+m/bigChunk, s-1-m-m/bigChunk, n-1-m-m/bigChunk) // after k full chunks and k skips
	}
	singles = append(singles, 0, 1, s-1, s, n-1)
	seenS := map[int]bool{}
	var blkLits []string
	for _, b := range singles {
		if b < 0 || b >= n || seenS[b] {
			continue
		}
		seenS[b] = true
		blkLits = append(blkLits, it(b))
		one(cmpE("pa", "=", numL(it(b))), "big/eq")
		if b < s && (thorough || r.Chance(25)) {
			one(cmpE("pa", "=", numL(it(1000+b))), "big/eq2")
		}
	}
	// 4. words (bloom), text comparisons, negations, other integers, all-column numbers
	for _, w := range []string{"alpha", "beta", "gamma", "omega", "two", "delta omega", "nomatch"} {
		e := &Expr{Kind: "term", Word: w}
		one(e, "big/term")
		one(&Expr{Kind: "not", A: e}, "big/term_not")
	}
	for _, p := range []string{"alpha", "beta", "al*", "*a", "*", "alpha two", "nomatch"} {
		one(cmpE("pt", "=", strL(p)), "big/text")
		one(cmpE("pt", "!=", strL(p)), "big/text_ne")
	}
	for _, t := range []string{"404", "7", "1000", "5"} {
		for _, op := range ops {
			if thorough || op == "=" || op == "!=" || r.Chance(35) {
				one(cmpE("pc", op, numL(t)), "big/pc")
			}
		}
		one(anyE("=", numL(t), true), "big/any")
	}
	one(anyE("<", numL("3"), false), "big/any")
	one(anyE(">=", numL(it(1000+s-101)), false), "big/any")
	one(&Expr{Kind: "not", A: cmpE("pa", "<", numL(it(bigChunk+1)))}, "big/not")
	one(&Expr{Kind: "not", A: cmpE("pa", ">=", numL("3"))}, "big/not")
	// 5. compound groups: A, B, A AND B, A OR B, NOT A, B OR A all run (set identities on the observed results); a
	//    narrow operand (one block) joined with a wide one (more than a chunk) is the case `A is a subset of A OR B`
	narrow := func() *Expr {
		switch r.Intn(3) {
		case 0:
			return cmpE("pa", "=", numL(vhlib.Pick(r, blkLits)))
		case 1:
			b, _ := strconv.Atoi(vhlib.Pick(r, blkLits))
			return cmpE("pa", vhlib.Pick(r, []string{"<", "<="}), numL(it(b%40+1)))
		default:
			return &Expr{Kind: "and", A: cmpE("pa", "<", numL(it(20+r.Intn(60)))), B: &Expr{Kind: "term", Word: vhlib.Pick(r, []string{"alpha", "beta", "gamma"})}}
		}
	}
	wide := func() *Expr {
		switch r.Intn(7) {
		case 0:
			return cmpE("pa", "<", numL(it(bigChunk+1+r.Intn(n-bigChunk))))
		case 1:
			return cmpE("pa", ">=", numL(it(1000+r.Intn(s-bigChunk))))
		case 2:
			return &Expr{Kind: "term", Word: vhlib.Pick(r, []string{"alpha", "alpha", "beta", "two"})}
		case 3:
			return cmpE("pt", vhlib.Pick(r, []string{"=", "!="}), strL(vhlib.Pick(r, []string{"alpha", "beta", "al*", "*a"})))
		case 4:
			return cmpE("pc", vhlib.Pick(r, ops), numL(vhlib.Pick(r, []string{"404", "7", "207", "300"})))
		case 5:
			return anyE("=", numL(vhlib.Pick(r, []string{"404", "7", "500"})), r.Chance(70))
		default:
			return cmpE("pa", vhlib.Pick(r, []string{">", ">=", "!="}), numL(vhlib.Pick(r, blkLits)))
		}
	}
	gi := 0
	group := func(a, b *Expr) {
		for k, e := range []*Expr{a, b, {Kind: "and", A: a, B: b}, {Kind: "or", A: a, B: b}, {Kind: "not", A: a}, {Kind: "or", A: b, B: a}} {
			// every query goes through the oracle; in the quick tier one compound group in three is also evaluated in Coq
			// (three evaluations over ~500 records per query)
			add(&QCase{Stream: exprClass(ds, e, false), E: e, Model: thorough || gi%3 == 0, Tag: fmt.Sprintf("compound/%d/%d", gi, k)})
		}
		gi++
	}
	nG := 5
	if thorough {
		nG = 40
	}
	for i := 0; i < nG; i++ {
		group(narrow(), wide())
		group(wide(), wide())
		if i%2 == 0 {
			group(wide(), narrow())
		}
	}
	// 6. time ranges: the block summaries [own time, THI] of the shared blocks all reach up to THI, so a range that
	//    ends below THI keeps the blocks whose own time is <= end as candidates although only their first events match
	first := func(b int) uint64 { return T0 + uint64(b)*1000 }
	type rg struct{ s, e uint64 }
	rgs := []rg{{lo, bigTHI - 1}, {lo, bigTHI}, {bigTHI, hi}, {bigTHI + 1, hi}, {first(50), first(120)}, {first(0), first(bigChunk - 1)},
		{first(0), first(bigChunk)}, {first(0), first(bigChunk + 1)}, {first(3), first(2*bigChunk + 1)}, {first(s - 1), first(s-1) + 1},
		{first(bigChunk) + 1, bigTHI - 1}, {first(s - bigChunk - 1), bigTHI}, {bigTHI + 1000, bigTHI + 17000}, {bigTHI + 2000, bigTHI + uint64(n-s)*1000 - 1}}
	for _, g := range rgs {
		add(&QCase{Stream: "main", Start: g.s, End: g.e, Model: true, Tag: "time/big_all"})
		if thorough || r.Chance(50) {
			e := cmpE("pa", "<", numL(it(2*bigChunk+2)))
			add(&QCase{Stream: exprClass(ds, e, false), E: e, Start: g.s, End: g.e, Model: true, Tag: "time/big_cmp"})
		}
		if thorough || r.Chance(35) {
			t := &Expr{Kind: "or", A: &Expr{Kind: "term", Word: "alpha"}, B: cmpE("pa", "=", numL(vhlib.Pick(r, blkLits)))}
			add(&QCase{Stream: exprClass(ds, t, false), E: t, Start: g.s, End: g.e, Model: true, Tag: "time/big_or"})
		}
	}
	return qs
}

// blockOf: event id -> block number of the layout
func (ds *Dataset) blockOf() map[int]int {
	m := map[int]int{}
	for b, idx := range ds.Blocks {
		for _, k := range idx {
			m[ds.Events[k].ID] = b
		}
	}
	return m
}

// a result that lacks EVERY expected event of some blocks (and nothing else), while events of other blocks were found:
// those blocks were never searched.  Returns the lost block numbers (nil when the pattern does not apply).
func wholeBlocksMissing(ds *Dataset, want, got []int) []int {
	miss, extra := diffInts(want, got)
	if len(miss) == 0 || len(extra) > 0 || len(got) == 0 {
		return nil
	}
	bo := ds.blockOf()
	wantPer, missPer := map[int]int{}, map[int]int{}
	for _, id := range want {
		wantPer[bo[id]]++
	}
	for _, id := range miss {
		missPer[bo[id]]++
	}
	var lost []int
	for b, c := range missPer {
		if wantPer[b] != c {
			return nil
		}
		lost = append(lost, b)
	}
	sort.Ints(lost)
	return lost
}

// ---------- one block with more records than every per-block size constant of the search path ----------
// search.PQMR_INITIAL_SIZE = 15000 (the all-matched bit set InitBlocksToSearch clones; records beyond it are added one by
// one), utils.PQMR_SIZE = WIP_NUM_RECS = 4000 (initial size of the match-result bit sets).  One flush of wideN records
// (a few bytes per column: far below WIP_SIZE, so ONE block) followed by a second block of ~2 500 records.  pa = the record's
// position; the rare words sit on both sides of every threshold.  Oracle only (no Coq evaluation over 15 000 records);
// every expected result is small (the response is capped by the requested size).
var wideMarks = []int{0, 1, 3998, 3999, 4000, 4001, 7999, 8000, 8001, 14998, 14999, 15000, 15001, 15002}

func mkWideDataset(r *vhlib.Rng, rotate bool) *Dataset {
	ds := &Dataset{Rotate: rotate, Plan: true}
	n := search.PQMR_INITIAL_SIZE + 5 + r.Intn(40)
	mark := map[int]bool{n - 1: true, n - 2: true}
	for _, m := range wideMarks {
		mark[m] = true
	}
	var idx []int
	// the second block is large enough for the block workers of both blocks to run side by side for thousands of records
	// (record-by-record numeric comparisons on raw columns: scratch state shared between workers shows up)
	n2 := 2500 + r.Intn(500)
	for i := 0; i < n+n2; i++ {
		w := "alpha"
		if mark[i] {
			w = "omega mark"
		} else if i%1000 == 7 {
			w = "beta"
		}
		f := map[string]Val{"pa": vInt(strconv.Itoa(i)), "pc": vInt(strconv.Itoa(bigPc[i%len(bigPc)])), "pt": vStr(w)}
		ds.Events = append(ds.Events, &Event{ID: i, TS: T0 + uint64(i), F: f, St: f})
		idx = append(idx, i)
		if i == n-1 {
			ds.Blocks = append(ds.Blocks, idx)
			idx = nil
		}
	}
	ds.Blocks = append(ds.Blocks, idx)
	return ds
}

func genWideQueries(r *vhlib.Rng, ds *Dataset) []*QCase {
	var qs []*QCase
	n := len(ds.Blocks[0])
	lo, hi := T0-1000, T0+uint64(len(ds.Events))+1000
	one := func(e *Expr, tag string) {
		q := &QCase{Stream: exprClass(ds, e, false), E: e, Start: lo, End: hi, Tag: tag}
		if q.Stream == "skip" {
			return
		}
		q.PlanObs = tag == "wide/ge" // the observed plan shows the block numbers (recorded in the worker's obs.json only)
		q.Text = q.render()
		qs = append(qs, q)
	}
	it := strconv.Itoa
	marks := append(append([]int{}, wideMarks...), n-2, n-1, n, n+2, len(ds.Events)-1)
	for _, m := range marks {
		one(cmpE("pa", "=", numL(it(m))), "wide/eq")
		a := cmpE("pa", ">=", numL(it(m)))
		b := cmpE("pa", "<", numL(it(m+3)))
		one(&Expr{Kind: "and", A: a, B: b}, "wide/window")
		one(&Expr{Kind: "and", A: &Expr{Kind: "term", Word: "omega"}, B: cmpE("pa", "<=", numL(it(m)))}, "wide/term_and")
	}
	one(&Expr{Kind: "term", Word: "omega"}, "wide/term")
	one(&Expr{Kind: "term", Word: "omega mark"}, "wide/term")
	one(&Expr{Kind: "term", Word: "beta"}, "wide/term")
	one(cmpE("pt", "=", strL("omega*")), "wide/text")
	one(cmpE("pt", "!=", strL("alpha")), "wide/text")
	one(&Expr{Kind: "not", A: &Expr{Kind: "term", Word: "alpha"}}, "wide/not")
	one(&Expr{Kind: "and", A: &Expr{Kind: "not", A: cmpE("pa", "<", numL(it(n-3)))}, B: cmpE("pa", "<", numL(it(n+3)))}, "wide/not")
	one(cmpE("pa", ">=", numL(it(len(ds.Events)-4))), "wide/ge")
	one(&Expr{Kind: "and", A: cmpE("pa", ">", numL(it(search.PQMR_INITIAL_SIZE-2))), B: cmpE("pa", "<", numL(it(n+2)))}, "wide/ge")
	// both blocks are searched record by record at the same time by different block workers
	for _, t := range []string{"404", "7", "300"} {
		one(&Expr{Kind: "and", A: cmpE("pc", "=", numL(t)), B: cmpE("pa", ">=", numL(it(n-20)))}, "wide/both")
		one(&Expr{Kind: "and", A: cmpE("pc", "!=", numL(t)), B: &Expr{Kind: "and", A: cmpE("pa", ">", numL(it(n-9))), B: cmpE("pa", "<=", numL(it(n+6)))}}, "wide/both")
		one(&Expr{Kind: "and", A: anyE("=", numL(t), false), B: cmpE("pa", ">=", numL(it(len(ds.Events)-30)))}, "wide/both")
	}
	gi := 0
	for _, m := range []int{3999, 4000, 14999, 15000, n - 1} {
		a := cmpE("pa", "=", numL(it(m)))
		b := &Expr{Kind: "and", A: &Expr{Kind: "term", Word: "omega"}, B: cmpE("pa", vhlib.Pick(r, []string{">", ">="}), numL(it(m-2)))}
		for k, e := range []*Expr{a, b, {Kind: "and", A: a, B: b}, {Kind: "or", A: a, B: b}, {Kind: "and", A: &Expr{Kind: "not", A: a}, B: b}, {Kind: "or", A: b, B: a}} {
			q := &QCase{Stream: exprClass(ds, e, false), E: e, Start: lo, End: hi, Tag: fmt.Sprintf("compound/%d/%d", gi, k)}
			if k == 4 {
				q.Tag = fmt.Sprintf("wide/andnot/%d", gi)
			}
			q.Text = q.render()
			qs = append(qs, q)
		}
		gi++
	}
	// time range around the thresholds (record i has time T0+i)
	for _, m := range []int{4000, 15000, n - 1} {
		qs = append(qs, &QCase{Stream: "main", Start: T0 + uint64(m) - 1, End: T0 + uint64(m) + 1, Tag: "time/wide", Text: "*"})
	}
	return qs
}

// c02 (exploration draft)
package main

import (
	"context"
	"encoding/json"
	"fmt"
	"os"
	"sort"
	"strings"
	"time"

	"github.com/siglens/siglens/pkg/ast/pipesearch"
	"github.com/siglens/siglens/pkg/config"
	eswriter "github.com/siglens/siglens/pkg/es/writer"
	"github.com/siglens/siglens/pkg/segment/memory/limit"
	"github.com/siglens/siglens/pkg/segment/query"
	"github.com/siglens/siglens/pkg/segment/writer"
	serverutils "github.com/siglens/siglens/pkg/server/utils"
	vtable "github.com/siglens/siglens/pkg/virtualtable"
	log "github.com/sirupsen/logrus"
)

type Query struct {
	Text  string `json:"q"`
	Start uint64 `json:"s"`
	End   uint64 `json:"e"`
}
type Script struct {
	Batches [][]string `json:"batches"`
	Rotate  bool       `json:"rotate"`
	Queries []Query    `json:"queries"`
}
type QObs struct {
	Ids []int  `json:"ids"`
	Err string `json:"err,omitempty"`
	Dup bool   `json:"dup,omitempty"`
}

func initNode(dir string) error {
	config.InitializeTestingConfig(dir + "/")
	config.SetNewQueryPipelineEnabled(true)
	limit.InitMemoryLimiter()
	writer.InitWriterNode()
	if err := vtable.InitVTable(serverutils.GetMyIds); err != nil {
		return err
	}
	if err := query.InitQueryNode(serverutils.GetMyIds, serverutils.ExtractKibanaRequests); err != nil {
		return err
	}
	query.InitMaxRunningQueries()
	go query.PullQueriesToRun(context.Background())
	return nil
}

var qid uint64 = 1

func runQuery(q Query) QObs {
	qid++
	req := map[string]interface{}{
		"searchText": q.Text, "indexName": "c02", "startEpoch": q.Start, "endEpoch": q.End,
		"size": uint64(10000), "from": uint64(0), "queryLanguage": "Splunk QL", "state": "query",
	}
	ch := make(chan QObs, 1)
	go func() {
		defer func() {
			if r := recover(); r != nil {
				ch <- QObs{Err: fmt.Sprintf("panic: %v", r)}
			}
		}()
		resp, _, _, err := pipesearch.ParseAndExecutePipeRequest(req, qid, 0, time.Now(), "", nil)
		if err != nil {
			ch <- QObs{Err: "error: " + err.Error()}
			return
		}
		if resp == nil {
			ch <- QObs{Err: "nil response"}
			return
		}
		o := QObs{Ids: []int{}}
		if len(resp.Errors) > 0 {
			o.Err = "resp.Errors: " + strings.Join(resp.Errors, "; ")
		}
		seen := map[int]bool{}
		for _, h := range resp.Hits.Hits {
			id := -1
			switch v := h["id"].(type) {
			case float64:
				id = int(v)
			case int64:
				id = int(v)
			case uint64:
				id = int(v)
			case int:
				id = v
			case json.Number:
				n, _ := v.Int64()
				id = int(n)
			default:
				o.Err += fmt.Sprintf(" hit without id (%T)", h["id"])
			}
			if seen[id] {
				o.Dup = true
			}
			seen[id] = true
			o.Ids = append(o.Ids, id)
		}
		sort.Ints(o.Ids)
		ch <- o
	}()
	select {
	case r := <-ch:
		return r
	case <-time.After(20 * time.Second):
		return QObs{Err: "timeout"}
	}
}

func workerMain(dir, scriptPath, outPath string) {
	log.SetLevel(log.PanicLevel)
	b, err := os.ReadFile(scriptPath)
	if err != nil {
		fmt.Fprintln(os.Stderr, err)
		os.Exit(3)
	}
	var sc Script
	if err := json.Unmarshal(b, &sc); err != nil {
		fmt.Fprintln(os.Stderr, err)
		os.Exit(3)
	}
	if err := initNode(dir); err != nil {
		fmt.Fprintln(os.Stderr, "init:", err)
		os.Exit(4)
	}
	zero := time.Duration(0)
	for i, batch := range sc.Batches {
		var sb strings.Builder
		for _, doc := range batch {
			sb.WriteString("{\"index\":{\"_index\":\"c02\"}}\n")
			sb.WriteString(doc)
			sb.WriteString("\n")
		}
		n, _, err := eswriter.HandleBulkBody([]byte(sb.String()), nil, uint64(i+1), 0, false)
		if err != nil || n != len(batch) {
			fmt.Fprintf(os.Stderr, "ingest batch %d: n=%d err=%v\n", i, n, err)
			os.Exit(5)
		}
		writer.FlushWipBufferToFile(&zero, &zero)
	}
	if sc.Rotate {
		writer.ForceRotateSegmentsForTest()
	}
	obs := make([]QObs, len(sc.Queries))
	for i, q := range sc.Queries {
		obs[i] = runQuery(q)
	}
	ob, _ := json.Marshal(obs)
	if err := os.WriteFile(outPath, ob, 0o644); err != nil {
		os.Exit(6)
	}
	os.Exit(0)
}

func main() {
	if len(os.Args) >= 5 && os.Args[1] == "worker" {
		workerMain(os.Args[2], os.Args[3], os.Args[4])
		return
	}
}

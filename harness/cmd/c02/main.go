// c02: search filters select exactly the matching events.
//
// Two kinds of work:
//
//	(A) direct drive, in process: the exported comparison entry points of the real code
//	    (CreateDtypeEnclosure, ApplySearchToExpressionFilterSimpleCsg = filterOpOnDataType /
//	    fopOnNumber / compareNumberDte / fopOnString, AlmostEquals, TimeRange.CheckInRange /
//	    CheckRangeOverLap / AreTimesFullyEnclosed, IsSubWordPresent, SPLToRegex + regexp) on
//	    the ENUMERATED matrix  stored value x literal x operator  over a boundary pool; the
//	    observations go to Coq case files and must equal the model (Dte.v, Filter.v).
//
//	(B) end to end, one worker process per scenario (fresh data directory): datasets with an
//	    integer, a float, a mixed int/float, a text, a numeric-string, a bool and a mixed
//	    text/number column (values absent in some events), two block layouts; every filter is
//	    rendered to SPL as a search clause and, for numeric comparisons, as `| where`; the
//	    returned id sets are compared (a) with the specification evaluated in Go from the
//	    property text (oracle -> VIOLATION / KNOWN-FINDING classes) and (b) in Coq with
//	    impl_select / where_cmp of the model.
//
//	(C) the block / column planning layer: SegmentSearchRequest.JoinRequest driven directly on random
//	    plan pairs (oracle: blocks intersected / united, candidate columns of a kept block united; Coq:
//	    FilterPlan.join_req); layouts WITHOUT sentinel events (3 blocks, open segment with raw columns /
//	    rotated segment with dictionary columns) whose numeric columns cover different ranges per block
//	    and per column, queried with all-column numeric comparisons (free-text numbers, `*=N`, `*<N`),
//	    named comparisons and words under AND / OR / NOT in both operand orders; besides the ids the
//	    worker reports the merged plan the real micro-index phase builds (numeric leaves), which must
//	    equal FilterPlan.plan_of in Coq; the ids must equal the search executed under that plan.
//
//	(D) size thresholds of the search path (big.go): segments of ~250 one- or two-event blocks (more than two chunks of
//	    BLOCK_BATCH_SIZE blocks reach RawSearchSegmentFileWrapper in one request, more than two searcher groups of
//	    GOMAXPROCS blocks), candidate-block counts on both sides of every multiple of the chunk size; the ids must equal
//	    the search executed chunk by chunk (FilterChunk.v) in Coq; one block of more than PQMR_INITIAL_SIZE records
//	    (oracle only).
//
// Known-defect classes are generated in their own streams (decimal literal vs integer values,
// float equality within 1e-4, != / NOT on absent or differently typed values, integer
// literals outside int64, numbers stored as text next to text values, `where` on integers
// above 2^53, bool literals); the main stream stays clear of them, so anything else is
// reported as a violation.
package main

import (
	"context"
	"encoding/json"
	"fmt"
	"math"
	"math/big"
	"os"
	"os/exec"
	"path/filepath"
	"regexp"
	"runtime"
	"sort"
	"strconv"
	"strings"
	"sync"
	"time"

	"github.com/siglens/siglens/pkg/ast/pipesearch"
	dtu "github.com/siglens/siglens/pkg/common/dtypeutils"
	"github.com/siglens/siglens/pkg/config"
	eswriter "github.com/siglens/siglens/pkg/es/writer"
	sregex "github.com/siglens/siglens/pkg/regex"
	"github.com/siglens/siglens/pkg/segment/memory/limit"
	segmetadata "github.com/siglens/siglens/pkg/segment/metadata"
	"github.com/siglens/siglens/pkg/segment/query"
	"github.com/siglens/siglens/pkg/segment/query/metadata"
	"github.com/siglens/siglens/pkg/segment/query/summary"
	"github.com/siglens/siglens/pkg/segment/structs"
	sutils "github.com/siglens/siglens/pkg/segment/utils"
	"github.com/siglens/siglens/pkg/segment/writer"
	serverutils "github.com/siglens/siglens/pkg/server/utils"
	putils "github.com/siglens/siglens/pkg/utils"
	vtable "github.com/siglens/siglens/pkg/virtualtable"
	log "github.com/sirupsen/logrus"

	"verifharness/vhlib"
)

// =====================================================================================
// worker: runs the real system on one scenario
// =====================================================================================

type Query struct {
	Text  string `json:"q"`
	Start uint64 `json:"s"`
	End   uint64 `json:"e"`
	Plan  bool   `json:"p,omitempty"` // also observe the block / column plan the micro-index phase builds for this query
}
type Script struct {
	Batches [][]string `json:"batches"`
	Rotate  bool       `json:"rotate"`
	Raw     bool       `json:"raw,omitempty"` // no dictionary encoding (writer.SetCardinalityLimit(1)): the record-by-record column search runs
	Queries []Query    `json:"queries"`
}
type QObs struct {
	Ids []int  `json:"ids"`
	Err string `json:"err,omitempty"`
	Dup bool   `json:"dup,omitempty"`
	// the merged plan (AllBlocksToSearch / CmiPassedCnames of the one segment file): block -> candidate columns;
	// HasPlan false = no request for the file
	Plan    map[string][]string `json:"plan,omitempty"`
	HasPlan bool                `json:"hasplan,omitempty"`
	PlanErr string              `json:"planerr,omitempty"`
}

// the block / column plan exactly as the query path builds it: ParseRequest -> ConvertASTNodeToSearchNode ->
// ExtractUnrotatedSSRFromSearchNode (open segment) / ExtractSSRFromSearchNode (rotated segment)
func observePlan(q Query, o *QObs) {
	defer func() {
		if r := recover(); r != nil {
			o.PlanErr = fmt.Sprintf("panic: %v", r)
		}
	}()
	qid++
	astNode, _, _, err := pipesearch.ParseRequest(q.Text, q.Start, q.End, qid, "Splunk QL", "c02")
	if err != nil || astNode == nil {
		o.PlanErr = fmt.Sprintf("parse: %v", err)
		return
	}
	sNode := query.ConvertASTNodeToSearchNode(astNode, qid)
	tr := &dtu.TimeRange{StartEpochMs: q.Start, EndEpochMs: q.End}
	qs := summary.InitQuerySummary(summary.LOGS, qid)
	var ssrs map[string]*structs.SegmentSearchRequest
	writer.UnrotatedInfoLock.RLock()
	var open []string
	for k := range writer.AllUnrotatedSegmentInfo {
		open = append(open, k)
	}
	writer.UnrotatedInfoLock.RUnlock()
	files := map[string]map[string]*structs.BlockTracker{"c02": {}}
	if len(open) > 0 {
		for _, k := range open {
			files["c02"][k] = structs.InitEntireFileBlockTracker()
		}
		ssrs = metadata.ExtractUnrotatedSSRFromSearchNode(sNode, tr, []string{"c02"}, files, qs, qid)
	} else {
		for k := range segmetadata.GetAllSegKeys() {
			files["c02"][k] = structs.InitEntireFileBlockTracker()
		}
		ssrs = query.ExtractSSRFromSearchNode(sNode, files, tr, []string{"c02"}, qs, qid, false, "")
	}
	if len(files["c02"]) != 1 {
		o.PlanErr = fmt.Sprintf("%d segment files", len(files["c02"]))
		return
	}
	o.Plan = map[string][]string{}
	for _, ssr := range ssrs {
		o.HasPlan = true
		for b := range ssr.AllBlocksToSearch {
			cs := []string{}
			for c := range ssr.CmiPassedCnames[b] {
				cs = append(cs, c)
			}
			sort.Strings(cs)
			o.Plan[strconv.Itoa(int(b))] = cs
		}
	}
}

func initNode(dir string) error {
	config.InitializeTestingConfig(dir + "/")
	config.SetNewQueryPipelineEnabled(true)
	limit.InitMemoryLimiter()
	writer.InitWriterNode()
	if err := vtable.InitVTable(serverutils.GetMyIds); err != nil {
		return err
	}
	if err := query.InitQueryNode(serverutils.GetMyIds, serverutils.ExtractKibanaRequests); err != nil {
		return err
	}
	query.InitMaxRunningQueries()
	go query.PullQueriesToRun(context.Background())
	return nil
}

var qid uint64 = 1

func runQuery(q Query) QObs {
	qid++
	req := map[string]interface{}{
		"searchText": q.Text, "indexName": "c02", "startEpoch": q.Start, "endEpoch": q.End,
		"size": uint64(10000), "from": uint64(0), "queryLanguage": "Splunk QL", "state": "query",
	}
	ch := make(chan QObs, 1)
	go func() {
		defer func() {
			if r := recover(); r != nil {
				ch <- QObs{Err: fmt.Sprintf("panic: %v", r)}
			}
		}()
		resp, _, _, err := pipesearch.ParseAndExecutePipeRequest(req, qid, 0, time.Now(), "", nil)
		if err != nil {
			ch <- QObs{Err: "error: " + err.Error()}
			return
		}
		if resp == nil {
			ch <- QObs{Err: "nil response"}
			return
		}
		o := QObs{Ids: []int{}}
		if len(resp.Errors) > 0 {
			o.Err = "resp.Errors: " + strings.Join(resp.Errors, "; ")
		}
		seen := map[int]bool{}
		for _, h := range resp.Hits.Hits {
			id := -1
			switch v := h["id"].(type) {
			case float64:
				id = int(v)
			case int64:
				id = int(v)
			case uint64:
				id = int(v)
			case int:
				id = v
			case json.Number:
				n, _ := v.Int64()
				id = int(n)
			default:
				o.Err += fmt.Sprintf(" hit without id (%T)", h["id"])
			}
			if seen[id] {
				o.Dup = true
			}
			seen[id] = true
			o.Ids = append(o.Ids, id)
		}
		sort.Ints(o.Ids)
		ch <- o
	}()
	select {
	case r := <-ch:
		return r
	case <-time.After(30 * time.Second):
		return QObs{Err: "timeout"}
	}
}

func workerMain(dir, scriptPath, outPath string) {
	log.SetLevel(log.PanicLevel)
	b, err := os.ReadFile(scriptPath)
	if err != nil {
		fmt.Fprintln(os.Stderr, err)
		os.Exit(3)
	}
	var sc Script
	if err := json.Unmarshal(b, &sc); err != nil {
		fmt.Fprintln(os.Stderr, err)
		os.Exit(3)
	}
	if err := initNode(dir); err != nil {
		fmt.Fprintln(os.Stderr, "init:", err)
		os.Exit(4)
	}
	if sc.Raw {
		// small blocks have few distinct values per column and would all be dictionary encoded (the dictionary search
		// then answers the leaf); with the limit at 1 no column is, as for high-cardinality columns in production
		writer.SetCardinalityLimit(1)
	}
	zero := time.Duration(0)
	for i, batch := range sc.Batches {
		var sb strings.Builder
		for _, doc := range batch {
			sb.WriteString("{\"index\":{\"_index\":\"c02\"}}\n")
			sb.WriteString(doc)
			sb.WriteString("\n")
		}
		n, _, err := eswriter.HandleBulkBody([]byte(sb.String()), nil, uint64(i+1), 0, false)
		if err != nil || n != len(batch) {
			fmt.Fprintf(os.Stderr, "ingest batch %d: n=%d err=%v\n", i, n, err)
			os.Exit(5)
		}
		writer.FlushWipBufferToFile(&zero, &zero)
	}
	if sc.Rotate {
		writer.ForceRotateSegmentsForTest()
	}
	obs := make([]QObs, len(sc.Queries))
	for i, q := range sc.Queries {
		obs[i] = runQuery(q)
		if q.Plan {
			observePlan(q, &obs[i])
		}
	}
	ob, _ := json.Marshal(obs)
	if err := os.WriteFile(outPath, ob, 0o644); err != nil {
		os.Exit(6)
	}
	os.Exit(0)
}

func runScenario(dir string, sc *Script) ([]QObs, error) {
	_ = os.RemoveAll(dir)
	data := filepath.Join(dir, "data")
	if err := os.MkdirAll(data, 0o755); err != nil {
		return nil, err
	}
	sp := filepath.Join(dir, "script.json")
	op := filepath.Join(dir, "obs.json")
	b, _ := json.Marshal(sc)
	_ = os.WriteFile(sp, b, 0o644)
	ctx, cancel := context.WithTimeout(context.Background(), 600*time.Second)
	defer cancel()
	cmd := exec.CommandContext(ctx, os.Args[0], "worker", data, sp, op)
	out, err := cmd.CombinedOutput()
	if err != nil {
		tail := string(out)
		if len(tail) > 600 {
			tail = tail[len(tail)-600:]
		}
		return nil, fmt.Errorf("worker: %v: %s", err, tail)
	}
	ob, err := os.ReadFile(op)
	if err != nil {
		return nil, err
	}
	var o []QObs
	if err := json.Unmarshal(ob, &o); err != nil || len(o) != len(sc.Queries) {
		return nil, fmt.Errorf("worker: bad observation file")
	}
	_ = os.RemoveAll(data)
	return o, nil
}

// =====================================================================================
// values, literals, specification (written from the property text, independent of the code)
// =====================================================================================

const (
	kInt = iota
	kUint
	kFloat
	kStr
	kBool
	kAbsent
)

type Val struct {
	K    int
	R    *big.Rat // numeric kinds: exact value
	S    string
	B    bool
	JSON string // how the value is written in the ingested document ("" = field absent)
}

func ratOfText(s string) *big.Rat {
	r, ok := new(big.Rat).SetString(s)
	if !ok {
		panic("bad number text " + s)
	}
	return r
}
func vInt(text string) Val { return Val{K: kInt, R: ratOfText(text), JSON: text} }
func vFloat(text string) Val { // text must be exactly representable? no: the stored value is the float64
	f, err := strconv.ParseFloat(text, 64)
	if err != nil {
		panic(err)
	}
	return Val{K: kFloat, R: new(big.Rat).SetFloat64(f), JSON: text}
}
func vStr(s string) Val {
	b, _ := json.Marshal(s)
	return Val{K: kStr, S: s, JSON: string(b)}
}
func vBool(b bool) Val { return Val{K: kBool, B: b, JSON: strconv.FormatBool(b)} }

var vAbsent = Val{K: kAbsent}

func (v Val) isNum() bool { return v.K == kInt || v.K == kUint || v.K == kFloat }

func coqZ(z *big.Int) string {
	if z.Sign() < 0 {
		return "(" + z.String() + ")"
	}
	return z.String()
}
func coqQ(r *big.Rat) string {
	return "(" + coqZ(r.Num()) + " # " + r.Denom().String() + ")"
}
func (v Val) coq() string {
	switch v.K {
	case kInt:
		return "SInt " + coqZ(v.R.Num())
	case kUint:
		return "SUint " + coqZ(v.R.Num())
	case kFloat:
		return "SFloat " + coqQ(v.R)
	case kStr:
		return "SStr " + vhlib.CoqStr(v.S)
	case kBool:
		return "SBool " + vhlib.CoqBool(v.B)
	}
	return "SAbsent"
}

// numeric literal of the search clause
type NumLit struct {
	Text    string
	IsInt   bool     // accepted by ParseInt ('-') / ParseUint (no sign): NLInt
	R       *big.Rat // exact value of the text
	Inexact bool     // not NLInt and float64(text) != text: the model (exact rationals) does not apply
	Dot     bool     // written with a decimal point
}

func mkNumLit(text string) NumLit {
	l := NumLit{Text: text, R: ratOfText(text), Dot: strings.Contains(text, ".")}
	if text[0] == '-' {
		if _, err := strconv.ParseInt(text, 10, 64); err == nil {
			l.IsInt = true
		}
	} else if _, err := strconv.ParseUint(text, 10, 64); err == nil {
		l.IsInt = true
	}
	if !l.IsInt {
		// a decimal literal denotes the float64 nearest to its text (as for stored decimals)
		f, err := strconv.ParseFloat(text, 64)
		if err != nil {
			panic(err)
		}
		l.R = new(big.Rat).SetFloat64(f)
	}
	return l
}
func (l NumLit) coq() string {
	if l.IsInt {
		return "NLInt " + coqZ(l.R.Num())
	}
	return "NLDec " + coqQ(l.R)
}

type Lit struct {
	IsNum bool
	N     NumLit
	Pat   string // text literal as written in the query (original case), '*' = wildcard
}

func (l Lit) coq() string {
	if l.IsNum {
		return "LNum (" + l.N.coq() + ")"
	}
	return "LStr " + vhlib.CoqStr(strings.ToLower(l.Pat))
}

var ops = []string{"=", "!=", "<", "<=", ">", ">="}
var opCoq = map[string]string{"=": "Eq", "!=": "Ne", "<": "Lt", "<=": "Le", ">": "Gt", ">=": "Ge"}
var opFop = map[string]sutils.FilterOperator{"=": sutils.Equals, "!=": sutils.NotEquals, "<": sutils.LessThan,
	"<=": sutils.LessThanOrEqualTo, ">": sutils.GreaterThan, ">=": sutils.GreaterThanOrEqualTo}

func cmpRat(op string, a, b *big.Rat) bool {
	c := a.Cmp(b)
	switch op {
	case "=":
		return c == 0
	case "!=":
		return c != 0
	case "<":
		return c < 0
	case "<=":
		return c <= 0
	case ">":
		return c > 0
	case ">=":
		return c >= 0
	}
	panic("op")
}

func lowerASCII(s string) string {
	b := []byte(s)
	for i, c := range b {
		if c >= 'A' && c <= 'Z' {
			b[i] = c + 32
		}
	}
	return string(b)
}

// glob: '*' matches any sequence of characters (including none), everything else itself,
// case-insensitively; the whole value must match
func globMatch(pat, s string) bool {
	p, t := lowerASCII(pat), lowerASCII(s)
	var rec func(i, j int) bool
	rec = func(i, j int) bool {
		if i == len(p) {
			return j == len(t)
		}
		if p[i] == '*' {
			for k := j; k <= len(t); k++ {
				if rec(i+1, k) {
					return true
				}
			}
			return false
		}
		return j < len(t) && p[i] == t[j] && rec(i+1, j+1)
	}
	return rec(0, 0)
}

// a word or phrase occurs in a text value delimited by spaces or the ends of the value
func wordOccurs(w, s string) bool {
	w, s = lowerASCII(w), lowerASCII(s)
	for i := 0; i+len(w) <= len(s); i++ {
		if s[i:i+len(w)] == w && (i == 0 || s[i-1] == ' ') && (i+len(w) == len(s) || s[i+len(w)] == ' ') {
			return true
		}
	}
	return false
}

// spec_cmp: the property text
func specCmp(op string, v Val, l Lit) bool {
	switch {
	case v.K == kAbsent:
		return false
	case v.isNum() && l.IsNum:
		return cmpRat(op, v.R, l.N.R)
	case v.K == kStr && !l.IsNum:
		m := globMatch(l.Pat, v.S)
		if op == "=" {
			return m
		}
		if op == "!=" {
			return !m
		}
		return false
	default: // present, of another kind: different
		return op == "!="
	}
}

// ---------- expressions ----------
type Expr struct {
	Kind string // cmp, term, any (all-column numeric comparison: free-text number N = `*=N`, `*<N`, ...), and, or, not
	Bare bool   // any with "=": written as the bare number
	Col  string
	Op   string
	L    Lit
	Word string
	A, B *Expr
}

var colNum = map[string]int{"ci": 1, "cf": 2, "cm": 3, "cs": 4, "cns": 5, "cb": 6, "cx": 7,
	"pa": 8, "pb": 9, "pc": 10, "pf": 11, "pt": 12, "pu": 13} // 0 = the id field (plan datasets)
var baseCols = []string{"ci", "cf", "cm", "cs", "cns", "cb", "cx"}
var planCols = []string{"pa", "pb", "pc", "pf", "pt", "pu"}
var allCols = append(append([]string{}, baseCols...), planCols...)

type Event struct {
	ID int
	TS uint64
	F  map[string]Val // as ingested
	St map[string]Val // as stored after block type consolidation (filled per layout)
}

func specEval(e *Expr, ev *Event) bool {
	switch e.Kind {
	case "cmp":
		v, ok := ev.F[e.Col]
		if !ok {
			v = vAbsent
		}
		return specCmp(e.Op, v, e.L)
	case "term":
		for _, v := range ev.F {
			if v.K == kStr && wordOccurs(e.Word, v.S) {
				return true
			}
		}
		return false
	case "any":
		// some field of the event (the id included; the timestamp is the event's time, not a field) holds a number
		// that satisfies the comparison by value
		// `*!=N` is the negation of `*=N` (no field holds N), like `*!=word` for text
		op, neg := e.Op, false
		if op == "!=" {
			op, neg = "=", true
		}
		if cmpRat(op, big.NewRat(int64(ev.ID), 1), e.L.N.R) {
			return !neg
		}
		for _, v := range ev.F {
			if v.isNum() && cmpRat(op, v.R, e.L.N.R) {
				return !neg
			}
		}
		return neg
	case "and":
		return specEval(e.A, ev) && specEval(e.B, ev)
	case "or":
		return specEval(e.A, ev) || specEval(e.B, ev)
	case "not":
		return !specEval(e.A, ev)
	}
	panic("kind")
}

var numLike = regexp.MustCompile(`^[-+]?[0-9]*\.?[0-9]+$`)

func quoteIfNeeded(s string) string {
	if strings.ContainsAny(s, " ") || numLike.MatchString(s) || s == "true" || s == "false" {
		return "\"" + s + "\""
	}
	return s
}

// search-clause rendering
func (e *Expr) spl() string {
	switch e.Kind {
	case "cmp":
		if e.L.IsNum {
			return e.Col + e.Op + e.L.N.Text
		}
		return e.Col + e.Op + quoteIfNeeded(e.L.Pat)
	case "term":
		return quoteIfNeeded(e.Word)
	case "any":
		if e.Op == "=" && e.Bare {
			return e.L.N.Text
		}
		return "*" + e.Op + e.L.N.Text
	case "and":
		return "(" + e.A.spl() + " AND " + e.B.spl() + ")"
	case "or":
		return "(" + e.A.spl() + " OR " + e.B.spl() + ")"
	case "not":
		return "NOT (" + e.A.spl() + ")"
	}
	panic("kind")
}

func (e *Expr) coq() string {
	switch e.Kind {
	case "cmp":
		return fmt.Sprintf("EAtom (ACmp %d %s (%s) true)", colNum[e.Col], opCoq[e.Op], e.L.coq())
	case "term":
		return "EAtom (ATerm " + vhlib.CoqStr(lowerASCII(e.Word)) + " false)"
	case "any":
		if e.Op == "!=" {
			return fmt.Sprintf("EAtom (AAny Eq (%s) true)", e.L.coq())
		}
		return fmt.Sprintf("EAtom (AAny %s (%s) false)", opCoq[e.Op], e.L.coq())
	case "and":
		return "EAnd (" + e.A.coq() + ") (" + e.B.coq() + ")"
	case "or":
		return "EOr (" + e.A.coq() + ") (" + e.B.coq() + ")"
	case "not":
		return "ENot (" + e.A.coq() + ")"
	}
	panic("kind")
}

func cmpE(col, op string, l Lit) *Expr { return &Expr{Kind: "cmp", Col: col, Op: op, L: l} }
func anyE(op string, l Lit, bare bool) *Expr {
	return &Expr{Kind: "any", Op: op, L: l, Bare: bare}
}
func hasAny(e *Expr) bool {
	if e == nil {
		return false
	}
	switch e.Kind {
	case "any":
		return true
	case "and", "or":
		return hasAny(e.A) || hasAny(e.B)
	case "not":
		return hasAny(e.A)
	}
	return false
}
func onlyNumericLeaves(e *Expr) bool {
	switch e.Kind {
	case "any":
		return true
	case "cmp":
		return e.L.IsNum
	case "and", "or":
		return onlyNumericLeaves(e.A) && onlyNumericLeaves(e.B)
	case "not":
		return onlyNumericLeaves(e.A)
	}
	return false
}
func numL(text string) Lit { return Lit{IsNum: true, N: mkNumLit(text)} }
func strL(p string) Lit    { return Lit{Pat: p} }

// =====================================================================================
// pools
// =====================================================================================

var numLitTexts = []string{
	"0", "1", "-1", "2", "-2", "3", "7", "007", "100", "-0", "+5", "5",
	"2.5", "-2.5", "5.0", "0.0", "2.50", "0.5", "7.5", "3.0",
	"1.00001", "0.99999", "1.0", "0.00001", "-0.00001", "1.0002",
	"9007199254740992", "9007199254740993", "-9007199254740993",
	"9223372036854775807", "-9223372036854775808",
	"9223372036854775808", "18446744073709551615", "18446744073709551616", "-9223372036854775809",
}

var intColTexts = []string{"0", "1", "-1", "2", "-2", "3", "5", "7", "100",
	"9007199254740992", "9007199254740993", "-9007199254740993", "9223372036854775807", "-9223372036854775808"}
var floatColTexts = []string{"2.5", "-2.5", "1.00001", "0.99999", "1.0", "0.00001", "-0.00001", "7.5", "3.0", "0.5", "0.0",
	"9007199254740992.0", "-1000000000000000.0", "1000000000000000.0"}
var mixColTexts = []string{"2", "3", "-2", "2.5", "-2.5", "7", "7.5", "0", "1.00001", "5", "-1000000.5", "1000000.5"}
var textVals = []string{"Hello World", "hello", "HELLO there", "foo-bar", "Abc", "abc def ghi", "x", "say hello world now",
	"zebra", "Zeb", "a  b", "end hello", "007", "helloworld"}
var numStrVals = []string{"007", "7", "7.0", "12", "-3", "2.5", "abc7"}
var textPats = []string{"hello", "HELLO", "Hello World", "hello world", "abc", "hel*", "*world", "*llo*", "h*o", "*", "abc*ghi",
	"zeb", "zebra*", "x", "nomatch", "a  b", "h*l*o*", "foo-bar", "foo*", "*bar", "007", "hello*world"}
var termWords = []string{"hello", "HELLO", "world", "hello world", "Hello World", "abc", "def", "ghi", "def ghi", "abc ghi",
	"zebra", "zeb", "x", "b", "a", "nomatch", "foo", "foo-bar", "now", "say hello", "end", "helloworld", "there"}

// =====================================================================================
// (A) direct drive
// =====================================================================================

func encRec(v Val, variant int) []byte {
	switch v.K {
	case kInt:
		z := v.R.Num().Int64()
		if variant == 1 && z >= 0 && z <= 127 { // negative INT8 records are read without sign extension (never written by the ingest path; see notes)
			return []byte{sutils.VALTYPE_ENC_INT8[0], byte(int8(z))}
		}
		if variant == 1 && z >= -32768 && z <= 32767 {
			b := make([]byte, 3)
			b[0] = sutils.VALTYPE_ENC_INT16[0]
			putils.Int16ToBytesLittleEndianInplace(int16(z), b[1:])
			return b
		}
		if variant == 2 && z >= -2147483648 && z <= 2147483647 {
			b := make([]byte, 5)
			b[0] = sutils.VALTYPE_ENC_INT32[0]
			putils.Int32ToBytesLittleEndianInplace(int32(z), b[1:])
			return b
		}
		b := make([]byte, 9)
		b[0] = sutils.VALTYPE_ENC_INT64[0]
		putils.Int64ToBytesLittleEndianInplace(z, b[1:])
		return b
	case kUint:
		u := v.R.Num().Uint64()
		if variant == 1 && u <= 255 {
			return []byte{sutils.VALTYPE_ENC_UINT8[0], byte(u)}
		}
		if variant == 2 && u <= 65535 {
			b := make([]byte, 3)
			b[0] = sutils.VALTYPE_ENC_UINT16[0]
			putils.Uint16ToBytesLittleEndianInplace(uint16(u), b[1:])
			return b
		}
		b := make([]byte, 9)
		b[0] = sutils.VALTYPE_ENC_UINT64[0]
		putils.Uint64ToBytesLittleEndianInplace(u, b[1:])
		return b
	case kFloat:
		f, _ := v.R.Float64()
		b := make([]byte, 9)
		b[0] = sutils.VALTYPE_ENC_FLOAT64[0]
		putils.Float64ToBytesLittleEndianInplace(f, b[1:])
		return b
	case kStr:
		b := make([]byte, 3+len(v.S))
		b[0] = sutils.VALTYPE_ENC_SMALL_STRING[0]
		putils.Uint16ToBytesLittleEndianInplace(uint16(len(v.S)), b[1:])
		copy(b[3:], v.S)
		return b
	case kBool:
		x := byte(0)
		if v.B {
			x = 1
		}
		return []byte{sutils.VALTYPE_ENC_BOOL[0], x}
	}
	return []byte{sutils.VALTYPE_ENC_BACKFILL[0]}
}

// the enclosure exactly as the SPL search path builds it
func mkDte(l Lit, ci bool) *sutils.DtypeEnclosure {
	if l.IsNum {
		d, err := sutils.CreateDtypeEnclosure(json.Number(l.N.Text), 0)
		if err != nil {
			panic(err)
		}
		return d
	}
	val := l.Pat
	if ci {
		val = strings.ToLower(val)
	}
	d, err := sutils.CreateDtypeEnclosure(val, 0)
	if err != nil {
		panic(err)
	}
	d.UpdateRegexp(ci, false)
	d.AddStringAsByteSlice() // SearchExpression.GetQueryInfo
	return d
}

func callCmp(d *sutils.DtypeEnclosure, op string, rec []byte, ci bool) (res bool, fail string) {
	defer func() {
		if r := recover(); r != nil {
			fail = fmt.Sprintf("panic: %v", r)
		}
	}()
	holder := &sutils.DtypeEnclosure{}
	r, _ := writer.ApplySearchToExpressionFilterSimpleCsg(d, opFop[op], rec, d.IsRegex(), holder, ci)
	return r, ""
}

func directDrive(cfg vhlib.Config, sum *vhlib.Summary) {
	dir := filepath.Join(cfg.Out, "cases")
	_ = os.MkdirAll(dir, 0o755)
	imports := "From SigM Require Import Base Dte Filter FilterCheck.\nFrom Coq Require Import QArith.\nOpen Scope Z_scope.\n"

	// ---- literal enclosures ----
	var lits []Lit
	{
		var items []string
		for _, t := range numLitTexts {
			l := numL(t)
			lits = append(lits, l)
			d := mkDte(l, true)
			kind := 0
			switch d.Dtype {
			case sutils.SS_DT_SIGNED_NUM:
				kind = 1
			case sutils.SS_DT_UNSIGNED_NUM:
				kind = 2
			case sutils.SS_DT_FLOAT:
				kind = 3
			}
			sum.Eval("dte/"+t, true)
			sum.Count("direct/enclosure")
			if l.N.Inexact {
				sum.Count("direct/enclosure_skipped_float_rounding")
				continue
			}
			if math.IsInf(d.FloatVal, 0) || math.IsNaN(d.FloatVal) {
				continue
			}
			fl := new(big.Rat).SetFloat64(d.FloatVal)
			if l.N.IsInt && fl.Cmp(l.N.R) != 0 {
				// integer literal beyond 2^53: FloatVal is rounded; the integer views are still compared
				fl = l.N.R
				sum.Count("direct/enclosure_float_view_rounded")
			}
			items = append(items, fmt.Sprintf("(%s, (%d%%N, %s, %s), %s)", l.N.coq(), kind,
				coqZ(big.NewInt(d.SignedVal)), new(big.Int).SetUint64(d.UnsignedVal).String(), coqQ(fl)))
		}
		sum.WriteCaseFile(dir, "dte", imports, "Open Scope Z_scope.\nDefinition cases : list (numlit * (N * Z * Z) * Q) := "+vhlib.CoqListNL(items)+".\n", "check_dte cases", len(items))
	}
	for _, p := range textPats {
		lits = append(lits, strL(p))
	}

	// ---- stored pool ----
	var stored []Val
	for _, t := range intColTexts {
		stored = append(stored, vInt(t))
	}
	for _, t := range []string{"0", "1", "5", "255", "65535", "9223372036854775808", "18446744073709551615"} {
		v := vInt(t)
		v.K = kUint
		stored = append(stored, v)
	}
	for _, t := range floatColTexts {
		stored = append(stored, vFloat(t))
	}
	for _, t := range []string{"2.0", "5.0", "-2.0", "1.0001", "1.00011", "-9223372036854775808.0"} {
		stored = append(stored, vFloat(t))
	}
	for _, s := range textVals {
		stored = append(stored, vStr(s))
	}
	for _, s := range []string{"", "7", "2.5", "a\nb", "A*b", "hello\nworld"} {
		stored = append(stored, vStr(s))
	}
	stored = append(stored, vBool(true), vBool(false), vAbsent)

	// ---- the matrix stored x literal x operator (x case flag for text) ----
	var items []string
	shard := 0
	nCmp := 0
	flush := func() {
		if len(items) == 0 {
			return
		}
		sum.WriteCaseFile(dir, fmt.Sprintf("cmp_%02d", shard), imports,
			"Definition cases : list (bool * stored * literal * list bool) := "+vhlib.CoqListNL(items)+".\n", "check_cmp6 cases", 6*len(items))
		shard++
		items = nil
	}
	for _, l := range lits {
		if l.IsNum && l.N.Inexact {
			continue
		}
		cis := []bool{true}
		if !l.IsNum {
			cis = []bool{true, false}
		}
		for _, ci := range cis {
			d := mkDte(l, ci)
			for si, st := range stored {
				if !l.IsNum && strings.Contains(l.Pat, "*") && st.isNum() {
					sum.Count("direct/skipped_wildcard_vs_number_not_modelled")
					continue
				}
				if l.IsNum && l.N.IsInt && st.K == kFloat && new(big.Rat).SetFloat64(ratF(l.N.R)).Cmp(l.N.R) != 0 {
					sum.Count("direct/skipped_float_rounding_of_integer_literal")
					continue
				}
				rec := encRec(st, si%3)
				var obs []string
				bad := false
				for _, op := range ops {
					res, fail := callCmp(d, op, rec, ci)
					if fail != "" {
						sum.Fail("comparison_panics", fail, map[string]interface{}{"stored": st.JSON, "literal": l, "op": op})
						bad = true
						break
					}
					sum.Eval(fmt.Sprintf("cmp/%d/%v/%s/%v", si, l, op, ci), true)
					sum.Count("direct/cmp/" + kindName(st.K) + "_vs_" + litKind(l))
					obs = append(obs, vhlib.CoqBool(res))
					nCmp++
				}
				if bad {
					continue
				}
				lc := l.coq()
				if !l.IsNum && !ci {
					lc = "LStr " + vhlib.CoqStr(l.Pat)
				}
				items = append(items, fmt.Sprintf("(%s, %s, %s, %s)", vhlib.CoqBool(ci), st.coq(), lc, vhlib.CoqList(obs)))
				if len(items) >= 1200 {
					flush()
				}
			}
		}
	}
	flush()
	_ = nCmp

	// ---- AlmostEquals ----
	{
		var it []string
		fl := []string{"1.0", "1.00001", "0.99999", "1.0002", "0.9998", "2.5", "-2.5", "0.0", "0.00001", "-0.00001", "0.00005", "-0.00005",
			"1000000.5", "1000000.50001", "9007199254740992.0", "1.00011", "0.00011"}
		for _, a := range fl {
			for _, b := range fl {
				x, _ := strconv.ParseFloat(a, 64)
				y, _ := strconv.ParseFloat(b, 64)
				it = append(it, fmt.Sprintf("(%s, %s, %s)", coqQ(new(big.Rat).SetFloat64(x)), coqQ(new(big.Rat).SetFloat64(y)), vhlib.CoqBool(dtu.AlmostEquals(x, y))))
				sum.Eval("almost/"+a+"/"+b, true)
				sum.Count("direct/almost_equals")
			}
		}
		sum.WriteCaseFile(dir, "almost", imports, "Open Scope Z_scope.\nDefinition cases : list (Q * Q * bool) := "+vhlib.CoqListNL(it)+".\n", "check_almost cases", len(it))
	}

	// ---- time range ----
	{
		T := uint64(1700000000000)
		pool := []uint64{0, 1, T - 1, T, T + 1, T + 1000, math.MaxUint64}
		var it []string
		shardT := 0
		flushT := func() {
			sum.WriteCaseFile(dir, fmt.Sprintf("time_%02d", shardT), imports,
				"Open Scope Z_scope.\nDefinition cases : list (Z * Z * Z * Z * (bool * bool * bool)) := "+vhlib.CoqListNL(it)+".\n", "check_time cases", len(it))
			shardT++
			it = nil
		}
		for _, s := range pool {
			for _, e := range pool {
				tr := dtu.TimeRange{StartEpochMs: s, EndEpochMs: e}
				for _, a := range pool {
					for _, b := range pool {
						it = append(it, fmt.Sprintf("(%d, %d, %d, %d, (%s, %s, %s))", s, e, a, b,
							vhlib.CoqBool(tr.CheckInRange(a)), vhlib.CoqBool(tr.CheckRangeOverLap(a, b)), vhlib.CoqBool(tr.AreTimesFullyEnclosed(a, b))))
						sum.Eval(fmt.Sprintf("time/%d/%d/%d/%d", s, e, a, b), true)
						sum.Count("direct/time_range")
						// oracle from the property text: in range iff start <= ts <= end; overlap iff a common instant exists
						if tr.CheckInRange(a) != (s <= a && a <= e) {
							sum.Fail("time_range_boundary", fmt.Sprintf("CheckInRange(%d) on [%d,%d]", a, s, e), []uint64{s, e, a})
						}
						if s <= e && a <= b {
							want := a <= e && b >= s
							if tr.CheckRangeOverLap(a, b) != want {
								sum.Fail("time_range_boundary", fmt.Sprintf("CheckRangeOverLap(%d,%d) on [%d,%d] = %v", a, b, s, e, !want), []uint64{s, e, a, b})
							}
						}
						if len(it) >= 3500 {
							flushT()
						}
					}
				}
			}
		}
		flushT()
	}

	// ---- IsSubWordPresent ----
	{
		var it []string
		hays := append(append([]string{}, textVals...), "", " ", "a", "hello ", " hello", "hello  world", "xhello", "hellox", "a b c", "ab")
		needles := append(append([]string{}, termWords...), "", " ", "hello ", "a b", "c", "ab", "abc def ghi")
		for _, h := range hays {
			for _, n := range needles {
				for _, ci := range []bool{true, false} {
					nn := n
					if ci {
						nn = strings.ToLower(n)
					}
					res := putils.IsSubWordPresent([]byte(h), []byte(nn), ci)
					it = append(it, fmt.Sprintf("(%s, %s, %s, %s)", vhlib.CoqBool(ci), vhlib.CoqStr(h), vhlib.CoqStr(nn), vhlib.CoqBool(res)))
					sum.Eval("subword/"+h+"/"+n+fmt.Sprint(ci), true)
					sum.Count("direct/is_subword")
					if ci && n != "" && strings.TrimSpace(n) == n && res != wordOccurs(n, h) {
						sum.Fail("filter_false_negative", fmt.Sprintf("IsSubWordPresent(%q,%q)=%v", h, nn, res), []string{h, nn})
					}
				}
			}
		}
		sum.WriteCaseFile(dir, "subword", imports, "Definition cases : list (bool * bytes * bytes * bool) := "+vhlib.CoqListNL(it)+".\n", "check_subword cases", len(it))
	}

	// ---- SPLToRegex source and the compiled regexp ----
	{
		var src, wild []string
		pats := append(append([]string{}, textPats...), "a.b*", "a+b", "(x)*", "[q]", "a\\b*", "**", "*a*b*", "$^*", "a|b*", "{1}*?")
		vals := append(append([]string{}, textVals...), "", "a.b", "axb", "a+b", "(x)", "[q]z", "a\\bc", "a\nb", "hello\nworld", "ab", "a|b", "{1}?")
		for _, p := range pats {
			for _, ci := range []bool{true, false} {
				pp := p
				if ci {
					pp = strings.ToLower(p)
				}
				s := dtu.SPLToRegex(pp, ci, false)
				src = append(src, fmt.Sprintf("(%s, %s, %s)", vhlib.CoqBool(ci), vhlib.CoqStr(pp), vhlib.CoqStr(s)))
				sum.Count("direct/regex_source")
				re, err := sregex.New(s) // what DtypeEnclosure.SetRegexp keeps: fast path or Go regexp
				if err != nil {
					sum.HarnessError("generated regex does not compile: " + s)
					continue
				}
				for _, v := range vals {
					wild = append(wild, fmt.Sprintf("(%s, %s, %s, %s)", vhlib.CoqBool(ci), vhlib.CoqStr(pp), vhlib.CoqStr(v), vhlib.CoqBool(re.Match([]byte(v)))))
					sum.Eval("wild/"+p+"/"+v+fmt.Sprint(ci), true)
					sum.Count("direct/regex_match")
				}
			}
		}
		sum.WriteCaseFile(dir, "regex_src", imports, "Definition cases : list (bool * bytes * bytes) := "+vhlib.CoqListNL(src)+".\n", "check_regex_src cases", len(src))
		sum.WriteCaseFile(dir, "wild", imports, "Definition cases : list (bool * bytes * bytes * bool) := "+vhlib.CoqListNL(wild)+".\n", "check_wild cases", len(wild))
	}
}

// ---- SegmentSearchRequest.JoinRequest: the merge of the per-operand block / column plans of an AND / OR condition ----
// Oracle (what the raw search needs from the merged plan, see FilterPlanProofs.plan_select_exact): the blocks are the
// intersection (AND) / union (OR) of the operands' blocks, and the candidate columns of every kept block are the union of
// the candidate columns the operands list for it -- an all-column comparison reads only those columns, so a column that
// is dropped loses the matches of the operand that needs it.
type planMap map[uint16][]string

func coqPlan(p planMap) string {
	var bs []int
	for b := range p {
		bs = append(bs, int(b))
	}
	sort.Ints(bs)
	var items []string
	for _, b := range bs {
		cs := append([]string{}, p[uint16(b)]...)
		sort.Strings(cs)
		var cc []string
		for _, c := range cs {
			cc = append(cc, c[1:]+"%N") // column names are c<number>
		}
		items = append(items, fmt.Sprintf("(%d%%N, %s)", b, vhlib.CoqList(cc)))
	}
	return vhlib.CoqList(items)
}

func mkSSR(p planMap) *structs.SegmentSearchRequest {
	ssr := &structs.SegmentSearchRequest{
		AllBlocksToSearch:  map[uint16]struct{}{},
		CmiPassedCnames:    map[uint16]map[string]bool{},
		AllPossibleColumns: map[string]bool{},
	}
	for b, cs := range p {
		ssr.AllBlocksToSearch[b] = struct{}{}
		ssr.CmiPassedCnames[b] = map[string]bool{}
		for _, c := range cs {
			ssr.CmiPassedCnames[b][c] = true
			ssr.AllPossibleColumns[c] = true
		}
	}
	return ssr
}

func joinDrive(cfg vhlib.Config, sum *vhlib.Summary, r *vhlib.Rng) {
	dir := filepath.Join(cfg.Out, "cases")
	_ = os.MkdirAll(dir, 0o755)
	n := 400
	if cfg.Thorough() {
		n = 4000
	}
	cols := []string{"c1", "c2", "c3", "c4", "c5"}
	gen := func() planMap {
		p := planMap{}
		for b := 0; b < 5; b++ {
			if r.Chance(55) {
				cs := []string{}
				for _, c := range cols {
					if r.Chance(35) {
						cs = append(cs, c)
					}
				}
				p[uint16(b)] = cs
			}
		}
		return p
	}
	var items []string
	shard := 0
	flush := func() {
		if len(items) == 0 {
			return
		}
		sum.WriteCaseFile(dir, fmt.Sprintf("join_%02d", shard), "From SigM Require Import Base Dte Filter FilterPlan FilterCheck.\n",
			"Definition cases : list (bool * plan * plan * plan) := "+vhlib.CoqListNL(items)+".\n", "check_join cases", len(items))
		shard++
		items = nil
	}
	for i := 0; i < n; i++ {
		p, q := gen(), gen()
		isAnd := r.Bool()
		op := sutils.Or
		if isAnd {
			op = sutils.And
		}
		a, b := mkSSR(p), mkSSR(q)
		failed := func() (msg string) {
			defer func() {
				if x := recover(); x != nil {
					msg = fmt.Sprint(x)
				}
			}()
			a.JoinRequest(b, op)
			return ""
		}()
		cs := map[string]interface{}{"op_is_and": isAnd, "receiver": p, "to_join": q}
		if failed != "" {
			sum.Fail("plan_join_panics", failed, cs)
			continue
		}
		obs := planMap{}
		for blk := range a.AllBlocksToSearch {
			obs[blk] = []string{}
			for c := range a.CmiPassedCnames[blk] {
				obs[blk] = append(obs[blk], c)
			}
			sort.Strings(obs[blk])
		}
		cs["result"] = obs
		sum.Eval(fmt.Sprintf("join/%v/%s/%s", isAnd, coqPlan(p), coqPlan(q)), len(p) > 0 && len(q) > 0)
		sum.Count("direct/join_request")
		// oracle
		for blk := 0; blk < 5; blk++ {
			bk := uint16(blk)
			cp, inP := p[bk]
			cq, inQ := q[bk]
			want := inP || inQ
			if isAnd {
				want = inP && inQ
			}
			got, inR := obs[bk]
			if want != inR {
				sum.Fail("plan_join_wrong_blocks", fmt.Sprintf("JoinRequest(and=%v): block %d in receiver=%v in toJoin=%v, in the result=%v", isAnd, blk, inP, inQ, inR), cs)
				continue
			}
			if _, hasNames := a.CmiPassedCnames[bk]; inR && !hasNames {
				sum.Fail("plan_join_wrong_blocks", fmt.Sprintf("JoinRequest(and=%v): block %d kept without a CmiPassedCnames entry", isAnd, blk), cs)
			}
			if !inR {
				continue
			}
			u := map[string]bool{}
			for _, c := range cp {
				u[c] = true
			}
			for _, c := range cq {
				u[c] = true
			}
			g := map[string]bool{}
			for _, c := range got {
				g[c] = true
			}
			for c := range u {
				if !g[c] {
					sum.Fail("plan_join_loses_candidate_column", fmt.Sprintf("JoinRequest(and=%v): block %d: column %s is a candidate of an operand (receiver %v, toJoin %v) but not of the merged plan %v", isAnd, blk, c, cp, cq, got), cs)
					break
				}
			}
			for c := range g {
				if !u[c] {
					sum.Fail("plan_join_invents_candidate_column", fmt.Sprintf("JoinRequest(and=%v): block %d: column %s in the merged plan, in no operand", isAnd, blk, c), cs)
					break
				}
			}
		}
		items = append(items, fmt.Sprintf("(%s, %s, %s, %s)", vhlib.CoqBool(isAnd), coqPlan(p), coqPlan(q), coqPlan(obs)))
		if len(items) >= 1000 {
			flush()
		}
	}
	flush()
}

func ratF(r *big.Rat) float64 { f, _ := r.Float64(); return f }
func kindName(k int) string {
	return []string{"int", "uint", "float", "str", "bool", "absent"}[k]
}
func litKind(l Lit) string {
	if !l.IsNum {
		if strings.Contains(l.Pat, "*") {
			return "wildcard"
		}
		return "text"
	}
	if l.N.IsInt {
		return "intlit"
	}
	return "declit"
}

// =====================================================================================
// (B) end to end
// =====================================================================================

const T0 = uint64(1700000000000)

type QCase struct {
	Stream       string // main or the known class this query is generated for
	E            *Expr  // search clause
	W            *Expr  // optional where stage (a single numeric comparison)
	Start        uint64
	End          uint64
	Model        bool // compared with the model in Coq
	Tag          string
	Text         string
	SearchStream string // where-only queries: the stream of the same comparison as a search clause
	PlanObs      bool   // the worker also reports the block / column plan of the query (numeric leaves only: deterministic)
}

func (q *QCase) render() string {
	s := "*"
	if q.E != nil {
		s = q.E.spl()
	}
	if q.W != nil {
		s += " | where " + q.W.Col + q.W.Op + q.W.L.N.Text
	}
	return s
}

type Dataset struct {
	Events []*Event
	Blocks [][]int // event indices per flushed batch
	Rotate bool
	Sparse bool
	Raw    bool // columns are not dictionary encoded
	Plan   bool // block/column planning dataset: no sentinels, type-pure columns, distinct value ranges per block
	Big    bool // more blocks than every batching constant of the search path (big.go); Shared = blocks with the same newest timestamp
	Shared int
}

func mkDataset(r *vhlib.Rng, sparse bool, twoBlocks bool) *Dataset {
	ds := &Dataset{Sparse: sparse, Rotate: twoBlocks}
	id := 0
	add := func(f map[string]Val) *Event {
		ev := &Event{ID: id, TS: T0 + uint64(id)*1000, F: f}
		id++
		ds.Events = append(ds.Events, ev)
		return ev
	}
	nBlocks := 1
	if twoBlocks {
		nBlocks = 2
	}
	per := 22
	for b := 0; b < nBlocks; b++ {
		start := len(ds.Events)
		// two sentinel events per block: every column present, numeric extremes (the block's
		// range index then never excludes a literal of the right kind)
		add(map[string]Val{"ci": vInt("-9223372036854775808"), "cf": vFloat("-1000000000000000.0"), "cm": vFloat("-1000000.5"),
			"cs": vStr("sentinel low"), "cns": vStr("-3"), "cb": vBool(false), "cx": vStr("zq text")})
		add(map[string]Val{"ci": vInt("9223372036854775807"), "cf": vFloat("1000000000000000.0"), "cm": vFloat("1000000.5"),
			"cs": vStr("sentinel high"), "cns": vStr("12"), "cb": vBool(true), "cx": vInt("7")})
		for i := 0; i < per; i++ {
			f := map[string]Val{}
			put := func(col string, v Val) {
				if sparse && r.Chance(25) {
					return
				}
				f[col] = v
			}
			put("ci", vInt(intColTexts[(i+b*5)%len(intColTexts)]))
			put("cf", vFloat(floatColTexts[(i+b*3)%len(floatColTexts)]))
			mt := mixColTexts[(i+b*2)%len(mixColTexts)]
			if strings.Contains(mt, ".") {
				put("cm", vFloat(mt))
			} else {
				put("cm", vInt(mt))
			}
			put("cs", vStr(textVals[(i+b*4)%len(textVals)]))
			put("cns", vStr(numStrVals[(i+b)%len(numStrVals)]))
			put("cb", vBool((i+b)%2 == 0))
			switch (i + b) % 4 {
			case 0:
				put("cx", vInt(strconv.Itoa(i%9)))
			case 1:
				put("cx", vStr("zq"+strconv.Itoa(i)))
			case 2:
				put("cx", vFloat(strconv.Itoa(i)+".5"))
			case 3:
				put("cx", vStr(strconv.Itoa(i%9)))
			}
			add(f)
		}
		idx := []int{}
		for k := start; k < len(ds.Events); k++ {
			idx = append(idx, k)
		}
		ds.Blocks = append(ds.Blocks, idx)
	}
	// stored representation after consolidateColumnTypes: a column that has text and numbers
	// in one block is turned into numbers when every text value parses, into text otherwise
	for _, blk := range ds.Blocks {
		for col := range colNum {
			hasStr, hasNum, allParse := false, false, true
			for _, k := range blk {
				v, ok := ds.Events[k].F[col]
				if !ok {
					continue
				}
				switch v.K {
				case kStr:
					hasStr = true
					if _, err := strconv.ParseInt(v.S, 10, 64); err != nil {
						if _, err2 := strconv.ParseFloat(v.S, 64); err2 != nil {
							allParse = false
						}
					}
				case kInt, kFloat:
					hasNum = true
				case kBool:
					allParse = false
				}
			}
			for _, k := range blk {
				ev := ds.Events[k]
				if ev.St == nil {
					ev.St = map[string]Val{}
				}
				v, ok := ev.F[col]
				if !ok {
					continue
				}
				if hasStr && hasNum {
					if allParse {
						if v.K == kStr {
							if _, err := strconv.ParseInt(v.S, 10, 64); err == nil {
								v = vInt(v.S)
							} else {
								v = vFloat(v.S)
							}
						}
					} else {
						switch v.K {
						case kInt:
							v = vStr(v.R.Num().String())
						case kFloat:
							v = vStr(strconv.FormatFloat(ratF(v.R), 'f', -1, 64))
						case kBool:
							v = vStr(strconv.FormatBool(v.B))
						}
					}
				}
				ev.St[col] = v
			}
		}
	}
	return ds
}

func (ds *Dataset) coqEvent(ev *Event) string {
	var fs []string
	if ds.Plan { // the id is a numeric field an all-column comparison sees
		fs = append(fs, fmt.Sprintf("(0%%N, SInt %d)", ev.ID))
	}
	for _, col := range allCols {
		if v, ok := ev.St[col]; ok {
			fs = append(fs, fmt.Sprintf("(%d%%N, %s)", colNum[col], v.coq()))
		}
	}
	return fmt.Sprintf("mkEv %d%%N %d %s", ev.ID, ev.TS, vhlib.CoqList(fs))
}

func (ds *Dataset) coqEvents() string {
	var items []string
	for _, ev := range ds.Events {
		items = append(items, ds.coqEvent(ev))
	}
	return vhlib.CoqListNL(items)
}

// the block layout: (block number, records in order)
func (ds *Dataset) coqBlocks() string {
	var blks []string
	for b, idx := range ds.Blocks {
		var items []string
		for _, k := range idx {
			items = append(items, ds.coqEvent(ds.Events[k]))
		}
		blks = append(blks, fmt.Sprintf("(%d%%N, %s)", b, vhlib.CoqListNL(items)))
	}
	return vhlib.CoqListNL(blks)
}

func (ds *Dataset) colVals(col string) []Val {
	var out []Val
	for _, ev := range ds.Events {
		if v, ok := ev.F[col]; ok {
			out = append(out, v)
		} else {
			out = append(out, vAbsent)
		}
	}
	return out
}

var two53 = new(big.Rat).SetInt(new(big.Int).Lsh(big.NewInt(1), 53))
var i64min = ratOfText("-9223372036854775808")
var i64max = ratOfText("9223372036854775807")

func absRat(r *big.Rat) *big.Rat { return new(big.Rat).Abs(r) }

// which stream a single comparison on this dataset belongs to ("main" = the code is claimed to follow the text)
func classify(ds *Dataset, col, op string, l Lit, negated bool) string {
	vals := ds.colVals(col)
	effOp := op
	if negated {
		effOp = map[string]string{"=": "!=", "!=": "=", "<": ">=", ">=": "<", ">": "<=", "<=": ">"}[op]
	}
	hasAbsent, hasInt, hasFloat, hasStr, hasBool := false, false, false, false, false
	for _, v := range vals {
		switch v.K {
		case kAbsent:
			hasAbsent = true
		case kInt:
			hasInt = true
		case kFloat:
			hasFloat = true
		case kStr:
			hasStr = true
		case kBool:
			hasBool = true
		}
	}
	if l.IsNum && l.N.IsInt && (hasFloat || col == "cx") && new(big.Rat).SetFloat64(ratF(l.N.R)).Cmp(l.N.R) != 0 {
		return "skip" // float64 rounding of an integer literal against float values: outside the exact-rational model
	}
	if col == "cx" {
		return "number_in_mixed_type_column"
	}
	if negated || effOp == "!=" {
		mismatch := hasAbsent || hasBool || (l.IsNum && hasStr) || (!l.IsNum && (hasInt || hasFloat))
		if mismatch {
			return "negation_on_absent_or_mismatched_field"
		}
	}
	if l.IsNum && (hasInt || hasFloat) {
		n := l.N
		if hasInt {
			if n.R.Cmp(i64min) < 0 || n.R.Cmp(i64max) > 0 || (!n.IsInt && !n.Dot && n.Text[0] != '+') {
				return "integer_literal_outside_int64"
			}
			if n.Dot {
				return "int_column_vs_decimal_literal"
			}
			if !n.IsInt && !n.R.IsInt() {
				return "int_column_vs_decimal_literal"
			}
		}
		if hasFloat {
			if n.IsInt && new(big.Rat).SetFloat64(ratF(n.R)).Cmp(n.R) != 0 {
				return "skip" // float64 rounding of the literal: outside the exact-rational model
			}
			if effOp == "=" || effOp == "!=" {
				tol := big.NewRat(1, 10000)
				for _, v := range vals {
					if v.K == kFloat {
						d := absRat(new(big.Rat).Sub(v.R, n.R))
						if d.Sign() != 0 && d.Cmp(tol) < 0 {
							return "float_equality_tolerance"
						}
					}
				}
			}
		}
	}
	return "main"
}

// where stage: integers above 2^53 go through float64 (not modelled); `= 0` / `!= 0` against a
// value that is not an int64 compared "0" with "0" before the repair of ConvertToSameType (stream kept: a regression is a violation)
func whereClass(ds *Dataset, col, op string, l Lit) string {
	if absRat(l.N.R).Cmp(two53) > 0 {
		return "where_int_above_2p53"
	}
	nonInt := false
	for _, v := range ds.colVals(col) {
		if v.K == kInt && absRat(v.R).Cmp(two53) > 0 {
			return "where_int_above_2p53"
		}
		if v.K == kFloat && !v.R.IsInt() {
			nonInt = true
		}
	}
	if nonInt && l.N.R.Sign() == 0 && (op == "=" || op == "!=") {
		return "where_noninteger_equals_zero"
	}
	return "main"
}

// free text: the block bloom holds whole values and their space-separated words (both cases);
// a phrase that is only part of a value, and a negated word that no event of a block
// contains, make the block be skipped (known defects, pruning is C03's model)
func termClass(ds *Dataset, w string, neg bool) string {
	lw := lowerASCII(w)
	multi := strings.Contains(lw, " ")
	for _, blk := range ds.Blocks {
		hasTok, matches := false, false
		for _, k := range blk {
			for _, v := range ds.Events[k].F {
				if v.K != kStr {
					continue
				}
				lv := lowerASCII(v.S)
				if lv == lw {
					hasTok = true
				}
				if !multi {
					for _, t := range strings.Split(lv, " ") {
						if t == lw {
							hasTok = true
						}
					}
				}
				if wordOccurs(w, v.S) {
					matches = true
				}
			}
		}
		if !neg && matches && !hasTok {
			return "phrase_inside_value_pruned"
		}
		if neg && !hasTok {
			return "negated_term_not_in_block"
		}
	}
	return "main"
}

// all-column numeric comparison (`N`, `*=N`, `*<N`, ...): which stream.  The engine evaluates it as "some candidate
// column of the record satisfies it"; NOT keeps the operator and negates the record-level result, `*!=N` is the negation
// of `*=N`.  (Before "fix: NOT on an all-column comparison with a number ..." deMorgansLaw flipped the operator, which
// was again "some column ..."; the stream negated_allcolumn_number stays as a regression stream.)  A literal that is not
// a plain int64 does not convert for the integer-typed range entries (every event has the integer id column).
func anyClass(ds *Dataset, op string, l Lit, negated bool) string {
	n := l.N
	hasFloat := false
	for _, ev := range ds.Events {
		for _, v := range ev.F {
			if v.K == kFloat {
				hasFloat = true
			}
		}
	}
	if n.IsInt && hasFloat && new(big.Rat).SetFloat64(ratF(n.R)).Cmp(n.R) != 0 {
		return "skip"
	}
	if n.R.Cmp(i64min) < 0 || n.R.Cmp(i64max) > 0 {
		return "integer_literal_outside_int64"
	}
	if n.Dot || !n.IsInt {
		return "int_column_vs_decimal_literal"
	}
	if op == "=" || op == "!=" {
		tol := big.NewRat(1, 10000)
		for _, ev := range ds.Events {
			for _, v := range ev.F {
				if v.K == kFloat {
					d := absRat(new(big.Rat).Sub(v.R, n.R))
					if d.Sign() != 0 && d.Cmp(tol) < 0 {
						return "float_equality_tolerance"
					}
				}
			}
		}
	}
	if negated || op == "!=" {
		return "negated_allcolumn_number"
	}
	return "main"
}

// repaired classes: their streams stay (a regression is a VIOLATION of the class) but they must not hide a still-known
// class of another operand
func repairedClass(c string) bool {
	return c == "negated_term_not_in_block" || c == "where_noninteger_equals_zero" || c == "negated_allcolumn_number"
}

func modelable(stream, col string) bool {
	switch stream {
	case "integer_literal_outside_int64", "phrase_inside_value_pruned", "negated_term_not_in_block", "where_int_above_2p53", "skip":
		return false
	case "int_column_vs_decimal_literal":
		return col == "cm"
	}
	return true
}

func exprModelable(ds *Dataset, e *Expr, neg bool) bool {
	switch e.Kind {
	case "cmp":
		if e.Col == "ci" && e.L.IsNum {
			// integer-typed range index: a literal that strconv.ParseInt rejects makes the block be skipped (C03's model)
			n := e.L.N
			if n.Dot || (!n.IsInt && n.Text[0] != '+') || n.R.Cmp(i64min) < 0 || n.R.Cmp(i64max) > 0 {
				return false
			}
		}
		return modelable(classify(ds, e.Col, e.Op, e.L, neg), e.Col)
	case "term":
		return modelable(termClass(ds, e.Word, neg), "")
	case "any":
		c := anyClass(ds, e.Op, e.L, neg)
		return c == "main" || c == "negated_allcolumn_number"
	case "not":
		return exprModelable(ds, e.A, !neg)
	default:
		return exprModelable(ds, e.A, neg) && exprModelable(ds, e.B, neg)
	}
}

func exprClass(ds *Dataset, e *Expr, neg bool) string {
	switch e.Kind {
	case "cmp":
		return classify(ds, e.Col, e.Op, e.L, neg)
	case "term":
		return termClass(ds, e.Word, neg)
	case "any":
		return anyClass(ds, e.Op, e.L, neg)
	case "not":
		return exprClass(ds, e.A, !neg)
	default:
		a, b := exprClass(ds, e.A, neg), exprClass(ds, e.B, neg)
		// a repaired class (kept as a regression stream) must not hide a still-known class of the other operand
		if a == "main" || (repairedClass(a) && b != "main" && !repairedClass(b)) {
			return b
		}
		return a
	}
}

func genQueries(r *vhlib.Rng, ds *Dataset, thorough bool) []*QCase {
	var qs []*QCase
	lo, hi := T0-1000, T0+1000000
	add := func(q *QCase) {
		if q.Stream == "skip" {
			return
		}
		if q.Start == 0 {
			q.Start, q.End = lo, hi
		}
		if q.E != nil && !exprModelable(ds, q.E, false) {
			q.Model = false
		}
		q.Text = q.render()
		qs = append(qs, q)
	}
	// 1. the numeric matrix: column x literal x operator, search clause and where stage
	for _, col := range []string{"ci", "cf", "cm"} {
		for _, t := range numLitTexts {
			l := numL(t)
			for _, op := range ops {
				cl := classify(ds, col, op, l, false)
				add(&QCase{Stream: cl, E: cmpE(col, op, l), Model: true, Tag: "num/" + col})
				// `| where`: the parser has no leading '+' / no "-0"
				if t[0] == '+' || t == "-0" || cl == "skip" {
					continue
				}
				wc := whereClass(ds, col, op, l)
				// the where stage itself is expected to compare by value also where the search clause does not
				add(&QCase{Stream: wc, W: cmpE(col, op, l), Model: wc != "where_int_above_2p53", Tag: "where/" + col, SearchStream: cl})
			}
		}
	}
	// 2. number literal against text columns, text literal against number columns
	for _, col := range []string{"cs", "cns", "cx"} {
		for _, t := range []string{"7", "007", "2.5", "-3", "12", "0"} {
			for _, op := range ops {
				l := numL(t)
				add(&QCase{Stream: classify(ds, col, op, l, false), E: cmpE(col, op, l), Model: true, Tag: "num_vs_text/" + col})
			}
		}
	}
	for _, col := range []string{"ci", "cf"} {
		for _, p := range []string{"abc", "five"} {
			for _, op := range []string{"=", "!="} {
				l := strL(p)
				add(&QCase{Stream: classify(ds, col, op, l, false), E: cmpE(col, op, l), Model: true, Tag: "text_vs_num/" + col})
			}
		}
	}
	// 3. text equality / wildcards
	for _, col := range []string{"cs", "cns", "cx"} {
		pats := textPats
		if col != "cs" {
			pats = []string{"007", "7", "7.0", "7*", "*", "zq*", "abc7", "zq text", "12"}
		}
		for _, p := range pats {
			for _, op := range []string{"=", "!="} {
				l := strL(p)
				add(&QCase{Stream: classify(ds, col, op, l, false), E: cmpE(col, op, l), Model: true, Tag: "text/" + col})
			}
		}
	}
	// 4. free-text words and phrases
	for _, w := range termWords {
		e := &Expr{Kind: "term", Word: w}
		add(&QCase{Stream: termClass(ds, w, false), E: e, Model: true, Tag: "term"})
		add(&QCase{Stream: termClass(ds, w, true), E: &Expr{Kind: "not", A: e}, Model: true, Tag: "term_not"})
	}
	// 5. bool literals (not part of the property's literal list; own stream)
	for _, b := range []string{"true", "false"} {
		for _, op := range []string{"=", "!="} {
			qs = append(qs, &QCase{Stream: "bool_literal_comparison", Start: lo, End: hi, Tag: "bool", Text: "cb" + op + b,
				E: &Expr{Kind: "boollit", Col: "cb", Op: op, Word: b}})
		}
	}
	// 6. compound expressions over atoms; A, B, A AND B, A OR B, NOT A are all run so that the
	//    set identities can be checked on the observed results themselves
	atoms := func() *Expr {
		switch r.Intn(5) {
		case 0:
			return cmpE("ci", vhlib.Pick(r, ops), numL(vhlib.Pick(r, []string{"0", "1", "-1", "2", "3", "7", "100", "-2", "9007199254740992", "007"})))
		case 1:
			return cmpE("cf", vhlib.Pick(r, []string{"<", "<=", ">", ">="}), numL(vhlib.Pick(r, []string{"0", "1", "2.5", "-2.5", "0.5", "7.5", "3", "1.00001", "0.00001"})))
		case 2:
			return cmpE("cs", vhlib.Pick(r, []string{"=", "!="}), strL(vhlib.Pick(r, textPats)))
		case 3:
			return &Expr{Kind: "term", Word: vhlib.Pick(r, termWords)}
		default:
			return cmpE("cm", vhlib.Pick(r, ops), numL(vhlib.Pick(r, []string{"0", "2", "3", "-2", "7", "5", "100"})))
		}
	}
	var genE func(d int) *Expr
	genE = func(d int) *Expr {
		if d == 0 || r.Chance(35) {
			return atoms()
		}
		switch r.Intn(3) {
		case 0:
			return &Expr{Kind: "and", A: genE(d - 1), B: genE(d - 1)}
		case 1:
			return &Expr{Kind: "or", A: genE(d - 1), B: genE(d - 1)}
		default:
			return &Expr{Kind: "not", A: genE(d - 1)}
		}
	}
	nComp := 40
	if thorough {
		nComp = 400
	}
	for i := 0; i < nComp; i++ {
		a, b := genE(2), genE(2)
		for k, e := range []*Expr{a, b, {Kind: "and", A: a, B: b}, {Kind: "or", A: a, B: b}, {Kind: "not", A: a}} {
			add(&QCase{Stream: exprClass(ds, e, false), E: e, Model: true, Tag: fmt.Sprintf("compound/%d/%d", i, k)})
		}
		// search clause followed by a where stage = conjunction
		w := cmpE(vhlib.Pick(r, []string{"cf", "cm"}), vhlib.Pick(r, ops), numL(vhlib.Pick(r, []string{"0", "2", "3", "-2", "7", "2.5", "0.5"})))
		cl := exprClass(ds, a, false)
		if cl == "main" {
			add(&QCase{Stream: whereClass(ds, w.Col, w.Op, w.L), E: a, W: w, Model: true, Tag: "search_then_where"})
		}
	}
	// 7. time range boundaries: every event time and its neighbours as start / end
	tsPool := []uint64{}
	for _, k := range []int{0, 1, 2, len(ds.Events)/2 - 1, len(ds.Events) / 2, len(ds.Events) - 2, len(ds.Events) - 1} {
		t := ds.Events[k].TS
		tsPool = append(tsPool, t-1, t, t+1)
	}
	for _, s := range tsPool {
		for _, e := range tsPool {
			if s > e || s == 0 {
				continue
			}
			if !thorough && r.Chance(55) {
				continue
			}
			add(&QCase{Stream: "main", Start: s, End: e, Model: true, Tag: "time/all"})
			add(&QCase{Stream: "main", E: cmpE("ci", ">=", numL("0")), Start: s, End: e, Model: true, Tag: "time/cmp"})
		}
	}
	return qs
}

// ---------- block / column planning datasets ----------
// No sentinel events: the numeric columns have different value ranges in different blocks and different columns of
// one block cover different ranges, so the micro-index check of one leaf keeps some blocks and, for an all-column
// comparison, some columns only; AND / OR then have to merge those per-leaf plans (JoinRequest).
var planWords = []string{"alpha", "beta", "gamma", "delta", "omega", "kappa beta", "Alpha two", "zeta"}

func mkPlanDataset(r *vhlib.Rng, rotate bool, nBlocks int) *Dataset {
	ds := &Dataset{Rotate: rotate, Plan: true}
	id := 0
	per := 8
	pcPool := []int{404, 500, 7, 100, 207, 300, 1000, -3, 404, 212}
	for b := 0; b < nBlocks; b++ {
		var idx []int
		for i := 0; i < per; i++ {
			f := map[string]Val{}
			put := func(col string, v Val) {
				// pa and pt are never absent (NOT / != on them stay in the main stream); the first two records of a
				// block have every column
				if i > 1 && col != "pa" && col != "pt" && r.Chance(15) {
					return
				}
				f[col] = v
			}
			put("pa", vInt(strconv.Itoa(100*(b+1)+i)))               // block b: 100(b+1) .. 100(b+1)+7
			put("pb", vInt(strconv.Itoa(100*((b+1)%nBlocks+1)+2*i))) // the range pa has in the NEXT block
			put("pc", vInt(strconv.Itoa(pcPool[(i+3*b+r.Intn(2))%len(pcPool)])))
			if (i+b)%3 == 0 {
				put("pf", vFloat(strconv.Itoa(400+100*b+i)+".0")) // an integral float
			} else {
				put("pf", vFloat(strconv.Itoa(50*(b+1)+i)+".5"))
			}
			put("pt", vStr(planWords[(i+b)%len(planWords)]))
			put("pu", vStr(planWords[(2*i+b+3)%len(planWords)]))
			ev := &Event{ID: id, TS: T0 + uint64(id)*1000, F: f, St: f}
			id++
			idx = append(idx, len(ds.Events))
			ds.Events = append(ds.Events, ev)
		}
		ds.Blocks = append(ds.Blocks, idx)
	}
	return ds
}

func genPlanQueries(r *vhlib.Rng, ds *Dataset, thorough bool) []*QCase {
	var qs []*QCase
	lo, hi := T0-1000, T0+10000000
	add := func(q *QCase) {
		if q.Stream == "skip" {
			return
		}
		if q.Start == 0 {
			q.Start, q.End = lo, hi
		}
		if q.E != nil && !exprModelable(ds, q.E, false) {
			q.Model = false
		}
		q.PlanObs = q.Model && q.E != nil && q.W == nil && onlyNumericLeaves(q.E)
		q.Text = q.render()
		qs = append(qs, q)
	}
	// literal pool: every integer value of the dataset (also the integral floats), their neighbours, values outside
	seen := map[string]bool{}
	var lits []string
	addLit := func(z int64) {
		t := strconv.FormatInt(z, 10)
		if !seen[t] {
			seen[t] = true
			lits = append(lits, t)
		}
	}
	var present []string
	for _, ev := range ds.Events {
		for _, c := range planCols {
			if v, ok := ev.F[c]; ok && v.isNum() && v.R.IsInt() {
				z := v.R.Num().Int64()
				if !seen[strconv.FormatInt(z, 10)] {
					present = append(present, strconv.FormatInt(z, 10))
				}
				addLit(z)
			}
		}
	}
	for _, t := range append([]string{}, lits...) {
		z, _ := strconv.ParseInt(t, 10, 64)
		if r.Chance(30) {
			addLit(z + 1)
		}
		if r.Chance(20) {
			addLit(z - 1)
		}
	}
	for _, z := range []int64{0, 1, 5, -5, 150, 250, 350, 999, 5000, int64(len(ds.Events)) - 1} {
		addLit(z)
	}
	ineq := []string{"<", "<=", ">", ">="}
	// 1. single all-column comparisons: the free-text number, `*=N`, and the inequalities
	for _, t := range lits {
		l := numL(t)
		add(&QCase{Stream: anyClass(ds, "=", l, false), E: anyE("=", l, true), Model: true, Tag: "any/bare"})
		if thorough || r.Chance(40) {
			add(&QCase{Stream: anyClass(ds, "=", l, false), E: anyE("=", l, false), Model: true, Tag: "any/eq"})
		}
		if thorough || r.Chance(50) {
			op := vhlib.Pick(r, ineq)
			add(&QCase{Stream: anyClass(ds, op, l, false), E: anyE(op, l, false), Model: true, Tag: "any/ineq"})
		}
	}
	// 2./3. compound groups; A, B, A AND B, A OR B, NOT A, B OR A are all run (set identities on the observed results)
	anyEq := func() *Expr { return anyE("=", numL(vhlib.Pick(r, present)), r.Chance(70)) }
	anyAtom := func() *Expr {
		if r.Chance(70) {
			if r.Chance(25) {
				return anyE("=", numL(vhlib.Pick(r, lits)), r.Chance(70))
			}
			return anyEq()
		}
		return anyE(vhlib.Pick(r, ineq), numL(vhlib.Pick(r, lits)), false)
	}
	atom := func() *Expr {
		switch r.Intn(8) {
		case 0, 1, 2:
			return anyAtom()
		case 3:
			return cmpE(vhlib.Pick(r, []string{"pa", "pb", "pc"}), vhlib.Pick(r, []string{"=", "<", "<=", ">", ">="}), numL(vhlib.Pick(r, lits)))
		case 4:
			return cmpE("pf", vhlib.Pick(r, ineq), numL(vhlib.Pick(r, lits)))
		case 5: // never absent: NOT of it is the complement
			return cmpE("pa", vhlib.Pick(r, ops), numL(vhlib.Pick(r, lits)))
		case 6: // named text comparison: bloom of one column
			return cmpE(vhlib.Pick(r, []string{"pt", "pt", "pu"}), vhlib.Pick(r, []string{"=", "=", "!="}), strL(vhlib.Pick(r, []string{"alpha", "beta", "gamma", "omega", "kappa beta", "Alpha two", "al*", "*ta", "zeta", "nomatch"})))
		default:
			return &Expr{Kind: "term", Word: vhlib.Pick(r, []string{"alpha", "beta", "gamma", "delta", "omega", "two", "kappa", "zeta", "nomatch"})}
		}
	}
	var genE func(d int, leaf func() *Expr) *Expr
	genE = func(d int, leaf func() *Expr) *Expr {
		if d == 0 || r.Chance(40) {
			return leaf()
		}
		switch r.Intn(5) {
		case 0, 1:
			return &Expr{Kind: "and", A: genE(d-1, leaf), B: genE(d-1, leaf)}
		case 2, 3:
			return &Expr{Kind: "or", A: genE(d-1, leaf), B: genE(d-1, leaf)}
		default:
			return &Expr{Kind: "not", A: genE(d-1, leaf)}
		}
	}
	gi := 0
	group := func(a, b *Expr) {
		for k, e := range []*Expr{a, b, {Kind: "and", A: a, B: b}, {Kind: "or", A: a, B: b}, {Kind: "not", A: a}, {Kind: "or", A: b, B: a}} {
			add(&QCase{Stream: exprClass(ds, e, false), E: e, Model: true, Tag: fmt.Sprintf("compound/%d/%d", gi, k)})
		}
		gi++
	}
	nPairs, nTrees := 36, 36
	if thorough {
		nPairs, nTrees = 150, 150
	}
	for i := 0; i < nPairs; i++ { // two all-column equalities: same block / other block, same column / other column
		group(anyEq(), anyEq())
	}
	for i := 0; i < nPairs/3; i++ {
		group(anyAtom(), anyAtom())
	}
	for i := 0; i < nTrees; i++ { // trees over all-column comparisons, named comparisons and words
		group(genE(2, atom), genE(2, atom))
	}
	// 4. all-column comparisons under a time range that covers one block, or cuts through blocks
	nb := len(ds.Blocks)
	for i := 0; i < 12 && nb > 1; i++ {
		b := r.Intn(nb)
		first, last := ds.Events[ds.Blocks[b][0]].TS, ds.Events[ds.Blocks[b][len(ds.Blocks[b])-1]].TS
		e := &Expr{Kind: "or", A: anyEq(), B: anyEq()}
		add(&QCase{Stream: exprClass(ds, e, false), E: e, Start: first, End: last, Model: true, Tag: "any/time_block"})
		add(&QCase{Stream: exprClass(ds, e, false), E: e, Start: first + 2000, End: last + 3000, Model: true, Tag: "any/time_cut"})
	}
	// 5. decimal literals (known stream); != and NOT on an all-column comparison (repaired: regression stream, modelled)
	for _, t := range []string{"404.0", "100.5", "2.5", "207.0"} {
		l := numL(t)
		add(&QCase{Stream: anyClass(ds, "=", l, false), E: anyE("=", l, true), Tag: "any/decimal"})
		add(&QCase{Stream: anyClass(ds, "<", l, false), E: anyE("<", l, false), Tag: "any/decimal"})
	}
	for i := 0; i < 10; i++ {
		a := anyEq()
		na := &Expr{Kind: "not", A: a}
		add(&QCase{Stream: exprClass(ds, na, false), E: na, Model: true, Tag: "any/not"})
		add(&QCase{Stream: anyClass(ds, "!=", a.L, false), E: anyE("!=", a.L, false), Model: true, Tag: "any/ne"})
		ni := &Expr{Kind: "not", A: anyE(vhlib.Pick(r, ineq), numL(vhlib.Pick(r, lits)), false)}
		add(&QCase{Stream: exprClass(ds, ni, false), E: ni, Model: true, Tag: "any/not_ineq"})
	}
	return qs
}

var allFails []string

type scenario struct {
	name string
	ds   *Dataset
	qs   []*QCase
	obs  []QObs
	err  error
}

func idsOf(ds *Dataset, pred func(ev *Event) bool, s, e uint64) []int {
	out := []int{}
	for _, ev := range ds.Events {
		if ev.TS >= s && ev.TS <= e && pred(ev) {
			out = append(out, ev.ID)
		}
	}
	return out
}

func eqInts(a, b []int) bool {
	if len(a) != len(b) {
		return false
	}
	for i := range a {
		if a[i] != b[i] {
			return false
		}
	}
	return true
}
func diffInts(a, b []int) (onlyA, onlyB []int) {
	m := map[int]bool{}
	for _, x := range b {
		m[x] = true
	}
	n := map[int]bool{}
	for _, x := range a {
		n[x] = true
		if !m[x] {
			onlyA = append(onlyA, x)
		}
	}
	for _, x := range b {
		if !n[x] {
			onlyB = append(onlyB, x)
		}
	}
	return
}

func coqIds(ids []int) string {
	var s []string
	for _, i := range ids {
		s = append(s, strconv.Itoa(i)+"%N")
	}
	return vhlib.CoqList(s)
}

func evalScenario(sc *scenario, sum *vhlib.Summary, dir string, imports string) {
	ds := sc.ds
	describe := func(q *QCase, want, got []int) map[string]interface{} {
		miss, extra := diffInts(want, got)
		evs := []string{}
		show := append(append([]int{}, miss...), extra...)
		for i, id := range show {
			if i >= 4 {
				break
			}
			b, _ := json.Marshal(docOf(ds.Events[id]))
			evs = append(evs, string(b))
		}
		return map[string]interface{}{"scenario": sc.name, "query": q.Text, "start": q.Start, "end": q.End,
			"expected_ids": want, "returned_ids": got, "missing": miss, "unexpected": extra, "events": evs}
	}
	{ // debugging aid: every query with its stream and the observed ids
		type row struct {
			Q, Stream, Tag string
			S, E           uint64
			Ids            []int
			Err            string
		}
		var rows []row
		for i, q := range sc.qs {
			rows = append(rows, row{q.Text, q.Stream, q.Tag, q.Start, q.End, sc.obs[i].Ids, sc.obs[i].Err})
		}
		b, _ := json.Marshal(rows)
		_ = os.WriteFile(filepath.Join(filepath.Dir(dir), "queries_"+sc.name+".json"), b, 0o644)
	}
	results := map[string][]int{} // tag -> ids (for the set identities)
	streams := map[string]string{}
	texts := map[string]string{}
	var selItems, whereItems, planItems []string
	for i, q := range sc.qs {
		o := sc.obs[i]
		sum.Count("stream/" + q.Stream)
		sum.Count("kind/" + strings.SplitN(q.Tag, "/", 2)[0])
		if o.Err != "" {
			if strings.Contains(o.Err, "Error parsing query") || strings.Contains(o.Err, "no match found") {
				sum.HarnessError(fmt.Sprintf("generated filter does not parse: %q: %s", q.Text, o.Err))
			} else if q.Stream == "main" {
				sum.Fail("query_error", q.Text+": "+o.Err, describe(q, nil, nil))
			} else {
				sum.Fail(q.Stream, q.Text+": "+o.Err, describe(q, nil, nil))
			}
			continue
		}
		if q.E != nil && q.E.Kind == "boollit" {
			want := idsOf(ds, func(ev *Event) bool {
				v, ok := ev.F["cb"]
				return ok && v.K == kBool && ((q.E.Op == "=") == (v.B == (q.E.Word == "true")))
			}, q.Start, q.End)
			sum.Eval("q/"+sc.name+"/"+q.Text, true)
			if !eqInts(want, o.Ids) {
				sum.Fail("bool_literal_comparison", fmt.Sprintf("%s returned %v, expected %v", q.Text, o.Ids, want), describe(q, want, o.Ids))
			}
			continue
		}
		want := idsOf(ds, func(ev *Event) bool {
			ok := true
			if q.E != nil {
				ok = specEval(q.E, ev)
			}
			if ok && q.W != nil {
				ok = specEval(q.W, ev)
			}
			return ok
		}, q.Start, q.End)
		sum.Eval("q/"+sc.name+"/"+q.Text+fmt.Sprint(q.Start, q.End), len(want) > 0 && len(want) < len(ds.Events))
		results[q.Tag] = o.Ids
		streams[q.Tag] = q.Stream
		texts[q.Tag] = q.Text
		if o.Dup {
			sum.Fail("filter_false_positive", q.Text+": an event was returned twice", describe(q, want, o.Ids))
		}
		if !eqInts(want, o.Ids) {
			miss, extra := diffInts(want, o.Ids)
			class := q.Stream
			if class == "main" {
				switch {
				case strings.HasPrefix(q.Tag, "time/"):
					class = "time_range_boundary"
				case len(extra) > 0:
					class = "filter_false_positive"
				default:
					class = "filter_false_negative"
				}
				if q.W != nil && q.E == nil {
					class = "where_stage_not_by_value"
				}
				if hasAny(q.E) { // an all-column numeric comparison is involved (candidate columns of the block plan)
					if len(extra) > 0 {
						class = "allcolumn_number_false_positive"
					} else {
						class = "allcolumn_number_false_negative"
					}
				}
			}
			detail := fmt.Sprintf("[%s] %s  range [%d,%d]: missing %v unexpected %v", sc.name, q.Text, q.Start, q.End, miss, extra)
			if ds.Big && (q.Stream == "main" || repairedClass(q.Stream)) && !strings.HasPrefix(q.Tag, "time/") {
				// every expected event of some blocks is missing and nothing else is wrong: those candidate blocks were never
				// searched (a walk over the block list in groups / chunks lost them)
				if lost := wholeBlocksMissing(ds, want, o.Ids); lost != nil {
					class = "whole_block_missing_in_many_block_segment"
					detail += fmt.Sprintf(" = every matching event of block(s) %v of the %d-block segment (block not searched, or all its matching records rejected)", lost, len(ds.Blocks))
				}
			}
			sum.Fail(class, detail, describe(q, want, o.Ids))
			allFails = append(allFails, fmt.Sprintf("%s\t%s\t%s\tmissing %v unexpected %v", class, sc.name, q.Text, miss, extra))
		}
		// the observed block / column plan against plan_of of the model
		if q.PlanObs && q.Model {
			if o.PlanErr != "" {
				sum.HarnessError(fmt.Sprintf("plan observation failed for %q: %s", q.Text, o.PlanErr))
			} else {
				sum.Count("plan/observed")
				pl := "None"
				if o.HasPlan {
					pm := planMap{}
					for bs, cs := range o.Plan {
						b, _ := strconv.Atoi(bs)
						var cc []string
						for _, c := range cs {
							if c == "id" {
								cc = append(cc, "c0")
							} else if n, ok := colNum[c]; ok {
								cc = append(cc, "c"+strconv.Itoa(n))
							} else {
								sum.HarnessError("plan observation: unknown column " + c)
							}
						}
						pm[uint16(b)] = cc
					}
					pl = "Some " + coqPlan(pm)
				}
				planItems = append(planItems, fmt.Sprintf("(%s, mkTr %d %d, %s)", q.E.coq(), q.Start, q.End, pl))
			}
		}
		// model comparison
		if q.Model {
			tr := fmt.Sprintf("mkTr %d %d", q.Start, q.End)
			switch {
			case q.W == nil:
				e := "all_e" // `*`
				if q.E != nil {
					e = q.E.coq()
				}
				selItems = append(selItems, fmt.Sprintf("(%s, %s, %s)", e, tr, coqIds(o.Ids)))
			case !q.W.L.N.Inexact:
				e := "all_e"
				if q.E != nil {
					e = q.E.coq()
				}
				whereItems = append(whereItems, fmt.Sprintf("(%s, (%d%%N, %s, %s), %s, %s)", e, colNum[q.W.Col], opCoq[q.W.Op], q.W.L.N.coq(), tr, coqIds(o.Ids)))
			}
		}
	}
	// search clause vs where stage on the same comparison (main cells only)
	for i := 0; i+1 < len(sc.qs); i++ {
		a, b := sc.qs[i], sc.qs[i+1]
		if a.E != nil && a.W == nil && b.E == nil && b.W != nil && a.E.Kind == "cmp" && a.E.Col == b.W.Col && a.E.Op == b.W.Op && a.E.L.N.Text == b.W.L.N.Text &&
			sc.obs[i].Err == "" && sc.obs[i+1].Err == "" {
			sum.Count("pairs/search_vs_where")
			if !eqInts(sc.obs[i].Ids, sc.obs[i+1].Ids) {
				class := "search_where_disagree"
				if a.Stream != "main" {
					class = a.Stream
				} else if b.Stream != "main" {
					class = b.Stream
				}
				sum.Count("pairs/search_vs_where_disagree/" + class)
				miss, extra := diffInts(sc.obs[i+1].Ids, sc.obs[i].Ids)
				sum.Fail(class, fmt.Sprintf("[%s] search `%s` and `%s` disagree: search lacks %v, has extra %v", sc.name, a.Text, b.Text, miss, extra),
					map[string]interface{}{"scenario": sc.name, "search": a.Text, "where": b.Text, "search_ids": sc.obs[i].Ids, "where_ids": sc.obs[i+1].Ids})
			}
		}
	}
	// set identities on the observed results of the compound group
	for i := 0; ; i++ {
		a, ok := results[fmt.Sprintf("compound/%d/0", i)]
		if !ok {
			if i > 1000 {
				break
			}
			if _, any := results[fmt.Sprintf("compound/%d/2", i)]; !any && i > 0 {
				break
			}
			continue
		}
		b, okb := results[fmt.Sprintf("compound/%d/1", i)]
		and, ok2 := results[fmt.Sprintf("compound/%d/2", i)]
		or, ok3 := results[fmt.Sprintf("compound/%d/3", i)]
		ro, ok5 := results[fmt.Sprintf("compound/%d/5", i)] // B OR A
		if !okb {
			continue
		}
		idClass := func(def string) string { // a known-class operand: the identity is reported under that class
			repaired := ""
			for k := 0; k < 4; k++ {
				if st := streams[fmt.Sprintf("compound/%d/%d", i, k)]; st != "" && st != "main" {
					if repairedClass(st) {
						// a repaired class (regression stream) does not hide a still-known class of another member
						repaired = st
						continue
					}
					return st
				}
			}
			if repaired != "" {
				return repaired
			}
			return def
		}
		inA := map[int]bool{}
		for _, x := range a {
			inA[x] = true
		}
		inter, union := []int{}, append([]int{}, a...)
		for _, x := range b {
			if inA[x] {
				inter = append(inter, x)
			} else {
				union = append(union, x)
			}
		}
		sort.Ints(union)
		sum.Count("pairs/and_or_identities")
		if ok2 && !eqInts(and, inter) {
			sum.Fail(idClass("and_not_intersection"), fmt.Sprintf("[%s] compound %d: A AND B returned %v, A∩B = %v", sc.name, i, and, inter), map[string]interface{}{"scenario": sc.name, "A": a, "B": b, "and": and})
		}
		if ok3 && !eqInts(or, union) {
			sum.Fail(idClass("or_not_union"), fmt.Sprintf("[%s] compound %d: A OR B returned %v, A∪B = %v", sc.name, i, or, union), map[string]interface{}{"scenario": sc.name, "A": a, "B": b, "or": or,
				"queries": []string{texts[fmt.Sprintf("compound/%d/0", i)], texts[fmt.Sprintf("compound/%d/1", i)], texts[fmt.Sprintf("compound/%d/3", i)]}})
		}
		if ok5 && !eqInts(ro, union) {
			sum.Fail(idClass("or_not_union"), fmt.Sprintf("[%s] compound %d: B OR A returned %v, A∪B = %v", sc.name, i, ro, union), map[string]interface{}{"scenario": sc.name, "A": a, "B": b, "or": ro,
				"queries": []string{texts[fmt.Sprintf("compound/%d/0", i)], texts[fmt.Sprintf("compound/%d/1", i)], texts[fmt.Sprintf("compound/%d/5", i)]}})
		}
	}
	// Coq case files
	defs := "Definition all_e : expr := EOr (EAtom (ATerm [] false)) (EAtom (ATerm [] true)).\nDefinition evs : list event := " + ds.coqEvents() + ".\n"
	if ds.Plan {
		// the block layout goes to Coq: the search is executed under the merged block / column plan (FilterPlan.v)
		pdefs := "Definition all_e : expr := EOr (EAtom (ATerm [] false)) (EAtom (ATerm [] true)).\nDefinition blks : list blockrec := " + ds.coqBlocks() + ".\n"
		if ds.Big {
			// the search as the code runs it on a segment with many blocks: the blocks of the merged plan sorted by
			// descending block number and searched chunk by chunk (FilterChunk.v); index i = returned ids differ,
			// 1000+i = the chunked search differs from the record-level search of all events
			imp := strings.Replace(imports, "FilterCheck.", "FilterPlan FilterCheck FilterChunk.", 1)
			for k := 0; k*90 < len(selItems); k++ {
				hi := (k + 1) * 90
				if hi > len(selItems) {
					hi = len(selItems)
				}
				part := selItems[k*90 : hi]
				sum.WriteCaseFile(dir, fmt.Sprintf("chunksel_%s_%02d", sc.name, k), imp,
					pdefs+"Definition qs : list (expr * trange * list N) := "+vhlib.CoqListNL(part)+".\n",
					fmt.Sprintf("check_chunk_select2 %d blks qs 0", bigChunk), len(part))
			}
			for k := 0; k*100 < len(planItems); k++ {
				hi := (k + 1) * 100
				if hi > len(planItems) {
					hi = len(planItems)
				}
				part := planItems[k*100 : hi]
				sum.WriteCaseFile(dir, fmt.Sprintf("planof_%s_%02d", sc.name, k), imp,
					pdefs+"Definition qs : list (expr * trange * option plan) := "+vhlib.CoqListNL(part)+".\n",
					"check_plan_of blks qs", len(part))
			}
			return
		}
		for k := 0; k*160 < len(selItems); k++ {
			hi := (k + 1) * 160
			if hi > len(selItems) {
				hi = len(selItems)
			}
			part := selItems[k*160 : hi]
			sum.WriteCaseFile(dir, fmt.Sprintf("plansel_%s_%02d", sc.name, k), strings.Replace(imports, "FilterCheck.", "FilterPlan FilterCheck.", 1),
				pdefs+"Definition qs : list (expr * trange * list N) := "+vhlib.CoqListNL(part)+".\n",
				"check_plan_select2 blks qs 0 ++ map (fun i => (2000 + i)%nat) (check_guarded (all_events blks) qs)", len(part))
		}
		for k := 0; k*300 < len(planItems); k++ {
			hi := (k + 1) * 300
			if hi > len(planItems) {
				hi = len(planItems)
			}
			part := planItems[k*300 : hi]
			sum.WriteCaseFile(dir, fmt.Sprintf("planof_%s_%02d", sc.name, k), strings.Replace(imports, "FilterCheck.", "FilterPlan FilterCheck.", 1),
				pdefs+"Definition qs : list (expr * trange * option plan) := "+vhlib.CoqListNL(part)+".\n",
				"check_plan_of blks qs", len(part))
		}
		return
	}
	for k := 0; k*400 < len(selItems); k++ {
		hi := (k + 1) * 400
		if hi > len(selItems) {
			hi = len(selItems)
		}
		part := selItems[k*400 : hi]
		sum.WriteCaseFile(dir, fmt.Sprintf("sel_%s_%02d", sc.name, k), imports,
			defs+"Definition qs : list (expr * trange * list N) := "+vhlib.CoqListNL(part)+".\n",
			"check_select evs qs ++ map (fun i => (1000 + i)%nat) (check_guarded evs qs)", len(part))
	}
	for k := 0; k*400 < len(whereItems); k++ {
		hi := (k + 1) * 400
		if hi > len(whereItems) {
			hi = len(whereItems)
		}
		part := whereItems[k*400 : hi]
		sum.WriteCaseFile(dir, fmt.Sprintf("where_%s_%02d", sc.name, k), imports,
			defs+"Definition qs : list (expr * (N * cop * numlit) * trange * list N) := "+vhlib.CoqListNL(part)+".\n",
			"check_where evs qs", len(part))
	}
}

func docOf(ev *Event) map[string]interface{} {
	m := map[string]interface{}{"id": ev.ID, "timestamp": ev.TS}
	for c, v := range ev.F {
		m[c] = json.RawMessage(v.JSON)
	}
	return m
}

func docText(ev *Event) string {
	var sb strings.Builder
	fmt.Fprintf(&sb, "{\"id\":%d,\"timestamp\":%d", ev.ID, ev.TS)
	for _, c := range allCols {
		if v, ok := ev.F[c]; ok {
			fmt.Fprintf(&sb, ",%q:%s", c, v.JSON)
		}
	}
	sb.WriteString("}")
	return sb.String()
}

func main() {
	if len(os.Args) >= 5 && os.Args[1] == "worker" {
		workerMain(os.Args[2], os.Args[3], os.Args[4])
		return
	}
	cfg := vhlib.ParseFlags()
	log.SetLevel(log.PanicLevel)
	sum := vhlib.NewSummary("distinct (stored value, literal, operator, case flag) tuples driven directly through the comparison code + distinct (dataset, query text, time range) end-to-end queries whose expected result is neither empty nor everything")
	directDrive(cfg, sum)

	rng := vhlib.NewRng(cfg.Seed)
	var scs []*scenario
	layouts := []struct {
		name          string
		sparse, twoBl bool
	}{{"full1", false, false}, {"sparse2", true, true}}
	if cfg.Thorough() {
		layouts = append(layouts, struct {
			name          string
			sparse, twoBl bool
		}{"full2", false, true}, struct {
			name          string
			sparse, twoBl bool
		}{"sparse1", true, false})
		for k := 0; k < 6; k++ {
			layouts = append(layouts, struct {
				name          string
				sparse, twoBl bool
			}{fmt.Sprintf("rnd%d", k), k%2 == 0, k%3 != 0})
		}
	}
	for _, l := range layouts {
		r := rng.Fork()
		ds := mkDataset(r, l.sparse, l.twoBl)
		// small blocks would be dictionary encoded throughout; the two-block sparse layout and every second random layout
		// are written without dictionaries, so that the record-by-record column search is exercised end to end as well
		ds.Raw = l.name == "sparse2" || l.name == "rnd1" || l.name == "rnd3" || l.name == "rnd5"
		scs = append(scs, &scenario{name: l.name, ds: ds, qs: genQueries(r, ds, cfg.Thorough())})
	}
	// block / column planning layouts: 3 blocks in an open segment, 3 blocks rotated (the two micro-index code paths)
	// planU: raw columns (record-by-record search of the candidate columns), planR: dictionary-encoded columns
	type planLayout struct {
		name   string
		rotate bool
		nb     int
		raw    bool
	}
	planLayouts := []planLayout{{"planU", false, 3, true}, {"planR", true, 3, false}}
	if cfg.Thorough() {
		planLayouts = append(planLayouts, planLayout{"planU4", false, 4, false}, planLayout{"planR2", true, 2, true})
	}
	for _, l := range planLayouts {
		r := rng.Fork()
		ds := mkPlanDataset(r, l.rotate, l.nb)
		ds.Raw = l.raw
		scs = append(scs, &scenario{name: l.name, ds: ds, qs: genPlanQueries(r, ds, cfg.Thorough())})
	}
	// segments with more blocks than every batching constant of the search path (big.go): open segment with raw columns,
	// rotated segment with dictionary columns
	type bigLayout struct {
		name   string
		rotate bool
		raw    bool
	}
	bigLayouts := []bigLayout{{"bigU", false, true}, {"bigR", true, false}}
	if cfg.Thorough() {
		bigLayouts = append(bigLayouts, bigLayout{"bigU2", false, false}, bigLayout{"bigR2", true, true})
	}
	for _, l := range bigLayouts {
		r := rng.Fork()
		shared := 2*bigChunk + 3 + r.Intn(12) // two full chunks and a remainder among the blocks that go to the search together
		// the tail blocks (distinct newest timestamps) go to the search in groups of GOMAXPROCS: two full groups and a remainder
		gp := runtime.GOMAXPROCS(0)
		if gp > 24 {
			gp = 24
		}
		ds := mkBigDataset(r, l.rotate, shared+2*gp+1+r.Intn(gp-1+1), shared)
		ds.Raw = l.raw
		scs = append(scs, &scenario{name: l.name, ds: ds, qs: genBigQueries(r, ds, cfg.Thorough())})
	}
	{ // one block with more records than the per-block size constants (oracle only)
		r := rng.Fork()
		ds := mkWideDataset(r, cfg.Seed%2 == 0)
		ds.Raw = true
		scs = append(scs, &scenario{name: "wide", ds: ds, qs: genWideQueries(r, ds)})
	}
	joinDrive(cfg, sum, rng.Fork())
	// each scenario's queries are split over several workers (fresh store each; same data)
	type job struct {
		sc     *scenario
		lo, hi int
	}
	var jobs []job
	for _, sc := range scs {
		sc.obs = make([]QObs, len(sc.qs))
		const chunk = 450
		for lo := 0; lo < len(sc.qs); lo += chunk {
			hi := lo + chunk
			if hi > len(sc.qs) {
				hi = len(sc.qs)
			}
			jobs = append(jobs, job{sc, lo, hi})
		}
	}
	var wg sync.WaitGroup
	var mu sync.Mutex
	sem := make(chan struct{}, 8)
	for ji, j := range jobs {
		wg.Add(1)
		go func(ji int, j job) {
			defer wg.Done()
			sem <- struct{}{}
			defer func() { <-sem }()
			s := &Script{Rotate: j.sc.ds.Rotate, Raw: j.sc.ds.Raw}
			for _, blk := range j.sc.ds.Blocks {
				var docs []string
				for _, k := range blk {
					docs = append(docs, docText(j.sc.ds.Events[k]))
				}
				s.Batches = append(s.Batches, docs)
			}
			for _, q := range j.sc.qs[j.lo:j.hi] {
				s.Queries = append(s.Queries, Query{Text: q.Text, Start: q.Start, End: q.End, Plan: q.PlanObs})
			}
			obs, err := runScenario(filepath.Join(cfg.Out, fmt.Sprintf("w%03d", ji)), s)
			mu.Lock()
			defer mu.Unlock()
			if err != nil {
				// re-run alone once before believing it
				obs, err = runScenario(filepath.Join(cfg.Out, fmt.Sprintf("w%03d_retry", ji)), s)
			}
			if err != nil {
				j.sc.err = err
				return
			}
			copy(j.sc.obs[j.lo:j.hi], obs)
		}(ji, j)
	}
	wg.Wait()
	dir := filepath.Join(cfg.Out, "cases")
	imports := "From SigM Require Import Base Dte Filter FilterCheck.\nFrom Coq Require Import QArith.\nOpen Scope Z_scope.\n"
	for _, sc := range scs {
		if sc.err != nil {
			sum.HarnessError("scenario " + sc.name + ": " + sc.err.Error())
			continue
		}
		evalScenario(sc, sum, dir, imports)
		if len(sc.qs) > 3 {
			sum.Sample(map[string]interface{}{"scenario": sc.name, "events": len(sc.ds.Events), "blocks": len(sc.ds.Blocks), "queries": len(sc.qs),
				"example_event": docText(sc.ds.Events[5]), "example_queries": []string{sc.qs[0].Text, sc.qs[len(sc.qs)/2].Text, sc.qs[len(sc.qs)-1].Text}})
		}
	}
	sum.Notes = append(sum.Notes,
		"numbers are exact rationals in model and oracle; literals whose float64 value differs from their text (integers beyond 2^53 against float values) are skipped and counted",
		"known-defect classes are generated in their own streams; the main stream contains only cells inside cmp_guard/expr_guard")
	_ = os.WriteFile(filepath.Join(cfg.Out, "all_failures.txt"), []byte(strings.Join(allFails, "\n")+"\n"), 0o644)
	sum.Write(cfg.Out)
}

// direct part of c03: the real range checkers, range-index maintenance, bloom token insertion and
// block pruning functions (through the verif hooks) on an enumerated matrix; observations are
// written as Coq case files and compared with Prune.v inside Coq.
package main

import (
	"fmt"
	"math"
	"math/big"
	"strconv"
	"strings"

	esquery "github.com/siglens/siglens/pkg/es/query"
	"github.com/siglens/siglens/pkg/segment/query"
	"github.com/siglens/siglens/pkg/segment/query/metadata"
	"github.com/siglens/siglens/pkg/segment/query/metadata/metautils"
	"github.com/siglens/siglens/pkg/segment/structs"
	sutils "github.com/siglens/siglens/pkg/segment/utils"
	"github.com/siglens/siglens/pkg/segment/writer"

	"verifharness/vhlib"
)

const casesImports = "From Coq Require Import QArith.\nFrom SigM Require Import Base Prune Layout TextPlan PruneCheck.\n"

func cz(z int64) string { return "(" + strconv.FormatInt(z, 10) + ")%Z" }
func czu(z uint64) string {
	return "(" + strconv.FormatUint(z, 10) + ")%Z"
}
func cq(f float64) string {
	r := new(big.Rat)
	if r.SetFloat64(f) == nil {
		return "(Qmake 0%Z 1%positive)"
	}
	return "(Qmake (" + r.Num().String() + ")%Z " + r.Denom().String() + "%positive)"
}
func cb(b bool) string { return vhlib.CoqBool(b) }
func cbytes(s string) string {
	if s == "" {
		return "(@nil N)"
	}
	return vhlib.CoqBytes([]byte(s))
}

var opNames = []string{"eq", "ne", "lt", "le", "gt", "ge", "6", "isnull"}

func shard(sum *vhlib.Summary, dir, name, fn string, items []string, per int) {
	for i, k := 0, 0; i < len(items); i, k = i+per, k+1 {
		j := i + per
		if j > len(items) {
			j = len(items)
		}
		sum.WriteCaseFile(dir, fmt.Sprintf("%s_%02d", name, k), casesImports,
			"Definition cases := "+vhlib.CoqListNL(items[i:j])+".\n", fn+" cases", j-i)
	}
}

func numbersCoq(r *structs.Numbers) string {
	return fmt.Sprintf("(mk_numbers %d %s %s %s %s %s %s)", int(r.NumType), czu(r.Min_uint64), czu(r.Max_uint64),
		cz(r.Min_int64), cz(r.Max_int64), cq(r.Min_float64), cq(r.Max_float64))
}

func numCoq(v writer.VerifC03Num) string {
	switch v.Kind {
	case 0:
		return "VI " + cz(v.I)
	case 1:
		return "VU " + czu(v.U)
	}
	return "VF " + cq(v.F)
}

var litPool = []string{"5", "-5", "+5", "0", "-0", "12", "13", "-3", "-4", "2.5", "5.0", "5.", ".5", "1e1", "5e-1", "2.50", "-7.75", "1E2",
	"abc", "", "007", ".", "1e", "e5", "--1", "1.2.3", "5x", " 5", "18446744073709551615", "18446744073709551616",
	"9223372036854775807", "9223372036854775808", "-9223372036854775808", "-9223372036854775809", "100", "-100"}

func directCases(cfg vhlib.Config, sum *vhlib.Summary, rng *vhlib.Rng) {
	ops := []int{0, 1, 2, 3, 4, 5, 7}
	// ---- 1. pass checkers: operator x numeric type x boundary literal
	var items []string
	intRanges := [][2]int64{{5, 5}, {-3, 12}, {0, 0}, {math.MinInt64, math.MaxInt64}, {-8, -8}, {7, 9}, {math.MaxInt64, math.MaxInt64}, {math.MinInt64, -1}}
	for _, r := range intRanges {
		cand := map[int64]bool{r[0]: true, r[1]: true, 0: true, math.MinInt64: true, math.MaxInt64: true}
		for _, b := range r {
			if b > math.MinInt64 {
				cand[b-1] = true
			}
			if b < math.MaxInt64 {
				cand[b+1] = true
			}
		}
		cand[r[0]/2+r[1]/2] = true
		for l := range cand {
			for _, o := range ops {
				obs := metautils.VerifC03IntPass(o, l, r[0], r[1])
				items = append(items, fmt.Sprintf("PZ %d %s %s %s %s", o, cz(l), cz(r[0]), cz(r[1]), cb(obs)))
				sum.Eval(fmt.Sprintf("pass/int/%d/%d/%d/%d", o, l, r[0], r[1]), true)
				sum.Count("direct/pass/int/" + opNames[o])
				// the property itself on the real function: a block holding v with v op l must pass
				for _, v := range []int64{r[0], r[1], r[0]/2 + r[1]/2} {
					if v >= r[0] && v <= r[1] && cmpI(o, v, l) && !obs {
						sum.Fail("range_checker_rejects_value_in_range", fmt.Sprintf("doesIntPassRangeFilter(%s, lookup=%d, min=%d, max=%d) = false although %d is in the range and %d %s %d", opNames[o], l, r[0], r[1], v, v, opNames[o], l), map[string]interface{}{"type": "int", "op": o, "lookup": l, "min": r[0], "max": r[1]})
					}
				}
			}
		}
	}
	uintRanges := [][2]uint64{{5, 5}, {0, 12}, {0, 0}, {0, math.MaxUint64}, {7, 9}, {1 << 63, 1<<63 + 5}, {math.MaxUint64, math.MaxUint64}}
	for _, r := range uintRanges {
		cand := map[uint64]bool{r[0]: true, r[1]: true, 0: true, math.MaxUint64: true, 1 << 63: true}
		for _, b := range r {
			if b > 0 {
				cand[b-1] = true
			}
			if b < math.MaxUint64 {
				cand[b+1] = true
			}
		}
		for l := range cand {
			for _, o := range ops {
				obs := metautils.VerifC03UintPass(o, l, r[0], r[1])
				items = append(items, fmt.Sprintf("PZ %d %s %s %s %s", o, czu(l), czu(r[0]), czu(r[1]), cb(obs)))
				sum.Eval(fmt.Sprintf("pass/uint/%d/%d/%d/%d", o, l, r[0], r[1]), true)
				sum.Count("direct/pass/uint/" + opNames[o])
				for _, v := range []uint64{r[0], r[1]} {
					if cmpU(o, v, l) && !obs {
						sum.Fail("range_checker_rejects_value_in_range", fmt.Sprintf("doesUintPassRangeFilter(%s, lookup=%d, min=%d, max=%d) = false although %d is in the range", opNames[o], l, r[0], r[1], v), map[string]interface{}{"type": "uint", "op": o, "lookup": l, "min": r[0], "max": r[1]})
					}
				}
			}
		}
	}
	fltRanges := [][2]float64{{2.5, 2.5}, {-1.25, 100.25}, {0, 0}, {-7.5, -0.5}, {3, 3}, {-1e15, 1e15}}
	for _, r := range fltRanges {
		cand := []float64{r[0], r[1], r[0] - 0.5, r[0] + 0.5, r[1] - 0.5, r[1] + 0.5, 0, (r[0] + r[1]) / 2, 2, 3, -2.75}
		for _, l := range cand {
			for _, o := range ops {
				obs := metautils.VerifC03FloatPass(o, l, r[0], r[1])
				items = append(items, fmt.Sprintf("PQ %d %s %s %s %s", o, cq(l), cq(r[0]), cq(r[1]), cb(obs)))
				sum.Eval(fmt.Sprintf("pass/flt/%d/%v/%v/%v", o, l, r[0], r[1]), true)
				sum.Count("direct/pass/float/" + opNames[o])
				for _, v := range []float64{r[0], r[1], (r[0] + r[1]) / 2} {
					if cmpF(o, v, l) && !obs {
						sum.Fail("range_checker_rejects_value_in_range", fmt.Sprintf("doesFloatPassRangeFilter(%s, lookup=%v, min=%v, max=%v) = false although %v is in the range", opNames[o], l, r[0], r[1], v), map[string]interface{}{"type": "float", "op": o, "lookup": l, "min": r[0], "max": r[1]})
					}
				}
			}
		}
	}
	shard(sum, cfg.Out, "cases_pass", "check_pass", items, 450)

	// ---- 2. checkRangeIndexHelper: range entry x literal text x operator
	items = nil
	entries := []*structs.Numbers{
		{NumType: sutils.RNT_SIGNED_INT, Min_int64: -2, Max_int64: 3},
		{NumType: sutils.RNT_SIGNED_INT, Min_int64: 5, Max_int64: 5},
		{NumType: sutils.RNT_SIGNED_INT, Min_int64: math.MinInt64, Max_int64: math.MaxInt64},
		{NumType: sutils.RNT_UNSIGNED_INT, Min_uint64: 0, Max_uint64: 12},
		{NumType: sutils.RNT_UNSIGNED_INT, Min_uint64: 5, Max_uint64: 5},
		{NumType: sutils.RNT_UNSIGNED_INT, Min_uint64: 1 << 63, Max_uint64: math.MaxUint64},
		{NumType: sutils.RNT_FLOAT64, Min_float64: -1.25, Max_float64: 100.25},
		{NumType: sutils.RNT_FLOAT64, Min_float64: 5, Max_float64: 5},
		{NumType: sutils.RNT_FLOAT64, Min_float64: 2.5, Max_float64: 2.5},
	}
	for _, e := range entries {
		for _, l := range litPool {
			for _, o := range ops {
				obs := metautils.VerifC03RangeHelper(e, l, o)
				items = append(items, fmt.Sprintf("(%s, %s, %d%%N, %s)", numbersCoq(e), cbytes(l), o, cb(obs)))
				sum.Eval(fmt.Sprintf("helper/%d/%s/%d/%v", int(e.NumType), l, o, *e), true)
				sum.Count(fmt.Sprintf("direct/helper/type%d", int(e.NumType)))
			}
		}
	}
	shard(sum, cfg.Out, "cases_helper", "check_helper", items, 400)

	// ---- 3. updateRangeIndex folded over value sequences
	items = nil
	nfold := 250
	if cfg.Thorough() {
		nfold = 4000
	}
	smallI := []int64{0, 1, -1, 5, -3, 12, 7, -8, 100, -100, 1 << 40, -(1 << 40)}
	bigI := []int64{math.MaxInt64, math.MinInt64, math.MaxInt64 - 1, math.MinInt64 + 1}
	smallU := []uint64{0, 1, 5, 12, 7, 100, 1 << 40}
	bigU := []uint64{1 << 63, 1<<63 + 5, math.MaxUint64, math.MaxUint64 - 1, 1<<63 - 1}
	flts := []float64{2.5, -1.25, 8.5, 0.5, 100.25, -7.5, 0, 3, -2, 1e6, -1e6 + 0.5}
	for c := 0; c < nfold; c++ {
		n := rng.Range(1, 6)
		mode := rng.Intn(6) // 0 ints, 1 uints, 2 floats, 3 int+uint, 4 all small mixed, 5 ints incl. extremes
		var vals []writer.VerifC03Num
		for i := 0; i < n; i++ {
			k := 0
			switch mode {
			case 0, 5:
				k = 0
			case 1:
				k = 1
			case 2:
				k = 2
			case 3:
				k = rng.Intn(2)
			default:
				k = rng.Intn(3)
			}
			switch k {
			case 0:
				v := vhlib.Pick(rng, smallI)
				if mode == 5 && rng.Chance(50) {
					v = vhlib.Pick(rng, bigI)
				}
				vals = append(vals, writer.VerifC03Num{Kind: 0, I: v})
			case 1:
				v := vhlib.Pick(rng, smallU)
				if (mode == 1 || mode == 3) && rng.Chance(30) {
					v = vhlib.Pick(rng, bigU)
				}
				vals = append(vals, writer.VerifC03Num{Kind: 1, U: v})
			default:
				vals = append(vals, writer.VerifC03Num{Kind: 2, F: vhlib.Pick(rng, flts)})
			}
		}
		r := writer.VerifC03RangeFold(vals)
		vs := make([]string, len(vals))
		key := ""
		for i, v := range vals {
			vs[i] = numCoq(v)
			key += vs[i] + ";"
		}
		if r == nil {
			sum.Fail("range_index_does_not_cover_value", "updateRangeIndex over "+key+" leaves the column without a range entry", map[string]interface{}{"values": key})
			continue
		}
		items = append(items, fmt.Sprintf("(%s, %s)", vhlib.CoqList(vs), numbersCoq(r)))
		sum.Eval("fold/"+key, len(vals) > 1)
		sum.Count(fmt.Sprintf("direct/fold/mode%d", mode))
		// property on the real result: the entry covers every value (same-type sequences)
		if mode == 0 || mode == 5 {
			for _, v := range vals {
				if r.NumType != sutils.RNT_SIGNED_INT || v.I < r.Min_int64 || v.I > r.Max_int64 {
					sum.Fail("range_index_does_not_cover_value", fmt.Sprintf("updateRangeIndex over %s gives [%d,%d] type %d which does not contain %d", key, r.Min_int64, r.Max_int64, r.NumType, v.I), map[string]interface{}{"values": key})
				}
			}
		}
		if mode == 2 {
			for _, v := range vals {
				if r.NumType != sutils.RNT_FLOAT64 || v.F < r.Min_float64 || v.F > r.Max_float64 {
					sum.Fail("range_index_does_not_cover_value", fmt.Sprintf("updateRangeIndex over %s gives [%v,%v] which does not contain %v", key, r.Min_float64, r.Max_float64, v.F), map[string]interface{}{"values": key})
				}
			}
		}
	}
	shard(sum, cfg.Out, "cases_fold", "check_fold", items, 400)

	// ---- 4. bloom tokens
	items = nil
	words := []string{"alpha", "Alpha", "say Hello World now", "hello   there", "final WORD", "x y z", "Mixed CASE Words", " lead", "trail ", "  ", "",
		"ALLUPPER", "a b", "A b", "a B", "one two", "One", "plain text here", "tail", "Ünï cødé", "tab\there", "a  b", "UP lo UP"}
	for _, w := range words {
		pieces := strings.Split(w, " ")
		pm := map[string]bool{w: true, strings.ToLower(w): true, strings.ToUpper(w): true, w + "x": true}
		for i, p := range pieces {
			pm[p] = true
			pm[asciiLower(p)] = true
			pm[strings.ToUpper(p)] = true
			if i+1 < len(pieces) {
				pm[p+" "+pieces[i+1]] = true
			}
		}
		pm[asciiLower(w)] = true
		var probes []string
		for p := range pm {
			probes = append(probes, p)
		}
		sortStrings(probes)
		cnt, res := writer.VerifC03BloomAdd([]string{w}, probes)
		ps := make([]string, len(probes))
		for i, p := range probes {
			ps[i] = fmt.Sprintf("(%s, %s)", cbytes(p), cb(res[i]))
		}
		items = append(items, fmt.Sprintf("(%s, %d%%N, %s)", cbytes(w), cnt[0], vhlib.CoqList(ps)))
		sum.Eval("tokens/"+w, true)
		sum.Count("direct/tokens")
		// property on the real function: every space-separated piece is findable as written and lower-cased
		for _, p := range pieces {
			if p == "" {
				continue
			}
			_, r2 := writer.VerifC03BloomAdd([]string{w}, []string{p, asciiLower(p)})
			if !r2[0] || !r2[1] {
				sum.Fail("bloom_misses_word_of_value", fmt.Sprintf("addToBlockBloomBothCases(%q): piece %q as written in filter=%v, lower-cased in filter=%v", w, p, r2[0], r2[1]), map[string]interface{}{"value": w, "piece": p})
			}
		}
	}
	shard(sum, cfg.Out, "cases_tokens", "check_tokens", items, 200)

	// ---- 5. block pruning for range queries (rotated doCmiChecks, unrotated doRangeCheckForCols)
	items = nil
	nprune := 150
	if cfg.Thorough() {
		nprune = 2500
	}
	lits := []string{"5", "-3", "12", "13", "0", "2.5", "5.0", "abc", "-100", "100", "8.5"}
	for c := 0; c < nprune; c++ {
		nb := rng.Range(1, 4)
		blocks := make([]map[string]writer.VerifC03Cmi, nb)
		bcoq := make([]string, nb)
		for b := 0; b < nb; b++ {
			blocks[b] = map[string]writer.VerifC03Cmi{"other": {Kind: 1, Words: []string{"zzz"}}}
			switch rng.Intn(5) {
			case 0:
				bcoq[b] = "BNone"
			case 1:
				blocks[b]["c"] = writer.VerifC03Cmi{Kind: 1, Words: []string{"abc", "5"}}
				bcoq[b] = "BStr"
			default:
				n := rng.Range(1, 4)
				var vals []writer.VerifC03Num
				fl := rng.Chance(30)
				for i := 0; i < n; i++ {
					if fl && rng.Chance(60) {
						vals = append(vals, writer.VerifC03Num{Kind: 2, F: vhlib.Pick(rng, flts)})
					} else {
						vals = append(vals, writer.VerifC03Num{Kind: 0, I: vhlib.Pick(rng, []int64{5, 5, -3, 12, 0, 7, -8})})
					}
				}
				rf := writer.VerifC03RangeFold(vals)
				if rf == nil {
					sum.Fail("range_index_does_not_cover_value", fmt.Sprintf("updateRangeIndex over %v leaves the column without a range entry", vals), map[string]interface{}{"values": fmt.Sprint(vals)})
					bcoq[b] = "BNone"
					continue
				}
				blocks[b]["c"] = writer.VerifC03Cmi{Kind: 2, Range: rf}
				vs := make([]string, len(vals))
				for i, v := range vals {
					vs[i] = numCoq(v)
				}
				bcoq[b] = "BNums " + vhlib.CoqList(vs)
			}
		}
		o := vhlib.Pick(rng, []int{0, 1, 2, 3, 4, 5})
		l := vhlib.Pick(rng, lits)
		rot := metadata.VerifC03DoCmiChecks(writer.VerifC03Containers(blocks), true, "c", false, l, o, nil, nil, true, false, false)
		unrot := writer.VerifC03UnrotatedRange(blocks, "c", l, o)
		items = append(items, fmt.Sprintf("(%s, %d%%N, %s, %s, %s)", vhlib.CoqList(bcoq), o, cbytes(l), survivors(rot, nb), survivors(unrot, nb)))
		sum.Eval(fmt.Sprintf("prune_range/%v/%d/%s", bcoq, o, l), true)
		sum.Count("direct/prune_range/" + opNames[o])
	}
	shard(sum, cfg.Out, "cases_prune_range", "check_prune_range", items, 300)

	// ---- 6. block pruning for text queries
	items = nil
	valPool := []string{"alpha", "Alpha beta", "say Hello World now", "plain text here", "gamma", "x y z", "beta"}
	keyPool := []string{"alpha", "beta", "hello", "world", "plain text", "zzz", "gamma", "text"}
	for c := 0; c < nprune; c++ {
		nb := rng.Range(1, 4)
		blocks := make([]map[string]writer.VerifC03Cmi, nb)
		bcoq := make([]string, nb)
		for b := 0; b < nb; b++ {
			blocks[b] = map[string]writer.VerifC03Cmi{}
			if rng.Chance(20) {
				blocks[b]["num"] = writer.VerifC03Cmi{Kind: 2, Range: &structs.Numbers{NumType: sutils.RNT_SIGNED_INT}}
				bcoq[b] = "None"
				continue
			}
			n := rng.Range(1, 3)
			var vals []string
			for i := 0; i < n; i++ {
				vals = append(vals, vhlib.Pick(rng, valPool))
			}
			blocks[b]["c"] = writer.VerifC03Cmi{Kind: 1, Words: vals}
			vs := make([]string, len(vals))
			for i, v := range vals {
				vs[i] = cbytes(v)
			}
			bcoq[b] = "(Some " + vhlib.CoqList(vs) + ")"
		}
		nk := rng.Range(0, 3)
		keys := map[string]bool{}
		orig := map[string]string{}
		var kcoq []string
		for len(keys) < nk {
			k := vhlib.Pick(rng, keyPool)
			if keys[k] {
				continue
			}
			keys[k] = true
			if rng.Chance(40) {
				o := strings.ToUpper(k[:1]) + k[1:]
				orig[k] = o
				kcoq = append(kcoq, fmt.Sprintf("(%s, Some %s)", cbytes(k), cbytes(o)))
			} else {
				kcoq = append(kcoq, fmt.Sprintf("(%s, @None (list N))", cbytes(k)))
			}
		}
		and := rng.Bool()
		wildVal := rng.Chance(15)
		negate := rng.Chance(25)
		wildCol := rng.Bool()
		rot := metadata.VerifC03DoCmiChecks(writer.VerifC03Containers(blocks), false, "c", wildCol, "", 0, keys, orig, and, wildVal, negate)
		ucol := "c"
		if wildCol {
			ucol = "*"
		}
		// the whole decision of an open segment: DoCMICheckForUnrotated
		unrot := writer.VerifC03UnrotatedText(blocks, ucol, keys, orig, and, wildVal, negate)
		// property on the real functions: a negated or wildcard query must never lose a block to the bloom
		if negate || wildVal {
			for b := 0; b < nb; b++ {
				if !unrot[uint16(b)] {
					cls := "negated_or_wildcard_query_pruned_by_bloom"
					if negate && !wildVal {
						cls = "open_negated_freetext_bloom_pruned"
					}
					sum.Fail(cls, fmt.Sprintf("DoCMICheckForUnrotated(negate=%v, wildcardValue=%v, keys=%v, and=%v, column=%s) dropped block %d of %v of an open segment", negate, wildVal, keys, and, ucol, b, bcoq), map[string]interface{}{"blocks": bcoq, "keys": fmt.Sprint(keys), "negate": negate, "wildcard_value": wildVal, "segment": "open"})
				}
				if !rot[uint16(b)] {
					sum.Fail("negated_or_wildcard_query_pruned_by_bloom", fmt.Sprintf("doCmiChecks(negate=%v, wildcardValue=%v, keys=%v, and=%v, wildcardCol=%v) dropped block %d of %v", negate, wildVal, keys, and, wildCol, b, bcoq), map[string]interface{}{"blocks": bcoq, "keys": fmt.Sprint(keys), "negate": negate, "wildcard_value": wildVal})
				}
			}
		}
		lop := 0
		if and {
			lop = 1
		}
		kl := "(@nil (list N * option (list N)))"
		if len(kcoq) > 0 {
			kl = vhlib.CoqList(kcoq)
		}
		q := fmt.Sprintf("(mkTQ %s (lop_code %d%%N) %s %s %s)", kl, lop, cb(wildVal), cb(negate), cb(wildCol))
		items = append(items, fmt.Sprintf("(%s, %s, %s, %s)", vhlib.CoqList(bcoq), q, survivors(rot, nb), survivors(unrot, nb)))
		sum.Eval(fmt.Sprintf("prune_text/%v/%s", bcoq, q), true)
		sum.Count(fmt.Sprintf("direct/prune_text/and=%v/neg=%v/wildcol=%v", and, negate, wildCol))
	}
	shard(sum, cfg.Out, "cases_prune_text", "check_prune_text", items, 300)

	// ---- 7. the bloom check as a planner: the candidate columns it records for a query on the wildcard column.
	// Blocks with SEVERAL text columns (and a numeric one); the leaf query is the one the real ES front-end builds
	// ({"term":{"*":v}} / query_string "*:v": equality on `*` with a string, SimpleExpressionAllColumns, searched in the
	// recorded columns only; {"match":{"*":...}}: words, And / one word Or); every parameter of the check is derived
	// from that query as the callers do (hooks).  Rotated: doCmiChecks; open: DoCMICheckForUnrotated.
	items = nil
	textCols := []string{"src", "dst", "msg", "tag"}
	cellPool := []string{"alpha", "beta", "Alpha", "say alpha now", "x y z", "gamma", "Alpha beta", "left-1", "right-2", "omega"}
	eqPool := []string{"alpha", "beta", "Alpha", "gamma", "zzz", "say alpha now", "x y z", "omega", "left-1"}
	wordPool2 := []string{"alpha", "beta", "gamma", "say", "now", "zzz", "omega"}
	for c := 0; c < nprune; c++ {
		nb := rng.Range(1, 3)
		blocks := make([]map[string]writer.VerifC03Cmi, nb)
		bcoq := make([]string, nb)
		btxt := make([]string, nb) // the same blocks, readable
		var kind, body string
		var eqv string
		switch rng.Intn(4) {
		case 0, 1:
			kind, eqv = "term", vhlib.Pick(rng, eqPool)
			body = fmt.Sprintf(`{"query":{"bool":{"must":[{"term":{"*":%q}}]}}}`, eqv)
		case 2:
			kind, eqv = "query_string", vhlib.Pick(rng, []string{"alpha", "beta", "Alpha", "gamma", "zzz", "omega"})
			body = fmt.Sprintf(`{"query":{"bool":{"must":[{"query_string":{"query":"*:%s"}}]}}}`, eqv)
		default:
			kind = "match_and"
			w1, w2 := vhlib.Pick(rng, wordPool2), vhlib.Pick(rng, wordPool2)
			if rng.Chance(30) || w1 == w2 {
				kind = "match_one"
				body = fmt.Sprintf(`{"query":{"bool":{"must":[{"match":{"*":{"query":%q,"operator":"or"}}}]}}}`, w1)
			} else {
				body = fmt.Sprintf(`{"query":{"bool":{"must":[{"match":{"*":{"query":%q,"operator":"and"}}}]}}}`, w1+" "+w2)
			}
		}
		for b := 0; b < nb; b++ {
			blocks[b] = map[string]writer.VerifC03Cmi{}
			var cs []string
			for _, col := range textCols {
				if !rng.Chance(70) {
					continue
				}
				n := rng.Range(1, 3)
				var vals []string
				for i := 0; i < n; i++ {
					if eqv != "" && rng.Chance(30) {
						vals = append(vals, eqv) // the value in several columns of one block
					} else {
						vals = append(vals, vhlib.Pick(rng, cellPool))
					}
				}
				blocks[b][col] = writer.VerifC03Cmi{Kind: 1, Words: vals}
				vs := make([]string, len(vals))
				for i, v := range vals {
					vs[i] = cbytes(v)
				}
				cs = append(cs, fmt.Sprintf("(%s, Some %s)", cbytes(col), vhlib.CoqList(vs)))
				btxt[b] += fmt.Sprintf(" %s:%q", col, vals)
			}
			if rng.Chance(40) {
				blocks[b]["num"] = writer.VerifC03Cmi{Kind: 2, Range: &structs.Numbers{NumType: sutils.RNT_SIGNED_INT, Min_int64: 1, Max_int64: 9}}
				cs = append(cs, fmt.Sprintf("(%s, @None (list (list N)))", cbytes("num")))
				btxt[b] += " num:[1..9]"
			}
			btxt[b] = "{" + strings.TrimSpace(btxt[b]) + "}"
			if len(cs) == 0 {
				bcoq[b] = "(@nil (list N * option (list (list N))))"
			} else {
				bcoq[b] = vhlib.CoqList(cs)
			}
		}
		node, _, _, _, perr := esquery.ParseRequest([]byte(body), 1, false)
		var leaf *structs.SearchQuery
		if perr == nil && node != nil {
			if sn := query.ConvertASTNodeToSearchNode(node, 1); sn != nil && sn.AndSearchConditions != nil && len(sn.AndSearchConditions.SearchQueries) == 1 {
				leaf = sn.AndSearchConditions.SearchQueries[0]
			}
		}
		if leaf == nil {
			sum.HarnessError(fmt.Sprintf("candidate columns: the ES front-end gave no single leaf query for %s (%v)", body, perr))
			continue
		}
		if _, wild := leaf.GetAllColumnsInQuery(); !wild || ((kind == "term" || kind == "query_string") && leaf.SearchType != structs.SimpleExpressionAllColumns) {
			sum.HarnessError(fmt.Sprintf("candidate columns: %s is not a wildcard-column query of the expected type (SearchType %v)", body, leaf.SearchType))
			continue
		}
		keys, orig, wildVal, bop := leaf.GetAllBlockBloomKeysToSearch()
		if wildVal || leaf.IsNegated() {
			sum.HarnessError(fmt.Sprintf("candidate columns: %s bypasses the bloom check", body))
			continue
		}
		var kl []string
		for k := range keys {
			kl = append(kl, k)
		}
		sortStrings(kl)
		kcoq := make([]string, len(kl))
		for i, k := range kl {
			if o, ok := orig[k]; ok {
				kcoq[i] = fmt.Sprintf("(%s, Some %s)", cbytes(k), cbytes(o))
			} else {
				kcoq[i] = fmt.Sprintf("(%s, @None (list N))", cbytes(k))
			}
		}
		rot := metadata.VerifC03DoCmiChecksCols(writer.VerifC03Containers(blocks), leaf)
		unrot := writer.VerifC03UnrotatedTextCols(blocks, leaf)
		plan := func(m map[uint16][]string) string {
			xs := make([]string, nb)
			for b := 0; b < nb; b++ {
				cols, ok := m[uint16(b)]
				switch {
				case !ok:
					xs[b] = "(@None (list (list N)))"
				case len(cols) == 0:
					xs[b] = "(Some (@nil (list N)))"
				default:
					sortStrings(cols)
					cc := make([]string, len(cols))
					for i, c := range cols {
						cc[i] = cbytes(c)
					}
					xs[b] = "(Some " + vhlib.CoqList(cc) + ")"
				}
			}
			return vhlib.CoqList(xs)
		}
		// the property on the real functions: a column of the block holding the value must be handed to the search
		if eqv != "" {
			for b := 0; b < nb; b++ {
				for col, cmi := range blocks[b] {
					holds := false
					for _, w := range cmi.Words {
						holds = holds || (cmi.Kind == 1 && w == eqv)
					}
					if !holds {
						continue
					}
					for _, side := range []struct {
						name string
						m    map[uint16][]string
					}{{"doCmiChecks (rotated segment)", rot}, {"DoCMICheckForUnrotated (open segment)", unrot}} {
						cols, kept := side.m[uint16(b)]
						has := false
						for _, x := range cols {
							has = has || x == col
						}
						if !kept {
							sum.Fail("bloom_prunes_match", fmt.Sprintf("%s, query %s: block %d %s (values per text column) holds the value %q in column %s and is dropped", side.name, body, b, btxt[b], eqv, col), map[string]interface{}{"blocks": btxt, "query": body, "check": side.name})
						} else if !has {
							sortStrings(cols)
							sum.Fail("allcolumn_equality_candidate_column_dropped", fmt.Sprintf("%s, query %s (equality on the wildcard column, searched only in the columns the bloom check records): recorded candidate columns %v, but block %d %s (values per text column) holds the value %q in column %s", side.name, body, cols, b, btxt[b], eqv, col), map[string]interface{}{"blocks": btxt, "query": body, "check": side.name, "block": b, "column": col, "recorded": cols})
						}
					}
				}
			}
		}
		lopc := "LOr"
		if bop == sutils.And {
			lopc = "LAnd"
		}
		kcl := "(@nil (list N * option (list N)))"
		if len(kcoq) > 0 {
			kcl = vhlib.CoqList(kcoq)
		}
		items = append(items, fmt.Sprintf("(%s, %s, %s, %s, %s)", vhlib.CoqList(bcoq), kcl, lopc, plan(rot), plan(unrot)))
		sum.Eval(fmt.Sprintf("allcol_cols/%v/%s", bcoq, body), true)
		sum.Count("direct/allcol_candidate_columns/" + kind)
	}
	shard(sum, cfg.Out, "cases_allcol_cols", "check_allcol_cols", items, 300)
}

func survivors(m map[uint16]bool, n int) string {
	xs := make([]string, n)
	for i := 0; i < n; i++ {
		xs[i] = cb(m[uint16(i)])
	}
	return vhlib.CoqList(xs)
}

func asciiLower(s string) string {
	b := []byte(s)
	for i, c := range b {
		if c >= 'A' && c <= 'Z' {
			b[i] = c + 32
		}
	}
	return string(b)
}

func cmpI(o int, v, l int64) bool {
	switch o {
	case 0:
		return v == l
	case 1:
		return v != l
	case 2:
		return v < l
	case 3:
		return v <= l
	case 4:
		return v > l
	case 5:
		return v >= l
	}
	return false
}
func cmpU(o int, v, l uint64) bool {
	switch o {
	case 0:
		return v == l
	case 1:
		return v != l
	case 2:
		return v < l
	case 3:
		return v <= l
	case 4:
		return v > l
	case 5:
		return v >= l
	}
	return false
}
func cmpF(o int, v, l float64) bool {
	switch o {
	case 0:
		return v == l
	case 1:
		return v != l
	case 2:
		return v < l
	case 3:
		return v <= l
	case 4:
		return v > l
	case 5:
		return v >= l
	}
	return false
}

package main

import (
	"context"
	"encoding/json"
	"fmt"
	"os"
	"os/exec"
	"path/filepath"
	"time"

	log "github.com/sirupsen/logrus"

	"verifharness/vhlib"
)

func runLayout(dir string, sc Script) (*WorkerOut, error) {
	_ = os.RemoveAll(dir)
	data := filepath.Join(dir, "data")
	if err := os.MkdirAll(data, 0o755); err != nil {
		return nil, err
	}
	sp := filepath.Join(dir, "script.json")
	op := filepath.Join(dir, "obs.json")
	b, _ := json.Marshal(sc)
	_ = os.WriteFile(sp, b, 0o644)
	ctx, cancel := context.WithTimeout(context.Background(), 180*time.Second)
	defer cancel()
	cmd := exec.CommandContext(ctx, os.Args[0], "worker", data, sp, op)
	out, err := cmd.CombinedOutput()
	if err != nil {
		tail := string(out)
		if len(tail) > 800 {
			tail = tail[len(tail)-800:]
		}
		return nil, fmt.Errorf("worker: %v: %s", err, tail)
	}
	ob, err := os.ReadFile(op)
	if err != nil {
		return nil, err
	}
	var o WorkerOut
	if err := json.Unmarshal(ob, &o); err != nil {
		return nil, err
	}
	return &o, nil
}

func main() {
	if len(os.Args) >= 5 && os.Args[1] == "worker" {
		workerMain(os.Args[2], os.Args[3], os.Args[4])
		return
	}
	if len(os.Args) >= 3 && os.Args[1] == "probe" {
		b, _ := os.ReadFile(os.Args[2])
		var sc Script
		if err := json.Unmarshal(b, &sc); err != nil {
			fmt.Println(err)
			os.Exit(2)
		}
		o, err := runLayout("/tmp/C03_probe", sc)
		if err != nil {
			fmt.Println("ERR", err)
			os.Exit(1)
		}
		fmt.Printf("flushes=%d rotates=%d ingested=%d drained=%d\n", o.Flushes, o.Rotates, o.Ingested, o.Drained)
		for _, p := range o.Pqs {
			fmt.Printf("PQS %-30s %s %+v\n", p.Query, p.Pqid, p.Segs)
		}
		for i, q := range sc.Queries {
			x := o.Obs[i]
			tot := ""
			if x.Total != nil {
				tot = fmt.Sprintf(" total=%d", *x.Total)
			}
			fmt.Printf("%-40s ids=%v groups=%v err=%q dup=%v raw=%d pqs=%d%s\n", q, x.Ids, x.Groups, x.Err, x.Dup, x.Raw, x.Pqs, tot)
		}
		return
	}
	log.SetLevel(log.PanicLevel)
	cfg := vhlib.ParseFlags()
	sum := vhlib.NewSummary("one evaluation = one (operator, numeric type, literal, range) call of a real range checker / one literal x range entry x operator call of checkRangeIndexHelper / one updateRangeIndex fold / one bloom token insertion / one block-pruning call, or one (event set, physical layout, query) answer of the real system compared with the oracle computed from the events; distinct = distinct input tuple, non-trivial = the expected answer is not empty (end to end) or the input has more than one value (folds)")
	rng := vhlib.NewRng(cfg.Seed*0x9E3779B97F4A7C15 + 3)
	t0 := time.Now()
	rDirect, rMeta := rng.Fork(), rng.Fork()
	rTime := rng.Fork() // forked after the earlier streams: their inputs stay what they were
	if only := os.Getenv("C03_ONLY"); only == "" || only == "direct" {
		directCases(cfg, sum, rDirect)
	}
	timeFilterCases(cfg, sum, rTime)
	sum.Notes = append(sum.Notes, fmt.Sprintf("direct matrix: %.1fs", time.Since(t0).Seconds()))
	t1 := time.Now()
	runMeta(cfg, sum, rMeta)
	sum.Notes = append(sum.Notes, fmt.Sprintf("metamorphic runs: %.1fs", time.Since(t1).Seconds()),
		"floats are dyadic rationals of small magnitude (exact in binary64); the model treats float64 as exact rationals",
		"main stream: dense columns, one type per column, no decimal literal against int columns, no free-text NOT, no sub-phrase; known classes run in their own streams")
	sum.Write(cfg.Out)
}

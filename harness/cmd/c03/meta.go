// metamorphic part of c03: ONE event set, K physical layouts on the real system (worker processes),
// a battery of queries; canonical answers must equal the oracle computed from the events (and hence
// each other).  Known defect classes run in their own streams.
package main

import (
	"encoding/json"
	"fmt"
	"math"
	"os"
	"path/filepath"
	"sort"
	"strconv"
	"strings"
	"sync"
	"time"

	"verifharness/vhlib"
)

func sortStrings(x []string) { sort.Strings(x) }

// ---------- logical events ----------
type Val struct {
	Kind string  // "i" int, "f" float, "s" string, "n" string that is the decimal text of the integer I (S = the text)
	I    int64   `json:",omitempty"`
	F    float64 `json:",omitempty"`
	S    string  `json:",omitempty"`
}
type Event struct {
	Id     int
	Fields map[string]Val
	Order  []string
}

func (e Event) doc() string {
	var sb strings.Builder
	fmt.Fprintf(&sb, "{\"timestamp\":%d,\"id\":%d", tsBase+uint64(e.Id)*1000, e.Id)
	for _, k := range e.Order {
		v := e.Fields[k]
		sb.WriteString(",")
		kb, _ := json.Marshal(k)
		sb.Write(kb)
		sb.WriteString(":")
		switch v.Kind {
		case "i":
			sb.WriteString(strconv.FormatInt(v.I, 10))
		case "f":
			s := strconv.FormatFloat(v.F, 'f', -1, 64)
			if !strings.Contains(s, ".") {
				s += ".0" // a float stays a float in JSON (8.0, not 8)
			}
			sb.WriteString(s)
		default:
			vb, _ := json.Marshal(v.S)
			sb.Write(vb)
		}
	}
	sb.WriteString("}")
	return sb.String()
}
func (e *Event) set(k string, v Val) {
	if e.Fields == nil {
		e.Fields = map[string]Val{}
	}
	if _, ok := e.Fields[k]; !ok {
		e.Order = append(e.Order, k)
	}
	e.Fields[k] = v
}

// ---------- queries with their specification ----------
type Pred interface{ match(e Event) bool }

type pCmp struct {
	Col string
	Op  int // 0 eq 1 ne 2 lt 3 le 4 gt 5 ge
	Lit float64
}

func (p pCmp) match(e Event) bool {
	v, ok := e.Fields[p.Col]
	if !ok || v.Kind == "s" {
		return p.Op == 1
	}
	x := v.F
	if v.Kind == "i" || v.Kind == "n" {
		x = float64(v.I)
	}
	return cmpF(p.Op, x, p.Lit)
}

type pStrEq struct {
	Col, S string
	Neg    bool
}

func (p pStrEq) match(e Event) bool {
	v, ok := e.Fields[p.Col]
	r := ok && v.Kind == "s" && strings.EqualFold(v.S, p.S)
	if p.Neg {
		return !r
	}
	return r
}

// free-text word or phrase: case-insensitive, on word boundaries (spaces) of any string field
type pWord struct{ W string }

func (p pWord) match(e Event) bool {
	for _, v := range e.Fields {
		if v.Kind == "s" && containsWords(strings.ToLower(v.S), strings.ToLower(p.W)) {
			return true
		}
	}
	return false
}
func containsWords(hay, needle string) bool {
	for i := 0; i+len(needle) <= len(hay); i++ {
		if hay[i:i+len(needle)] == needle && (i == 0 || hay[i-1] == ' ') && (i+len(needle) == len(hay) || hay[i+len(needle)] == ' ') {
			return true
		}
	}
	return false
}

type pGlob struct{ Col, Pat string } // case-insensitive glob on a string column ("" = any string column)

func (p pGlob) match(e Event) bool {
	for k, v := range e.Fields {
		if (p.Col == "" || p.Col == k) && v.Kind == "s" && globMatch(strings.ToLower(p.Pat), strings.ToLower(v.S)) {
			return true
		}
	}
	return false
}
func globMatch(p, s string) bool {
	if p == "" {
		return s == ""
	}
	if p[0] == '*' {
		for i := 0; i <= len(s); i++ {
			if globMatch(p[1:], s[i:]) {
				return true
			}
		}
		return false
	}
	return s != "" && p[0] == s[0] && globMatch(p[1:], s[1:])
}

// equality on the wildcard column as the ES front-end asks it: some string field IS the value (whole value, as written)
type pAnyEq struct{ V string }

func (p pAnyEq) match(e Event) bool {
	for _, v := range e.Fields {
		if v.Kind == "s" && v.S == p.V {
			return true
		}
	}
	return false
}

// ES term on a named column: the string field is the value as written
type pStrEqCS struct{ Col, S string }

func (p pStrEqCS) match(e Event) bool {
	v, ok := e.Fields[p.Col]
	return ok && v.Kind == "s" && v.S == p.S
}

type pExists struct{ Col string }

func (p pExists) match(e Event) bool { _, ok := e.Fields[p.Col]; return ok }

type pAnd struct{ A, B Pred }
type pOr struct{ A, B Pred }
type pNot struct{ A Pred }
type pAll struct{}

func (p pAnd) match(e Event) bool { return p.A.match(e) && p.B.match(e) }
func (p pOr) match(e Event) bool  { return p.A.match(e) || p.B.match(e) }
func (p pNot) match(e Event) bool { return !p.A.match(e) }
func (p pAll) match(e Event) bool { return true }

type Query struct {
	Text  string
	P     Pred
	Kind  string   // range | text | bool | stats
	Stats []string // measure functions "count", "sum(n)", ...; nil = record query
	By    string
	// for the Coq end-to-end cases (single range comparison)
	RCol string
	ROp  int
	RLit string
	Cols []string // columns the query looks at (to recognise answers holding events that lack one of them)
	// features used to route known classes
	FloatMeasure bool
	Dc           bool
	// equality on the wildcard column with this string value (ES term / query_string on `*`): the query whose search is
	// restricted to the candidate columns recorded by the bloom check; compared with TextPlan.v inside Coq
	AnyEq string
	// time-bounded query: asked with startEpoch = TR[0], endEpoch = TR[1] (Text carries the "tr:" prefix the worker
	// understands); the specification keeps the events whose timestamp is inside the range
	HasTR bool
	TR    [2]uint64
}

func evTs(e Event) uint64 { return tsBase + uint64(e.Id)*1000 }

// does the event satisfy the query (predicate and, for a time-bounded query, the time range)
func (q Query) accepts(e Event) bool {
	if q.HasTR && (evTs(e) < q.TR[0] || evTs(e) > q.TR[1]) {
		return false
	}
	return q.P.match(e)
}

func statVal(fn string, evs []Event) (string, bool) {
	if fn == "count" {
		return "count(*)=" + strconv.Itoa(len(evs)), true
	}
	open := strings.Index(fn, "(")
	f, col := fn[:open], fn[open+1:len(fn)-1]
	var xs []float64
	seen := map[string]bool{}
	for _, e := range evs {
		v, ok := e.Fields[col]
		if !ok {
			continue
		}
		switch v.Kind {
		case "i", "n":
			xs = append(xs, float64(v.I))
		case "f":
			xs = append(xs, v.F)
		default:
			seen[v.S] = true
		}
	}
	if f == "dc" {
		return "cardinality(" + col + ")=" + strconv.Itoa(len(seen)), true
	}
	if len(xs) == 0 {
		if f == "sum" {
			return fn + "=0", true // siglens reports 0 for a sum over no value; taken as the convention
		}
		return "", false
	}
	r := 0.0
	switch f {
	case "sum", "avg":
		for _, x := range xs {
			r += x
		}
		if f == "avg" {
			r /= float64(len(xs))
		}
	case "min":
		r = math.Inf(1)
		for _, x := range xs {
			r = math.Min(r, x)
		}
	case "max":
		r = math.Inf(-1)
		for _, x := range xs {
			r = math.Max(r, x)
		}
	}
	return fn + "=" + fmtNum(r), true
}

func (q Query) oracle(evs []Event) Obs {
	var m []Event
	for _, e := range evs {
		if q.accepts(e) {
			m = append(m, e)
		}
	}
	if q.Stats == nil {
		var o Obs
		for _, e := range m {
			o.Ids = append(o.Ids, e.Id)
		}
		sort.Ints(o.Ids)
		return o
	}
	o := Obs{Stats: true}
	groups := map[string][]Event{}
	if q.By == "" {
		groups["*"] = m
	} else {
		for _, e := range m {
			v, ok := e.Fields[q.By]
			if !ok {
				continue
			}
			groups[v.S] = append(groups[v.S], e)
		}
	}
	for g, ge := range groups {
		var parts []string
		for _, fn := range q.Stats {
			if s, ok := statVal(fn, ge); ok {
				parts = append(parts, s)
			}
		}
		sort.Strings(parts)
		o.Groups = append(o.Groups, g+" => "+strings.Join(parts, " "))
	}
	sort.Strings(o.Groups)
	return o
}

func obsKey(o Obs) string {
	if o.Err != "" {
		return "ERR:" + o.Err
	}
	if (o.Stats && len(o.Groups) == 0) || (!o.Stats && len(o.Ids) == 0 && !o.Dup && (o.Total == nil || *o.Total == 0)) {
		return "EMPTY" // an aggregation over no matching event comes back without measure rows
	}
	if o.Stats && len(o.Groups) == 1 && (o.Groups[0] == "* => count(*)=0" || strings.HasPrefix(o.Groups[0], "* => count(*)=0 ")) {
		return "EMPTY" // … or, when blocks were searched and nothing matched, with one row counting zero events
	}
	if o.Stats {
		return "G:" + strings.Join(o.Groups, " ; ")
	}
	d := ""
	if o.Dup {
		d = "DUP"
	}
	if o.Total != nil && *o.Total != len(o.Ids) {
		d += fmt.Sprintf(" but the _search handler reports hits.total=%d", *o.Total)
	}
	return fmt.Sprintf("I:%v%s", o.Ids, d)
}

func missingOnly(got, want Obs) bool { // got is a strict subset of want (rows lost, none invented)
	if got.Stats || want.Stats || got.Err != "" || got.Dup {
		return false
	}
	w := map[int]bool{}
	for _, x := range want.Ids {
		w[x] = true
	}
	for _, x := range got.Ids {
		if !w[x] {
			return false
		}
	}
	return len(got.Ids) < len(want.Ids)
}

// the answer holds events the oracle does not, and every such event lacks a column of the query
func extraLackColumn(evs []Event, q Query, got, want Obs) bool {
	if got.Stats || len(q.Cols) == 0 {
		return false
	}
	w := map[int]bool{}
	for _, x := range want.Ids {
		w[x] = true
	}
	n := 0
	for _, x := range got.Ids {
		if w[x] {
			continue
		}
		n++
		lacks := false
		for _, e := range evs {
			if e.Id == x {
				for _, c := range q.Cols {
					if _, ok := e.Fields[c]; !ok {
						lacks = true
					}
				}
			}
		}
		if !lacks {
			return false
		}
	}
	return n > 0
}

// ---------- one stream = event set + layouts + battery ----------
type Stream struct {
	Name    string
	Known   string // "" = main stream; otherwise the known class every disagreement of this stream is filed under
	Events  []Event
	Layouts []LayoutCfg
	Queries []Query
	// per (layout, query) override of the class (known classes inside the main battery, e.g. float measures on the agile tree)
	ClassOf func(l LayoutCfg, q Query) string
	// in PQS layouts of this stream every record query must have been served from the persistent-query
	// results (the server's own log line says "0 raw search N pqs")
	RequirePqs bool
	// block-scheduler stream: the same physical layout is run under several GOMAXPROCS values (WideOf: layout ->
	// the layout that differs only in taking all blocks in one fetch), RefName = in-order ingest; the ordered
	// hits of every record query are compared with the scheduler model inside Coq
	Batching bool
	WideOf   map[string]string
	RefName  string
	// time-bounded stream (timeprune.go): queries with HasTR are compared with TimePrune.v inside Coq
	TimeBounded bool
}

type streamResult struct {
	outs []*WorkerOut
	errs []error
}

func runStream(work string, st Stream, par int) streamResult {
	docs := make([]string, len(st.Events))
	for i, e := range st.Events {
		docs[i] = e.doc()
	}
	qs := make([]string, len(st.Queries))
	for i, q := range st.Queries {
		qs[i] = q.Text
	}
	res := streamResult{outs: make([]*WorkerOut, len(st.Layouts)), errs: make([]error, len(st.Layouts))}
	sem := make(chan struct{}, par)
	var wg sync.WaitGroup
	for li := range st.Layouts {
		wg.Add(1)
		go func(li int) {
			defer wg.Done()
			sem <- struct{}{}
			defer func() { <-sem }()
			dir := filepath.Join(work, "w_"+st.Name+"_"+st.Layouts[li].Name)
			sc := Script{Idx: "ix" + st.Name, Cfg: st.Layouts[li], Events: docs, Queries: qs}
			o, err := runLayout(dir, sc)
			if err != nil {
				// a timeout or crash under parallel load is re-run alone before it is believed
				o, err = runLayout(dir, sc)
			}
			res.outs[li], res.errs[li] = o, err
		}(li)
	}
	wg.Wait()
	return res
}

func layoutDim(l LayoutCfg) string {
	switch {
	case l.PQS:
		return "pqs"
	case l.Card > 0:
		return "raw"
	case !l.Final && l.Rotate == 0:
		return "open"
	case l.Procs > 0 && len(l.Perm) == 0:
		return "procs"
	case !l.Aggs:
		return "noaggs"
	case len(l.Perm) > 0:
		return "perm" // other order and other block composition: no single dimension to blame
	}
	return "base"
}

// blocks of a layout: ingestion order chunked by the flush interval
func layoutBlocks(l LayoutCfg, n int) [][]int {
	order := l.Perm
	if len(order) != n {
		order = make([]int, n)
		for i := range order {
			order[i] = i
		}
	}
	if l.Every <= 0 {
		return [][]int{order}
	}
	var bs [][]int
	for i := 0; i < n; i += l.Every {
		j := i + l.Every
		if j > n {
			j = n
		}
		bs = append(bs, order[i:j])
	}
	return bs
}

func cellCoq(e Event, col string) string {
	v, ok := e.Fields[col]
	if !ok {
		return "None"
	}
	switch v.Kind {
	case "i", "n": // a numeric string sharing its block with numbers is stored as a number (consolidateColumnTypes)
		return "(Some (VI " + cz(v.I) + "))"
	case "f":
		return "(Some (VF " + cq(v.F) + "))"
	}
	return "None"
}

// may the range query be compared with the model's answer (by-value record semantics)?
// int literal, or the column is float everywhere, or int everywhere (then a decimal literal prunes every block)
func e2eComparable(evs []Event, q Query, l LayoutCfg) bool {
	if q.RCol == "" {
		return false
	}
	allI, allF := true, true
	for _, e := range evs {
		v, ok := e.Fields[q.RCol]
		if !ok {
			// `!=` and records without the field: beyond the micro-index decision the record search treats blocks
			// that lack the column altogether in its own way (known class neq_minmax_prunes_absent_field);
			// the model answer is compared for single-block layouts only
			if q.ROp == 1 && l.Every != 0 {
				return false
			}
			continue
		}
		if v.Kind == "s" {
			return false
		}
		if v.Kind != "i" && v.Kind != "n" {
			allI = false
		}
		if v.Kind != "f" {
			allF = false
		}
	}
	if _, err := strconv.ParseInt(q.RLit, 10, 64); err == nil {
		return true
	}
	return allI || allF
}

type evalCtx struct {
	sum            *vhlib.Summary
	win            []string
	pflag          []string
	bidx           []string
	e2e            []string
	fetch          []string
	tfetch         []string
	timeoutRetries int
	acol           []string       // one item per (stream, layout): the layout and all its (value, observed ids)
	acolN          []int          // number of (value, observed ids) pairs per item of acol
	acolL          map[string]int // stream/layout -> index into acol
	mu             sync.Mutex
	cfg            vhlib.Config
	nfail          map[string]int
}

func (c *evalCtx) evaluate(st Stream, res streamResult) {
	want := make([]Obs, len(st.Queries))
	for qi, q := range st.Queries {
		want[qi] = q.oracle(st.Events)
	}
	base := -1
	for li, l := range st.Layouts {
		if layoutDim(l) == "base" && l.Every > 0 {
			base = li
			break
		}
	}
	for li, l := range st.Layouts {
		retried := map[int]*WorkerOut{}
		if res.errs[li] != nil {
			c.sum.HarnessError(fmt.Sprintf("stream %s layout %s: %v", st.Name, l.Name, res.errs[li]))
			continue
		}
		out := res.outs[li]
		if out.Ingested != len(st.Events) || len(out.Obs) != len(st.Queries) {
			c.sum.HarnessError(fmt.Sprintf("stream %s layout %s: ingested %d of %d, %d observations", st.Name, l.Name, out.Ingested, len(st.Events), len(out.Obs)))
			continue
		}
		if l.Windows {
			c.windowCases(st, l, out)
		}
		if l.DumpRanges != "" {
			c.blockIndexCases(st, l, out)
		}
		if len(out.Pqs) > 0 {
			c.pqsFlagCases(st, l, out)
		}
		for qi, q := range st.Queries {
			got := out.Obs[qi]
			if got.Err == skippedAfterTimeout {
				c.sum.Count("e2e/not_run_after_a_timeout")
				continue
			}
			stream := "main"
			if st.Known != "" {
				stream = "known:" + st.Known
			}
			c.sum.Eval(fmt.Sprintf("%s/%s/%s", st.Name, l.Name, q.Text), len(want[qi].Ids) > 0 || len(want[qi].Groups) > 0)
			c.sum.Count("e2e/" + stream + "/" + q.Kind + "/" + layoutDim(l))
			if got.Pqs > 0 && got.Raw == 0 {
				c.sum.Count("e2e/served_from/pqs")
			} else if got.Raw > 0 {
				c.sum.Count("e2e/served_from/raw_search")
			}
			if st.RequirePqs && l.PQS && q.Stats == nil && got.Err == "" && !(got.Pqs > 0 && got.Raw == 0) {
				c.sum.HarnessError(fmt.Sprintf("stream %s layout %s query `%s`: expected to be served from persistent-query results, server log says raw=%d pqs=%d", st.Name, l.Name, q.Text, got.Raw, got.Pqs))
			}
			// Coq end-to-end case: model answer over the known blocks of this layout
			if q.Stats == nil && !l.PQS && got.Err == "" && e2eComparable(st.Events, q, l) {
				var bs []string
				for _, blk := range layoutBlocks(l, len(st.Events)) {
					var es []string
					for _, ei := range blk {
						es = append(es, fmt.Sprintf("(%d%%nat, %s)", st.Events[ei].Id, cellCoq(st.Events[ei], q.RCol)))
					}
					bs = append(bs, vhlib.CoqList(es))
				}
				ids := make([]string, len(got.Ids))
				for i, x := range got.Ids {
					ids[i] = fmt.Sprintf("%d%%nat", x)
				}
				idl := "(@nil nat)"
				if len(ids) > 0 {
					idl = vhlib.CoqList(ids)
				}
				c.e2e = append(c.e2e, fmt.Sprintf("(%s, %d%%N, %s, %s)", vhlib.CoqList(bs), q.ROp, cbytes(q.RLit), idl))
			}
			if st.Batching && l.KeepOrder && q.Stats == nil && got.Err == "" {
				if q.HasTR {
					c.tfetchCase(st, l, q, out, got)
				} else {
					c.fetchCase(st, l, q, out, got)
				}
			}
			if q.AnyEq != "" && !l.PQS && got.Err == "" && !got.Dup {
				c.allcolCase(st, l, q, got)
			}
			if obsKey(got) == obsKey(want[qi]) {
				continue
			}
			// ---- disagreement with the oracle: choose the class
			class := st.Known
			if st.ClassOf != nil {
				if k := st.ClassOf(l, q); k != "" {
					class = k
				}
			}
			if class == "" {
				// false-alarm hygiene: a disagreement seen while ten worker processes share the machine is
				// re-run alone (same layout, fresh directory) before it is believed
				if _, done := retried[li]; !done && got.Err == "timeout" && c.timeoutRetries >= 2 {
					retried[li] = nil // a hang costs a full timeout per re-run: only the first two are re-run alone
				}
				if _, done := retried[li]; !done {
					if got.Err == "timeout" {
						c.timeoutRetries++
					}
					docs := make([]string, len(st.Events))
					for i, e := range st.Events {
						docs[i] = e.doc()
					}
					qtexts := make([]string, len(st.Queries))
					for i, qq := range st.Queries {
						qtexts[i] = qq.Text
					}
					ro, rerr := runLayout(filepath.Join(c.cfg.Out, "w_"+st.Name+"_"+l.Name+"_retry"), Script{Idx: "ix" + st.Name, Cfg: l, Events: docs, Queries: qtexts})
					if rerr != nil || len(ro.Obs) != len(st.Queries) {
						ro = nil
					}
					retried[li] = ro
				}
				if ro := retried[li]; ro != nil && obsKey(ro.Obs[qi]) == obsKey(want[qi]) {
					c.sum.Count("flaky/not_reproduced_alone")
					c.sum.Notes = append(c.sum.Notes, fmt.Sprintf("NOT REPRODUCED when the layout was re-run alone (possible race under load, see C11): stream %s layout %s query `%s`: got %s, expected %s", st.Name, l.Name, q.Text, obsKey(got), obsKey(want[qi])))
					continue
				} else if ro != nil {
					got = ro.Obs[qi]
				}
				if got.Err == skippedAfterTimeout {
					continue
				}
				if got.Err == "timeout" {
					class = "query_hangs_in_layout"
				}
				if class == "" && q.HasTR {
					class = classifyTimeBounded(st, l, q, got, want[qi], res, qi)
				}
				if class == "" {
					class = c.classifyBatching(st, l, out, got, want[qi], res, qi)
				}
				dim := layoutDim(l)
				baseOK := base >= 0 && res.errs[base] == nil && obsKey(res.outs[base].Obs[qi]) == obsKey(want[qi])
				acClass, _ := allcolClass(st, l, q, got, want[qi])
				switch {
				case class != "":
				case got.Err != "":
					class = "query_error_in_layout"
				case acClass != "":
					class = acClass
				case dim == "pqs" && extraLackColumn(st.Events, q, got, want[qi]):
					class = "pqs_matches_event_without_column"
				case dim != "base" && baseOK && dim == "raw":
					class = "dict_vs_raw_differ"
				case dim != "base" && baseOK && dim == "open":
					class = "open_vs_rotated_differ"
				case dim != "base" && baseOK && dim == "pqs":
					class = "pqs_changes_answer"
				case dim != "base" && baseOK && dim == "procs":
					class = "parallelism_changes_answer"
				case dim != "base" && baseOK && dim == "noaggs":
					class = "preagg_stats_changes_answer"
				case missingOnly(got, want[qi]) && q.Kind == "range":
					class = "range_index_prunes_match"
				case missingOnly(got, want[qi]) && q.Kind == "text":
					class = "bloom_prunes_match"
				default:
					class = "layout_changes_answer"
				}
			}
			other := ""
			for lj := range st.Layouts {
				if res.errs[lj] == nil && obsKey(res.outs[lj].Obs[qi]) == obsKey(want[qi]) {
					other = st.Layouts[lj].Name
					break
				}
			}
			docs := make([]string, len(st.Events))
			for i, e := range st.Events {
				docs[i] = e.doc()
			}
			detail := fmt.Sprintf("query `%s` over %d events, layout %s (flush every %d, rotate every %d, final rotate %v, card %d, pqs %v, aggs %v, procs %d): got %s, events say %s", q.Text, len(st.Events), l.Name, l.Every, l.Rotate, l.Final, l.Card, l.PQS, l.Aggs, l.Procs, obsKey(got), obsKey(want[qi]))
			if other != "" {
				detail += "; layout " + other + " gives the expected answer"
			}
			if q.AnyEq != "" {
				if _, note := allcolClass(st, l, q, got, want[qi]); note != "" {
					detail += "; " + note
				}
			}
			if q.HasTR {
				detail += "; " + timeBoundedNote(st, l, q, got, want[qi])
			}
			if st.Batching {
				detail += fmt.Sprintf("; blocks in ingest order (event id = rank of its timestamp) %s, GOMAXPROCS=%d = blocks taken per fetch", blocksText(l, len(st.Events)), out.GoMaxProcs)
			}
			c.sum.Fail(class, detail, map[string]interface{}{"stream": st.Name, "events": docs, "layout": l, "query": q.Text, "got": got, "want": want[qi]})
		}
	}
}

// rotated segments of a layout: groups of blocks (event indices), in the order of their earliest event
func layoutSegments(l LayoutCfg, n int) [][][]int {
	blocks := layoutBlocks(l, n)
	var segs [][][]int
	if l.Rotate <= 0 {
		if l.Final {
			segs = append(segs, blocks)
		}
	} else {
		for i := 0; i < len(blocks); i += l.Rotate {
			j := i + l.Rotate
			if j > len(blocks) {
				j = len(blocks)
			}
			if j-i == l.Rotate || l.Final {
				segs = append(segs, blocks[i:j])
			}
		}
	}
	minId := func(sg [][]int) int {
		m := 1 << 30
		for _, b := range sg {
			for _, e := range b {
				if e < m {
					m = e
				}
			}
		}
		return m
	}
	sort.Slice(segs, func(i, j int) bool { return minId(segs[i]) < minId(segs[j]) })
	return segs
}

// bookkeeping of the persistent queries after the last rotation (pqmr file kept, segment not on the empty-results
// list) against "some event of the segment matches": property oracle + Coq case (seg_nonempty over the blocks)
func (c *evalCtx) pqsFlagCases(st Stream, l LayoutCfg, out *WorkerOut) {
	segs := layoutSegments(l, len(st.Events))
	byText := map[string]Query{}
	for _, q := range st.Queries {
		byText[q.Text] = q
	}
	seen := map[string]bool{}
	for _, ps := range out.Pqs {
		q, ok := byText[ps.Query]
		if !ok || seen[ps.Pqid] {
			continue
		}
		seen[ps.Pqid] = true
		if _, isAll := q.P.(pAll); isAll {
			continue
		}
		if len(ps.Segs) != len(segs) {
			c.sum.HarnessError(fmt.Sprintf("stream %s layout %s query `%s`: %d rotated segments observed, %d expected", st.Name, l.Name, q.Text, len(ps.Segs), len(segs)))
			continue
		}
		for si, sg := range segs {
			o := ps.Segs[si]
			var bl []string
			any := false
			for _, b := range sg {
				var ms []string
				for _, ei := range b {
					m := q.P.match(st.Events[ei])
					any = any || m
					ms = append(ms, cb(m))
				}
				bl = append(bl, vhlib.CoqList(ms))
			}
			nonEmpty := o.HasPqmr && !o.Empty
			c.pflag = append(c.pflag, fmt.Sprintf("(%s, %s)", vhlib.CoqList(bl), cb(nonEmpty)))
			c.sum.Eval(fmt.Sprintf("pqsflag/%s/%s/%s/%d", st.Name, l.Name, ps.Pqid, si), any)
			c.sum.Count("direct/pqs_segment_flag")
			if any && !nonEmpty {
				var per []string
				for _, b := range sg {
					k := 0
					for _, ei := range b {
						if q.P.match(st.Events[ei]) {
							k++
						}
					}
					per = append(per, strconv.Itoa(k))
				}
				docs := make([]string, len(st.Events))
				for i, e := range st.Events {
					docs[i] = e.doc()
				}
				c.sum.Fail("pqs_segment_marked_empty_despite_matches", fmt.Sprintf("persistent query `%s` (registered before ingest), layout %s: rotated segment %d has %s matching events in its %d blocks, but after rotation its pqmr file exists=%v and the segment is on the query's empty-results list=%v, so the segment is skipped when the query is answered from persistent results", q.Text, l.Name, si, strings.Join(per, "/"), len(sg), o.HasPqmr, o.Empty), map[string]interface{}{"stream": st.Name, "events": docs, "layout": l, "query": q.Text, "segment": si, "observed": o})
			}
		}
	}
}

// the range entry the open segment holds per block for a column fed with numbers and numeric strings: Coq case
// (block_index) and the property on the observation: the entry contains every value, string-origin ones included
func (c *evalCtx) blockIndexCases(st Stream, l LayoutCfg, out *WorkerOut) {
	col := l.DumpRanges
	blocks := layoutBlocks(l, len(st.Events))
	if len(out.Ranges) != len(blocks) {
		c.sum.HarnessError(fmt.Sprintf("stream %s layout %s: %d block range observations for %d blocks", st.Name, l.Name, len(out.Ranges), len(blocks)))
		return
	}
	sort.Slice(out.Ranges, func(i, j int) bool { return out.Ranges[i].Block < out.Ranges[j].Block })
	for bi, blk := range blocks {
		r := out.Ranges[bi]
		var cells []string
		for _, ei := range blk {
			v, ok := st.Events[ei].Fields[col]
			switch {
			case !ok:
				cells = append(cells, "RAbsent")
			case v.Kind == "i":
				cells = append(cells, "RNum (VI "+cz(v.I)+")")
			case v.Kind == "f":
				cells = append(cells, "RNum (VF "+cq(v.F)+")")
			default:
				cells = append(cells, "RStr "+cbytes(v.S))
			}
			if ok && (v.Kind == "i" || v.Kind == "n") {
				in := r.Kind == 2 && ((r.Range.NumType == 1 && v.I >= r.Range.Min_int64 && v.I <= r.Range.Max_int64) ||
					(r.Range.NumType == 0 && v.I >= 0 && uint64(v.I) >= r.Range.Min_uint64 && uint64(v.I) <= r.Range.Max_uint64) ||
					(r.Range.NumType == 2 && float64(v.I) >= r.Range.Min_float64 && float64(v.I) <= r.Range.Max_float64))
				if !in {
					c.sum.Fail("range_index_misses_value_of_block", fmt.Sprintf("block %d of the open segment (layout %s) holds %s=%s but its range micro index is kind %d type %d [%d,%d]: a filter on a literal outside it prunes the block", bi, l.Name, col, st.Events[ei].doc(), r.Kind, r.Range.NumType, r.Range.Min_int64, r.Range.Max_int64), map[string]interface{}{"stream": st.Name, "layout": l, "block": bi, "event": st.Events[ei].doc(), "range": r})
				}
			}
		}
		obs := "None"
		if r.Kind == 2 {
			rr := r.Range
			obs = "(Some " + numbersCoq(&rr) + ")"
		}
		c.bidx = append(c.bidx, fmt.Sprintf("(%s, %s)", vhlib.CoqList(cells), obs))
		c.sum.Eval(fmt.Sprintf("block_index/%s/%s/%d", st.Name, l.Name, bi), true)
		c.sum.Count("direct/block_range_index_after_flush")
	}
}

// getLastRecord() windows observed during the real ingest (hook on AfterWritingToSegment): one Coq case per block;
// and the property itself on the observation: the window of a column the event lacks is the single back-fill byte,
// never bytes of an earlier record
func (c *evalCtx) windowCases(st Stream, l LayoutCfg, out *WorkerOut) {
	byId := map[int]WinObs{}
	for _, w := range out.Windows {
		byId[w.Id] = w
	}
	if len(out.Windows) != len(st.Events) {
		c.sum.HarnessError(fmt.Sprintf("stream %s layout %s: %d window observations for %d events", st.Name, l.Name, len(out.Windows), len(st.Events)))
		return
	}
	for _, blk := range layoutBlocks(l, len(st.Events)) {
		var evItems []string
		inBlock := map[string]bool{}
		for _, ei := range blk {
			e := st.Events[ei]
			w := byId[e.Id]
			cells := []string{fmt.Sprintf("(%s, WInt %s)", cbytes("id"), cz(int64(e.Id)))}
			inBlock["id"] = true
			for _, k := range e.Order {
				v := e.Fields[k]
				inBlock[k] = true
				switch v.Kind {
				case "i":
					cells = append(cells, fmt.Sprintf("(%s, WInt %s)", cbytes(k), cz(v.I)))
				case "f":
					cells = append(cells, fmt.Sprintf("(%s, WFlt %d%%N)", cbytes(k), math.Float64bits(v.F)))
				default:
					cells = append(cells, fmt.Sprintf("(%s, WStr %s)", cbytes(k), cbytes(v.S)))
				}
			}
			var names []string
			for k := range w.Cols {
				names = append(names, k)
			}
			sort.Strings(names)
			var obs []string
			for _, k := range names {
				obs = append(obs, fmt.Sprintf("(%s, %s)", cbytes(k), vhlib.CoqBytes(w.Cols[k])))
				if len(w.Cols[k]) == 0 {
					obs[len(obs)-1] = fmt.Sprintf("(%s, @nil N)", cbytes(k))
				}
			}
			evItems = append(evItems, fmt.Sprintf("(%s, %s)", vhlib.CoqList(cells), vhlib.CoqList(obs)))
			c.sum.Eval(fmt.Sprintf("window/%s/%s/%d", st.Name, l.Name, e.Id), true)
			c.sum.Count("direct/ingest_window")
			for k := range inBlock {
				if _, has := e.Fields[k]; has || k == "id" {
					continue
				}
				if win, ok := w.Cols[k]; ok && !(len(win) == 1 && win[0] == 0x13) {
					c.sum.Fail("ingest_window_shows_earlier_record", fmt.Sprintf("after ingesting %s (no field %q) getLastRecord() of column %q is % x instead of the back-fill byte 13: the persistent-query evaluator sees a value of an earlier event", e.doc(), k, k, win), map[string]interface{}{"stream": st.Name, "layout": l, "event": e.doc(), "column": k, "window": fmt.Sprintf("% x", win)})
				}
			}
		}
		c.win = append(c.win, vhlib.CoqList(evItems))
	}
}

func blocksText(l LayoutCfg, n int) string {
	var sb strings.Builder
	for si, sg := range allSegments(l, n) {
		if si > 0 {
			sb.WriteString(" | ")
		}
		for _, b := range sg {
			sb.WriteString(fmt.Sprint(b))
		}
	}
	return sb.String()
}

// every segment of a layout (rotated ones and the trailing open one), as blocks of event indices
func allSegments(l LayoutCfg, n int) [][][]int {
	blocks := layoutBlocks(l, n)
	if l.Rotate <= 0 {
		return [][][]int{blocks}
	}
	var segs [][][]int
	for i := 0; i < len(blocks); i += l.Rotate {
		j := i + l.Rotate
		if j > len(blocks) {
			j = len(blocks)
		}
		segs = append(segs, blocks[i:j])
	}
	return segs
}

// which kind of failing input is it when a layout of the block-scheduler stream disagrees with the events
func (c *evalCtx) classifyBatching(st Stream, l LayoutCfg, out *WorkerOut, got, want Obs, res streamResult, qi int) string {
	if !st.Batching {
		return ""
	}
	agrees := func(name string) bool {
		for lj, x := range st.Layouts {
			if x.Name == name && name != l.Name && res.errs[lj] == nil && res.outs[lj] != nil && len(res.outs[lj].Obs) == len(st.Queries) {
				return obsKey(res.outs[lj].Obs[qi]) == obsKey(want)
			}
		}
		return false
	}
	nblocks := len(layoutBlocks(l, len(st.Events)))
	if agrees(st.WideOf[l.Name]) {
		// the same files answer correctly when all blocks are taken in one fetch
		if missingOnly(got, want) && out.GoMaxProcs < nblocks {
			return "fewer_procs_than_blocks_loses_events"
		}
		return "parallelism_changes_answer"
	}
	if len(l.Perm) > 0 && agrees(st.RefName) {
		// same events, same flush/rotation history, only the arrival order (hence the block time ranges) differs
		return "block_time_overlap_changes_answer"
	}
	return ""
}

// Coq case of the scheduler model: GOMAXPROCS, the layout's segments with the block summaries (min/max timestamp of
// ALL events of the block) and the records matching the query, and the ids in the order the real system returned them
func (c *evalCtx) fetchCase(st Stream, l LayoutCfg, q Query, out *WorkerOut, got Obs) {
	ts := func(ei int) uint64 { return tsBase + uint64(st.Events[ei].Id)*1000 }
	var segs []string
	for _, sg := range allSegments(l, len(st.Events)) {
		var bl []string
		for _, b := range sg {
			lo, hi := ts(b[0]), ts(b[0])
			var rs []string
			for _, ei := range b {
				if t := ts(ei); t < lo {
					lo = t
				} else if t > hi {
					hi = t
				}
				if q.P.match(st.Events[ei]) {
					rs = append(rs, fmt.Sprintf("(%d, %d)", ts(ei), st.Events[ei].Id))
				}
			}
			bl = append(bl, fmt.Sprintf("(%d, %d, %s)", lo, hi, vhlib.CoqList(rs)))
		}
		segs = append(segs, vhlib.CoqList(bl))
	}
	ids := make([]string, len(got.Order))
	for i, x := range got.Order {
		if x < 0 {
			x = 1 << 40 // a hit without id: never equal to a model id
		}
		ids[i] = strconv.Itoa(x)
	}
	c.fetch = append(c.fetch, fmt.Sprintf("(%d%%nat, %s, %s)", out.GoMaxProcs, vhlib.CoqList(segs), vhlib.CoqList(ids)))
	c.sum.Count("e2e/fetch_order_vs_scheduler_model")
}

// is the segment (index into allSegments) still open when the queries run
func segOpen(l LayoutCfg, n int, si int) bool {
	segs := allSegments(l, n)
	if l.Rotate <= 0 {
		return !l.Final
	}
	return !(len(segs[si]) == l.Rotate || l.Final)
}

// an equality on the wildcard column lost events: is every lost event in a block (of this layout) that holds the
// value - as a whole value or as a word of a value, i.e. among the bloom tokens - in two or more columns?
func allcolClass(st Stream, l LayoutCfg, q Query, got, want Obs) (string, string) {
	if q.AnyEq == "" || got.Err != "" || got.Stats {
		return "", ""
	}
	// events are lost: ids missing (none invented), or all ids there but the _search handler counts fewer
	idsLost := missingOnly(got, want)
	countLost := !idsLost && !got.Dup && fmt.Sprint(got.Ids) == fmt.Sprint(want.Ids) && got.Total != nil && *got.Total < len(want.Ids)
	if !idsLost && !countLost {
		return "", ""
	}
	have := map[int]bool{}
	for _, x := range got.Ids {
		have[x] = true
	}
	note := ""
	all := true
	for si, sg := range allSegments(l, len(st.Events)) {
		for _, b := range sg {
			lost := false
			cols := map[string]bool{}
			for _, ei := range b {
				e := st.Events[ei]
				if q.P.match(e) && (countLost || !have[e.Id]) {
					lost = true
				}
				for k, v := range e.Fields {
					if v.Kind == "s" && (v.S == q.AnyEq || containsWords(v.S, q.AnyEq)) {
						cols[k] = true
					}
				}
			}
			if !lost {
				continue
			}
			if len(cols) < 2 {
				all = false
				continue
			}
			if note == "" {
				var cs []string
				for k := range cols {
					cs = append(cs, k)
				}
				sort.Strings(cs)
				state := "rotated"
				if segOpen(l, len(st.Events), si) {
					state = "open"
				}
				what := "events of it are lost"
				if countLost {
					what = "the _search handler counts fewer events than match"
				}
				note = fmt.Sprintf("block %v of a segment that is %s holds %q in columns %v (in different records or as a word of a longer value), and %s", b, state, q.AnyEq, cs, what)
			}
		}
	}
	if all {
		return "allcolumn_equality_loses_match_in_other_column", note
	}
	if note == "" {
		note = "a block that loses events holds the value in ONE column only (a candidate list holding only a column whose filter answers yes without holding the value gives this)"
	}
	return "allcolumn_equality_loses_match", note
}

// Coq case of TextPlan.v: the layout's segments (open / rotated) and blocks with the string cells of every record and
// the numeric columns, and per value the ids the real system returned for  * = value
func (c *evalCtx) allcolCase(st Stream, l LayoutCfg, q Query, got Obs) {
	ids := make([]string, len(got.Ids))
	for i, x := range got.Ids {
		if x < 0 {
			x = 1 << 40
		}
		ids[i] = fmt.Sprintf("%d%%nat", x)
	}
	idl := "(@nil nat)"
	if len(ids) > 0 {
		idl = vhlib.CoqList(ids)
	}
	pair := fmt.Sprintf("(%s, %s)", cbytes(q.AnyEq), idl)
	c.sum.Count("e2e/allcol_equality_vs_candidate_column_model")
	key := st.Name + "/" + l.Name
	if c.acolL == nil {
		c.acolL = map[string]int{}
	}
	if i, ok := c.acolL[key]; ok {
		c.acol[i] = strings.TrimSuffix(c.acol[i], "])") + "; " + pair + "])"
		c.acolN[i]++
		return
	}
	var segs []string
	for si, sg := range allSegments(l, len(st.Events)) {
		var bl []string
		for _, b := range sg {
			var rs []string
			nums := map[string]bool{"id": true}
			for _, ei := range b {
				e := st.Events[ei]
				var cells []string
				for _, k := range e.Order {
					if v := e.Fields[k]; v.Kind == "s" {
						cells = append(cells, fmt.Sprintf("(%s, %s)", cbytes(k), cbytes(v.S)))
					} else {
						nums[k] = true
					}
				}
				cl := "(@nil (list N * list N))"
				if len(cells) > 0 {
					cl = vhlib.CoqList(cells)
				}
				rs = append(rs, fmt.Sprintf("(%d%%nat, %s)", e.Id, cl))
			}
			var ns []string
			for k := range nums {
				ns = append(ns, k)
			}
			sort.Strings(ns)
			for i := range ns {
				ns[i] = cbytes(ns[i])
			}
			bl = append(bl, fmt.Sprintf("(mkTB %s %s)", vhlib.CoqList(rs), vhlib.CoqList(ns)))
		}
		segs = append(segs, fmt.Sprintf("(%s, %s)", cb(segOpen(l, len(st.Events), si)), vhlib.CoqList(bl)))
	}
	c.acolL[key] = len(c.acol)
	c.acol = append(c.acol, fmt.Sprintf("(%s, false, [%s])", vhlib.CoqList(segs), pair))
	c.acolN = append(c.acolN, 1)
}

// ---------- generators ----------
func iv(i int64) Val   { return Val{Kind: "i", I: i} }
func fv(f float64) Val { return Val{Kind: "f", F: f} }
func sv(s string) Val  { return Val{Kind: "s", S: s} }

var wordPool = []string{"alpha", "beta", "Alpha", "gamma", "delta", "GAMMA", "omega"}
var msgPool = []string{"say Hello World now", "plain text here", "hello there", "Other Thing", "final WORD alpha", "x y z", "Mixed CASE Words", "tail", "Quick brown fox", "lazy dog sleeps"}
var grpPool = []string{"a", "b", "c"}

func cmpQ(col string, op int, lit string) Query {
	sym := []string{"=", "!=", "<", "<=", ">", ">="}[op]
	f, _ := strconv.ParseFloat(lit, 64)
	return Query{Text: col + sym + lit, P: pCmp{col, op, f}, Kind: "range", RCol: col, ROp: op, RLit: lit}
}

func standardLayouts(rng *vhlib.Rng, n int) []LayoutCfg {
	k1 := rng.Range(2, 4)
	k2 := rng.Range(1, 3)
	perm := make([]int, n)
	for i := range perm {
		perm[i] = i
	}
	for i := n - 1; i > 0; i-- {
		j := rng.Intn(i + 1)
		perm[i], perm[j] = perm[j], perm[i]
	}
	return []LayoutCfg{
		{Name: "one_rot", Every: 0, Final: true, Aggs: true},
		{Name: fmt.Sprintf("e%d_rot", k1), Every: k1, Final: true, Aggs: true},
		{Name: fmt.Sprintf("e%d_open", k1), Every: k1, Final: false, Aggs: true},
		{Name: fmt.Sprintf("e%d_segs", k2), Every: k2, Rotate: 2, Final: false, Aggs: true},
		{Name: fmt.Sprintf("e%d_raw", k1), Every: k1, Final: true, Aggs: true, Card: 1},
		{Name: fmt.Sprintf("e%d_pqs", k1), Every: k1, Final: true, Aggs: true, PQS: true},
		{Name: fmt.Sprintf("e%d_noaggs", k1), Every: k1, Final: true, Aggs: false},
		{Name: fmt.Sprintf("e%d_p1", k1), Every: k1, Final: true, Aggs: true, Procs: 1},
		{Name: fmt.Sprintf("e%d_p16_perm", k1), Every: k1, Rotate: 3, Final: true, Aggs: true, Procs: 16, Perm: perm},
		{Name: "e1_open_raw", Every: 1, Final: false, Aggs: true, Card: 2},
	}
}

// main stream: dense columns (every event has every field), one type per column, floats with a
// fractional part, no decimal literal against the int column, no free-text NOT, no sub-phrases
func mainStream(rng *vhlib.Rng, idx int, thorough bool) Stream {
	n := rng.Range(7, 12)
	if thorough {
		n = rng.Range(8, 30)
	}
	evs := make([]Event, n)
	nvals := []int64{5, -3, 12, 0, 7, -8, 100, 5, 12, 41}
	for i := range evs {
		e := Event{Id: i}
		e.set("n", iv(vhlib.Pick(rng, nvals)))
		e.set("f", fv(float64(rng.Range(-40, 400))/4+0.125))
		e.set("w", sv(vhlib.Pick(rng, wordPool)))
		e.set("u", sv(fmt.Sprintf("needle%d", i)))
		e.set("msg", sv(vhlib.Pick(rng, msgPool)))
		e.set("g", sv(vhlib.Pick(rng, grpPool)))
		evs[i] = e
	}
	var qs []Query
	// range comparisons at the boundaries of the values present
	bset := map[int64]bool{}
	for _, e := range evs {
		bset[e.Fields["n"].I] = true
	}
	var bounds []int64
	for b := range bset {
		bounds = append(bounds, b)
	}
	sort.Slice(bounds, func(i, j int) bool { return bounds[i] < bounds[j] })
	picks := []int64{bounds[0], bounds[len(bounds)-1], bounds[0] - 1, bounds[len(bounds)-1] + 1, vhlib.Pick(rng, bounds), vhlib.Pick(rng, bounds) + 1}
	for _, b := range picks {
		for _, op := range []int{0, 1, 2, 3, 4, 5} {
			if rng.Chance(55) {
				qs = append(qs, cmpQ("n", op, strconv.FormatInt(b, 10)))
			}
		}
	}
	fe := evs[rng.Intn(n)].Fields["f"].F
	for _, op := range []int{0, 1, 2, 3, 4, 5} {
		qs = append(qs, cmpQ("f", op, strconv.FormatFloat(fe, 'f', -1, 64)))
	}
	qs = append(qs, cmpQ("f", 4, "3"), cmpQ("f", 2, "-2"), cmpQ("f", 5, strconv.FormatFloat(fe+0.5, 'f', -1, 64)))
	// needles that exist in exactly one block, words, case variants
	k := rng.Intn(n)
	qs = append(qs,
		Query{Text: fmt.Sprintf("u=needle%d", k), P: pStrEq{"u", fmt.Sprintf("needle%d", k), false}, Kind: "text"},
		Query{Text: fmt.Sprintf("needle%d", k), P: pWord{fmt.Sprintf("needle%d", k)}, Kind: "text"},
		Query{Text: fmt.Sprintf("NEEDLE%d", (k+1)%n), P: pWord{fmt.Sprintf("needle%d", (k+1)%n)}, Kind: "text"},
		Query{Text: "u=needle999", P: pStrEq{"u", "needle999", false}, Kind: "text"},
		Query{Text: "w=alpha", P: pStrEq{"w", "alpha", false}, Kind: "text"},
		Query{Text: "w=GAMMA", P: pStrEq{"w", "gamma", false}, Kind: "text"},
		Query{Text: "w!=alpha", P: pStrEq{"w", "alpha", true}, Kind: "bool"},
		Query{Text: "gamma", P: pWord{"gamma"}, Kind: "text"},
		Query{Text: "hello", P: pWord{"hello"}, Kind: "text"},
		Query{Text: "Words", P: pWord{"words"}, Kind: "text"},
		Query{Text: "hello world", P: pAnd{pWord{"hello"}, pWord{"world"}}, Kind: "text"},
		Query{Text: "\"plain text here\"", P: pWord{"plain text here"}, Kind: "text"},
		Query{Text: "NOT w=alpha", P: pNot{pStrEq{"w", "alpha", false}}, Kind: "bool"},
		Query{Text: "NOT n>5", P: pNot{pCmp{"n", 4, 5}}, Kind: "bool"},
		Query{Text: "NOT n=5", P: pNot{pCmp{"n", 0, 5}}, Kind: "bool"},
		Query{Text: "w=alpha n>0", P: pAnd{pStrEq{"w", "alpha", false}, pCmp{"n", 4, 0}}, Kind: "bool"},
		Query{Text: "w=alpha OR n>7", P: pOr{pStrEq{"w", "alpha", false}, pCmp{"n", 4, 7}}, Kind: "bool"},
		Query{Text: "w=beta OR u=needle1", P: pOr{pStrEq{"w", "beta", false}, pStrEq{"u", "needle1", false}}, Kind: "bool"},
		Query{Text: "w=alpha NOT n=5", P: pAnd{pStrEq{"w", "alpha", false}, pNot{pCmp{"n", 0, 5}}}, Kind: "bool"},
		Query{Text: "n>0 n<12", P: pAnd{pCmp{"n", 4, 0}, pCmp{"n", 2, 12}}, Kind: "bool"},
		Query{Text: "n<0 OR n>7", P: pOr{pCmp{"n", 2, 0}, pCmp{"n", 4, 7}}, Kind: "bool"},
		Query{Text: "u=needle1*", P: pGlob{"u", "needle1*"}, Kind: "wild"},
		Query{Text: "w=*a", P: pGlob{"w", "*a"}, Kind: "wild"},
		Query{Text: "msg=*orl*", P: pGlob{"msg", "*orl*"}, Kind: "wild"},
		Query{Text: "need*", P: pGlob{"", "need*"}, Kind: "wild"},
		Query{Text: "NOT w=gam*", P: pNot{pGlob{"w", "gam*"}}, Kind: "wild"},
		Query{Text: "*", P: pAll{}, Kind: "all"},
		Query{Text: "* | stats count", P: pAll{}, Kind: "stats", Stats: []string{"count"}},
		Query{Text: "* | stats count, sum(n), min(n), max(n), avg(n) by g", P: pAll{}, Kind: "stats", Stats: []string{"count", "sum(n)", "min(n)", "max(n)", "avg(n)"}, By: "g"},
		Query{Text: "* | stats count by w", P: pAll{}, Kind: "stats", Stats: []string{"count"}, By: "w"},
		Query{Text: "w=alpha | stats count, sum(n)", P: pStrEq{"w", "alpha", false}, Kind: "stats", Stats: []string{"count", "sum(n)"}},
		Query{Text: "n>0 | stats count, max(n) by g", P: pCmp{"n", 4, 0}, Kind: "stats", Stats: []string{"count", "max(n)"}, By: "g"},
		Query{Text: "* | stats sum(f), min(f), max(f), avg(f) by g", P: pAll{}, Kind: "stats", Stats: []string{"sum(f)", "min(f)", "max(f)", "avg(f)"}, By: "g", FloatMeasure: true},
		Query{Text: "* | stats sum(f), min(f), max(f)", P: pAll{}, Kind: "stats", Stats: []string{"sum(f)", "min(f)", "max(f)"}},
		Query{Text: "* | stats dc(w) by g", P: pAll{}, Kind: "stats", Stats: []string{"dc(w)"}, By: "g", Dc: true},
	)
	return Stream{Name: fmt.Sprintf("m%d", idx), Events: evs, Layouts: standardLayouts(rng, n), Queries: qs,
		ClassOf: func(l LayoutCfg, q Query) string {
			// known: group-by statistics served from the agile tree (built when the aggregation was asked before ingest)
			if l.PQS && q.FloatMeasure {
				return "agiletree_float_measure_zero"
			}
			if l.PQS && q.Dc {
				return "agiletree_dc_by_group_wrong"
			}
			return ""
		}}
}

func mkEvents(fs ...map[string]Val) []Event {
	evs := make([]Event, len(fs))
	for i, f := range fs {
		e := Event{Id: i}
		keys := make([]string, 0, len(f))
		for k := range f {
			keys = append(keys, k)
		}
		sort.Strings(keys)
		for _, k := range keys {
			e.set(k, f[k])
		}
		evs[i] = e
	}
	return evs
}

type F = map[string]Val

func simpleLayouts() []LayoutCfg {
	return []LayoutCfg{
		{Name: "one_rot", Every: 0, Final: true, Aggs: true},
		{Name: "one_open", Every: 0, Final: false, Aggs: true},
		{Name: "one_raw", Every: 0, Final: true, Aggs: true, Card: 1},
		{Name: "e1_rot", Every: 1, Final: true, Aggs: true},
		{Name: "e1_open", Every: 1, Final: false, Aggs: true},
		{Name: "e1_raw", Every: 1, Final: true, Aggs: true, Card: 1},
		{Name: "e1_open_raw", Every: 1, Final: false, Aggs: true, Card: 1},
		{Name: "e2_rot", Every: 2, Final: true, Aggs: true},
		{Name: "e2_pqs", Every: 2, Final: true, Aggs: true, PQS: true},
	}
}

// known classes, each in its own stream with its minimal inputs (plus a random variation)
func knownStreams(rng *vhlib.Rng) []Stream {
	var out []Stream
	// (a) decimal literal against integer-typed range index
	out = append(out, Stream{Name: "ka", Known: "decimal_literal_prunes_int_block",
		Events:  mkEvents(F{"n": iv(2), "f": fv(2.5)}, F{"n": iv(3), "f": iv(8)}, F{"n": iv(-2), "f": fv(0.5)}, F{"n": iv(int64(rng.Range(4, 9))), "f": iv(3)}),
		Layouts: simpleLayouts(),
		Queries: []Query{cmpQ("n", 2, "2.5"), cmpQ("n", 4, "-2.5"), cmpQ("n", 0, "3.0"), cmpQ("n", 5, "2.5"), cmpQ("f", 4, "2.5"), cmpQ("f", 0, "8.0"), cmpQ("f", 3, "7.5")}})
	// (b) != / NOT = with records that do not have the field
	out = append(out, Stream{Name: "kb", Known: "neq_minmax_prunes_absent_field",
		Events:  mkEvents(F{"n": iv(5)}, F{"m": iv(1)}, F{"n": iv(5)}, F{"n": iv(6), "m": iv(1)}, F{"k": iv(int64(rng.Range(1, 9)))}),
		Layouts: append(simpleLayouts(), LayoutCfg{Name: "e3_rot", Every: 3, Final: true, Aggs: true}),
		Queries: []Query{cmpQ("n", 1, "5"), {Text: "NOT n=5", P: pNot{pCmp{"n", 0, 5}}, Kind: "bool"}, cmpQ("m", 1, "1"),
			{Text: "NOT m=1", P: pNot{pCmp{"m", 0, 1}}, Kind: "bool"}}})
	// (c)/(i) negated free text: dictionary path ignores NOT; open segments prune with the bloom
	out = append(out, Stream{Name: "kc", Known: "negated_freetext_dict_inverted",
		Events:  mkEvents(F{"w": sv("alpha")}, F{"w": sv("beta")}, F{"w": sv("gamma")}),
		Layouts: simpleLayouts(),
		Queries: []Query{{Text: "NOT alpha", P: pNot{pWord{"alpha"}}, Kind: "bool"}, {Text: "*!=beta", P: pNot{pWord{"beta"}}, Kind: "bool"}},
		ClassOf: func(l LayoutCfg, q Query) string {
			if l.Card > 0 && !l.Final {
				return "open_negated_freetext_bloom_pruned"
			}
			return ""
		}})
	// (d) quoted phrase that is part of a longer value
	out = append(out, Stream{Name: "kd", Known: "phrase_subvalue_bloom_pruned",
		Events:  mkEvents(F{"msg": sv("plain text here")}, F{"msg": sv("say Hello World now")}, F{"msg": sv("other words")}),
		Layouts: simpleLayouts(),
		Queries: []Query{{Text: "\"plain text\"", P: pWord{"plain text"}, Kind: "text"}, {Text: "\"hello world\"", P: pWord{"hello world"}, Kind: "text"}, {Text: "\"text here\"", P: pWord{"text here"}, Kind: "text"}}})
	// (e) a column that some blocks of a segment do not have
	out = append(out, Stream{Name: "ke", Known: "sparse_column_block_without_column",
		Events:  mkEvents(F{"s": sv("x"), "o": iv(4), "k": sv("p")}, F{"t": iv(1), "k": sv("q")}, F{"s": sv("y"), "k": sv("p")}, F{"t": iv(2), "k": sv("q")}),
		Layouts: simpleLayouts(),
		Queries: []Query{{Text: "s=x", P: pStrEq{"s", "x", false}, Kind: "text"}, {Text: "s=*", P: pExists{"s"}, Kind: "wild"}, {Text: "o=*", P: pExists{"o"}, Kind: "wild"},
			{Text: "* | stats sum(o) by k", P: pAll{}, Kind: "stats", Stats: []string{"sum(o)"}, By: "k"},
			{Text: "o=4*", P: pGlobNum{"o", "4*"}, Kind: "wild"}, {Text: "t=*", P: pExists{"t"}, Kind: "wild"}}})
	// (h) a column with numbers and non-numeric strings: converted per block
	out = append(out, Stream{Name: "kh", Known: "mixed_type_column_converted_per_block",
		Events:  mkEvents(F{"n": iv(5)}, F{"n": sv("abc")}, F{"n": iv(7)}),
		Layouts: simpleLayouts(),
		Queries: []Query{cmpQ("n", 0, "5"), cmpQ("n", 4, "4"), {Text: "n=abc", P: pStrEq{"n", "abc", false}, Kind: "text"}}})
	return out
}

// persistent-query family: SPARSE events (an event lacks a queried column right after an event whose value
// matched, in the same block and across blocks), one- and two-column queries registered as persistent before
// ingest (worker: the index exists, the battery is asked, then the data arrives), PQS layouts open / rotated /
// several segments / raw columns, against the same queries on layouts where nothing was registered, and the oracle
func pqsStream(rng *vhlib.Rng, idx int, thorough bool) Stream {
	svcs := []string{"checkout", "cart", "pay", "Checkout"}
	stats := []int64{500, 200, 404, 503, 500}
	var fs []F
	// the demo prefix, then random sparse events
	fs = append(fs, F{"svc": sv("checkout"), "status": iv(500), "lat": fv(2.5)}, F{"svc": sv("checkout")}, F{"svc": sv("cart"), "status": iv(500)})
	n := rng.Range(8, 12)
	if thorough {
		n = rng.Range(10, 28)
	}
	// every block of every multi-block layout of this stream (k events per flush) starts with an event that has
	// all three queried columns: a block that lacks a column altogether belongs to the known class
	// sparse_column_block_without_column (stale values, not deterministic) and is kept out of this stream
	k := rng.Range(3, 4)
	for len(fs) < n {
		if len(fs)%k == 0 {
			fs = append(fs, F{"svc": sv(vhlib.Pick(rng, svcs)), "status": iv(vhlib.Pick(rng, stats)), "lat": fv(float64(rng.Range(1, 40))/4 + 0.125)})
			continue
		}
		f := F{}
		if rng.Chance(85) {
			f["svc"] = sv(vhlib.Pick(rng, svcs))
		}
		if rng.Chance(50) {
			f["status"] = iv(vhlib.Pick(rng, stats))
		}
		if rng.Chance(45) {
			f["lat"] = fv(float64(rng.Range(1, 40))/4 + 0.125)
		}
		if len(f) == 0 || rng.Chance(15) {
			f["other"] = iv(int64(rng.Range(1, 9)))
		}
		fs = append(fs, f)
	}
	evs := mkEvents(fs...)
	and := func(a, b Query) Query {
		return Query{Text: a.Text + " " + b.Text, P: pAnd{a.P, b.P}, Kind: "bool", Cols: append(append([]string{}, a.Cols...), b.Cols...)}
	}
	or := func(a, b Query) Query {
		return Query{Text: a.Text + " OR " + b.Text, P: pOr{a.P, b.P}, Kind: "bool", Cols: append(append([]string{}, a.Cols...), b.Cols...)}
	}
	c1 := func(col string, op int, lit string) Query {
		q := cmpQ(col, op, lit)
		q.Cols = []string{col}
		return q
	}
	svcEq := Query{Text: "svc=checkout", P: pStrEq{"svc", "checkout", false}, Kind: "text", Cols: []string{"svc"}}
	svcCart := Query{Text: "svc=cart", P: pStrEq{"svc", "cart", false}, Kind: "text", Cols: []string{"svc"}}
	svcGlob := Query{Text: "svc=check*", P: pGlob{"svc", "check*"}, Kind: "wild", Cols: []string{"svc"}}
	qs := []Query{
		c1("status", 0, "500"), c1("status", 5, "500"), c1("status", 2, "500"), c1("status", 4, "200"), c1("lat", 4, "2.5"), c1("lat", 3, "2.625"),
		svcEq, svcGlob,
		and(svcEq, c1("status", 0, "500")), and(svcEq, c1("status", 5, "500")), and(svcEq, c1("status", 2, "500")),
		and(svcGlob, c1("status", 0, "500")), and(svcCart, c1("status", 5, "404")),
		and(svcEq, c1("lat", 4, "2.5")), and(c1("status", 5, "500"), c1("lat", 2, "5.125")),
		or(svcCart, c1("status", 0, "500")), or(c1("status", 0, "404"), c1("lat", 4, "6.125")),
	}
	layouts := []LayoutCfg{
		{Name: "raw_one_rot", Every: 0, Final: true, Aggs: true},
		{Name: "raw_one_open", Every: 0, Final: false, Aggs: true},
		{Name: fmt.Sprintf("raw_e%d_rot", k), Every: k, Final: true, Aggs: true},
		{Name: "pqs_one_rot", Every: 0, Final: true, Aggs: true, PQS: true},
		{Name: "pqs_one_open", Every: 0, Final: false, Aggs: true, PQS: true},
		{Name: fmt.Sprintf("pqs_e%d_rot", k), Every: k, Final: true, Aggs: true, PQS: true, Windows: true},
		{Name: fmt.Sprintf("pqs_e%d_open", k), Every: k, Final: false, Aggs: true, PQS: true},
		{Name: fmt.Sprintf("pqs_e%d_segs", k), Every: k, Rotate: 2, Final: false, Aggs: true, PQS: true},
		{Name: fmt.Sprintf("pqs_e%d_raw", k), Every: k, Final: true, Aggs: true, PQS: true, Card: 1},
	}
	for i := range layouts {
		layouts[i].Trace = true
	}
	return Stream{Name: fmt.Sprintf("pq%d", idx), Events: evs, Layouts: layouts, Queries: qs, RequirePqs: true}
}

// col=50* on a numeric column: glob on the decimal text of the number
type pGlobNum struct{ Col, Pat string }

func (p pGlobNum) match(e Event) bool {
	v, ok := e.Fields[p.Col]
	if !ok {
		return false
	}
	t := v.S
	switch v.Kind {
	case "i":
		t = strconv.FormatInt(v.I, 10)
	case "f":
		t = strconv.FormatFloat(v.F, 'f', -1, 64)
	}
	return globMatch(strings.ToLower(p.Pat), strings.ToLower(t))
}

// persistent queries whose matching events sit in the EARLY blocks of a segment while the last flushed block(s) hold
// none (and the mirrored order), registered before ingest, rotated; the listener's tick that writes the empty-results
// lists is driven directly (hook) on a first-boot node, and once on a node whose segmeta file already exists with the
// real 10 s ticker; record queries and group-by statistics, against the unregistered layouts and the oracle
func pqsLastBlockStream(rng *vhlib.Rng, idx int, thorough bool, realTicker bool) Stream {
	k := rng.Range(2, 3)
	nb := rng.Range(3, 5)
	if thorough {
		nb = rng.Range(3, 8)
	}
	n := k * nb
	early := rng.Range(1, nb-1) // blocks 0..early-1 may hold the early words; the blocks after them never do
	evs := make([]Event, n)
	for i := range evs {
		e := Event{Id: i}
		b := i / k
		w := vhlib.Pick(rng, []string{"beta", "gamma"})
		switch {
		case b < early && (i%k == 0 || rng.Chance(50)):
			w = "alpha"
		case b == nb-1 && (i%k == 0 || rng.Chance(40)):
			w = "omega"
		}
		e.set("w", sv(w))
		e.set("n", iv(int64(i)))
		e.set("g", sv(vhlib.Pick(rng, grpPool)))
		evs[i] = e
	}
	var qs []Query
	addQ := func(text string, p Pred, cols []string) {
		qs = append(qs, Query{Text: text, P: p, Kind: "text", Cols: cols},
			Query{Text: text + " | stats count, sum(n) by g", P: p, Kind: "stats", Stats: []string{"count", "sum(n)"}, By: "g"})
	}
	kk := int64(early * k)
	addQ("w=alpha", pStrEq{"w", "alpha", false}, []string{"w"})
	addQ("w=omega", pStrEq{"w", "omega", false}, []string{"w"})
	addQ("w=beta", pStrEq{"w", "beta", false}, []string{"w"})
	addQ("w=zeta", pStrEq{"w", "zeta", false}, []string{"w"})
	addQ("n<"+strconv.FormatInt(kk, 10), pCmp{"n", 2, float64(kk)}, []string{"n"})
	addQ("n>="+strconv.Itoa(n-k), pCmp{"n", 5, float64(n - k)}, []string{"n"})
	addQ("w=alpha n<"+strconv.FormatInt(kk-1, 10), pAnd{pStrEq{"w", "alpha", false}, pCmp{"n", 2, float64(kk - 1)}}, []string{"w", "n"})
	// mirrored order: the blocks are ingested last-to-first, the early words end up in the last flushed blocks
	mirror := make([]int, 0, n)
	for b := nb - 1; b >= 0; b-- {
		for j := 0; j < k; j++ {
			mirror = append(mirror, b*k+j)
		}
	}
	layouts := []LayoutCfg{
		{Name: fmt.Sprintf("raw_e%d_rot", k), Every: k, Final: true, Aggs: true},
		{Name: "raw_one_rot", Every: 0, Final: true, Aggs: true},
		{Name: fmt.Sprintf("pqs_e%d_rot_tick", k), Every: k, Final: true, Aggs: true, PQS: true, DrainPqs: true},
		{Name: fmt.Sprintf("pqs_e%d_rot_tick_mirror", k), Every: k, Final: true, Aggs: true, PQS: true, DrainPqs: true, Perm: mirror},
		{Name: fmt.Sprintf("pqs_e%d_segs_tick", k), Every: k, Rotate: 2, Final: true, Aggs: true, PQS: true, DrainPqs: true},
		{Name: "pqs_one_rot_tick", Every: 0, Final: true, Aggs: true, PQS: true, DrainPqs: true},
		{Name: fmt.Sprintf("pqs_e%d_open", k), Every: k, Final: false, Aggs: true, PQS: true},
	}
	if realTicker {
		layouts = append(layouts, LayoutCfg{Name: fmt.Sprintf("pqs_e%d_rot_restarted_10s", k), Every: k, Final: true, Aggs: true, PQS: true, Restarted: true, SettleMs: 11000})
	}
	for i := range layouts {
		layouts[i].Trace = layouts[i].PQS
	}
	return Stream{Name: fmt.Sprintf("pl%d", idx), Events: evs, Layouts: layouts, Queries: qs}
}

func nv(i int64, text string) Val { return Val{Kind: "n", I: i, S: text} }

// numeric strings mixed with JSON numbers in one column: at the block flush consolidateColumnTypes turns the strings
// into numbers and must add them to the block's range index.  Every block (k events per flush) starts with a native
// number, so that the conversion happens in every layout of the stream (a block holding only the string keeps a string
// column: known class mixed_type_column_converted_per_block / C01); in many blocks the string holds the block's
// maximum or minimum, and the literals lie beyond the native numbers.
func numStrStream(rng *vhlib.Rng, idx int, thorough bool) Stream {
	k := rng.Range(3, 4)
	n := rng.Range(9, 13)
	if thorough {
		n = rng.Range(12, 30)
	}
	native := []int64{1, 2, 3, 4, 5, 6, 2, 3}
	type ns struct {
		v int64
		t string
	}
	strs := []ns{{50, "50"}, {-7, "-7"}, {7, "007"}, {9, "9"}, {50, "50"}, {100, "100"}, {-20, "-20"}, {0, "0"}, {3, "3"}}
	evs := make([]Event, n)
	lits := map[int64]bool{}
	for i := range evs {
		e := Event{Id: i}
		if i%k == 0 || rng.Chance(45) {
			v := vhlib.Pick(rng, native)
			e.set("val", iv(v))
			e.set("num", iv(v))
		} else {
			x := vhlib.Pick(rng, strs)
			e.set("val", nv(x.v, x.t))
			e.set("num", iv(x.v))
			lits[x.v] = true
		}
		e.set("g", sv(vhlib.Pick(rng, grpPool)))
		evs[i] = e
	}
	var qs []Query
	add := func(col string, op int, lit int64) {
		q := cmpQ(col, op, strconv.FormatInt(lit, 10))
		q.Cols = []string{col}
		qs = append(qs, q)
	}
	for _, l := range []int64{10, 6, 49, 50, 99, 100, 0, -7, -8, -21, 7, 2} {
		for _, op := range []int{0, 2, 3, 4, 5} {
			if lits[l] || op >= 2 && rng.Chance(50) {
				add("val", op, l)
			}
		}
	}
	add("val", 1, 50)
	add("num", 4, 10)
	add("num", 0, 50)
	// the record-level filter, which never consults a micro index
	for _, w := range []struct {
		t  string
		op int
		l  float64
	}{{"* | where val>10", 4, 10}, {"* | where val=50", 0, 50}, {"* | where val<0", 2, 0}, {"* | where val>=7", 5, 7}} {
		qs = append(qs, Query{Text: w.t, P: pCmp{"val", w.op, w.l}, Kind: "where"})
	}
	qs = append(qs,
		Query{Text: "val>6 g=a", P: pAnd{pCmp{"val", 4, 6}, pStrEq{"g", "a", false}}, Kind: "bool"},
		Query{Text: "* | stats count, max(val), min(val), sum(val)", P: pAll{}, Kind: "stats", Stats: []string{"count", "max(val)", "min(val)", "sum(val)"}},
		Query{Text: "val>10 | stats count, sum(val) by g", P: pCmp{"val", 4, 10}, Kind: "stats", Stats: []string{"count", "sum(val)"}, By: "g"},
	)
	layouts := []LayoutCfg{
		{Name: "one_rot", Every: 0, Final: true, Aggs: true},
		{Name: "one_open", Every: 0, Final: false, Aggs: true, DumpRanges: "val"},
		{Name: fmt.Sprintf("e%d_rot", k), Every: k, Final: true, Aggs: true},
		{Name: fmt.Sprintf("e%d_open", k), Every: k, Final: false, Aggs: true, DumpRanges: "val"},
		{Name: fmt.Sprintf("e%d_segs", k), Every: k, Rotate: 2, Final: false, Aggs: true},
		{Name: fmt.Sprintf("e%d_raw", k), Every: k, Final: true, Aggs: true, Card: 1},
		{Name: fmt.Sprintf("e%d_noaggs", k), Every: k, Final: true, Aggs: false},
		{Name: fmt.Sprintf("e%d_p1", k), Every: k, Final: true, Aggs: true, Procs: 1},
		{Name: fmt.Sprintf("e%d_pqs_open", k), Every: k, Final: false, Aggs: true, PQS: true},
		{Name: fmt.Sprintf("e%d_pqs_rot", k), Every: k, Final: true, Aggs: true, PQS: true},
	}
	return Stream{Name: fmt.Sprintf("ns%d", idx), Events: evs, Layouts: layouts, Queries: qs,
		ClassOf: func(l LayoutCfg, q Query) string {
			// known: the ingest-time persistent-query match sees the string, before the block's column is converted to numbers
			if l.PQS {
				return "pqs_match_before_type_consolidation"
			}
			return ""
		}}
}

// block-scheduler family: the events' timestamps are NOT in arrival order, so the time ranges of the blocks overlap
// or are nested (a late event with the oldest timestamp lands in the newest block; the newest event arrives first;
// blocks arrive newest first; a random order), there are more blocks than GOMAXPROCS in some layouts and fewer in
// their twins, on rotated / open / several segments (whose time ranges then overlap too) and one PQS layout.
// Oracle: the events; classes by twin (same files, all blocks in one fetch) and by the in-order reference.
func blockTimeStream(rng *vhlib.Rng, idx int, thorough bool) Stream {
	k := rng.Range(2, 3)
	nb := rng.Range(6, 8)
	if thorough {
		nb = rng.Range(5, 14)
	}
	n := k * nb
	evs := make([]Event, n)
	for i := range evs {
		e := Event{Id: i}
		e.set("n", iv(int64(i)))
		e.set("w", sv(vhlib.Pick(rng, []string{"alpha", "beta", "gamma"})))
		e.set("g", sv(vhlib.Pick(rng, grpPool)))
		evs[i] = e
	}
	evs[0].set("w", sv("alpha")) // the late event matches the word queries
	ident := make([]int, n)
	for i := range ident {
		ident[i] = i
	}
	d := rng.Range(1, k-1) // number of late events: they share the newest block with k-d of the newest events
	late := append(append([]int{}, ident[d:]...), ident[:d]...)
	early := append([]int{n - 1}, ident[:n-1]...)
	var rev []int
	for b := nb - 1; b >= 0; b-- {
		rev = append(rev, ident[b*k:(b+1)*k]...)
	}
	shuf := append([]int{}, ident...)
	for i := n - 1; i > 0; i-- {
		j := rng.Intn(i + 1)
		shuf[i], shuf[j] = shuf[j], shuf[i]
	}
	// late events spread over the later blocks: the first block holds the k oldest of the recent events, every later
	// block k-1 recent events and one event of the era before them (nb-1 such events, oldest timestamps)
	var spread []int
	{
		old := ident[:nb-1]
		rest := ident[nb-1:]
		spread = append(spread, rest[:k]...)
		rest = rest[k:]
		for b := 1; b < nb; b++ {
			spread = append(spread, rest[:k-1]...)
			rest = rest[k-1:]
			spread = append(spread, old[b-1])
		}
	}
	const wide = 16
	var layouts []LayoutCfg
	wideOf := map[string]string{}
	add := func(tag string, perm []int, base LayoutCfg, procs ...int) {
		for _, p := range procs {
			l := base
			l.Name = fmt.Sprintf("%s_p%d", tag, p)
			l.Every, l.Aggs, l.Procs, l.KeepOrder = k, true, p, true
			l.Perm = perm
			wideOf[l.Name] = fmt.Sprintf("%s_p%d", tag, wide)
			layouts = append(layouts, l)
		}
	}
	add("ord_rot", nil, LayoutCfg{Final: true}, wide, 1)
	add("late_rot", late, LayoutCfg{Final: true}, wide, 1, 2, 3)
	add("late_open", late, LayoutCfg{Final: false}, wide, 2)
	add("late_segs", late, LayoutCfg{Rotate: 3, Final: false}, wide, 2)
	add("late_pqs", late, LayoutCfg{Final: true, PQS: true}, wide, 2)
	add("early_rot", early, LayoutCfg{Final: true}, wide, 1, 2)
	add("rev_rot", rev, LayoutCfg{Final: true}, wide, 2)
	add("rev_segs", rev, LayoutCfg{Rotate: 2, Final: true}, wide, 1)
	add("spread_rot", spread, LayoutCfg{Final: true}, wide, 2, 3)
	add("shuf_rot", shuf, LayoutCfg{Final: true}, wide, 1, 2)
	add("shuf_open", shuf, LayoutCfg{Final: false}, wide, 3)
	kNew := int64(n - k - 1) // the newest events only
	kOld := int64(k + 1)     // the oldest events only (the late ones among them)
	qs := []Query{
		{Text: "*", P: pAll{}, Kind: "all"},
		{Text: "w=alpha", P: pStrEq{"w", "alpha", false}, Kind: "text"},
		{Text: "alpha", P: pWord{"alpha"}, Kind: "text"},
		{Text: "NOT w=alpha", P: pNot{pStrEq{"w", "alpha", false}}, Kind: "bool"},
		cmpQ("n", 5, strconv.FormatInt(kNew, 10)),
		cmpQ("n", 2, strconv.FormatInt(kOld, 10)),
		{Text: "w=beta OR n<" + strconv.FormatInt(kOld, 10), P: pOr{pStrEq{"w", "beta", false}, pCmp{"n", 2, float64(kOld)}}, Kind: "bool"},
		{Text: "* | stats count", P: pAll{}, Kind: "stats", Stats: []string{"count"}},
		{Text: "* | stats count, sum(n) by g", P: pAll{}, Kind: "stats", Stats: []string{"count", "sum(n)"}, By: "g"},
		{Text: "n<" + strconv.FormatInt(kOld, 10) + " | stats count by w", P: pCmp{"n", 2, float64(kOld)}, Kind: "stats", Stats: []string{"count"}, By: "w"},
	}
	return Stream{Name: fmt.Sprintf("bt%d", idx), Events: evs, Layouts: layouts, Queries: qs,
		Batching: true, WideOf: wideOf, RefName: fmt.Sprintf("ord_rot_p%d", wide)}
}

// ES request body (the real front-end of an equality on the wildcard column with a string value); the time range is
// part of the body because the ES front-end otherwise searches its default range
const esRange = `{"range":{"timestamp":{"gte":1699999999000,"lte":1700100000000}}}`

func esBool(must []string, should []string) string {
	b := `"must":[` + strings.Join(append(append([]string{}, must...), esRange), ",") + `]`
	if len(should) > 0 {
		b += `,"should":[` + strings.Join(should, ",") + `]`
	}
	return `es:{"size":10000,"query":{"bool":{` + b + `}}}`
}
func esTerm(col, v string) string { return fmt.Sprintf(`{"term":{%q:%q}}`, col, v) }

// all-column equality family: ONE value sits in DIFFERENT columns of one block (in different records, in one record,
// as a word of a longer value of a third column), in one column only, in one block only, nowhere; asked as an equality
// on the wildcard column with a string value (ES term / query_string on `*`: the search is restricted to the columns
// the block-bloom check recorded), as a named-column term, as AND / OR of such terms and as SPL words; the same events
// open / rotated, one block / k per flush / several segments, dictionary / raw columns, PQS, GOMAXPROCS 1
func allColStream(rng *vhlib.Rng, idx int, thorough bool) Stream {
	k := rng.Range(2, 3)
	nb := rng.Range(3, 4)
	if thorough {
		nb = rng.Range(3, 8)
	}
	n := k * nb
	needles := []string{"alpha", "beta", "gamma"}
	msgs := []string{"say alpha now", "beta gamma", "plain text", "alpha", "Alpha beta", "x y z", "gamma"}
	evs := make([]Event, n)
	pick := func(i int, side string) Val {
		switch {
		case rng.Chance(40):
			return sv(vhlib.Pick(rng, needles))
		case rng.Chance(10):
			return sv("Alpha")
		case rng.Chance(10):
			return sv("alpha beta")
		}
		return sv(fmt.Sprintf("%s-%d", side, i))
	}
	for i := range evs {
		e := Event{Id: i}
		e.set("src", pick(i, "left"))
		e.set("dst", pick(i, "right"))
		e.set("msg", sv(vhlib.Pick(rng, msgs)))
		e.set("n", iv(int64(rng.Range(0, 9))))
		if i%k == 0 || rng.Chance(50) { // every block of every layout of this stream starts with an event that has the column
			e.set("opt", sv(vhlib.Pick(rng, []string{"alpha", "none", "other", "gamma"})))
		}
		evs[i] = e
	}
	// the core of the family, in the first block of every layout: the value in another column in each record, and as a
	// word of a longer value of a third column
	evs[0].set("src", sv("alpha"))
	evs[0].set("dst", sv("right-0"))
	evs[0].set("msg", sv("plain text"))
	evs[1].set("src", sv("left-1"))
	evs[1].set("dst", sv("alpha"))
	evs[1].set("msg", sv("say alpha now"))
	// a value that exists in the last block only, again in two columns of two records
	for i := range evs {
		for _, c := range []string{"src", "dst", "opt"} {
			if v, ok := evs[i].Fields[c]; ok && v.S == "omega" {
				evs[i].set(c, sv("none"))
			}
		}
	}
	evs[n-2].set("dst", sv("omega"))
	evs[n-1].set("src", sv("omega"))
	anyQ := func(v string) Query {
		return Query{Text: esBool([]string{esTerm("*", v)}, nil), P: pAnyEq{v}, Kind: "text", AnyEq: v}
	}
	var qs []Query
	for _, v := range []string{"alpha", "beta", "gamma", "omega", "Alpha", "alpha beta", "say alpha now", "plain text", "zeta", "left-1", "none"} {
		qs = append(qs, anyQ(v))
	}
	for _, v := range []string{"alpha", "omega", "gamma"} {
		qs = append(qs, Query{Text: esBool([]string{fmt.Sprintf(`{"query_string":{"query":"*:%s"}}`, v)}, nil), P: pAnyEq{v}, Kind: "text", AnyEq: v})
	}
	qs = append(qs,
		Query{Text: esBool([]string{esTerm("src", "alpha")}, nil), P: pStrEqCS{"src", "alpha"}, Kind: "text"},
		Query{Text: esBool([]string{esTerm("dst", "alpha")}, nil), P: pStrEqCS{"dst", "alpha"}, Kind: "text"},
		Query{Text: esBool([]string{esTerm("*", "alpha"), esTerm("*", "beta")}, nil), P: pAnd{pAnyEq{"alpha"}, pAnyEq{"beta"}}, Kind: "bool"},
		Query{Text: esBool([]string{esTerm("*", "alpha"), `{"term":{"n":5}}`}, nil), P: pAnd{pAnyEq{"alpha"}, pCmp{"n", 0, 5}}, Kind: "bool"},
		Query{Text: esBool([]string{esTerm("*", "gamma"), esTerm("src", "alpha")}, nil), P: pAnd{pAnyEq{"gamma"}, pStrEqCS{"src", "alpha"}}, Kind: "bool"},
		Query{Text: "alpha", P: pWord{"alpha"}, Kind: "text"},
		Query{Text: "omega", P: pWord{"omega"}, Kind: "text"},
		Query{Text: "*=gamma", P: pWord{"gamma"}, Kind: "text"},
		Query{Text: "alpha beta", P: pAnd{pWord{"alpha"}, pWord{"beta"}}, Kind: "text"},
		Query{Text: "src=alpha OR dst=alpha", P: pOr{pStrEq{"src", "alpha", false}, pStrEq{"dst", "alpha", false}}, Kind: "bool"},
		Query{Text: "src=omega OR dst=omega", P: pOr{pStrEq{"src", "omega", false}, pStrEq{"dst", "omega", false}}, Kind: "bool"},
		Query{Text: "alpha | stats count by src", P: pWord{"alpha"}, Kind: "stats", Stats: []string{"count"}, By: "src"},
	)
	layouts := []LayoutCfg{
		{Name: "one_rot", Every: 0, Final: true, Aggs: true},
		{Name: "one_open", Every: 0, Final: false, Aggs: true},
		{Name: "one_raw", Every: 0, Final: true, Aggs: true, Card: 1},
		{Name: fmt.Sprintf("e%d_rot", k), Every: k, Final: true, Aggs: true},
		{Name: fmt.Sprintf("e%d_open", k), Every: k, Final: false, Aggs: true},
		{Name: fmt.Sprintf("e%d_raw", k), Every: k, Final: true, Aggs: true, Card: 1},
		{Name: fmt.Sprintf("e%d_open_raw", k), Every: k, Final: false, Aggs: true, Card: 1},
		{Name: fmt.Sprintf("e%d_segs", k), Every: k, Rotate: 2, Final: false, Aggs: true},
		{Name: fmt.Sprintf("e%d_pqs", k), Every: k, Final: true, Aggs: true, PQS: true},
		{Name: fmt.Sprintf("e%d_p1", k), Every: k, Final: true, Aggs: true, Procs: 1},
	}
	return Stream{Name: fmt.Sprintf("ac%d", idx), Events: evs, Layouts: layouts, Queries: qs}
}

func runMeta(cfg vhlib.Config, sum *vhlib.Summary, rng *vhlib.Rng) {
	ctx := &evalCtx{sum: sum, cfg: cfg}
	nmain := 8
	if cfg.Thorough() {
		nmain = 60
	}
	var streams []Stream
	for i := 0; i < nmain; i++ {
		streams = append(streams, mainStream(rng.Fork(), i, cfg.Thorough()))
	}
	npq := 2
	if cfg.Thorough() {
		npq = 20
	}
	for i := 0; i < npq; i++ {
		streams = append(streams, pqsStream(rng.Fork(), i, cfg.Thorough()))
	}
	npl := 2
	if cfg.Thorough() {
		npl = 16
	}
	for i := 0; i < npl; i++ {
		streams = append(streams, pqsLastBlockStream(rng.Fork(), i, cfg.Thorough(), i == 0 || (cfg.Thorough() && i%4 == 0)))
	}
	nns := 2
	if cfg.Thorough() {
		nns = 20
	}
	for i := 0; i < nns; i++ {
		streams = append(streams, numStrStream(rng.Fork(), i, cfg.Thorough()))
	}
	nbt := 2
	if cfg.Thorough() {
		nbt = 16
	}
	known := knownStreams(rng.Fork())
	brng := rng.Fork() // forked after every earlier stream: their inputs stay what they were
	for i := 0; i < nbt; i++ {
		streams = append(streams, blockTimeStream(brng.Fork(), i, cfg.Thorough()))
	}
	nac := 2
	if cfg.Thorough() {
		nac = 16
	}
	arng := rng.Fork() // forked after every earlier stream: their inputs stay what they were
	for i := 0; i < nac; i++ {
		streams = append(streams, allColStream(arng.Fork(), i, cfg.Thorough()))
	}
	ntb := 2
	if cfg.Thorough() {
		ntb = 10
	}
	trng := rng.Fork() // forked after every earlier stream: their inputs stay what they were
	for i := 0; i < ntb; i++ {
		streams = append(streams, timeBoundedStream(trng.Fork(), i, cfg.Thorough()))
	}
	streams = append(streams, known...)
	// C03_ONLY=<family> (e.g. tb, bt, ac): run only the streams of that family (development aid, e.g. a thorough-tier
	// run of one stream family in a minute); the check itself never sets it
	if only := os.Getenv("C03_ONLY"); only != "" {
		var keep []Stream
		for _, st := range streams {
			if strings.TrimRight(st.Name, "0123456789") == only {
				keep = append(keep, st)
			}
		}
		streams = keep
	}
	// streams run one after the other, the layouts of a stream in parallel worker processes
	famT := map[string]float64{}
	for _, st := range streams {
		t0 := time.Now()
		res := runStream(cfg.Out, st, 10)
		ctx.evaluate(st, res)
		famT[strings.TrimRight(st.Name, "0123456789")] += time.Since(t0).Seconds()
		if len(sum.Samples) < 3 {
			var qs []string
			for _, q := range st.Queries {
				qs = append(qs, q.Text)
			}
			var ls []string
			for _, l := range st.Layouts {
				ls = append(ls, l.Name)
			}
			sum.Sample(map[string]interface{}{"stream": st.Name, "first_event": st.Events[0].doc(), "events": len(st.Events), "layouts": ls, "queries": qs})
		}
	}
	{
		var fs []string
		for f := range famT {
			fs = append(fs, f)
		}
		sort.Strings(fs)
		t := "metamorphic runs per stream family (s):"
		for _, f := range fs {
			t += fmt.Sprintf(" %s=%.1f", f, famT[f])
		}
		sum.Notes = append(sum.Notes, t)
	}
	shard(sum, cfg.Out, "cases_e2e", "check_e2e", ctx.e2e, 350)
	shard(sum, cfg.Out, "cases_window", "check_window", ctx.win, 60)
	shard(sum, cfg.Out, "cases_block_index", "check_block_index", ctx.bidx, 300)
	shard(sum, cfg.Out, "cases_pqs_flag", "check_pqs_flag", ctx.pflag, 400)
	for i, k := 0, 0; i < len(ctx.acol); i, k = i+40, k+1 {
		j := i + 40
		if j > len(ctx.acol) {
			j = len(ctx.acol)
		}
		npairs := 0
		for _, x := range ctx.acolN[i:j] {
			npairs += x
		}
		sum.WriteCaseFile(cfg.Out, fmt.Sprintf("cases_allcol_e2e_%02d", k), casesImports,
			"Definition cases := "+vhlib.CoqListNL(ctx.acol[i:j])+".\n", "check_allcol_e2e cases", npairs)
	}
	for i, k := 0, 0; i < len(ctx.tfetch); i, k = i+250, k+1 {
		j := i + 250
		if j > len(ctx.tfetch) {
			j = len(ctx.tfetch)
		}
		sum.WriteCaseFile(cfg.Out, fmt.Sprintf("cases_tfetch_%02d", k), "From SigM Require Import Base SortCmd Sched Fetch TimePrune.\n",
			"Definition cases : list tfetch_case := "+vhlib.CoqListNL(ctx.tfetch[i:j])+".\n", "check_tfetch cases", j-i)
	}
	for i, k := 0, 0; i < len(ctx.fetch); i, k = i+250, k+1 {
		j := i + 250
		if j > len(ctx.fetch) {
			j = len(ctx.fetch)
		}
		sum.WriteCaseFile(cfg.Out, fmt.Sprintf("cases_fetch_%02d", k), "From SigM Require Import Base SortCmd Sched Fetch.\n",
			"Definition cases : list fetch_case := "+vhlib.CoqListNL(ctx.fetch[i:j])+".\n", "check_fetch cases", j-i)
	}
}

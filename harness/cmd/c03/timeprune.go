// time range of the query as a pruning accelerator (model: coq/model/TimePrune.v).
//   - direct stream: the real metautils.FilterBlocksByTime and the real DoCMICheckForUnrotated on lists of block
//     summaries in ANY order (ascending, descending, late block last, nested, shuffled), block trackers, query ranges
//     whose ends sit on / next to every block bound;
//   - metamorphic stream `tb`: one event set, event time independent of ingest order (same events, same cut into
//     blocks, arrival in time order / reversed / back-filled / a late block / shuffled), rotated / open / several
//     segments / PQS, a battery of time-bounded queries whose ends fall between, on and inside the block ranges.
package main

import (
	"fmt"
	"math"
	"sort"
	"strconv"
	"strings"

	"github.com/siglens/siglens/pkg/common/dtypeutils"
	"github.com/siglens/siglens/pkg/segment/pqmr"
	"github.com/siglens/siglens/pkg/segment/query/metadata/metautils"
	"github.com/siglens/siglens/pkg/segment/structs"
	"github.com/siglens/siglens/pkg/segment/writer"

	"verifharness/vhlib"
)

func cn(x uint64) string { return strconv.FormatUint(x, 10) }

// ---------- direct stream: FilterBlocksByTime on summary lists in any order ----------
func timeFilterCases(cfg vhlib.Config, sum *vhlib.Summary, rng *vhlib.Rng) {
	ncases := 150
	if cfg.Thorough() {
		ncases = 3000
	}
	var items, itemsU []string
	for ci := 0; ci < ncases; ci++ {
		nb := rng.Range(1, 6)
		if ci%9 == 0 {
			nb = rng.Range(2, 3) // the smallest failing shapes are two-block lists
		}
		// block ranges in time order first
		sums := make([][2]uint64, nb)
		t := uint64(rng.Range(0, 40))
		for i := range sums {
			w := uint64(rng.Range(0, 25))
			if rng.Chance(15) {
				w = 0 // one event (or one timestamp) in the block
			}
			sums[i] = [2]uint64{t, t + w}
			switch rng.Intn(4) {
			case 0:
				t = t + w + 1 // adjacent
			case 1:
				t = t + w/2 // overlapping the previous one
			default:
				t = t + w + uint64(rng.Range(2, 30)) // a gap
			}
		}
		if rng.Chance(10) {
			sums[rng.Intn(nb)] = [2]uint64{0, math.MaxUint64} // a block holding an event of every era
		}
		if rng.Chance(8) {
			i := rng.Intn(nb)
			sums[i] = [2]uint64{math.MaxUint64 - uint64(rng.Range(0, 20)), math.MaxUint64}
		}
		// arrival order of the blocks
		order := "time"
		switch rng.Intn(6) {
		case 0:
		case 1:
			order = "reversed"
			for i, j := 0, nb-1; i < j; i, j = i+1, j-1 {
				sums[i], sums[j] = sums[j], sums[i]
			}
		case 2:
			order = "late_block_last" // the oldest block arrives last
			first := sums[0]
			copy(sums, sums[1:])
			sums[nb-1] = first
		case 3:
			order = "recent_block_first" // the newest block arrives first
			last := sums[nb-1]
			copy(sums[1:], sums[:nb-1])
			sums[0] = last
		default:
			order = "shuffled"
			for i := nb - 1; i > 0; i-- {
				j := rng.Intn(i + 1)
				sums[i], sums[j] = sums[j], sums[i]
			}
		}
		// query ranges: both ends on / next to the block bounds
		var pts []uint64
		for _, s := range sums {
			for _, b := range s {
				pts = append(pts, b)
				if b > 0 {
					pts = append(pts, b-1)
				}
				if b < math.MaxUint64 {
					pts = append(pts, b+1)
				}
			}
		}
		pts = append(pts, 0, math.MaxUint64)
		nr := 3
		for ri := 0; ri < nr; ri++ {
			a, b := vhlib.Pick(rng, pts), vhlib.Pick(rng, pts)
			inverted := rng.Chance(4)
			if (a > b) != inverted {
				a, b = b, a
			}
			// block tracker: the whole file, or every block but the ones a persistent query already answered
			var excl []int
			tracker := structs.InitEntireFileBlockTracker()
			trk := "None"
			if rng.Chance(25) {
				sp := pqmr.InitSegmentPQMResults()
				for i := 0; i < nb; i++ {
					if rng.Chance(35) {
						excl = append(excl, i)
						sp.SetBlockResults(uint16(i), pqmr.CreatePQMatchResults(4))
					}
				}
				tracker = structs.InitExclusionBlockTracker(sp)
				xs := make([]string, len(excl))
				for i, x := range excl {
					xs[i] = fmt.Sprintf("%d%%nat", x)
				}
				trk = "(Some (@nil nat))"
				if len(xs) > 0 {
					trk = "(Some " + vhlib.CoqList(xs) + ")"
				}
			}
			bsum := make([]*structs.BlockSummary, nb)
			var bcoq []string
			for i, s := range sums {
				bsum[i] = &structs.BlockSummary{LowTs: s[0], HighTs: s[1], RecCount: 1}
				bcoq = append(bcoq, fmt.Sprintf("(%s, %s)", cn(s[0]), cn(s[1])))
			}
			tr := &dtypeutils.TimeRange{StartEpochMs: a, EndEpochMs: b}
			obsRot := metautils.FilterBlocksByTime(bsum, tracker, tr)
			var keptRot []int
			for k := range obsRot {
				keptRot = append(keptRot, int(k))
			}
			sort.Ints(keptRot)
			var keptUn []int
			for _, k := range writer.VerifC03UnrotatedTime(sums, a, b, tracker) {
				keptUn = append(keptUn, int(k))
			}
			sort.Ints(keptUn)
			isEx := map[int]bool{}
			for _, x := range excl {
				isEx[x] = true
			}
			for _, side := range []struct {
				name string
				kept []int
				dst  *[]string
			}{{"FilterBlocksByTime", keptRot, &items}, {"DoCMICheckForUnrotated (open segment, query without micro-index work)", keptUn, &itemsU}} {
				has := map[int]bool{}
				ks := make([]string, len(side.kept))
				for i, k := range side.kept {
					has[k] = true
					ks[i] = fmt.Sprintf("%d%%nat", k)
				}
				kl := "(@nil nat)"
				if len(ks) > 0 {
					kl = vhlib.CoqList(ks)
				}
				*side.dst = append(*side.dst, fmt.Sprintf("(%s, %s, (%s, %s), %s)", vhlib.CoqList(bcoq), trk, cn(a), cn(b), kl))
				// the property on the real function: a block the tracker allows whose time range shares a timestamp with
				// the query range holds events the query may have to return; it must stay, wherever it sits in the list
				if a <= b {
					for i, s := range sums {
						if isEx[i] || !(s[0] <= b && a <= s[1]) || has[i] {
							continue
						}
						after := ""
						for j := 0; j < i; j++ {
							if sums[j][0] > b {
								after = fmt.Sprintf("; block %d, written before it, starts after the end of the range (the list is in ingest order, not in time order)", j)
								break
							}
						}
						sum.Fail("time_filter_drops_block_overlapping_query_range", fmt.Sprintf("%s: block summaries in the order written %v (arrival order: %s), excluded blocks %v, query time range [%d,%d]: block %d = [%d,%d] overlaps the range and is not among the blocks kept %v%s", side.name, sums, order, excl, a, b, i, s[0], s[1], side.kept, after),
							map[string]interface{}{"check": side.name, "summaries": sums, "order": order, "excluded": excl, "start": a, "end": b, "kept": side.kept, "dropped_block": i})
					}
				}
			}
			sum.Eval(fmt.Sprintf("time_filter/%v/%v/%d/%d", sums, excl, a, b), len(keptRot) > 0)
			sum.Count("direct/time_filter/" + order)
			if len(excl) > 0 {
				sum.Count("direct/time_filter/exclusion_tracker")
			}
			if a > b {
				sum.Count("direct/time_filter/inverted_range")
			}
		}
	}
	imports := "From SigM Require Import Base SortCmd Sched Fetch TimePrune.\n"
	for i, k := 0, 0; i < len(items); i, k = i+500, k+1 {
		j := i + 500
		if j > len(items) {
			j = len(items)
		}
		sum.WriteCaseFile(cfg.Out, fmt.Sprintf("cases_time_filter_%02d", k), imports,
			"Definition cases : list tf_case := "+vhlib.CoqListNL(items[i:j])+".\n", "check_time_filter cases", j-i)
		sum.WriteCaseFile(cfg.Out, fmt.Sprintf("cases_time_filter_open_%02d", k), imports,
			"Definition cases : list tf_case := "+vhlib.CoqListNL(itemsU[i:j])+".\n", "check_time_filter cases", j-i)
	}
}

// ---------- metamorphic stream ----------
func timed(q Query, start, end uint64) Query {
	q.Text = fmt.Sprintf("tr:%d:%d:%s", start, end, q.Text)
	q.HasTR, q.TR = true, [2]uint64{start, end}
	q.RCol = "" // the by-value model of cases_e2e knows no time range
	if q.Stats == nil {
		q.Kind = "time"
	} else {
		q.Kind = "timestats"
	}
	return q
}

func timeBoundedStream(rng *vhlib.Rng, idx int, thorough bool) Stream {
	k := rng.Range(2, 3)
	nb := rng.Range(4, 6)
	if thorough {
		nb = rng.Range(3, 10)
	}
	n := k * nb
	evs := make([]Event, n)
	for i := range evs {
		e := Event{Id: i}
		e.set("n", iv(int64(i)))
		e.set("w", sv(vhlib.Pick(rng, []string{"alpha", "beta", "gamma"})))
		e.set("g", sv(vhlib.Pick(rng, grpPool)))
		evs[i] = e
	}
	evs[0].set("w", sv("alpha"))
	evs[k].set("w", sv("alpha"))
	ident := make([]int, n)
	for i := range ident {
		ident[i] = i
	}
	blk := func(b int) []int { return ident[b*k : (b+1)*k] }
	// arrival orders; the cut into blocks (k events per flush) is the same, and except for `late`/`shuf` every block
	// holds the same events as in the reference, only the ORDER of the blocks differs
	var rev, back, lateblk, recent1 []int
	for b := nb - 1; b >= 0; b-- {
		rev = append(rev, blk(b)...)
	}
	h := nb / 2
	for b := h; b < nb; b++ { // the recent half first, then the older half is back-filled
		back = append(back, blk(b)...)
	}
	for b := 0; b < h; b++ {
		back = append(back, blk(b)...)
	}
	for b := 1; b < nb; b++ { // the oldest block arrives last
		lateblk = append(lateblk, blk(b)...)
	}
	lateblk = append(lateblk, blk(0)...)
	recent1 = append(recent1, blk(nb-1)...) // the newest block arrives first
	for b := 0; b < nb-1; b++ {
		recent1 = append(recent1, blk(b)...)
	}
	d := 1 // late events sharing the newest block with recent ones: that block's range encloses the others
	late := append(append([]int{}, ident[d:]...), ident[:d]...)
	shuf := append([]int{}, ident...)
	for i := n - 1; i > 0; i-- {
		j := rng.Intn(i + 1)
		shuf[i], shuf[j] = shuf[j], shuf[i]
	}
	bshuf := []int{} // whole blocks in a random order
	{
		bo := make([]int, nb)
		for i := range bo {
			bo[i] = i
		}
		for i := nb - 1; i > 0; i-- {
			j := rng.Intn(i + 1)
			bo[i], bo[j] = bo[j], bo[i]
		}
		for _, b := range bo {
			bshuf = append(bshuf, blk(b)...)
		}
	}
	var layouts []LayoutCfg
	wideOf := map[string]string{}
	add := func(tag string, perm []int, base LayoutCfg, p int) {
		l := base
		l.Name = fmt.Sprintf("%s_p%d", tag, p)
		l.Every, l.Aggs, l.Procs, l.KeepOrder = k, true, p, true
		l.Perm = perm
		wideOf[l.Name] = l.Name
		layouts = append(layouts, l)
	}
	add("ord_rot", nil, LayoutCfg{Final: true}, 16)
	add("rev_rot", rev, LayoutCfg{Final: true}, 16)
	add("rev_open", rev, LayoutCfg{Final: false}, 16)
	add("rev_segs", rev, LayoutCfg{Rotate: 2, Final: false}, 2)
	add("back_open", back, LayoutCfg{Final: false}, 2)
	add("lateblk_rot", lateblk, LayoutCfg{Final: true}, 16)
	add("lateblk_segs", lateblk, LayoutCfg{Rotate: 3, Final: false}, 16)
	add("late_rot", late, LayoutCfg{Final: true}, 2)
	add("bshuf_open", bshuf, LayoutCfg{Final: false}, 1)
	add("rev_pqs", rev, LayoutCfg{Final: true, PQS: true}, 16)
	if thorough {
		add("ord_open", nil, LayoutCfg{Final: false}, 16)
		add("back_rot", back, LayoutCfg{Final: true}, 16)
		add("lateblk_open", lateblk, LayoutCfg{Final: false}, 16)
		add("recent1_rot", recent1, LayoutCfg{Final: true}, 2)
		add("bshuf_rot", bshuf, LayoutCfg{Final: true}, 16)
		add("shuf_rot", shuf, LayoutCfg{Final: true}, 16)
		add("shuf_segs", shuf, LayoutCfg{Rotate: 2, Final: false}, 16)
		add("bshuf_pqs", bshuf, LayoutCfg{Rotate: 2, Final: true, PQS: true}, 16)
	}

	ts := func(id int) uint64 { return tsBase + uint64(id)*1000 }
	first := func(b int) uint64 { return ts(b * k) }      // oldest timestamp of the b-th block in time order
	last := func(b int) uint64 { return ts((b+1)*k - 1) } // newest
	lo0 := tsBase - 1000
	hiAll := tsBase + 100000000
	j := rng.Range(1, nb-2)
	j2 := rng.Range(j, nb-2)
	e := rng.Intn(n)
	type rg struct{ a, b uint64 }
	all := []rg{
		{lo0, last(0)},                          // ends between the ranges of blocks 0 and 1, on the last event of block 0
		{lo0, last(0) + 500},                    // … between two events
		{lo0, first(1) - 1},                     // … one millisecond before block 1
		{lo0, first(1)},                         // … on the first event of block 1
		{lo0, last(j)},                          // the oldest j+1 blocks
		{first(j), last(j2)},                    // whole blocks in the middle, ends on block bounds
		{first(j) + 1, last(j2) + 999},          // … without the first event of block j
		{ts(j*k+k/2) - 500, ts(j2*k+k/2) + 500}, // both ends inside blocks
		{last(nb-2) + 1, hiAll},                 // the newest block only
		{first(nb - 1), last(nb - 1)},           // … on its bounds
		{ts(e), ts(e)},                          // one event
		{ts(e) + 1, ts(e) + 999},                // between two events: nothing
		{lo0, tsBase - 1},                       // before every event
		{ts(n-1) + 1, hiAll},                    // after every event
	}
	pick := func(ix ...int) []rg {
		var out []rg
		for _, i := range ix {
			out = append(out, all[i])
		}
		return out
	}
	star := pick(0, 2, 3, 4, 5, 7, 8, 10, 11)
	if thorough {
		star = all
	}
	qAll := Query{Text: "*", P: pAll{}, Kind: "all"}
	qs := []Query{qAll, {Text: "* | stats count", P: pAll{}, Kind: "stats", Stats: []string{"count"}}}
	for _, r := range star {
		qs = append(qs, timed(qAll, r.a, r.b))
	}
	kNew := int64(n - k - 1)
	type bq struct {
		q  Query
		rs []rg
	}
	battery := []bq{
		{Query{Text: "w=alpha", P: pStrEq{"w", "alpha", false}, Kind: "text"}, pick(0, 5, 7)},
		{cmpQ("n", 2, strconv.FormatInt(kNew, 10)), pick(4, 7)},
		{Query{Text: "* | stats count", P: pAll{}, Kind: "stats", Stats: []string{"count"}}, pick(0, 5, 7)},
		{Query{Text: "* | stats count, sum(n) by g", P: pAll{}, Kind: "stats", Stats: []string{"count", "sum(n)"}, By: "g"}, pick(4, 7)},
		{Query{Text: "w=alpha | stats count, max(n)", P: pStrEq{"w", "alpha", false}, Kind: "stats", Stats: []string{"count", "max(n)"}}, pick(0, 5)},
	}
	if thorough {
		battery = append(battery, bq{Query{Text: "NOT w=alpha", P: pNot{pStrEq{"w", "alpha", false}}, Kind: "bool"}, pick(0, 4, 5, 7)})
		for i := range battery {
			battery[i].rs = pick(0, 1, 4, 5, 6, 7, 9)
		}
	}
	for _, b := range battery {
		for _, r := range b.rs {
			qs = append(qs, timed(b.q, r.a, r.b))
		}
	}
	return Stream{Name: fmt.Sprintf("tb%d", idx), Events: evs, Layouts: layouts, Queries: qs,
		Batching: true, WideOf: wideOf, RefName: "ord_rot_p16", TimeBounded: true}
}

// block of the layout (segment index, block index inside the segment, event ids) holding event id
func blockOfEvent(l LayoutCfg, n int, id int) (int, int, []int) {
	for si, sg := range allSegments(l, n) {
		for bi, b := range sg {
			for _, ei := range b {
				if ei == id {
					return si, bi, b
				}
			}
		}
	}
	return -1, -1, nil
}

func blockRange(b []int) (int, int) {
	lo, hi := b[0], b[0]
	for _, x := range b {
		if x < lo {
			lo = x
		}
		if x > hi {
			hi = x
		}
	}
	return lo, hi
}

// is the block written after a block of the same segment that holds only newer events (the segment's block summaries
// are not ascending there: a late / back-filled / out-of-order block)
func outOfOrderBlock(l LayoutCfg, n int, si, bi int) bool {
	sg := allSegments(l, n)[si]
	lo, _ := blockRange(sg[bi])
	for j := 0; j < bi; j++ {
		if pl, _ := blockRange(sg[j]); pl > lo {
			return true
		}
	}
	return false
}

func lostIds(got, want Obs) []int {
	have := map[int]bool{}
	for _, x := range got.Ids {
		have[x] = true
	}
	var lost []int
	for _, x := range want.Ids {
		if !have[x] {
			lost = append(lost, x)
		}
	}
	return lost
}

// which kind of failing input is it when a time-bounded query disagrees with the events
func classifyTimeBounded(st Stream, l LayoutCfg, q Query, got, want Obs, res streamResult, qi int) string {
	if got.Err != "" {
		return ""
	}
	n := len(st.Events)
	if q.Stats != nil {
		// the same events, the same cut into blocks, only the arrival order differs, and in time order the answer is right
		if len(l.Perm) > 0 {
			for lj, x := range st.Layouts {
				if x.Name == st.RefName && res.errs[lj] == nil && res.outs[lj] != nil && len(res.outs[lj].Obs) == len(st.Queries) &&
					obsKey(res.outs[lj].Obs[qi]) == obsKey(want) {
					return "time_bounded_stats_depend_on_arrival_order"
				}
			}
		}
		return "time_bounded_stats_differ_from_events"
	}
	if missingOnly(got, want) {
		all := true
		for _, id := range lostIds(got, want) {
			si, bi, _ := blockOfEvent(l, n, id)
			if si < 0 || !outOfOrderBlock(l, n, si, bi) {
				all = false
			}
		}
		if all {
			return "time_bounded_query_loses_events_of_out_of_order_block"
		}
		return "time_bounded_query_loses_events"
	}
	w := map[int]bool{}
	for _, x := range want.Ids {
		w[x] = true
	}
	outside := 0
	for _, x := range got.Ids {
		if !w[x] && x >= 0 && x < n && (evTs(st.Events[x]) < q.TR[0] || evTs(st.Events[x]) > q.TR[1]) {
			outside++
		}
	}
	if outside > 0 {
		return "time_bounded_query_returns_event_outside_range"
	}
	return ""
}

// the physical situation of a time-bounded disagreement, for the report
func timeBoundedNote(st Stream, l LayoutCfg, q Query, got, want Obs) string {
	n := len(st.Events)
	rel := func(t uint64) string { return fmt.Sprintf("%+.1f", (float64(t)-float64(tsBase))/1000) }
	var sb strings.Builder
	fmt.Fprintf(&sb, "query time range [%d,%d] = event ranks [%s,%s] (timestamp of event i = %d + 1000 i); block time ranges in the order written (ranks)", q.TR[0], q.TR[1], rel(q.TR[0]), rel(q.TR[1]), tsBase)
	for si, sg := range allSegments(l, n) {
		state := "rotated"
		if segOpen(l, n, si) {
			state = "open"
		}
		fmt.Fprintf(&sb, " seg%d(%s):", si, state)
		for _, b := range sg {
			lo, hi := blockRange(b)
			fmt.Fprintf(&sb, "[%d..%d]", lo, hi)
		}
	}
	if !got.Stats && !want.Stats {
		for _, id := range lostIds(got, want) {
			si, bi, b := blockOfEvent(l, n, id)
			if si >= 0 {
				lo, hi := blockRange(b)
				fmt.Fprintf(&sb, "; lost event %d is in block %d of seg%d = [%d..%d]", id, bi, si, lo, hi)
				if outOfOrderBlock(l, n, si, bi) {
					sb.WriteString(", written after a block holding only newer events")
				}
			}
		}
	}
	return sb.String()
}

// Coq case of TimePrune.v: GOMAXPROCS, the query range, the layout's segments with the block summaries (min / max
// timestamp of ALL events of the block) and the records the query's PREDICATE accepts (whatever their timestamp:
// segment, block and record time tests are the model's), and the ids in the order the real system returned them
func (c *evalCtx) tfetchCase(st Stream, l LayoutCfg, q Query, out *WorkerOut, got Obs) {
	var segs []string
	for _, sg := range allSegments(l, len(st.Events)) {
		var bl []string
		for _, b := range sg {
			lo, hi := evTs(st.Events[b[0]]), evTs(st.Events[b[0]])
			var rs []string
			for _, ei := range b {
				if t := evTs(st.Events[ei]); t < lo {
					lo = t
				} else if t > hi {
					hi = t
				}
				if q.P.match(st.Events[ei]) {
					rs = append(rs, fmt.Sprintf("(%d, %d)", evTs(st.Events[ei]), st.Events[ei].Id))
				}
			}
			rl := "(@nil rec)"
			if len(rs) > 0 {
				rl = vhlib.CoqList(rs)
			}
			bl = append(bl, fmt.Sprintf("(%d, %d, %s)", lo, hi, rl))
		}
		segs = append(segs, vhlib.CoqList(bl))
	}
	ids := make([]string, len(got.Order))
	for i, x := range got.Order {
		if x < 0 {
			x = 1 << 40
		}
		ids[i] = strconv.Itoa(x)
	}
	idl := "(@nil N)"
	if len(ids) > 0 {
		idl = vhlib.CoqList(ids)
	}
	c.tfetch = append(c.tfetch, fmt.Sprintf("(%d%%nat, (%d, %d), %s, %s)", out.GoMaxProcs, q.TR[0], q.TR[1], vhlib.CoqList(segs), idl))
	c.sum.Count("e2e/time_bounded_order_vs_time_prune_model")
}

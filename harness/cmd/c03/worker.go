// worker side of c03: runs the real siglens code (one process per layout, fresh data dir).
package main

import (
	"context"
	"encoding/json"
	"fmt"
	"io"
	"math"
	"os"
	"path/filepath"
	"regexp"
	"runtime"
	"sort"
	"strconv"
	"strings"
	"sync"
	"time"

	"github.com/siglens/siglens/pkg/ast/pipesearch"
	"github.com/siglens/siglens/pkg/config"
	esquery "github.com/siglens/siglens/pkg/es/query"
	esreader "github.com/siglens/siglens/pkg/es/reader"
	eswriter "github.com/siglens/siglens/pkg/es/writer"
	sighooks "github.com/siglens/siglens/pkg/hooks"
	"github.com/siglens/siglens/pkg/querytracker"
	"github.com/siglens/siglens/pkg/segment/memory/limit"
	"github.com/siglens/siglens/pkg/segment/pqmr"
	"github.com/siglens/siglens/pkg/segment/query"
	pqsmeta "github.com/siglens/siglens/pkg/segment/query/pqs/meta"
	"github.com/siglens/siglens/pkg/segment/structs"
	sutils "github.com/siglens/siglens/pkg/segment/utils"
	"github.com/siglens/siglens/pkg/segment/writer"
	serverutils "github.com/siglens/siglens/pkg/server/utils"
	vtable "github.com/siglens/siglens/pkg/virtualtable"
	log "github.com/sirupsen/logrus"
	"github.com/valyala/fasthttp"
)

const tsBase = uint64(1700000000000)

// physical configuration of one layout
type LayoutCfg struct {
	Name       string `json:"name"`
	Every      int    `json:"every"`       // flush after every k events (0 = one flush at the end)
	Rotate     int    `json:"rotate"`      // rotate after every r flushes (0 = never)
	Final      bool   `json:"final"`       // rotate after the last flush (false: the last segment stays open)
	Card       int    `json:"card"`        // dictionary cardinality limit (0 = default 501)
	PQS        bool   `json:"pqs"`         // persistent queries enabled and the battery registered before ingest
	Aggs       bool   `json:"aggs"`        // agile-tree aggregations enabled
	Procs      int    `json:"procs"`       // GOMAXPROCS (0 = default)
	Perm       []int  `json:"perm"`        // ingest order (indices into the event list)
	Trace      bool   `json:"trace"`       // read from the server's log how each query was served (raw search / pqs)
	Restarted  bool   `json:"restarted"`   // the node's segmeta file exists before the writer starts (not the first boot): the PQS listener runs
	SettleMs   int    `json:"settle_ms"`   // wait after the last rotation (the listener writes the empty-PQS lists every 10 s)
	DrainPqs   bool   `json:"drain_pqs"`   // after the last rotation run the listener's tick once, directly (hook)
	DumpRanges string `json:"dump_ranges"` // after ingest: the range micro index of this column in every block of the open segment
	Windows    bool   `json:"windows"`     // record, after every written record, what getLastRecord() returns per column
	KeepOrder  bool   `json:"keep_order"`  // report the ids of the hits in the order of the response as well
}

type Script struct {
	Idx     string    `json:"idx"`
	Cfg     LayoutCfg `json:"cfg"`
	Events  []string  `json:"events"` // raw JSON documents (each has timestamp and id)
	Queries []string  `json:"queries"`
}

// observation of one query
type Obs struct {
	Ids    []int    `json:"ids,omitempty"`
	Dup    bool     `json:"dup,omitempty"`
	Groups []string `json:"groups,omitempty"` // canonical stats rows, sorted
	Stats  bool     `json:"stats,omitempty"`
	Err    string   `json:"err,omitempty"`
	// how the query was served, read from the server's own log line
	// "GetSortedQSRs: Received N query segment requests. R raw search P pqs ..." (-1 = no such line)
	Raw int `json:"raw"`
	Pqs int `json:"pqs"`
	// ids in the order of the response (only with LayoutCfg.KeepOrder)
	Order []int `json:"order,omitempty"`
	// "es:" queries: hits.total reported by the real _search handler
	Total *int `json:"total,omitempty"`
}

// logrus hook: remembers the raw/pqs segment counts per qid
type pathHook struct {
	mu sync.Mutex
	m  map[uint64][2]int
}

var pathRe = regexp.MustCompile(`qid=(\d+), GetSortedQSRs: Received \d+ query segment requests\. (\d+) raw search (\d+) pqs`)

func (h *pathHook) Levels() []log.Level { return []log.Level{log.InfoLevel} }
func (h *pathHook) Fire(e *log.Entry) error {
	if m := pathRe.FindStringSubmatch(e.Message); m != nil {
		q, _ := strconv.ParseUint(m[1], 10, 64)
		r, _ := strconv.Atoi(m[2])
		p, _ := strconv.Atoi(m[3])
		h.mu.Lock()
		h.m[q] = [2]int{r, p}
		h.mu.Unlock()
	}
	return nil
}

var paths = &pathHook{m: map[uint64][2]int{}}

// what getLastRecord() returned per column right after the record with this id was written
type WinObs struct {
	Id   int               `json:"id"`
	Cols map[string][]byte `json:"cols"`
}

var idRe = regexp.MustCompile(`"id":(\d+)`)

// bookkeeping of one persistent query after the last rotation: per rotated segment whether its pqmr file exists
// and whether the segment is on the query's empty-results list
type PqsSeg struct {
	Seg        string `json:"seg"`
	HasPqmr    bool   `json:"has_pqmr"`
	Empty      bool   `json:"empty"`
	Blocks     int    `json:"blocks"`
	Recs       int    `json:"recs"`
	EarliestMs uint64 `json:"earliest_ms"`
}
type PqsState struct {
	Query string   `json:"query"`
	Pqid  string   `json:"pqid"`
	Segs  []PqsSeg `json:"segs"`
}

func pqsState(idx string, queries []string) []PqsState {
	var out []PqsState
	metas := writer.ReadLocalSegmeta(false)
	for _, q := range queries {
		node, aggs, _, err := pipesearch.ParseQuery(q, 1, "Splunk QL")
		if err != nil || node == nil {
			continue
		}
		_ = aggs
		sn := query.ConvertASTNodeToSearchNode(node, 1)
		if sn == nil {
			continue
		}
		pqid := querytracker.GetHashForQuery(sn)
		empty, _ := pqsmeta.GetAllEmptySegmentsForPqid(pqid)
		st := PqsState{Query: q, Pqid: pqid}
		for _, m := range metas {
			if m.VirtualTableName != idx {
				continue
			}
			_, ferr := os.Stat(pqmr.GetPQMRFileNameFromSegKey(m.SegmentKey, pqid))
			st.Segs = append(st.Segs, PqsSeg{Seg: filepath.Base(m.SegmentKey), HasPqmr: ferr == nil, Empty: empty[m.SegmentKey], Blocks: int(m.NumBlocks), Recs: m.RecordCount, EarliestMs: m.EarliestEpochMS})
		}
		sort.Slice(st.Segs, func(i, j int) bool { return st.Segs[i].EarliestMs < st.Segs[j].EarliestMs })
		out = append(out, st)
	}
	return out
}

type WorkerOut struct {
	Pqs      []PqsState                  `json:"pqs,omitempty"`
	Drained  int                         `json:"drained,omitempty"`
	Ranges   []writer.VerifC03BlockRange `json:"ranges,omitempty"`
	Windows  []WinObs                    `json:"windows,omitempty"`
	Obs      []Obs                       `json:"obs"`
	Flushes  int                         `json:"flushes"`
	Rotates  int                         `json:"rotates"`
	Ingested int                         `json:"ingested"`
	// runtime.GOMAXPROCS(0) while the queries ran = the number of blocks the searcher takes per fetch
	GoMaxProcs int `json:"gomaxprocs"`
}

func initNode(dir string, cfg LayoutCfg) error {
	config.InitializeTestingConfig(dir + "/")
	config.SetNewQueryPipelineEnabled(true)
	config.SetPQSEnabled(cfg.PQS)
	config.SetAggregationsFlag(cfg.Aggs)
	limit.InitMemoryLimiter()
	if cfg.Restarted {
		// a node that has been started before: its segmeta file exists, so initSmr starts the listener
		sm := writer.GetLocalSegmetaFName()
		_ = os.MkdirAll(filepath.Dir(sm), 0o755)
		if _, err := os.Stat(sm); err != nil {
			_ = os.WriteFile(sm, []byte{}, 0o644)
		}
	}
	writer.InitWriterNode()
	if err := vtable.InitVTable(serverutils.GetMyIds); err != nil {
		return err
	}
	if err := query.InitQueryNode(serverutils.GetMyIds, serverutils.ExtractKibanaRequests); err != nil {
		return err
	}
	query.InitMaxRunningQueries()
	go query.PullQueriesToRun(context.Background())
	if cfg.Card > 0 {
		writer.SetCardinalityLimit(uint16(cfg.Card))
	}
	return nil
}

// a query that has not answered after this long is reported as Err "timeout" (queries of these tiny indexes take
// milliseconds); the queries after it are not run in this process: a hung search keeps spinning and the layout would
// otherwise cost one timeout per query
const queryTimeout = 15 * time.Second
const skippedAfterTimeout = "skipped: an earlier query of this layout timed out"

var qidCtr uint64 = 100
var keepOrder bool

func fmtNum(x interface{}) string {
	switch t := x.(type) {
	case float64:
		if t == math.Trunc(t) && math.Abs(t) < 1e15 {
			return strconv.FormatInt(int64(t), 10)
		}
		return strconv.FormatFloat(t, 'g', 12, 64)
	case float32:
		return fmtNum(float64(t))
	case int64:
		return strconv.FormatInt(t, 10)
	case uint64:
		return strconv.FormatUint(t, 10)
	case int:
		return strconv.Itoa(t)
	case json.Number:
		if f, err := t.Float64(); err == nil {
			return fmtNum(f)
		}
		return string(t)
	case string:
		// numbers are sometimes rendered as strings ("3", "2.5")
		if f, err := strconv.ParseFloat(strings.ReplaceAll(t, ",", ""), 64); err == nil {
			return fmtNum(f)
		}
		return t
	case nil:
		return "null"
	}
	return fmt.Sprintf("%v", x)
}

func toInt(v interface{}) (int, bool) {
	switch x := v.(type) {
	case float64:
		return int(x), true
	case int64:
		return int(x), true
	case uint64:
		return int(x), true
	case int:
		return x, true
	case json.Number:
		n, err := x.Int64()
		return int(n), err == nil
	case string:
		n, err := strconv.Atoi(x)
		return n, err == nil
	}
	return 0, false
}

// Elasticsearch query DSL front-end ("es:<request body>").  This is the front-end that produces an equality on the
// wildcard column with a STRING value ({"term":{"*":"alpha"}}, query_string "*:alpha": ExpressionFilter on "*",
// SearchType SimpleExpressionAllColumns); the SPL front-end turns `*=alpha` into a word match (MatchWordsAllColumns).
// Two observations per query, both on the real code:
//   - the ids: the body parsed by the real ES parser (pkg/es/query ParseRequest), the node executed by the query
//     pipeline the server runs (pipesearch.RunQueryForNewPipeline, what ParseAndExecutePipeRequest ends in);
//   - the total: the real _search handler (pkg/es/reader ProcessSearchRequest on an in-process request context);
//     in this tree it reports hits.total only (its hit rendering is "Old pipeline is deprecated").
func runEsQuery(idx, body string) Obs {
	qidCtr++
	myQid := qidCtr
	ch := make(chan Obs, 1)
	go func() {
		defer func() {
			if r := recover(); r != nil {
				ch <- Obs{Err: fmt.Sprintf("panic: %v", r)}
			}
		}()
		var o Obs
		node, aggs, size, _, err := esquery.ParseRequest([]byte(body), myQid, false)
		if err != nil || node == nil {
			ch <- Obs{Err: fmt.Sprintf("es parse: %v", err)}
			return
		}
		ti := structs.InitTableInfo(idx, 0, false, nil)
		qc := structs.InitQueryContextWithTableInfo(ti, size, 0, 0, false)
		resp, _, _, err := pipesearch.RunQueryForNewPipeline(nil, myQid, node, aggs, nil, nil, qc, size)
		if err != nil {
			ch <- Obs{Err: "error: " + err.Error()}
			return
		}
		if resp == nil {
			ch <- Obs{Err: "nil response"}
			return
		}
		if len(resp.Errors) > 0 {
			o.Err = "resp.Errors: " + strings.Join(resp.Errors, "; ")
		}
		var ids []int
		for _, h := range resp.Hits.Hits {
			if n, ok := toInt(h["id"]); ok {
				ids = append(ids, n)
			} else {
				ids = append(ids, -1)
			}
		}
		sort.Ints(ids)
		for i, x := range ids {
			if i > 0 && ids[i-1] == x {
				o.Dup = true
				continue
			}
			o.Ids = append(o.Ids, x)
		}
		// the _search handler itself
		var ctx fasthttp.RequestCtx
		ctx.Request.Header.SetMethod("POST")
		ctx.Request.SetRequestURI("/elastic/" + idx + "/_search?rest_total_hits_as_int=true")
		ctx.Request.SetBody([]byte(body))
		ctx.SetUserValue("indexName", idx)
		esreader.ProcessSearchRequest(&ctx, 0)
		if ctx.Response.StatusCode() != fasthttp.StatusOK {
			o.Err = fmt.Sprintf("es status %d: %s", ctx.Response.StatusCode(), string(ctx.Response.Body()))
			ch <- o
			return
		}
		var er struct {
			Hits struct {
				Total interface{} `json:"total"`
			} `json:"hits"`
		}
		dec := json.NewDecoder(strings.NewReader(string(ctx.Response.Body())))
		dec.UseNumber()
		if err := dec.Decode(&er); err != nil {
			o.Err = "es response: " + err.Error()
			ch <- o
			return
		}
		tot := -1
		switch t := er.Hits.Total.(type) {
		case json.Number:
			n, _ := t.Int64()
			tot = int(n)
		case map[string]interface{}:
			if n, ok := toInt(t["value"]); ok {
				tot = n
			}
		}
		o.Total = &tot
		ch <- o
	}()
	select {
	case r := <-ch:
		r.Raw, r.Pqs = -1, -1
		paths.mu.Lock()
		if v, ok := paths.m[myQid]; ok {
			r.Raw, r.Pqs = v[0], v[1]
		}
		paths.mu.Unlock()
		return r
	case <-time.After(queryTimeout):
		return Obs{Err: "timeout", Raw: -1, Pqs: -1}
	}
}

func runQuery(idx, text string) Obs {
	if strings.HasPrefix(text, "es:") {
		return runEsQuery(idx, text[3:])
	}
	qidCtr++
	// "tr:<startEpochMs>:<endEpochMs>:<query>" = the query asked with that time range (default: a range covering every event)
	startEpoch, endEpoch := tsBase-1000, tsBase+100000000
	if strings.HasPrefix(text, "tr:") {
		parts := strings.SplitN(text, ":", 4)
		if len(parts) == 4 {
			s, err1 := strconv.ParseUint(parts[1], 10, 64)
			e, err2 := strconv.ParseUint(parts[2], 10, 64)
			if err1 == nil && err2 == nil {
				startEpoch, endEpoch, text = s, e, parts[3]
			}
		}
	}
	req := map[string]interface{}{
		"searchText": text, "indexName": idx, "startEpoch": startEpoch, "endEpoch": endEpoch,
		"size": uint64(10000), "from": uint64(0), "queryLanguage": "Splunk QL", "state": "query",
	}
	ch := make(chan Obs, 1)
	go func() {
		var o Obs
		defer func() {
			if r := recover(); r != nil {
				ch <- Obs{Err: fmt.Sprintf("panic: %v", r)}
			}
		}()
		resp, _, _, err := pipesearch.ParseAndExecutePipeRequest(req, qidCtr, 0, time.Now(), "", nil)
		if err != nil {
			ch <- Obs{Err: "error: " + err.Error()}
			return
		}
		if resp == nil {
			ch <- Obs{Err: "nil response"}
			return
		}
		if len(resp.Errors) > 0 {
			o.Err = "resp.Errors: " + strings.Join(resp.Errors, "; ")
		}
		if len(resp.MeasureFunctions) > 0 || len(resp.MeasureResults) > 0 {
			o.Stats = true
			for _, b := range resp.MeasureResults {
				keys := make([]string, 0, len(b.MeasureVal))
				for k := range b.MeasureVal {
					keys = append(keys, k)
				}
				sort.Strings(keys)
				var sb strings.Builder
				sb.WriteString(strings.Join(b.GroupByValues, "|"))
				sb.WriteString(" =>")
				for _, k := range keys {
					sb.WriteString(" " + k + "=" + fmtNum(b.MeasureVal[k]))
				}
				o.Groups = append(o.Groups, sb.String())
			}
			sort.Strings(o.Groups)
		} else {
			var ids []int
			for _, h := range resp.Hits.Hits {
				if n, ok := toInt(h["id"]); ok {
					ids = append(ids, n)
				} else {
					ids = append(ids, -1)
				}
			}
			if keepOrder {
				o.Order = append([]int{}, ids...)
			}
			sort.Ints(ids)
			for i, x := range ids {
				if i > 0 && ids[i-1] == x {
					o.Dup = true
					continue
				}
				o.Ids = append(o.Ids, x)
			}
		}
		ch <- o
	}()
	myQid := qidCtr
	select {
	case r := <-ch:
		r.Raw, r.Pqs = -1, -1
		paths.mu.Lock()
		if v, ok := paths.m[myQid]; ok {
			r.Raw, r.Pqs = v[0], v[1]
		}
		paths.mu.Unlock()
		return r
	case <-time.After(queryTimeout):
		return Obs{Err: "timeout", Raw: -1, Pqs: -1}
	}
}

func workerMain(dir, scriptPath, outPath string) {
	log.SetLevel(log.PanicLevel)
	b, err := os.ReadFile(scriptPath)
	if err != nil {
		fmt.Fprintln(os.Stderr, err)
		os.Exit(3)
	}
	var sc Script
	if err := json.Unmarshal(b, &sc); err != nil {
		fmt.Fprintln(os.Stderr, err)
		os.Exit(3)
	}
	if sc.Cfg.Procs > 0 {
		runtime.GOMAXPROCS(sc.Cfg.Procs)
	}
	keepOrder = sc.Cfg.KeepOrder
	if sc.Cfg.Trace {
		log.SetOutput(io.Discard)
		log.SetLevel(log.InfoLevel) // the hook reads one Info line per query; nothing is printed
		log.AddHook(paths)
	}
	if err := initNode(dir, sc.Cfg); err != nil {
		fmt.Fprintln(os.Stderr, "init:", err)
		os.Exit(4)
	}
	var out WorkerOut
	out.GoMaxProcs = runtime.GOMAXPROCS(0)
	zero, zero2 := time.Duration(0), time.Duration(0)
	if sc.Cfg.Windows {
		sighooks.GlobalHooks.AfterWritingToSegment = func(rid uint64, segstore interface{}, record []byte, ts uint64, st sutils.SIGNAL_TYPE) error {
			id := -1
			if m := idRe.FindSubmatch(record); m != nil {
				id, _ = strconv.Atoi(string(m[1]))
			}
			out.Windows = append(out.Windows, WinObs{Id: id, Cols: writer.VerifC03Windows(segstore)})
			return nil
		}
	}
	if sc.Cfg.PQS {
		// the persistent-query path: the index exists and the battery has been asked before any data arrives
		_ = vtable.AddVirtualTable(&sc.Idx, 0)
		for _, q := range sc.Queries {
			_ = runQuery(sc.Idx, q)
		}
	}
	order := sc.Cfg.Perm
	if len(order) != len(sc.Events) {
		order = make([]int, len(sc.Events))
		for i := range order {
			order[i] = i
		}
	}
	flush := func() {
		writer.FlushWipBufferToFile(&zero, &zero2)
		out.Flushes++
		if sc.Cfg.Rotate > 0 && out.Flushes%sc.Cfg.Rotate == 0 {
			writer.ForceRotateSegmentsForTest()
			out.Rotates++
		}
	}
	pending := 0
	var sb strings.Builder
	send := func() {
		if pending == 0 {
			return
		}
		n, _, err := eswriter.HandleBulkBody([]byte(sb.String()), nil, qidCtr, 0, false)
		qidCtr++
		if err != nil {
			fmt.Fprintln(os.Stderr, "bulk:", err)
			os.Exit(5)
		}
		out.Ingested += n
		sb.Reset()
		pending = 0
		flush()
	}
	for _, ei := range order {
		fmt.Fprintf(&sb, "{\"index\":{\"_index\":%q}}\n%s\n", sc.Idx, sc.Events[ei])
		pending++
		if sc.Cfg.Every > 0 && pending >= sc.Cfg.Every {
			send()
		}
	}
	send()
	if sc.Cfg.Final {
		writer.ForceRotateSegmentsForTest()
		out.Rotates++
	}
	if sc.Cfg.DrainPqs {
		out.Drained = writer.VerifC03DrainPqsChan(300)
	}
	if sc.Cfg.SettleMs > 0 {
		time.Sleep(time.Duration(sc.Cfg.SettleMs) * time.Millisecond)
	}
	if sc.Cfg.PQS && (sc.Cfg.DrainPqs || sc.Cfg.SettleMs > 0) {
		out.Pqs = pqsState(sc.Idx, sc.Queries)
	}
	if sc.Cfg.DumpRanges != "" {
		out.Ranges = writer.VerifC03UnrotatedRanges(sc.Cfg.DumpRanges)
	}
	hung := false
	for _, q := range sc.Queries {
		if hung {
			out.Obs = append(out.Obs, Obs{Err: skippedAfterTimeout, Raw: -1, Pqs: -1})
			continue
		}
		o := runQuery(sc.Idx, q)
		hung = o.Err == "timeout"
		out.Obs = append(out.Obs, o)
	}
	ob, _ := json.Marshal(out)
	if err := os.WriteFile(outPath, ob, 0o644); err != nil {
		os.Exit(6)
	}
	os.Exit(0)
}

// C04 harness, time bucketing with an alignment origin:
//
//	`bin span=<n><unit> [aligntime=<T>] <timefield> [as x] | stats count, sum(d) by <timefield|x>` and
//	`timechart span=<n><unit>` for EVERY span unit (ms, cs, ds, s, m, h, d, w), over datasets whose events lie
//	on BOTH sides of the origin (negative and positive offsets, exact bucket boundaries, boundary +-1 ms), with
//	the align time in the middle of the data, later than every event, earlier than every event, near 1970 and
//	far in the future; plus direct calls of the two copies of performBinWithSpanTime (hooks/C04_bin_*.go).
//
// Oracle (property text: "each event is counted in exactly the bucket whose span contains its timestamp"):
// every reported bucket counts exactly the matched events whose timestamp lies in [bucket, bucket+span); with an
// align time the bucket starts are T + k*span (k of either sign); every occupied bucket is reported once.
package main

import (
	"fmt"
	"math/big"
	"sort"
	"strconv"
	"strings"

	"github.com/siglens/siglens/pkg/segment/aggregations"
	"github.com/siglens/siglens/pkg/segment/query/processor"
	sutils "github.com/siglens/siglens/pkg/segment/utils"

	"verifharness/vhlib"
)

type unitSpec struct {
	Name string
	Ms   uint64
	Coq  string
	TU   sutils.TimeUnit
	Ns   []int // span lengths the SPL grammar accepts for `bin span=` (sub-second units must divide one second)
}

var binUnits = []unitSpec{
	{"ms", 1, "UMs", sutils.TMMillisecond, []int{1, 2, 4, 5, 8, 10, 20, 25, 40, 50, 100, 125, 200, 250, 500}},
	{"cs", 10, "UCs", sutils.TMCentisecond, []int{1, 2, 4, 5, 10, 20, 25, 50}},
	{"ds", 100, "UDs", sutils.TMDecisecond, []int{1, 2, 5}},
	{"s", 1000, "USec", sutils.TMSecond, []int{1, 2, 3, 5, 7, 10, 15, 30, 45}},
	{"m", 60000, "UMin", sutils.TMMinute, []int{1, 2, 5, 7, 15, 30}},
	{"h", 3600000, "UHour", sutils.TMHour, []int{1, 2, 3, 6, 12}},
	{"d", 86400000, "UDay", sutils.TMDay, []int{1, 2, 3}},
	{"w", 604800000, "UWeek", sutils.TMWeek, []int{1, 2}},
}

func unitByName(name string) unitSpec {
	for _, u := range binUnits {
		if u.Name == name {
			return u
		}
	}
	return binUnits[3]
}

// span of a query in ms: its own span when it has one, the dataset's otherwise
func spanMs(ds *Dataset, q Query) uint64 {
	if q.SpanN > 0 {
		return uint64(q.SpanN) * unitByName(q.SpanU).Ms
	}
	return uint64(ds.SpanS) * 1000
}

// does the align time take part (the code ignores it for day and longer spans)
func alignApplies(q Query) bool { return q.Align != nil && unitByName(q.SpanU).Ms < 86400000 }

// floor division for a possibly negative numerator
func floorDiv(a, b int64) int64 {
	q := a / b
	if a%b != 0 && (a < 0) != (b < 0) {
		q--
	}
	return q
}

// ---------- generation ----------
// offsets of the events relative to a grid point g (itself a whole number of spans away from the align time):
// whole spans on both sides, one ms before / after a boundary, the last ms of a bucket, random points
func genBinTimestamps(r *vhlib.Rng, g, S uint64, n int) []uint64 {
	seen := map[uint64]bool{}
	var out []uint64
	for len(out) < n {
		k := int64(r.Range(-3, 3))
		var d int64
		switch r.Intn(6) {
		case 0:
			d = 0
		case 1:
			d = 1
		case 2:
			d = int64(S) - 1
		case 3:
			d = int64(S) / 2
		default:
			d = int64(r.U64() % S)
		}
		if S == 1 {
			d = 0
			k = int64(r.Range(-40, 40))
		} else if S < 8 {
			// 7 spans of a few ms hold fewer than n distinct timestamps (the loop would never end): more spans
			k = int64(r.Range(-40, 40))
		}
		ts := uint64(int64(g) + k*int64(S) + d)
		if !seen[ts] {
			seen[ts] = true
			out = append(out, ts)
		}
	}
	sort.Slice(out, func(i, j int) bool { return out[i] < out[j] })
	return out
}

var binPlaces = []string{"align_in_the_middle_of_the_events", "align_in_the_middle_of_the_events", "align_in_the_middle_of_the_events",
	"align_after_all_events", "align_before_all_events", "align_near_1970", "align_far_future"}

func genBin(r *vhlib.Rng, thorough bool, ui int) *Dataset {
	u := binUnits[ui%len(binUnits)]
	n := vhlib.Pick(r, u.Ns)
	S := uint64(n) * u.Ms
	place := vhlib.Pick(r, binPlaces)
	center := T0 + uint64(r.Range(0, 5000000))
	var align uint64
	switch place {
	case "align_in_the_middle_of_the_events":
		align = center
	case "align_after_all_events":
		align = center + 4*S + r.U64()%S
	case "align_before_all_events":
		align = center - 4*S - r.U64()%S
	case "align_near_1970":
		align = r.U64() % (S + 3) // 0 .. span+2
	default:
		align = center + 1000*S + r.U64()%S
	}
	// a grid point of the align time next to the centre of the data
	g := uint64(int64(align) + floorDiv(int64(center)-int64(align), int64(S))*int64(S))
	cnt := r.Range(8, 22)
	if S == 1 {
		cnt = r.Range(8, 16)
	}
	ds := &Dataset{Stream: "bin_origin", FKind: "absent", GKind: "dense", SpanS: 0, Place: place}
	for i, ts := range genBinTimestamps(r, g, S, cnt) {
		ds.Evs = append(ds.Evs, Ev{ID: i, Ts: ts, F: Val{K: "abs"}, D: genD(r), G: genG(r, "dense"), K: int64(r.Range(1, 3)), C: vhlib.Pick(r, []string{"u", "u", "v"})})
	}
	ds.Modes = layout(r, ds.Evs)
	first, last := ds.Evs[0].Ts, ds.Evs[len(ds.Evs)-1].Ts
	ds.Start = first - uint64(r.Range(0, 5000))
	ds.End = last + 1 + r.U64()%(2*S)
	spanOpt := fmt.Sprintf("span=%d%s", n, u.Name)
	alignOpt := fmt.Sprintf("aligntime=%d", align)
	mk := func(kind, text string, withAlign bool, f func(*Query)) {
		q := Query{Kind: kind, Text: text, Start: ds.Start, End: ds.End, SpanN: n, SpanU: u.Name}
		if withAlign {
			a := align
			q.Align = &a
		}
		if f != nil {
			f(&q)
		}
		ds.Queries = append(ds.Queries, q)
	}
	mk("binal", "* | bin "+spanOpt+" "+alignOpt+" timestamp | stats count, sum(d) by timestamp", true, nil)
	mk("binal", "* | bin "+alignOpt+" "+spanOpt+" timestamp as tb | stats count, sum(d) by tb", true, nil)
	mk("binal", "* | bin "+spanOpt+" timestamp | stats count, sum(d) by timestamp", false, nil)
	mk("binal", `c="u" | bin `+spanOpt+" "+alignOpt+" timestamp | stats count, sum(d) by timestamp", true, func(q *Query) { q.FilterC = "u" })
	// a time range that starts and ends on events inside the data (both inclusive)
	m := len(ds.Evs)
	i, j := r.Range(1, m/2), r.Range(m/2, m-2)
	mk("binal", "* | bin "+spanOpt+" "+alignOpt+" timestamp | stats count, sum(d) by timestamp", true, func(q *Query) {
		q.Start, q.End, q.Cut = ds.Evs[i].Ts, ds.Evs[j].Ts, "both_ends_on_events"
	})
	// timechart: the origin of its grid is the START of the query range.  Centi- and decisecond spans were the
	// finding timechart_cs_ds_span_taken_as_nanoseconds (fixed by c9c5b98): ordinary queries now, a failure is a
	// violation (reported under that class when the old signature shows up again).
	mk("tc", "* | timechart "+spanOpt+" count, sum(d)", false, nil)
	// origin inside the data: the events before it are outside the range and must not be counted anywhere
	// (the end is not the timestamp of an event: that is the stream of timechart_end_boundary_stray_bucket)
	tcEnd := ds.Evs[j].Ts + 1
	for x := j + 1; x < m && ds.Evs[x].Ts == tcEnd; x++ {
		tcEnd++
	}
	mk("tc", "* | timechart "+spanOpt+" count, sum(d)", false, func(q *Query) {
		q.Start, q.End, q.Cut = ds.Evs[i].Ts-uint64(r.Intn(2)), tcEnd, "origin_inside_data"
	})
	return ds
}

const tcNanosClass = "timechart_cs_ds_span_taken_as_nanoseconds"

// signature of the (fixed) finding: the result is exactly the partition with buckets 10^6 times the span asked for,
// and that is not the partition asked for.  Returns (is the signature, detail).
func (c *checker) tcNanosSignature(o WObs, evs []Ev) (bool, bool, string) {
	ds, q := c.ds, c.q
	S := spanMs(ds, q)
	part := func(step uint64) map[uint64]int {
		m := map[uint64]int{}
		for _, e := range evs {
			m[q.Start+(e.Ts-q.Start)/step*step]++
		}
		return m
	}
	right, coded := part(S), part(S*1000000)
	got := map[uint64]int{}
	for _, row := range o.Rows {
		b, ok := parseU(strings.Join(row.G, ""))
		if n := rowCount(row); ok && n > 0 {
			got[b] += n
		}
	}
	eq := func(a, b map[uint64]int) bool {
		if len(a) != len(b) {
			return false
		}
		for k, v := range a {
			if b[k] != v {
				return false
			}
		}
		return true
	}
	if eq(got, right) {
		return false, true, ""
	}
	if eq(got, coded) {
		return true, false, fmt.Sprintf("span=%d%s asks for %d ms buckets; the %d matched events (timestamps %d..%d) are reported in %d bucket(s) %v = the partition with an interval of %d ms; %d buckets of %d ms are occupied",
			q.SpanN, q.SpanU, S, len(evs), evs[0].Ts, evs[len(evs)-1].Ts, len(got), got, S*1000000, len(right), S)
	}
	return false, false, ""
}

// one aligned bin query for every main-stream dataset (all the flush / rotate layouts): align time on or
// next to an event in the middle of the data
func addMainBinAlign(r *vhlib.Rng, ds *Dataset) {
	n := len(ds.Evs)
	align := ds.Evs[r.Range(n/3, 2*n/3)].Ts + uint64(r.Range(0, 999))
	q := Query{Kind: "binal", Start: ds.Start, End: ds.End, SpanN: ds.SpanS, SpanU: "s", Align: &align,
		Text: fmt.Sprintf("* | bin span=%ds aligntime=%d timestamp | stats count, sum(d) by timestamp", ds.SpanS, align)}
	ds.Queries = append(ds.Queries, q)
}

// ---------- oracle ----------
type binRow struct {
	cnt int
	sum *big.Rat
}

func (c *checker) evalBinAlign(o WObs, evs []Ev) {
	ds, q := c.ds, c.q
	S := spanMs(ds, q)
	got := map[uint64]binRow{}
	var ks []uint64
	for _, row := range o.Rows {
		b, ok := parseU(strings.Join(row.G, ""))
		cnt, _ := obsRat(row.M["count(*)"])
		s, _ := obsRat(row.M["sum(d)"])
		if _, dup := got[b]; !ok || dup || cnt == nil || !cnt.IsInt() || s == nil {
			c.fail("bin_bucket_key_or_measure_malformed", fmt.Sprintf("row %v count %v sum %v: key unparsable or repeated, or a measure is missing", row.G, cnt, s))
			return
		}
		got[b] = binRow{int(cnt.Num().Int64()), s}
		ks = append(ks, b)
	}
	sort.Slice(ks, func(i, j int) bool { return ks[i] < ks[j] })
	where := "no aligntime"
	if q.Align != nil {
		where = fmt.Sprintf("aligntime %d (%s)", *q.Align, ds.Place)
	}
	head := fmt.Sprintf("span %d%s = %d ms, %s, range [%d,%d]", q.SpanN, q.SpanU, S, where, q.Start, q.End)
	// (1) a bucket counts exactly the matched events whose timestamp lies in its span
	for _, k := range ks {
		n := 0
		sum := new(big.Rat)
		var first *Ev
		for i, e := range evs {
			if e.Ts >= k && e.Ts-k < S {
				n++
				if e.D.numeric() {
					sum.Add(sum, e.D.rat())
				}
				if first == nil {
					first = &evs[i]
				}
			}
		}
		if got[k].cnt != n {
			cls := "bin_event_counted_in_bucket_not_containing_its_timestamp"
			if len(outsideRange(ds, q)) > 0 && got[k].cnt > n {
				// could also be an event outside the time range leaking in: decide by the total
				tot := 0
				for _, kk := range ks {
					tot += got[kk].cnt
				}
				if tot > len(evs) {
					cls = "bin_includes_events_outside_time_range"
				}
			}
			side := ""
			if alignApplies(q) {
				side = fmt.Sprintf(" (bucket = aligntime%+d spans)", floorDiv(int64(k)-int64(*q.Align), int64(S)))
			}
			c.fail(cls, fmt.Sprintf("%s: bucket %d%s counts %d events, %d matched events have their timestamp in [%d,%d); all buckets %v, timestamps %v",
				head, k, side, got[k].cnt, n, k, k+S, ks, tsOf(evs)))
			return
		}
		if got[k].sum.Cmp(sum) != 0 {
			c.fail("bin_bucket_sum_mismatch", fmt.Sprintf("%s: bucket %d sum(d) %s, the events in [%d,%d) add up to %s", head, k, got[k].sum.RatString(), k, k+S, sum.RatString()))
			return
		}
		if n == 0 {
			c.fail("bin_empty_bucket_reported", fmt.Sprintf("%s: bucket %d is reported with count 0", head, k))
			return
		}
	}
	// (2) bucket starts: one grid; with an align time the grid of the align time
	for _, k := range ks {
		if (k-ks[0])%S != 0 {
			c.fail("bin_buckets_not_on_one_grid", fmt.Sprintf("%s: keys %d and %d are not a whole number of spans apart", head, ks[0], k))
			return
		}
		if alignApplies(q) {
			d := int64(k) - int64(*q.Align)
			if d-floorDiv(d, int64(S))*int64(S) != 0 && !(k == 0 && d < 0) {
				c.fail("bin_bucket_not_aligned_to_aligntime", fmt.Sprintf("%s: bucket %d is not aligntime + k*span", head, k))
				return
			}
		}
	}
	// (3) every matched event is in a reported bucket (with (1) and the one-grid rule: exactly one)
	for _, e := range evs {
		i := sort.Search(len(ks), func(i int) bool { return ks[i] > e.Ts })
		if i == 0 || e.Ts-ks[i-1] >= S {
			c.fail("bin_bucket_missing", fmt.Sprintf("%s: no reported bucket contains the matched event at %d; buckets %v", head, e.Ts, ks))
			return
		}
	}
}

func tsOf(evs []Ev) []uint64 {
	var out []uint64
	for _, e := range evs {
		out = append(out, e.Ts)
	}
	return out
}

// ---------- Coq terms ----------
func coqAlign(q Query) string {
	if q.Align == nil {
		return "None"
	}
	return fmt.Sprintf("(Some %d)", *q.Align)
}

// (unit, n, aligntime, events (ts, d in 1/FS units), rows (bucket, (count, sum)))
func coqBinCase(ds *Dataset, q Query, o WObs) (string, bool) {
	if o.Err != "" {
		return "", false
	}
	u, n := unitByName(q.SpanU), q.SpanN
	if n == 0 {
		u, n = unitByName("s"), ds.SpanS
	}
	var evs []string
	for _, e := range matched(ds, q) {
		sc := new(big.Rat)
		if e.D.numeric() {
			sc.Mul(e.D.rat(), big.NewRat(FS, 1))
		}
		evs = append(evs, fmt.Sprintf("(%d, %s)", e.Ts, coqBig(sc.Num())))
	}
	_, hasSum := requested(q.Text)["sum(d)"]
	var rows []string
	for _, row := range o.Rows {
		b, ok := parseU(strings.Join(row.G, ""))
		if !ok {
			return "", false
		}
		s := "(-1)"
		if r, ok := obsRat(row.M["sum(d)"]); ok {
			sc := new(big.Rat).Mul(r, big.NewRat(FS, 1))
			if sc.IsInt() {
				s = coqBig(sc.Num())
			}
		}
		rows = append(rows, fmt.Sprintf("(%d, (%s, %s))", b, coqCount(row, "count(*)"), s))
	}
	if !hasSum {
		return "", false
	}
	return fmt.Sprintf("(%s, %d, %s, %s,\n    %s)", u.Coq, n, coqAlign(q), vhlib.CoqList(evs), vhlib.CoqList(rows)), true
}

// timechart of a query with its own span unit: (start, end, unit, n, events, rows); the interval comes from the model
func coqTimechartUnitCase(ds *Dataset, q Query, o WObs) (string, bool) {
	s, ok := coqTimechartCase(ds, q, o)
	if !ok {
		return "", false
	}
	old := fmt.Sprintf("(%d, %d, %d, ", q.Start, q.End, spanMs(ds, q))
	if !strings.HasPrefix(s, old) {
		return "", false
	}
	return fmt.Sprintf("(%d, %d, %s, %d, ", q.Start, q.End, unitByName(q.SpanU).Coq, q.SpanN) + s[len(old):], true
}

// ---------- performBinWithSpanTime driven directly (both copies) ----------
func binCalls(r *vhlib.Rng, sum *vhlib.Summary, out string, n int) {
	var items []string
	shard := 0
	flush := func() {
		if len(items) == 0 {
			return
		}
		defs := "Open Scope Z_scope.\nDefinition cases : list (tunit * Z * option Z * Z * Z * Z) := " + vhlib.CoqListNL(items) + ".\n"
		sum.WriteCaseFile(out, fmt.Sprintf("cases_c04_bincall_%d", shard), "From SigM Require Import Base Bucket AggCheck.\n", defs, "check_bin_calls cases 0", len(items))
		items = nil
		shard++
	}
	for i := 0; i < n; i++ {
		u := binUnits[i%len(binUnits)]
		nn := vhlib.Pick(r, u.Ns)
		if r.Chance(20) { // direct calls are not bound by the grammar's divisibility rule
			nn = r.Range(1, 90)
		}
		S := int64(nn) * int64(u.Ms)
		var alignP *uint64
		var ts int64
		kind := r.Intn(8)
		base := int64(T0) + int64(r.U64()%100000000000) - 50000000000
		off := func() int64 {
			k := int64(r.Range(-60, 60))
			switch r.Intn(5) {
			case 0:
				return k * S
			case 1:
				return k*S + 1
			case 2:
				return k*S - 1
			}
			return k*S + int64(r.U64()%uint64(S))
		}
		switch kind {
		case 0: // no align time
			ts = base + off()
		case 1: // clamp region: timestamp below one span, align time next to it
			a := r.U64() % uint64(2*S+1)
			alignP = &a
			ts = int64(r.U64() % uint64(S))
		case 2: // align time near 1970, realistic timestamp
			a := r.U64() % uint64(S+2)
			alignP = &a
			ts = base + off()
		case 3: // align time far in the future
			a := uint64(base + 3000*S + int64(r.U64()%uint64(S)))
			alignP = &a
			ts = base + off()
		default: // timestamps on both sides of the align time
			a := uint64(base)
			alignP = &a
			ts = base + off()
		}
		if ts < S && kind != 1 {
			ts += 70 * S
		}
		b1, err1 := processor.VerifC04BinTime(float64(ts), float64(nn), u.TU, alignP)
		b2, err2 := aggregations.VerifC04LegacyBinTime(float64(ts), float64(nn), u.TU, alignP)
		al := "None"
		desc := "no aligntime"
		if alignP != nil {
			al = fmt.Sprintf("(Some %d)", *alignP)
			desc = fmt.Sprintf("aligntime=%d (ts - aligntime = %d ms)", *alignP, ts-int64(*alignP))
		}
		sum.Eval(fmt.Sprintf("bincall/%s/%d/%s/%d", u.Name, nn, al, ts), alignP != nil && ts < int64(*alignP))
		side := "no_align"
		if alignP != nil {
			switch {
			case u.Ms >= 86400000:
				side = "align_ignored_day_week"
			case ts < int64(*alignP):
				side = "before_align"
			case ts == int64(*alignP):
				side = "at_align"
			default:
				side = "after_align"
			}
		}
		sum.Count("bin_direct/" + side)
		sum.Count("bin_direct_unit/" + u.Name)
		if err1 != nil || err2 != nil {
			sum.Fail("bin_time_call_fails", fmt.Sprintf("span=%d%s %s ts=%d: %v / %v", nn, u.Name, desc, ts, err1, err2),
				map[string]interface{}{"unit": u.Name, "n": nn, "align": alignP, "ts": ts})
			continue
		}
		items = append(items, fmt.Sprintf("(%s, %d, %s, %d, %s, %s)", u.Coq, nn, al, ts, strconv.FormatUint(b1, 10), strconv.FormatUint(b2, 10)))
		for ci, b := range []uint64{b1, b2} {
			copyName := []string{"query/processor (new pipeline)", "aggregations (row-based pipeline)"}[ci]
			cas := map[string]interface{}{"unit": u.Name, "n": nn, "align": alignP, "ts": ts, "bucket": b, "copy": copyName}
			if !(int64(b) <= ts && ts-int64(b) < S) {
				sum.Fail("bin_time_bucket_does_not_contain_ts", fmt.Sprintf("%s: span=%d%s (%d ms) %s ts=%d -> bucket %d, whose span [%d,%d) does not contain ts",
					copyName, nn, u.Name, S, desc, ts, b, b, int64(b)+S), cas)
				break
			}
			if alignP != nil && u.Ms < 86400000 && !(b == 0 && ts < S) {
				d := int64(b) - int64(*alignP)
				if d-floorDiv(d, S)*S != 0 {
					sum.Fail("bin_time_bucket_not_aligned_to_aligntime", fmt.Sprintf("%s: span=%d%s %s ts=%d -> bucket %d", copyName, nn, u.Name, desc, ts, b), cas)
					break
				}
			}
		}
		if b1 != b2 {
			sum.Fail("bin_time_pipeline_copies_disagree", fmt.Sprintf("span=%d%s %s ts=%d: new pipeline %d, row-based pipeline %d", nn, u.Name, desc, ts, b1, b2),
				map[string]interface{}{"unit": u.Name, "n": nn, "align": alignP, "ts": ts, "new": b1, "legacy": b2})
		}
		if len(items) >= 1000 {
			flush()
		}
	}
	flush()
}

// C04 harness, distinct count over values at the edges of the numeric types (stream dc_edge):
//
//	dc(x) / estdc(x) / estdc_error(x) without BY, with BY (one and two keys), in timechart (with and without BY),
//	through every route (ingest-time .sst records of rotated segments, query-time records of the raw-record path,
//	the stats processor of the pipeline path, the per-group sketches of the group-by and timechart paths, merged
//	across blocks and segments), over a field x whose values come from ONE edge domain per dataset:
//	adjacent integers above 2^53 (ids around 2^60 / 2^62, nanosecond epochs, the top of int64), below -2^53 (down
//	to -2^63), around 2^53 itself, uint64 above 2^63, adjacent float64 above 2^53, small integers / floats
//	(control), numeric strings (small, one form per number; decimal strings of adjacent big integers), plain
//	strings, hundreds of adjacent big integers (sketch error instead of exactness), and - as the stream of the
//	known class dc_counts_number_forms_separately - integers next to numerically equal floats (5 and 5.0).
//
// Oracle (property text: "distinct-count ... within [its] sketch error ... of the aggregate computed directly over
// exactly the events matched"): the reported count equals the number of MATHEMATICALLY distinct values of the
// matched events of the group / bucket (exact rationals; strings by their text) - exactly up to dcExact distinct
// values, within dcTolPct percent above.  A wrong count is classified by what it does equal: the number of distinct
// float64 images of the values (distinct integers merged by a conversion to float64), the number of distinct stored
// forms (one number counted once per representation), or neither.
//
// Coq (model/AggDc.v): every judged set of values goes to a case file as the list of STORED values (int64 / float64
// bits / string bytes); the model's count = number of distinct hash keys (the 8 little-endian bytes of the stored
// number, the bytes of the string) must equal the reported count.
package main

import (
	"fmt"
	"math"
	"math/big"
	"sort"
	"strconv"
	"strings"

	"verifharness/vhlib"
)

const dcExact = 100 // up to this many distinct values the sketch is exact (explicit / sparse storage, measured)
const dcTolPct = 2  // above: +-2 % (log2m = 16: standard error 0.41 %)

var dcDomains = []string{
	"ints_adjacent_around_2p60", "ints_adjacent_around_2p53", "ints_nanosecond_epochs", "ints_adjacent_below_minus_2p53",
	"ints_int64_edges", "uint64_above_2p63", "floats_adjacent_above_2p53", "ints_small", "floats_small",
	"numeric_strings_small", "numeric_strings_adjacent_big_integers", "strings", "ints_many_adjacent_above_2p53",
	"ints_mixed_magnitudes",
}

const dcFormsDomain = "ints_and_numerically_equal_floats" // stream of the known class dc_counts_number_forms_separately
const dcFormsClass = "dc_counts_number_forms_separately"

// FIXED finding (df5c019; known/C04.json lists it as fixed, so a regression is a VIOLATION under the old name): without
// BY, the query-time record (stats.AddSegStatsStr) hashed the float64 a string-typed number parses to, the ingest-time
// record (.sst) and the group-by / timechart sketches hash the string itself.  The no-BY queries of the two
// numeric-string domains were this class's stream; they are ordinary queries now, the signature is kept.
const dcNumStrClass = "stats_dc_numeric_strings_hashed_as_float64"

func bigPow2(k uint) *big.Int { return new(big.Int).Lsh(big.NewInt(1), k) }

// a numeric JSON literal (kind "num"): integer or decimal text, written into the document as it is
func numLit(s string) Val { return Val{K: "num", S: s} }

// the pool of distinct values of a domain
func dcPool(r *vhlib.Rng, dom string, m int) []Val {
	var pool []Val
	addInt := func(z *big.Int) {
		if z.IsInt64() {
			pool = append(pool, Val{K: "int", I: z.Int64()})
		} else {
			pool = append(pool, numLit(z.String()))
		}
	}
	step := func() int64 { return int64(vhlib.Pick(r, []int{1, 1, 1, 2, 3})) }
	run := func(base *big.Int, dir int64) {
		z := new(big.Int).Set(base)
		for i := 0; i < m; i++ {
			addInt(z)
			z = new(big.Int).Add(z, big.NewInt(dir*step()))
		}
	}
	switch dom {
	case "ints_adjacent_around_2p60", "ints_many_adjacent_above_2p53":
		base := bigPow2(uint(vhlib.Pick(r, []int{54, 57, 60, 60, 62})))
		base.Add(base, big.NewInt(int64(r.Range(-5, 1000))))
		run(base, 1)
	case "ints_adjacent_around_2p53":
		base := bigPow2(53)
		base.Add(base, big.NewInt(int64(r.Range(-m, 2))))
		run(base, 1)
	case "ints_nanosecond_epochs":
		base := new(big.Int).Mul(big.NewInt(int64(T0)), big.NewInt(1000000))
		base.Add(base, big.NewInt(int64(r.Range(0, 999999999))))
		run(base, 1)
	case "ints_adjacent_below_minus_2p53":
		base := bigPow2(uint(vhlib.Pick(r, []int{53, 55, 60, 62})))
		base.Neg(base)
		base.Add(base, big.NewInt(int64(r.Range(-3, 3))))
		run(base, -1)
	case "ints_int64_edges":
		// the last values below 2^63 and the first ones above -2^63
		top := new(big.Int).Sub(bigPow2(63), big.NewInt(1))
		bot := new(big.Int).Neg(bigPow2(63))
		for i := 0; i < m; i++ {
			if i%2 == 0 {
				addInt(new(big.Int).Sub(top, big.NewInt(int64(i/2))))
			} else {
				addInt(new(big.Int).Add(bot, big.NewInt(int64(i/2))))
			}
		}
	case "uint64_above_2p63":
		// beyond int64 a JSON integer is stored as float64 (ingest, see C16): values that ARE float64 (multiples of 2048)
		base := bigPow2(63)
		for i := 0; i < m; i++ {
			z := new(big.Int).Add(base, big.NewInt(2048*int64(i)))
			if i%3 == 2 { // the top of uint64
				z = new(big.Int).Sub(bigPow2(64), big.NewInt(2048*int64(i+1)))
			}
			addInt(z)
		}
	case "floats_adjacent_above_2p53":
		// neighbouring float64 values: 2^k + i * ulp, written with a fraction part so that they are stored as floats
		k := uint(vhlib.Pick(r, []int{53, 56, 60}))
		ulp := new(big.Int).Lsh(big.NewInt(1), k-52)
		for i := 0; i < m; i++ {
			z := new(big.Int).Add(bigPow2(k), new(big.Int).Mul(ulp, big.NewInt(int64(i))))
			pool = append(pool, numLit(z.String()+".0"))
		}
	case "ints_small":
		base := int64(r.Range(-30, 5))
		for i := 0; i < m; i++ {
			pool = append(pool, Val{K: "int", I: base + int64(i)})
		}
	case "floats_small":
		base := int64(r.Range(-8, 8))
		for i := 0; i < m; i++ {
			pool = append(pool, Val{K: "flt", Q: (base+int64(i/3))*FS + int64([]int{128, 512, 768}[i%3])})
		}
	case "numeric_strings_small":
		// string-typed numbers, one text per number
		for i := 0; i < m; i++ {
			if i%3 == 2 {
				pool = append(pool, Val{K: "numstr", S: strconv.Itoa(200+i) + ".5"})
			} else {
				pool = append(pool, Val{K: "numstr", S: strconv.Itoa(100 + i)})
			}
		}
	case "numeric_strings_adjacent_big_integers":
		base := bigPow2(uint(vhlib.Pick(r, []int{54, 60, 62})))
		z := new(big.Int).Add(base, big.NewInt(int64(r.Range(0, 1000))))
		for i := 0; i < m; i++ {
			pool = append(pool, Val{K: "numstr", S: z.String()})
			z = new(big.Int).Add(z, big.NewInt(step()))
		}
	case "strings":
		for i := 0; i < m; i++ {
			pool = append(pool, Val{K: "str", S: fmt.Sprintf("%s%d", vhlib.Pick(r, strPool), i)})
		}
	case "ints_mixed_magnitudes":
		// small and huge integers of both signs in one column
		for i := 0; i < m; i++ {
			switch i % 4 {
			case 0:
				pool = append(pool, Val{K: "int", I: int64(i)})
			case 1:
				pool = append(pool, Val{K: "int", I: int64(1)<<60 + int64(i)})
			case 2:
				pool = append(pool, Val{K: "int", I: -(int64(1) << 58) - int64(i)})
			default:
				pool = append(pool, Val{K: "int", I: int64(1)<<53 + int64(i)})
			}
		}
	case dcFormsDomain:
		for i := 0; i < m; i++ {
			n := int64(3 + i/2)
			if i%2 == 0 {
				pool = append(pool, Val{K: "int", I: n})
			} else {
				pool = append(pool, numLit(strconv.FormatInt(n, 10)+".0"))
			}
		}
	}
	return pool
}

// ---------- the value of x under three readings ----------
func xRat(v Val) *big.Rat {
	switch v.K {
	case "int":
		return new(big.Rat).SetInt64(v.I)
	case "flt":
		return big.NewRat(v.Q, FS)
	case "num", "numstr":
		if rr, ok := new(big.Rat).SetString(v.S); ok {
			return rr
		}
	}
	return nil
}

// mathematical identity: numbers (also string-typed ones) by value, other strings by text
func mathID(v Val) string {
	if rr := xRat(v); rr != nil {
		return "#" + rr.RatString()
	}
	return "$" + v.S
}

// the float64 nearest to the value (what a conversion to float64 makes of it)
func xFloat(v Val) (float64, bool) {
	switch v.K {
	case "int":
		return float64(v.I), true
	case "flt":
		f, _ := big.NewRat(v.Q, FS).Float64()
		return f, true
	case "num", "numstr":
		f, err := strconv.ParseFloat(v.S, 64)
		return f, err == nil
	}
	return 0, false
}
func floatID(v Val) string {
	if f, ok := xFloat(v); ok {
		return fmt.Sprintf("f%016x", math.Float64bits(f))
	}
	return "$" + v.S
}

// how the value is stored (observed rule of the ingest path, C16): a JSON integer within int64 as int64, every
// other JSON number as float64, a JSON string as its bytes
func isIntLit(s string) bool { return !strings.ContainsAny(s, ".eE") }
func storedCoq(v Val) (id string, coq string) {
	switch v.K {
	case "int":
		return "i" + strconv.FormatInt(v.I, 10), "SInt " + vhlib.CoqZ(v.I)
	case "num":
		if isIntLit(v.S) {
			if i, err := strconv.ParseInt(v.S, 10, 64); err == nil {
				return "i" + v.S, "SInt " + vhlib.CoqZ(i)
			}
		}
		fallthrough
	case "flt":
		f, _ := xFloat(v)
		b := math.Float64bits(f)
		return fmt.Sprintf("f%016x", b), fmt.Sprintf("SFlt %d%%N", b)
	}
	return "$" + v.S, "SStr " + coqStr(v.S)
}

type dcExactT struct {
	Want, AsFloat, Forms int
	Typed                string // "int" | "str" | "" : type of the values that collide as float64
	Coq                  []string
}

func dcExactOf(evs []Ev) dcExactT {
	m, f, s := map[string]bool{}, map[string]string{}, map[string]bool{}
	x := dcExactT{}
	for _, e := range evs {
		if e.X == nil || !e.X.present() {
			continue
		}
		v := *e.X
		mid := mathID(v)
		m[mid] = true
		fid := floatID(v)
		if old, ok := f[fid]; ok && old != mid && x.Typed == "" {
			x.Typed = "int"
			if v.K == "numstr" {
				x.Typed = "str"
			}
		}
		f[fid] = mid
		sid, c := storedCoq(v)
		if !s[sid] {
			x.Coq = append(x.Coq, c)
		}
		s[sid] = true
	}
	x.Want, x.AsFloat, x.Forms = len(m), len(f), len(s)
	return x
}

func dcTol(n int) int {
	if n <= dcExact {
		return 0
	}
	return (n*dcTolPct + 99) / 100
}
func within(got float64, n int) bool { return math.Abs(got-float64(n)) <= float64(dcTol(n)) }

// ---------- generation ----------
func genDc(r *vhlib.Rng, thorough bool, idx int) *Dataset {
	doms := append(append([]string{}, dcDomains...), dcFormsDomain)
	dom := doms[idx%len(doms)]
	n := r.Range(10, 36)
	m := r.Range(3, n)
	gap := 2500
	if dom == "ints_many_adjacent_above_2p53" {
		n = r.Range(260, 420)
		if thorough && r.Chance(50) {
			n = r.Range(1000, 3000)
		}
		m = n - r.Range(0, 40)
		gap = 40
	}
	pool := dcPool(r, dom, m)
	ds := &Dataset{Stream: "dc_edge", FKind: dom, GKind: "dense", SpanS: vhlib.Pick(r, []int{2, 3, 5, 10})}
	sparse := r.Chance(30)
	ts := T0 + uint64(r.Range(0, 3000))
	for i := 0; i < n; i++ {
		v := pool[r.Intn(len(pool))]
		if i < len(pool) && r.Chance(70) {
			v = pool[i] // most pool values occur, many of them more than once
		}
		e := Ev{ID: i, Ts: ts, F: Val{K: "abs"}, D: genD(r), G: genG(r, "dense"), K: int64(r.Range(1, 3)), C: vhlib.Pick(r, []string{"u", "u", "v"}), X: &v}
		if sparse && r.Chance(15) {
			e.X = nil
		}
		ds.Evs = append(ds.Evs, e)
		ts += uint64(r.Range(2, gap))
	}
	if n > 100 {
		// few, large batches (hundreds of flushes would take minutes): 2..5 batches, each flushed or rotated
		nb := r.Range(2, 5)
		per := (n + nb - 1) / nb
		seg := 0
		for i := range ds.Evs {
			ds.Evs[i].Batch = i / per
		}
		for b := 0; b*per < n; b++ {
			mode := vhlib.Pick(r, []string{"f", "r"})
			ds.Modes = append(ds.Modes, mode)
			for i := range ds.Evs {
				if ds.Evs[i].Batch == b {
					ds.Evs[i].Seg = seg
				}
			}
			if mode == "r" {
				seg++
			}
		}
	} else {
		ds.Modes = layout(r, ds.Evs)
	}
	// (restriction "every flush batch holds x" lifted with fix ccfa9a9: a BLOCK without the measured column inside a segment
	// that has it used to be read as the previously loaded block, class
	// groupby_block_without_measure_column_reads_previous_block; a whole SEGMENT without the column was dropped before fix
	// babf5fd.)  Both are ordinary input now; a sparse dataset makes sure it has such a block: one flush batch loses x.
	if sparse && len(ds.Modes) > 1 {
		for _, i := range batchIdx(ds.Evs, r.Range(0, len(ds.Modes)-1)) {
			ds.Evs[i].X = nil
		}
	}
	last := ds.Evs[n-1].Ts
	ds.Start = T0 - uint64(r.Range(0, 5000))
	ds.End = last + 1 + uint64(r.Range(0, 2*ds.SpanS*1000))
	q := func(kind, text, by string, f func(*Query)) {
		expect := ""
		if dom == dcFormsDomain {
			expect = dcFormsClass
		}
		qq := Query{Kind: kind, Text: text, Field: "x", By: by, Start: ds.Start, End: ds.End, Expect: expect}
		if f != nil {
			f(&qq)
		}
		ds.Queries = append(ds.Queries, qq)
	}
	cu := func(x *Query) { x.FilterC = "u" }
	// without BY: .sst / segment-level records, raw-record path (filter), pipeline path
	q("dc", "* | stats dc(x)", "", nil)
	q("dc", "* | stats count, dc(x), estdc_error(x)", "", nil)
	q("dc", "* | stats estdc(x)", "", nil)
	q("dc", `c="u" | stats dc(x), count`, "", cu)
	q("dc", "* | eval zz=1 | stats dc(x), estdc_error(x)", "", nil)
	// with BY: pushed-down group-by, after a filter, pipeline path, two keys
	q("dcby", "* | stats dc(x) by g", "g", nil)
	q("dcby", "* | stats count, dc(x), estdc_error(x) by k", "k", nil)
	q("dcby", `c="u" | stats estdc(x), count by g`, "g", cu)
	q("dcby", "* | eval zz=1 | stats dc(x) by g", "g", nil)
	q("dcby", "* | stats dc(x) by g, k", "g,k", nil)
	// timechart
	q("dctc", fmt.Sprintf("* | timechart span=%ds dc(x)", ds.SpanS), "", nil)
	q("dctc", fmt.Sprintf("* | timechart span=%ds dc(x) by g", ds.SpanS), "g", nil)
	q("dctc", fmt.Sprintf(`c="u" | timechart span=%ds estdc(x) by k`, ds.SpanS), "k", cu)
	// a range that cuts through the blocks
	if n >= 6 {
		i, j := r.Range(1, n/2), r.Range(n/2, n-2)
		cut := func(x *Query) { x.Start, x.End, x.Cut = ds.Evs[i].Ts, ds.Evs[j].Ts+1, "both_ends_inside_data" }
		q("dc", "* | stats dc(x), count", "", cut)
		q("dcby", "* | stats dc(x), count by g", "g", cut)
	}
	return ds
}

// ---------- oracle ----------
var dcCases []string

func (c *checker) judgeDc(route, where string, evs []Ev, v WValue, ok bool) bool {
	x := dcExactOf(evs)
	c.mu.Lock()
	c.sum.Count("dc_edge/" + route)
	c.mu.Unlock()
	if !ok {
		c.fail(route+"_dc_missing", fmt.Sprintf("%s: no cardinality(x) in the result (%d distinct values)", where, x.Want))
		return false
	}
	got, isNum := obsRat(v)
	if !isNum || !got.IsInt() {
		c.fail(route+"_dc_not_a_count", fmt.Sprintf("%s: cardinality(x) = %v", where, v))
		return false
	}
	g, _ := got.Float64()
	// the model's count (distinct hash keys of the stored values) against the reported one, inside Coq
	if x.Forms <= dcExact {
		c.mu.Lock()
		dcCases = append(dcCases, fmt.Sprintf("(%s, %s)", vhlib.CoqList(x.Coq), coqBig(got.Num())))
		c.mu.Unlock()
	}
	if within(g, x.Want) {
		return true
	}
	detail := fmt.Sprintf("%s: dc(x) = %s, the matched events hold %d distinct values (tolerance %d)", where, got.RatString(), x.Want, dcTol(x.Want))
	if route == "stats" && c.onlyNumStr(evs) && g >= float64(x.AsFloat) && g <= float64(x.Want+x.AsFloat) {
		// signature of the fixed finding df5c019 (a regression)
		// each block went either through the ingest-time record (string hashed) or through the query-time record (float64 hashed)
		c.fail(dcNumStrClass, detail+fmt.Sprintf("; string-typed numbers: %d distinct strings, %d distinct float64 images; a block read at query time hashes the float64 (different strings with one float64 image count once%s), a block answered from its .sst record hashes the string (one string counted once per route)",
			x.Want, x.AsFloat, func() string {
				if s := dcCollision(evs); s != "" {
					return ", e.g. " + s
				}
				return ""
			}()))
		return false
	}
	switch {
	case x.AsFloat < x.Want && within(g, x.AsFloat):
		what := "integers"
		cls := route + "_dc_merges_integers_beyond_float64_precision"
		if x.Typed == "str" {
			what = "string-typed numbers"
			cls = route + "_dc_merges_numeric_strings_beyond_float64_precision"
		}
		c.fail(cls, detail+fmt.Sprintf("; %d is the number of distinct float64 images: different %s that round to one float64 are counted once, e.g. %s", x.AsFloat, what, dcCollision(evs)))
	case x.Forms > x.Want && within(g, x.Forms):
		c.fail(dcFormsClass, detail+fmt.Sprintf("; %d is the number of distinct stored forms (int64 / float64 / string) of these values", x.Forms))
	default:
		c.fail(route+"_dc_outside_sketch_error", detail+fmt.Sprintf(" (distinct float64 images %d, distinct stored forms %d)", x.AsFloat, x.Forms))
	}
	return false
}

// all values of x are string-typed numbers
func (c *checker) onlyNumStr(evs []Ev) bool {
	n := 0
	for _, e := range evs {
		if e.X != nil && e.X.present() {
			if e.X.K != "numstr" {
				return false
			}
			n++
		}
	}
	return n > 0
}

// two different values of the events with one float64 image
func dcCollision(evs []Ev) string {
	seen := map[string]Val{}
	for _, e := range evs {
		if e.X == nil || !e.X.present() {
			continue
		}
		fid := floatID(*e.X)
		if o, ok := seen[fid]; ok && mathID(o) != mathID(*e.X) {
			a, _ := o.json()
			b, _ := e.X.json()
			f, _ := xFloat(o)
			return fmt.Sprintf("%s and %s (both %s as float64)", a, b, strconv.FormatFloat(f, 'f', -1, 64))
		}
		seen[fid] = *e.X
	}
	return ""
}

func (c *checker) evalDc(o WObs, evs []Ev) {
	q := c.q
	switch q.Kind {
	case "dc":
		if len(o.Rows) != 1 {
			if len(evs) == 0 && len(o.Rows) == 0 {
				return
			}
			c.fail("stats_row_count", fmt.Sprintf("%d result rows for a stats without by-clause", len(o.Rows)))
			return
		}
		row := o.Rows[0]
		if n := rowCount(row); n >= 0 && n != len(evs) {
			c.fail("stats_count_all_mismatch", fmt.Sprintf("count %d, %d events match", n, len(evs)))
			return
		}
		v, ok := row.M["cardinality(x)"]
		if c.judgeDc("stats", "whole result", evs, v, ok) {
			c.checkErr(row, "estdc_error(x)", "whole result")
		}
	case "dcby":
		want := map[string][]Ev{}
		for _, e := range evs {
			k, _ := groupKeyOf(e, q.By)
			want[k] = append(want[k], e)
		}
		seen := map[string]bool{}
		for _, row := range o.Rows {
			k := strings.Join(row.G, "\x1f")
			ge, ok := want[k]
			if !ok || seen[k] {
				c.fail("group_unexpected_key", fmt.Sprintf("result has group %q (repeated: %v), matched events have %d keys", k, seen[k], len(want)))
				return
			}
			seen[k] = true
			if n := rowCount(row); n >= 0 && n != len(ge) {
				c.fail("groupby_count_all_mismatch", fmt.Sprintf("group %q: count %d, %d events match", k, n, len(ge)))
				return
			}
			v, has := row.M["cardinality(x)"]
			if !c.judgeDc("groupby", fmt.Sprintf("group %s=%q", q.By, strings.Join(row.G, ",")), ge, v, has) {
				return
			}
			c.checkErr(row, "estdc_error(x)", "group "+k)
		}
		for k := range want {
			if !seen[k] {
				c.fail("group_key_missing", fmt.Sprintf("group %q (%d events) is not in the result", k, len(want[k])))
				return
			}
		}
	case "dctc":
		span := uint64(c.ds.SpanS) * 1000
		type cell struct {
			b uint64
			k string
		}
		want := map[cell][]Ev{}
		for _, e := range evs {
			b := q.Start + (e.Ts-q.Start)/span*span
			k := ""
			if q.By != "" {
				k = field(e, q.By).keyText()
			}
			want[cell{b, k}] = append(want[cell{b, k}], e)
		}
		rows := map[uint64]WRow{}
		for _, row := range o.Rows {
			b, ok := parseU(strings.Join(row.G, ""))
			if !ok {
				c.fail("timechart_bucket_key", fmt.Sprintf("bucket key %v", row.G))
				return
			}
			rows[b] = row
		}
		var cells []cell
		for ce := range want {
			cells = append(cells, ce)
		}
		sort.Slice(cells, func(i, j int) bool {
			return cells[i].b < cells[j].b || (cells[i].b == cells[j].b && cells[i].k < cells[j].k)
		})
		for _, ce := range cells {
			row, ok := rows[ce.b]
			if !ok {
				c.fail("timechart_bucket_missing", fmt.Sprintf("bucket %d (%d events) is not in the result", ce.b, len(want[ce])))
				return
			}
			name := "cardinality(x)"
			where := fmt.Sprintf("bucket %d", ce.b)
			if q.By != "" {
				name += ": " + ce.k
				where += fmt.Sprintf(" %s=%q", q.By, ce.k)
			}
			v, has := row.M[name]
			if !c.judgeDc("timechart", where, want[ce], v, has) {
				return
			}
		}
		// a bucket / by-value without events reports 0
		for b, row := range rows {
			for name, v := range row.M {
				if !strings.HasPrefix(name, "cardinality(x)") {
					continue
				}
				k := strings.TrimPrefix(strings.TrimPrefix(name, "cardinality(x)"), ": ")
				if _, ok := want[cell{b, k}]; ok {
					continue
				}
				if got, isNum := obsRat(v); isNum && got.Sign() != 0 {
					c.fail("timechart_dc_in_empty_bucket", fmt.Sprintf("bucket %d %s=%q: dc(x) = %s, no matched event there", b, q.By, k, got.RatString()))
					return
				}
			}
		}
	}
}

// estdc_error: a relative error in [0, 1); 0 while the sketch stores the hashes themselves
func (c *checker) checkErr(row WRow, name, where string) {
	v, ok := row.M[name]
	if !ok {
		if strings.Contains(c.q.Text, "estdc_error") {
			c.fail("estdc_error_missing", where+": no "+name+" in the result")
		}
		return
	}
	got, isNum := obsRat(v)
	if !isNum {
		c.fail("estdc_error_not_a_number", fmt.Sprintf("%s: %s = %v", where, name, v))
		return
	}
	f, _ := got.Float64()
	if f < 0 || f >= 1 {
		c.fail("estdc_error_out_of_range", fmt.Sprintf("%s: %s = %v", where, name, f))
	}
}

func flushDcCases(sum *vhlib.Summary, out string, shard *int, force bool) {
	for len(dcCases) >= 150 || (force && len(dcCases) > 0) {
		n := len(dcCases)
		if n > 150 {
			n = 150
		}
		defs := "Open Scope Z_scope.\nDefinition cases : list (list sval * Z) := " + vhlib.CoqListNL(dcCases[:n]) + ".\n"
		sum.WriteCaseFile(out, fmt.Sprintf("cases_c04_dc_%d", *shard), "From SigM Require Import Base Agg AggDc AggDcCheck.\n", defs, "check_dc cases 0", n)
		dcCases = dcCases[n:]
		*shard++
	}
}

// ---------- float64(int64) / float64(uint64) driven directly: ties the model's f64_of_Z to the conversion the code uses ----------
func f64convCases(r *vhlib.Rng, sum *vhlib.Summary, out string, n int) {
	var items []string
	add := func(z *big.Int) {
		var f float64
		if z.IsInt64() {
			f = float64(z.Int64())
		} else if z.IsUint64() {
			f = float64(z.Uint64())
		} else {
			return
		}
		items = append(items, fmt.Sprintf("(%s, %d%%N)", coqBig(z), math.Float64bits(f)))
		sum.Eval("f64conv/"+z.String(), new(big.Int).Abs(z).BitLen() > 53)
		sum.Count("f64conv_direct")
	}
	for _, k := range []uint{0, 1, 2, 10, 31, 32, 52, 53, 54, 55, 60, 61, 62, 63} {
		for d := int64(-3); d <= 3; d++ {
			z := new(big.Int).Add(bigPow2(k), big.NewInt(d))
			add(z)
			add(new(big.Int).Neg(z))
		}
	}
	add(new(big.Int).Sub(bigPow2(64), big.NewInt(1)))
	add(new(big.Int).Sub(bigPow2(64), big.NewInt(1024)))
	add(new(big.Int).Sub(bigPow2(64), big.NewInt(1025)))
	for len(items) < n {
		k := uint(r.Range(1, 63))
		z := new(big.Int).SetUint64(r.U64() >> (64 - k))
		switch r.Intn(4) {
		case 0: // exactly half-way between two float64 (ties to even) and its neighbours
			if k > 54 {
				sh := k - 53
				z.Rsh(z, sh).Lsh(z, sh).Add(z, bigPow2(sh-1)).Add(z, big.NewInt(int64(r.Range(-1, 1))))
			}
		case 1:
			z.Neg(z)
		}
		add(z)
	}
	defs := "Open Scope Z_scope.\nDefinition cases : list (Z * N) := " + vhlib.CoqListNL(items) + ".\n"
	sum.WriteCaseFile(out, "cases_c04_f64conv_0", "From SigM Require Import Base Agg AggDc AggDcCheck.\n", defs, "check_f64conv cases 0", len(items))
}

// C04 harness: stats / stats-by / timechart / bin results of the real siglens query path against
// the aggregate computed directly (exact rationals) over exactly the matched events.
//
//   - datasets are generated from the seed (vhlib.Rng only): a "wild" measure field f (integers,
//     dyadic floats, numeric strings, other strings, absent, duplicates), a dense numeric field d,
//     a wild group field g (sparse / mixed type / absent), a dense small key k; several
//     segmentations (flush every j events, forced rotation);
//   - each dataset runs in its own worker process (fresh store), worker.go;
//   - the property oracle compares every reported measure with the exact value (sets for groups and
//     buckets); every query must come back without error (class stats_fails_on_sparse_group_field);
//   - the same observations go to Coq case files where the model (Agg.v: merge over the actual
//     blocks; group bucket as coded; Bucket.v: find_bucket) must reproduce them;
//   - FindTimeRangeBucket is also driven directly on thousands of (start, end, step, ts);
//   - time bucketing with an alignment origin (`bin span= aligntime=`, every span unit, events on both
//     sides of the origin; `timechart span=<n><unit>`; direct calls of performBinWithSpanTime): bin.go;
//   - distinct count over values at the edges of the numeric types (integers above 2^53 that differ by 1, the
//     ends of int64, uint64 above 2^63, adjacent float64, numeric strings), with and without BY, in timechart,
//     through every route: dc.go;
//   - known-defect inputs are generated in separate streams, one per class (known/C04.json).
package main

import (
	"context"
	"encoding/json"
	"fmt"
	"math"
	"math/big"
	"os"
	"os/exec"
	"path/filepath"
	"regexp"
	"sort"
	"strconv"
	"strings"
	"sync"
	"time"

	"github.com/siglens/siglens/pkg/segment/aggregations"
	"github.com/siglens/siglens/pkg/segment/structs"

	"verifharness/vhlib"
)

func fmtFloat(x float64) string { return strconv.FormatFloat(x, 'g', -1, 64) }

const T0 = uint64(1700000000000)
const listLimit = 100 // sutils.MAX_SPL_LIST_SIZE
const FS = 1024

// ---------- values ----------
type Val struct {
	K string `json:"k"`           // abs | int | flt | numstr | str | bool | null
	I int64  `json:"i,omitempty"` // int value / bool (0,1)
	Q int64  `json:"q,omitempty"` // flt, numstr: value * 1024
	S string `json:"s,omitempty"` // numstr text, str text
}

func (v Val) present() bool { return v.K != "abs" && v.K != "null" }
func (v Val) numeric() bool { return v.K == "int" || v.K == "flt" || v.K == "numstr" }
func (v Val) rat() *big.Rat {
	switch v.K {
	case "int":
		return new(big.Rat).SetInt64(v.I)
	case "flt", "numstr":
		return big.NewRat(v.Q, FS)
	}
	return nil
}
func dyadicText(q int64) string { // exact decimal text of q/1024
	return new(big.Rat).SetFrac64(q, FS).FloatString(10)
}
func trimZeros(s string) string {
	if strings.Contains(s, ".") {
		s = strings.TrimRight(s, "0")
		s = strings.TrimSuffix(s, ".")
	}
	return s
}
func (v Val) json() (string, bool) {
	switch v.K {
	case "abs":
		return "", false
	case "null":
		return "null", true
	case "int":
		return strconv.FormatInt(v.I, 10), true
	case "flt":
		return trimZeros(dyadicText(v.Q)), true
	case "num": // a numeric JSON literal written as it is (dc.go)
		return v.S, true
	case "numstr", "str":
		b, _ := json.Marshal(v.S)
		return string(b), true
	case "bool":
		if v.I == 1 {
			return "true", true
		}
		return "false", true
	}
	return "", false
}

// display form of a group key as the API prints it
func (v Val) keyText() string {
	switch v.K {
	case "int":
		return strconv.FormatInt(v.I, 10)
	case "flt":
		return trimZeros(dyadicText(v.Q))
	case "numstr", "str":
		return v.S
	case "bool":
		if v.I == 1 {
			return "true"
		}
		return "false"
	}
	return ""
}
func (v Val) coqM() string {
	switch v.K {
	case "int":
		return "MInt " + vhlib.CoqZ(v.I)
	case "flt":
		return "MFlt " + vhlib.CoqZ(v.Q)
	case "numstr":
		return "MNumStr " + coqStr(v.S) + " " + vhlib.CoqZ(v.Q)
	case "str":
		return "MStr " + coqStr(v.S)
	}
	return "MAbs"
}
func coqStr(s string) string { return "(" + vhlib.CoqStr(s) + "%N)" }

type Ev struct {
	ID    int    `json:"id"`
	Ts    uint64 `json:"ts"`
	F     Val    `json:"f"`
	D     Val    `json:"d"`
	G     Val    `json:"g"`
	K     int64  `json:"kk"`
	C     string `json:"c"`           // low-cardinality string column (dictionary encoded): "u" | "v"
	X     *Val   `json:"x,omitempty"` // stream dc_edge: the field whose distinct values are counted (dc.go)
	Batch int    `json:"b"`
	Seg   int    `json:"seg"`
}

func (e Ev) doc() string {
	var sb strings.Builder
	fmt.Fprintf(&sb, "{\"timestamp\":%d,\"id\":%d,\"k\":%d,\"c\":%q", e.Ts, e.ID, e.K, e.C)
	for _, p := range []struct {
		n string
		v Val
	}{{"f", e.F}, {"d", e.D}, {"g", e.G}} {
		if s, ok := p.v.json(); ok {
			fmt.Fprintf(&sb, ",%q:%s", p.n, s)
		}
	}
	if e.X != nil {
		if s, ok := e.X.json(); ok {
			fmt.Fprintf(&sb, ",\"x\":%s", s)
		}
	}
	sb.WriteString("}")
	return sb.String()
}

type Dataset struct {
	Stream  string   `json:"stream"`
	FKind   string   `json:"fkind"`
	GKind   string   `json:"gkind"`
	Evs     []Ev     `json:"evs"`
	Modes   []string `json:"modes"` // per batch: "f" flush, "r" flush+rotate
	Start   uint64   `json:"start"`
	End     uint64   `json:"end"`
	SpanS   int      `json:"span_s"`
	Place   string   `json:"place,omitempty"` // stream bin_origin: where the align time lies relative to the events
	Queries []Query  `json:"queries"`
}

// Query kinds:
//
//	stats   : no group; Field = measured field; VL (values/list), TS (earliest/latest), Filter (id >= n)
//	group   : stats ... by By (g | k | nosuch | g,k)
//	tc      : timechart span count, sum(d)
//	tcby    : timechart span count by k
//	binal   : bin span=<n><unit> [aligntime=T] timestamp [as x] | stats count, sum(d) by timestamp|x   (bin.go)
//	perc    : stats perc50(d), perc90(d)
type Query struct {
	Kind    string  `json:"kind"`
	Text    string  `json:"text"`
	Field   string  `json:"field,omitempty"`
	VL      bool    `json:"vl,omitempty"`
	TS      bool    `json:"ts,omitempty"`
	Filter  int     `json:"filter,omitempty"`
	FilterC string  `json:"filter_c,omitempty"` // c = "<value>"
	Cut     string  `json:"cut,omitempty"`      // how the time range cuts through the blocks ("" = range encloses all events)
	By      string  `json:"by,omitempty"`
	Start   uint64  `json:"start"`
	End     uint64  `json:"end"`
	Expect  string  `json:"expect,omitempty"` // known class this query is expected to hit ("" = none)
	SpanN   int     `json:"span_n,omitempty"` // span=<SpanN><SpanU> of this query (0: the dataset's SpanS seconds)
	SpanU   string  `json:"span_u,omitempty"`
	Align   *uint64 `json:"align,omitempty"` // aligntime of a bin query (nil: none)
}

// ---------- generation ----------
var strPool = []string{"x", "yy", "zq", "wk", "kx", "qq-z", "x y"[:1] + "w"}

func genF(r *vhlib.Rng, kind string) Val {
	switch kind {
	case "ints":
		return Val{K: "int", I: int64(r.Range(-20, 40))}
	case "dups":
		return Val{K: "int", I: int64(r.Range(1, 3))}
	case "sparse":
		if r.Chance(40) {
			return Val{K: "abs"}
		}
		return Val{K: "int", I: int64(r.Range(-9, 30))}
	case "floats":
		if r.Chance(50) {
			return Val{K: "int", I: int64(r.Range(-10, 20))}
		}
		return Val{K: "flt", Q: int64(r.Range(-10, 20))*FS + int64(vhlib.Pick(r, []int{128, 256, 512, 768}))}
	case "numstr":
		switch r.Intn(4) {
		case 0:
			n := int64(r.Range(100, 130))
			return Val{K: "numstr", S: strconv.FormatInt(n, 10), Q: n * FS}
		case 1:
			q := int64(r.Range(200, 220))*FS + 512
			return Val{K: "numstr", S: trimZeros(dyadicText(q)), Q: q}
		case 2:
			return Val{K: "abs"}
		}
		return Val{K: "int", I: int64(r.Range(-5, 50))}
	case "mixed":
		switch r.Intn(5) {
		case 0:
			return Val{K: "str", S: vhlib.Pick(r, strPool)}
		case 1:
			return Val{K: "abs"}
		case 2:
			return Val{K: "flt", Q: int64(r.Range(0, 9))*FS + 512}
		}
		return Val{K: "int", I: int64(r.Range(-5, 50))}
	case "strs":
		if r.Chance(20) {
			return Val{K: "abs"}
		}
		return Val{K: "str", S: vhlib.Pick(r, strPool)}
	}
	return Val{K: "abs"} // "absent"
}

func genD(r *vhlib.Rng) Val {
	if r.Chance(30) {
		return Val{K: "flt", Q: int64(r.Range(-8, 30))*FS + int64(vhlib.Pick(r, []int{256, 512, 768}))}
	}
	return Val{K: "int", I: int64(r.Range(-15, 60))}
}

func genG(r *vhlib.Rng, kind string) Val {
	switch kind {
	case "dense":
		return Val{K: "str", S: vhlib.Pick(r, []string{"a", "b", "c", "dd"})}
	case "sparse":
		if r.Chance(35) {
			return Val{K: "abs"}
		}
		return Val{K: "str", S: vhlib.Pick(r, []string{"a", "b", "c"})}
	case "mixed":
		switch r.Intn(5) {
		case 0:
			return Val{K: "int", I: int64(r.Range(7, 9))}
		case 1:
			return Val{K: "bool", I: int64(r.Intn(2))}
		case 2:
			return Val{K: "null"}
		}
		return Val{K: "str", S: vhlib.Pick(r, []string{"a", "b"})}
	case "ints":
		return Val{K: "int", I: int64(r.Range(1, 4))}
	}
	return Val{K: "abs"}
}

const statsBase = "count, count(%[1]s), sum(%[1]s), min(%[1]s), max(%[1]s), avg(%[1]s), range(%[1]s), dc(%[1]s)"
const statsVL = ", values(%[1]s), list(%[1]s)"
const statsTS = ", earliest(%[1]s), latest(%[1]s)"

func statsList(field string, vl, ts bool) string {
	s := fmt.Sprintf(statsBase, field)
	if vl {
		s += fmt.Sprintf(statsVL, field)
	}
	if ts {
		s += fmt.Sprintf(statsTS, field)
	}
	return s
}

// layout: events -> batches (flush every j events), some batches end with a rotation
func layout(r *vhlib.Rng, evs []Ev) []string {
	var modes []string
	n := len(evs)
	// 0: one flushed batch; 1: one batch, rotated; 2: flush every j; 3: rotate every j; 4: random mix.
	// Rotated segments are read through the column files (time-range trimming of boundary blocks happens
	// in the aggregation stage), unrotated ones through the in-memory path: both must be cut by ranges.
	style := r.Intn(5)
	j := r.Range(1, 7)
	if style == 3 {
		j = r.Range(2, 8)
	}
	if style <= 1 {
		j = n
	}
	b, seg := 0, 0
	for i := 0; i < n; {
		m := j
		if style == 4 {
			m = r.Range(1, 6)
		}
		if i+m > n {
			m = n - i
		}
		for x := i; x < i+m; x++ {
			evs[x].Batch, evs[x].Seg = b, seg
		}
		mode := "f"
		if style == 1 || style == 3 || (style == 4 && r.Chance(50)) {
			mode = "r"
		}
		modes = append(modes, mode)
		if mode == "r" {
			seg++
		}
		b++
		i += m
	}
	return modes
}

func batchIdx(evs []Ev, b int) []int {
	var ix []int
	for i := range evs {
		if evs[i].Batch == b {
			ix = append(ix, i)
		}
	}
	return ix
}

func genMain(r *vhlib.Rng, thorough, mixedG bool) *Dataset {
	fk := vhlib.Pick(r, []string{"ints", "dups", "sparse", "floats", "numstr", "mixed", "strs", "absent"})
	gk := vhlib.Pick(r, []string{"dense", "sparse", "ints", "absent", "dense", "sparse"})
	if mixedG {
		gk = "mixed"
	}
	n := r.Range(6, 28)
	if thorough && r.Chance(20) {
		n = r.Range(40, 120)
	}
	ds := &Dataset{Stream: "main", FKind: fk, GKind: gk, SpanS: vhlib.Pick(r, []int{2, 3, 4, 5, 7, 10, 60})}
	if mixedG {
		// a by-field of mixed JSON types: must never make a query fail; the same value stored under two
		// types in different blocks splits its group (known class), so this is a stream of its own
		ds.Stream = "mixed_group_key"
	}
	ts := T0 + uint64(r.Range(0, 3000))
	for i := 0; i < n; i++ {
		ds.Evs = append(ds.Evs, Ev{ID: i, Ts: ts, F: genF(r, fk), D: genD(r), G: genG(r, gk), K: int64(r.Range(1, 3)), C: vhlib.Pick(r, []string{"u", "u", "v"})})
		ts += uint64(r.Range(2, 2500))
	}
	ds.Modes = layout(r, ds.Evs)
	// keep the main stream off the known-defect inputs (each has its own stream):
	nb := len(ds.Modes)
	anyNum := false
	for _, e := range ds.Evs {
		anyNum = anyNum || e.F.numeric()
	}
	for b := 0; b < nb; b++ {
		ix := batchIdx(ds.Evs, b)
		// (1) (lifted with fixes/C04-merge-isnumeric: batches without any numeric f are main-stream input now)
		// (2) group key: a numeric / bool key only in batches that also hold a string key
		if gk == "mixed" {
			hasS, hasO := false, false
			for _, i := range ix {
				hasS = hasS || ds.Evs[i].G.K == "str"
				hasO = hasO || ds.Evs[i].G.K == "int" || ds.Evs[i].G.K == "bool"
			}
			if hasO && !hasS {
				ds.Evs[ix[0]].G = Val{K: "str", S: "a"}
			}
		}
		// (3) sparse group key: every batch has at least one event with the key
		if gk == "sparse" {
			has := false
			for _, i := range ix {
				has = has || ds.Evs[i].G.present()
			}
			if !has {
				ds.Evs[ix[0]].G = Val{K: "str", S: "a"}
			}
		}
	}
	// (4) (lifted with fixes/C04-latest-earliest-skip-missing: the first / last event may lack f)
	last := ds.Evs[n-1].Ts
	span := uint64(ds.SpanS) * 1000
	ds.Start = T0 - uint64(r.Range(0, 5000))
	ds.End = last + 1 + uint64(r.Range(0, int(2*span)))
	q := func(kind, text string, f func(*Query)) {
		qq := Query{Kind: kind, Text: text, Start: ds.Start, End: ds.End}
		if f != nil {
			f(&qq)
		}
		ds.Queries = append(ds.Queries, qq)
	}
	q("stats", "* | stats "+statsList("f", false, false), func(x *Query) { x.Field = "f" })
	q("stats", "* | stats "+statsList("f", true, true), func(x *Query) { x.Field, x.VL, x.TS = "f", true, true })
	q("stats", "* | eval zz=1 | stats "+statsList("f", true, true), func(x *Query) { x.Field, x.VL, x.TS = "f", true, true })
	q("stats", "* | stats "+statsList("d", true, false), func(x *Query) { x.Field, x.VL = "d", true })
	q("stats", "* | eval zz=1 | stats "+statsList("f", true, false), func(x *Query) { x.Field, x.VL = "f", true })
	{
		cut := r.Range(1, n-1)
		q("stats", fmt.Sprintf("id>=%d | stats %s", cut, statsList("f", true, false)), func(x *Query) { x.Field, x.VL, x.Filter = "f", true, cut })
	}
	q("group", "* | stats "+statsList("d", true, false)+" by g", func(x *Query) { x.Field, x.VL, x.By = "d", true, "g" })
	q("group", "* | stats "+statsList("d", false, false)+" by k", func(x *Query) { x.Field, x.By = "d", "k" })
	q("group", "* | stats count, sum(d), avg(d) by nosuch", func(x *Query) { x.Field, x.By = "d", "nosuch" })
	q("group", "* | stats count, sum(d), min(d) by g, k", func(x *Query) { x.Field, x.By = "d", "g,k" })
	q("tc", fmt.Sprintf("* | timechart span=%ds count, sum(d)", ds.SpanS), nil)
	q("tcby", fmt.Sprintf("* | timechart span=%ds count by k", ds.SpanS), func(x *Query) { x.By = "k" })
	q("tcby", fmt.Sprintf("* | timechart span=%ds count by g", ds.SpanS), func(x *Query) { x.By = "g" })
	q("binal", fmt.Sprintf("* | bin span=%ds timestamp | stats count, sum(d) by timestamp", ds.SpanS), func(x *Query) { x.SpanN, x.SpanU = ds.SpanS, "s" })
	q("perc", "* | stats perc50(d), perc90(d)", func(x *Query) { x.Field = "d" })
	addCutQueries(r, ds)
	addMainBinAlign(r, ds)
	if mixedG {
		for i := range ds.Queries {
			if ds.Queries[i].Kind == "group" || ds.Queries[i].Kind == "tcby" {
				ds.Queries[i].Expect = "group_key_split_by_stored_type"
			}
		}
	}
	return ds
}

// ---------- time ranges that cut through blocks ----------
// Every dataset also gets queries whose [start, end] does NOT enclose the data: both ends strictly inside
// one block, both ends inside two different blocks, one end only, a range between two neighbouring events
// (nothing matches), a range holding exactly one event, end exactly on an event (inclusive). Each range is
// combined with match-all, an equality filter on the dictionary-encoded column c, and a range filter on id,
// followed by stats (raw-record path, measures of the dense field d), stats by k / g, timechart and the
// pipeline path.  The oracle counts exactly the events with start <= ts <= end that pass the filter.
func addCutQueries(r *vhlib.Rng, ds *Dataset) {
	n := len(ds.Evs)
	ts := func(i int) uint64 { return ds.Evs[i].Ts }
	type cut struct {
		name       string
		start, end uint64
	}
	var cuts []cut
	add := func(name string, s, e uint64) {
		if s <= e {
			cuts = append(cuts, cut{name, s, e})
		}
	}
	// a block with at least 3 events: both ends strictly inside it
	// prefer a rotated block, then any block, with at least 3 events
	for _, wantMode := range []string{"r", "f"} {
		done := false
		for b := range ds.Modes {
			ix := batchIdx(ds.Evs, b)
			if len(ix) >= 3 && ds.Modes[b] == wantMode {
				i := ix[r.Range(1, len(ix)-2)]
				j := ix[r.Range(1, len(ix)-2)]
				if i > j {
					i, j = j, i
				}
				add("both_ends_in_one_block", ts(i)-uint64(r.Intn(2)), ts(j)+1)
				done = true
				break
			}
		}
		if done {
			break
		}
	}
	if n >= 4 {
		i := r.Range(1, n/2)
		j := r.Range(n/2, n-2)
		add("both_ends_inside_data", ts(i), ts(j)+1)         // start on an event (inclusive), end just after one
		add("end_on_event_inclusive", ts(i)+1, ts(j))        // the event at ts = end belongs to the range
		add("start_cut_only", ts(r.Range(1, n-1)), ds.End)   // first events of the first touched block are out
		add("end_cut_only", ds.Start, ts(r.Range(0, n-2))+1) // last events of the last touched block are out
		k := r.Range(0, n-2)
		add("between_two_events", ts(k)+1, ts(k+1)-1) // nothing inside
		k = r.Range(1, n-2)
		add("single_event", ts(k)-1, ts(k)+1)
	}
	// quick tier: 3 of the cuts per dataset (all of them in the long run over seeds / thorough)
	for len(cuts) > 3 && !cutAll {
		k := r.Intn(len(cuts))
		if cuts[k].name == "both_ends_in_one_block" {
			continue
		}
		cuts = append(cuts[:k], cuts[k+1:]...)
	}
	idCut := r.Range(1, n-1)
	type flt struct {
		text string
		set  func(*Query)
	}
	filters := []flt{
		{"*", func(q *Query) {}},
		{`c="u"`, func(q *Query) { q.FilterC = "u" }},
		{fmt.Sprintf("id>=%d", idCut), func(q *Query) { q.Filter = idCut }},
	}
	span := ds.SpanS
	for _, c := range cuts {
		for _, f := range filters {
			mk := func(kind, tail string, set func(*Query)) {
				q := Query{Kind: kind, Text: f.text + " | " + tail, Start: c.start, End: c.end, Cut: c.name}
				f.set(&q)
				if set != nil {
					set(&q)
				}
				ds.Queries = append(ds.Queries, q)
			}
			mk("stats", "stats "+statsList("d", true, true), func(q *Query) { q.Field, q.VL, q.TS = "d", true, true })
			mk("stats", "stats "+statsList("d", false, false), func(q *Query) { q.Field = "d" })
			mk("group", "stats "+statsList("d", false, false)+" by k", func(q *Query) { q.Field, q.By = "d", "k" })
			mk("group", "stats count, sum(d) by g", func(q *Query) { q.Field, q.By = "d", "g" })
			if c.name != "end_on_event_inclusive" { // an event at ts = end: timechart_end_boundary_stray_bucket (own stream)
				mk("tc", fmt.Sprintf("timechart span=%ds count, sum(d)", span), nil)
			}
			if f.text != "*" {
				mk("stats", "eval zz=1 | stats "+statsList("d", true, false), func(q *Query) { q.Field, q.VL = "d", true })
			}
		}
	}
}

var cutAll = false

// ---------- known-defect streams ----------
func mkEvs(r *vhlib.Rng, n int) []Ev {
	var evs []Ev
	ts := T0 + uint64(r.Range(0, 900))
	for i := 0; i < n; i++ {
		evs = append(evs, Ev{ID: i, Ts: ts, F: Val{K: "int", I: int64(r.Range(1, 30))}, D: Val{K: "int", I: int64(r.Range(1, 30))}, G: Val{K: "str", S: vhlib.Pick(r, []string{"a", "b"})}, K: int64(r.Range(1, 2)), C: vhlib.Pick(r, []string{"u", "v"})})
		ts += uint64(r.Range(2, 2000))
	}
	return evs
}
func setLayout(evs []Ev, sizes []int, modes []string) {
	i, seg := 0, 0
	for b, m := range sizes {
		for x := 0; x < m; x++ {
			evs[i].Batch, evs[i].Seg = b, seg
			i++
		}
		if modes[b] == "r" {
			seg++
		}
	}
}

func genKnown(r *vhlib.Rng, class string) *Dataset {
	ds := &Dataset{Stream: class, FKind: "ints", GKind: "dense", SpanS: vhlib.Pick(r, []int{3, 4, 7})}
	n := r.Range(6, 12)
	evs := mkEvs(r, n)
	h := n / 2
	sizes, modes := []int{h, n - h}, []string{"r", "f"}
	fin := func(qs ...Query) *Dataset {
		setLayout(evs, sizes, modes)
		ds.Evs, ds.Modes = evs, modes
		if ds.Start == 0 {
			ds.Start, ds.End = T0-1000, evs[n-1].Ts+1+uint64(r.Range(0, 5000))
		}
		for _, q := range qs {
			q.Start, q.End, q.Expect = ds.Start, ds.End, class
			ds.Queries = append(ds.Queries, q)
		}
		return ds
	}
	switch class {
	case "timechart_end_boundary_stray_bucket":
		// the last event sits exactly on the inclusive end of the query range
		span := uint64(ds.SpanS) * 1000
		ds.Start = T0
		ds.End = evs[n-1].Ts
		if (ds.End-ds.Start)%span == 0 { // keep end - span unaligned (otherwise the stray bucket merges with an aligned one)
			evs[n-1].Ts++
			ds.End++
		}
		return fin(Query{Kind: "tc", Text: fmt.Sprintf("* | timechart span=%ds count, sum(d)", ds.SpanS)})
	case "groupby_count_avg_use_row_count":
		// measured field absent in some rows of a group
		for i := range evs {
			if i%3 == 1 {
				evs[i].D = Val{K: "abs"}
			}
		}
		return fin(Query{Kind: "group", Text: "* | stats " + statsList("d", true, false) + " by g", Field: "d", VL: true, By: "g"})
	case "groupby_sum_skips_string_typed_numbers":
		// a segment whose measured column also holds a non-numeric string: its numbers are not summed by the group path
		evs[h].D = Val{K: "str", S: "zq"}
		return fin(Query{Kind: "group", Text: "* | stats count, sum(d) by g", Field: "d", By: "g"})
	case "group_key_split_by_stored_type":
		// the same JSON number as key: all-integer column in segment 1, mixed column in segment 2
		for i := range evs {
			evs[i].G = Val{K: "int", I: 5}
		}
		evs[n-1].G = Val{K: "str", S: "x"}
		return fin(Query{Kind: "group", Text: "* | stats count, sum(d) by g", Field: "d", By: "g"})
	case "sparse_group_null_bucket_partial":
		// segment 1 has the key column (with gaps), segment 2 has no such column at all
		evs[0].G = Val{K: "abs"}
		for i := h; i < n; i++ {
			evs[i].G = Val{K: "abs"}
		}
		return fin(Query{Kind: "group", Text: "* | stats count, sum(d) by g", Field: "d", By: "g"})
	case "sum_avg_zero_when_first_merged_record_non_numeric":
		for i := h; i < n; i++ {
			evs[i].F = Val{K: "str", S: vhlib.Pick(r, strPool)}
		}
		return fin(Query{Kind: "stats", Text: "* | stats " + statsList("f", false, false), Field: "f"},
			Query{Kind: "stats", Text: "* | stats " + statsList("f", true, false), Field: "f", VL: true})
	case "int64_sum_wraps":
		for i := range evs {
			evs[i].F = Val{K: "int", I: int64(1)<<62 + int64(r.Range(0, 5))}
		}
		return fin(Query{Kind: "stats", Text: "* | stats " + statsList("f", false, false), Field: "f"})
	case "earliest_latest_from_event_without_field":
		evs[n-1].F = Val{K: "abs"}
		evs[0].F = Val{K: "abs"}
		return fin(Query{Kind: "stats", Text: "* | stats " + statsList("f", true, true), Field: "f", VL: true, TS: true})
	case "groupby_drops_segment_without_measure_column":
		// the newest segment has no column d at all: before fix babf5fd the pushed-down group-by skipped the whole
		// segment; now ordinary queries (a regression is reported under the old class name, listed as fixed)
		for i := h; i < n; i++ {
			evs[i].D = Val{K: "abs"}
		}
		return fin(Query{Kind: "group", Text: "* | stats count, sum(d) by g", Field: "d", By: "g"},
			Query{Kind: "group", Text: "* | stats count, dc(d) by k", Field: "d", By: "k"})
	case "groupby_block_without_measure_column_reads_previous_block":
		// one segment, three blocks; the middle block has no column d (the column exists in the segment): before fix
		// ccfa9a9 the column reader kept the previous block loaded and handed out its records for the middle block's
		// record numbers; ordinary queries now (a regression is reported under the old class name, listed as fixed)
		a := n / 3
		sizes, modes = []int{a, a, n - 2*a}, []string{"f", "f", vhlib.Pick(r, []string{"f", "r"})}
		for i := a; i < 2*a; i++ {
			evs[i].D = Val{K: "abs"}
		}
		return fin(Query{Kind: "group", Text: "* | stats count, sum(d), max(d), values(d) by g", Field: "d", VL: true, By: "g"},
			Query{Kind: "group", Text: "* | stats count, dc(d) by k", Field: "d", By: "k"})
	case "dc_counts_number_forms_separately":
		// the integer 5 in an all-integer segment and in a segment whose column also holds a string
		evs[0].F = Val{K: "int", I: 5}
		evs[h].F = Val{K: "int", I: 5}
		evs[n-1].F = Val{K: "str", S: "x"}
		return fin(Query{Kind: "stats", Text: "* | stats " + statsList("f", true, false), Field: "f", VL: true})
	}
	return fin()
}

var knownClasses = []string{
	"timechart_end_boundary_stray_bucket", "groupby_count_avg_use_row_count", "groupby_sum_skips_string_typed_numbers",
	"group_key_split_by_stored_type", "sparse_group_null_bucket_partial", "sum_avg_zero_when_first_merged_record_non_numeric",
	"int64_sum_wraps", "earliest_latest_from_event_without_field", "dc_counts_number_forms_separately",
	"groupby_drops_segment_without_measure_column", "groupby_block_without_measure_column_reads_previous_block",
}

// ---------- running ----------
func runDataset(dir string, ds *Dataset) ([]WObs, error) {
	_ = os.RemoveAll(dir)
	data := filepath.Join(dir, "data")
	if err := os.MkdirAll(data, 0o755); err != nil {
		return nil, err
	}
	var ops []WOp
	for b, mode := range ds.Modes {
		op := WOp{Kind: "ingest", Flush: true, Rotate: mode == "r"}
		for _, i := range batchIdx(ds.Evs, b) {
			op.Docs = append(op.Docs, ds.Evs[i].doc())
		}
		ops = append(ops, op)
	}
	nIngest := len(ops)
	for _, q := range ds.Queries {
		ops = append(ops, WOp{Kind: "query", Text: q.Text, Start: q.Start, End: q.End})
	}
	sp, op := filepath.Join(dir, "script.json"), filepath.Join(dir, "obs.json")
	b, _ := json.Marshal(ops)
	_ = os.WriteFile(sp, b, 0o644)
	ctx, cancel := context.WithTimeout(context.Background(), 150*time.Second)
	defer cancel()
	cmd := exec.CommandContext(ctx, os.Args[0], "worker", data, sp, op)
	out, err := cmd.CombinedOutput()
	if err != nil {
		tail := string(out)
		if len(tail) > 500 {
			tail = tail[len(tail)-500:]
		}
		return nil, fmt.Errorf("worker: %v: %s", err, tail)
	}
	ob, err := os.ReadFile(op)
	if err != nil {
		return nil, err
	}
	var o []WObs
	if err := json.Unmarshal(ob, &o); err != nil || len(o) != len(ops) {
		return nil, fmt.Errorf("bad observation file")
	}
	for i := 0; i < nIngest; i++ {
		if o[i].Err != "" || o[i].Ingested != len(ops[i].Docs) {
			return nil, fmt.Errorf("ingest batch %d: %d of %d accepted, err=%q", i, o[i].Ingested, len(ops[i].Docs), o[i].Err)
		}
	}
	return o[nIngest:], nil
}

// ---------- observed values ----------
// a measure value as an exact rational when it is a number
func obsRat(v WValue) (*big.Rat, bool) {
	if v.K != "n" && v.K != "s" {
		return nil, false
	}
	s := strings.TrimSpace(v.S)
	if s == "" {
		return nil, false
	}
	c := s[0]
	if !(c >= '0' && c <= '9') && c != '-' && c != '+' && c != '.' {
		return nil, false
	}
	f, err := strconv.ParseFloat(s, 64)
	if err != nil || math.IsInf(f, 0) || math.IsNaN(f) {
		return nil, false
	}
	if rr, ok := new(big.Rat).SetString(s); ok && !strings.ContainsAny(s, "eE") {
		return rr, true // decimal text: exact
	}
	return new(big.Rat).SetFloat64(f), true
}
func obsList(v WValue) []string {
	if v.K == "l" {
		return v.L
	}
	s := strings.TrimSpace(v.S)
	if strings.HasPrefix(s, "[") && strings.HasSuffix(s, "]") {
		s = s[1 : len(s)-1]
		if s == "" {
			return nil
		}
		return strings.Fields(s)
	}
	if v.K == "n" && (s == "0" || s == "") {
		return nil
	}
	if v.K == "nil" {
		return nil
	}
	return []string{s}
}

// canonical form of one element of values()/list(): numbers by value
func canonItem(s string) string {
	if rr, ok := obsRat(WValue{K: "s", S: s}); ok {
		return "#" + rr.RatString()
	}
	return "$" + s
}
func (v Val) item() (string, bool) {
	switch v.K {
	case "int", "flt", "numstr":
		return "#" + v.rat().RatString(), true
	case "str":
		return "$" + v.S, true
	}
	return "", false
}

// ---------- exact aggregate (the property's own words) ----------
type Exact struct {
	Rows, CountF, NumCnt   int
	Sum                    *big.Rat
	Min, Max               string // canonical item ("" = none)
	MinR, MaxR             *big.Rat
	Values                 map[string]bool
	List                   []string
	Earliest, Latest       string // canonical item of the value at the least / greatest timestamp among events that HAVE the field
	EarliestAny, LatestAny Val    // value (possibly absent) at the least / greatest timestamp of all matched events
	SumAbsInt              *big.Int
	Distinct               int
}

func field(e Ev, name string) Val {
	switch name {
	case "f":
		return e.F
	case "d":
		return e.D
	case "g":
		return e.G
	case "k":
		return Val{K: "int", I: e.K}
	case "x":
		if e.X != nil {
			return *e.X
		}
	}
	return Val{K: "abs"}
}

func exactOf(evs []Ev, name string) *Exact {
	x := &Exact{Sum: new(big.Rat), Values: map[string]bool{}, SumAbsInt: new(big.Int)}
	var strMin, strMax string
	hasStr := false
	var eTs, lTs uint64
	first := true
	var aE, aL uint64
	for _, e := range evs {
		v := field(e, name)
		x.Rows++
		if first || e.Ts < aE {
			aE, x.EarliestAny = e.Ts, v
		}
		if first || e.Ts > aL {
			aL, x.LatestAny = e.Ts, v
		}
		first = false
		it, ok := v.item()
		if !ok {
			continue
		}
		if x.CountF == 0 || e.Ts < eTs {
			eTs, x.Earliest = e.Ts, it
		}
		if x.CountF == 0 || e.Ts > lTs {
			lTs, x.Latest = e.Ts, it
		}
		x.CountF++
		x.Values[it] = true
		x.List = append(x.List, it)
		if v.numeric() {
			rr := v.rat()
			x.NumCnt++
			x.Sum.Add(x.Sum, rr)
			if x.MinR == nil || rr.Cmp(x.MinR) < 0 {
				x.MinR = rr
			}
			if x.MaxR == nil || rr.Cmp(x.MaxR) > 0 {
				x.MaxR = rr
			}
			if v.K == "int" {
				a := big.NewInt(v.I)
				x.SumAbsInt.Add(x.SumAbsInt, a.Abs(a))
			}
		} else {
			if !hasStr || v.S < strMin {
				strMin = v.S
			}
			if !hasStr || v.S > strMax {
				strMax = v.S
			}
			hasStr = true
		}
	}
	if x.MinR != nil { // numbers before strings, for min and for max
		x.Min, x.Max = "#"+x.MinR.RatString(), "#"+x.MaxR.RatString()
	} else if hasStr {
		x.Min, x.Max = "$"+strMin, "$"+strMax
	}
	x.Distinct = len(x.Values)
	return x
}

// ---------- the oracle ----------
type checker struct {
	sum *vhlib.Summary
	mu  *sync.Mutex
	ds  *Dataset
	di  int
	q   Query
	// dry: judge only (failures are counted in nfail, nothing is recorded)
	dry   bool
	nfail int
}

func (c *checker) fail(class, detail string) {
	if c.dry {
		c.nfail++
		return
	}
	c.mu.Lock()
	defer c.mu.Unlock()
	c.sum.Fail(class, fmt.Sprintf("dataset %d (%s f=%s g=%s) query %q: %s", c.di, c.ds.Stream, c.ds.FKind, c.ds.GKind, c.q.Text, detail),
		map[string]interface{}{"dataset": c.ds, "query": c.q})
}

func ratEq(a, b *big.Rat) bool { return a != nil && b != nil && a.Cmp(b) == 0 }
func ratClose(a, b *big.Rat) bool { // relative 1e-12 (float division / summation order)
	if a == nil || b == nil {
		return false
	}
	d := new(big.Rat).Sub(a, b)
	d.Abs(d)
	m := new(big.Rat).Abs(b)
	m.Mul(m, big.NewRat(1, 1000000000000))
	return d.Cmp(m) <= 0
}

func getM(row WRow, name string) (WValue, bool) {
	v, ok := row.M[name]
	return v, ok
}

// compare one group / the whole result with the exact aggregate; prefix = "stats" or "groupby"
// returns the names of the measures that differ
func (c *checker) measures(row WRow, x *Exact, fld string, vl, ts bool, suffix string) map[string]string {
	bad := map[string]string{}
	req := requested(c.q.Text)
	defer func() {
		for name := range bad {
			if !req[name] {
				delete(bad, name)
			}
		}
	}()
	num := func(name string, want *big.Rat, close bool) {
		v, ok := getM(row, name+suffix)
		if !ok {
			bad[name] = "missing"
			return
		}
		got, isNum := obsRat(v)
		if !isNum {
			bad[name] = fmt.Sprintf("got %v want %s", v, want.RatString())
			return
		}
		if (close && !ratClose(got, want)) || (!close && !ratEq(got, want)) {
			bad[name] = fmt.Sprintf("got %s want %s", got.RatString(), want.RatString())
		}
	}
	zero := new(big.Rat)
	num("count(*)", big.NewRat(int64(x.Rows), 1), false)
	num("count("+fld+")", big.NewRat(int64(x.CountF), 1), false)
	num("sum("+fld+")", x.Sum, false)
	if x.NumCnt > 0 {
		num("avg("+fld+")", new(big.Rat).Quo(x.Sum, big.NewRat(int64(x.NumCnt), 1)), true)
		num("range("+fld+")", new(big.Rat).Sub(x.MaxR, x.MinR), false)
	} else {
		num("avg("+fld+")", zero, false)
		num("range("+fld+")", zero, false)
	}
	item := func(name, want string) {
		v, ok := getM(row, name+suffix)
		if !ok {
			bad[name] = "missing"
			return
		}
		got := canonItem(v.S)
		if v.K == "nil" {
			got = ""
		}
		if want == "" {
			if got != "#0" && got != "" && got != "$" {
				bad[name] = fmt.Sprintf("got %s want none", got)
			}
			return
		}
		if got != want {
			bad[name] = fmt.Sprintf("got %s want %s", got, want)
		}
	}
	item("min("+fld+")", x.Min)
	item("max("+fld+")", x.Max)
	if vl {
		if v, ok := getM(row, "values("+fld+")"+suffix); !ok {
			bad["values"] = "missing"
		} else {
			got := map[string]bool{}
			dup := false
			for _, s := range obsList(v) {
				ci := canonItem(s)
				dup = dup || got[ci]
				got[ci] = true
			}
			if len(got) != len(x.Values) || dup {
				bad["values"] = fmt.Sprintf("got %v want %v", keys(got), keys(x.Values))
			} else {
				for k := range x.Values {
					if !got[k] {
						bad["values"] = fmt.Sprintf("got %v want %v", keys(got), keys(x.Values))
					}
				}
			}
		}
		if v, ok := getM(row, "list("+fld+")"+suffix); !ok {
			bad["list"] = "missing"
		} else {
			var got []string
			for _, s := range obsList(v) {
				got = append(got, canonItem(s))
			}
			want := append([]string{}, x.List...)
			sort.Strings(got)
			sort.Strings(want)
			if len(want) > listLimit {
				// list() keeps 100 values (MAX_SPL_LIST_SIZE, the SPL limit): any 100 of the values
				cnt := map[string]int{}
				for _, w := range want {
					cnt[w]++
				}
				ok := len(got) == listLimit
				for _, g := range got {
					cnt[g]--
					ok = ok && cnt[g] >= 0
				}
				if !ok {
					bad["list"] = fmt.Sprintf("got %d values, not %d of the %d values of the field", len(got), listLimit, len(want))
				}
			} else if strings.Join(got, "\x00") != strings.Join(want, "\x00") {
				bad["list"] = fmt.Sprintf("got %v want %v", got, want)
			}
		}
	}
	if ts {
		item("earliest("+fld+")", x.Earliest)
		item("latest("+fld+")", x.Latest)
	}
	// distinct count: exact below 50 distinct values, 2 % above (HLL log2m=16; observed only)
	if v, ok := getM(row, "cardinality("+fld+")"+suffix); ok {
		got, isNum := obsRat(v)
		tol := 0
		if x.Distinct >= 50 {
			tol = (x.Distinct*2 + 99) / 100
		}
		if !isNum {
			bad["dc"] = "not a number"
		} else {
			g, _ := got.Float64()
			if math.Abs(g-float64(x.Distinct)) > float64(tol) {
				bad["dc"] = fmt.Sprintf("got %s want %d +- %d", got.RatString(), x.Distinct, tol)
			}
		}
	}
	return bad
}

var measureRx = regexp.MustCompile(`\b(count|sum|min|max|avg|range|dc|values|list|earliest|latest)\(([a-z]+)\)`)

// names (as used in the bad-map) of the measures a query text asks for
func requested(text string) map[string]bool {
	req := map[string]bool{}
	i := strings.Index(text, "stats ")
	if i < 0 {
		return req
	}
	body := text[i+6:]
	if j := strings.Index(body, " by "); j >= 0 {
		body = body[:j]
	}
	for _, m := range measureRx.FindAllStringSubmatch(body, -1) {
		switch m[1] {
		case "dc":
			req["dc"] = true
		case "values", "list":
			req[m[1]] = true
		default:
			req[m[1]+"("+m[2]+")"] = true
		}
	}
	for _, tok := range strings.Split(body, ",") {
		if strings.TrimSpace(tok) == "count" {
			req["count(*)"] = true
		}
	}
	return req
}

func keys(m map[string]bool) []string {
	var k []string
	for x := range m {
		k = append(k, x)
	}
	sort.Strings(k)
	return k
}

func matched(ds *Dataset, q Query) []Ev {
	var out []Ev
	for _, e := range ds.Evs {
		if e.Ts < q.Start || e.Ts > q.End {
			continue
		}
		if q.Filter > 0 && e.ID < q.Filter {
			continue
		}
		if q.FilterC != "" && e.C != q.FilterC {
			continue
		}
		out = append(out, e)
	}
	return out
}

// is the distinct count well defined for this field of this dataset (one textual / binary form per number,
// no non-numeric string next to numbers)
func dcClean(evs []Ev, fld string) bool {
	forms := map[string]string{}
	hasStr, hasNum := false, false
	for _, e := range evs {
		v := field(e, fld)
		if v.K == "str" || v.K == "numstr" {
			hasStr = true // a string-typed value turns the stored column of its block into strings
		}
		if v.K == "int" || v.K == "flt" {
			hasNum = true
		}
		if v.numeric() {
			k := v.rat().RatString()
			if f, ok := forms[k]; ok && f != v.K {
				return false
			}
			forms[k] = v.K
		}
	}
	return !(hasStr && hasNum)
}

// number of rows a measure row reports
func rowCount(row WRow) int {
	if r, ok := obsRat(row.M["count(*)"]); ok && r.IsInt() {
		return int(r.Num().Int64())
	}
	return -1
}

// events that pass the query's filter but lie outside its time range
func outsideRange(ds *Dataset, q Query) []Ev {
	all := q
	all.Start, all.End = 0, math.MaxUint64
	var out []Ev
	for _, e := range matched(ds, all) {
		if e.Ts < q.Start || e.Ts > q.End {
			out = append(out, e)
		}
	}
	return out
}

func bySuffix(bad map[string]string) string {
	var k []string
	for x, d := range bad {
		k = append(k, x+": "+d)
	}
	sort.Strings(k)
	return strings.Join(k, "; ")
}
func measureClass(prefix string, bad map[string]string) (string, string) {
	var k []string
	for x := range bad {
		k = append(k, x)
	}
	sort.Strings(k)
	name := k[0]
	name = strings.NewReplacer("(*)", "_all", "(f)", "", "(d)", "", "(", "_", ")", "").Replace(name)
	return prefix + "_" + name + "_mismatch", bySuffix(bad)
}

func groupKeyOf(e Ev, by string) (string, bool) {
	// ok=false: the event has no value for (one of) the by-field(s)
	parts := strings.Split(by, ",")
	var ks []string
	all := true
	for _, p := range parts {
		v := field(e, p)
		if !v.present() && p != "k" {
			all = false
		}
		ks = append(ks, v.keyText())
	}
	return strings.Join(ks, "\x1f"), all
}

func segHasCol(ds *Dataset, seg int, by string) bool {
	for _, p := range strings.Split(by, ",") {
		if p == "k" {
			continue
		}
		has := false
		for _, e := range ds.Evs {
			if e.Seg == seg && field(e, p).K != "abs" {
				has = true
			}
		}
		if !has {
			return false
		}
	}
	return true
}

func (c *checker) evalQuery(o WObs) {
	ds, q := c.ds, c.q
	c.mu.Lock()
	c.sum.Eval(fmt.Sprintf("%d/%s", c.di, q.Text), len(o.Rows) > 0)
	c.sum.Count("query/" + q.Kind)
	c.mu.Unlock()
	if o.Err != "" {
		cls := "stats_query_fails"
		if q.Kind == "group" || q.Kind == "tcby" || q.Kind == "tc" || q.Kind == "binal" || q.Kind == "dcby" || q.Kind == "dctc" {
			cls = "stats_fails_on_sparse_group_field"
		}
		c.fail(cls, "query returned an error: "+o.Err)
		return
	}
	evs := matched(ds, q)
	switch q.Kind {
	case "stats":
		c.evalStats(o, evs)
	case "group":
		c.evalGroup(o, evs)
	case "tc":
		c.evalTimechart(o, evs)
	case "tcby":
		c.evalTimechartBy(o, evs)
	case "binal":
		c.evalBinAlign(o, evs)
	case "perc":
		c.evalPerc(o, evs)
	case "dc", "dcby", "dctc":
		c.evalDc(o, evs)
	}
}

func (c *checker) evalStats(o WObs, evs []Ev) {
	q := c.q
	if len(o.Rows) != 1 {
		if len(evs) == 0 && len(o.Rows) == 0 {
			return
		}
		c.fail("stats_row_count", fmt.Sprintf("%d result rows for a stats without by-clause", len(o.Rows)))
		return
	}
	x := exactOf(evs, q.Field)
	bad := c.measures(o.Rows[0], x, q.Field, q.VL, q.TS, "")
	if !dcClean(evs, q.Field) && q.Expect != "dc_counts_number_forms_separately" {
		delete(bad, "dc")
		c.mu.Lock()
		c.sum.Count("dc_unchecked_mixed_forms")
		c.mu.Unlock()
	}
	if len(bad) == 0 {
		return
	}
	// signatures of the known classes (each only in its own stream)
	switch q.Expect {
	case "sum_avg_zero_when_first_merged_record_non_numeric":
		if onlyKeys(bad, "sum(f)", "avg(f)") && gotZero(o.Rows[0], "sum(f)") && gotZero(o.Rows[0], "avg(f)") {
			c.fail(q.Expect, "numbers exist in the older segment, the newest segment holds only strings: "+bySuffix(bad))
			return
		}
	case "int64_sum_wraps":
		if onlyKeys(bad, "sum(f)", "avg(f)") {
			c.fail(q.Expect, bySuffix(bad))
			return
		}
	case "earliest_latest_from_event_without_field":
		if onlyKeys(bad, "earliest(f)", "latest(f)") {
			c.fail(q.Expect, "the first / last matched event has no f: "+bySuffix(bad))
			return
		}
	case "dc_counts_number_forms_separately":
		if onlyKeys(bad, "dc") {
			c.fail(q.Expect, bySuffix(bad))
			return
		}
	}
	if got := rowCount(o.Rows[0]); got > x.Rows && got <= x.Rows+len(outsideRange(c.ds, q)) {
		c.fail("stats_includes_events_outside_time_range", fmt.Sprintf("range [%d,%d] (%s): %d events inside the range pass the filter, the result counts %d: %s",
			q.Start, q.End, q.Cut, x.Rows, got, bySuffix(bad)))
		return
	}
	cls, det := measureClass("stats", bad)
	c.fail(cls, det)
}

func onlyKeys(bad map[string]string, ks ...string) bool {
	for k := range bad {
		ok := false
		for _, x := range ks {
			ok = ok || x == k
		}
		if !ok {
			return false
		}
	}
	return len(bad) > 0
}
func gotZero(row WRow, name string) bool {
	v, ok := row.M[name]
	if !ok {
		return false
	}
	r, isNum := obsRat(v)
	return isNum && r.Sign() == 0
}

// events of the segments that have (a value of) the measured column at all
func inSegsWithCol(ds *Dataset, evs []Ev, fld string) []Ev {
	has := map[int]bool{}
	for _, e := range ds.Evs {
		if field(e, fld).K != "abs" {
			has[e.Seg] = true
		}
	}
	var out []Ev
	for _, e := range evs {
		if has[e.Seg] {
			out = append(out, e)
		}
	}
	return out
}

func (c *checker) evalGroup(o WObs, evs []Ev) {
	q := c.q
	if q.Expect == "groupby_drops_segment_without_measure_column" && !c.dry {
		// signature of the fixed finding babf5fd: the answer is exactly the answer over the events of the segments that have
		// the measured column; anything else goes through the ordinary oracle below
		kept := inSegsWithCol(c.ds, evs, q.Field)
		if len(kept) < len(evs) {
			d := *c
			d.dry, d.q.Expect = true, ""
			d.evalGroup(o, kept)
			if d.nfail == 0 {
				c.fail(q.Expect, fmt.Sprintf("%d events match, the %d events of the segment(s) without a column %s are in no group (the result is exact for the other %d events)",
					len(evs), len(evs)-len(kept), q.Field, len(kept)))
				return
			}
		}
	}
	want := map[string][]Ev{}
	var null []Ev
	for _, e := range evs {
		k, ok := groupKeyOf(e, q.By)
		if !ok {
			null = append(null, e)
			continue
		}
		want[k] = append(want[k], e)
	}
	seen := map[string]bool{}
	nullRows := 0
	for _, row := range o.Rows {
		k := strings.Join(row.G, "\x1f")
		if seen[k] {
			if q.Expect == "group_key_split_by_stored_type" {
				c.fail(q.Expect, fmt.Sprintf("group key %q appears in two result rows", k))
			} else {
				c.fail("group_key_appears_twice", fmt.Sprintf("group key %q appears in two result rows", k))
			}
			return
		}
		seen[k] = true
	}
	for _, row := range o.Rows {
		k := strings.Join(row.G, "\x1f")
		ge, ok := want[k]
		if !ok {
			// a row for events that lack (one of) the by-field(s): legal when it holds exactly those events
			isNull := false
			for _, g := range row.G {
				isNull = isNull || g == ""
			}
			if !isNull {
				for _, e := range outsideRange(c.ds, q) {
					if ek, _ := groupKeyOf(e, q.By); ek == k {
						c.fail("groupby_includes_events_outside_time_range", fmt.Sprintf("range [%d,%d] (%s): result has group %q; only events outside the time range have that key (e.g. id %d at %d)",
							q.Start, q.End, q.Cut, k, e.ID, e.Ts))
						return
					}
				}
				c.fail("group_unexpected_key", fmt.Sprintf("result has group %q, no matched event has that key", k))
				return
			}
			nullRows++
			continue
		}
		x := exactOf(ge, q.Field)
		bad := c.measures(row, x, q.Field, q.VL, false, "")
		if !dcClean(ge, q.Field) {
			delete(bad, "dc")
		}
		if len(bad) == 0 {
			continue
		}
		switch q.Expect {
		case "groupby_count_avg_use_row_count":
			if onlyKeys(bad, "count(d)", "avg(d)") {
				c.fail(q.Expect, fmt.Sprintf("group %q has rows without d: %s", k, bySuffix(bad)))
				return
			}
		case "groupby_sum_skips_string_typed_numbers":
			if onlyKeys(bad, "sum(d)", "avg(d)", "count(d)") {
				c.fail(q.Expect, fmt.Sprintf("group %q: %s", k, bySuffix(bad)))
				return
			}
		case "groupby_block_without_measure_column_reads_previous_block":
			// signature of the fixed finding ccfa9a9: rows and keys are right, only values of d are wrong (which of them
			// depended on the order the blocks were read in)
			if onlyKeys(bad, "sum(d)", "max(d)", "values", "dc") {
				c.fail(q.Expect, fmt.Sprintf("group %q: events of the block without d carry values of another block: %s", k, bySuffix(bad)))
				return
			}
		}
		if got := rowCount(row); got > x.Rows {
			extra := 0
			for _, e := range outsideRange(c.ds, q) {
				if ek, _ := groupKeyOf(e, q.By); ek == k {
					extra++
				}
			}
			if got <= x.Rows+extra {
				c.fail("groupby_includes_events_outside_time_range", fmt.Sprintf("range [%d,%d] (%s): group %q has %d events inside the range that pass the filter, the result counts %d: %s",
					q.Start, q.End, q.Cut, k, x.Rows, got, bySuffix(bad)))
				return
			}
		}
		cls, det := measureClass("groupby", bad)
		c.fail(cls, fmt.Sprintf("group %q: %s", k, det))
		return
	}
	for k := range want {
		if !seen[k] {
			c.fail("group_key_missing", fmt.Sprintf("group %q (%d events) is not in the result", k, len(want[k])))
			return
		}
	}
	// events without the by-field: either all dropped or all in the null row(s)
	if len(null) > 0 && nullRows > 0 && !strings.Contains(q.By, ",") {
		cnt := 0
		for _, row := range o.Rows {
			if len(row.G) == 1 && row.G[0] == "" {
				if r, ok := obsRat(row.M["count(*)"]); ok {
					f, _ := r.Float64()
					cnt = int(f)
				}
			}
		}
		if cnt > len(null) {
			extra := 0
			for _, e := range outsideRange(c.ds, q) {
				if _, ok := groupKeyOf(e, q.By); !ok {
					extra++
				}
			}
			if cnt <= len(null)+extra {
				c.fail("groupby_includes_events_outside_time_range", fmt.Sprintf("range [%d,%d] (%s): %d events inside the range lack %s, the empty-key row counts %d",
					q.Start, q.End, q.Cut, len(null), q.By, cnt))
				return
			}
		}
		if cnt != len(null) {
			cls := "group_null_row_partial"
			if q.Expect == "sparse_group_null_bucket_partial" {
				cls = q.Expect
			}
			c.fail(cls, fmt.Sprintf("%d matched events lack %s; the empty-key row counts %d of them (the others are dropped)", len(null), q.By, cnt))
		}
	}
}

func parseU(s string) (uint64, bool) {
	u, err := strconv.ParseUint(s, 10, 64)
	return u, err == nil
}

func (c *checker) evalTimechart(o WObs, evs []Ev) {
	ds, q := c.ds, c.q
	if (q.SpanU == "cs" || q.SpanU == "ds") && len(evs) > 0 {
		// regression of the fixed finding (known/C04.json lists it as fixed: this is a VIOLATION)
		if old, _, detail := c.tcNanosSignature(o, evs); old {
			c.fail(tcNanosClass, detail)
			return
		}
	}
	if q.Expect == "" {
		total := 0
		for _, row := range o.Rows {
			if n := rowCount(row); n > 0 {
				total += n
			}
		}
		if total > len(evs) && total <= len(evs)+len(outsideRange(ds, q)) {
			c.fail("timechart_includes_events_outside_time_range", fmt.Sprintf("range [%d,%d] (%s): %d events inside the range pass the filter, the buckets count %d",
				q.Start, q.End, q.Cut, len(evs), total))
			return
		}
	}
	span := spanMs(ds, q)
	type agg struct {
		n   int
		sum *big.Rat
	}
	want := map[uint64]*agg{}
	for _, e := range evs {
		b := q.Start + (e.Ts-q.Start)/span*span // the aligned bucket whose span contains the timestamp
		if want[b] == nil {
			want[b] = &agg{sum: new(big.Rat)}
		}
		want[b].n++
		if e.D.numeric() {
			want[b].sum.Add(want[b].sum, e.D.rat())
		}
	}
	seen := map[uint64]bool{}
	for _, row := range o.Rows {
		if len(row.G) != 1 {
			c.fail("timechart_row_shape", fmt.Sprintf("row keys %v", row.G))
			return
		}
		b, ok := parseU(row.G[0])
		if !ok || seen[b] {
			c.fail("timechart_bucket_key", fmt.Sprintf("bucket key %q unparsable or repeated", row.G[0]))
			return
		}
		seen[b] = true
		cnt, _ := obsRat(row.M["count(*)"])
		w := want[b]
		if w == nil {
			if cnt != nil && cnt.Sign() == 0 {
				continue // an empty bucket row is fine
			}
			stray := (b-q.Start)%span != 0 || b+span <= q.Start || b > q.End
			cls := "timechart_event_in_wrong_bucket"
			if q.Expect == "timechart_end_boundary_stray_bucket" && b == q.End-span {
				cls = q.Expect
			}
			c.fail(cls, fmt.Sprintf("range [%d,%d] span %d ms: bucket %d (unaligned=%v) holds %v events; no matched event has its timestamp in [%d,%d)",
				q.Start, q.End, span, b, stray, cnt, b, b+span))
			return
		}
		s, _ := obsRat(row.M["sum(d)"])
		if cnt == nil || cnt.Cmp(big.NewRat(int64(w.n), 1)) != 0 || s == nil || s.Cmp(w.sum) != 0 {
			cls := "timechart_count_mismatch"
			if q.Expect == "timechart_end_boundary_stray_bucket" {
				cls = q.Expect
			}
			c.fail(cls, fmt.Sprintf("bucket %d: count %v sum %v, want %d and %s", b, cnt, s, w.n, w.sum.RatString()))
			return
		}
	}
	for b, w := range want {
		if !seen[b] {
			cls := "timechart_bucket_missing"
			if q.Expect == "timechart_end_boundary_stray_bucket" {
				cls = q.Expect
			}
			c.fail(cls, fmt.Sprintf("bucket %d with %d events is not in the result", b, w.n))
			return
		}
	}
}

func (c *checker) evalTimechartBy(o WObs, evs []Ev) {
	ds, q := c.ds, c.q
	span := uint64(ds.SpanS) * 1000
	want := map[uint64]map[string]int{}
	vals := map[string]bool{}
	for _, e := range evs {
		v := field(e, q.By)
		if v.K == "abs" && !segHasCol(ds, e.Seg, q.By) {
			// by-field column absent from the whole segment: see sparse_group_null_bucket_partial; not judged here
			continue
		}
		b := q.Start + (e.Ts-q.Start)/span*span
		if want[b] == nil {
			want[b] = map[string]int{}
		}
		k := v.keyText()
		if !v.present() {
			k = "<nil>"
		}
		want[b][k]++
		vals[k] = true
	}
	if len(vals) > 10 {
		return // the default limit=10 folds the rest into "other"
	}
	for _, row := range o.Rows {
		if len(row.G) != 1 {
			c.fail("timechart_row_shape", fmt.Sprintf("row keys %v", row.G))
			return
		}
		b, ok := parseU(row.G[0])
		if !ok {
			c.fail("timechart_bucket_key", fmt.Sprintf("bucket key %q", row.G[0]))
			return
		}
		for name, v := range row.M {
			if !strings.HasPrefix(name, "count(*)") {
				continue
			}
			k := strings.TrimPrefix(strings.TrimPrefix(name, "count(*)"), ": ")
			got, _ := obsRat(v)
			w := 0
			if want[b] != nil {
				w = want[b][k]
			}
			if name == "count(*)" { // column without a by-value: only present with absent-everywhere by-field
				continue
			}
			if got == nil || got.Cmp(big.NewRat(int64(w), 1)) != 0 {
				c.fail("timechart_by_count_mismatch", fmt.Sprintf("bucket %d, %s=%q: count %v, want %d", b, q.By, k, got, w))
				return
			}
		}
	}
	rows := map[uint64]WRow{}
	for _, row := range o.Rows {
		b, _ := parseU(row.G[0])
		rows[b] = row
	}
	for b, m := range want {
		row, ok := rows[b]
		for k, n := range m {
			if !ok {
				c.fail("timechart_bucket_missing", fmt.Sprintf("bucket %d (%s=%q: %d events) is not in the result", b, q.By, k, n))
				return
			}
			if _, has := row.M["count(*): "+k]; !has {
				c.fail("timechart_by_value_missing", fmt.Sprintf("bucket %d has no column for %s=%q (%d events)", b, q.By, k, n))
				return
			}
		}
	}
}

func (c *checker) evalPerc(o WObs, evs []Ev) {
	if len(o.Rows) != 1 {
		return
	}
	var xs []float64
	for _, e := range evs {
		if e.D.numeric() {
			f, _ := e.D.rat().Float64()
			xs = append(xs, f)
		}
	}
	sort.Float64s(xs)
	n := len(xs)
	if n == 0 {
		return
	}
	for _, p := range []struct {
		name string
		p    float64
	}{{"perc50(d)", 0.5}, {"perc90(d)", 0.9}} {
		v, ok := o.Rows[0].M[p.name]
		got, isNum := obsRat(v)
		if !ok || !isNum {
			c.fail("perc_missing", p.name)
			return
		}
		g, _ := got.Float64()
		// rank window: +-1 rank, +-1 % of n (t-digest compression 100; observed only)
		slack := 1 + n/100
		lo := int(math.Floor(p.p*float64(n-1))) - slack
		hi := int(math.Ceil(p.p*float64(n-1))) + slack
		if lo < 0 {
			lo = 0
		}
		if hi > n-1 {
			hi = n - 1
		}
		if g < xs[lo]-1e-9 || g > xs[hi]+1e-9 {
			c.fail("perc_outside_rank_window", fmt.Sprintf("%s = %v, exact values at ranks %d..%d are %v..%v (n=%d)", p.name, g, lo, hi, xs[lo], xs[hi], n))
			return
		}
	}
}

// ---------- Coq terms ----------
func coqOval(s string, isNil bool) string {
	if isNil {
		return "ONum 0"
	}
	if rr, ok := obsRat(WValue{K: "s", S: s}); ok {
		sc := new(big.Rat).Mul(rr, big.NewRat(FS, 1))
		if sc.IsInt() {
			return "ONum " + coqBig(sc.Num())
		}
		return "OStr " + coqStr("not-dyadic:"+s)
	}
	return "OStr " + coqStr(s)
}
func coqBig(z *big.Int) string {
	if z.Sign() < 0 {
		return "(" + z.String() + ")"
	}
	return z.String()
}
func coqQ(v WValue) string {
	rr, ok := obsRat(v)
	if !ok {
		return "(1 # 3)%Q" // never equal to a model value built from dyadic inputs and small counts by accident
	}
	if strings.ContainsAny(v.S, "eE") || true {
		// the float64 the API printed, exactly
		f, _ := strconv.ParseFloat(strings.TrimSpace(v.S), 64)
		rr = new(big.Rat).SetFloat64(f)
	}
	return fmt.Sprintf("(%s # %s)%%Q", coqBig(rr.Num()), rr.Denom().String())
}
func coqOvalM(row WRow, name string) string {
	v, ok := row.M[name]
	if !ok {
		return "OStr " + coqStr("missing")
	}
	return coqOval(v.S, v.K == "nil")
}
func coqOvalList(row WRow, name string) string {
	v, ok := row.M[name]
	if !ok {
		return "[OStr " + coqStr("missing") + "]"
	}
	var it []string
	for _, s := range obsList(v) {
		it = append(it, coqOval(s, false))
	}
	return vhlib.CoqList(it)
}
func coqCount(row WRow, name string) string {
	if r, ok := obsRat(row.M[name]); ok && r.IsInt() {
		return coqBig(r.Num())
	}
	return "(-1)"
}
func coqEvent(e Ev, fld string) string {
	return fmt.Sprintf("(%d, %s)", e.Ts, field(e, fld).coqM())
}

// blocks of the matched events in merge order: newest segment first (getAllSegmentsInQuery sorts by
// time, descending), batches of a segment in ingest order; for guarded inputs the order is irrelevant
// (C04_segmentation_irrelevant_guarded), for the IsNumeric stream it is what decides the result
func coqBlocks(ds *Dataset, evs []Ev, fld string) string {
	maxSeg := 0
	for _, e := range evs {
		if e.Seg > maxSeg {
			maxSeg = e.Seg
		}
	}
	var blocks []string
	for seg := maxSeg; seg >= 0; seg-- {
		byBatch := map[int][]string{}
		var order []int
		for _, e := range evs {
			if e.Seg != seg {
				continue
			}
			if _, ok := byBatch[e.Batch]; !ok {
				order = append(order, e.Batch)
			}
			byBatch[e.Batch] = append(byBatch[e.Batch], coqEvent(e, fld))
		}
		for _, b := range order {
			blocks = append(blocks, vhlib.CoqList(byBatch[b]))
		}
	}
	return vhlib.CoqList(blocks)
}

func coqStatsCase(ds *Dataset, q Query, o WObs) (string, bool) {
	if o.Err != "" || len(o.Rows) != 1 {
		return "", false
	}
	row := o.Rows[0]
	f := q.Field
	evs := matched(ds, q)
	if q.VL && len(evs) > listLimit {
		return "", false // list() truncation at MAX_SPL_LIST_SIZE is outside the model
	}
	// which path answers the query: ingest-time .sst records only for match-all, fully enclosed, no values/list/time measures
	// the time stats of the column are tracked for queries with earliest/latest; with the fixed code
	// they only advance on records that have the column (records created for events without it by
	// the block-level time bounds of other raw-path queries carry no observable)
	wt := q.TS
	obs := fmt.Sprintf("mkO %s %s (%s) %s (%s) (%s) (%s) %s %s %s %s (%s) (%s)", vhlib.CoqBool(wt),
		coqCount(row, "count("+f+")"), coqOvalM(row, "sum("+f+")"), coqQ(row.M["avg("+f+")"]),
		coqOvalM(row, "min("+f+")"), coqOvalM(row, "max("+f+")"), coqOvalM(row, "range("+f+")"),
		vhlib.CoqBool(q.VL), coqOvalList(row, "values("+f+")"), coqOvalList(row, "list("+f+")"),
		vhlib.CoqBool(q.TS), coqOvalM(row, "earliest("+f+")"), coqOvalM(row, "latest("+f+")"))
	return "(" + coqBlocks(ds, evs, f) + ",\n    " + obs + ")", true
}

func coqGroupCase(ds *Dataset, q Query, o WObs) (string, bool) {
	if o.Err != "" || strings.Contains(q.By, ",") || q.By == "nosuch" {
		return "", false
	}
	evs := matched(ds, q)
	maxSeg := 0
	for _, e := range evs {
		if e.Seg > maxSeg {
			maxSeg = e.Seg
		}
	}
	var segs []string
	for seg := 0; seg <= maxSeg; seg++ {
		var items []string
		for _, e := range evs {
			if e.Seg != seg {
				continue
			}
			v := field(e, q.By)
			k := "None"
			if v.present() {
				k = "Some " + coqStr(v.keyText())
			}
			items = append(items, fmt.Sprintf("(%s, %s)", k, coqEvent(e, q.Field)))
		}
		segs = append(segs, fmt.Sprintf("(%s, %s)", vhlib.CoqBool(segHasCol(ds, seg, q.By)), vhlib.CoqList(items)))
	}
	var rows []string
	f := q.Field
	req := requested(q.Text)
	full := req["avg("+f+")"] && req["min("+f+")"] && req["max("+f+")"] && req["range("+f+")"] && req["count("+f+")"]
	if !req["sum("+f+")"] {
		return "", false // the group model compares rows and sum(f) at least
	}
	for _, row := range o.Rows {
		if len(row.G) != 1 {
			return "", false
		}
		vl := q.VL
		rows = append(rows, fmt.Sprintf("(%s, mkOG %s %s %s (%s) %s (%s) (%s) (%s) %s %s %s)", coqStr(row.G[0]), vhlib.CoqBool(full),
			coqCount(row, "count(*)"), coqCount(row, "count("+f+")"), coqOvalM(row, "sum("+f+")"), coqQ(row.M["avg("+f+")"]),
			coqOvalM(row, "min("+f+")"), coqOvalM(row, "max("+f+")"), coqOvalM(row, "range("+f+")"),
			vhlib.CoqBool(vl), coqOvalList(row, "values("+f+")"), coqOvalList(row, "list("+f+")")))
	}
	return "(" + vhlib.CoqList(segs) + ",\n    " + vhlib.CoqList(rows) + ")", true
}

func coqTimechartCase(ds *Dataset, q Query, o WObs) (string, bool) {
	if o.Err != "" {
		return "", false
	}
	var evs []string
	for _, e := range matched(ds, q) {
		sc := new(big.Rat)
		if e.D.numeric() {
			sc.Mul(e.D.rat(), big.NewRat(FS, 1))
		}
		evs = append(evs, fmt.Sprintf("(%d, %s)", e.Ts, coqBig(sc.Num())))
	}
	var rows []string
	for _, row := range o.Rows {
		b, ok := parseU(strings.Join(row.G, ""))
		if !ok {
			return "", false
		}
		s := "(-1)"
		if r, ok := obsRat(row.M["sum(d)"]); ok {
			sc := new(big.Rat).Mul(r, big.NewRat(FS, 1))
			if sc.IsInt() {
				s = coqBig(sc.Num())
			}
		}
		rows = append(rows, fmt.Sprintf("(%d, (%s, %s))", b, coqCount(row, "count(*)"), s))
	}
	return fmt.Sprintf("(%d, %d, %d, %s,\n    %s)", q.Start, q.End, spanMs(ds, q), vhlib.CoqList(evs), vhlib.CoqList(rows)), true
}

// ---------- FindTimeRangeBucket driven directly ----------
func realBucket(start, end, step, ts uint64) (b uint64, ok bool) {
	defer func() {
		if r := recover(); r != nil {
			ok = false
		}
	}()
	rg := aggregations.GenerateTimeRangeBuckets(&structs.TimeBucket{StartTime: start, EndTime: end, IntervalMillis: step})
	return aggregations.FindTimeRangeBucket(rg, ts), true
}

func bucketCases(r *vhlib.Rng, sum *vhlib.Summary, out string, n int) {
	var items []string
	shard := 0
	flush := func() {
		if len(items) == 0 {
			return
		}
		defs := "Open Scope Z_scope.\nDefinition cases : list (Z * Z * Z * Z * option Z) := " + vhlib.CoqListNL(items) + ".\n"
		sum.WriteCaseFile(out, fmt.Sprintf("cases_c04_bucket_%d", shard), "From SigM Require Import Base Bucket AggCheck.\n", defs, "check_buckets cases 0", len(items))
		items = nil
		shard++
	}
	steps := []uint64{1, 2, 3, 7, 10, 999, 1000, 1001, 4000, 60000, 3600000, 86400000, 2592000000, 1 << 32, 1<<63 + 5}
	for i := 0; i < n; i++ {
		var start, end, step, ts uint64
		step = vhlib.Pick(r, steps)
		if r.Chance(30) {
			step = uint64(r.Range(1, 100000))
		}
		switch r.Intn(6) {
		case 0: // realistic epoch range
			start = T0 + uint64(r.Range(0, 100000))
			end = start + uint64(r.Range(0, 10000000))
		case 1: // tiny numbers: end - step wraps
			start = uint64(r.Range(0, 50))
			end = start + uint64(r.Range(0, 50))
		case 2: // near 2^64
			start = math.MaxUint64 - uint64(r.Range(0, 1000000))
			end = start + uint64(r.Range(0, 2000000)) // may wrap
		case 3:
			start, end = r.U64(), r.U64()
		case 4: // aligned range
			start = T0
			end = start + step*uint64(r.Range(0, 50))
		default:
			start = uint64(r.Range(0, 1000)) * 1000
			end = start + uint64(r.Range(1, 100))*step
		}
		switch r.Intn(8) {
		case 0:
			ts = start
		case 1:
			ts = end
		case 2:
			ts = end - 1
		case 3:
			ts = start - 1
		case 4:
			ts = end + 1
		case 5:
			ts = r.U64()
		default:
			if end > start {
				ts = start + r.U64()%(end-start)
			} else {
				ts = start + uint64(r.Range(0, 100))
			}
		}
		if i%97 == 0 {
			step = 0 // integer divide by zero inside the range
		}
		b, ok := realBucket(start, end, step, ts)
		items = append(items, fmt.Sprintf("(%d, %d, %d, %d, %s)", start, end, step, ts, vhlib.CoqOpt(ok, strconv.FormatUint(b, 10))))
		sum.Eval(fmt.Sprintf("bucket/%d/%d/%d/%d", start, end, step, ts), ts >= start && ts < end)
		switch {
		case ts < start:
			sum.Count("bucket_direct/before_start")
		case ts == end:
			sum.Count("bucket_direct/at_end")
		case ts > end:
			sum.Count("bucket_direct/after_end")
		default:
			sum.Count("bucket_direct/inside")
			// oracle for the half-open range (no wrap-around inside): contains ts, aligned
			if ok && step > 0 && end >= start && !(b <= ts && ts-b < step && (b-start)%step == 0) {
				sum.Fail("find_bucket_does_not_contain_ts", fmt.Sprintf("start=%d end=%d step=%d ts=%d -> %d", start, end, step, ts, b),
					map[string]uint64{"start": start, "end": end, "step": step, "ts": ts, "bucket": b})
			}
		}
		if len(items) >= 1000 {
			flush()
		}
	}
	flush()
}

func genJobs(r *vhlib.Rng, thorough bool) []*job {
	nMain, nKnown := 26, 1
	if thorough {
		nMain, nKnown = 400, 12
		cutAll = true
	}
	var jobs []*job
	for i := 0; i < nMain; i++ {
		jobs = append(jobs, &job{ds: genMain(r.Fork(), thorough, false)})
	}
	for i := 0; i < 2*nKnown+1; i++ {
		jobs = append(jobs, &job{ds: genMain(r.Fork(), thorough, true)})
	}
	for _, cl := range knownClasses {
		for i := 0; i < nKnown; i++ {
			jobs = append(jobs, &job{ds: genKnown(r.Fork(), cl)})
		}
	}
	// time bucketing with an origin (bin.go): every span unit, align time before / inside / after the events
	nBin := 2 * len(binUnits)
	if thorough {
		nBin = 25 * len(binUnits)
	}
	for i := 0; i < nBin; i++ {
		jobs = append(jobs, &job{ds: genBin(r.Fork(), thorough, i)})
	}
	// distinct count over values at the edges of the numeric types (dc.go): every domain in every run
	nDc := len(dcDomains) + 1
	if thorough {
		nDc = 12 * (len(dcDomains) + 1)
	}
	for i := 0; i < nDc; i++ {
		jobs = append(jobs, &job{ds: genDc(r.Fork(), thorough, i)})
	}
	return jobs
}

type job struct {
	ds  *Dataset
	obs []WObs
	err error
}

func main() {
	if len(os.Args) >= 5 && os.Args[1] == "worker" {
		workerMain(os.Args[2], os.Args[3], os.Args[4])
		return
	}
	if len(os.Args) >= 4 && os.Args[1] == "dump" {
		seed, _ := strconv.ParseUint(os.Args[2], 10, 64)
		idx, _ := strconv.Atoi(os.Args[3])
		jobs := genJobs(vhlib.NewRng(seed), len(os.Args) > 4 && os.Args[4] == "thorough")
		ds := jobs[idx].ds
		obs, err := runDataset("/tmp/C04_dump", ds)
		fmt.Println("stream", ds.Stream, "f", ds.FKind, "g", ds.GKind, "range", ds.Start, ds.End, "span", ds.SpanS, "err", err)
		for b, m := range ds.Modes {
			for _, i := range batchIdx(ds.Evs, b) {
				fmt.Printf("  batch %d (%s) seg %d: %s\n", b, m, ds.Evs[i].Seg, ds.Evs[i].doc())
			}
		}
		for qi, q := range ds.Queries {
			if err != nil {
				break
			}
			fmt.Printf("Q: %s | cut=%s range=[T0%+d, T0%+d] matched=%d err=%q\n", q.Text, q.Cut, int64(q.Start)-int64(T0), int64(q.End)-int64(T0), len(matched(ds, q)), obs[qi].Err)
			for _, row := range obs[qi].Rows {
				b, _ := json.Marshal(row.M)
				fmt.Printf("    %q %s\n", row.G, b)
			}
		}
		_ = os.RemoveAll("/tmp/C04_dump")
		return
	}
	cfg := vhlib.ParseFlags()
	sum := vhlib.NewSummary("one case = one stats / stats-by / timechart / bin query over a generated dataset run by the real code in a worker process " +
		"(fresh store per dataset; segmentations: one batch, flush every j events, rotate every j events, random mix), or one direct call of FindTimeRangeBucket; " +
		"non-trivial = the query returned at least one result row (direct call: timestamp inside the range); distinct by (dataset, query text) / by argument tuple; " +
		"streams: main (kept off the known-defect inputs), one stream per known defect class, and bin_origin (bin.go): per span unit ms/cs/ds/s/m/h/d/w a dataset built around an align time " +
		"(events a whole number of spans, +-1 ms, and random offsets before and after it; align time inside / after / before the data, near 1970, far future) queried with " +
		"`bin span= aligntime= | stats count, sum(d) by`, the same without aligntime, with a filter, with a cut range, and `timechart span=<n><unit>`; " +
		"plus direct calls of both copies of performBinWithSpanTime (non-trivial = timestamp before the align time); values are small integers and dyadic rationals so that float sums are exact; " +
		"stream dc_edge (dc.go): one dataset per value domain (adjacent integers around 2^53 / 2^60 / 2^62, nanosecond epochs, below -2^53, both ends of int64, uint64 above 2^63, adjacent float64 above 2^53, " +
		"small ints / floats, numeric strings small and of adjacent big integers, plain strings, hundreds of adjacent big integers, mixed magnitudes, integers next to equal floats) queried with " +
		"dc / estdc / estdc_error without BY (.sst, raw-record, pipeline route), by g, by k, by g,k, after a filter, in timechart with and without BY and with a cut range; plus direct comparisons of float64(int64) with the model's conversion")
	r := vhlib.NewRng(cfg.Seed)
	nBucket := 4000
	if cfg.Thorough() {
		nBucket = 40000
	}
	jobs := genJobs(r, cfg.Thorough())
	par := 8
	sem := make(chan struct{}, par)
	var wg sync.WaitGroup
	for i, j := range jobs {
		wg.Add(1)
		sem <- struct{}{}
		go func(i int, j *job) {
			defer wg.Done()
			defer func() { <-sem }()
			dir := filepath.Join(cfg.Out, fmt.Sprintf("run%d", i))
			j.obs, j.err = runDataset(dir, j.ds)
			if j.err != nil { // re-run alone once (load)
				time.Sleep(200 * time.Millisecond)
				j.obs, j.err = runDataset(dir, j.ds)
			}
			_ = os.RemoveAll(dir)
		}(i, j)
	}
	wg.Wait()

	var mu sync.Mutex
	var sCases, gCases, tCases, bCases, uCases []string
	shard := 0
	flush := func(force bool) {
		if len(sCases) >= 60 || (force && len(sCases) > 0) {
			defs := "Open Scope Z_scope.\nDefinition cases : list (list (list event) * obs_stats) := " + vhlib.CoqListNL(sCases) + ".\n"
			sum.WriteCaseFile(cfg.Out, fmt.Sprintf("cases_c04_stats_%d", shard), "From SigM Require Import Base Agg Bucket AggCheck.\nFrom Coq Require Import QArith.\n", defs, "check_stats cases 0", len(sCases))
			sCases = nil
			shard++
		}
		if len(gCases) >= 40 || (force && len(gCases) > 0) {
			defs := "Open Scope Z_scope.\nDefinition cases : list (list seg_events * list (str * obs_group)) := " + vhlib.CoqListNL(gCases) + ".\n"
			sum.WriteCaseFile(cfg.Out, fmt.Sprintf("cases_c04_group_%d", shard), "From SigM Require Import Base Agg Bucket AggCheck.\nFrom Coq Require Import QArith.\n", defs, "check_groups cases 0", len(gCases))
			gCases = nil
			shard++
		}
		if len(tCases) >= 60 || (force && len(tCases) > 0) {
			defs := "Open Scope Z_scope.\nDefinition cases : list (Z * Z * Z * list (Z * Z) * list (Z * (Z * Z))) := " + vhlib.CoqListNL(tCases) + ".\n"
			sum.WriteCaseFile(cfg.Out, fmt.Sprintf("cases_c04_tc_%d", shard), "From SigM Require Import Base Agg Bucket AggCheck.\n", defs, "check_timecharts cases 0", len(tCases))
			tCases = nil
			shard++
		}
		if len(bCases) >= 80 || (force && len(bCases) > 0) {
			defs := "Open Scope Z_scope.\nDefinition cases : list (tunit * Z * option Z * list (Z * Z) * list (Z * (Z * Z))) := " + vhlib.CoqListNL(bCases) + ".\n"
			sum.WriteCaseFile(cfg.Out, fmt.Sprintf("cases_c04_bin_%d", shard), "From SigM Require Import Base Agg Bucket AggCheck.\n", defs, "check_bins cases 0", len(bCases))
			bCases = nil
			shard++
		}
		if len(uCases) >= 80 || (force && len(uCases) > 0) {
			defs := "Open Scope Z_scope.\nDefinition cases : list (Z * Z * tunit * Z * list (Z * Z) * list (Z * (Z * Z))) := " + vhlib.CoqListNL(uCases) + ".\n"
			sum.WriteCaseFile(cfg.Out, fmt.Sprintf("cases_c04_tcunit_%d", shard), "From SigM Require Import Base Agg Bucket AggCheck.\n", defs, "check_timecharts_u cases 0", len(uCases))
			uCases = nil
			shard++
		}
	}
	for i, j := range jobs {
		sum.Count("dataset/" + j.ds.Stream)
		if j.err != nil {
			// the worker died or hung: every query of the dataset failed "merely because" of its input
			sum.Fail("stats_fails_on_sparse_group_field", fmt.Sprintf("dataset %d (%s f=%s g=%s): worker failed: %v", i, j.ds.Stream, j.ds.FKind, j.ds.GKind, j.err), j.ds)
			continue
		}
		sum.Count("fkind/" + j.ds.FKind)
		sum.Count("gkind/" + j.ds.GKind)
		sum.Count(fmt.Sprintf("batches/%d", min(len(j.ds.Modes), 8)))
		for qi, q := range j.ds.Queries {
			c := &checker{sum: sum, mu: &mu, ds: j.ds, di: i, q: q}
			c.evalQuery(j.obs[qi])
			switch q.Kind {
			case "stats":
				if s, ok := coqStatsCase(j.ds, q, j.obs[qi]); ok {
					sCases = append(sCases, s)
				}
			case "group":
				// the model covers numeric / absent measure values (string-typed numbers: oracle only)
				if q.Expect == "groupby_sum_skips_string_typed_numbers" || q.Expect == "group_key_split_by_stored_type" {
					break
				}
				if s, ok := coqGroupCase(j.ds, q, j.obs[qi]); ok {
					gCases = append(gCases, s)
				}
			case "tc":
				if q.SpanN > 0 {
					if s, ok := coqTimechartUnitCase(j.ds, q, j.obs[qi]); ok {
						uCases = append(uCases, s)
					}
					break
				}
				if s, ok := coqTimechartCase(j.ds, q, j.obs[qi]); ok {
					tCases = append(tCases, s)
				}
			case "binal":
				if s, ok := coqBinCase(j.ds, q, j.obs[qi]); ok {
					bCases = append(bCases, s)
				}
			}
			flush(false)
			flushDcCases(sum, cfg.Out, &shard, false)
		}
		if i%9 == 0 {
			sum.Sample(map[string]interface{}{"stream": j.ds.Stream, "fkind": j.ds.FKind, "gkind": j.ds.GKind, "events": len(j.ds.Evs), "batches": j.ds.Modes,
				"first_docs": []string{j.ds.Evs[0].doc(), j.ds.Evs[len(j.ds.Evs)-1].doc()}, "first_query": j.ds.Queries[0].Text})
		}
	}
	flush(true)
	flushDcCases(sum, cfg.Out, &shard, true)
	bucketCases(r.Fork(), sum, cfg.Out, nBucket)
	binCalls(r.Fork(), sum, cfg.Out, nBucket)
	f64convCases(r.Fork(), sum, cfg.Out, nBucket/2)
	sum.Notes = append(sum.Notes,
		"float64 values are dyadic rationals with 10 fractional bits and small magnitude: sums are exact; avg compared with relative tolerance 1e-12 (oracle) / 2^-40 (Coq)",
		"dc: main stream exact below 50 distinct values, 2 % above (HLL log2m=16); skipped there when a number occurs in two forms or next to non-numeric strings (count dc_unchecked_mixed_forms); "+
			"stream dc_edge: the number of mathematically distinct values of the matched events of the row / group / bucket cell, exact up to 100, 2 % above, and the model's count (distinct hash keys) in Coq",
		"percentiles: rank window +-1 rank +-1 % (t-digest, observed only)",
		"group / bucket rows are compared as sets; list() as a multiset")
	sum.Write(cfg.Out)
}

package main

import (
	"fmt"
	"os"
	"strconv"
)

func fmtFloat(x float64) string { return strconv.FormatFloat(x, 'g', -1, 64) }

func main() {
	if len(os.Args) >= 5 && os.Args[1] == "worker" {
		workerMain(os.Args[2], os.Args[3], os.Args[4])
		return
	}
	fmt.Println("probe only")
}

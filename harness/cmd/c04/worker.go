// C04 worker: one fresh siglens store per process.  Reads a script (ingest batches with
// flush / rotate marks, then queries), runs the REAL ingest and query path in-process
// and writes the raw aggregation results (no interpretation here).
package main

import (
	"context"
	"encoding/json"
	"fmt"
	"os"
	"strings"
	"time"

	"github.com/siglens/siglens/pkg/ast/pipesearch"
	"github.com/siglens/siglens/pkg/config"
	eswriter "github.com/siglens/siglens/pkg/es/writer"
	"github.com/siglens/siglens/pkg/segment/memory/limit"
	"github.com/siglens/siglens/pkg/segment/query"
	"github.com/siglens/siglens/pkg/segment/writer"
	serverutils "github.com/siglens/siglens/pkg/server/utils"
	vtable "github.com/siglens/siglens/pkg/virtualtable"
	log "github.com/sirupsen/logrus"
)

// WOp: one step of a worker script.
//
//	ingest: Docs = raw JSON documents (one bulk request), then Flush / Rotate as flagged
//	query : Text, Start, End (epoch ms, inclusive range as passed to the API)
type WOp struct {
	Kind   string   `json:"k"`
	Docs   []string `json:"docs,omitempty"`
	Flush  bool     `json:"flush,omitempty"`
	Rotate bool     `json:"rotate,omitempty"`
	Text   string   `json:"text,omitempty"`
	Start  uint64   `json:"start,omitempty"`
	End    uint64   `json:"end,omitempty"`
}

// WRow: one result bucket: group-by values and measure name -> canonical value.
type WRow struct {
	G []string          `json:"g"`
	M map[string]WValue `json:"m"`
}

// WValue: canonical form of a measure value as returned by the API.
//
//	K = "n" number (S = shortest round-trip decimal of the float64 / integer),
//	    "s" string, "l" list of strings (L, order kept), "nil", "o" other (S = %v)
type WValue struct {
	K string   `json:"k"`
	S string   `json:"s,omitempty"`
	L []string `json:"l,omitempty"`
}

type WObs struct {
	Err      string                   `json:"err,omitempty"`
	Funcs    []string                 `json:"funcs,omitempty"`
	GCols    []string                 `json:"gcols,omitempty"`
	Rows     []WRow                   `json:"rows,omitempty"`
	NHits    int                      `json:"nhits,omitempty"`
	Hits     []map[string]interface{} `json:"hits,omitempty"`
	Qtype    string                   `json:"qtype,omitempty"`
	Ingested int                      `json:"ingested,omitempty"`
}

const wIndex = "c04"

func initNode(dir string) error {
	config.InitializeTestingConfig(dir + "/")
	config.SetNewQueryPipelineEnabled(true)
	limit.InitMemoryLimiter()
	writer.InitWriterNode()
	if err := vtable.InitVTable(serverutils.GetMyIds); err != nil {
		return err
	}
	if err := query.InitQueryNode(serverutils.GetMyIds, serverutils.ExtractKibanaRequests); err != nil {
		return err
	}
	query.InitMaxRunningQueries()
	go query.PullQueriesToRun(context.Background())
	return nil
}

func canon(v interface{}) WValue {
	switch x := v.(type) {
	case nil:
		return WValue{K: "nil"}
	case string:
		return WValue{K: "s", S: x}
	case float64:
		return WValue{K: "n", S: fmtFloat(x)}
	case float32:
		return WValue{K: "n", S: fmtFloat(float64(x))}
	case int64:
		return WValue{K: "n", S: fmt.Sprintf("%d", x)}
	case uint64:
		return WValue{K: "n", S: fmt.Sprintf("%d", x)}
	case int:
		return WValue{K: "n", S: fmt.Sprintf("%d", x)}
	case json.Number:
		return WValue{K: "n", S: x.String()}
	case []string:
		return WValue{K: "l", L: append([]string{}, x...)}
	case []interface{}:
		l := make([]string, 0, len(x))
		for _, e := range x {
			l = append(l, fmt.Sprintf("%v", e))
		}
		return WValue{K: "l", L: l}
	default:
		return WValue{K: "o", S: fmt.Sprintf("%T:%v", v, v)}
	}
}

var wqid uint64 = 100

func runQuery(op WOp, keepHits bool) WObs {
	wqid++
	req := map[string]interface{}{
		"searchText": op.Text, "indexName": wIndex, "startEpoch": op.Start, "endEpoch": op.End,
		"size": uint64(10000), "from": uint64(0), "queryLanguage": "Splunk QL", "state": "query",
	}
	ch := make(chan WObs, 1)
	go func() {
		defer func() {
			if r := recover(); r != nil {
				ch <- WObs{Err: fmt.Sprintf("panic: %v", r)}
			}
		}()
		resp, _, _, err := pipesearch.ParseAndExecutePipeRequest(req, wqid, 0, time.Now(), "", nil)
		if err != nil {
			ch <- WObs{Err: "error: " + err.Error()}
			return
		}
		if resp == nil {
			ch <- WObs{Err: "nil response"}
			return
		}
		o := WObs{Funcs: resp.MeasureFunctions, GCols: resp.GroupByCols, Qtype: resp.Qtype, NHits: len(resp.Hits.Hits)}
		if len(resp.Errors) > 0 {
			o.Err = "resp.Errors: " + strings.Join(resp.Errors, "; ")
		}
		for _, b := range resp.MeasureResults {
			row := WRow{G: append([]string{}, b.GroupByValues...), M: map[string]WValue{}}
			for k, v := range b.MeasureVal {
				row.M[k] = canon(v)
			}
			o.Rows = append(o.Rows, row)
		}
		if keepHits {
			o.Hits = resp.Hits.Hits
		}
		ch <- o
	}()
	select {
	case r := <-ch:
		return r
	case <-time.After(30 * time.Second):
		return WObs{Err: "timeout"}
	}
}

func workerMain(dir, scriptPath, outPath string) {
	log.SetLevel(log.PanicLevel)
	b, err := os.ReadFile(scriptPath)
	if err != nil {
		fmt.Fprintln(os.Stderr, err)
		os.Exit(3)
	}
	var ops []WOp
	if err := json.Unmarshal(b, &ops); err != nil {
		fmt.Fprintln(os.Stderr, err)
		os.Exit(3)
	}
	if err := initNode(dir); err != nil {
		fmt.Fprintln(os.Stderr, "init:", err)
		os.Exit(4)
	}
	obs := make([]WObs, len(ops))
	zero := time.Duration(0)
	for i, op := range ops {
		switch op.Kind {
		case "ingest":
			var sb strings.Builder
			for _, d := range op.Docs {
				fmt.Fprintf(&sb, "{\"index\":{\"_index\":%q}}\n%s\n", wIndex, d)
			}
			n, _, err := eswriter.HandleBulkBody([]byte(sb.String()), nil, uint64(i+1), 0, false)
			if err != nil {
				obs[i].Err = err.Error()
			}
			obs[i].Ingested = n
			if op.Flush || op.Rotate {
				writer.FlushWipBufferToFile(&zero, &zero)
			}
			if op.Rotate {
				writer.ForceRotateSegmentsForTest()
			}
		case "query":
			obs[i] = runQuery(op, false)
		case "search":
			obs[i] = runQuery(op, true)
		}
	}
	ob, _ := json.Marshal(obs)
	if err := os.WriteFile(outPath, ob, 0o644); err != nil {
		fmt.Fprintln(os.Stderr, err)
		os.Exit(5)
	}
	os.Exit(0)
}

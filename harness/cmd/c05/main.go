// C05 — Order, limits, pagination.
//
// Direct tier: the real getNextBlocks / getValidRRCs / sortBlocks, the real segment
// selection (getQSRSToProcess + getFilteredBlocks), compareValues, sortProcessor,
// headProcessor and tailProcessor are run on exhaustive small scopes and random larger
// inputs; the observations go to Coq case files (model = implementation) and are judged
// by oracles taken from the property text.
//
// End-to-end tier: worker processes ingest events that arrive out of order, with
// timestamp ties, in several blocks and segments that overlap in time, and run
// `*` with size limits, `| head n`, `| sort …`, `| tail n` and from/size paging.
package main

import (
	"encoding/json"
	"fmt"
	"math/big"
	"os"
	"os/exec"
	"path/filepath"
	"sort"
	"strconv"
	"strings"
	"sync"
	"time"

	"github.com/siglens/siglens/pkg/segment/query/processor"
	"github.com/siglens/siglens/pkg/segment/structs"
	sutils "github.com/siglens/siglens/pkg/segment/utils"
	sigutils "github.com/siglens/siglens/pkg/utils"
	log "github.com/sirupsen/logrus"

	"verifharness/vhlib"
)

const caseImports = "From SigM Require Import Base SortCmd Sched SchedCheck SortIdx SortIdxCheck.\nOpen Scope Z_scope.\nOpen Scope N_scope.\n"

func coqNat(n int) string { return strconv.Itoa(n) + "%nat" }

func writeSharded(cfg vhlib.Config, sum *vhlib.Summary, name, typ, expr string, terms []string, per int) {
	for s := 0; s*per < len(terms); s++ {
		end := (s + 1) * per
		if end > len(terms) {
			end = len(terms)
		}
		sum.WriteCaseFile(cfg.Out, fmt.Sprintf("%s_%d", name, s), caseImports,
			"Definition cases : "+typ+" := "+vhlib.CoqListNL(terms[s*per:end])+".\n", expr, end-s*per)
	}
}

// ---------------------------------------------------------------------------
// enumeration (must follow SchedCheck.block_types / sorted_lists / all_lists)
// ---------------------------------------------------------------------------
type bt struct{ lo, hi uint64 }

func blockTypes(d uint64) []bt {
	var out []bt
	for l := uint64(0); l <= d; l++ {
		for h := l; h <= d; h++ {
			out = append(out, bt{l, h})
		}
	}
	return out
}

// follows_ok: negb (block_less m t p)
func followsOK(mode int, prev *bt, t bt) bool {
	if prev == nil {
		return true
	}
	if mode == processor.VerifRecentFirst {
		return !(prev.hi < t.hi) // block_less RF t p = hi p <? hi t
	}
	return !(t.lo < prev.lo) // block_less RL t p = lo t <? lo p
}

func sortedLists(mode int, types []bt, k int, prev *bt, cur []bt, emit func([]bt)) {
	if k == 0 {
		emit(cur)
		return
	}
	for i := range types {
		t := types[i]
		if followsOK(mode, prev, t) {
			sortedLists(mode, types, k-1, &t, append(cur, t), emit)
		}
	}
}

func allLists(types []bt, k int, cur []bt, emit func([]bt)) {
	if k == 0 {
		emit(cur)
		return
	}
	for _, t := range types {
		allLists(types, k-1, append(cur, t), emit)
	}
}

func mkVBlocks(l []bt) []*processor.VerifBlock {
	out := make([]*processor.VerifBlock, len(l))
	for i, b := range l {
		out[i] = processor.VerifNewBlock(i, b.lo, b.hi)
	}
	return out
}

func coqBlocks(l []bt) string {
	items := make([]string, len(l))
	for i, b := range l {
		items[i] = fmt.Sprintf("(%d,%d)", b.lo, b.hi)
	}
	return vhlib.CoqList(items)
}

func startOf(mode int, b bt) uint64 {
	if mode == processor.VerifRecentFirst {
		return b.hi
	}
	return b.lo
}

// ---------------------------------------------------------------------------
// direct tier: getNextBlocks
// ---------------------------------------------------------------------------
func judgeNext(sum *vhlib.Summary, mode, mb int, l []bt, n int, e uint64, prefixOK bool) {
	c := map[string]interface{}{"mode": mode, "maxBlocks": mb, "blocks": l, "taken": n, "endTime": e}
	if !prefixOK || n < 1 || n > len(l) {
		sum.Fail("next_blocks_not_nonempty_prefix", fmt.Sprintf("getNextBlocks(%v, max=%d, mode=%d) took %d blocks (prefix=%v)", l, mb, mode, n, prefixOK), c)
		return
	}
	// every record newer than (before) the end time is in a returned block: the blocks left
	// behind start at or after the end time
	for _, b := range l[n:] {
		bad := false
		if mode == processor.VerifRecentFirst {
			bad = b.hi > e
		} else {
			bad = b.lo < e
		}
		if bad {
			sum.Fail("next_blocks_end_time_unsafe", fmt.Sprintf("getNextBlocks(%v, max=%d, mode=%d) = (%d blocks, endTime %d) but block %v left behind reaches past the end time", l, mb, mode, n, e, b), c)
			return
		}
	}
}

func runNextBlocks(cfg vhlib.Config, sum *vhlib.Summary, r *vhlib.Rng) {
	d, kmax := uint64(4), 4
	if cfg.Thorough() {
		d, kmax = 4, 5
	}
	types := blockTypes(d)
	for _, mode := range []int{processor.VerifRecentFirst, processor.VerifRecentLast} {
		for mb := 1; mb <= 5; mb++ {
			var obs []string
			for k := 1; k <= kmax; k++ {
				sortedLists(mode, types, k, nil, nil, func(l []bt) {
					n, e, pok, err := processor.VerifGetNextBlocks(mkVBlocks(l), mb, mode)
					if err != nil {
						sum.HarnessError("getNextBlocks: " + err.Error())
						return
					}
					judgeNext(sum, mode, mb, l, n, e, pok)
					obs = append(obs, fmt.Sprintf("(%s,%d)", coqNat(n), e))
					sum.Eval(fmt.Sprintf("gnb/%d/%d/%v", mode, mb, l), len(l) > 1)
					sum.Count(fmt.Sprintf("next_blocks/exhaustive/mode%d", mode))
				})
			}
			// shard the observation list so that no file gets too large
			per := 12000
			for s := 0; s*per < len(obs); s++ {
				// a shard must start at the beginning of the enumeration: the check walks
				// the enumeration from index 0, so shard k drops the first k*per lists
				end := (s + 1) * per
				if end > len(obs) {
					end = len(obs)
				}
				sum.WriteCaseFile(cfg.Out, fmt.Sprintf("cases_gnb_m%d_b%d_%d", mode, mb, s), caseImports,
					"Definition obs : list (nat * N) := "+vhlib.CoqList(obs[s*per:end])+".\n",
					fmt.Sprintf("zip_mismatch obs_eqb (gnb_obs (mode_of %d) %s) (firstn %s (skipn %s (sorted_upto (mode_of %d) %d %s))) obs O",
						mode, coqNat(mb), coqNat(end-s*per), coqNat(s*per), mode, d, coqNat(kmax)),
					end-s*per)
			}
		}
	}
	// random larger lists
	var terms []string
	nrand := 300
	if cfg.Thorough() {
		nrand = 3000
	}
	for i := 0; i < nrand; i++ {
		mode := processor.VerifRecentFirst
		if r.Chance(40) {
			mode = processor.VerifRecentLast
		}
		k := r.Range(0, 14)
		dom := uint64(r.Range(2, 25))
		l := make([]bt, k)
		for j := range l {
			a, b := uint64(r.Intn(int(dom))), uint64(r.Intn(int(dom)))
			if a > b {
				a, b = b, a
			}
			l[j] = bt{a, b}
		}
		sort.SliceStable(l, func(x, y int) bool {
			if mode == processor.VerifRecentFirst {
				return l[x].hi > l[y].hi
			}
			return l[x].lo < l[y].lo
		})
		mb := r.Range(1, 10)
		n, e, pok, err := processor.VerifGetNextBlocks(mkVBlocks(l), mb, mode)
		if err != nil {
			sum.HarnessError("getNextBlocks: " + err.Error())
			continue
		}
		if k > 0 {
			judgeNext(sum, mode, mb, l, n, e, pok)
		}
		terms = append(terms, fmt.Sprintf("(%d,%s,%s,(%s,%d))", mode, coqNat(mb), coqBlocks(l), coqNat(n), e))
		sum.Eval(fmt.Sprintf("gnbr/%d/%d/%v", mode, mb, l), k > 1)
		sum.Count("next_blocks/random")
		if i < 2 {
			sum.Sample(map[string]interface{}{"fn": "getNextBlocks", "mode": mode, "maxBlocks": mb, "blocks": l, "taken": n, "endTime": e})
		}
	}
	writeSharded(cfg, sum, "cases_gnb_rand", "list (N * nat * list (N * N) * (nat * N))", "check_gnb cases", terms, 400)
}

// ---------------------------------------------------------------------------
// direct tier: sortBlocks
// ---------------------------------------------------------------------------
func judgeSort(sum *vhlib.Summary, mode int, l []bt, ids []int) {
	c := map[string]interface{}{"mode": mode, "blocks": l, "order": ids}
	seen := map[int]bool{}
	ok := len(ids) == len(l)
	for _, i := range ids {
		if i < 0 || i >= len(l) || seen[i] {
			ok = false
		}
		seen[i] = true
	}
	if !ok {
		sum.Fail("sort_blocks_not_permutation", fmt.Sprintf("sortBlocks(%v, mode=%d) -> %v", l, mode, ids), c)
		return
	}
	for j := 1; j < len(ids); j++ {
		a, b := startOf(mode, l[ids[j-1]]), startOf(mode, l[ids[j]])
		if (mode == processor.VerifRecentFirst && a < b) || (mode == processor.VerifRecentLast && a > b) {
			sum.Fail("sort_blocks_wrong_order", fmt.Sprintf("sortBlocks(%v, mode=%d) -> positions %v: block %v before %v", l, mode, ids, l[ids[j-1]], l[ids[j]]), c)
			return
		}
	}
}

func runSortBlocks(cfg vhlib.Config, sum *vhlib.Summary, r *vhlib.Rng) {
	d, kmax := uint64(4), 3
	if cfg.Thorough() {
		kmax = 4
	}
	types := blockTypes(d)
	for _, mode := range []int{processor.VerifRecentFirst, processor.VerifRecentLast} {
		var obs []string
		for k := 1; k <= kmax; k++ {
			allLists(types, k, nil, func(l []bt) {
				ids, err := processor.VerifSortBlocks(mkVBlocks(l), mode)
				if err != nil {
					sum.HarnessError("sortBlocks: " + err.Error())
					return
				}
				judgeSort(sum, mode, l, ids)
				code := 0
				for _, i := range ids {
					code = code*10 + i
				}
				obs = append(obs, strconv.Itoa(code))
				sum.Eval(fmt.Sprintf("sb/%d/%v", mode, l), len(l) > 1)
				sum.Count(fmt.Sprintf("sort_blocks/exhaustive/mode%d", mode))
			})
		}
		per := 15000
		for s := 0; s*per < len(obs); s++ {
			end := (s + 1) * per
			if end > len(obs) {
				end = len(obs)
			}
			sum.WriteCaseFile(cfg.Out, fmt.Sprintf("cases_sortblocks_m%d_%d", mode, s), caseImports,
				"Definition obs : list N := "+vhlib.CoqList(obs[s*per:end])+".\n",
				fmt.Sprintf("sort_exh_loop (mode_of %d) (firstn %s (skipn %s (all_upto %d %s))) obs O",
					mode, coqNat(end-s*per), coqNat(s*per), d, coqNat(kmax)),
				end-s*per)
		}
	}
	var terms []string
	nrand := 150
	if cfg.Thorough() {
		nrand = 1500
	}
	for i := 0; i < nrand; i++ {
		mode := processor.VerifRecentFirst
		if r.Chance(40) {
			mode = processor.VerifRecentLast
		}
		k := r.Range(0, 30)
		dom := r.Range(2, 12)
		l := make([]bt, k)
		for j := range l {
			a, b := uint64(r.Intn(dom)), uint64(r.Intn(dom))
			if a > b {
				a, b = b, a
			}
			l[j] = bt{a, b}
		}
		ids, err := processor.VerifSortBlocks(mkVBlocks(l), mode)
		if err != nil {
			sum.HarnessError("sortBlocks: " + err.Error())
			continue
		}
		judgeSort(sum, mode, l, ids)
		idt := make([]string, len(ids))
		for j, x := range ids {
			idt[j] = coqNat(x)
		}
		terms = append(terms, fmt.Sprintf("(%d,%s,%s)", mode, coqBlocks(l), vhlib.CoqList(idt)))
		sum.Eval(fmt.Sprintf("sbr/%d/%v", mode, l), k > 1)
		sum.Count("sort_blocks/random")
	}
	writeSharded(cfg, sum, "cases_sortblocks_rand", "list (N * list (N * N) * list nat)", "check_sort cases", terms, 300)
}

// ---------------------------------------------------------------------------
// direct tier: getValidRRCs
// ---------------------------------------------------------------------------
func runValid(cfg vhlib.Config, sum *vhlib.Summary, r *vhlib.Rng) {
	var terms []string
	one := func(mode int, ts []uint64, last uint64) {
		n, pok, err := processor.VerifGetValidRRCs(ts, last, mode)
		if err != nil {
			sum.HarnessError("getValidRRCs: " + err.Error())
			return
		}
		c := map[string]interface{}{"mode": mode, "timestamps": ts, "lastTimestamp": last, "released": n}
		want := 0
		for _, t := range ts {
			if (mode == processor.VerifRecentFirst && t >= last) || (mode == processor.VerifRecentLast && t <= last) {
				want++
			}
		}
		if !pok || n != want {
			sum.Fail("valid_rrcs_boundary", fmt.Sprintf("getValidRRCs(%v, last=%d, mode=%d) released %d records, %d are within the end time (inclusive)", ts, last, mode, n, want), c)
		}
		tt := make([]string, len(ts))
		for i, t := range ts {
			tt[i] = strconv.FormatUint(t, 10)
		}
		terms = append(terms, fmt.Sprintf("(%d,%d,%s,%s)", mode, last, vhlib.CoqList(tt), coqNat(n)))
		sum.Eval(fmt.Sprintf("valid/%d/%d/%v", mode, last, ts), len(ts) > 0)
		sum.Count(fmt.Sprintf("valid_rrcs/mode%d", mode))
	}
	// exhaustive: sorted timestamp lists of length 0..4 over 0..4, thresholds 0..5
	kmax := 4
	if cfg.Thorough() {
		kmax = 6
	}
	var gen func(mode int, k int, prev int, cur []uint64)
	gen = func(mode int, k int, prev int, cur []uint64) {
		for last := uint64(0); last <= 5; last++ {
			one(mode, append([]uint64{}, cur...), last)
		}
		if k == 0 {
			return
		}
		for t := 0; t <= 4; t++ {
			if prev >= 0 && ((mode == processor.VerifRecentFirst && t > prev) || (mode == processor.VerifRecentLast && t < prev)) {
				continue
			}
			gen(mode, k-1, t, append(cur, uint64(t)))
		}
	}
	gen(processor.VerifRecentFirst, kmax, -1, nil)
	gen(processor.VerifRecentLast, kmax, -1, nil)
	for i := 0; i < 200; i++ {
		mode := processor.VerifRecentFirst
		if r.Bool() {
			mode = processor.VerifRecentLast
		}
		k := r.Range(0, 40)
		ts := make([]uint64, k)
		for j := range ts {
			ts[j] = uint64(r.Intn(30))
		}
		sort.Slice(ts, func(a, b int) bool {
			if mode == processor.VerifRecentFirst {
				return ts[a] > ts[b]
			}
			return ts[a] < ts[b]
		})
		one(mode, ts, uint64(r.Intn(32)))
	}
	writeSharded(cfg, sum, "cases_valid", "list (N * N * list N * nat)", "check_valid cases", terms, 500)
}

// ---------------------------------------------------------------------------
// direct tier: utils.MergeSortedSlices (the merge of fetchRRCs)
// ---------------------------------------------------------------------------
func runMerge(cfg vhlib.Config, sum *vhlib.Summary, r *vhlib.Rng) {
	type rc struct{ ts, id uint64 }
	var terms []string
	n := 300
	if cfg.Thorough() {
		n = 3000
	}
	for i := 0; i < n; i++ {
		mode := processor.VerifRecentFirst
		if r.Chance(30) {
			mode = processor.VerifRecentLast
		}
		less := func(a, b rc) bool { return a.ts > b.ts }
		if mode == processor.VerifRecentLast {
			less = func(a, b rc) bool { return a.ts < b.ts }
		}
		ns := r.Range(0, 5)
		dom := r.Range(1, 9)
		id := uint64(1)
		var slices [][]rc
		var st []string
		total := 0
		for k := 0; k < ns; k++ {
			sz := r.Range(0, 6)
			sl := make([]rc, sz)
			for j := range sl {
				sl[j] = rc{uint64(r.Intn(dom)), 0}
			}
			sort.SliceStable(sl, func(a, b int) bool { return less(sl[a], sl[b]) })
			it := make([]string, sz)
			for j := range sl {
				sl[j].id = id
				id++
				it[j] = fmt.Sprintf("(%d,%d)", sl[j].ts, sl[j].id)
			}
			total += sz
			slices = append(slices, sl)
			st = append(st, vhlib.CoqList(it))
		}
		out := sigutils.MergeSortedSlices(less, slices...)
		c := map[string]interface{}{"mode": mode, "slices": st}
		ok := len(out) == total
		for j := 1; ok && j < len(out); j++ {
			if less(out[j], out[j-1]) {
				ok = false
			}
		}
		if !ok {
			sum.Fail("merge_sorted_slices_not_sorted", fmt.Sprintf("MergeSortedSlices(mode %d) of %v returned %v", mode, st, out), c)
		}
		ids := make([]string, len(out))
		for j, x := range out {
			ids[j] = strconv.FormatUint(x.id, 10)
		}
		terms = append(terms, fmt.Sprintf("(%d,%s,%s)", mode, vhlib.CoqList(st), vhlib.CoqList(ids)))
		sum.Eval(fmt.Sprintf("merge/%d/%v", mode, st), total > 1)
		sum.Count("merge_sorted_slices")
	}
	writeSharded(cfg, sum, "cases_merge", "list (N * list (list (N * N)) * list N)", "check_merge cases", terms, 400)
}

// ---------------------------------------------------------------------------
// direct tier: segment level
// ---------------------------------------------------------------------------
type segSpec struct {
	Start, End uint64
	Blocks     [][3]uint64 // lo, hi, id
}

func runSegs(cfg vhlib.Config, sum *vhlib.Summary, r *vhlib.Rng) {
	var terms []string
	n := 400
	if cfg.Thorough() {
		n = 4000
	}
	for i := 0; i < n; i++ {
		mode := processor.VerifRecentFirst
		if r.Chance(35) {
			mode = processor.VerifRecentLast
		}
		ns := r.Range(0, 5)
		dom := r.Range(1, 8)
		segs := make([]segSpec, ns)
		id := uint64(1)
		for j := range segs {
			a, b := uint64(r.Intn(dom+1)), uint64(r.Intn(dom+1))
			if a > b {
				a, b = b, a
			}
			segs[j] = segSpec{Start: a, End: b}
			nb := r.Range(0, 3)
			for k := 0; k < nb; k++ {
				lo := a + uint64(r.Intn(int(b-a)+1))
				hi := lo + uint64(r.Intn(int(b-lo)+1))
				segs[j].Blocks = append(segs[j].Blocks, [3]uint64{lo, hi, id})
				id++
			}
		}
		// the queue order of the real code (initializeQSRs), except in a fifth of the cases
		if !r.Chance(20) {
			sort.SliceStable(segs, func(x, y int) bool {
				if mode == processor.VerifRecentFirst {
					return segs[x].End > segs[y].End
				}
				return segs[x].Start < segs[y].Start
			})
		}
		vsegs := make([]processor.VerifSeg, ns)
		total := 0
		for j, s := range segs {
			vsegs[j] = processor.VerifSeg{Start: s.Start, End: s.End}
			for _, b := range s.Blocks {
				vsegs[j].Blocks = append(vsegs[j].Blocks, processor.VerifNewBlock(int(b[2]), b[0], b[1]))
				total++
			}
		}
		vs := processor.VerifNewSearcher(mode, vsegs)
		var obs []string
		seen := map[int]int{}
		c := map[string]interface{}{"mode": mode, "segments": segs}
		var steps []interface{}
		for step := 0; step <= ns+1; step++ {
			taken, queue, cutoff, gotAll, err := vs.Step()
			if err != nil {
				sum.HarnessError("segment step: " + err.Error())
				break
			}
			steps = append(steps, map[string]interface{}{"taken": taken, "queue": queue, "cutoff": cutoff, "gotAll": gotAll})
			tk := make([]string, len(taken))
			for j, t := range taken {
				tk[j] = strconv.Itoa(t)
				seen[t]++
			}
			qs := make([]string, len(queue))
			for j, q := range queue {
				qs[j] = fmt.Sprintf("(%d,%d)", q[0], q[1])
			}
			obs = append(obs, fmt.Sprintf("(%s,%s,%d,%s)", vhlib.CoqList(tk), vhlib.CoqList(qs), cutoff, vhlib.CoqBool(gotAll)))
			if gotAll {
				break
			}
		}
		c["steps"] = steps
		// every block is handed to the block level exactly once before the queue is empty
		bad := len(seen) != total
		for _, k := range seen {
			if k != 1 {
				bad = true
			}
		}
		if bad {
			sum.Fail("segment_level_lost_or_repeated_block", fmt.Sprintf("mode=%d segments=%v: blocks handed out %v of %d", mode, segs, seen, total), c)
		}
		st := make([]string, len(segs))
		for j, s := range segs {
			bl := make([]string, len(s.Blocks))
			for k, b := range s.Blocks {
				bl[k] = fmt.Sprintf("(%d,%d,%d)", b[0], b[1], b[2])
			}
			st[j] = fmt.Sprintf("(%d,%d,%s)", s.Start, s.End, vhlib.CoqList(bl))
		}
		terms = append(terms, fmt.Sprintf("(%d,%s,%s)", mode, vhlib.CoqList(st), vhlib.CoqList(obs)))
		sum.Eval(fmt.Sprintf("segs/%d/%v", mode, segs), ns > 1)
		sum.Count(fmt.Sprintf("segment_level/mode%d", mode))
		if i == 0 {
			sum.Sample(c)
		}
	}
	writeSharded(cfg, sum, "cases_segs", "list (N * list (N * N * list (N * N * N)) * list seg_obs)", "check_segs cases", terms, 250)
}

// ---------------------------------------------------------------------------
// values for the sort command
// ---------------------------------------------------------------------------
type val struct {
	Kind  string // "i" int, "f" float (multiple of 1e-6), "s" string, "ns" numeric string, "null", "I" SS_DT_SIGNED_NUM over the whole int64 range, "U" SS_DT_UNSIGNED_NUM over the whole uint64 range
	Micro int64  // numeric value in units of 1e-6 (kinds i, f, ns)
	S     string
	Bits  uint64 // kinds I, U: the 64 bits of CVal (int64(Bits) for I)
}

func (v val) enc() sutils.CValueEnclosure {
	switch v.Kind {
	case "i":
		return sutils.CValueEnclosure{Dtype: sutils.SS_DT_SIGNED_NUM, CVal: v.Micro / 1000000}
	case "I":
		return sutils.CValueEnclosure{Dtype: sutils.SS_DT_SIGNED_NUM, CVal: int64(v.Bits)}
	case "U":
		return sutils.CValueEnclosure{Dtype: sutils.SS_DT_UNSIGNED_NUM, CVal: v.Bits}
	case "f":
		return sutils.CValueEnclosure{Dtype: sutils.SS_DT_FLOAT, CVal: float64(v.Micro) / 1e6}
	case "s", "ns", "NS":
		return sutils.CValueEnclosure{Dtype: sutils.SS_DT_STRING, CVal: v.S}
	case "b":
		return sutils.CValueEnclosure{Dtype: sutils.SS_DT_BOOL, CVal: v.S == "true"}
	}
	return sutils.CValueEnclosure{Dtype: sutils.SS_DT_BACKFILL, CVal: nil}
}

// decimal form of an integer of kind I / U
func (v val) intString() string {
	if v.Kind == "U" {
		return strconv.FormatUint(v.Bits, 10)
	}
	return strconv.FormatInt(int64(v.Bits), 10)
}

func (v val) isNum() bool { return v.Kind == "i" || v.Kind == "f" || v.Kind == "I" || v.Kind == "U" }

// exact numeric value in units of 1e-6 (numbers only)
func (v val) microBig() *big.Int {
	switch v.Kind {
	case "I":
		return new(big.Int).Mul(big.NewInt(int64(v.Bits)), big.NewInt(1000000))
	case "U":
		return new(big.Int).Mul(new(big.Int).SetUint64(v.Bits), big.NewInt(1000000))
	}
	return big.NewInt(v.Micro)
}

func (v val) coq() string {
	switch v.Kind {
	case "f":
		e := v.enc()
		s, _ := e.GetValueAsString() // string form as the real code produces it (used by op=str)
		return fmt.Sprintf("(vnum %s %s)", vhlib.CoqZ(v.Micro), vhlib.CoqStr(s))
	case "i", "I", "U":
		// integer dtypes go to the model as dtype + the 64 bits of CVal
		e := v.enc()
		s, _ := e.GetValueAsString()
		bits := v.Bits
		if v.Kind == "i" {
			bits = uint64(v.Micro / 1000000)
		}
		return fmt.Sprintf("(vint %s %d %s)", vhlib.CoqBool(v.Kind == "U"), bits, vhlib.CoqStr(s))
	case "NS":
		// numeric string holding a large integer: the model gets the float64 that ParseFloat
		// yields (exactly, in units of 1e-6)
		f, _ := strconv.ParseFloat(v.S, 64)
		z, _ := new(big.Float).SetFloat64(f).Int(nil)
		z.Mul(z, big.NewInt(1000000))
		zs := z.String()
		if z.Sign() < 0 {
			zs = "(" + zs + ")"
		}
		return fmt.Sprintf("(vnstr %s %s)", zs, vhlib.CoqStr(v.S))
	case "s", "b": // a bool has the string rank under every op and compares by its string form
		return fmt.Sprintf("(vstr %s)", vhlib.CoqStr(v.S))
	case "ns":
		return fmt.Sprintf("(vnstr %s %s)", vhlib.CoqZ(v.Micro), vhlib.CoqStr(v.S))
	}
	return "VNull"
}

func (v val) String() string {
	switch v.Kind {
	case "i":
		return strconv.FormatInt(v.Micro/1000000, 10)
	case "I":
		return strconv.FormatInt(int64(v.Bits), 10) + "(int64)"
	case "U":
		return strconv.FormatUint(v.Bits, 10) + "(uint64)"
	case "f":
		return strconv.FormatFloat(float64(v.Micro)/1e6, 'f', -1, 64)
	case "s", "ns", "NS":
		return strconv.Quote(v.S)
	case "b":
		return v.S + "(bool)"
	}
	return "null"
}

// Integer-typed keys over the whole signed and unsigned 64-bit range.
// exact=true (columns that may also hold floats / numeric strings): integers that float64 represents exactly (m * 2^k with m < 2^53),
// so two different keys stay different in the comparator's float64 arithmetic: small values of
// both dtypes, the neighbourhoods of 2^53, 2^62, 2^63 (largest int64 that is exact: 2^63-1024),
// 2^64 (largest exact uint64: 2^64-2048), the most negative int64.
// exact=false (integer-only columns): clusters of neighbouring integers above 2^53 whose float64
// images coincide — two integers are compared exactly, so these are ordinary inputs; next to a
// float or a numeric string such an integer still goes through float64.
func genInt64(r *vhlib.Rng, exact bool) val {
	mk := func(neg bool, mag uint64) val {
		switch {
		case neg:
			return val{Kind: "I", Bits: uint64(-int64(mag))} // mag <= 2^63
		case mag >= 1<<63:
			return val{Kind: "U", Bits: mag}
		case r.Bool():
			return val{Kind: "U", Bits: mag}
		}
		return val{Kind: "I", Bits: mag}
	}
	j := uint64(r.Intn(4))
	if !exact {
		switch r.Intn(6) {
		case 0:
			return mk(false, 1<<53+j)
		case 1:
			return mk(true, 1<<53+j)
		case 2:
			return mk(false, 1<<60+uint64(r.Intn(130))) // spacing 256
		case 3:
			return mk(false, 1<<63-2+j) // int64 and uint64 patterns on both sides of 2^63
		case 4:
			return mk(false, ^uint64(0)-uint64(r.Intn(1500))) // up to MaxUint64, spacing 2048
		default:
			return mk(true, 1<<63-uint64(r.Intn(600))) // down to MinInt64, spacing 1024
		}
	}
	switch r.Intn(10) {
	case 0:
		return mk(r.Chance(30), uint64(r.Intn(21)))
	case 1:
		return mk(r.Chance(30), 1<<53-j)
	case 2:
		return mk(r.Chance(30), 1<<53+2*j)
	case 3:
		return mk(r.Chance(30), (1<<62)+j<<10)
	case 4:
		return mk(false, 1<<63-(j+1)<<10) // just below 2^63: the largest exact int64 values
	case 5:
		return mk(false, 1<<63+j<<11) // 2^63 and just above: uint64 only
	case 6:
		return mk(false, ^uint64(0)-(j+1)<<11+1) // 2^64 - 2048*(j+1)
	case 7:
		return mk(true, 1<<63-j<<10) // MinInt64 and just above
	case 8:
		return mk(r.Chance(30), uint64(r.Intn(1<<20))<<uint(r.Intn(43)))
	default:
		return mk(r.Chance(30), (uint64(r.Intn(1<<30))<<23|uint64(r.Intn(1<<23))|1<<52)<<uint(r.Intn(11))) // 53 significant bits
	}
}

// numeric values of the main stream are multiples of 1e-3 (>= 1e-3 apart or equal)
func genNum(r *vhlib.Rng, close bool) val {
	if close {
		// known-finding stream: values closer than 1e-4
		base := int64(r.Range(-2, 3)) * 1000000
		// multiples of 3e-5: a difference of exactly 1e-4 (where float64 rounding of the
		// subtraction decides, e.g. 1.0001-1 < 1e-4) does not occur
		return val{Kind: "f", Micro: base + int64(r.Range(-9, 9))*30}
	}
	if r.Chance(25) {
		return genInt64(r, true)
	}
	if r.Chance(40) {
		return val{Kind: "i", Micro: int64(r.Range(-20, 20)) * 1000000}
	}
	return val{Kind: "f", Micro: int64(r.Range(-3000, 3000)) * 1000}
}

var words = []string{"a", "ab", "abc", "b", "B", "Zed", "zed", "10x", "x10", "", " ", "alpha", "beta", "be", "~"}

func genStr(r *vhlib.Rng) val { return val{Kind: "s", S: vhlib.Pick(r, words)} }
func genNumStr(r *vhlib.Rng) val {
	m := int64(r.Range(-50, 50)) * 500000 // multiples of 0.5
	s := strconv.FormatFloat(float64(m)/1e6, 'f', -1, 64)
	return val{Kind: "ns", Micro: m, S: s}
}

type ele struct {
	Asc bool
	Op  string // "", "auto", "num", "str"
}

func (e ele) coq() string {
	n := 0
	switch e.Op {
	case "num":
		n = 1
	case "str":
		n = 2
	}
	return fmt.Sprintf("(%s,%d)", vhlib.CoqBool(e.Asc), n)
}

// oracle comparison for homogeneous columns: -1, 0, +1 in the requested direction;
// ok=false when the pair is outside the oracle's scope (mixed kinds, nulls, op=str on numbers)
func oracleCmp(e ele, a, b val) (int, bool) {
	c := 0
	switch {
	case a.isNum() && b.isNum() && e.Op != "str":
		// the numeric order of the property text: exact values, whatever the dtype
		c = a.microBig().Cmp(b.microBig())
	case a.Kind == "s" && b.Kind == "s" && !mightBeNum(a.S) && !mightBeNum(b.S):
		c = strings.Compare(a.S, b.S)
	default:
		return 0, false
	}
	if !e.Asc {
		c = -c
	}
	return c, true
}

func mightBeNum(s string) bool {
	_, err := strconv.ParseFloat(s, 64)
	return err == nil
}

func oracleLess(eles []ele, a, b []val) (int, bool) {
	for i, e := range eles {
		c, ok := oracleCmp(e, a[i], b[i])
		if !ok {
			return 0, false
		}
		if c != 0 {
			return c, true
		}
	}
	return 0, true
}

// judgeSorted: adjacent results in order; result = a prefix of the full order (as key lists)
// knownClass != "": the input comes from the separate stream of that known-finding class
func judgeSorted(sum *vhlib.Summary, classPrefix string, eles []ele, all [][]val, res [][]val, limit int, knownClass string, detail string, c interface{}) {
	clsOrder, clsPrefix := "sort_out_of_order", "sort_limit_not_prefix"
	if knownClass != "" {
		clsOrder, clsPrefix = knownClass, knownClass
	}
	for i := 1; i < len(res); i++ {
		cmp, ok := oracleLess(eles, res[i-1], res[i])
		if !ok {
			return
		}
		if cmp > 0 {
			sum.Fail(clsOrder, fmt.Sprintf("%s: result row %d %v comes before row %d %v", detail, i-1, res[i-1], i, res[i]), c)
			return
		}
	}
	sorted := append([][]val{}, all...)
	inScope := true
	sort.SliceStable(sorted, func(x, y int) bool {
		cmp, ok := oracleLess(eles, sorted[x], sorted[y])
		if !ok {
			inScope = false
		}
		return cmp < 0
	})
	if !inScope {
		return
	}
	want := len(sorted)
	if limit < want {
		want = limit
	}
	if len(res) != want {
		sum.Fail(clsPrefix, fmt.Sprintf("%s: %d rows returned, %d expected (limit %d of %d)", detail, len(res), want, limit, len(all)), c)
		return
	}
	for i := range res {
		if cmp, _ := oracleLess(eles, res[i], sorted[i]); cmp != 0 {
			sum.Fail(clsPrefix, fmt.Sprintf("%s: row %d has keys %v, the full order has %v there", detail, i, res[i], sorted[i]), c)
			return
		}
	}
}

// ---------------------------------------------------------------------------
// direct tier: compareValues, sortProcessor, head, tail
// ---------------------------------------------------------------------------
const clsTolerance = "sort_almost_equals_tolerance"

// stream: 0 main, 1 numeric keys closer than 1e-4 (known finding), 2 dense integer keys: clusters
// of neighbouring integers above 2^53 in both dtypes (float64 cannot tell them apart; the
// comparator must: an ordinary stream, judged by the main classes)
func genValS(r *vhlib.Rng, kindMix int, stream int) val {
	if stream == 2 {
		return genInt64(r, false)
	}
	return genVal(r, kindMix, stream == 1)
}

func genVal(r *vhlib.Rng, kindMix int, close bool) val {
	switch kindMix {
	case 0:
		return genNum(r, close)
	case 1:
		return genStr(r)
	default: // mixed column
		switch r.Intn(7) {
		case 6:
			return val{Kind: "b", S: vhlib.Pick(r, []string{"true", "false"})}
		case 0, 1:
			return genNum(r, close)
		case 2:
			return genStr(r)
		case 3:
			return genNumStr(r)
		case 4:
			return val{Kind: "null"}
		default:
			return genNum(r, close)
		}
	}
}

var opsAll = []string{"", "auto", "num", "str"}

func runCompare(cfg vhlib.Config, sum *vhlib.Summary, r *vhlib.Rng) {
	var terms []string
	n := 1500
	if cfg.Thorough() {
		n = 15000
	}
	for i := 0; i < n; i++ {
		stream := 0
		if i%10 == 9 {
			stream = 1 + (i/10)%2 // 1: known-finding stream (the model has the same tolerance, so it still must agree); 2: dense integers
		}
		a, b := genValS(r, 2, stream), genValS(r, 2, stream)
		if stream == 2 && r.Chance(30) {
			// an integer against a numeric string holding a neighbouring integer: this pair still
			// goes through float64 (compared with the model only; mixed kinds are outside the oracle)
			b = val{Kind: "NS", S: genInt64(r, false).intString()}
		}
		if r.Chance(15) {
			b = a
		}
		e := ele{Asc: r.Bool(), Op: vhlib.Pick(r, opsAll)}
		ea, eb := a.enc(), b.enc()
		got := processor.VerifCompareValues(&ea, &eb, e.Asc, e.Op)
		back := processor.VerifCompareValues(&eb, &ea, e.Asc, e.Op)
		c := map[string]interface{}{"a": a.String(), "b": b.String(), "asc": e.Asc, "op": e.Op, "compare_ab": got, "compare_ba": back}
		// antisymmetry is part of "a requested order"
		if (got == 1) != (back == 1) || (got == 2 && back != 3) || (got == 3 && back != 2) {
			sum.Fail("compare_values_not_antisymmetric", fmt.Sprintf("compareValues(%v,%v,asc=%v,op=%q)=%d but reversed=%d", a, b, e.Asc, e.Op, got, back), c)
		}
		if oc, ok := oracleCmp(e, a, b); ok && stream != 1 {
			want := 1
			if oc < 0 {
				want = 2
			} else if oc > 0 {
				want = 3
			}
			if got != want {
				sum.Fail("sort_out_of_order", fmt.Sprintf("compareValues(%v,%v,asc=%v,op=%q)=%d, the requested order says %d", a, b, e.Asc, e.Op, got, want), c)
			}
		}
		terms = append(terms, fmt.Sprintf("(%s,%s,%s,%d)", e.coq(), a.coq(), b.coq(), got))
		sum.Eval(fmt.Sprintf("cmp/%v/%v/%v", a, b, e), a != b)
		sum.Count("compare_values/" + a.Kind + "_" + b.Kind)
		if stream == 2 {
			sum.Count("compare_values/dense_integers_above_2p53")
		}
	}
	writeSharded(cfg, sum, "cases_cmp", "list ((bool * N) * value * value * N)", "check_cmp cases", terms, 500)
}

type srec struct {
	ID   int
	Keys []val
}

func runSortProc(cfg vhlib.Config, sum *vhlib.Summary, r *vhlib.Rng) {
	var terms []string
	n := 400
	if cfg.Thorough() {
		n = 4000
	}
	for i := 0; i < n; i++ {
		known := i%8 == 7    // separate stream: numeric keys closer than 1e-4
		collapse := i%8 == 3 // first key: dense integers above 2^53 (coinciding float64 images), both dtypes
		nk := r.Range(1, 3)
		eles := make([]ele, nk)
		mix := make([]int, nk)
		for k := range eles {
			eles[k] = ele{Asc: r.Bool(), Op: vhlib.Pick(r, opsAll)}
			mix[k] = r.Intn(3)
			if known || (collapse && k == 0) {
				mix[k] = 0
				if eles[k].Op == "str" {
					eles[k].Op = "num"
				}
			}
			if mix[k] == 0 && eles[k].Op == "str" && !r.Chance(30) {
				eles[k].Op = "num"
			}
		}
		nb := r.Range(1, 5)
		limits := []int{1, 2, 3, 5, 8, 100, 1001, 5000}
		limit := vhlib.Pick(r, limits)
		var batches [][]srec
		id := 1
		for b := 0; b < nb; b++ {
			sz := r.Range(0, 7)
			var recs []srec
			for j := 0; j < sz; j++ {
				rec := srec{ID: id}
				id++
				for k := range eles {
					stream := 0
					if known && k == 0 {
						stream = 1
					} else if collapse && k == 0 {
						stream = 2
					}
					rec.Keys = append(rec.Keys, genValS(r, mix[k], stream))
				}
				recs = append(recs, rec)
			}
			batches = append(batches, recs)
		}
		// the real sortProcessor
		ses := make([]*structs.SortElement, nk)
		for k, e := range eles {
			ses[k] = &structs.SortElement{SortByAsc: e.Asc, Op: e.Op, Field: fmt.Sprintf("k%d", k)}
		}
		var in []map[string][]sutils.CValueEnclosure
		byID := map[int]srec{}
		var all [][]val
		for _, b := range batches {
			m := map[string][]sutils.CValueEnclosure{"id": {}}
			for k := range eles {
				m[fmt.Sprintf("k%d", k)] = []sutils.CValueEnclosure{}
			}
			for _, rec := range b {
				byID[rec.ID] = rec
				all = append(all, rec.Keys)
				m["id"] = append(m["id"], sutils.CValueEnclosure{Dtype: sutils.SS_DT_SIGNED_NUM, CVal: int64(rec.ID)})
				for k := range eles {
					m[fmt.Sprintf("k%d", k)] = append(m[fmt.Sprintf("k%d", k)], rec.Keys[k].enc())
				}
			}
			if len(b) > 0 {
				in = append(in, m)
			}
		}
		out, err := processor.VerifSortProcess(ses, uint64(limit), in, "id")
		c := map[string]interface{}{"sort": eles, "limit": limit, "batches": batches}
		if err != nil {
			sum.Fail("sort_processor_error", "sortProcessor returned an error: "+err.Error(), c)
			continue
		}
		var ids []string
		var res [][]val
		seen := map[int]bool{}
		dup := false
		for _, v := range out {
			x, _ := v.CVal.(int64)
			ids = append(ids, strconv.FormatInt(x, 10))
			if seen[int(x)] || byID[int(x)].ID == 0 {
				dup = true
			}
			seen[int(x)] = true
			res = append(res, byID[int(x)].Keys)
		}
		c["result_ids"] = ids
		if dup {
			sum.Fail("sort_duplicate_or_unknown_row", fmt.Sprintf("sort returned ids %v", ids), c)
			continue
		}
		knownClass := ""
		if known {
			knownClass = clsTolerance
		}
		judgeSorted(sum, "direct", eles, all, res, limit, knownClass, fmt.Sprintf("sortProcessor %v limit=%d over %d batches", eles, limit, len(in)), c)
		// Coq case (the tolerance stream is not compared with the model: under a comparator that
		// is not a strict weak order the heap and the insertion sort may legitimately differ)
		if !known {
			et := make([]string, nk)
			for k, e := range eles {
				et[k] = e.coq()
			}
			var bt []string
			for _, b := range batches {
				if len(b) == 0 {
					continue
				}
				var rt []string
				for _, rec := range b {
					kt := make([]string, nk)
					for k := range rec.Keys {
						kt[k] = rec.Keys[k].coq()
					}
					rt = append(rt, fmt.Sprintf("(%d,%s)", rec.ID, vhlib.CoqList(kt)))
				}
				bt = append(bt, vhlib.CoqList(rt))
			}
			terms = append(terms, fmt.Sprintf("(%s,%s,%s,%s)", vhlib.CoqList(et), coqNat(limit), vhlib.CoqList(bt), vhlib.CoqList(ids)))
		}
		sum.Eval(fmt.Sprintf("sortproc/%d", i), len(all) > 1)
		if known {
			sum.Count("sort_processor/known_stream_close_values")
		} else if collapse {
			sum.Count("sort_processor/dense_integers_above_2p53")
		} else {
			sum.Count(fmt.Sprintf("sort_processor/keys%d", nk))
		}
		if i == 1 {
			sum.Sample(c)
		}
	}
	writeSharded(cfg, sum, "cases_sortproc", "list (list (bool * N) * nat * list (list (N * list value)) * list N)", "check_sortcmd cases", terms, 200)
}

func runHeadTail(cfg vhlib.Config, sum *vhlib.Summary, r *vhlib.Rng) {
	var hterms, tterms []string
	n := 300
	if cfg.Thorough() {
		n = 3000
	}
	for i := 0; i < n; i++ {
		nb := r.Range(0, 5)
		var batches [][]sutils.CValueEnclosure
		var flat []int64
		var bt []string
		id := int64(1)
		for b := 0; b < nb; b++ {
			sz := r.Range(1, 6)
			var vs []sutils.CValueEnclosure
			var it []string
			for j := 0; j < sz; j++ {
				vs = append(vs, sutils.CValueEnclosure{Dtype: sutils.SS_DT_SIGNED_NUM, CVal: id})
				it = append(it, strconv.FormatInt(id, 10))
				flat = append(flat, id)
				id++
			}
			batches = append(batches, vs)
			bt = append(bt, vhlib.CoqList(it))
		}
		limit := r.Range(1, 12)
		toIDs := func(vs []sutils.CValueEnclosure) ([]int64, []string) {
			var a []int64
			var s []string
			for _, v := range vs {
				x, _ := v.CVal.(int64)
				a = append(a, x)
				s = append(s, strconv.FormatInt(x, 10))
			}
			return a, s
		}
		eq := func(a, b []int64) bool {
			if len(a) != len(b) {
				return false
			}
			for i := range a {
				if a[i] != b[i] {
					return false
				}
			}
			return true
		}
		c := map[string]interface{}{"n": limit, "batches": bt}
		hv, err := processor.VerifHeadProcess(uint64(limit), batches, "id")
		if err != nil {
			sum.HarnessError("head: " + err.Error())
			continue
		}
		ha, hs := toIDs(hv)
		want := flat
		if len(want) > limit {
			want = want[:limit]
		}
		if !eq(ha, want) {
			sum.Fail("head_not_prefix", fmt.Sprintf("head %d over batches %v returned %v, the first %d rows are %v", limit, bt, ha, limit, want), c)
		}
		hterms = append(hterms, fmt.Sprintf("(%s,%s,%s)", coqNat(limit), vhlib.CoqList(bt), vhlib.CoqList(hs)))
		tv, err := processor.VerifTailProcess(uint64(limit), batches, "id")
		if err != nil {
			sum.HarnessError("tail: " + err.Error())
			continue
		}
		ta, ts := toIDs(tv)
		var twant []int64
		for j := len(flat) - 1; j >= 0 && len(twant) < limit; j-- {
			twant = append(twant, flat[j])
		}
		if !eq(ta, twant) {
			sum.Fail("tail_not_last_n_reversed", fmt.Sprintf("tail %d over batches %v returned %v, expected %v", limit, bt, ta, twant), c)
		}
		tterms = append(tterms, fmt.Sprintf("(%s,%s,%s)", coqNat(limit), vhlib.CoqList(bt), vhlib.CoqList(ts)))
		sum.Eval(fmt.Sprintf("headtail/%d/%v", limit, bt), nb > 0)
		sum.Count("head_tail_processors")
	}
	writeSharded(cfg, sum, "cases_head", "list (nat * list (list N) * list N)", "check_head cases", hterms, 500)
	writeSharded(cfg, sum, "cases_tail", "list (nat * list (list N) * list N)", "check_tail cases", tterms, 500)
}

// ---------------------------------------------------------------------------
// end-to-end tier
// ---------------------------------------------------------------------------
type event struct {
	ID int     `json:"id"`
	TS uint64  `json:"ts"`
	V  float64 `json:"v"`
	VM int64   `json:"vm"` // v in units of 1e-6
	S  string  `json:"s"`
	G  int     `json:"g"`
	N  int64   `json:"n"` // integer column over the whole int64 range (ingest keeps integers as int64)
}

type step struct {
	Events []event `json:"events"`
	Rotate bool    `json:"rotate"`
}

type querySpec struct {
	Name  string `json:"name"`
	Text  string `json:"text"`
	Size  uint64 `json:"size"`
	From  uint64 `json:"from"`
	Pages int    `json:"pages"`           // >0: page with from = 0, size, 2*size, … (Pages requests)
	MinID int    `json:"minid,omitempty"` // the query text carries the filter id>=MinID
}

type scenario struct {
	MaxProcs int         `json:"maxprocs"` // GOMAXPROCS of the worker = maxBlocks per Fetch (0: default)
	Index    string      `json:"index"`
	Steps    []step      `json:"steps"`
	Queries  []querySpec `json:"queries"`
	// sort-index route (sortidx.go): sort columns configured for the index before ingest; the
	// worker then waits for the .srt files after every rotation and drains the real reader
	SortCols  []string `json:"sortcols,omitempty"`
	DrainSeed uint64   `json:"drainseed,omitempty"`
}

type row struct {
	ID int    `json:"id"`
	TS uint64 `json:"ts"`
}

type queryResult struct {
	Name  string  `json:"name"`
	Err   string  `json:"err"`
	Pages [][]row `json:"pages"`
}

type workerOut struct {
	Err      string        `json:"err"`
	Results  []queryResult `json:"results"`
	Srt      []srtFile     `json:"srt,omitempty"`
	Searcher []searcherRun `json:"searcher,omitempty"`
}

const baseTS = uint64(1700000000000)

// an int64 for the integer column n (stream 0: float64-exact values, stream 2: collapsing clusters)
func genN(r *vhlib.Rng, exact bool) int64 {
	for {
		v := genInt64(r, exact)
		if v.Kind == "I" || v.Bits < 1<<63 {
			return int64(v.Bits)
		}
	}
}

// stream: 0 main, 1 values of v closer than 1e-4 (known finding), 2 dense values of n above 2^53
// (coinciding float64 images; ordinary stream)
func genScenario(r *vhlib.Rng, idx int, stream int) scenario {
	known := stream != 0
	sc := scenario{Index: fmt.Sprintf("c05ix%d", idx), MaxProcs: vhlib.Pick(r, []int{1, 1, 2, 3, 0})}
	nsteps := r.Range(1, 6)
	id := 1
	spread := r.Range(3, 40) // small spread => many ties and overlaps
	gap := vhlib.Pick(r, []int{1, 1, 7, 1000})
	unique := !known && r.Chance(50) // no two events share a timestamp (paging is only reliable then)
	used := map[uint64]bool{}
	if unique {
		spread = r.Range(60, 90)
	}
	for s := 0; s < nsteps; s++ {
		ne := r.Range(1, 9)
		st := step{Rotate: r.Chance(35)}
		for j := 0; j < ne; j++ {
			ev := event{ID: id, TS: baseTS + uint64(r.Intn(spread)*gap), G: r.Intn(3), S: vhlib.Pick(r, []string{"a", "ab", "abc", "b", "B", "Zed", "zed", "alpha", "beta", "x y"})}
			for unique && used[ev.TS] {
				ev.TS = baseTS + uint64(r.Intn(spread)*gap)
			}
			used[ev.TS] = true
			if stream == 1 {
				ev.VM = 1000000 + int64(r.Range(-9, 9))*20
			} else {
				ev.VM = int64(r.Range(-2000, 2000)) * 1000
			}
			ev.N = genN(r, stream != 2)
			ev.V = float64(ev.VM) / 1e6
			id++
			st.Events = append(st.Events, ev)
		}
		sc.Steps = append(sc.Steps, st)
	}
	total := id - 1
	if stream == 2 {
		sc.Queries = []querySpec{
			{Name: "sortc_n_asc", Text: "* | sort 10000 num(n)", Size: 1000},
			{Name: "sortc_n_desc", Text: "* | sort 10000 -n", Size: 1000},
		}
		return sc
	}
	if known {
		sc.Queries = []querySpec{
			{Name: "sortk_num_asc", Text: "* | sort 10000 num(v)", Size: 1000},
			{Name: "sortk_num_desc", Text: "* | sort 10000 -num(v)", Size: 1000},
		}
		return sc
	}
	k := r.Range(1, total)
	n := r.Range(1, total+2)
	m := r.Range(1, total+1)
	ps := r.Range(1, 5)
	sc.Queries = []querySpec{
		{Name: "all", Text: "*", Size: uint64(total + 10)},
		{Name: fmt.Sprintf("size:%d", k), Text: "*", Size: uint64(k)},
		{Name: fmt.Sprintf("head:%d", n), Text: fmt.Sprintf("* | head %d", n), Size: uint64(total + 10)},
		{Name: fmt.Sprintf("tail:%d", n), Text: fmt.Sprintf("* | tail %d", n), Size: uint64(total + 10)},
		{Name: fmt.Sprintf("page:%d", ps), Text: "*", Size: uint64(ps), Pages: (total+ps-1)/ps + 1},
	}
	sorts := []struct{ name, text string }{
		{"num_asc", "num(v)"}, {"num_desc", "-num(v)"}, {"auto_asc", "v"}, {"auto_desc", "-auto(v)"},
		{"str_asc", "str(s)"}, {"str_desc", "-str(s)"}, {"autos_asc", "s"},
		{"g_asc,v_desc", "g, -num(v)"}, {"g_desc,s_asc,v_asc", "-g, str(s), v"},
		{"n_asc", "num(n)"}, {"n_desc", "-n"}, {"g_asc,n_desc", "g, -auto(n)"},
	}
	for _, i := range []int{r.Intn(len(sorts)), r.Intn(len(sorts)), r.Intn(len(sorts))} {
		s := sorts[i]
		sc.Queries = append(sc.Queries,
			querySpec{Name: "sort:" + s.name + ":all", Text: "* | sort 10000 " + s.text, Size: uint64(total + 10)},
			querySpec{Name: fmt.Sprintf("sort:%s:head:%d", s.name, m), Text: fmt.Sprintf("* | sort 10000 %s | head %d", s.text, m), Size: uint64(total + 10)},
			querySpec{Name: fmt.Sprintf("sort:%s:limit:%d", s.name, m), Text: fmt.Sprintf("* | sort %d %s", m, s.text), Size: uint64(total + 10)})
	}
	return sc
}

func sortKeys(name string) []ele {
	switch name {
	case "num_asc":
		return []ele{{true, "num"}}
	case "num_desc":
		return []ele{{false, "num"}}
	case "auto_asc":
		return []ele{{true, "auto"}}
	case "auto_desc":
		return []ele{{false, "auto"}}
	case "str_asc":
		return []ele{{true, "str"}}
	case "str_desc":
		return []ele{{false, "str"}}
	case "autos_asc":
		return []ele{{true, "auto"}}
	case "g_asc,v_desc":
		return []ele{{true, "auto"}, {false, "num"}}
	case "g_desc,s_asc,v_asc":
		return []ele{{false, "auto"}, {true, "str"}, {true, "auto"}}
	case "n_asc":
		return []ele{{true, "num"}}
	case "n_desc":
		return []ele{{false, "auto"}}
	case "g_asc,n_desc":
		return []ele{{true, "auto"}, {false, "auto"}}
	case "g_asc,id_desc":
		return []ele{{true, "auto"}, {false, "num"}}
	case "g_desc,id_asc":
		return []ele{{false, "auto"}, {true, "auto"}}
	case "g1_asc":
		return []ele{{true, "num"}}
	case "g1_desc":
		return []ele{{false, "auto"}}
	}
	return nil
}

func keyVals(name string, ev event) []val {
	v := val{Kind: "f", Micro: ev.VM}
	s := val{Kind: "s", S: ev.S}
	g := val{Kind: "i", Micro: int64(ev.G) * 1000000}
	n := val{Kind: "I", Bits: uint64(ev.N)}
	switch name {
	case "n_asc", "n_desc":
		return []val{n}
	case "g_asc,n_desc":
		return []val{g, n}
	case "g_asc,id_desc", "g_desc,id_asc":
		return []val{g, {Kind: "i", Micro: int64(ev.ID) * 1000000}}
	case "g1_asc", "g1_desc":
		return []val{g}
	case "num_asc", "num_desc", "auto_asc", "auto_desc":
		return []val{v}
	case "str_asc", "str_desc", "autos_asc":
		return []val{s}
	case "g_asc,v_desc":
		return []val{g, v}
	case "g_desc,s_asc,v_asc":
		return []val{g, s, v}
	}
	return nil
}

func judgeScenario(sum *vhlib.Summary, sc scenario, out workerOut, knownClass string, sortTerms *[]string) {
	known := knownClass != ""
	var evs []event
	byID := map[int]event{}
	for _, st := range sc.Steps {
		for _, e := range st.Events {
			evs = append(evs, e)
			byID[e.ID] = e
		}
	}
	tsDesc := make([]uint64, len(evs))
	for i, e := range evs {
		tsDesc[i] = e.TS
	}
	sort.Slice(tsDesc, func(a, b int) bool { return tsDesc[a] > tsDesc[b] })
	ties := false
	for i := 1; i < len(tsDesc); i++ {
		if tsDesc[i] == tsDesc[i-1] {
			ties = true
		}
	}
	pagingClass := "paging_missing_or_duplicate"
	if ties {
		// known finding: matches with equal timestamps have no fixed relative order, and every
		// page request re-runs the query
		pagingClass = "paging_timestamp_ties_duplicate_or_missing"
	}
	layout := ""
	for _, st := range sc.Steps {
		layout += fmt.Sprintf("[%d ev%s]", len(st.Events), map[bool]string{true: ",rotate", false: ""}[st.Rotate])
	}
	for _, qr := range out.Results {
		var q querySpec
		for _, x := range sc.Queries {
			if x.Name == qr.Name {
				q = x
			}
		}
		c := map[string]interface{}{"steps": sc.Steps, "query": q, "result": qr.Pages, "error": qr.Err}
		what := fmt.Sprintf("%d events in layout %s (GOMAXPROCS=%d), query %q size=%d", len(evs), layout, sc.MaxProcs, q.Text, q.Size)
		if qr.Err != "" {
			sum.Fail("query_failed", what+": "+qr.Err, c)
			continue
		}
		var rows []row
		for _, p := range qr.Pages {
			rows = append(rows, p...)
		}
		// every returned row is an ingested event with its own timestamp, no duplicates
		seen := map[int]bool{}
		bad := false
		for _, rw := range rows {
			e, ok := byID[rw.ID]
			if !ok || e.TS != rw.TS || seen[rw.ID] {
				bad = true
			}
			seen[rw.ID] = true
		}
		kind := strings.SplitN(q.Name, ":", 2)[0]
		if bad && len(sc.SortCols) > 0 && (kind == "sort" || kind == "sortpage") {
			// the sort-index route (own classes, see notes): rows served from the index carry
			// timestamp 0 (known, open); before fix baa49ac the fall-back sub-searcher
			// (segments WITHOUT an index) reloaded every segment on its first fetch, so each
			// record of an indexed segment came a second time (regression class)
			zero, dup, other := 0, 0, false
			cnt := map[int]int{}
			for _, rw := range rows {
				e, ok := byID[rw.ID]
				if !ok || (e.TS != rw.TS && rw.TS != 0) {
					other = true
					continue
				}
				if rw.TS == 0 {
					zero++
				}
				cnt[rw.ID]++
				if cnt[rw.ID] == 2 {
					dup++
				} else if cnt[rw.ID] > 2 {
					other = true
				}
			}
			if !other {
				if dup > 0 {
					sum.Fail("sort_index_route_rows_duplicated_by_fallback_searcher", what+fmt.Sprintf(": %d of the %d rows are second copies of an event (first rows %v)", dup, len(rows), headRows(rows, 6)), c)
				}
				if zero > 0 {
					sum.Fail("sort_index_route_timestamp_zero", what+fmt.Sprintf(": %d of the %d rows have timestamp 0 (first rows %v)", zero, len(rows), headRows(rows, 6)), c)
				}
				sum.Count("e2e/sort_index_route/known_defect")
				if dup > 0 {
					// limits and pages cannot be judged on a result that holds second copies
					sum.Eval(sc.Index+"/"+q.Name, len(evs) > 1)
					continue
				}
				// timestamp 0 only: the rows are identified by id, order / limit / paging are judged
				bad = false
			}
		}
		if bad {
			cls := "result_row_unknown_or_duplicate"
			if kind == "page" {
				cls = pagingClass
			}
			if kind == "sortpage" {
				cls = "sort_paging_missing_or_duplicate"
			}
			sum.Fail(cls, what+fmt.Sprintf(": rows %v contain a duplicate or unknown row", rows), c)
			continue
		}
		newestFirst := func(n int, clsOrder, clsSet string) {
			for i := 1; i < len(rows); i++ {
				if rows[i-1].TS < rows[i].TS {
					sum.Fail(clsOrder, what+fmt.Sprintf(": row %d (ts +%d) is older than row %d (ts +%d)", i-1, rows[i-1].TS-baseTS, i, rows[i].TS-baseTS), c)
					return
				}
			}
			if n > len(evs) {
				n = len(evs)
			}
			if len(rows) != n {
				sum.Fail(clsSet, what+fmt.Sprintf(": %d rows returned, %d expected", len(rows), n), c)
				return
			}
			for i := range rows {
				if rows[i].TS != tsDesc[i] {
					sum.Fail(clsSet, what+fmt.Sprintf(": row %d has ts +%d but the %d newest matches have ts +%d there", i, rows[i].TS-baseTS, n, tsDesc[i]-baseTS), c)
					return
				}
			}
		}
		switch kind {
		case "all":
			newestFirst(len(evs), "default_order_not_newest_first", "default_order_not_newest_first")
		case "size":
			newestFirst(int(q.Size), "default_order_not_newest_first", "size_limit_not_newest")
		case "head":
			n, _ := strconv.Atoi(strings.SplitN(q.Name, ":", 2)[1])
			newestFirst(n, "default_order_not_newest_first", "head_not_prefix")
		case "tail":
			n, _ := strconv.Atoi(strings.SplitN(q.Name, ":", 2)[1])
			if n > len(evs) {
				n = len(evs)
			}
			ok := len(rows) == n
			for i := 0; ok && i < n; i++ {
				if rows[i].TS != tsDesc[len(tsDesc)-1-i] {
					ok = false
				}
			}
			if !ok {
				sum.Fail("tail_not_last_n_reversed", what+fmt.Sprintf(": rows (ts offsets) %v; expected the %d oldest, oldest first", offsets(rows), n), c)
			}
		case "page":
			// each match exactly once over all pages, newest first overall, every page but the last full
			if len(rows) != len(evs) {
				sum.Fail(pagingClass, what+fmt.Sprintf(": %d pages of size %d returned %d rows in total, %d events match (page sizes %v)", len(qr.Pages), q.Size, len(rows), len(evs), pageSizes(qr.Pages)), c)
				break
			}
			for i := range rows {
				if rows[i].TS != tsDesc[i] {
					sum.Fail(pagingClass, what+fmt.Sprintf(": concatenated pages are not the newest-first result at row %d", i), c)
					break
				}
			}
			for i, p := range qr.Pages {
				wantLen := int(q.Size)
				if rest := len(evs) - i*int(q.Size); rest < wantLen {
					wantLen = rest
				}
				if wantLen < 0 {
					wantLen = 0
				}
				if len(p) != wantLen {
					sum.Fail(pagingClass, what+fmt.Sprintf(": page %d (from=%d) has %d rows, expected %d", i, i*int(q.Size), len(p), wantLen), c)
					break
				}
			}
		case "sort", "sortpage", "sortk_num_asc", "sortk_num_desc", "sortc_n_asc", "sortc_n_desc":
			parts := strings.Split(q.Name, ":")
			name := ""
			evs := evs
			if q.MinID > 0 {
				evs = nil
				for _, e := range byID {
					if e.ID >= q.MinID {
						evs = append(evs, e)
					}
				}
				sort.Slice(evs, func(a, b int) bool { return evs[a].ID < evs[b].ID })
			}
			limit := len(evs)
			if kind == "sort" || kind == "sortpage" {
				name = parts[1]
				if parts[2] != "all" {
					limit, _ = strconv.Atoi(parts[3])
				}
			} else if kind == "sortk_num_asc" {
				name = "num_asc"
			} else if kind == "sortc_n_asc" {
				name = "n_asc"
			} else if kind == "sortc_n_desc" {
				name = "n_desc"
			} else {
				name = "num_desc"
			}
			eles := sortKeys(name)
			var all, res [][]val
			for _, e := range evs {
				all = append(all, keyVals(name, e))
			}
			for _, rw := range rows {
				res = append(res, keyVals(name, byID[rw.ID]))
			}
			if kind == "sortpage" {
				// the order (g, id) is total: the pages concatenate to exactly the first `limit`
				// events of the full order, each page but the last is full
				want := append([]event{}, evs...)
				sort.SliceStable(want, func(x, y int) bool {
					cmp, _ := oracleLess(eles, keyVals(name, want[x]), keyVals(name, want[y]))
					return cmp < 0
				})
				if limit < len(want) {
					want = want[:limit]
				}
				okp := len(rows) == len(want)
				at := -1
				for i := 0; okp && i < len(rows); i++ {
					if rows[i].ID != want[i].ID {
						okp, at = false, i
					}
				}
				if !okp {
					msg := fmt.Sprintf(": %d pages of size %d returned %d rows in total (page sizes %v), the sorted result has %d", len(qr.Pages), q.Size, len(rows), pageSizes(qr.Pages), len(want))
					if at >= 0 {
						msg = fmt.Sprintf(": row %d of the concatenated pages is id %d %v, the full order has id %d %v there", at, rows[at].ID, keyVals(name, byID[rows[at].ID]), want[at].ID, keyVals(name, want[at]))
					}
					sum.Fail("sort_paging_missing_or_duplicate", what+msg, c)
				}
				sum.Eval(sc.Index+"/"+q.Name, len(evs) > 1)
				sum.Count("e2e/sortpage")
				continue
			}
			judgeSorted(sum, "e2e", eles, all, res, limit, knownClass, what, c)
			if knownClass == "" && len(*sortTerms) < 400 && len(evs) <= 80 {
				et := make([]string, len(eles))
				for k, e := range eles {
					et[k] = e.coq()
				}
				var rt []string
				for _, e := range evs {
					kv := keyVals(name, e)
					kt := make([]string, len(kv))
					for k := range kv {
						kt[k] = kv[k].coq()
					}
					rt = append(rt, fmt.Sprintf("(%d,%s)", e.ID, vhlib.CoqList(kt)))
				}
				ids := make([]string, len(rows))
				for i, rw := range rows {
					ids[i] = strconv.Itoa(rw.ID)
				}
				*sortTerms = append(*sortTerms, fmt.Sprintf("(%s,%s,[%s],%s)", vhlib.CoqList(et), coqNat(limit), vhlib.CoqList(rt), vhlib.CoqList(ids)))
			}
		}
		sum.Eval(sc.Index+"/"+q.Name, len(evs) > 1)
		if kind == "all" {
			sum.Count(fmt.Sprintf("e2e/layout/maxBlocks_per_fetch=%d", sc.MaxProcs))
		}
		if strings.HasPrefix(kind, "sortc_") {
			sum.Count("e2e/dense_integers_above_2p53")
		} else if known {
			sum.Count("e2e/known_stream_close_values")
		} else {
			if kind == "page" && ties {
				sum.Count("e2e/page_with_timestamp_ties(known stream)")
			} else {
				sum.Count("e2e/" + kind)
				if len(sc.SortCols) > 0 && kind == "sort" {
					sum.Count(fmt.Sprintf("e2e/sort_index_route/keys=%d", len(sortKeys(strings.Split(q.Name, ":")[1]))))
				}
			}
		}
	}
}

func headRows(rows []row, n int) []row {
	if len(rows) > n {
		return rows[:n]
	}
	return rows
}

func offsets(rows []row) []int64 {
	out := make([]int64, len(rows))
	for i, r := range rows {
		out[i] = int64(r.TS) - int64(baseTS)
	}
	return out
}
func pageSizes(p [][]row) []int {
	out := make([]int, len(p))
	for i := range p {
		out[i] = len(p[i])
	}
	return out
}

func runE2E(cfg vhlib.Config, sum *vhlib.Summary, r *vhlib.Rng) {
	n, nk, nc := 90, 12, 6
	nsx := 14 // sort-index scenarios (half small: drains go to Coq; half big: values larger than the batch quota)
	if cfg.Thorough() {
		n, nk, nc = 1500, 100, 50
		nsx = 160
	}
	type job struct {
		sc    scenario
		known string // class of the known-finding stream the scenario belongs to ("" = main stream)
		out   workerOut
	}
	jobs := make([]*job, 0, n+nk+nc+2)
	ra, rb, rc := r.Fork(), r.Fork(), r.Fork()
	// dense-integer scenarios first: their sort results all go to Coq (the number of e2e sort
	// cases compared with the model is capped)
	for i := 0; i < nc; i++ {
		jobs = append(jobs, &job{sc: genScenario(rc, n+nk+i, 2)})
	}
	for i := 0; i < n; i++ {
		jobs = append(jobs, &job{sc: genScenario(ra, i, 0)})
	}
	for i := 0; i < nk; i++ {
		jobs = append(jobs, &job{sc: genScenario(rb, n+i, 1), known: clsTolerance})
	}
	// a fixed scenario for integer keys that float64 cannot tell apart: if `sort num(n)` compared
	// 2^53+1 EQUAL to 2^53, then whichever way ties come out, a 2^53+1 would stay in front of a 2^53
	fixedC := scenario{Index: "c05fixedc", Steps: []step{{Events: []event{
		{ID: 1, TS: baseTS + 1, N: 1<<53 + 1}, {ID: 2, TS: baseTS + 2, N: 1 << 53},
		{ID: 3, TS: baseTS + 3, N: 1<<53 + 1}, {ID: 4, TS: baseTS + 4, N: 1 << 53}}}},
		Queries: []querySpec{{Name: "sortc_n_asc", Text: "* | sort 10000 num(n)", Size: 100}}}
	jobs = append([]*job{{sc: fixedC}}, jobs...)
	// a fixed scenario for the known finding of DESIGN §4.1
	fixed := scenario{Index: "c05fixed", Steps: []step{{Events: []event{
		{ID: 1, TS: baseTS + 1, VM: 1000050, V: 1.00005}, {ID: 2, TS: baseTS + 2, VM: 1000000, V: 1},
		{ID: 3, TS: baseTS + 3, VM: 1000120, V: 1.00012}, {ID: 4, TS: baseTS + 4, VM: 999960, V: 0.99996}}}},
		Queries: []querySpec{{Name: "sortk_num_asc", Text: "* | sort 10000 num(v)", Size: 100}}}
	jobs = append([]*job{{sc: fixed, known: clsTolerance}}, jobs...)
	rx := r.Fork()
	for i := 0; i < nsx; i++ {
		jobs = append(jobs, &job{sc: genSortIdxScenario(rx, i, i%2 == 1)})
	}

	// one worker process per scenario; a worker that does not finish within the cap is
	// re-run alone once at the end (a hang under parallel load is not reported unconfirmed);
	// after three timeouts the remaining scenarios are skipped so that the run stays bounded
	runOne := func(i int, j *job, cap time.Duration) (timedOut bool) {
		dir := filepath.Join(cfg.Out, fmt.Sprintf("w%04d", i))
		_ = os.RemoveAll(dir)
		_ = os.MkdirAll(dir, 0o755)
		defer os.RemoveAll(dir)
		sp := filepath.Join(dir, "scenario.json")
		op := filepath.Join(dir, "out.json")
		b, _ := json.Marshal(j.sc)
		_ = os.WriteFile(sp, b, 0o644)
		cmd := exec.Command(os.Args[0], "worker", sp, op, filepath.Join(dir, "data"))
		if j.sc.MaxProcs > 0 {
			// desiredMaxBlocks of fetchRRCs is runtime.GOMAXPROCS(0): small values make the
			// searcher take the blocks in several fetches
			cmd.Env = append(os.Environ(), fmt.Sprintf("GOMAXPROCS=%d", j.sc.MaxProcs))
		}
		done := make(chan error, 1)
		var so []byte
		go func() { var e error; so, e = cmd.CombinedOutput(); done <- e }()
		var err error
		select {
		case err = <-done:
		case <-time.After(cap):
			if cmd.Process != nil {
				_ = cmd.Process.Kill()
			}
			<-done
			j.out = workerOut{Err: "timeout"}
			return true
		}
		ob, rerr := os.ReadFile(op)
		j.out = workerOut{}
		if err == nil && rerr == nil && json.Unmarshal(ob, &j.out) == nil {
			return false
		}
		tail := string(so)
		if len(tail) > 300 {
			tail = tail[len(tail)-300:]
		}
		j.out = workerOut{Err: fmt.Sprintf("worker failed: %v %s", err, tail)}
		return false
	}
	par := 8
	sem := make(chan struct{}, par)
	var wg sync.WaitGroup
	var mu sync.Mutex
	var timedOut []int
	for i, j := range jobs {
		mu.Lock()
		nto := len(timedOut)
		mu.Unlock()
		if nto >= 3 {
			j.out = workerOut{Err: "skipped"}
			continue
		}
		wg.Add(1)
		sem <- struct{}{}
		go func(i int, j *job) {
			defer wg.Done()
			defer func() { <-sem }()
			if runOne(i, j, 25*time.Second) {
				mu.Lock()
				timedOut = append(timedOut, i)
				mu.Unlock()
			}
		}(i, j)
	}
	wg.Wait()
	sort.Ints(timedOut)
	for k, i := range timedOut {
		if k >= 3 {
			break
		}
		if runOne(i, jobs[i], 25*time.Second) {
			sum.Fail("query_did_not_terminate", fmt.Sprintf("a query of this scenario did not return within 25 s (twice, the second time run alone): queries %v", jobs[i].sc.Queries), jobs[i].sc)
			jobs[i].out = workerOut{Err: "skipped"}
		}
	}
	var sortTerms, drainTerms []string
	for i, j := range jobs {
		if j.out.Err == "skipped" || j.out.Err == "timeout" {
			sum.Count("e2e/skipped_after_timeouts")
			continue
		}
		if j.out.Err != "" {
			sum.Fail("worker_failed", j.out.Err, j.sc)
			continue
		}
		judgeScenario(sum, j.sc, j.out, j.known, &sortTerms)
		if len(j.sc.SortCols) > 0 {
			judgeSrt(sum, j.sc, j.out.Srt, &drainTerms, 120)
			judgeSearcher(sum, j.sc, j.out)
		}
		if i == 2 {
			sum.Sample(map[string]interface{}{"scenario": j.sc, "results": j.out.Results})
		}
	}
	writeSharded(cfg, sum, "cases_e2e_sort", "list (list (bool * N) * nat * list (list (N * list value)) * list N)", "check_sortcmd cases", sortTerms, 100)
	writeSharded(cfg, sum, "cases_sortidx_drain", "list drain_case", "check_drain cases", drainTerms, 150)
}

func main() {
	log.SetLevel(log.PanicLevel)
	log.SetOutput(os.Stderr)
	if len(os.Args) > 1 && os.Args[1] == "worker" {
		workerMain(os.Args[2], os.Args[3], os.Args[4])
		return
	}
	cfg := vhlib.ParseFlags()
	sum := vhlib.NewSummary("direct tier: one case = one call of the real getNextBlocks / sortBlocks / getValidRRCs (all block lists of up to 4 blocks over timestamps 0..4 sorted for the mode x maxBlocks 1..5 x both modes; all lists of up to 3 blocks for sortBlocks; all sorted timestamp lists up to length 4 x thresholds 0..5; random larger ones), one multi-step run of the real segment selection (getQSRSToProcess+getFilteredBlocks) over 0-5 overlapping segments, one compareValues pair, one sortProcessor run over 1-5 batches (1-3 keys, num/str/auto, both directions, limits 1..5000, homogeneous and mixed columns incl. numeric strings, bools and nulls; numbers = floats with 3 decimals, small ints and integer-typed values of both dtypes SS_DT_SIGNED_NUM / SS_DT_UNSIGNED_NUM over the whole int64 / uint64 range: neighbourhoods of 0, 2^53, 2^62, 2^63, 2^64, MinInt64, random 53-bit mantissas shifted by 0..10 bits), one head/tail processor run; " +
		"end to end: one case = one query against a store built in a worker process from 1-6 flushes (blocks) with forced rotations (segments), events arriving out of time order with ties and overlapping block/segment ranges: match-all with size >= n and size < n, head n, tail n, sort (12 key shapes incl. an int64 column n with values up to +-2^63) with head / limit, from/size paging over all pages; " +
		"the known-finding class (numeric sort keys closer than 1e-4) has its own stream; main-stream numeric sort keys are multiples of 1e-3 or integers that float64 represents exactly, integer-only columns also get dense clusters of neighbouring integers above 2^53 (both dtypes); distinct by input; non-trivial = more than one block / record / event")
	r := vhlib.NewRng(cfg.Seed)
	runE2E(cfg, sum, r.Fork())
	runNextBlocks(cfg, sum, r.Fork())
	runSortBlocks(cfg, sum, r.Fork())
	runValid(cfg, sum, r.Fork())
	runSegs(cfg, sum, r.Fork())
	runMerge(cfg, sum, r.Fork())
	runCompare(cfg, sum, r.Fork())
	runSortProc(cfg, sum, r.Fork())
	runHeadTail(cfg, sum, r.Fork())
	sum.Notes = append(sum.Notes,
		"numeric sort keys are decimals with at most 6 places; the model compares them as exact integers in units of 1e-6 (float64 rounding of decimals is not modelled; main-stream keys are multiples of 1e-3, far from the 1e-4 tolerance boundary)",
		"integer-typed keys go to the model as (dtype, 64-bit pattern): the model compares two integers by sign and bits (compareInts) and applies its own float64 conversion (round to 53 bits, nearest-even) where an integer meets a float or a numeric string",
		"sort.Slice / the top-N heap are not stable: observations are compared with the model up to ties (equal keys)")
	sum.Write(cfg.Out)
}

// Sorts served from the on-disk SORT INDEX (round j).
//
// A segment gets <col>_{auto,num,str}.srt files when the index has sort columns configured
// (sortindex.SetSortColumns) and the segment is rotated (writer.writeSortIndexes). A `sort`
// whose first key is such a column is then answered by Searcher.fetchColumnSortedRRCs, which
// drains sortindex.ReadSortIndex in batches of max(100, limit/#segments) records (multi-key
// sorts with readFullLine=true) - but only when the query is not parallelised (GOMAXPROCS=1).
//
// Worker side: configure the sort columns, wait for the index files after every rotation,
// parse every .srt file independently of readLine and drain the REAL ReadSortIndex over it with
// many quota sequences (both directions, both readFullLine modes).
// Main side: oracles on the drains (every record of every value exactly once, in value order;
// readFullLine calls end on a value boundary; the quota is respected otherwise), Coq cases
// (model SortIdx.v), and e2e scenarios with values spanning several blocks and more records than the quota.
package main

import (
	"bytes"
	"encoding/binary"
	"fmt"
	"os"
	"path/filepath"
	"sort"
	"strings"
	"time"

	"github.com/siglens/siglens/pkg/segment/query/processor"
	"github.com/siglens/siglens/pkg/segment/sortindex"
	sutils "github.com/siglens/siglens/pkg/segment/utils"
	"github.com/siglens/siglens/pkg/segment/writer"

	"verifharness/vhlib"
)

type srtBlock struct {
	B uint16   `json:"b"`
	R []uint16 `json:"r"`
}
type srtLine struct {
	L      int        `json:"l"`
	Blocks []srtBlock `json:"blocks"`
}
type drainRun struct {
	Rev    bool        `json:"rev"`
	Full   bool        `json:"full"`
	Quotas []int       `json:"quotas"`
	Calls  [][]srtLine `json:"calls"`
	EOF    bool        `json:"eof"`
	Err    string      `json:"err,omitempty"`
}
type srtFile struct {
	Seg    string       `json:"seg"`
	Col    string       `json:"col"`
	Mode   string       `json:"mode"`
	Values []string     `json:"values"`
	Lines  [][]srtBlock `json:"lines"`
	Drains []drainRun   `json:"drains"`
	Err    string       `json:"err,omitempty"`
}

func findSrt(dataDir string) (srt []string, tmp int) {
	_ = filepath.Walk(dataDir, func(p string, info os.FileInfo, err error) error {
		if err != nil || info.IsDir() {
			return nil
		}
		if strings.HasSuffix(p, ".srt") {
			srt = append(srt, p)
		} else if strings.HasSuffix(p, ".srt.tmp") {
			tmp++
		}
		return nil
	})
	sort.Strings(srt)
	return
}

// the index files are written by a goroutine started at rotation
func waitSortIndexes(dataDir string, want int) error {
	deadline := time.Now().Add(8 * time.Second)
	for {
		time.Sleep(5 * time.Millisecond)
		writer.WaitForSortedIndexToComplete()
		srt, tmp := findSrt(dataDir)
		if tmp == 0 && len(srt) >= want {
			return nil
		}
		if time.Now().After(deadline) {
			return fmt.Errorf("sort index files: %d present (%d temporary), %d expected", len(srt), tmp, want)
		}
	}
}

func encKey(e *sutils.CValueEnclosure) string { return fmt.Sprintf("%d|%v", e.Dtype, e.CVal) }

// own parser of the file format (writeSortIndex): version, #values, offsets, then per value:
// enclosure, #blocks, per block: blockNum u16, #records u32, recNums u16
func parseSrt(path string) (values []string, lines [][]srtBlock, err error) {
	b, err := os.ReadFile(path)
	if err != nil {
		return nil, nil, err
	}
	if len(b) < 9 || b[0] != 1 {
		return nil, nil, fmt.Errorf("bad header")
	}
	n := int(binary.LittleEndian.Uint64(b[1:9]))
	if len(b) < 9+8*n {
		return nil, nil, fmt.Errorf("short offsets")
	}
	offs := make([]int, n+1)
	for i := 0; i < n; i++ {
		offs[i] = int(binary.LittleEndian.Uint64(b[9+8*i:]))
	}
	offs[n] = len(b)
	for i := 0; i < n; i++ {
		if offs[i] > offs[i+1] || offs[i+1] > len(b) {
			return nil, nil, fmt.Errorf("offsets not increasing at value %d", i)
		}
		seg := b[offs[i]:offs[i+1]]
		rd := bytes.NewReader(seg)
		var enc sutils.CValueEnclosure
		if _, err := enc.FromReader(rd); err != nil {
			return nil, nil, fmt.Errorf("value %d: %v", i, err)
		}
		rest := seg[len(seg)-rd.Len():]
		if len(rest) < 4 {
			return nil, nil, fmt.Errorf("value %d: short", i)
		}
		nb := int(binary.LittleEndian.Uint32(rest))
		rest = rest[4:]
		var blocks []srtBlock
		for k := 0; k < nb; k++ {
			if len(rest) < 6 {
				return nil, nil, fmt.Errorf("value %d block %d: short", i, k)
			}
			bn := binary.LittleEndian.Uint16(rest)
			nr := int(binary.LittleEndian.Uint32(rest[2:]))
			rest = rest[6:]
			if len(rest) < 2*nr {
				return nil, nil, fmt.Errorf("value %d block %d: short records", i, k)
			}
			recs := make([]uint16, nr)
			for j := 0; j < nr; j++ {
				recs[j] = binary.LittleEndian.Uint16(rest[2*j:])
			}
			rest = rest[2*nr:]
			blocks = append(blocks, srtBlock{B: bn, R: recs})
		}
		if len(rest) != 0 {
			return nil, nil, fmt.Errorf("value %d: %d trailing bytes", i, len(rest))
		}
		values = append(values, encKey(&enc))
		lines = append(lines, blocks)
	}
	return values, lines, nil
}

func srtTotal(lines [][]srtBlock) int {
	t := 0
	for _, l := range lines {
		for _, b := range l {
			t += len(b.R)
		}
	}
	return t
}

// one drain of the real reader: ReadSortIndex called with the quotas produced by next() from
// the nil checkpoint until it reports EOF (or maxCalls)
func drainReal(f *srtFile, mode sortindex.SortMode, rev, full bool, next func() int, maxCalls int) drainRun {
	run := drainRun{Rev: rev, Full: full}
	idx := map[string]int{}
	for i, v := range f.Values {
		idx[v] = i
	}
	var cp *sortindex.Checkpoint
	for c := 0; c < maxCalls; c++ {
		if sortindex.IsEOF(cp) {
			run.EOF = true
			break
		}
		q := next()
		lines, ncp, err := sortindex.ReadSortIndex(f.Seg, f.Col, mode, rev, q, full, cp)
		if err != nil {
			run.Err = fmt.Sprintf("call %d (quota %d): %v", c, q, err)
			return run
		}
		run.Quotas = append(run.Quotas, q)
		call := []srtLine{}
		for _, l := range lines {
			li, ok := idx[encKey(&l.Value)]
			if !ok {
				li = -1
			}
			sl := srtLine{L: li}
			for _, b := range l.Blocks {
				sl.Blocks = append(sl.Blocks, srtBlock{B: b.BlockNum, R: append([]uint16{}, b.RecNums...)})
			}
			call = append(call, sl)
		}
		run.Calls = append(run.Calls, call)
		cp = ncp
	}
	if sortindex.IsEOF(cp) {
		run.EOF = true
	}
	return run
}

func collectSrt(dataDir string, seed uint64, cols []string) []srtFile {
	r := vhlib.NewRng(seed)
	paths, _ := findSrt(dataDir)
	var out []srtFile
	for _, p := range paths {
		base := strings.TrimSuffix(filepath.Base(p), ".srt")
		k := strings.LastIndex(base, "_")
		if k < 0 {
			continue
		}
		f := srtFile{Seg: filepath.Dir(p), Col: base[:k], Mode: base[k+1:]}
		mode, err := sortindex.ModeFromString(f.Mode)
		if err != nil {
			continue
		}
		// every mode of the first configured column, one mode of the others
		if f.Col != cols[0] && f.Mode != "auto" {
			continue
		}
		if f.Col == "id" {
			// only parsed: (block, record) -> event id for the searcher-level oracle
			f.Values, f.Lines, err = parseSrt(p)
			if err != nil {
				f.Err = err.Error()
			}
			out = append(out, f)
			continue
		}
		f.Values, f.Lines, err = parseSrt(p)
		if err != nil {
			f.Err = err.Error()
			out = append(out, f)
			continue
		}
		total := srtTotal(f.Lines)
		for _, rev := range []bool{false, true} {
			for _, full := range []bool{false, true} {
				var styles []func() int
				for _, c := range []int{1, 2, 3, 5, 100} {
					c := c
					if total/c <= 400 {
						styles = append(styles, func() int { return c })
					}
				}
				hi := vhlib.Pick(r, []int{3, 8, 40, 150})
				styles = append(styles, func() int { return r.Range(1, hi) })
				// constant small quotas on two styles only for larger files
				pick := styles
				if total > 60 && len(styles) > 3 {
					pick = []func() int{styles[r.Intn(len(styles)-1)], styles[len(styles)-1]}
				}
				for _, st := range pick {
					f.Drains = append(f.Drains, drainReal(&f, mode, rev, full, st, total+3))
				}
			}
		}
		out = append(out, f)
	}
	return out
}

// ---------------------------------------------------------------------------
// main side
// ---------------------------------------------------------------------------
func coqBlocksS(bs []srtBlock) string {
	t := make([]string, len(bs))
	for i, b := range bs {
		rs := make([]string, len(b.R))
		for j, x := range b.R {
			rs[j] = fmt.Sprint(x)
		}
		t[i] = fmt.Sprintf("(%d,%s)", b.B, vhlib.CoqList(rs))
	}
	return vhlib.CoqList(t)
}

type sxrec struct{ l, b, r int }

func flatLines(ls []srtLine) []sxrec {
	var out []sxrec
	for _, l := range ls {
		for _, b := range l.Blocks {
			for _, x := range b.R {
				out = append(out, sxrec{l.L, int(b.B), int(x)})
			}
		}
	}
	return out
}

func judgeSrt(sum *vhlib.Summary, sc scenario, files []srtFile, terms *[]string, maxCoqRecs int) {
	for _, f := range files {
		where := fmt.Sprintf("sort index %s_%s.srt of a segment of scenario %s", f.Col, f.Mode, sc.Index)
		if f.Err != "" {
			sum.Fail("sort_index_file_unreadable", where+": "+f.Err, sc)
			continue
		}
		total := srtTotal(f.Lines)
		shape := fmt.Sprintf("%d values, %d records, blocks per value:", len(f.Lines), total)
		multi := false
		for i, l := range f.Lines {
			if i < 6 {
				shape += fmt.Sprintf(" %d", len(l))
			}
			if len(l) > 1 {
				multi = true
			}
		}
		for di, d := range f.Drains {
			c := map[string]interface{}{"file_lines": f.Lines, "values": f.Values, "reverse": d.Rev, "readFullLine": d.Full, "quotas": d.Quotas, "calls": d.Calls, "eof": d.EOF}
			what := fmt.Sprintf("%s (%s): ReadSortIndex drained from the nil checkpoint, reverse=%v readFullLine=%v, quotas %v", where, shape, d.Rev, d.Full, headInts(d.Quotas, 12))
			sum.Eval(fmt.Sprintf("%s/%s/%s_%s/drain%d", sc.Index, filepath.Base(f.Seg), f.Col, f.Mode, di), multi)
			sum.Count(fmt.Sprintf("sortindex/drain/reverse=%v,full=%v", d.Rev, d.Full))
			if d.Err != "" {
				sum.Fail("sort_index_reader_error", what+": "+d.Err, c)
				continue
			}
			// to Coq whatever the oracles below say
			if total <= maxCoqRecs && len(*terms) < 600 {
				ls := make([]string, len(f.Lines))
				for i, l := range f.Lines {
					ls[i] = coqBlocksS(l)
				}
				qs := make([]string, len(d.Quotas))
				for i, q := range d.Quotas {
					qs[i] = coqNat(q)
				}
				cs := make([]string, len(d.Calls))
				for i, call := range d.Calls {
					t := make([]string, len(call))
					for k, l := range call {
						t[k] = fmt.Sprintf("(%s,%s)", coqNat(l.L), coqBlocksS(l.Blocks))
					}
					cs[i] = vhlib.CoqList(t)
				}
				*terms = append(*terms, fmt.Sprintf("(%v,%v,%s,%s,%s,%v)", d.Rev, d.Full, vhlib.CoqList(ls), vhlib.CoqList(qs), vhlib.CoqList(cs), d.EOF))
			}
			// expected: every record of every value exactly once, values in file order
			// (reverse: last value first), blocks and records of a value in file order
			var want []sxrec
			order := make([]int, len(f.Lines))
			for i := range order {
				order[i] = i
				if d.Rev {
					order[i] = len(f.Lines) - 1 - i
				}
			}
			for _, li := range order {
				for _, b := range f.Lines[li] {
					for _, x := range b.R {
						want = append(want, sxrec{li, int(b.B), int(x)})
					}
				}
			}
			var got []sxrec
			failed := false
			for ci, call := range d.Calls {
				fl := flatLines(call)
				got = append(got, fl...)
				if !d.Full && len(fl) > d.Quotas[ci] {
					sum.Fail("sort_index_reader_exceeds_quota", what+fmt.Sprintf(": call %d returned %d records for quota %d", ci, len(fl), d.Quotas[ci]), c)
					failed = true
					break
				}
				if len(fl) == 0 {
					sum.Fail("sort_index_reader_empty_batch_before_eof", what+fmt.Sprintf(": call %d returned no record before EOF", ci), c)
					failed = true
					break
				}
			}
			if failed {
				continue
			}
			if !d.EOF {
				sum.Fail("sort_index_reader_no_eof", what+fmt.Sprintf(": no EOF after %d calls (%d records in the file)", len(d.Calls), total), c)
				continue
			}
			bad := len(got) != len(want)
			at := -1
			for i := 0; !bad && i < len(got); i++ {
				if got[i] != want[i] {
					bad, at = true, i
				}
			}
			if bad {
				msg := fmt.Sprintf(": %d records delivered until EOF, the file holds %d", len(got), len(want))
				if at >= 0 {
					msg = fmt.Sprintf(": delivery %d is (value #%d, block %d, record %d), the file has (value #%d, block %d, record %d) there", at, got[at].l, got[at].b, got[at].r, want[at].l, want[at].b, want[at].r)
				} else if len(got) < len(want) {
					// name the first missing record
					seen := map[sxrec]bool{}
					for _, g := range got {
						seen[g] = true
					}
					for _, w := range want {
						if !seen[w] {
							msg += fmt.Sprintf("; first missing: value #%d (%s) block %d record %d", w.l, f.Values[w.l], w.b, w.r)
							break
						}
					}
				}
				sum.Fail("sort_index_reader_drops_or_repeats_records", what+msg, c)
				continue
			}
			if d.Full {
				// a call with readFullLine ends on a value boundary: no value in two calls
				last := -1
				split := false
				for _, call := range d.Calls {
					for k, l := range call {
						if k == 0 && l.L == last {
							split = true
						}
					}
					if len(call) > 0 {
						last = call[len(call)-1].L
					}
				}
				if split {
					sum.Fail("sort_index_full_line_split_across_calls", what+": one value was delivered in two calls although readFullLine was set", c)
					continue
				}
			}
		}
	}
}

func headInts(x []int, n int) string {
	if len(x) <= n {
		return fmt.Sprint(x)
	}
	return fmt.Sprintf("%v… (%d calls)", x[:n], len(x))
}

// scenarios for the sort-index route: big = values of the first sort key span several blocks
// and hold more records than the batch quota (100)
func genSortIdxScenario(r *vhlib.Rng, idx int, big bool) scenario {
	sc := scenario{Index: fmt.Sprintf("c05sx%d", idx), MaxProcs: 1, SortCols: []string{"g", "v", "s"}, DrainSeed: r.U64()}
	if r.Chance(30) {
		sc.SortCols = []string{"g"}
	}
	sc.SortCols = append(sc.SortCols, "id") // its index gives (block, record) -> event id
	nseg := vhlib.Pick(r, []int{1, 1, 1, 2})
	ng := vhlib.Pick(r, []int{1, 2, 2, 3})
	skew := r.Range(40, 80) // percent of events with g = 0
	id := 1
	used := map[uint64]bool{}
	words := []string{"a", "ab", "abc", "b", "B", "Zed", "zed", "alpha", "beta", "x y"}
	mkStep := func(ne int) step {
		st := step{}
		for j := 0; j < ne; j++ {
			ev := event{ID: id, G: 0, S: vhlib.Pick(r, words)}
			if !r.Chance(skew) {
				ev.G = r.Intn(ng)
			}
			for {
				ev.TS = baseTS + uint64(r.Intn(5000))*7
				if !used[ev.TS] {
					break
				}
			}
			used[ev.TS] = true
			ev.VM = int64(r.Range(-2000, 2000)) * 1000
			ev.V = float64(ev.VM) / 1e6
			ev.N = int64(r.Range(-50, 50))
			id++
			st.Events = append(st.Events, ev)
		}
		return st
	}
	for s := 0; s < nseg; s++ {
		nb := r.Range(2, 4)
		if big {
			nb = r.Range(3, 6)
		}
		for b := 0; b < nb; b++ {
			ne := r.Range(2, 9)
			if big {
				ne = r.Range(40, 110)
			}
			st := mkStep(ne)
			st.Rotate = b == nb-1
			sc.Steps = append(sc.Steps, st)
		}
	}
	if r.Chance(40) {
		// an unrotated tail segment (no sort index: the other sub-searcher, merged)
		sc.Steps = append(sc.Steps, mkStep(r.Range(2, 30)))
	}
	total := id - 1
	shapes := []struct{ name, text string }{
		{"g_asc,v_desc", "g, -num(v)"}, {"g_desc,s_asc,v_asc", "-g, str(s), v"}, {"g_asc,n_desc", "g, -auto(n)"},
		{"g_asc,id_desc", "g, -num(id)"}, {"g_desc,id_asc", "-g, id"}, {"g1_asc", "num(g)"}, {"g1_desc", "-g"},
		{"num_desc", "-num(v)"}, {"str_asc", "str(s)"},
	}
	limits := func() int {
		switch r.Intn(4) {
		case 0:
			return r.Range(1, 60)
		case 1:
			return r.Range(90, 220)
		case 2:
			return r.Range(1, total+20)
		}
		return total + r.Range(0, 30)
	}
	for _, i := range []int{r.Intn(5), r.Intn(5), r.Intn(len(shapes)), r.Intn(len(shapes))} {
		s := shapes[i]
		m := limits()
		sc.Queries = append(sc.Queries,
			querySpec{Name: fmt.Sprintf("sort:%s:limit:%d", s.name, m), Text: fmt.Sprintf("* | sort %d %s", m, s.text), Size: uint64(total + 10)})
		if r.Chance(50) {
			m2 := limits()
			sc.Queries = append(sc.Queries, querySpec{Name: fmt.Sprintf("sort:%s:head:%d", s.name, m2), Text: fmt.Sprintf("* | sort %d %s | head %d", total+50, s.text, m2), Size: uint64(total + 10)})
		}
	}
	// a filtered sort (handleSortIndexWithFilter)
	{
		s := shapes[r.Intn(5)]
		m := limits()
		minID := r.Range(2, total/2+2)
		sc.Queries = append(sc.Queries, querySpec{Name: fmt.Sprintf("sort:%s:limit:%d", s.name, m), Text: fmt.Sprintf("id>=%d | sort %d %s", minID, m, s.text), Size: uint64(total + 10), MinID: minID})
	}
	// paging through a sorted result whose order is total (g, id)
	{
		s := shapes[3+r.Intn(2)]
		m := limits()
		got := m
		if total < got {
			got = total
		}
		ps := got/r.Range(2, 5) + 1
		sc.Queries = append(sc.Queries, querySpec{Name: fmt.Sprintf("sortpage:%s:limit:%d", s.name, m), Text: fmt.Sprintf("* | sort %d %s", m, s.text), Size: uint64(ps), Pages: (got+ps-1)/ps + 1})
	}
	for i := range sc.Queries {
		sc.Queries[i].Name += fmt.Sprintf(":#%d", i)
	}
	return sc
}

// ---------------------------------------------------------------------------
// searcher level: the real Searcher.fetchColumnSortedRRCs drained over the real index files
// (hook VerifDrainSortIndexSearcher), without the sub-search merge of the query processor
// ---------------------------------------------------------------------------
type searcherRun struct {
	Segs    []string                      `json:"segs"`
	Fields  []string                      `json:"fields"`
	Ops     []string                      `json:"ops"`
	Asc     []bool                        `json:"asc"`
	Limit   uint64                        `json:"limit"`
	Batch   int                           `json:"batch"` // 0: the searcher's own quota max(100, limit/#segments)
	Batches [][]processor.VerifSortIdxRec `json:"batches"`
	EOF     bool                          `json:"eof"`
	Err     string                        `json:"err,omitempty"`
}

func collectSearcher(dataDir string, seed uint64, cols []string, total int) []searcherRun {
	r := vhlib.NewRng(seed ^ 0x5eed)
	paths, _ := findSrt(dataDir)
	var segs []string
	for _, p := range paths {
		if filepath.Base(p) == cols[0]+"_auto.srt" {
			segs = append(segs, filepath.Dir(p))
		}
	}
	type shape struct {
		f, o []string
		a    []bool
	}
	single := []shape{{[]string{cols[0]}, []string{""}, []bool{true}}, {[]string{cols[0]}, []string{"num"}, []bool{false}}, {[]string{cols[0]}, []string{"str"}, []bool{true}}}
	multi := []shape{{[]string{cols[0], "v"}, []string{"", "num"}, []bool{true, false}}, {[]string{cols[0], "id"}, []string{"auto", ""}, []bool{false, true}},
		{[]string{cols[0], "s", "v"}, []string{"num", "str", ""}, []bool{true, true, true}}}
	var sets [][]string
	for _, sg := range segs {
		sets = append(sets, []string{sg})
	}
	if len(segs) > 1 {
		sets = append(sets, segs)
	}
	var out []searcherRun
	for _, set := range sets {
		shapes := append([]shape{}, single...)
		if len(set) == 1 {
			// several segments are merged by the full comparator, which reads the later
			// sort columns from the segment files: left to the end-to-end tier
			shapes = append(shapes, multi...)
		}
		for _, sh := range shapes {
			for k := 0; k < 2; k++ {
				run := searcherRun{Segs: set, Fields: sh.f, Ops: sh.o, Asc: sh.a}
				switch r.Intn(3) {
				case 0:
					run.Limit = uint64(r.Range(1, 60))
				case 1:
					run.Limit = uint64(r.Range(90, 220))
				default:
					run.Limit = uint64(total + r.Range(0, 20))
				}
				run.Batch = vhlib.Pick(r, []int{0, 0, 0, 1, 2, 3, 7})
				var err error
				run.Batches, run.EOF, err = processor.VerifDrainSortIndexSearcher(set, sh.f, sh.o, sh.a, run.Limit, run.Batch, total+5)
				if err != nil {
					run.Err = err.Error()
				}
				out = append(out, run)
			}
		}
	}
	return out
}

func judgeSearcher(sum *vhlib.Summary, sc scenario, out workerOut) {
	byID := map[int]event{}
	for _, st := range sc.Steps {
		for _, e := range st.Events {
			byID[e.ID] = e
		}
	}
	// (segment, block, record) -> event id, from the parsed index of the id column
	type pos struct {
		seg  string
		b, r uint16
	}
	idAt := map[pos]int{}
	segTotal := map[string]int{}
	for _, f := range out.Srt {
		if f.Col != "id" || f.Mode != "auto" || f.Err != "" {
			continue
		}
		for i, l := range f.Lines {
			var id int
			v := f.Values[i]
			if _, err := fmt.Sscanf(v[strings.Index(v, "|")+1:], "%d", &id); err != nil {
				continue
			}
			for _, b := range l {
				for _, x := range b.R {
					idAt[pos{f.Seg, b.B, x}] = id
					segTotal[f.Seg]++
				}
			}
		}
	}
	for ri, run := range out.Searcher {
		c := map[string]interface{}{"run": run, "steps": sc.Steps}
		keys := ""
		for i := range run.Fields {
			keys += fmt.Sprintf(" %s%s(%s)", map[bool]string{true: "+", false: "-"}[run.Asc[i]], map[string]string{"": "auto"}[run.Ops[i]]+run.Ops[i], run.Fields[i])
		}
		total := 0
		for _, sg := range run.Segs {
			total += segTotal[sg]
		}
		what := fmt.Sprintf("scenario %s: Searcher.fetchColumnSortedRRCs drained over %d sort-indexed segment(s) holding %d events, sort keys%s, limit %d, batch quota %s", sc.Index, len(run.Segs), total, keys, run.Limit,
			map[bool]string{true: "max(100, limit/#segments)", false: fmt.Sprint(run.Batch)}[run.Batch == 0])
		sum.Eval(fmt.Sprintf("%s/searcher%d", sc.Index, ri), total > 1)
		sum.Count(fmt.Sprintf("sortindex/searcher/keys=%d,segments=%d", len(run.Fields), len(run.Segs)))
		if run.Err != "" {
			sum.Fail("sort_index_searcher_error", what+": "+run.Err, c)
			continue
		}
		if !run.EOF {
			sum.Fail("sort_index_searcher_no_eof", what+fmt.Sprintf(": no io.EOF after %d fetches", total+5), c)
			continue
		}
		var gs []int // first key of the delivered records, in delivery order
		seen := map[int]bool{}
		failed := false
		for _, b := range run.Batches {
			for _, x := range b {
				id, ok := 0, false
				if x.Seg >= 0 && x.Seg < len(run.Segs) {
					id, ok = idAt[pos{run.Segs[x.Seg], x.Block, x.Rec}]
				}
				if !ok {
					sum.Fail("sort_index_searcher_unknown_record", what+fmt.Sprintf(": delivered (segment %d, block %d, record %d) is no record of the segment", x.Seg, x.Block, x.Rec), c)
					failed = true
					break
				}
				if seen[id] {
					sum.Fail("sort_index_searcher_record_repeated", what+fmt.Sprintf(": event id %d (block %d, record %d) was delivered twice", id, x.Block, x.Rec), c)
					failed = true
					break
				}
				seen[id] = true
				gs = append(gs, byID[id].G)
			}
			if failed {
				break
			}
		}
		if failed {
			continue
		}
		asc := run.Asc[0]
		for i := 1; i < len(gs); i++ {
			if (asc && gs[i-1] > gs[i]) || (!asc && gs[i-1] < gs[i]) {
				sum.Fail("sort_index_searcher_out_of_first_key_order", what+fmt.Sprintf(": delivery %d has g=%d, delivery %d has g=%d", i-1, gs[i-1], i, gs[i]), c)
				failed = true
				break
			}
		}
		if failed {
			continue
		}
		var all []int
		for id, e := range byID {
			inSeg := false
			for _, sg := range run.Segs {
				for p, pid := range idAt {
					_ = p
					if pid == id && p.seg == sg {
						inSeg = true
					}
				}
			}
			if inSeg {
				all = append(all, e.G)
			}
		}
		sort.Ints(all)
		if !asc {
			for i, j := 0, len(all)-1; i < j; i, j = i+1, j-1 {
				all[i], all[j] = all[j], all[i]
			}
		}
		if len(run.Fields) > 1 {
			// a multi-key sort needs every record of a first-key value before it can order
			// them: the searcher never cuts at the limit, it hands over everything
			if len(gs) != len(all) {
				missing := -1
				for id := range byID {
					if !seen[id] {
						for p, pid := range idAt {
							if pid == id && p.seg == run.Segs[0] && (missing < 0 || id < missing) {
								missing = id
							}
						}
					}
				}
				e := byID[missing]
				sum.Fail("sort_index_searcher_drops_records", what+fmt.Sprintf(": %d records delivered until io.EOF in %d batches, the segment holds %d; e.g. event id %d (g=%d) never delivered", len(gs), len(run.Batches), len(all), missing, e.G), c)
			}
			continue
		}
		want := len(all)
		if int(run.Limit) < want {
			want = int(run.Limit)
		}
		okp := len(gs) == want
		for i := 0; okp && i < want; i++ {
			if gs[i] != all[i] {
				okp = false
			}
		}
		if !okp {
			sum.Fail("sort_index_searcher_limit_not_prefix", what+fmt.Sprintf(": %d records delivered (first keys %v…), expected the first %d of the order by the first key", len(gs), headInts(gs, 8), want), c)
		}
	}
}

package main

import (
	"context"
	"encoding/json"
	"fmt"
	"os"
	"strconv"
	"strings"
	"time"

	"github.com/siglens/siglens/pkg/ast/pipesearch"
	"github.com/siglens/siglens/pkg/config"
	eswriter "github.com/siglens/siglens/pkg/es/writer"
	"github.com/siglens/siglens/pkg/segment/memory/limit"
	"github.com/siglens/siglens/pkg/segment/query"
	"github.com/siglens/siglens/pkg/segment/sortindex"
	"github.com/siglens/siglens/pkg/segment/writer"
	serverutils "github.com/siglens/siglens/pkg/server/utils"
	vtable "github.com/siglens/siglens/pkg/virtualtable"
)

func initSiglens(dir string) error {
	config.InitializeTestingConfig(dir + "/")
	config.SetNewQueryPipelineEnabled(true)
	limit.InitMemoryLimiter()
	writer.InitWriterNode()
	if err := vtable.InitVTable(serverutils.GetMyIds); err != nil {
		return err
	}
	if err := query.InitQueryNode(serverutils.GetMyIds, serverutils.ExtractKibanaRequests); err != nil {
		return err
	}
	query.InitMaxRunningQueries()
	go query.PullQueriesToRun(context.Background())
	return nil
}

func flushLogs() {
	z := time.Duration(0)
	z2 := time.Duration(0)
	writer.FlushWipBufferToFile(&z, &z2)
}

var qid uint64 = 5000

func asUint(x interface{}) (uint64, bool) {
	switch t := x.(type) {
	case uint64:
		return t, true
	case int64:
		return uint64(t), true
	case float64:
		return uint64(t), true
	case int:
		return uint64(t), true
	case json.Number:
		v, err := t.Int64()
		return uint64(v), err == nil
	case string:
		v, err := strconv.ParseUint(t, 10, 64)
		return v, err == nil
	}
	return 0, false
}

func runQuery(index string, q querySpec, from uint64) ([]row, error) {
	qid++
	req := map[string]interface{}{
		"searchText": q.Text, "indexName": index, "startEpoch": uint64(1), "endEpoch": baseTS + 100000000,
		"size": q.Size, "from": from, "queryLanguage": "Splunk QL",
	}
	resp, _, _, err := pipesearch.ParseAndExecutePipeRequest(req, qid, 0, time.Now(), "", nil)
	if err != nil {
		return nil, err
	}
	if resp == nil {
		return nil, fmt.Errorf("nil response")
	}
	var out []row
	for _, h := range resp.Hits.Hits {
		id, ok1 := asUint(h["id"])
		ts, ok2 := asUint(h["timestamp"])
		if !ok1 || !ok2 {
			return nil, fmt.Errorf("row without id/timestamp: %v", h)
		}
		out = append(out, row{ID: int(id), TS: ts})
	}
	return out, nil
}

func workerMain(scPath, outPath, dir string) {
	var sc scenario
	var out workerOut
	defer func() {
		b, _ := json.Marshal(out)
		_ = os.WriteFile(outPath, b, 0o644)
	}()
	b, err := os.ReadFile(scPath)
	if err == nil {
		err = json.Unmarshal(b, &sc)
	}
	if err != nil {
		out.Err = "scenario: " + err.Error()
		return
	}
	_ = os.MkdirAll(dir, 0o755)
	if err := initSiglens(dir); err != nil {
		out.Err = "init: " + err.Error()
		return
	}
	if len(sc.SortCols) > 0 {
		if err := sortindex.SetSortColumns(sc.Index, sc.SortCols); err != nil {
			out.Err = "sort columns: " + err.Error()
			return
		}
	}
	rotations := 0
	for _, st := range sc.Steps {
		var sb strings.Builder
		for _, e := range st.Events {
			sb.WriteString(`{"index":{"_index":"` + sc.Index + `"}}` + "\n")
			sb.WriteString(fmt.Sprintf(`{"timestamp":%d,"id":%d,"v":%s,"s":%q,"g":%d,"n":%d}`+"\n",
				e.TS, e.ID, strconv.FormatFloat(e.V, 'f', -1, 64), e.S, e.G, e.N))
		}
		n, resp, err := eswriter.HandleBulkBody([]byte(sb.String()), nil, 0, 0, false)
		if err != nil || n != len(st.Events) || resp["errors"] != false {
			out.Err = fmt.Sprintf("bulk: n=%d err=%v errors=%v", n, err, resp["errors"])
			return
		}
		flushLogs()
		if st.Rotate {
			writer.ForceRotateSegmentsForTest()
			rotations++
			if len(sc.SortCols) > 0 {
				if err := waitSortIndexes(dir, 3*len(sc.SortCols)*rotations); err != nil {
					out.Err = err.Error()
					return
				}
			}
		}
	}
	if len(sc.SortCols) > 0 {
		out.Srt = collectSrt(dir, sc.DrainSeed, sc.SortCols)
		nev := 0
		for _, st := range sc.Steps {
			nev += len(st.Events)
		}
		out.Searcher = collectSearcher(dir, sc.DrainSeed, sc.SortCols, nev)
	}
	for _, q := range sc.Queries {
		qr := queryResult{Name: q.Name}
		if q.Pages > 0 {
			for p := 0; p < q.Pages; p++ {
				rows, err := runQuery(sc.Index, q, uint64(p)*q.Size)
				if err != nil {
					qr.Err = fmt.Sprintf("page %d: %v", p, err)
					break
				}
				qr.Pages = append(qr.Pages, rows)
			}
		} else {
			rows, err := runQuery(sc.Index, q, q.From)
			if err != nil {
				qr.Err = err.Error()
			}
			qr.Pages = [][]row{rows}
		}
		out.Results = append(out.Results, qr)
	}
}

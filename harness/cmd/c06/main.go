// c06: pipeline commands mean the same however the stream is chunked.
//
//  1. processor level: real DataProcessor chains (SPL text -> real parser ->
//     processor.AggsToDataProcessors -> New*DP) are fed the SAME table through a
//     synthetic Streamer that cuts it at every split point (all 2-cuts, one row per
//     batch, random multi-cuts incl. empty batches; EOF reported with or after the last
//     batch).  Oracle: the rows returned for every cut equal the rows of the un-cut run
//     (`<cmd>_chunk_dependent`), and for head / tail / dedup / windowed streamstats the
//     un-cut run equals the documented meaning computed independently (`<cmd>_wrong_rows`).
//     The observations go to Coq case files where the models of Pipe.v must reproduce them
//     for every cut (the streams of the two repaired streamstats defects included: a regression
//     comes back as a VIOLATION of class streamstats_window_batch_dependent /
//     streamstats_reset_on_change_batch_dependent with its input).
//  2. end to end: the same events ingested under different flush / rotation layouts and
//     GOMAXPROCS values (worker processes), the same SPL through the real query path;
//     results must agree across layouts (`e2e_<cmd>_layout_dependent`).
package main

import (
	"context"
	"encoding/json"
	"fmt"
	"io"
	"math"
	"os"
	"os/exec"
	"path/filepath"
	"sort"
	"strconv"
	"strings"
	"sync"
	"time"

	"github.com/siglens/siglens/pkg/ast/pipesearch"
	"github.com/siglens/siglens/pkg/config"
	eswriter "github.com/siglens/siglens/pkg/es/writer"
	"github.com/siglens/siglens/pkg/segment/memory/limit"
	"github.com/siglens/siglens/pkg/segment/query"
	"github.com/siglens/siglens/pkg/segment/query/iqr"
	"github.com/siglens/siglens/pkg/segment/query/processor"
	sutils "github.com/siglens/siglens/pkg/segment/utils"
	"github.com/siglens/siglens/pkg/segment/writer"
	serverutils "github.com/siglens/siglens/pkg/server/utils"
	vtable "github.com/siglens/siglens/pkg/virtualtable"
	log "github.com/sirupsen/logrus"

	"verifharness/vhlib"
)

// ---------- cells, rows, tables ----------
type Cell struct {
	K byte    // 0 null, 'i' integer, 'f' other number, 's' string, 'o' other
	I int64   `json:",omitempty"`
	F float64 `json:",omitempty"`
	S string  `json:",omitempty"`
}

func (c Cell) canon() string {
	switch c.K {
	case 'i':
		return "n:" + strconv.FormatInt(c.I, 10)
	case 'f':
		return "n:" + strconv.FormatFloat(c.F, 'g', -1, 64)
	case 's':
		return "s:" + c.S
	case 'o':
		return "o:" + c.S
	}
	return "null"
}

type NC struct {
	Name string
	C    Cell
}
type CRow []NC // sorted by name, nulls omitted

func (r CRow) String() string {
	parts := make([]string, len(r))
	for i, nc := range r {
		parts[i] = nc.Name + "=" + nc.C.canon()
	}
	return strings.Join(parts, ",")
}
func (r CRow) get(name string) Cell {
	for _, nc := range r {
		if nc.Name == name {
			return nc.C
		}
	}
	return Cell{}
}
func rowsStr(rs []CRow) []string {
	out := make([]string, len(rs))
	for i, r := range rs {
		out[i] = r.String()
	}
	return out
}

type Table struct {
	Cols []string
	Rows [][]Cell
}

const tsCol = "timestamp"

func enclosure(c Cell) sutils.CValueEnclosure {
	switch c.K {
	case 'i':
		return sutils.CValueEnclosure{Dtype: sutils.SS_DT_SIGNED_NUM, CVal: c.I}
	case 'f':
		return sutils.CValueEnclosure{Dtype: sutils.SS_DT_FLOAT, CVal: c.F}
	case 's':
		return sutils.CValueEnclosure{Dtype: sutils.SS_DT_STRING, CVal: c.S}
	}
	return sutils.CValueEnclosure{Dtype: sutils.SS_DT_BACKFILL, CVal: nil}
}

func cellOf(v sutils.CValueEnclosure) Cell {
	if v.Dtype == sutils.SS_DT_BACKFILL || v.Dtype == sutils.SS_INVALID {
		return Cell{}
	}
	num := func(f float64) Cell {
		if f == math.Trunc(f) && math.Abs(f) < 9e15 {
			return Cell{K: 'i', I: int64(f)}
		}
		return Cell{K: 'f', F: f}
	}
	switch x := v.CVal.(type) {
	case nil:
		return Cell{}
	case string:
		return Cell{K: 's', S: x}
	case float64:
		return num(x)
	case int64:
		return Cell{K: 'i', I: x}
	case uint64:
		return Cell{K: 'i', I: int64(x)}
	case int:
		return Cell{K: 'i', I: int64(x)}
	case bool:
		return Cell{K: 'o', S: strconv.FormatBool(x)}
	default:
		return Cell{K: 'o', S: fmt.Sprintf("%T:%v", x, x)}
	}
}

func (t *Table) crow(i int) CRow {
	var r CRow
	for ci, c := range t.Cols {
		if c == tsCol || t.Rows[i][ci].K == 0 {
			continue
		}
		r = append(r, NC{c, t.Rows[i][ci]})
	}
	sort.Slice(r, func(a, b int) bool { return r[a].Name < r[b].Name })
	return r
}
func (t *Table) crows() []CRow {
	out := make([]CRow, len(t.Rows))
	for i := range t.Rows {
		out[i] = t.crow(i)
	}
	return out
}

// rows with the null cells kept (a column that is null everywhere still exists)
func (t *Table) crowsFull() []CRow {
	out := make([]CRow, len(t.Rows))
	for i := range t.Rows {
		var r CRow
		for ci, c := range t.Cols {
			if c != tsCol {
				r = append(r, NC{c, t.Rows[i][ci]})
			}
		}
		sort.Slice(r, func(a, b int) bool { return r[a].Name < r[b].Name })
		out[i] = r
	}
	return out
}
func (t *Table) sub(lo, hi int) *Table { return &Table{Cols: t.Cols, Rows: t.Rows[lo:hi]} }

// ---------- the synthetic upstream ----------
type batchStreamer struct {
	t       *Table
	ends    []int // batch end offsets, non-decreasing, last = len(rows)
	pos     int
	eofWith bool // io.EOF returned together with the last batch
}

func (s *batchStreamer) Fetch() (*iqr.IQR, error) {
	if s.pos >= len(s.ends) {
		return nil, io.EOF
	}
	start := 0
	if s.pos > 0 {
		start = s.ends[s.pos-1]
	}
	end := s.ends[s.pos]
	s.pos++
	kv := map[string][]sutils.CValueEnclosure{}
	for ci, c := range s.t.Cols {
		vals := make([]sutils.CValueEnclosure, 0, end-start)
		for r := start; r < end; r++ {
			vals = append(vals, enclosure(s.t.Rows[r][ci]))
		}
		kv[c] = vals
	}
	q := iqr.NewIQR(0)
	if err := q.AppendKnownValues(kv); err != nil {
		return nil, err
	}
	if s.eofWith && s.pos >= len(s.ends) {
		return q, io.EOF
	}
	return q, nil
}
func (s *batchStreamer) Rewind()       { s.pos = 0 }
func (s *batchStreamer) Cleanup()      {}
func (s batchStreamer) String() string { return "<c06 batch streamer>" }

func rowsOf(q *iqr.IQR) ([]CRow, error) {
	if q == nil {
		return nil, nil
	}
	cols, err := q.GetColumns()
	if err != nil {
		return nil, err
	}
	names := []string{}
	for c := range cols {
		if c != tsCol {
			names = append(names, c)
		}
	}
	sort.Strings(names)
	n := q.NumberOfRecords()
	colv := map[string][]sutils.CValueEnclosure{}
	for _, c := range names {
		v, err := q.ReadColumn(c)
		if err != nil {
			return nil, err
		}
		colv[c] = v
	}
	out := make([]CRow, n)
	for i := 0; i < n; i++ {
		var r CRow
		for _, c := range names {
			if i < len(colv[c]) {
				if cell := cellOf(colv[c][i]); cell.K != 0 {
					r = append(r, NC{c, cell})
				}
			}
		}
		out[i] = r
	}
	return out, nil
}

type runResult struct {
	Rows    []CRow
	Fetches []int // rows of every non-nil output, in Fetch order
	Err     string
	Cols    []string // columns of the outputs (union, timestamp excluded), in order of first appearance
}

// sizes -> cumulative ends
func endsOf(sizes []int) []int {
	ends := make([]int, len(sizes))
	acc := 0
	for i, s := range sizes {
		acc += s
		ends[i] = acc
	}
	return ends
}

func runChain(spl string, t *Table, sizes []int, eofWith bool) (res runResult) {
	defer func() {
		if r := recover(); r != nil {
			res.Err = fmt.Sprintf("panic: %v", r)
		}
	}()
	_, aggs, _, perr := pipesearch.ParseQuery("* | "+spl, 0, "Splunk QL")
	if perr != nil {
		res.Err = "parse: " + perr.Error()
		return
	}
	dps := processor.AggsToDataProcessors(aggs, nil)
	if len(dps) == 0 {
		res.Err = "no data processors"
		return
	}
	src := &batchStreamer{t: t, ends: endsOf(sizes), eofWith: eofWith}
	dps[0].SetStreams([]*processor.CachedStream{processor.NewCachedStream(src)})
	for i := 1; i < len(dps); i++ {
		dps[i].SetStreams([]*processor.CachedStream{processor.NewCachedStream(dps[i-1])})
	}
	last := dps[len(dps)-1]
	for n := 0; ; n++ {
		if n > 4*len(sizes)+16 {
			res.Err = "no EOF after many fetches"
			return
		}
		q, ferr := last.Fetch()
		if ferr != nil && ferr != io.EOF {
			res.Err = "fetch: " + ferr.Error()
			return
		}
		if q != nil {
			rs, rerr := rowsOf(q)
			if rerr != nil {
				res.Err = "read: " + rerr.Error()
				return
			}
			res.Rows = append(res.Rows, rs...)
			res.Fetches = append(res.Fetches, len(rs))
			if cols, cerr := q.GetColumns(); cerr == nil {
				names := []string{}
				for c := range cols {
					names = append(names, c)
				}
				sort.Strings(names)
			cols:
				for _, c := range names {
					if c == tsCol {
						continue
					}
					for _, have := range res.Cols {
						if have == c {
							continue cols
						}
					}
					res.Cols = append(res.Cols, c)
				}
			}
		}
		if ferr == io.EOF {
			return
		}
	}
}

// ---------- Coq printers ----------
type coqCtx struct {
	fields map[string]string
	order  []string
}

func newCoqCtx() *coqCtx { return &coqCtx{fields: map[string]string{}} }
func (c *coqCtx) field(name string) string {
	if id, ok := c.fields[name]; ok {
		return id
	}
	id := fmt.Sprintf("fld%d", len(c.order))
	c.fields[name] = id
	c.order = append(c.order, name)
	return id
}
func (c *coqCtx) fieldList(names []string) string {
	ids := make([]string, len(names))
	for i, n := range names {
		ids[i] = c.field(n)
	}
	return vhlib.CoqList(ids)
}
func (c *coqCtx) defs() string {
	var sb strings.Builder
	for i, n := range c.order {
		fmt.Fprintf(&sb, "Definition fld%d : field := %s. (* %s *)\n", i, vhlib.CoqStr(n), strings.ReplaceAll(n, "*", "x"))
	}
	return sb.String()
}
func coqCell(c Cell) (string, bool) {
	switch c.K {
	case 'i':
		return "VNum " + vhlib.CoqZ(c.I), true
	case 's':
		return "VStr " + vhlib.CoqStr(c.S), true
	case 0:
		return "VNull", true
	}
	return "", false
}
func (c *coqCtx) row(r CRow) (string, bool) {
	items := make([]string, len(r))
	for i, nc := range r {
		v, ok := coqCell(nc.C)
		if !ok {
			return "", false
		}
		items[i] = "(" + c.field(nc.Name) + ", " + v + ")"
	}
	return vhlib.CoqList(items), true
}
func (c *coqCtx) rows(rs []CRow) (string, bool) {
	items := make([]string, len(rs))
	for i, r := range rs {
		s, ok := c.row(r)
		if !ok {
			return "", false
		}
		items[i] = s
	}
	if len(items) == 0 {
		return "(@nil row)", true
	}
	return vhlib.CoqListNL(items), true
}
func coqNats(xs []int) string {
	items := make([]string, len(xs))
	for i, x := range xs {
		items[i] = strconv.Itoa(x) + "%nat"
	}
	return vhlib.CoqList(items)
}
func coqCuts(cuts [][]int) string {
	items := make([]string, len(cuts))
	for i, c := range cuts {
		items[i] = coqNats(c)
	}
	return vhlib.CoqList(items)
}

// ---------- specs ----------
const (
	cmpOrdered = iota
	cmpMultiset
	cmpCounts // the sequence of the `count` column only (top / rare with ties)
	cmpKeys   // sort with ties: multiset of rows + sequence of the sort key
)

type modelFn func(cc *coqCtx) string

type Spec struct {
	Family   string
	SPL      string
	Cmp      int
	KeyCol   string                                // cmpKeys
	Drop     []string                              // columns removed before comparing (percent)
	Model    modelFn                               // Coq command; nil = no model
	Kind     string                                // chk | perm | rowwise | fillnull | chain
	Chain    func(cc *coqCtx) string               // Kind == chain: list of commands
	Doc      func(in []CRow, cols []string) []CRow // documented meaning of the un-cut run (cols = columns of the input)
	FetchFl  string                                // streaming_fl | bottleneck_fl | ""
	Known    string                                // known class for cut dependence
	DocKnown string                                // known class for Doc mismatch
	Tables   string                                // "" = general, "distinct" = distinct counts per a, "num" = v always numeric, "xy" = a,b in {x,y}
}

func takeRows(in []CRow, n int) []CRow {
	if n > len(in) {
		n = len(in)
	}
	return in[:n]
}

type docFn = func([]CRow, []string) []CRow

func docHead(n int) docFn {
	return func(in []CRow, _ []string) []CRow { return takeRows(in, n) }
}
func docTail(n0 int) docFn {
	return func(in []CRow, _ []string) []CRow {
		n := n0
		if n > len(in) {
			n = len(in)
		}
		out := []CRow{}
		for i := len(in) - 1; i >= len(in)-n; i-- {
			out = append(out, in[i])
		}
		return out
	}
}
func docDedup(limit int, fields []string) docFn {
	return func(in []CRow, _ []string) []CRow {
		seen := map[string]int{}
		out := []CRow{}
	rows:
		for _, r := range in {
			key := ""
			for _, f := range fields {
				c := r.get(f)
				if c.K == 0 {
					continue rows
				}
				key += strconv.Quote(c.canon()) + "|"
			}
			if seen[key] < limit {
				out = append(out, r)
			}
			seen[key]++
		}
		return out
	}
}

// fillnull value=<fill> without a field list: every column that occurs anywhere in the
// input is filled in every row
func docFillnullAll(fill string) docFn {
	return func(in []CRow, cols []string) []CRow {
		out := make([]CRow, len(in))
		for i, r := range in {
			o := r
			for _, c := range cols {
				if c == tsCol {
					continue
				}
				if r.get(c).K == 0 {
					o = withCell(o, c, Cell{K: 's', S: fill})
				}
			}
			out[i] = o
		}
		return out
	}
}
func withCell(r CRow, name string, c Cell) CRow {
	var out CRow
	for _, nc := range r {
		if nc.Name != name {
			out = append(out, nc)
		}
	}
	out = append(out, NC{name, c})
	sort.Slice(out, func(a, b int) bool { return out[a].Name < out[b].Name })
	return out
}
func docWindowSum(w int, vf, outf string, count bool) docFn {
	return func(in []CRow, _ []string) []CRow {
		out := make([]CRow, len(in))
		for i, r := range in {
			s := int64(0)
			for j := i; j >= 0 && j > i-w; j-- {
				if count {
					s++
				} else {
					s += in[j].get(vf).I
				}
			}
			out[i] = withCell(r, outf, Cell{K: 'i', I: s})
		}
		return out
	}
}

// reset_on_change=true count as <out> by <g>: position inside the current run of equal g
func docRunCount(g, outf string) docFn {
	return func(in []CRow, _ []string) []CRow {
		out := make([]CRow, len(in))
		n := int64(0)
		for i, r := range in {
			if i > 0 && in[i-1].get(g).canon() == r.get(g).canon() {
				n++
			} else {
				n = 1
			}
			out[i] = withCell(r, outf, Cell{K: 'i', I: n})
		}
		return out
	}
}
func dedupModel(limit int, fields []string, consecutive, keepempty, keepevents bool) modelFn {
	return func(cc *coqCtx) string {
		return fmt.Sprintf("(dedup_cmd (Hof htbl) {| d_limit := %d; d_fields := %s; d_consecutive := %v; d_keepempty := %v; d_keepevents := %v |})",
			limit, cc.fieldList(fields), consecutive, keepempty, keepevents)
	}
}
func ssModel(fn, field, out string, current bool, by []string, window int, global bool) modelFn {
	return ssModelR(fn, field, out, current, by, window, global, false)
}
func ssModelR(fn, field, out string, current bool, by []string, window int, global, resetOnChange bool) modelFn {
	return func(cc *coqCtx) string {
		return fmt.Sprintf("(streamstats_cmd false {| ss_func := %s; ss_field := %s; ss_out := %s; ss_current := %v; ss_by := %s; ss_window := %d; ss_global := %v; ss_reset_on_change := %v |})",
			fn, cc.field(field), cc.field(out), current, cc.fieldList(by), window, global, resetOnChange)
	}
}
func headExprModel(k int, max string, null, keeplast bool) modelFn {
	return func(cc *coqCtx) string {
		return fmt.Sprintf("(head_expr_cmd (fun r => match get r %s with VNum z => Some (z <? %d)%%Z | _ => None end) {| h_max := %s; h_null := %v; h_keeplast := %v |})",
			cc.field("v"), k, max, null, keeplast)
	}
}
func lit(s string) modelFn { return func(*coqCtx) string { return s } }
func topModel(isTop bool, limit int, fields []string) modelFn {
	return func(cc *coqCtx) string {
		return fmt.Sprintf("(toprare_cmd %v %d %s %s)", isTop, limit, cc.fieldList(fields), cc.field("count"))
	}
}
func gstatsModel(by []string) modelFn {
	return func(cc *coqCtx) string {
		return fmt.Sprintf("(gstats_cmd %s %s %s %s)", cc.fieldList(by), cc.field("v"), cc.field("count(*)"), cc.field("sum(v)"))
	}
}

const maxU64 = "18446744073709551615"

func buildSpecs() []Spec {
	var sp []Spec
	add := func(s Spec) { sp = append(sp, s) }
	// head
	for _, n := range []int{0, 1, 3, 20} {
		add(Spec{Family: "head", SPL: fmt.Sprintf("head %d", n), Model: lit(fmt.Sprintf("(head_cmd %d)", n)), Kind: "chk",
			Doc: docHead(n), FetchFl: "streaming_fl"})
	}
	add(Spec{Family: "head", SPL: "head v<4", Model: headExprModel(4, maxU64, false, false), Kind: "chk"})
	add(Spec{Family: "head", SPL: "head v<4 keeplast=true", Model: headExprModel(4, maxU64, false, true), Kind: "chk"})
	add(Spec{Family: "head", SPL: "head v<4 null=true", Model: headExprModel(4, maxU64, true, false), Kind: "chk"})
	add(Spec{Family: "head", SPL: "head limit=5 v<4 null=true keeplast=true", Model: headExprModel(4, "5", true, true), Kind: "chk"})
	add(Spec{Family: "head", SPL: "head limit=2 v<9", Model: headExprModel(9, "2", false, false), Kind: "chk"})
	// tail
	for _, n := range []int{0, 1, 3, 20} {
		add(Spec{Family: "tail", SPL: fmt.Sprintf("tail %d", n), Model: lit(fmt.Sprintf("(tail_cmd %d)", n)), Kind: "chk",
			Doc: docTail(n), FetchFl: "bottleneck_fl"})
	}
	// dedup (field domains disjoint: no XOR-key collisions in this stream)
	add(Spec{Family: "dedup", SPL: "dedup a", Model: dedupModel(1, []string{"a"}, false, false, false), Kind: "chk", Doc: docDedup(1, []string{"a"}), FetchFl: "streaming_fl"})
	add(Spec{Family: "dedup", SPL: "dedup 2 a g", Model: dedupModel(2, []string{"a", "g"}, false, false, false), Kind: "chk", Doc: docDedup(2, []string{"a", "g"})})
	add(Spec{Family: "dedup", SPL: "dedup 3 g", Model: dedupModel(3, []string{"g"}, false, false, false), Kind: "chk", Doc: docDedup(3, []string{"g"})})
	add(Spec{Family: "dedup", SPL: "dedup a consecutive=true", Model: dedupModel(1, []string{"a"}, true, false, false), Kind: "chk"})
	add(Spec{Family: "dedup", SPL: "dedup g consecutive=true", Model: dedupModel(1, []string{"g"}, true, false, false), Kind: "chk"})
	add(Spec{Family: "dedup", SPL: "dedup a keepempty=true", Model: dedupModel(1, []string{"a"}, false, true, false), Kind: "chk"})
	add(Spec{Family: "dedup", SPL: "dedup a keepevents=true", Model: dedupModel(1, []string{"a"}, false, false, true), Kind: "chk"})
	add(Spec{Family: "dedup", SPL: "dedup 2 a g keepevents=true keepempty=true", Model: dedupModel(2, []string{"a", "g"}, false, true, true), Kind: "chk"})
	add(Spec{Family: "dedup", SPL: "dedup 2 g consecutive=true keepempty=true", Model: dedupModel(2, []string{"g"}, true, true, false), Kind: "chk"})
	// known: XOR key makes (x,y) and (y,x) one combination
	add(Spec{Family: "dedupxy", SPL: "dedup a b", Model: dedupModel(1, []string{"a", "b"}, false, false, false), Kind: "chk", Doc: docDedup(1, []string{"a", "b"}),
		DocKnown: "dedup_xor_key_collision", Tables: "xy"})
	add(Spec{Family: "dedupxy", SPL: "dedup 2 a b", Model: dedupModel(2, []string{"a", "b"}, false, false, false), Kind: "chk", Doc: docDedup(2, []string{"a", "b"}),
		DocKnown: "dedup_xor_key_collision", Tables: "xy"})
	// row-wise
	for _, s := range []string{"where v>1", "eval w=v*2", "fields a, v", "fields - a, s", "rename a as aa", "fillnull value=0 v a",
		`rex field=s "k(?<kn>\d+)=w(?<wn>\d+)"`, `eval q=1 | regex s="k1"`, `eval q=1 | regex s!="k[12]"`, "bin span=2 v",
		`makemv delim=" " s`, `makemv delim=" " s | mvexpand s`, "where v>1 | eval w=v+id | fields id, w"} {
		fam := strings.Fields(s)[0]
		if strings.Contains(s, "regex") {
			fam = "regex"
		}
		if strings.Contains(s, "mvexpand") {
			fam = "mvexpand"
		}
		add(Spec{Family: fam, SPL: s, Kind: "rowwise"})
	}
	// fillnull without a field list: two passes
	add(Spec{Family: "fillnull", SPL: "fillnull value=0", Kind: "fillnull", Doc: docFillnullAll("0")})
	// bin without span=: two passes (first pass: min/max of the numeric values of the WHOLE input, Rewind derives the span).
	// Tables "mixed": runs of non-numeric / null values in front of the extreme values (seed C06d).
	for _, q := range []string{"bin v", "bin bins=3 v", "bin bins=100 v | fields id, v", "bin minspan=2 v", "bin v | stats count by v"} {
		sp := Spec{Family: "binauto", SPL: q, Tables: "mixed"}
		if strings.Contains(q, "stats") {
			sp.Cmp = cmpMultiset
		}
		add(sp)
	}
	// sort (unique keys -> fully determined order)
	add(Spec{Family: "sort", SPL: "sort v, id"})
	add(Spec{Family: "sort", SPL: "sort -v, id | head 3"})
	add(Spec{Family: "sort", SPL: "sort a, -id"})
	add(Spec{Family: "sort", SPL: "sort v", Cmp: cmpKeys, KeyCol: "v"})
	// top / rare
	add(Spec{Family: "top", SPL: "top a", Drop: []string{"percent"}, Model: topModel(true, 10, []string{"a"}), Kind: "chk", Tables: "distinct"})
	add(Spec{Family: "top", SPL: "top limit=2 a", Drop: []string{"percent"}, Model: topModel(true, 2, []string{"a"}), Kind: "chk", Tables: "distinct"})
	add(Spec{Family: "top", SPL: "top limit=3 a, g", Drop: []string{"percent"}, Model: topModel(true, 3, []string{"a", "g"}), Kind: "chk", Tables: "distinct"})
	add(Spec{Family: "rare", SPL: "rare a", Drop: []string{"percent"}, Model: topModel(false, 10, []string{"a"}), Kind: "chk", Tables: "distinct"})
	add(Spec{Family: "rare", SPL: "rare limit=2 a, g", Drop: []string{"percent"}, Model: topModel(false, 2, []string{"a", "g"}), Kind: "chk", Tables: "distinct"})
	add(Spec{Family: "top", SPL: "top a", Cmp: cmpCounts})
	add(Spec{Family: "top", SPL: "top limit=2 b", Cmp: cmpCounts})
	add(Spec{Family: "rare", SPL: "rare b", Cmp: cmpCounts})
	// stats
	add(Spec{Family: "stats", SPL: "stats count, sum(v) by a", Cmp: cmpMultiset, Model: gstatsModel([]string{"a"}), Kind: "perm"})
	add(Spec{Family: "stats", SPL: "stats count, sum(v) by a, g", Cmp: cmpMultiset, Model: gstatsModel([]string{"a", "g"}), Kind: "perm"})
	add(Spec{Family: "stats", SPL: "stats count", Cmp: cmpMultiset})
	add(Spec{Family: "stats", SPL: "stats sum(v), max(v), min(v) by g", Cmp: cmpMultiset})
	add(Spec{Family: "stats", SPL: "stats dc(a) by g", Cmp: cmpMultiset})
	// streamstats without a global window
	add(Spec{Family: "streamstats", SPL: "streamstats count as c", Model: ssModel("SCount", "v", "c", true, nil, 0, true), Kind: "chk", FetchFl: "streaming_fl"})
	add(Spec{Family: "streamstats", SPL: "streamstats sum(v) as sv by a", Model: ssModel("SSum", "v", "sv", true, []string{"a"}, 0, true), Kind: "chk"})
	add(Spec{Family: "streamstats", SPL: "streamstats current=false sum(v) as sv", Model: ssModel("SSum", "v", "sv", false, nil, 0, true), Kind: "chk"})
	add(Spec{Family: "streamstats", SPL: "streamstats current=false count as c by a", Model: ssModel("SCount", "v", "c", false, []string{"a"}, 0, true), Kind: "chk"})
	add(Spec{Family: "streamstats", SPL: "streamstats window=2 global=false sum(v) as sv by a", Model: ssModel("SSum", "v", "sv", true, []string{"a"}, 2, false), Kind: "chk"})
	add(Spec{Family: "streamstats", SPL: "streamstats window=3 global=false current=false count as c by g", Model: ssModel("SCount", "v", "c", false, []string{"g"}, 3, false), Kind: "chk"})
	add(Spec{Family: "streamstats", SPL: "streamstats count as c, sum(v) as sv, max(v) as mx, min(v) as mn by g"})
	add(Spec{Family: "streamstats", SPL: "streamstats avg(v) as av"})
	// fixed (was batch dependent): global window; the class stays so that a regression is reported with its input
	add(Spec{Family: "sswindow", SPL: "streamstats window=3 sum(v) as sv", Model: ssModel("SSum", "v", "sv", true, nil, 3, true), Kind: "chk",
		Doc: docWindowSum(3, "v", "sv", false), Known: "streamstats_window_batch_dependent", Tables: "num"})
	add(Spec{Family: "sswindow", SPL: "streamstats window=2 count as c", Model: ssModel("SCount", "v", "c", true, nil, 2, true), Kind: "chk",
		Doc: docWindowSum(2, "v", "c", true), Known: "streamstats_window_batch_dependent", Tables: "num"})
	add(Spec{Family: "sswindow", SPL: "streamstats window=1 sum(v) as sv", Model: ssModel("SSum", "v", "sv", true, nil, 1, true), Kind: "chk",
		Doc: docWindowSum(1, "v", "sv", false), Known: "streamstats_window_batch_dependent", Tables: "num"})
	add(Spec{Family: "sswindow", SPL: "streamstats window=2 current=false sum(v) as sv by g", Model: ssModel("SSum", "v", "sv", false, []string{"g"}, 2, true), Kind: "chk",
		Known: "streamstats_window_batch_dependent", Tables: "num"})
	// fixed (was batch dependent): reset_on_change forgot the previous key at every batch start
	add(Spec{Family: "ssreset", SPL: "streamstats reset_on_change=true count as c by g", Model: ssModelR("SCount", "v", "c", true, []string{"g"}, 0, true, true), Kind: "chk", Doc: docRunCount("g", "c"),
		Known: "streamstats_reset_on_change_batch_dependent"})
	add(Spec{Family: "ssreset", SPL: "streamstats reset_on_change=true sum(v) as sv by a", Model: ssModelR("SSum", "v", "sv", true, []string{"a"}, 0, true, true), Kind: "chk",
		Known: "streamstats_reset_on_change_batch_dependent"})
	// reset_on_change without a by-clause never resets (bucket key stays "")
	add(Spec{Family: "streamstats", SPL: "streamstats reset_on_change=true count as c", Model: ssModelR("SCount", "v", "c", true, nil, 0, true, true), Kind: "chk"})
	// chains
	add(Spec{Family: "chain", SPL: "dedup a | head 2", Kind: "chain", Chain: func(cc *coqCtx) string {
		return "[" + dedupModel(1, []string{"a"}, false, false, false)(cc) + "; head_cmd 2]"
	}})
	add(Spec{Family: "chain", SPL: "streamstats count as c | tail 3", Kind: "chain", Chain: func(cc *coqCtx) string {
		return "[" + ssModel("SCount", "v", "c", true, nil, 0, true)(cc) + "; tail_cmd 3]"
	}})
	add(Spec{Family: "chain", SPL: "dedup 2 g | streamstats sum(v) as sv | head 4", Kind: "chain", Chain: func(cc *coqCtx) string {
		return "[" + dedupModel(2, []string{"g"}, false, false, false)(cc) + "; " + ssModel("SSum", "v", "sv", true, nil, 0, true)(cc) + "; head_cmd 4]"
	}})
	add(Spec{Family: "chain", SPL: "head 5 | tail 2", Kind: "chain", Chain: func(cc *coqCtx) string { return "[head_cmd 5; tail_cmd 2]" }})
	add(Spec{Family: "chain", SPL: "tail 4 | head 2 | streamstats count as c", Kind: "chain", Chain: func(cc *coqCtx) string {
		return "[tail_cmd 4; head_cmd 2; " + ssModel("SCount", "v", "c", true, nil, 0, true)(cc) + "]"
	}})
	add(Spec{Family: "chain", SPL: "where v>1 | dedup a | sort -v, id | head 2"})
	add(Spec{Family: "chain", SPL: "eval w=v*2 | streamstats sum(w) as sw by g | tail 3"})
	add(Spec{Family: "chain", SPL: "fillnull value=0 | stats count by a", Cmp: cmpMultiset})
	add(Spec{Family: "chain", SPL: "fillnull value=7 v | where v>2 | top limit=5 g", Cmp: cmpCounts})
	add(Spec{Family: "chain", SPL: `rex field=s "k(?<kn>\d+)=" | dedup kn | fields id, kn | tail 2`})
	add(Spec{Family: "chain", SPL: "sort v, id | streamstats count as rank | where rank<=3"})
	add(Spec{Family: "chain", SPL: "head 6 | stats sum(v) by g", Cmp: cmpMultiset})
	add(Spec{Family: "chain", SPL: `makemv delim=" " s | mvexpand s | dedup s | head 5`})
	return sp
}

// ---------- tables ----------
func genTable(r *vhlib.Rng, kind string, n int) *Table {
	t := &Table{Cols: []string{tsCol, "id", "a", "b", "g", "v", "s"}}
	abc := []string{"x", "y", "z"}
	if kind == "xy" {
		abc = []string{"x", "y"}
	}
	g := "p"
	var as []string
	if kind == "distinct" {
		// value combinations (a,g) and values a with pairwise distinct multiplicities
		pool := []string{}
		// a: x*1, y*2.., z*4..  and (a,g): (x,p)1 (y,p)2 (z,p)3 (z,q)5 -> a counts 1,2,8 ; scaled down by n
		for _, e := range []struct {
			a, g string
			k    int
		}{{"x", "p", 1}, {"y", "q", 2}, {"z", "p", 3}, {"z", "q", 5}} {
			for i := 0; i < e.k; i++ {
				pool = append(pool, e.a+e.g)
			}
		}
		if n < len(pool) {
			pool = pool[:0]
			for _, e := range []struct {
				a, g string
				k    int
			}{{"x", "p", 1}, {"y", "q", 2}, {"z", "p", 4}} {
				for i := 0; i < e.k; i++ {
					pool = append(pool, e.a+e.g)
				}
			}
		}
		for i := len(pool) - 1; i > 0; i-- {
			j := r.Intn(i + 1)
			pool[i], pool[j] = pool[j], pool[i]
		}
		as = pool
		n = len(pool)
	}
	for i := 0; i < n; i++ {
		row := make([]Cell, len(t.Cols))
		row[0] = Cell{K: 'i', I: int64(1700000000000 - i*1000)}
		row[1] = Cell{K: 'i', I: int64(i)}
		nullp := 10
		if kind == "xy" || kind == "distinct" {
			nullp = 0
		}
		if !r.Chance(60) { // g comes in runs
			g = vhlib.Pick(r, []string{"p", "q"})
		}
		if kind == "distinct" {
			row[2] = Cell{K: 's', S: as[i][:1]}
			row[4] = Cell{K: 's', S: as[i][1:]}
		} else {
			if !r.Chance(nullp) {
				row[2] = Cell{K: 's', S: vhlib.Pick(r, abc)}
			}
			row[4] = Cell{K: 's', S: g}
		}
		if !r.Chance(nullp) {
			row[3] = Cell{K: 's', S: vhlib.Pick(r, abc)}
		}
		if kind == "num" || kind == "distinct" || !r.Chance(nullp) {
			row[5] = Cell{K: 'i', I: int64(r.Intn(7))}
		}
		row[6] = Cell{K: 's', S: fmt.Sprintf("k%d=w%d u%d", r.Intn(4), r.Intn(3), i)}
		t.Rows = append(t.Rows, row)
	}
	if kind == "mixed" && n >= 3 {
		// v: small numbers, then a run of 5..9 non-numeric / null cells, then the values that decide min and max
		run := 5 + r.Intn(5)
		start := r.Intn(max(1, n-run-1))
		for i := start; i < start+run && i < n-1; i++ {
			if r.Chance(30) {
				t.Rows[i][5] = Cell{}
			} else {
				t.Rows[i][5] = Cell{K: 's', S: vhlib.Pick(r, []string{"n/a", "-", "err", "x1"})}
			}
		}
		hi := min(n-1, start+run+r.Intn(3))
		t.Rows[hi][5] = Cell{K: 'i', I: int64(500 + r.Intn(1000))}
		if r.Chance(50) && hi+1 < n {
			t.Rows[hi+1][5] = Cell{K: 'i', I: -int64(200 + r.Intn(300))}
		}
	}
	return t
}

func genCuts(r *vhlib.Rng, n int, extra int) [][]int {
	cuts := [][]int{}
	for k := 0; k <= n; k++ { // all 2-cuts (k = 0 and k = n give an empty batch)
		cuts = append(cuts, []int{k, n - k})
	}
	if n > 1 {
		ones := make([]int, n)
		for i := range ones {
			ones[i] = 1
		}
		cuts = append(cuts, ones)
	}
	for e := 0; e < extra; e++ {
		var c []int
		left := n
		for left > 0 {
			k := r.Intn(left + 1)
			if r.Chance(15) {
				k = 0
			}
			if k > 4 && r.Chance(60) {
				k = 1 + r.Intn(4)
			}
			c = append(c, k)
			left -= k
		}
		if r.Chance(20) {
			c = append(c, 0)
		}
		if len(c) == 0 {
			c = []int{0}
		}
		cuts = append(cuts, c)
	}
	return cuts
}

// ---------- comparison ----------
func project(rs []CRow, drop []string) []CRow {
	if len(drop) == 0 {
		return rs
	}
	out := make([]CRow, len(rs))
	for i, r := range rs {
		var o CRow
	cells:
		for _, nc := range r {
			for _, d := range drop {
				if nc.Name == d {
					continue cells
				}
			}
			o = append(o, nc)
		}
		out[i] = o
	}
	return out
}
func sameOrdered(a, b []CRow) bool {
	return strings.Join(rowsStr(a), "\n") == strings.Join(rowsStr(b), "\n") && len(a) == len(b)
}
func sameMultiset(a, b []CRow) bool {
	x, y := rowsStr(a), rowsStr(b)
	sort.Strings(x)
	sort.Strings(y)
	return strings.Join(x, "\n") == strings.Join(y, "\n") && len(a) == len(b)
}
func colSeq(rs []CRow, col string) string {
	p := make([]string, len(rs))
	for i, r := range rs {
		p[i] = r.get(col).canon()
	}
	return strings.Join(p, ",")
}
func same(s *Spec, a, b []CRow) bool {
	switch s.Cmp {
	case cmpMultiset:
		return sameMultiset(a, b)
	case cmpCounts:
		return colSeq(a, "count") == colSeq(b, "count")
	case cmpKeys:
		return sameMultiset(a, b) && colSeq(a, s.KeyCol) == colSeq(b, s.KeyCol)
	}
	return sameOrdered(a, b)
}

type caseFile struct {
	name   string
	cc     *coqCtx
	defs   strings.Builder
	checks []string
	ncases int
	ntab   int
	bytes  int
}

func newCaseFile(name string) *caseFile { return &caseFile{name: name, cc: newCoqCtx()} }
func (cf *caseFile) size() int {
	n := cf.defs.Len()
	for _, c := range cf.checks {
		n += len(c)
	}
	return n
}

var hashSeen = map[string]uint64{}
var hashCells = map[string]Cell{}

func noteHashes(t *Table) {
	for _, row := range t.Rows {
		for _, c := range row {
			if c.K == 'i' || c.K == 's' {
				k := c.canon()
				if _, ok := hashSeen[k]; !ok {
					e := enclosure(c)
					hashSeen[k] = e.Hash()
					hashCells[k] = c
				}
			}
		}
	}
}
func hashTable() string {
	keys := []string{}
	for k := range hashSeen {
		keys = append(keys, k)
	}
	sort.Strings(keys)
	items := []string{}
	for _, k := range keys {
		v, _ := coqCell(hashCells[k])
		items = append(items, fmt.Sprintf("(%s, %d)", v, hashSeen[k]))
	}
	return "Definition htbl : list (value * N) := " + vhlib.CoqListNL(items) + ".\n"
}

func (cf *caseFile) flush(sum *vhlib.Summary, dir string) {
	if len(cf.checks) == 0 {
		return
	}
	full := cf.cc.defs() + hashTable() + cf.defs.String()
	sum.WriteCaseFile(dir, cf.name, "From SigM Require Import Base Pipe PipeCheck.", full,
		"failing "+vhlib.CoqListNL(cf.checks), cf.ncases)
}

type failCase struct {
	SPL     string   `json:"spl"`
	Table   []string `json:"table_rows"`
	Cut     []int    `json:"batch_sizes,omitempty"`
	EofWith bool     `json:"eof_with_last_batch"`
	Got     []string `json:"got"`
	Want    []string `json:"want"`
	Note    string   `json:"note,omitempty"`
}

func main() {
	if len(os.Args) >= 2 && os.Args[1] == "worker" {
		workerMain(os.Args[2:])
		return
	}
	if len(os.Args) >= 2 && (os.Args[1] == "planned" || os.Args[1] == "race" || strings.HasPrefix(os.Args[1], "missingcol=")) {
		childMain(os.Args[1])
		return
	}
	log.SetLevel(log.PanicLevel)
	if len(os.Args) >= 2 && os.Args[1] == "probe" {
		config.InitializeTestingConfig(os.TempDir() + "/C06_probe/")
		config.SetNewQueryPipelineEnabled(true)
		if os.Getenv("C06_REWPROBE") != "" {
			rewoundProbeMain(os.Args[2:])
			return
		}
		if os.Getenv("C06_RECPROBE") != "" {
			recProbeMain(os.Args[2:])
			return
		}
		if os.Getenv("C06_SORTPROBE") != "" {
			sortProbeMain(os.Args[2:])
			return
		}
		if os.Getenv("C06_STRESS") != "" {
			stressMain(os.Args[2:])
			return
		}
		probeMain(os.Args[2:])
		return
	}
	cfg := vhlib.ParseFlags()
	sum := vhlib.NewSummary("one case = one (command chain, table, batching) run of the real DataProcessor chain, or one (SPL, layout) end-to-end query; " +
		"distinct key = chain + table content + batching; non-trivial = non-empty table cut into >= 2 batches (processor level) / layout with >= 2 blocks (end to end)")
	config.InitializeTestingConfig(filepath.Join(cfg.Out, "cfg") + "/")
	config.SetNewQueryPipelineEnabled(true)
	rng := vhlib.NewRng(cfg.Seed*7919 + 6)

	nTables, extraCuts := 14, 3
	if cfg.Thorough() {
		nTables, extraCuts = 60, 8
	}
	specs := buildSpecs()
	// tables per kind
	kinds := []string{"", "distinct", "num", "xy", "mixed"}
	tables := map[string][]*Table{}
	for _, k := range kinds {
		tr := rng.Fork()
		for i := 0; i < nTables; i++ {
			n := 0
			switch {
			case i == 0:
				n = 0
			case i == 1:
				n = 1
			case i == 2:
				n = 12
			default:
				n = 2 + tr.Intn(11)
			}
			if k == "xy" && n < 3 {
				n = 3 + tr.Intn(5)
			}
			if k != "" && k != "xy" && i >= (nTables+1)/2 {
				break
			}
			if k == "mixed" && i >= 2 {
				n = 10 + tr.Intn(30)
			}
			t := genTable(tr, k, n)
			if k == "num" && i == 2 {
				// the table of DESIGN §4.1: v_i = 7 i mod 5
				for j := range t.Rows {
					t.Rows[j][5] = Cell{K: 'i', I: int64((7 * j) % 5)}
				}
			}
			if k == "xy" && i == 0 {
				t = genTable(tr, k, 3)
				for j, ab := range [][2]string{{"x", "y"}, {"y", "x"}, {"x", "y"}} {
					t.Rows[j][2], t.Rows[j][3] = Cell{K: 's', S: ab[0]}, Cell{K: 's', S: ab[1]}
				}
			}
			noteHashes(t)
			tables[k] = append(tables[k], t)
		}
	}

	files := map[string]*caseFile{}
	shards := map[string]int{}
	fileOf := func(fam string) *caseFile {
		key := fam
		switch fam {
		case "where", "eval", "fields", "rename", "rex", "regex", "bin", "makemv", "mvexpand":
			key = "rowwise"
		case "binauto":
			key = "fillnull"
		case "top", "rare", "stats":
			key = "agg"
		case "dedupxy":
			key = "dedup"
		case "sswindow", "ssreset":
			key = "sswindow"
		}
		if files[key] != nil && files[key].size() > 300000 { // shard
			files[key].flush(sum, cfg.Out)
			files[key] = nil
			shards[key]++
		}
		if files[key] == nil {
			name := "cases_" + key
			if shards[key] > 0 {
				name = fmt.Sprintf("cases_%s_%d", key, shards[key])
			}
			files[key] = newCaseFile(name)
		}
		return files[key]
	}
	tabDefined := map[string]bool{}

	for si := range specs {
		s := &specs[si]
		cr := rng.Fork()
		for ti, t := range tables[s.Tables] {
			cf := fileOf(s.Family)
			n := len(t.Rows)
			in := t.crows()
			base := runChain(s.SPL, t, []int{n}, false)
			sum.Count("cmd/" + s.Family)
			if base.Err != "" {
				sum.Fail(s.Family+"_error", fmt.Sprintf("%q on %d rows, un-cut: %s", s.SPL, n, base.Err),
					failCase{SPL: s.SPL, Table: rowsStr(in), Cut: []int{n}, Note: base.Err})
				continue
			}
			baseRows := project(base.Rows, s.Drop)
			// documented meaning of the un-cut run
			if s.Doc != nil {
				want := s.Doc(in, t.Cols)
				if !sameOrdered(baseRows, want) {
					cls := s.Family + "_wrong_rows"
					if s.Family == "dedupxy" {
						cls = "dedup_wrong_rows"
					}
					if s.Family == "sswindow" {
						cls = "streamstats_window_wrong_uncut"
					}
					if s.Family == "ssreset" {
						cls = "streamstats_reset_on_change_wrong_uncut"
					}
					if s.DocKnown != "" && xorCollision(in, "a", "b") {
						cls = s.DocKnown
					}
					sum.Fail(cls, fmt.Sprintf("%q on %d rows (single batch) returns %d rows %v; documented meaning gives %d rows %v",
						s.SPL, n, len(baseRows), firstDiff(rowsStr(baseRows), rowsStr(want)), len(want), ""),
						failCase{SPL: s.SPL, Table: rowsStr(in), Cut: []int{n}, Got: rowsStr(baseRows), Want: rowsStr(want)})
				}
			}
			cuts := genCuts(cr, n, extraCuts)
			type obs struct {
				cut  []int
				ew   bool
				rows []CRow
				fs   []int
			}
			var all []obs
			agree := true
			for ci, cut := range cuts {
				ew := ci%2 == 1
				res := runChain(s.SPL, t, cut, ew)
				nb := 0
				for _, k := range cut {
					if k > 0 {
						nb++
					}
				}
				sum.Eval(fmt.Sprintf("%s|%s|%d|%v", s.SPL, s.Tables, ti, cut), n > 0 && nb >= 2)
				sum.Count(fmt.Sprintf("batches/%d", min(len(cut), 6)))
				rows := project(res.Rows, s.Drop)
				ok := res.Err == "" && same(s, rows, baseRows)
				if !ok {
					agree = false
					cls := s.Family + "_chunk_dependent"
					if s.Family == "dedupxy" {
						cls = "dedup_chunk_dependent"
					}
					if s.Known != "" && res.Err == "" {
						cls = s.Known
					}
					sum.Fail(cls, fmt.Sprintf("%q: %d rows in batches %v (EOF with last batch: %v) give %s; the same rows in one batch give %s%s",
						s.SPL, n, cut, ew, firstDiff(rowsStr(rows), rowsStr(baseRows)), "", errNote(res.Err)),
						failCase{SPL: s.SPL, Table: rowsStr(in), Cut: cut, EofWith: ew, Got: rowsStr(rows), Want: rowsStr(baseRows), Note: res.Err})
				}
				all = append(all, obs{cut, ew, rows, res.Fetches})
			}
			if ti < 2 {
				sum.Sample(map[string]interface{}{"spl": s.SPL, "table": rowsStr(in), "cuts": cuts, "uncut_result": rowsStr(baseRows)})
			}
			// ---- model comparison ----
			if s.Kind == "" {
				continue
			}
			tname := fmt.Sprintf("t_%s_%d", strings.ReplaceAll(s.Tables+"g", "-", ""), ti)
			if !tabDefined[cf.name+tname] {
				ts, ok := cf.cc.rows(t.crowsFull())
				if !ok {
					continue
				}
				fmt.Fprintf(&cf.defs, "Definition %s : batch := %s.\n", tname, ts)
				tabDefined[cf.name+tname] = true
			}
			exp, ok := cf.cc.rows(baseRows)
			if !ok {
				continue
			}
			cutsC := coqCuts(append([][]int{{n}}, cuts...))
			switch s.Kind {
			case "chk", "perm":
				fn := "chk"
				if s.Kind == "perm" {
					fn = "chk_perm"
				}
				if !agree {
					continue // the oracle already reports it; the model is chunk invariant by theorem
				}
				cf.checks = append(cf.checks, fmt.Sprintf("%s %s %s %s %s", fn, s.Model(cf.cc), tname, cutsC, exp))
				cf.ncases += len(cuts) + 1
				if s.FetchFl != "" {
					items := []string{}
					for _, o := range all {
						items = append(items, fmt.Sprintf("(%s, %v, %s)", coqNats(o.cut), o.ew, coqNats(o.fs)))
					}
					p := "proc_of"
					if s.FetchFl == "bottleneck_fl" {
						p = "proc_of_bottleneck"
					}
					cf.checks = append(cf.checks, fmt.Sprintf("chk_fetch (%s %s) %s %s %s", p, s.Model(cf.cc), s.FetchFl, tname, vhlib.CoqList(items)))
					cf.ncases += len(all)
				}
			case "each":
				items := []string{fmt.Sprintf("(%s, %s)", coqNats([]int{n}), exp)}
				for _, o := range all {
					e, ok := cf.cc.rows(o.rows)
					if ok {
						items = append(items, fmt.Sprintf("(%s, %s)", coqNats(o.cut), e))
					}
				}
				cf.checks = append(cf.checks, fmt.Sprintf("chk_each %s %s %s", s.Model(cf.cc), tname, vhlib.CoqListNL(items)))
				cf.ncases += len(items)
			case "chain":
				if !agree {
					continue
				}
				cf.checks = append(cf.checks, fmt.Sprintf("chk_chain %s %s %s %s", s.Chain(cf.cc), tname, cutsC, exp))
				cf.ncases += len(cuts) + 1
			case "fillnull":
				if !agree {
					continue
				}
				cf.checks = append(cf.checks, fmt.Sprintf("chk_fillnull_all (VStr %s) %s %s %s", vhlib.CoqStr("0"), tname, cutsC, exp))
				cf.ncases += 2 * (len(cuts) + 1)
			case "rowwise":
				if !agree {
					continue
				}
				// the row function as observed on one-row tables
				items := []string{}
				okAll := true
				seen := map[string]bool{}
				for i := range t.Rows {
					k := in[i].String()
					if seen[k] {
						continue
					}
					seen[k] = true
					one := runChain(s.SPL, t.sub(i, i+1), []int{1}, false)
					if one.Err != "" {
						okAll = false
						break
					}
					a, ok1 := cf.cc.row(in[i])
					b, ok2 := cf.cc.rows(project(one.Rows, s.Drop))
					if !ok1 || !ok2 {
						okAll = false
						break
					}
					items = append(items, fmt.Sprintf("(%s, %s)", a, b))
				}
				if !okAll {
					sum.Count("rowwise_not_encodable/" + s.Family)
					continue
				}
				ftab := "(@nil (row * list row))"
				if len(items) > 0 {
					ftab = vhlib.CoqListNL(items)
				}
				cf.checks = append(cf.checks, fmt.Sprintf("chk (rowwise_cmd (f_of_table %s)) %s %s %s", ftab, tname, cutsC, exp))
				cf.ncases += len(cuts) + 1
			}
		}
	}
	names := []string{}
	for k := range files {
		names = append(names, k)
	}
	sort.Strings(names)
	for _, k := range names {
		files[k].flush(sum, cfg.Out)
	}

	t0 := time.Now()
	lap := func(what string) {
		if os.Getenv("C06_TIMING") != "" {
			fmt.Fprintf(os.Stderr, "c06 timing: %s %.1fs\n", what, time.Since(t0).Seconds())
		}
		t0 = time.Now()
	}
	runRewoundStream(cfg, sum, vhlib.NewRng(cfg.Seed*7919+606), tables)
	lap("rewound")
	runMergedStream(cfg, sum, vhlib.NewRng(cfg.Seed*7919+607), tables)
	lap("merged")
	runRecordwiseStream(cfg, sum, vhlib.NewRng(cfg.Seed*7919+608))
	lap("recordwise")
	runChild("planned", cfg, sum, 3)
	runChild("missingcol=eval_missing_column", cfg, sum, 1)
	runChild("missingcol=sort_missing_column", cfg, sum, 1)
	runChild("race", cfg, sum, 1)
	lap("planned+race children")
	runE2E(cfg, sum, rng.Fork())
	lap("e2e")
	sum.Write(cfg.Out)
}

func min(a, b int) int {
	if a < b {
		return a
	}
	return b
}
func errNote(e string) string {
	if e == "" {
		return ""
	}
	return " [error: " + e + "]"
}
func firstDiff(got, want []string) string {
	for i := 0; i < len(got) || i < len(want); i++ {
		g, w := "<none>", "<none>"
		if i < len(got) {
			g = got[i]
		}
		if i < len(want) {
			w = want[i]
		}
		if g != w {
			return fmt.Sprintf("row %d = {%s} instead of {%s} (%d vs %d rows)", i, g, w, len(got), len(want))
		}
	}
	return "the same rows"
}

// the input has two rows with different (f1,f2) value combinations whose XOR of the real
// per-field hashes (CValueEnclosure.Hash) is the same: (x,y)/(y,x), or (x,x)/(y,y) (both 0)
func xorCollision(in []CRow, f1, f2 string) bool {
	byKey := map[uint64]string{}
	for _, r := range in {
		a, b := r.get(f1), r.get(f2)
		if a.K == 0 || b.K == 0 {
			continue
		}
		ea, eb := enclosure(a), enclosure(b)
		k := ea.Hash() ^ eb.Hash()
		t := a.canon() + "|" + b.canon()
		if prev, ok := byKey[k]; ok && prev != t {
			return true
		}
		byKey[k] = t
	}
	return false
}

// ======================= end to end =======================
type e2eEvent struct {
	Id  int
	A   string
	G   string
	V   int
	S   string
	Lat int    // value range differs from block to block
	Opt string // "" = the event does not have the field
}
type e2eLayout struct {
	Name        string
	FlushEvery  int // events per flush (block); 0 = one flush at the end
	RotateAfter int // rotate the segment after this many events; 0 = never
	Procs       int // GOMAXPROCS of the worker
}
type e2eScript struct {
	Events  []e2eEvent
	Layout  e2eLayout
	Queries []string
}
type e2eAnswer struct {
	Err  string
	Hits []string // canonical rows, in order
	Meas []string // canonical buckets, in order
}

const e2eBase = uint64(1700000000000)

func initNode(dir string) error {
	config.InitializeTestingConfig(dir + "/")
	config.SetNewQueryPipelineEnabled(true)
	limit.InitMemoryLimiter()
	writer.InitWriterNode()
	if err := vtable.InitVTable(serverutils.GetMyIds); err != nil {
		return err
	}
	if err := query.InitQueryNode(serverutils.GetMyIds, serverutils.ExtractKibanaRequests); err != nil {
		return err
	}
	query.InitMaxRunningQueries()
	go query.PullQueriesToRun(context.Background())
	return nil
}

func canonAny(v interface{}) string {
	switch x := v.(type) {
	case nil:
		return "null"
	case float64:
		return strconv.FormatFloat(x, 'g', -1, 64)
	case int64:
		return strconv.FormatInt(x, 10)
	case uint64:
		return strconv.FormatUint(x, 10)
	case int:
		return strconv.Itoa(x)
	case json.Number:
		return x.String()
	case string:
		if f, err := strconv.ParseFloat(x, 64); err == nil {
			return strconv.FormatFloat(f, 'g', -1, 64)
		}
		return x
	default:
		return fmt.Sprintf("%v", x)
	}
}

func workerMain(args []string) {
	log.SetLevel(log.PanicLevel)
	if len(args) < 3 {
		os.Exit(3)
	}
	dir, scriptPath, outPath := args[0], args[1], args[2]
	b, err := os.ReadFile(scriptPath)
	if err != nil {
		os.Exit(3)
	}
	var sc e2eScript
	if err := json.Unmarshal(b, &sc); err != nil {
		os.Exit(3)
	}
	if err := initNode(dir); err != nil {
		fmt.Fprintln(os.Stderr, "init:", err)
		os.Exit(4)
	}
	zero := time.Duration(0)
	var sb strings.Builder
	pending := 0
	flush := func() {
		if pending == 0 {
			return
		}
		_, _, err := eswriter.HandleBulkBody([]byte(sb.String()), nil, 1, 0, false)
		if err != nil {
			fmt.Fprintln(os.Stderr, "bulk:", err)
			os.Exit(5)
		}
		writer.FlushWipBufferToFile(&zero, &zero)
		sb.Reset()
		pending = 0
	}
	for i, e := range sc.Events {
		fmt.Fprintf(&sb, "{\"index\":{\"_index\":\"c06\"}}\n")
		opt := ""
		if e.Opt != "" {
			opt = fmt.Sprintf(",\"opt\":%q", e.Opt)
		}
		fmt.Fprintf(&sb, "{\"timestamp\":%d,\"id\":%d,\"a\":%q,\"g\":%q,\"v\":%d,\"s\":%q,\"lat\":%d%s}\n", e2eBase+uint64(e.Id)*1000, e.Id, e.A, e.G, e.V, e.S, e.Lat, opt)
		pending++
		if sc.Layout.FlushEvery > 0 && pending >= sc.Layout.FlushEvery {
			flush()
		}
		if sc.Layout.RotateAfter > 0 && (i+1)%sc.Layout.RotateAfter == 0 {
			flush()
			writer.ForceRotateSegmentsForTest()
		}
	}
	flush()
	answers := make([]e2eAnswer, len(sc.Queries))
	for qi, q := range sc.Queries {
		answers[qi] = runE2EQuery(uint64(qi+10), q)
	}
	out, _ := json.Marshal(answers)
	_ = os.WriteFile(outPath, out, 0o644)
	os.Exit(0)
}

func runE2EQuery(qid uint64, text string) e2eAnswer {
	req := map[string]interface{}{
		"searchText": text, "indexName": "c06", "startEpoch": e2eBase - 1000, "endEpoch": e2eBase + 100000000,
		"size": uint64(10000), "from": uint64(0), "queryLanguage": "Splunk QL", "state": "query",
	}
	ch := make(chan e2eAnswer, 1)
	go func() {
		defer func() {
			if r := recover(); r != nil {
				ch <- e2eAnswer{Err: fmt.Sprintf("panic: %v", r)}
			}
		}()
		resp, _, _, err := pipesearch.ParseAndExecutePipeRequest(req, qid, 0, time.Now(), "", nil)
		if err != nil {
			ch <- e2eAnswer{Err: "error: " + err.Error()}
			return
		}
		if resp == nil {
			ch <- e2eAnswer{Err: "nil response"}
			return
		}
		var a e2eAnswer
		if len(resp.Errors) > 0 {
			a.Err = "resp.Errors: " + strings.Join(resp.Errors, "; ")
		}
		for _, h := range resp.Hits.Hits {
			keys := []string{}
			for k := range h {
				if k == "_index" || k == "timestamp" {
					continue
				}
				if h[k] == nil {
					continue
				}
				keys = append(keys, k)
			}
			sort.Strings(keys)
			parts := []string{}
			for _, k := range keys {
				parts = append(parts, k+"="+canonAny(h[k]))
			}
			a.Hits = append(a.Hits, strings.Join(parts, ","))
		}
		for _, bkt := range resp.MeasureResults {
			keys := []string{}
			for k := range bkt.MeasureVal {
				keys = append(keys, k)
			}
			sort.Strings(keys)
			parts := []string{"by=" + strings.Join(bkt.GroupByValues, "/")}
			for _, k := range keys {
				parts = append(parts, k+"="+canonAny(bkt.MeasureVal[k]))
			}
			a.Meas = append(a.Meas, strings.Join(parts, ","))
		}
		ch <- a
	}()
	select {
	case a := <-ch:
		return a
	case <-time.After(30 * time.Second):
		return e2eAnswer{Err: "timeout"}
	}
}

type e2eQuery struct {
	SPL    string
	Family string
	Mode   int    // cmpOrdered / cmpMultiset / cmpCounts
	Known  string // known class
}

func e2eQueries() []e2eQuery {
	return []e2eQuery{
		{"* | head 5", "head", cmpOrdered, ""},
		{"* | tail 3", "tail", cmpOrdered, ""},
		{"* | dedup a", "dedup", cmpOrdered, ""},
		{"* | dedup 2 a g", "dedup", cmpOrdered, ""},
		{"* | dedup g consecutive=true", "dedup", cmpOrdered, ""},
		{"* | where v>1 | eval w=v*2 | fields id, w", "rowwise", cmpOrdered, ""},
		{"* | rename a as aa | fillnull value=0 v | fields id, aa, v", "rowwise", cmpOrdered, ""},
		{`* | rex field=s "k(?<kn>\d+)=" | fields id, kn`, "rex", cmpOrdered, ""},
		{`* | eval q=1 | regex s="k1" | fields id, s`, "regex", cmpOrdered, ""},
		{"* | bin span=2 v | fields id, v", "bin", cmpOrdered, ""},
		{"* | streamstats count as c | fields id, c", "streamstats", cmpOrdered, ""},
		{"* | streamstats sum(v) as sv by a | fields id, a, sv", "streamstats", cmpOrdered, ""},
		{"* | streamstats window=2 global=false sum(v) as sv by g | fields id, sv", "streamstats", cmpOrdered, ""},
		{"* | sort v, id | head 4 | fields id, v", "sort", cmpOrdered, ""},
		{"* | sort -id | tail 2 | fields id", "sort", cmpOrdered, ""},
		{"* | top a", "top", cmpCounts, ""},
		{"* | rare g", "rare", cmpCounts, ""},
		{"* | stats count, sum(v) by a", "stats", cmpMultiset, ""},
		{"* | stats count", "stats", cmpMultiset, ""},
		{"* | dedup a | head 2 | fields id, a", "chain", cmpOrdered, ""},
		{"* | where v>0 | streamstats count as c | tail 3 | fields id, c", "chain", cmpOrdered, ""},
		{`* | makemv delim=" " s | mvexpand s | fields id, s | head 6`, "mvexpand", cmpOrdered, ""},
		{"* | streamstats window=3 sum(v) as sv | fields id, sv", "sswindow", cmpOrdered, "streamstats_window_batch_dependent"},
		{"* | streamstats reset_on_change=true count as c by g | fields id, g, c", "ssreset", cmpOrdered, "streamstats_reset_on_change_batch_dependent"},
		// chains that SetupQueryParallelism clones GOMAXPROCS times and merges
		{"* | where v>=0 | stats count, sum(v) by a", "parallel_stats", cmpMultiset, ""},
		{"* | fillnull value=0 v | eval w=v*2 | stats sum(w), count by g", "parallel_stats", cmpMultiset, ""},
		{"* | where v>0 | sort -v, id | fields id, v", "parallel_sort", cmpOrdered, ""},
		{"* | eval w=v*2 | sort w, -id | head 5 | fields id, w", "parallel_sort", cmpOrdered, ""},
		{"* | eval w=v*2 | top a", "parallel_top", cmpCounts, ""},
		{"* | where v>=0 | rare g", "parallel_top", cmpCounts, ""},
		// two-pass commands in front of an aggregation: must see the whole input however the
		// blocks reach the chains
		{"* | sort 100 lat, id | fillnull value=0 | fields id, lat, opt", "sort_twopass", cmpOrdered, "parallel_sort_then_two_pass_wrong_result"},
		{"* | bin lat | stats count by lat", "twopass_bin", cmpMultiset, ""},
		{"* | bin bins=3 lat | sort lat, id | fields id, lat", "twopass_bin", cmpOrdered, ""},
		{"* | fields id, a, opt, v | fillnull value=0 | stats count by opt", "twopass_fillnull", cmpMultiset, ""},
		{"* | fields id, opt | fillnull value=none | top opt", "twopass_fillnull", cmpCounts, ""},
		// per-record commands that write a column the events already have, condition true for a part of
		// the events: a block without any qualifying event must come out like the same events in a
		// block that has one (stream "recordwise" at processor level)
		{`* | rex field=s "k(?<v>[12])=" | fields id, v`, "rex", cmpOrdered, ""},
		{`* | rex field=s "k1=w(?<a>\d)" | fields id, a`, "rex", cmpOrdered, ""},
		{`* | eval a=if(v>2, "big", null()) | fields id, a`, "rowwise", cmpOrdered, ""},
		{"* | rename v as a | fields id, a", "rowwise", cmpOrdered, ""},
	}
}

func runE2E(cfg vhlib.Config, sum *vhlib.Summary, r *vhlib.Rng) {
	nData := 2
	if cfg.Thorough() {
		nData = 8
	}
	qs := e2eQueries()
	texts := make([]string, len(qs))
	for i, q := range qs {
		texts[i] = q.SPL
	}
	for d := 0; d < nData; d++ {
		n := 12
		if d > 0 {
			n = 9 + r.Intn(16)
		}
		evs := make([]e2eEvent, n)
		g := "p"
		for i := range evs {
			if !r.Chance(60) {
				g = vhlib.Pick(r, []string{"p", "q"})
			}
			v := r.Intn(7)
			if d == 0 {
				v = (7 * i) % 5
			}
			evs[i] = e2eEvent{Id: i, A: vhlib.Pick(r, []string{"x", "y", "z"}), G: g, V: v, S: fmt.Sprintf("k%d=w%d u%d", r.Intn(4), r.Intn(3), i),
				Lat: 1000*((i/2)%4) + r.Intn(10)}
			if (i/2)%4 == 1 {
				evs[i].Opt = "q"
			}
		}
		layouts := []e2eLayout{
			{"one_block", 0, 0, 1},
			{"one_block_p4", 0, 0, 4},
			{"blocks_of_2", 2, 0, 1},
			{"blocks_of_5_two_segments", 5, 10, 1},
			{"blocks_of_5_two_segments_p4", 5, 10, 4},
			{"blocks_of_1_segments_of_4_p2", 1, 4, 2},
		}
		if d > 0 {
			layouts = append(layouts, e2eLayout{"random", 1 + r.Intn(6), 3 + r.Intn(9), 1 + r.Intn(4)})
		}
		answers := make([][]e2eAnswer, len(layouts))
		errs := make([]string, len(layouts))
		var wg sync.WaitGroup
		sem := make(chan struct{}, 4)
		for li := range layouts {
			wg.Add(1)
			go func(li int) {
				defer wg.Done()
				sem <- struct{}{}
				defer func() { <-sem }()
				answers[li], errs[li] = runWorker(cfg, d, li, e2eScript{Events: evs, Layout: layouts[li], Queries: texts})
			}(li)
		}
		wg.Wait()
		if errs[0] != "" {
			sum.HarnessError("e2e worker (reference layout) failed: " + errs[0])
			continue
		}
		for li := 1; li < len(layouts); li++ {
			if errs[li] != "" {
				sum.HarnessError(fmt.Sprintf("e2e worker (layout %s) failed: %s", layouts[li].Name, errs[li]))
				continue
			}
			// a disagreement is repeated alone (fresh reference worker + fresh layout worker, nothing else
			// running) before it is reported; what does not come back is counted, not reported
			var refAgain, layAgain []e2eAnswer
			reran := false
			for qi, q := range qs {
				a, b := answers[0][qi], answers[li][qi]
				sum.Eval(fmt.Sprintf("e2e|%d|%s|%s", d, layouts[li].Name, q.SPL), true)
				sum.Count("e2e/" + q.Family)
				if e2eSame(q, a, b) {
					continue
				}
				if !reran {
					reran = true
					var e1, e2 string
					refAgain, e1 = runWorker(cfg, d, 100+li, e2eScript{Events: evs, Layout: layouts[0], Queries: texts})
					layAgain, e2 = runWorker(cfg, d, 200+li, e2eScript{Events: evs, Layout: layouts[li], Queries: texts})
					if e1 != "" || e2 != "" {
						refAgain, layAgain = nil, nil
					}
				}
				if refAgain != nil && e2eSame(q, refAgain[qi], layAgain[qi]) {
					cls := "e2e_intermittent_not_reproduced/" + q.Family
					if strings.HasPrefix(q.Family, "parallel_") && layouts[li].Procs > 1 {
						cls = "e2e_intermittent_not_reproduced/parallel_chains_race/" + q.Family
					}
					sum.Count(cls)
					sum.Notes = append(sum.Notes, fmt.Sprintf("not reproduced when repeated alone: %q, layout %s: %s", q.SPL, layouts[li].Name,
						firstDiff(append(append([]string{}, b.Hits...), b.Meas...), append(append([]string{}, a.Hits...), a.Meas...))))
					continue
				}
				if refAgain != nil {
					a, b = refAgain[qi], layAgain[qi]
				}
				cls := "e2e_" + q.Family + "_layout_dependent"
				if q.Known != "" && ((a.Err == "" && b.Err == "") || q.Family == "sort_twopass") {
					cls = q.Known
				}
				got, want := append(append([]string{}, b.Hits...), b.Meas...), append(append([]string{}, a.Hits...), a.Meas...)
				sum.Fail(cls, fmt.Sprintf("%q over %d events: layout %s (flush every %d, rotate after %d, GOMAXPROCS %d) gives %s; one block gives %s %s%s",
					q.SPL, n, layouts[li].Name, layouts[li].FlushEvery, layouts[li].RotateAfter, layouts[li].Procs, firstDiff(got, want), "", a.Err, b.Err),
					map[string]interface{}{"spl": q.SPL, "events": evs, "layout": layouts[li], "got": got, "want": want, "err_ref": a.Err, "err": b.Err})
			}
		}
		if d == 0 {
			sum.Sample(map[string]interface{}{"e2e_events": len(evs), "layouts": layouts, "queries": texts, "reference_answer_head": answers[0][0]})
		}
	}
}

func e2eSame(q e2eQuery, a, b e2eAnswer) bool {
	if a.Err != b.Err {
		return false
	}
	switch q.Mode {
	case cmpOrdered:
		return strings.Join(a.Hits, "\n") == strings.Join(b.Hits, "\n") && sameStrMultiset(a.Meas, b.Meas)
	case cmpMultiset:
		return sameStrMultiset(a.Hits, b.Hits) && sameStrMultiset(a.Meas, b.Meas)
	case cmpCounts:
		return countSeq(a.Meas) == countSeq(b.Meas) && countSeq(a.Hits) == countSeq(b.Hits)
	}
	return false
}

func sameStrMultiset(a, b []string) bool {
	x, y := append([]string{}, a...), append([]string{}, b...)
	sort.Strings(x)
	sort.Strings(y)
	return strings.Join(x, "\n") == strings.Join(y, "\n") && len(x) == len(y)
}
func countSeq(rows []string) string {
	out := []string{}
	for _, r := range rows {
		for _, p := range strings.Split(r, ",") {
			if strings.HasPrefix(p, "count=") || strings.HasPrefix(p, "count(*)=") {
				out = append(out, p)
			}
		}
	}
	return strings.Join(out, ";")
}

func runWorker(cfg vhlib.Config, d, li int, sc e2eScript) ([]e2eAnswer, string) {
	dir := filepath.Join(cfg.Out, fmt.Sprintf("e2e_%d_%d", d, li))
	_ = os.MkdirAll(dir, 0o755)
	sp := filepath.Join(dir, "script.json")
	op := filepath.Join(dir, "answers.json")
	b, _ := json.Marshal(sc)
	_ = os.WriteFile(sp, b, 0o644)
	run := func() ([]e2eAnswer, string) {
		_ = os.RemoveAll(filepath.Join(dir, "data"))
		_ = os.Remove(op)
		ctx, cancel := context.WithTimeout(context.Background(), 90*time.Second)
		defer cancel()
		cmd := exec.CommandContext(ctx, os.Args[0], "worker", filepath.Join(dir, "data"), sp, op)
		cmd.Env = append(os.Environ(), fmt.Sprintf("GOMAXPROCS=%d", sc.Layout.Procs))
		out, err := cmd.CombinedOutput()
		if err != nil {
			tail := string(out)
			if len(tail) > 400 {
				tail = tail[len(tail)-400:]
			}
			return nil, fmt.Sprintf("%v: %s", err, tail)
		}
		ab, err := os.ReadFile(op)
		if err != nil {
			return nil, "no answers file"
		}
		var as []e2eAnswer
		if err := json.Unmarshal(ab, &as); err != nil || len(as) != len(sc.Queries) {
			return nil, "bad answers file"
		}
		return as, ""
	}
	as, e := run()
	if e != "" { // a failure under parallel load is re-run alone before it counts
		as, e = run()
	}
	_ = os.RemoveAll(filepath.Join(dir, "data"))
	return as, e
}

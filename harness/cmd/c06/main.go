package main

import (
	"fmt"
	"io"
	"os"
	"sort"
	"strconv"
	"strings"

	"github.com/siglens/siglens/pkg/ast/pipesearch"
	"github.com/siglens/siglens/pkg/config"
	"github.com/siglens/siglens/pkg/segment/query/iqr"
	"github.com/siglens/siglens/pkg/segment/query/processor"
	sutils "github.com/siglens/siglens/pkg/segment/utils"
	log "github.com/sirupsen/logrus"
)

type Table struct {
	Cols []string
	Rows [][]sutils.CValueEnclosure
}

type batchStreamer struct {
	t       *Table
	cuts    []int // batch end offsets, nondecreasing, last = len(rows)
	pos     int
	eofWith bool // EOF returned together with the last batch
}

func (s *batchStreamer) Fetch() (*iqr.IQR, error) {
	if s.pos >= len(s.cuts) {
		return nil, io.EOF
	}
	start := 0
	if s.pos > 0 {
		start = s.cuts[s.pos-1]
	}
	end := s.cuts[s.pos]
	s.pos++
	kv := map[string][]sutils.CValueEnclosure{}
	for ci, c := range s.t.Cols {
		vals := make([]sutils.CValueEnclosure, 0, end-start)
		for r := start; r < end; r++ {
			vals = append(vals, s.t.Rows[r][ci])
		}
		kv[c] = vals
	}
	q := iqr.NewIQR(0)
	if err := q.AppendKnownValues(kv); err != nil {
		return nil, err
	}
	if s.eofWith && s.pos >= len(s.cuts) {
		return q, io.EOF
	}
	return q, nil
}
func (s *batchStreamer) Rewind()        { s.pos = 0 }
func (s *batchStreamer) Cleanup()       {}
func (s batchStreamer) String() string { return "<batch streamer>" }

func canonVal(v sutils.CValueEnclosure) (string, bool) {
	switch v.Dtype {
	case sutils.SS_DT_BACKFILL, sutils.SS_INVALID:
		return "", false
	}
	switch x := v.CVal.(type) {
	case nil:
		return "", false
	case string:
		return "s:" + x, true
	case float64:
		return "n:" + strconv.FormatFloat(x, 'g', -1, 64), true
	case int64:
		return "n:" + strconv.FormatFloat(float64(x), 'g', -1, 64), true
	case uint64:
		return "n:" + strconv.FormatFloat(float64(x), 'g', -1, 64), true
	case bool:
		return "b:" + strconv.FormatBool(x), true
	default:
		return fmt.Sprintf("o:%T:%v", x, x), true
	}
}

func rowsOf(q *iqr.IQR) ([]string, error) {
	if q == nil {
		return nil, nil
	}
	cols, err := q.GetColumns()
	if err != nil {
		return nil, err
	}
	names := []string{}
	for c := range cols {
		names = append(names, c)
	}
	sort.Strings(names)
	n := q.NumberOfRecords()
	out := make([]string, n)
	colv := map[string][]sutils.CValueEnclosure{}
	for _, c := range names {
		v, err := q.ReadColumn(c)
		if err != nil {
			return nil, err
		}
		colv[c] = v
	}
	for i := 0; i < n; i++ {
		parts := []string{}
		for _, c := range names {
			if i < len(colv[c]) {
				if s, ok := canonVal(colv[c][i]); ok {
					parts = append(parts, c+"="+s)
				}
			}
		}
		out[i] = strings.Join(parts, ",")
	}
	return out, nil
}

func runChain(spl string, t *Table, cuts []int, eofWith bool) (rows []string, fetches int, err error) {
	defer func() {
		if r := recover(); r != nil {
			err = fmt.Errorf("panic: %v", r)
		}
	}()
	_, aggs, _, perr := pipesearch.ParseQuery(spl, 0, "Splunk QL")
	if perr != nil {
		return nil, 0, perr
	}
	dps := processor.AggsToDataProcessors(aggs, nil)
	if len(dps) == 0 {
		return nil, 0, fmt.Errorf("no data processors for %q", spl)
	}
	src := &batchStreamer{t: t, cuts: cuts, eofWith: eofWith}
	dps[0].SetStreams([]*processor.CachedStream{processor.NewCachedStream(src)})
	for i := 1; i < len(dps); i++ {
		dps[i].SetStreams([]*processor.CachedStream{processor.NewCachedStream(dps[i-1])})
	}
	last := dps[len(dps)-1]
	for fetches = 0; fetches < 10000; fetches++ {
		q, ferr := last.Fetch()
		if ferr != nil && ferr != io.EOF {
			return rows, fetches, ferr
		}
		rs, rerr := rowsOf(q)
		if rerr != nil {
			return rows, fetches, rerr
		}
		rows = append(rows, rs...)
		if ferr == io.EOF {
			break
		}
	}
	return rows, fetches, nil
}

func S(s string) sutils.CValueEnclosure  { return sutils.CValueEnclosure{Dtype: sutils.SS_DT_STRING, CVal: s} }
func I(i int64) sutils.CValueEnclosure   { return sutils.CValueEnclosure{Dtype: sutils.SS_DT_SIGNED_NUM, CVal: i} }
func U(i uint64) sutils.CValueEnclosure  { return sutils.CValueEnclosure{Dtype: sutils.SS_DT_UNSIGNED_NUM, CVal: i} }
func Null() sutils.CValueEnclosure       { return sutils.CValueEnclosure{Dtype: sutils.SS_DT_BACKFILL, CVal: nil} }

func main() {
	log.SetLevel(log.PanicLevel)
	config.InitializeTestingConfig(os.TempDir() + "/c06_explore/")
	config.SetNewQueryPipelineEnabled(true)
	t := &Table{Cols: []string{"timestamp", "id", "a", "b", "v", "s"}}
	abs := []string{"x", "y", "z"}
	for i := 0; i < 12; i++ {
		row := []sutils.CValueEnclosure{U(uint64(1700000000000 - i*1000)), I(int64(i)), S(abs[i%3]), S(abs[(i*i+1)%3]), I(int64((7 * i) % 5)), S(fmt.Sprintf("k%d=w%d u%d", i%4, i%3, i))}
		t.Rows = append(t.Rows, row)
	}
	spls := os.Args[1:]
	for _, spl := range spls {
		for _, cuts := range [][]int{{12}, {5, 10, 12}, {1, 2, 3, 4, 5, 6, 7, 8, 9, 10, 11, 12}, {0, 5, 5, 12}} {
			for _, ew := range []bool{false, true} {
				rows, nf, err := runChain(spl, t, cuts, ew)
				fmt.Printf("%q cuts=%v eofWith=%v fetches=%d err=%v\n", spl, cuts, ew, nf, err)
				for _, r := range rows {
					fmt.Println("   ", r)
				}
			}
		}
	}
}

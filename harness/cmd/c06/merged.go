// merged.go: a chain that is rewound while its front reads SEVERAL upstream streams.
//
// A DataProcessor with more than one input stream (the merger DP that SetupQueryParallelism puts
// behind parallel chains, or the first command of the rest of the chain itself) merges the IQRs
// it fetches until one of them is used up and hands the unused remainder of the others back to
// their CachedStreams (SetUnusedDataFromLastFetch).  A command that stops reading early (head)
// leaves such leftovers behind; a two-pass command further down (fillnull without field list,
// bin without span) then rewinds the whole pipe and reads it a second time.  The property text:
// "the output does not change when the same input reaches it ... from one or several upstream
// streams, or in one or two passes".  Every front of the rewound stream (head, head <expr>, tail,
// dedup, streamstats, row-wise, another two-pass command, multi-command fronts) is run behind
//   A  the real merger DataProcessor (with and without a row limit) over k = 2..4 CachedStreams
//      wrapped as SetupQueryParallelism wraps them (SingleThreadedStream), and
//   B  with the k CachedStreams attached to the first command itself,
// the table dealt to the streams at random (every stream keeps the order of the table), every
// stream cut into its own batches (whole, one row per batch, random with empty batches), both EOF
// conventions, in front of nothing / fillnull / bin.  Oracle: the rows of the same chain over ONE
// stream that holds the whole table (`<fam>_behind_merge_before_two_pass_wrong_rows`,
// `<fam>_several_streams_wrong_rows` for one pass).  Coq: `chk_merged` = Pipe.v level D
// (merge_stream: CachedStream leftovers, MergeIQRs, limit, Rewind) under the level C chain model
// gives the same rows and the same sizes of the successive Fetch outputs.
package main

import (
	"fmt"
	"io"
	"sort"
	"strings"

	"github.com/siglens/siglens/pkg/ast/pipesearch"
	"github.com/siglens/siglens/pkg/segment/query/processor"

	"verifharness/vhlib"
)

type mergeShape struct {
	ViaMerger bool
	Limit     int // < 0: none
}

func (m mergeShape) String() string {
	switch {
	case !m.ViaMerger:
		return "streams attached to the first command"
	case m.Limit < 0:
		return "merger DP without limit"
	}
	return fmt.Sprintf("merger DP with limit %d", m.Limit)
}

type mergedCase struct {
	SPL     string     `json:"spl"`
	Shape   string     `json:"shape"`
	Table   []string   `json:"table_rows"`
	Streams [][]int    `json:"ids_of_every_stream"`
	Cuts    [][]int    `json:"batch_sizes_of_every_stream"`
	EofWith bool       `json:"eof_with_last_batch"`
	Got     []string   `json:"got"`
	Want    []string   `json:"want_single_stream"`
	Note    string     `json:"note,omitempty"`
}

// the chain `spl` behind k ordered streams; streams[i] = the row indices of t (ascending) of stream i
func runMerged(spl string, t *Table, streams [][]int, cuts [][]int, eofWith bool, shape mergeShape) (res runResult) {
	defer func() {
		if r := recover(); r != nil {
			res.Err = fmt.Sprintf("panic: %v", r)
		}
	}()
	var cached []*processor.CachedStream
	for i, idx := range streams {
		st := &Table{Cols: t.Cols}
		for _, ri := range idx {
			st.Rows = append(st.Rows, t.Rows[ri])
		}
		src := &batchStreamer{t: st, ends: endsOf(cuts[i]), eofWith: eofWith}
		cached = append(cached, processor.NewCachedStream(processor.NewSingleThreadedStream(src)))
	}
	var dps []*processor.DataProcessor
	if strings.TrimSpace(spl) != "" {
		_, aggs, _, perr := pipesearch.ParseQuery("* | "+spl, 0, "Splunk QL")
		if perr != nil {
			res.Err = "parse: " + perr.Error()
			return
		}
		dps = processor.AggsToDataProcessors(aggs, nil)
	}
	if shape.ViaMerger {
		merger := processor.VerifNewOrderedMergerDPOpt("id", uint64(max(shape.Limit, 0)), shape.Limit >= 0)
		merger.SetStreams(cached)
		if len(dps) > 0 {
			dps[0].SetStreams([]*processor.CachedStream{processor.NewCachedStream(merger)})
		}
		dps = append([]*processor.DataProcessor{merger}, dps...)
	} else {
		if len(dps) == 0 {
			res.Err = "no data processors"
			return
		}
		processor.VerifSetOrderedMerge(dps[0], "id")
		dps[0].SetStreams(cached)
	}
	first := 1
	if shape.ViaMerger {
		first = 2
	}
	for i := first; i < len(dps); i++ {
		dps[i].SetStreams([]*processor.CachedStream{processor.NewCachedStream(dps[i-1])})
	}
	last := dps[len(dps)-1]
	total := 16
	for _, c := range cuts {
		total += 4 * len(c)
	}
	for n := 0; ; n++ {
		if n > 4*total {
			res.Err = "no EOF after many fetches"
			return
		}
		q, ferr := last.Fetch()
		if ferr != nil && ferr != io.EOF {
			res.Err = "fetch: " + ferr.Error()
			return
		}
		if q != nil {
			rs, rerr := rowsOf(q)
			if rerr != nil {
				res.Err = "read: " + rerr.Error()
				return
			}
			res.Rows = append(res.Rows, rs...)
			res.Fetches = append(res.Fetches, len(rs))
		}
		if ferr == io.EOF {
			return
		}
	}
}

// batch sizes for a stream of n rows
func streamCut(r *vhlib.Rng, n int, mode int) []int {
	switch mode {
	case 0:
		return []int{n}
	case 1:
		c := make([]int, n)
		for i := range c {
			c[i] = 1
		}
		if n == 0 {
			return []int{0}
		}
		return c
	}
	var c []int
	left := n
	for left > 0 {
		k := 1 + r.Intn(3)
		if r.Chance(12) {
			k = 0
		}
		if k > left {
			k = left
		}
		c = append(c, k)
		left -= k
	}
	if r.Chance(15) || len(c) == 0 {
		c = append(c, 0)
	}
	return c
}

func runMergedStream(cfg vhlib.Config, sum *vhlib.Summary, rng *vhlib.Rng, tables map[string][]*Table) {
	maxTables, nCuts := 3, 3
	if cfg.Thorough() {
		maxTables, nCuts = 14, 8
	}
	var cf *caseFile
	shard := 0
	tabDefined := map[string]bool{}
	expDefined := map[string]string{}
	file := func() *caseFile {
		if cf != nil && cf.size() > 300000 {
			cf.flush(sum, cfg.Out)
			cf = nil
			shard++
		}
		if cf == nil {
			name := "cases_merged"
			if shard > 0 {
				name = fmt.Sprintf("cases_merged_%d", shard)
			}
			cf = newCaseFile(name)
		}
		return cf
	}
	specs := []rewSpec{{Fam: "merger", Up: "", Model: func(*coqCtx) string { return "" }}}
	for _, s := range rewSpecs() {
		switch s.Fam {
		case "head", "tail", "dedup", "streamstats", "rowwise", "twopass", "chain":
			if s.Model != nil && !strings.Contains(s.Up, "sort") {
				specs = append(specs, s)
			}
		}
	}
	downs := append([]twoPassCmd{{SPL: ""}}, twoPassCmds()[:2]...)
	for si := range specs {
		s := &specs[si]
		cr := rng.Fork()
		cmp := &Spec{Cmp: s.Cmp}
		for ti, t := range tables[s.Tables] {
			if ti == 0 || ti > maxTables {
				continue // ti == 0: the empty table
			}
			n := len(t.Rows)
			in := t.crows()
			ks := []int{2 + cr.Intn(3)}
			if n == 12 && (cfg.Thorough() || s.Fam == "head" || s.Fam == "merger" || strings.Contains(s.Up, "head")) {
				ks = []int{2, 3, 4} // every k for the commands that stop reading early
			}
			// the columns the front delivers (bin needs v)
			cols := t.Cols
			if s.Up != "" {
				one := runChain(s.Up, t, []int{n}, false)
				if one.Err != "" {
					continue // reported by the rewound stream
				}
				cols = one.Cols
			}
			for _, k := range ks {
				// deal the rows to k streams; every stream keeps the order of the table
				streams := dealRows(cr, n, k)
				shapes := []mergeShape{{true, -1}, {true, []int{1, 2, (n + 1) / 2, n + 3}[cr.Intn(4)]}, {false, -1}}
				for _, shape := range shapes {
					if !shape.ViaMerger && s.Up == "" {
						shape = mergeShape{true, n} // no command to attach the streams to: a second limit
					}
					lim := n
					if shape.Limit >= 0 && shape.Limit < n {
						lim = shape.Limit
					}
					single := t.sub(0, lim)
					for di, down := range downs {
						spl := s.Up
						if down.Col != "" && ti != 2 && !cfg.Thorough() {
							continue // quick tier: bin behind the 12-row tables only
						}
						if down.SPL != "" {
							hasCol := down.Col == ""
							for _, c := range cols {
								hasCol = hasCol || c == down.Col
							}
							if !hasCol {
								continue
							}
							if spl != "" {
								spl += " | "
							}
							spl += down.SPL
						}
						if spl == "" && !shape.ViaMerger {
							continue
						}
						var want runResult
						if spl == "" {
							want.Rows = single.crows()
						} else {
							want = runChain(spl, single, []int{lim}, false)
						}
						if want.Err != "" {
							continue // reported elsewhere (single stream)
						}
						type obs struct {
							cuts [][]int
							ew   bool
							fs   []int
						}
						var all []obs
						agree := true
						for ci := 0; ci < nCuts; ci++ {
							cuts := make([][]int, k)
							for i := range cuts {
								mode := ci
								if ci >= 2 {
									mode = 2
								}
								cuts[i] = streamCut(cr, len(streams[i]), mode)
							}
							ew := (ci+di+k)%2 == 1
							got := runMerged(spl, t, streams, cuts, ew, shape)
							sum.Eval(fmt.Sprintf("merged|%s|%s|%d|%v|%v|%v|%v", spl, s.Tables, ti, streams, cuts, ew, shape), n > 1)
							sum.Count(fmt.Sprintf("merged_streams/%d", k))
							sum.Count("merged/" + s.Fam)
							ok := got.Err == "" && same(cmp, got.Rows, want.Rows)
							if !ok {
								agree = false
								cls := s.Fam + "_several_streams_wrong_rows"
								if down.SPL != "" {
									cls = s.Fam + "_behind_merge_before_two_pass_wrong_rows"
								}
								sum.Fail(cls, fmt.Sprintf("%q behind %d ordered streams (ids %v, batch sizes %v, EOF with last batch: %v; %s) gives %s; the same %d rows from ONE stream give %s%s",
									spl, k, streams, cuts, ew, shape, firstDiff(rowsStr(got.Rows), rowsStr(want.Rows)), lim, "", errNote(got.Err)),
									mergedCase{SPL: spl, Shape: shape.String(), Table: rowsStr(in), Streams: streams, Cuts: cuts, EofWith: ew,
										Got: rowsStr(got.Rows), Want: rowsStr(want.Rows), Note: got.Err})
							}
							all = append(all, obs{cuts, ew, got.Fetches})
						}
						if ti == 2 && di == 1 && k == 2 && shape.ViaMerger && shape.Limit < 0 {
							sum.Sample(map[string]interface{}{"spl": spl, "table": rowsStr(in), "ids_of_every_stream": streams, "shape": shape.String(), "single_stream_result": rowsStr(want.Rows)})
						}
						// ---- model comparison ----
						if !agree || (down.SPL != "" && down.Model == nil) {
							continue
						}
						f := file()
						tname := fmt.Sprintf("t_%s_%d", strings.ReplaceAll(s.Tables+"g", "-", ""), ti)
						if !tabDefined[f.name+tname] {
							ts, ok := f.cc.rows(t.crowsFull())
							if !ok {
								continue
							}
							fmt.Fprintf(&f.defs, "Definition %s : batch := %s.\n", tname, ts)
							tabDefined[f.name+tname] = true
						}
						ekey := fmt.Sprintf("%s|%s|%s|%d", f.name, tname, spl, lim)
						exp, have := expDefined[ekey]
						if !have {
							es, ok := f.cc.rows(want.Rows)
							if !ok {
								continue
							}
							exp = fmt.Sprintf("e_%d", len(expDefined))
							fmt.Fprintf(&f.defs, "Definition %s : batch := %s.\n", exp, es)
							expDefined[ekey] = exp
						}
						stages := []string{}
						if shape.ViaMerger {
							stages = append(stages, "merger_stage")
						}
						if m := s.Model(f.cc); m != "" {
							stages = append(stages, m)
						}
						if down.SPL != "" {
							stages = append(stages, rs("(twopass_proc "+down.Model(f.cc)+")", "twopass_flags"))
						}
						limit := "None"
						if shape.Limit >= 0 {
							limit = fmt.Sprintf("(Some %d)", shape.Limit)
						}
						sel := make([]string, k)
						for i := range streams {
							sel[i] = "sel_rows " + coqNats(streams[i]) + " " + tname
						}
						items := []string{}
						for _, o := range all {
							items = append(items, fmt.Sprintf("(%s, %v, %s)", coqCuts(o.cuts), o.ew, coqNats(o.fs)))
						}
						fn := "chk_merged"
						if s.Cmp == cmpMultiset {
							fn = "chk_merged_perm"
						}
						f.checks = append(f.checks, fmt.Sprintf("%s %s %s [%s] %s %s %s", fn, f.cc.field("id"), limit, strings.Join(stages, "; "),
							vhlib.CoqList(sel), vhlib.CoqList(items), exp))
						f.ncases += len(all)
					}
				}
			}
		}
	}
	if cf != nil {
		cf.flush(sum, cfg.Out)
	}
}

// every row to a random stream; the first k rows to different streams when there are enough
func dealRows(r *vhlib.Rng, n, k int) [][]int {
	streams := make([][]int, k)
	for i := 0; i < n; i++ {
		s := r.Intn(k)
		if i < k && r.Chance(50) {
			s = i
		}
		streams[s] = append(streams[s], i)
	}
	for i := range streams {
		sort.Ints(streams[i])
	}
	return streams
}

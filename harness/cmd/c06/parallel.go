// parallel.go: chains built and connected by the real planner (SetupQueryParallelism,
// ConnectEachDpChain, setMergeSettings through the C06 hook): GOMAXPROCS parallel copies of
// the front of the chain, each fed by its share of the blocks, merged after the first
// order-insensitive bottleneck.
package main

import (
	"context"
	"encoding/json"
	"fmt"
	"io"
	"os"
	"os/exec"
	"path/filepath"
	"runtime"
	"runtime/debug"
	"sort"
	"strconv"
	"strings"
	"sync"
	"time"

	"github.com/siglens/siglens/pkg/config"
	log "github.com/sirupsen/logrus"

	"github.com/siglens/siglens/pkg/ast/pipesearch"
	"github.com/siglens/siglens/pkg/segment/query/iqr"
	"github.com/siglens/siglens/pkg/segment/query/processor"
	sutils "github.com/siglens/siglens/pkg/segment/utils"

	"verifharness/vhlib"
)

// one upstream: a list of row ranges (blocks) of the table
type blockStreamer struct {
	mu     sync.Mutex
	t      *Table
	blocks [][2]int
	pos    int
	sparse bool // column b is absent from a block in which all its cells are null
}

func (s *blockStreamer) Fetch() (*iqr.IQR, error) {
	s.mu.Lock()
	defer s.mu.Unlock()
	if s.pos >= len(s.blocks) {
		return nil, io.EOF
	}
	lo, hi := s.blocks[s.pos][0], s.blocks[s.pos][1]
	s.pos++
	kv := map[string][]sutils.CValueEnclosure{}
	for ci, c := range s.t.Cols {
		vals := make([]sutils.CValueEnclosure, 0, hi-lo)
		any := false
		for r := lo; r < hi; r++ {
			if s.t.Rows[r][ci].K != 0 {
				any = true
			}
			vals = append(vals, enclosure(s.t.Rows[r][ci]))
		}
		if s.sparse && !any && c == "b" {
			continue
		}
		kv[c] = vals
	}
	q := iqr.NewIQR(0)
	if err := q.AppendKnownValues(kv); err != nil {
		return nil, err
	}
	return q, nil
}
func (s *blockStreamer) Rewind() {
	s.mu.Lock()
	s.pos = 0
	s.mu.Unlock()
}
func (s *blockStreamer) Cleanup()       {}
func (s *blockStreamer) String() string { return "<c06 block streamer>" }

type dpFlags struct {
	OrderMatters, IgnoresOrder, Bottleneck, TwoPass, Generates bool
}

type planResult struct {
	runResult
	Chains   int // chains that received blocks
	CanPar   bool
	MergeIdx int
	Flags    []dpFlags // of the un-cloned chain
}

func flagsOf(dps []*processor.DataProcessor) []dpFlags {
	out := make([]dpFlags, len(dps))
	for i, dp := range dps {
		out[i] = dpFlags{dp.DoesInputOrderMatter(), dp.IgnoresInputOrder(), dp.IsBottleneckCmd(), dp.IsTwoPassCmd(), dp.GeneratesData()}
	}
	return out
}

// blocks: sizes of the successive blocks; dealt round-robin to the chains the planner built
func runPlanned(spl string, t *Table, sizes []int, procs int, sparse bool) (res planResult) {
	defer func() {
		if r := recover(); r != nil {
			res.Err = fmt.Sprintf("panic: %v", r)
			if os.Getenv("C06_STACK") != "" {
				fmt.Println(string(debug.Stack()))
			}
		}
	}()
	old := runtime.GOMAXPROCS(procs)
	defer runtime.GOMAXPROCS(old)
	_, aggs, _, perr := pipesearch.ParseQuery("* | "+spl, 0, "Splunk QL")
	if perr != nil {
		res.Err = "parse: " + perr.Error()
		return
	}
	factory := func() []*processor.DataProcessor {
		c := processor.AggsToDataProcessors(aggs, nil)
		processor.VerifSetMergeSettings(c)
		return c
	}
	probe := factory()
	res.Flags = flagsOf(probe)
	res.CanPar, res.MergeIdx = processor.CanParallelSearch(probe)
	chains, err := processor.SetupQueryParallelism(aggs.HasStatsBlock(), factory)
	if err != nil || len(chains) == 0 || len(chains[0]) == 0 {
		res.Err = fmt.Sprintf("SetupQueryParallelism: %v", err)
		return
	}
	processor.ConnectEachDpChain(chains, nil)
	var live [][]*processor.DataProcessor
	for _, c := range chains {
		if len(c) > 0 {
			live = append(live, c)
		}
	}
	res.Chains = len(live)
	streams := make([]*blockStreamer, len(live))
	for k := range live {
		streams[k] = &blockStreamer{t: t, sparse: sparse}
	}
	lo := 0
	for b, n := range sizes {
		k := b % len(live)
		streams[k].blocks = append(streams[k].blocks, [2]int{lo, lo + n})
		lo += n
	}
	for k, c := range live {
		c[0].SetStreams([]*processor.CachedStream{processor.NewCachedStream(streams[k])})
	}
	last := chains[0][len(chains[0])-1]
	for n := 0; ; n++ {
		if n > 8*len(sizes)+32 {
			res.Err = "no EOF after many fetches"
			return
		}
		q, ferr := last.Fetch()
		if ferr != nil && ferr != io.EOF {
			res.Err = "fetch: " + ferr.Error()
			return
		}
		if q != nil {
			rs, rerr := rowsOf(q)
			if rerr != nil {
				res.Err = "read: " + rerr.Error()
				return
			}
			res.Rows = append(res.Rows, rs...)
			res.Fetches = append(res.Fetches, len(rs))
		}
		if ferr == io.EOF {
			return
		}
	}
}

// ---------- the planned stream ----------
type planSpec struct {
	Family string // class prefix
	SPL    string
	Cmp    int
	Drop   []string
	Sparse bool
	Model  func(cc *coqCtx) string // Coq list of commands, "" = none
}

// class used instead of <Family>_stream_split_dependent (known defect of this path)
var planKnown = map[string]string{"sort_twopass": "parallel_sort_then_two_pass_wrong_result"}

func gstatsOn(by []string) func(cc *coqCtx) string {
	return func(cc *coqCtx) string {
		return fmt.Sprintf("(gstats_cmd %s %s %s %s)", cc.fieldList(by), cc.field("v"), cc.field("count(*)"), cc.field("sum(v)"))
	}
}

func planSpecs() []planSpec {
	binM := func(maxbins int) func(cc *coqCtx) string {
		return func(cc *coqCtx) string {
			return fmt.Sprintf("[whole_cmd (tp_sem (bin_tp %s %d)); %s]", cc.field("lat"), maxbins, gstatsOn([]string{"lat"})(cc))
		}
	}
	return []planSpec{
		// two-pass commands in front of an aggregation: the planner must keep ONE chain
		{"bin", "bin lat | stats count, sum(v) by lat", cmpMultiset, nil, false, binM(100)},
		{"bin", "bin bins=3 lat | stats count, sum(v) by lat", cmpMultiset, nil, false, binM(3)},
		{"bin", "bin lat | sort lat, id", cmpOrdered, nil, false, nil},
		{"bin", "bin bins=5 lat | top lat", cmpCounts, []string{"percent"}, false, nil},
		{"bin", "where v>=0 | bin lat as lb | stats count by lb", cmpMultiset, nil, false, nil},
		{"fillnull", "fillnull value=0 | stats count, sum(v) by b", cmpMultiset, nil, true, func(cc *coqCtx) string {
			return fmt.Sprintf("[whole_cmd (tp_sem (fillnull_tp (VStr %s))); %s]", vhlib.CoqStr("0"), gstatsOn([]string{"b"})(cc))
		}},
		{"fillnull", "fillnull value=0 | top b", cmpCounts, []string{"percent"}, true, nil},
		{"fillnull", "eval w=v*2 | fillnull value=7 | stats count by b, g", cmpMultiset, nil, true, nil},
		// chains the planner may clone per CPU and merge
		{"parallel_stats", "where v>=0 | stats count, sum(v) by a", cmpMultiset, nil, false, func(cc *coqCtx) string {
			return fmt.Sprintf("[rowwise_cmd (fun r => match get r %s with VNum z => if (0 <=? z)%%Z then [r] else [] | _ => [] end); %s]", cc.field("v"), gstatsOn([]string{"a"})(cc))
		}},
		{"parallel_stats", "bin span=10 lat | stats count, sum(v) by lat", cmpMultiset, nil, false, nil},
		{"parallel_stats", "fillnull value=0 v | stats sum(v) by g", cmpMultiset, nil, false, nil},
		{"parallel_stats", "eval w=v*2 | stats sum(w), count by a, g", cmpMultiset, nil, true, nil},
		{"parallel_sort", "eval w=v*2 | sort w, id", cmpOrdered, nil, false, nil},
		{"parallel_sort", "where v>0 | sort -v, id | head 3", cmpOrdered, nil, false, nil},
		{"parallel_top", "eval w=v*2 | top a", cmpCounts, []string{"percent"}, false, nil},
		{"parallel_top", "where v>=0 | rare g", cmpCounts, []string{"percent"}, false, nil},
		// known defect: a two-pass command BEHIND parallel sort chains re-reads sort results that the
		// merger has already consumed
		{"sort_twopass", "sort 100 lat, id | fillnull value=0", cmpOrdered, nil, false, nil},
		{"sort_twopass", "where v>=0 | sort 5 -lat, id | fillnull value=0", cmpOrdered, nil, false, nil},
		{"sort_twopass", "eval w=lat*2 | sort 4 w, id | bin w", cmpOrdered, nil, false, nil},
		// batches whose column sets differ (column b absent from some blocks): sort merges such
		// batches, eval reads the column
		{"eval_missing_column", "eval w=b | fields id, w", cmpOrdered, nil, true, nil},
		{"eval_missing_column", "eval w=b | stats count by w", cmpMultiset, nil, true, nil},
		{"sort_missing_column", "sort lat, id", cmpOrdered, nil, true, nil},
		{"sort_missing_column", "eval w=v*2 | sort -lat, id | head 7", cmpOrdered, nil, true, nil},
		// order-sensitive command first: one chain
		{"ordered", "dedup a | stats count by a", cmpMultiset, nil, false, nil},
		{"ordered", "head 5 | sort v, id", cmpOrdered, nil, false, nil},
		{"ordered", "streamstats count as c | stats max(c) by g", cmpMultiset, nil, false, nil},
	}
}

// value range differs from block to block (cluster = block of 3 rows), column b exists only in
// the rows of cluster 1
func genClustered(r *vhlib.Rng, n int) *Table {
	t := &Table{Cols: []string{tsCol, "id", "a", "b", "g", "v", "lat"}}
	g := "p"
	for i := 0; i < n; i++ {
		cluster := (i / 3) % 4
		row := make([]Cell, len(t.Cols))
		row[0] = Cell{K: 'i', I: int64(1700000000000 - i*1000)}
		row[1] = Cell{K: 'i', I: int64(i)}
		if !r.Chance(10) {
			row[2] = Cell{K: 's', S: vhlib.Pick(r, []string{"x", "y", "z"})}
		}
		if cluster == 1 {
			row[3] = Cell{K: 's', S: "q"}
		}
		if !r.Chance(60) {
			g = vhlib.Pick(r, []string{"p", "q"})
		}
		row[4] = Cell{K: 's', S: g}
		if !r.Chance(10) {
			row[5] = Cell{K: 'i', I: int64(r.Intn(7))}
		}
		row[6] = Cell{K: 'i', I: int64(1000*cluster + r.Intn(10))}
		t.Rows = append(t.Rows, row)
	}
	return t
}

func blocksOf(n, k int) []int {
	var out []int
	for left := n; left > 0; left -= k {
		if left < k {
			out = append(out, left)
		} else {
			out = append(out, k)
		}
	}
	return out
}

func coqBool(b bool) string {
	if b {
		return "t"
	}
	return "f"
}

// families whose defect (before its fix) kills the process inside a fetch goroutine: own child
var crashFamilies = map[string]bool{"sort_missing_column": true, "eval_missing_column": true}

var currentCasePath string

// the case that is about to run, for the parent to report if this process dies
func noteCurrent(c map[string]interface{}) {
	if currentCasePath != "" {
		b, _ := json.Marshal(c)
		_ = os.WriteFile(currentCasePath, b, 0o644)
	}
}

func runPlannedStream(cfg vhlib.Config, sum *vhlib.Summary, rng *vhlib.Rng, onlyFamily string) {
	onlyCrashFamilies := onlyFamily != ""
	nTables := 5
	if cfg.Thorough() {
		nTables = 30
	}
	var tables []*Table
	tr := rng.Fork()
	for i := 0; i < nTables; i++ {
		n := 12 + 3*tr.Intn(9)
		if i == 0 {
			n = 36
		}
		if i == 1 {
			n = 6
		}
		tables = append(tables, genClustered(tr, n))
	}
	cfName := "cases_planned"
	if onlyCrashFamilies {
		cfName = "cases_planned_" + onlyFamily
	}
	cf := newCaseFile(cfName)
	shard := 0
	for _, s := range planSpecs() {
		if crashFamilies[s.Family] != onlyCrashFamilies || (onlyCrashFamilies && s.Family != onlyFamily) {
			continue
		}
		for ti, t := range tables {
			if cf.size() > 300000 {
				cf.flush(sum, cfg.Out)
				shard++
				cf = newCaseFile(fmt.Sprintf("%s_%d", cfName, shard))
			}
			n := len(t.Rows)
			in := t.crows()
			ref := runChain(s.SPL, t, []int{n}, false)
			sum.Count("planned/" + s.Family)
			if ref.Err != "" {
				sum.Fail(s.Family+"_error", fmt.Sprintf("%q on %d rows, one stream: %s", s.SPL, n, ref.Err), failCase{SPL: s.SPL, Table: rowsStr(in), Note: ref.Err})
				continue
			}
			sp := &Spec{Cmp: s.Cmp}
			refRows := project(ref.Rows, s.Drop)
			layouts := [][]int{blocksOf(n, 3), blocksOf(n, 1), blocksOf(n, 2), blocksOf(n, 6)}
			{
				var c []int
				for left := n; left > 0; {
					k := 1 + tr.Intn(5)
					if k > left {
						k = left
					}
					c = append(c, k)
					left -= k
				}
				layouts = append(layouts, c)
			}
			agree := true
			for _, sizes := range layouts {
				for _, procs := range []int{1, 4} {
					noteCurrent(map[string]interface{}{"family": s.Family, "spl": s.SPL, "table_rows": rowsStr(in), "block_sizes": sizes, "gomaxprocs": procs, "sparse_columns": s.Sparse})
					pr := runPlanned(s.SPL, t, sizes, procs, s.Sparse)
					sum.Eval(fmt.Sprintf("planned|%s|%d|%v|%d", s.SPL, ti, sizes, procs), pr.Chains > 1)
					sum.Count(fmt.Sprintf("planned_chains/%d", pr.Chains))
					rows := project(pr.Rows, s.Drop)
					if pr.Err != "" || !same(sp, rows, refRows) {
						// the cloned chains share the option structs of the commands and run concurrently
						// (known race, see notes): a wrong result that does not come back in 4 repetitions
						// of the same run is filed under the race, one that does is a split dependence
						again := 0
						if pr.Chains > 1 {
							for rep := 0; rep < 4; rep++ {
								p2 := runPlanned(s.SPL, t, sizes, procs, s.Sparse)
								if p2.Err != "" || !same(sp, project(p2.Rows, s.Drop), refRows) {
									again++
								}
							}
						} else {
							again = 4
						}
						cls := s.Family + "_stream_split_dependent"
						if k := planKnown[s.Family]; k != "" && pr.Chains > 1 {
							cls = k
						}
						if again == 0 {
							cls = "parallel_chains_shared_options_race"
						} else {
							agree = false
						}
						sum.Fail(cls,
							fmt.Sprintf("%q: %d rows in blocks %v dealt to %d parallel chain(s) built by SetupQueryParallelism (GOMAXPROCS %d, CanParallelSearch = %v,%d) give %s; the same rows through one stream give %s%s [repeated 4 times: wrong again %d times]",
								s.SPL, n, sizes, pr.Chains, procs, pr.CanPar, pr.MergeIdx, firstDiff(rowsStr(rows), rowsStr(refRows)), "", errNote(pr.Err), again),
							map[string]interface{}{"spl": s.SPL, "table_rows": rowsStr(in), "block_sizes": sizes, "gomaxprocs": procs, "chains": pr.Chains,
								"sparse_columns": s.Sparse, "got": rowsStr(rows), "want": rowsStr(refRows), "err": pr.Err, "wrong_again_of_4": again})
					}
				}
			}
			if ti == 0 {
				sum.Sample(map[string]interface{}{"planned_spl": s.SPL, "rows": n, "block_layouts": layouts, "one_stream_result": rowsStr(refRows)})
			}
			if s.Model == nil || !agree {
				continue
			}
			tname := fmt.Sprintf("tp_%d", ti)
			if !strings.Contains(cf.defs.String(), "Definition "+tname+" ") {
				ts, ok := cf.cc.rows(in) // nulls omitted: an absent column and a null cell are the same here
				if !ok {
					continue
				}
				fmt.Fprintf(&cf.defs, "Definition %s : batch := %s.\n", tname, ts)
			}
			exp, ok := cf.cc.rows(refRows)
			if !ok {
				continue
			}
			fn := "chk_chain"
			if s.Cmp == cmpMultiset {
				fn = "chk_chain_perm"
			}
			cf.checks = append(cf.checks, fmt.Sprintf("%s %s %s %s %s", fn, s.Model(cf.cc), tname, coqCuts([][]int{{n}, blocksOf(n, 3), blocksOf(n, 1)}), exp))
			cf.ncases += 3
		}
	}
	cf.flush(sum, cfg.Out)
	if !onlyCrashFamilies {
		runPlannerCases(cfg, sum)
	}
}

// Several ORDERED upstream streams merged under a row limit by the merger DataProcessor
// (what SetupQueryParallelism puts behind parallel sort chains), read by a one-pass or a
// two-pass command: the first `limit` rows of the merged order, in one or two passes.
func runMergerStream(cfg vhlib.Config, sum *vhlib.Summary, r *vhlib.Rng) {
	nTables := 6
	if cfg.Thorough() {
		nTables = 60
	}
	for ti := 0; ti < nTables; ti++ {
		n := 2 + r.Intn(14)
		keys := make([]int, n)
		for i := range keys {
			keys[i] = i * 3
		}
		for i := n - 1; i > 0; i-- {
			j := r.Intn(i + 1)
			keys[i], keys[j] = keys[j], keys[i]
		}
		all := make([][]Cell, n)
		for i := 0; i < n; i++ {
			row := []Cell{{K: 'i', I: int64(1700000000000 - i)}, {K: 'i', I: int64(i)}, {K: 'i', I: int64(keys[i])}, {}}
			if r.Chance(40) {
				row[3] = Cell{K: 's', S: "q"}
			}
			all[i] = row
		}
		for _, k := range []int{2, 3, 4} {
			// deal the rows to k streams, order every stream by key
			per := make([][][]Cell, k)
			for i, row := range all {
				s := r.Intn(k)
				if i < k {
					s = i
				}
				per[s] = append(per[s], row)
			}
			sorted := append([][]Cell{}, all...)
			sort.Slice(sorted, func(a, b int) bool { return sorted[a][2].I < sorted[b][2].I })
			for _, limit := range []int{1, n / 2, n, n + 5} {
				for _, down := range []string{"fillnull value=0", "fillnull value=0 b"} {
					if limit == 0 {
						continue
					}
					res, desc := runMerger(r, per, uint64(limit), down)
					// expected: the first `limit` rows of the whole order, b filled
					want := []CRow{}
					full := &Table{Cols: []string{tsCol, "id", "key", "b"}, Rows: sorted}
					for i := 0; i < len(sorted) && i < limit; i++ {
						row := full.crow(i)
						if row.get("b").K == 0 {
							row = withCell(row, "b", Cell{K: 's', S: "0"})
						}
						want = append(want, row)
					}
					sum.Eval(fmt.Sprintf("merger|%d|%d|%d|%s|%s", ti, k, limit, down, desc), k > 1)
					sum.Count(fmt.Sprintf("merger_streams/%d", k))
					if res.Err != "" || !sameOrdered(res.Rows, want) {
						passes := "two passes"
						if strings.HasSuffix(down, " b") {
							passes = "one pass"
						}
						sum.Fail("ordered_merge_limit_wrong_rows",
							fmt.Sprintf("merger DP (limit %d) over %d ordered streams %s read by %q (%s) gives %s; the first %d rows of the merged order give %s%s",
								limit, k, desc, down, passes, firstDiff(rowsStr(res.Rows), rowsStr(want)), limit, "", errNote(res.Err)),
							map[string]interface{}{"streams": desc, "limit": limit, "downstream": down, "got": rowsStr(res.Rows), "want": rowsStr(want), "err": res.Err})
					}
				}
			}
		}
	}
}

func runMerger(r *vhlib.Rng, per [][][]Cell, limit uint64, down string) (res runResult, desc string) {
	defer func() {
		if rec := recover(); rec != nil {
			res.Err = fmt.Sprintf("panic: %v", rec)
		}
	}()
	merger := processor.VerifNewOrderedMergerDP("key", limit)
	var streams []*processor.CachedStream
	parts := []string{}
	for _, rows := range per {
		sorted := append([][]Cell{}, rows...)
		sort.Slice(sorted, func(a, b int) bool { return sorted[a][2].I < sorted[b][2].I })
		t := &Table{Cols: []string{tsCol, "id", "key", "b"}, Rows: sorted}
		bs := &blockStreamer{t: t}
		ks := []string{}
		for lo := 0; lo < len(sorted); {
			n := 1 + r.Intn(4)
			if lo+n > len(sorted) {
				n = len(sorted) - lo
			}
			bs.blocks = append(bs.blocks, [2]int{lo, lo + n})
			lo += n
		}
		for _, row := range sorted {
			ks = append(ks, strconv.FormatInt(row[2].I, 10))
		}
		parts = append(parts, fmt.Sprintf("[keys %s in %d blocks]", strings.Join(ks, " "), len(bs.blocks)))
		streams = append(streams, processor.NewCachedStream(bs))
	}
	desc = strings.Join(parts, " ")
	merger.SetStreams(streams)
	_, aggs, _, perr := pipesearch.ParseQuery("* | "+down, 0, "Splunk QL")
	if perr != nil {
		res.Err = "parse: " + perr.Error()
		return
	}
	dps := processor.AggsToDataProcessors(aggs, nil)
	if len(dps) != 1 {
		res.Err = "unexpected chain"
		return
	}
	dps[0].SetStreams([]*processor.CachedStream{processor.NewCachedStream(merger)})
	for n := 0; n < 200; n++ {
		q, ferr := dps[0].Fetch()
		if ferr != nil && ferr != io.EOF {
			res.Err = "fetch: " + ferr.Error()
			return
		}
		if q != nil {
			rs, rerr := rowsOf(q)
			if rerr != nil {
				res.Err = "read: " + rerr.Error()
				return
			}
			res.Rows = append(res.Rows, rs...)
		}
		if ferr == io.EOF {
			return
		}
	}
	res.Err = "no EOF"
	return
}

// The cloned chains run concurrently on shared option structs (known race); besides wrong
// results this can end in a nil dereference inside a goroutine of fetchFromAnyStream, which
// no caller can recover: the streams that build parallel chains therefore run in child processes.
func childMain(kind string) {
	os.Args = append(os.Args[:1], os.Args[2:]...)
	log.SetLevel(log.PanicLevel)
	cfg := vhlib.ParseFlags()
	config.InitializeTestingConfig(filepath.Join(cfg.Out, "cfg") + "/")
	config.SetNewQueryPipelineEnabled(true)
	sum := vhlib.NewSummary("")
	rng := vhlib.NewRng(cfg.Seed*104729 + 17)
	currentCasePath = filepath.Join(cfg.Out, "current.json")
	switch kind {
	case "planned":
		runPlannedStream(cfg, sum, rng, "")
		runMergerStream(cfg, sum, rng.Fork())
	default:
		if strings.HasPrefix(kind, "missingcol=") {
			runPlannedStream(cfg, sum, rng, strings.TrimPrefix(kind, "missingcol="))
		}
	case "race":
		runRaceStream(cfg, sum, rng)
	}
	sum.Write(cfg.Out)
}

func runChild(kind string, cfg vhlib.Config, sum *vhlib.Summary, attempts int) {
	for a := 0; a < attempts; a++ {
		dir := filepath.Join(cfg.Out, fmt.Sprintf("%s_%d", strings.ReplaceAll(kind, "=", "_"), a))
		_ = os.MkdirAll(dir, 0o755)
		ctx, cancel := context.WithTimeout(context.Background(), 30*time.Minute)
		cmd := exec.CommandContext(ctx, os.Args[0], kind, "--tier", cfg.Tier, "--seed", strconv.FormatUint(cfg.Seed, 10), "--out", dir)
		out, err := cmd.CombinedOutput()
		cancel()
		if err == nil {
			b, rerr := os.ReadFile(filepath.Join(dir, "summary.json"))
			var cs vhlib.Summary
			if rerr != nil || json.Unmarshal(b, &cs) != nil {
				sum.HarnessError(kind + " child: no summary")
				return
			}
			sum.Evaluations += cs.Evaluations
			sum.Distinct += cs.Distinct
			for k, v := range cs.Distribution {
				sum.Distribution[k] += v
			}
			for _, x := range cs.Samples {
				sum.Sample(x)
			}
			for _, f := range cs.OracleFailures {
				sum.Distribution["oracle_fail/"+f.Class]-- // Fail counts it again
				sum.Fail(f.Class, f.Detail, f.Case)
			}
			sum.CaseFiles = append(sum.CaseFiles, cs.CaseFiles...)
			sum.CasesToModel += cs.CasesToModel
			sum.Notes = append(sum.Notes, cs.Notes...)
			for _, e := range cs.HarnessErrors {
				sum.HarnessError(e)
			}
			return
		}
		tail := string(out)
		if i := strings.Index(tail, "panic:"); i >= 0 {
			tail = tail[i:]
		}
		if len(tail) > 1500 {
			tail = tail[:1500]
		}
		var cur map[string]interface{}
		if b, rerr := os.ReadFile(filepath.Join(dir, "current.json")); rerr == nil {
			_ = json.Unmarshal(b, &cur)
		}
		if fam, _ := cur["family"].(string); crashFamilies[fam] && strings.Contains(string(out), "pkg/segment/query/") {
			cur["panic"] = tail
			sum.Fail(fam+"_stream_split_dependent",
				fmt.Sprintf("%q over batches of which only some have column b (blocks %v, GOMAXPROCS %v): the process died: %s; the same rows in one batch are answered",
					cur["spl"], cur["block_sizes"], cur["gomaxprocs"], strings.SplitN(tail, "\n\n", 2)[0]), cur)
			return
		}
		if strings.Contains(tail, "pkg/segment/query/processor") && strings.Contains(string(out), "fetchFromAnyStream") {
			sum.Fail("parallel_chains_shared_options_race",
				fmt.Sprintf("the process running the %s stream (parallel chains, GOMAXPROCS 4) died in a goroutine of fetchFromAnyStream: %s", kind, strings.SplitN(tail, "\n\n", 2)[0]),
				map[string]interface{}{"stream": kind, "attempt": a, "panic": tail, "case": cur})
			continue
		}
		sum.HarnessError(fmt.Sprintf("%s child failed: %v: %s", kind, err, tail))
		return
	}
	if kind == "planned" {
		sum.HarnessError("planned stream: the child process died in every attempt")
	}
}

// known defect: the parallel chains are built from the same QueryAggregators, so the clones share
// the option structs (lazy caches in *NumericExpr.GetFields, GroupByRequest set up by every
// statsProcessor) and run concurrently; now and then a clone aggregates with half-initialised options
func runRaceStream(cfg vhlib.Config, sum *vhlib.Summary, r *vhlib.Rng) {
	iters := 1200
	if cfg.Thorough() {
		iters = 6000
	}
	t := genClustered(r, 36)
	spl := "eval w=v*2 | stats sum(w), count by a, g"
	ref := runChain(spl, t, []int{36}, false)
	if ref.Err != "" {
		return
	}
	sp := &Spec{Cmp: cmpMultiset}
	for i := 0; i < iters; i++ {
		sizes := blocksOf(36, 1+i%4)
		pr := runPlanned(spl, t, sizes, 4, false)
		sum.Eval(fmt.Sprintf("race|%d", i), true)
		sum.Count("race_stream_runs")
		if pr.Err != "" || !same(sp, pr.Rows, ref.Rows) {
			sum.Fail("parallel_chains_shared_options_race",
				fmt.Sprintf("%q: 36 rows in blocks %v dealt to %d parallel chains (GOMAXPROCS 4), repetition %d of %d identical runs gives %s; one stream gives %s%s",
					spl, sizes, pr.Chains, i, iters, firstDiff(rowsStr(pr.Rows), rowsStr(ref.Rows)), "", errNote(pr.Err)),
				map[string]interface{}{"spl": spl, "table_rows": rowsStr(t.crows()), "block_sizes": sizes, "gomaxprocs": 4, "repetition": i,
					"got": rowsStr(pr.Rows), "want": rowsStr(ref.Rows), "err": pr.Err})
		}
	}
}

// every chain of length <= 3 over representative commands: the real CanParallelSearch on the
// real DataProcessors against can_parallel on their flags, and the flags against flags_of
func runPlannerCases(cfg vhlib.Config, sum *vhlib.Summary) {
	type snip struct{ spl, kind string }
	snips := []snip{{"where v>1", "R"}, {"eval w=v*2", "R"}, {"fields a, v", "R"}, {"bin span=2 v", "R"}, {"fillnull value=0 v", "R"},
		{"rename a as aa", "R"}, {"head 3", "O"}, {"dedup a", "O"}, {"streamstats count", "O"}, {"tail 2", "B"},
		{"bin v", "T"}, {"fillnull value=0", "T"}, {"stats count by a", "A"}, {"sort v", "A"}, {"top a", "A"}, {"rare a", "A"}}
	var chains [][]snip
	for _, a := range snips {
		chains = append(chains, []snip{a})
		for _, b := range snips {
			chains = append(chains, []snip{a, b})
			for _, c := range snips {
				chains = append(chains, []snip{a, b, c})
			}
		}
	}
	hdr := "Definition t := true. Definition f := false.\nDefinition R := KRowwise. Definition O := KOrdered. Definition B := KOrderedAll. Definition T := KTwoPass. Definition A := KAgg.\nDefinition F := mkInfo.\n"
	var items []string
	nfile := 0
	flush := func() {
		if len(items) == 0 {
			return
		}
		name := "cases_planner"
		if nfile > 0 {
			name = fmt.Sprintf("cases_planner_%d", nfile)
		}
		sum.WriteCaseFile(cfg.Out, name, "From SigM Require Import Base Pipe PipeCheck.", hdr, "chk_planner "+vhlib.CoqListNL(items), len(items))
		nfile++
		items = nil
	}
	for _, ch := range chains {
		parts := make([]string, len(ch))
		kinds := make([]string, len(ch))
		for i, s := range ch {
			parts[i] = s.spl
			kinds[i] = s.kind
		}
		spl := strings.Join(parts, " | ")
		var dps []*processor.DataProcessor
		func() {
			defer func() { _ = recover() }()
			_, aggs, _, err := pipesearch.ParseQuery("* | "+spl, 0, "Splunk QL")
			if err == nil {
				dps = processor.AggsToDataProcessors(aggs, nil)
			}
		}()
		if len(dps) != len(ch) {
			sum.Count("planner_chain_skipped")
			sum.Count(fmt.Sprintf("planner_chain_skipped/%d_dps_for_%d/%s", len(dps), len(ch), strings.Join(kinds, "")))
			continue
		}
		can, idx := processor.CanParallelSearch(dps)
		fl := flagsOf(dps)
		fs := make([]string, len(fl))
		for i, x := range fl {
			fs[i] = fmt.Sprintf("F %s %s %s %s %s", coqBool(x.OrderMatters), coqBool(x.IgnoresOrder), coqBool(x.Bottleneck), coqBool(x.TwoPass), coqBool(x.Generates))
		}
		sum.Eval("planner|"+spl, len(ch) > 1)
		sum.Count(fmt.Sprintf("planner/%v", can))
		items = append(items, fmt.Sprintf("([%s], [%s], (%s, %d%%nat))", strings.Join(kinds, ";"), strings.Join(fs, "; "), coqBool(can), idx))
		// oracle on the implementation: a chain may be split only over row-wise commands in front of an aggregation
		if can {
			ok := idx < len(ch) && ch[idx].kind == "A"
			for i := 0; ok && i < idx; i++ {
				ok = ch[i].kind == "R"
			}
			for i := idx + 1; ok && i < len(ch); i++ {
				if ch[i].kind == "T" {
					sum.Fail("planner_splits_before_later_two_pass", fmt.Sprintf("CanParallelSearch(%q) = true,%d although the two-pass command %d behind the merge point will rewind the merged chains", spl, idx, i),
						map[string]interface{}{"spl": spl, "kinds": kinds, "decision": []interface{}{can, idx}})
					break
				}
			}
			if !ok {
				sum.Fail("planner_splits_non_rowwise_prefix", fmt.Sprintf("CanParallelSearch(%q) = true,%d: the chain would be cloned per CPU in front of command %d although a command before it needs the whole or the ordered input", spl, idx, idx),
					map[string]interface{}{"spl": spl, "kinds": kinds, "decision": []interface{}{can, idx}})
			}
		}
		if len(items) >= 2300 {
			flush()
		}
	}
	flush()
}

func stressMain(args []string) {
	r := vhlib.NewRng(7)
	t := genClustered(r, 36)
	for _, spl := range args {
		ref := runChain(spl, t, []int{36}, false)
		sp := &Spec{Cmp: cmpMultiset}
		bad := 0
		for i := 0; i < 3000; i++ {
			sizes := blocksOf(36, 1+i%4)
			pr := runPlanned(spl, t, sizes, 4, false)
			if pr.Err != "" || !same(sp, pr.Rows, ref.Rows) {
				bad++
				if bad <= 3 {
					fmt.Printf("iter %d sizes=%v err=%q\n  got  %v\n  want %v\n", i, sizes, pr.Err, rowsStr(pr.Rows), rowsStr(ref.Rows))
				}
			}
		}
		fmt.Printf("%q: %d bad of 3000\n", spl, bad)
	}
}

func sortProbeMain(args []string) {
	r := vhlib.NewRng(11)
	for _, n := range []int{6, 12, 24, 36} {
		t := genClustered(r, n)
		for _, spl := range args {
			ref := runChain(spl, t, []int{n}, false)
			for _, k := range []int{1, 3, 6} {
				pr := runPlanned(spl, t, blocksOf(n, k), 4, false)
				ids := func(rs []CRow) string {
					o := []string{}
					for _, x := range rs {
						o = append(o, x.get("id").canon()[2:])
					}
					return strings.Join(o, ",")
				}
				fmt.Printf("n=%d %q blocks=%d chains=%d err=%q\n   got  %s\n   want %s\n", n, spl, k, pr.Chains, pr.Err, ids(pr.Rows), ids(ref.Rows))
			}
		}
	}
}

func probeMain(args []string) {
	t := &Table{Cols: []string{tsCol, "id", "a", "b", "lat"}}
	n := 0
	sizes := []int{}
	for round := 0; round < 3; round++ {
		for cluster := 0; cluster < 4; cluster++ {
			base := int64(1000*cluster + 3*round)
			for j := int64(1); j <= 3; j++ {
				row := []Cell{{K: 'i', I: int64(1700000000000 - n*1000)}, {K: 'i', I: int64(n)}, {K: 's', S: []string{"x", "y", "z"}[n%3]}, {}, {K: 'i', I: base + j}}
				if cluster == 1 {
					row[3] = Cell{K: 's', S: "q"}
				}
				t.Rows = append(t.Rows, row)
				n++
			}
			sizes = append(sizes, 3)
		}
	}
	for _, spl := range args {
		for _, procs := range []int{1, 4} {
			r := runPlanned(spl, t, sizes, procs, !strings.Contains(spl, "sort"))
			fmt.Printf("%q procs=%d chains=%d canPar=%v mergeIdx=%d flags=%v err=%q fetches=%v\n", spl, procs, r.Chains, r.CanPar, r.MergeIdx, r.Flags, r.Err, r.Fetches)
			for i, row := range r.Rows {
				if i < 8 || i >= len(r.Rows)-2 {
					fmt.Println("    ", row.String())
				}
			}
		}
	}
}

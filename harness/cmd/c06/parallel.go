// parallel.go: chains built and connected by the real planner (SetupQueryParallelism,
// ConnectEachDpChain, setMergeSettings through the C06 hook): GOMAXPROCS parallel copies of
// the front of the chain, each fed by its share of the blocks, merged after the first
// order-insensitive bottleneck.
package main

import (
	"fmt"
	"io"
	"os"
	"runtime"
	"runtime/debug"
	"strings"
	"sync"

	"github.com/siglens/siglens/pkg/ast/pipesearch"
	"github.com/siglens/siglens/pkg/segment/query/iqr"
	"github.com/siglens/siglens/pkg/segment/query/processor"
	sutils "github.com/siglens/siglens/pkg/segment/utils"
)

// one upstream: a list of row ranges (blocks) of the table
type blockStreamer struct {
	mu     sync.Mutex
	t      *Table
	blocks [][2]int
	pos    int
	sparse bool // a column whose cells are all null in a block is absent from that block
}

func (s *blockStreamer) Fetch() (*iqr.IQR, error) {
	s.mu.Lock()
	defer s.mu.Unlock()
	if s.pos >= len(s.blocks) {
		return nil, io.EOF
	}
	lo, hi := s.blocks[s.pos][0], s.blocks[s.pos][1]
	s.pos++
	kv := map[string][]sutils.CValueEnclosure{}
	for ci, c := range s.t.Cols {
		vals := make([]sutils.CValueEnclosure, 0, hi-lo)
		any := false
		for r := lo; r < hi; r++ {
			if s.t.Rows[r][ci].K != 0 {
				any = true
			}
			vals = append(vals, enclosure(s.t.Rows[r][ci]))
		}
		if s.sparse && !any {
			continue
		}
		kv[c] = vals
	}
	q := iqr.NewIQR(0)
	if err := q.AppendKnownValues(kv); err != nil {
		return nil, err
	}
	return q, nil
}
func (s *blockStreamer) Rewind() {
	s.mu.Lock()
	s.pos = 0
	s.mu.Unlock()
}
func (s *blockStreamer) Cleanup()        {}
func (s *blockStreamer) String() string { return "<c06 block streamer>" }

type dpFlags struct {
	OrderMatters, IgnoresOrder, Bottleneck, TwoPass, Generates bool
}

type planResult struct {
	runResult
	Chains   int // chains that received blocks
	CanPar   bool
	MergeIdx int
	Flags    []dpFlags // of the un-cloned chain
}

func flagsOf(dps []*processor.DataProcessor) []dpFlags {
	out := make([]dpFlags, len(dps))
	for i, dp := range dps {
		out[i] = dpFlags{dp.DoesInputOrderMatter(), dp.IgnoresInputOrder(), dp.IsBottleneckCmd(), dp.IsTwoPassCmd(), dp.GeneratesData()}
	}
	return out
}

// blocks: sizes of the successive blocks; dealt round-robin to the chains the planner built
func runPlanned(spl string, t *Table, sizes []int, procs int, sparse bool) (res planResult) {
	defer func() {
		if r := recover(); r != nil {
			res.Err = fmt.Sprintf("panic: %v", r)
			if os.Getenv("C06_STACK") != "" {
				fmt.Println(string(debug.Stack()))
			}
		}
	}()
	old := runtime.GOMAXPROCS(procs)
	defer runtime.GOMAXPROCS(old)
	_, aggs, _, perr := pipesearch.ParseQuery("* | "+spl, 0, "Splunk QL")
	if perr != nil {
		res.Err = "parse: " + perr.Error()
		return
	}
	factory := func() []*processor.DataProcessor {
		c := processor.AggsToDataProcessors(aggs, nil)
		processor.VerifSetMergeSettings(c)
		return c
	}
	probe := factory()
	res.Flags = flagsOf(probe)
	res.CanPar, res.MergeIdx = processor.CanParallelSearch(probe)
	chains, err := processor.SetupQueryParallelism(aggs.HasStatsBlock(), factory)
	if err != nil || len(chains) == 0 || len(chains[0]) == 0 {
		res.Err = fmt.Sprintf("SetupQueryParallelism: %v", err)
		return
	}
	processor.ConnectEachDpChain(chains, nil)
	var live [][]*processor.DataProcessor
	for _, c := range chains {
		if len(c) > 0 {
			live = append(live, c)
		}
	}
	res.Chains = len(live)
	streams := make([]*blockStreamer, len(live))
	for k := range live {
		streams[k] = &blockStreamer{t: t, sparse: sparse}
	}
	lo := 0
	for b, n := range sizes {
		k := b % len(live)
		streams[k].blocks = append(streams[k].blocks, [2]int{lo, lo + n})
		lo += n
	}
	for k, c := range live {
		c[0].SetStreams([]*processor.CachedStream{processor.NewCachedStream(streams[k])})
	}
	last := chains[0][len(chains[0])-1]
	for n := 0; ; n++ {
		if n > 8*len(sizes)+32 {
			res.Err = "no EOF after many fetches"
			return
		}
		q, ferr := last.Fetch()
		if ferr != nil && ferr != io.EOF {
			res.Err = "fetch: " + ferr.Error()
			return
		}
		if q != nil {
			rs, rerr := rowsOf(q)
			if rerr != nil {
				res.Err = "read: " + rerr.Error()
				return
			}
			res.Rows = append(res.Rows, rs...)
			res.Fetches = append(res.Fetches, len(rs))
		}
		if ferr == io.EOF {
			return
		}
	}
}

func probeMain(args []string) {
	t := &Table{Cols: []string{tsCol, "id", "a", "b", "lat"}}
	n := 0
	sizes := []int{}
	for round := 0; round < 3; round++ {
		for cluster := 0; cluster < 4; cluster++ {
			base := int64(1000*cluster + 3*round)
			for j := int64(1); j <= 3; j++ {
				row := []Cell{{K: 'i', I: int64(1700000000000 - n*1000)}, {K: 'i', I: int64(n)}, {K: 's', S: []string{"x", "y", "z"}[n%3]}, {}, {K: 'i', I: base + j}}
				if cluster == 1 {
					row[3] = Cell{K: 's', S: "q"}
				}
				t.Rows = append(t.Rows, row)
				n++
			}
			sizes = append(sizes, 3)
		}
	}
	for _, spl := range args {
		for _, procs := range []int{1, 4} {
			r := runPlanned(spl, t, sizes, procs, !strings.Contains(spl, "sort"))
			fmt.Printf("%q procs=%d chains=%d canPar=%v mergeIdx=%d flags=%v err=%q fetches=%v\n", spl, procs, r.Chains, r.CanPar, r.MergeIdx, r.Flags, r.Err, r.Fetches)
			for i, row := range r.Rows {
				if i < 8 || i >= len(r.Rows)-2 {
					fmt.Println("    ", row.String())
				}
			}
		}
	}
}

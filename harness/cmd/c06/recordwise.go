// c06, stream "recordwise": stateless per-record commands that WRITE columns, run over inputs in
// which the written column ALREADY EXISTS and in which only some records qualify.
//
// rex, eval, rename, fillnull <fields>, bin span=, makemv, mvexpand, where/regex are implemented per
// BATCH (read a column of the IQR, build the new columns, IQR.AppendKnownValues / RenameColumn), but
// what they mean is defined per RECORD.  Any per-batch decision in such a processor ("no row of this
// batch matched, nothing to write", "every row qualifies, hand the IQR on", "the column is null in the
// whole batch") makes the value a record gets depend on which other records travel in its batch.  It
// stays invisible as long as the written columns are new (a missing column is backfilled with nulls
// when IQRs are appended) or every batch has a qualifying row, which is what the generic row-wise
// family of main.go and the unit tests of the processors have.  This stream therefore
//   * names the capture groups of rex / the targets of eval, rename, fillnull, bin, makemv after
//     columns the input already has (and after the source field itself),
//   * uses patterns / conditions that hold for a part of the records, for none and for all, over
//     tables in which the qualifying records come in runs, so that 2-cuts, one-row batches and random
//     cuts produce batches without any and batches with only qualifying records,
//   * puts such a command in front of and behind commands with state.
// Oracles (property text: "the output defined by applying its documented semantics to the full ordered
// input stream; does not change when the same input reaches it in different batch sizes"):
//   <fam>_chunk_dependent              some batching gives other rows than the un-cut run
//   <fam>_record_depends_on_its_batch  the un-cut run differs from the concatenation of the runs over
//                                      each record alone (a per-record command is a function of the record)
//   rex_adds_empty_named_column        the output carries a column named "" (repaired by 3821681: rex wrote one
//                                      for the whole-match group 0 of the pattern in every batch with a match;
//                                      the class stays so that a regression is reported with its input)
//   rex_wrong_rows / eval_wrong_rows / rename_wrong_rows
//                                      the un-cut run differs from the meaning computed independently
//                                      (Go regexp over the string form of the field; every named group is
//                                      written for every record: the captured text, or null when the record
//                                      does not match - whatever the column held before)
// Coq: rex goes through the batch-level model PipeCols.rex_cmd (columns read, built and written as in
// rexcommand.go, extraction function = the table computed here with Go's regexp, NOT observed from the
// processor); every command additionally through rowwise_cmd over its observed single-record behaviour.
package main

import (
	"fmt"
	"regexp"
	"sort"
	"strconv"
	"strings"

	"verifharness/vhlib"
)

type rexDoc struct {
	Src     string
	Pattern string // RE2 syntax, groups (?P<name>..)
	re      *regexp.Regexp
	groups  []string
}

func newRexDoc(src, pat string) *rexDoc {
	re := regexp.MustCompile(strings.ReplaceAll(pat, "(?<", "(?P<"))
	d := &rexDoc{Src: src, Pattern: pat, re: re}
	for i, n := range re.SubexpNames() {
		if i > 0 && n != "" {
			d.groups = append(d.groups, n)
		}
	}
	return d
}

// the string rex sees for a cell (CValueEnclosure.GetValueAsString)
func cellAsString(c Cell) string {
	switch c.K {
	case 'i':
		return strconv.FormatInt(c.I, 10)
	case 'f':
		return fmt.Sprintf("%f", c.F)
	case 's':
		return c.S
	}
	return ""
}

// the captured texts in group order, or nil,false when the cell does not match
func (d *rexDoc) extract(c Cell) ([]string, bool) {
	m := d.re.FindStringSubmatch(cellAsString(c))
	if len(m) == 0 {
		return nil, false
	}
	out := []string{}
	for i, n := range d.re.SubexpNames() {
		if i > 0 && n != "" {
			out = append(out, m[i])
		}
	}
	return out, true
}

// documented meaning of rex on one record
func (d *rexDoc) row(r CRow) CRow {
	vals, ok := d.extract(r.get(d.Src))
	o := r
	for gi, g := range d.groups {
		if ok {
			o = withCell(o, g, Cell{K: 's', S: vals[gi]})
		} else {
			o = withoutCell(o, g)
		}
	}
	return o
}

func withoutCell(r CRow, name string) CRow {
	var out CRow
	for _, nc := range r {
		if nc.Name != name {
			out = append(out, nc)
		}
	}
	return out
}

type recSpec struct {
	Fam  string
	SPL  string
	Cmp  int
	Rex  *rexDoc
	Doc  func(CRow) []CRow // documented meaning on one record (nil: none)
	Each bool              // stateless per-record command: the single-record oracle and the row-wise model apply
}

func recSpecs() []recSpec {
	var sp []recSpec
	rex := func(src, pat string) {
		sp = append(sp, recSpec{Fam: "rex", SPL: "rex field=" + src + ` "` + pat + `"`, Rex: newRexDoc(src, pat), Each: true})
	}
	// capture group = existing column; the pattern holds for a part of the records
	rex("s", `k(?<v>[12])=w(?<wn>\d)`)       // v exists (numeric), wn is new
	rex("s", `k1=w(?<a>\d+) u(?<b>\d+)`)     // two existing string columns
	rex("s", `k(?<s>[0-2])=`)                // the group is the source field itself
	rex("a", `(?<g>[xy])`)                   // source with null cells
	rex("v", `(?<b>[0-3])`)                  // numeric source
	rex("s", `zzz(?<a>\d)`)                  // no record matches
	rex("b", `(?<a>.*)`)                     // every record matches (a null source is the empty string)
	rex("s", `k(?<kn>[12])=w(?<wn>\d)`)      // new columns only, part of the records
	rex("s", `k[03]=w(?<id>\d) u(?<g>\d+)$`) // overwrites the row id as well
	// eval onto an existing column
	num := func(c Cell) (int64, bool) { return c.I, c.K == 'i' }
	sp = append(sp, recSpec{Fam: "eval", SPL: "eval v=v+1", Each: true, Doc: func(r CRow) []CRow {
		if x, ok := num(r.get("v")); ok {
			return []CRow{withCell(r, "v", Cell{K: 'i', I: x + 1})}
		}
		return nil // not covered by the independent meaning (non-numeric v)
	}})
	sp = append(sp, recSpec{Fam: "eval", SPL: `eval a=if(v>2, "big", a)`, Each: true})
	sp = append(sp, recSpec{Fam: "eval", SPL: `eval b=if(v>2, "big", null())`, Each: true})
	sp = append(sp, recSpec{Fam: "eval", SPL: "eval b=a", Each: true, Doc: func(r CRow) []CRow {
		if c := r.get("a"); c.K != 0 {
			return []CRow{withCell(r, "b", c)}
		}
		return []CRow{withoutCell(r, "b")}
	}})
	sp = append(sp, recSpec{Fam: "eval", SPL: "eval s=len(s)", Each: true})
	sp = append(sp, recSpec{Fam: "eval", SPL: `eval g=if(isnull(a), "none", g)`, Each: true})
	// rename onto an existing column
	ren := func(from, to string) {
		sp = append(sp, recSpec{Fam: "rename", SPL: fmt.Sprintf("rename %s as %s", from, to), Each: true, Doc: func(r CRow) []CRow {
			c := r.get(from)
			o := withoutCell(withoutCell(r, from), to)
			if c.K != 0 {
				o = withCell(o, to, c)
			}
			return []CRow{o}
		}})
	}
	ren("a", "b")
	ren("v", "a")
	ren("b", "id")
	// other per-record writers onto existing columns, conditions holding for a part of the records
	for _, q := range []string{"fillnull value=zz b a", "fillnull value=0 v", "bin span=3 v", "bin span=5 id",
		`makemv delim="=" s`, `makemv delim="w" s | mvexpand s`, `where a="x"`, "where v>3", `where isnull(b)`,
		`eval q=1 | regex s="k[12]="`, `eval q=1 | regex a!="x"`, "fields - a", "fields id, a, v"} {
		fam := strings.Fields(q)[0]
		if strings.Contains(q, "regex") {
			fam = "regex"
		}
		if strings.Contains(q, "mvexpand") {
			fam = "mvexpand"
		}
		sp = append(sp, recSpec{Fam: fam, SPL: q, Each: true})
	}
	// two writers of the same column; a writer in front of / behind commands with state
	for _, q := range []string{
		`eval v=v+1 | rex field=s "k(?<v>[12])="`,
		`rex field=s "k(?<v>[12])=" | eval v=if(isnull(v), -1, v)`,
		`rex field=s "k1=w(?<a>\d)" | rename a as b`,
		`rename a as b | rex field=s "k1=w(?<b>\d)"`,
	} {
		sp = append(sp, recSpec{Fam: "chain", SPL: q, Each: true})
	}
	for _, q := range []string{
		`rex field=s "k(?<v>[12])=" | streamstats count as c by v`,
		`rex field=s "k1=w(?<a>\d)" | dedup 2 a keepempty=true`,
		`rex field=s "k(?<v>[12])=" | head 5`,
		`rex field=s "k(?<v>[12])=" | tail 4`,
		`head 7 | rex field=s "k(?<v>[12])="`,
		`tail 6 | rex field=s "k1=w(?<a>\d)"`,
		`dedup 2 g | rex field=s "k(?<v>[12])="`,
		`streamstats count as v | rex field=s "k(?<v>[12])="`,
		`rex field=s "k(?<v>[12])=" | fillnull value=0`,
		`rex field=s "k1=w(?<a>\d)" | fillnull value=none a | where a!="x"`,
		`streamstats count as v`,
		`streamstats sum(v) as v by g`,
	} {
		fam := "chain"
		if strings.HasPrefix(q, "streamstats") && !strings.Contains(q, "|") {
			fam = "streamstats"
		}
		sp = append(sp, recSpec{Fam: fam, SPL: q})
	}
	for _, q := range []string{
		`rex field=s "k1=w(?<a>\d)" | stats count by a`,
		`rex field=s "k(?<v>[12])=" | stats count, sum(v) by g`,
	} {
		sp = append(sp, recSpec{Fam: "chain", SPL: q, Cmp: cmpMultiset})
	}
	sp = append(sp, recSpec{Fam: "chain", SPL: `rex field=s "k1=w(?<a>\d)" | top a`, Cmp: cmpCounts})
	return sp
}

// tables of the general shape (id, a, b, g, v, s; a, b, v sometimes null) in which the s values that
// decide the match come in runs; kind: 0 = runs, 1 = no record has k1/k2, 2 = every record has k1,
// 3 = the first half has none, the second half all
func genRunsTable(r *vhlib.Rng, n int, kind int) *Table {
	t := genTable(r, "", n)
	kd := r.Intn(4)
	for i := range t.Rows {
		if !r.Chance(65) {
			kd = r.Intn(4)
		}
		k := kd
		switch kind {
		case 1:
			k = []int{0, 3}[r.Intn(2)]
		case 2:
			k = 1
		case 3:
			if i < n/2 {
				k = []int{0, 3}[r.Intn(2)]
			} else {
				k = 1 + r.Intn(2)
			}
		}
		t.Rows[i][6] = Cell{K: 's', S: fmt.Sprintf("k%d=w%d u%d", k, r.Intn(3), i)}
	}
	return t
}

type recFail struct {
	SPL     string   `json:"spl"`
	Table   []string `json:"table_rows"`
	Cut     []int    `json:"batch_sizes,omitempty"`
	EofWith bool     `json:"eof_with_last_batch"`
	Got     []string `json:"got"`
	Want    []string `json:"want"`
	Note    string   `json:"note,omitempty"`
}

// (value of the source field -> captured texts) for the cells of a table, as a Coq association list
func (d *rexDoc) coqTable(t *Table) (string, bool) {
	ci := -1
	for i, c := range t.Cols {
		if c == d.Src {
			ci = i
		}
	}
	if ci < 0 {
		return "", false
	}
	seen := map[string]bool{}
	items := []string{}
	for _, row := range t.Rows {
		c := row[ci]
		k := string(rune(c.K)) + c.canon()
		if seen[k] {
			continue
		}
		seen[k] = true
		v, ok := coqCell(c)
		if !ok {
			return "", false
		}
		vals, hit := d.extract(c)
		if !hit {
			items = append(items, fmt.Sprintf("(%s, None)", v))
			continue
		}
		vs := make([]string, len(vals))
		for i, s := range vals {
			vs[i] = "VStr " + vhlib.CoqStr(s)
		}
		items = append(items, fmt.Sprintf("(%s, Some %s)", v, vhlib.CoqList(vs)))
	}
	if len(items) == 0 {
		return "(@nil (value * option (list value)))", true
	}
	return vhlib.CoqListNL(items), true
}

func runRecordwiseStream(cfg vhlib.Config, sum *vhlib.Summary, rng *vhlib.Rng) {
	nTables, extraCuts := 9, 2
	if cfg.Thorough() {
		nTables, extraCuts = 24, 6
	}
	var tabs []*Table
	tr := rng.Fork()
	for i := 0; i < nTables; i++ {
		n, kind := 2+tr.Intn(11), 0
		switch i {
		case 0:
			n = 0
		case 1:
			n = 1
		case 2:
			n = 12
		case 3:
			n, kind = 6, 1
		case 4:
			n, kind = 5, 2
		case 5:
			n, kind = 8, 3
		}
		tabs = append(tabs, genRunsTable(tr, n, kind))
	}

	var cf *caseFile
	shard := 0
	tabDefined := map[string]bool{}
	flush := func() {
		if cf == nil || len(cf.checks) == 0 {
			return
		}
		full := cf.cc.defs() + cf.defs.String()
		sum.WriteCaseFile(cfg.Out, cf.name, "From SigM Require Import Base Pipe PipeCols PipeCheck.", full,
			"failing "+vhlib.CoqListNL(cf.checks), cf.ncases)
		cf = nil
		shard++
	}
	file := func() *caseFile {
		if cf != nil && cf.size() > 300000 {
			flush()
		}
		if cf == nil {
			name := "cases_recordwise"
			if shard > 0 {
				name = fmt.Sprintf("cases_recordwise_%d", shard)
			}
			cf = newCaseFile(name)
			tabDefined = map[string]bool{}
		}
		return cf
	}

	specs := recSpecs()
	for si := range specs {
		s := &specs[si]
		cr := rng.Fork()
		cmp := &Spec{Cmp: s.Cmp}
		for ti, t := range tabs {
			n := len(t.Rows)
			in := t.crows()
			base := runChain(s.SPL, t, []int{n}, false)
			sum.Count("recordwise/" + s.Fam)
			if base.Err != "" {
				sum.Fail(s.Fam+"_error", fmt.Sprintf("%q on %d rows, un-cut: %s", s.SPL, n, base.Err),
					recFail{SPL: s.SPL, Table: rowsStr(in), Cut: []int{n}, Note: base.Err})
				continue
			}
			baseRows := base.Rows
			// ---- the columns of the output: no command of this stream creates a column without a name ----
			for _, c := range base.Cols {
				if c == "" {
					cls := s.Fam + "_adds_empty_named_column"
					if strings.Contains(s.SPL, "rex ") {
						cls = "rex_adds_empty_named_column"
					}
					sum.Fail(cls, fmt.Sprintf("%q on %d rows (single batch): the output has a column whose name is the empty string (columns %q)", s.SPL, n, base.Cols),
						recFail{SPL: s.SPL, Table: rowsStr(in), Cut: []int{n}, Got: rowsStr(baseRows), Note: fmt.Sprintf("columns of the output: %q", base.Cols)})
				}
			}
			// ---- the documented meaning, computed independently ----
			if s.Rex != nil || s.Doc != nil {
				want := []CRow{}
				covered := true
				for _, r := range in {
					if s.Rex != nil {
						want = append(want, s.Rex.row(r))
						continue
					}
					o := s.Doc(r)
					if o == nil {
						covered = false
						break
					}
					want = append(want, o...)
				}
				if covered && !sameOrdered(baseRows, want) {
					sum.Fail(s.Fam+"_wrong_rows", fmt.Sprintf("%q on %d rows (single batch): %s; expected from the documented per-record meaning",
						s.SPL, n, firstDiff(rowsStr(baseRows), rowsStr(want))),
						recFail{SPL: s.SPL, Table: rowsStr(in), Cut: []int{n}, Got: rowsStr(baseRows), Want: rowsStr(want)})
				}
			}
			// ---- a per-record command is a function of the record: every record alone ----
			type one struct {
				in  CRow
				out []CRow
			}
			var singles []one
			singlesOK := s.Each
			if s.Each {
				cat := []CRow{}
				for i := range t.Rows {
					o := runChain(s.SPL, t.sub(i, i+1), []int{1}, i%2 == 1)
					sum.Eval(fmt.Sprintf("rec1|%s|%d|%d", s.SPL, ti, i), false)
					if o.Err != "" {
						singlesOK = false
						sum.Fail(s.Fam+"_error", fmt.Sprintf("%q on row %d alone: %s", s.SPL, i, o.Err),
							recFail{SPL: s.SPL, Table: rowsStr(in[i : i+1]), Cut: []int{1}, Note: o.Err})
						break
					}
					singles = append(singles, one{in[i], o.Rows})
					cat = append(cat, o.Rows...)
				}
				if singlesOK && !sameOrdered(baseRows, cat) {
					sum.Fail(s.Fam+"_record_depends_on_its_batch", fmt.Sprintf("%q: %d rows in one batch give %s; expected = what the command returns for that record when it is alone in its batch (a per-record command must not look at the other records of the batch)",
						s.SPL, n, firstDiff(rowsStr(baseRows), rowsStr(cat))),
						recFail{SPL: s.SPL, Table: rowsStr(in), Cut: []int{n}, Got: rowsStr(baseRows), Want: rowsStr(cat),
							Note: "want = concatenation of the runs over every record alone"})
				}
			}
			// ---- every batching ----
			cuts := genCuts(cr, n, extraCuts)
			agree := true
			for ci, cut := range cuts {
				ew := ci%2 == 1
				res := runChain(s.SPL, t, cut, ew)
				nb := 0
				for _, k := range cut {
					if k > 0 {
						nb++
					}
				}
				sum.Eval(fmt.Sprintf("rec|%s|%d|%v", s.SPL, ti, cut), n > 0 && nb >= 2)
				if res.Err != "" || !same(cmp, res.Rows, baseRows) {
					agree = false
					sum.Fail(s.Fam+"_chunk_dependent", fmt.Sprintf("%q: %d rows in batches %v (EOF with last batch: %v) give %s; the same rows in one batch give the second%s",
						s.SPL, n, cut, ew, firstDiff(rowsStr(res.Rows), rowsStr(baseRows)), errNote(res.Err)),
						recFail{SPL: s.SPL, Table: rowsStr(in), Cut: cut, EofWith: ew, Got: rowsStr(res.Rows), Want: rowsStr(baseRows), Note: res.Err})
				}
			}
			if ti < 1 || (ti == 2 && si < 3) {
				sum.Sample(map[string]interface{}{"stream": "recordwise", "spl": s.SPL, "table": rowsStr(in), "cuts": cuts, "uncut_result": rowsStr(baseRows)})
			}
			// ---- Coq ----
			if !agree || !s.Each || !singlesOK {
				continue // reported by the oracle; the models are chunk invariant by theorem
			}
			f := file()
			tname := fmt.Sprintf("t_rec_%d", ti)
			if !tabDefined[tname] {
				ts, ok := f.cc.rows(t.crowsFull())
				if !ok {
					continue
				}
				fmt.Fprintf(&f.defs, "Definition %s : batch := %s.\n", tname, ts)
				tabDefined[tname] = true
			}
			exp, ok := f.cc.rows(baseRows)
			if !ok {
				sum.Count("recordwise_not_encodable/" + s.Fam)
				continue
			}
			cutsC := coqCuts(append([][]int{{n}}, cuts...))
			if s.Rex != nil {
				if et, ok := s.Rex.coqTable(t); ok {
					f.checks = append(f.checks, fmt.Sprintf("chk (rex_cmd false %s %s (ext_of_table %s)) %s %s %s",
						f.cc.field(s.Rex.Src), f.cc.fieldList(s.Rex.groups), et, tname, cutsC, exp))
					f.ncases += len(cuts) + 1
				}
			}
			if ti%2 == 1 {
				continue // the observed-row-function comparison on every second table (file size); oracles ran on all
			}
			items := []string{}
			seen := map[string]bool{}
			enc := true
			for _, o := range singles {
				k := o.in.String()
				if seen[k] {
					continue
				}
				seen[k] = true
				a, ok1 := f.cc.row(o.in)
				b, ok2 := f.cc.rows(o.out)
				if !ok1 || !ok2 {
					enc = false
					break
				}
				items = append(items, fmt.Sprintf("(%s, %s)", a, b))
			}
			if !enc {
				sum.Count("recordwise_not_encodable/" + s.Fam)
				continue
			}
			ftab := "(@nil (row * list row))"
			if len(items) > 0 {
				ftab = vhlib.CoqListNL(items)
			}
			f.checks = append(f.checks, fmt.Sprintf("chk (rowwise_cmd (f_of_table %s)) %s %s %s", ftab, tname, cutsC, exp))
			f.ncases += len(cuts) + 1
		}
	}
	flush()
}

// go run ... probe with C06_RECPROBE=1: print what the real chains return for the given SPL texts
func recProbeMain(args []string) {
	r := vhlib.NewRng(11)
	t := genRunsTable(r, 8, 3)
	for _, spl := range args {
		fmt.Printf("== %s\n", spl)
		for _, cut := range [][]int{{8}, {4, 4}, {1, 1, 1, 1, 1, 1, 1, 1}} {
			res := runChain(spl, t, cut, false)
			fmt.Printf(" cut %v err=%q cols=%v\n", cut, res.Err, res.Cols)
			rs := rowsStr(res.Rows)
			sort.SliceStable(rs, func(a, b int) bool { return false })
			for _, x := range rs {
				fmt.Println("    ", x)
			}
		}
	}
}
